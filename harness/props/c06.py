"""C06 -- interrupts, subroutines, reset and WAI."""
import cpu_props

ID = 'C06'
LEAN_MODULES = ['Py65.Props.C06', 'Py65.Props.C06h', 'Py65.Props.C06r']
NAMESPACES = ['Py65.Props.C06', 'Py65.Props.C06h', 'Py65.Props.C06r']
# library helpers (CPython behaviour modelled in lean/Py65/Model/*Rt*.lean ...) that the generated code of these
# modules calls, derived by scanning the Lean sources (harness/rtscan.py); validated against CPython on every run
import rtcheck  # noqa: E402
RT_HELPERS = rtcheck.helpers_for(LEAN_MODULES)
EXPECTED_THEOREMS = ['Py65.Props.C06.rts_after_jsr', 'Py65.Props.C06.rti_after_interrupt', 'Py65.Props.C06.rti_after_brk',
                     'Py65.Props.C06h.balanced_restores', 'Py65.Props.C06h.frame_resumes',
                     'Py65.Props.C06h.frame_resumes_anywhere', 'Py65.Props.C06h.nest_resumes', 'Py65.Props.C06h.frame_core', 'Py65.Props.C06h.plain_step',
                     'Py65.Props.C06r.reset_spec_65c02', 'Py65.Props.C06r.reset_spec_65c02_cfg']
TRUSTED = ['Spec.Cpu / Spec.Cycles (hand-written programming model and documented cycle table, the oracle)', 'translator harness/py2lean.py, validated on every run by exact-state comparison with the real device', 'Py.land/lor/lxor definitions (characterised by theorems, differentially tested)']
ASSUMPTIONS = ['pairing theorems are stated on the specification (RTI/RTS after IRQ/NMI/BRK/JSR with an arbitrary frame-respecting computation in between, every SP incl. wrap); they transfer to the devices through the entry theorems here and the instruction theorems of C01-C03', 'C06h (nesting to ANY depth, on the GENERATED devices, lists of step()/irq()/nmi() calls): Balanced histories are defined inductively (empty; a block of calls ASSUMED to have a neutral net effect on SP and on the protected cells P - Quiet, the only assumption about the inner code -; entry . balanced body respecting the new frame cells . matching exit . balanced rest, where the new frame cells do not collide with P, i.e. the stack has not wrapped into an enclosing frame); balanced_restores: SP and P are restored by a balanced history; frame_resumes / frame_resumes_anywhere / nest_resumes: after entry . balanced body . exit execution resumes after the JSR (pc+3), two bytes after BRK, at the interrupted PC, with the caller SP and (BRK/irq/nmi) the interrupted status up to bits 4/5 - every SP incl. wrap, both widths, three devices; entries: step at $20 / $00, taken irq(), nmi(); exits: step at $60 / $40; JSR covered also when its pushes hit its own operand bytes (Hist.jsr_step), hypotheses: initial state well-formed (6502/65Org16 not waiting), nothing along the run', 'reading of "irq() does nothing while I is set": nothing but ending a WAI on the 65C02']
LEVEL = 'proof'
RULE = ('random interleavings of step/irq/nmi/reset (1-8 operations) from boundary-biased states; every declared opcode x boundary-biased states (registers, operands, pointers and PC aimed at page/wrap boundaries); distinct = distinct (opcode, register-class, pc-quadrant, touched-cell-count) signatures of executions that ran')


def _opcodes(dev, modes):
    return [i for i in range(256) if modes[i][0] != '???']


SPEC = dict(module='props.c06', devs=['6502', '65C02', '65Org16'], opcodes=_opcodes, aspects={'sem', 'wait'}, mode='history',
            n_quick=40, n_thorough=1500, decimal=False)


def explore(ctx):
    cpu_props.explore(ctx, SPEC)


def replay(ctx, path):
    return cpu_props.replay(ctx, path)
