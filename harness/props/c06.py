"""C06 -- interrupts, subroutines, reset and WAI."""
import cpu_props

ID = 'C06'
LEAN_MODULES = []
NAMESPACES = []
LEVEL = 'proof'
RULE = ('random interleavings of step/irq/nmi/reset (1-8 operations) from boundary-biased states; every declared opcode x boundary-biased states (registers, operands, pointers and PC aimed at page/wrap boundaries); distinct = distinct (opcode, register-class, pc-quadrant, touched-cell-count) signatures of executions that ran')


def _opcodes(dev, modes):
    return [i for i in range(256) if modes[i][0] != '???']


SPEC = dict(module='props.c06', devs=['6502', '65C02', '65Org16'], opcodes=_opcodes, aspects={'sem', 'wait'}, mode='history',
            n_quick=40, n_thorough=1500, decimal=False)


def explore(ctx):
    cpu_props.explore(ctx, SPEC)


def replay(ctx, path):
    return cpu_props.replay(ctx, path)
