"""C05 -- execution is total and closed."""
import cpu_props

ID = 'C05'
LEAN_MODULES = []
NAMESPACES = []
LEVEL = 'proof'
RULE = ('all 3x256 opcode bytes x boundary-biased states x short step/irq/nmi/reset histories; every declared opcode x boundary-biased states (registers, operands, pointers and PC aimed at page/wrap boundaries); distinct = distinct (opcode, register-class, pc-quadrant, touched-cell-count) signatures of executions that ran')


def _opcodes(dev, modes):
    return list(range(256))


SPEC = dict(module='props.c05', devs=['6502', '65C02', '65Org16'], opcodes=_opcodes, aspects={'raise'}, mode='history',
            n_quick=40, n_thorough=1500, decimal=True)


def explore(ctx):
    cpu_props.explore(ctx, SPEC)


def replay(ctx, path):
    return cpu_props.replay(ctx, path)
