"""C05 -- execution is total and closed: no opcode, state or address ever raises.

Lean side (Py65.Props.C05): undeclared opcodes change only PC (and not the cycle counter) on every
device; well-formedness is preserved by irq/nmi/reset and by every opcode whose handler theorem is
proved (C01-C03), so registers stay in the byte, PC in the address space.
Here: the real devices on (1) a real list of 2^16 cells (8-bit devices), (2) ObservableMemory
(all devices), (3) a bounds-checking memory that raises on any address outside [0, 2^AW) or any
stored value outside the byte - all 3 x 256 opcode bytes, PCs at the top of memory, pointers and
vectors at the top, short step/irq/nmi/reset histories, decimal mode included."""
import json
import multiprocessing
import random

import common
import cpu_props
from common import DEVNAMES, Case, bg, device_classes, gen_case, widths

ID = 'C05'
LEAN_MODULES = ['Py65.Props.C05', 'Py65.Props.C05h']
NAMESPACES = ['Py65.Props.C05', 'Py65.Props.C05h']
# library helpers (CPython behaviour modelled in lean/Py65/Model/*Rt*.lean ...) that the generated code of these
# modules calls, derived by scanning the Lean sources (harness/rtscan.py); validated against CPython on every run
import rtcheck  # noqa: E402
RT_HELPERS = rtcheck.helpers_for(LEAN_MODULES)
EXPECTED_THEOREMS = ['Py65.Props.C05.undeclared_dev6502', 'Py65.Props.C05.undeclared_dev65c02',
                     'Py65.Props.C05.undeclared_dev65org16', 'Py65.Props.C05.pc_closed',
                     'Py65.Props.C05h.closed_step', 'Py65.Props.C05h.closed_step_6502', 'Py65.Props.C05h.closed_step_65c02',
                     'Py65.Props.C05h.closed_step_65org16', 'Py65.Props.C05h.closed_call', 'Py65.Props.C05h.closed_history',
                     'Py65.Props.C05h.closed_history_6502', 'Py65.Props.C05h.closed_history_65c02',
                     'Py65.Props.C05h.closed_history_65org16', 'Py65.Props.C05h.accesses_closed_history',
                     'Py65.Props.C05h.writes_closed_history', 'Py65.Props.C05h.reads_closed_history']
LEVEL = 'proof'
TRUSTED = ['Spec.Cpu (oracle of the closure lemmas)', 'translator py2lean, validated every run',
           'Python list / ObservableMemory semantics for in-range indices']
ASSUMPTIONS = ['C05h (histories, FULL): WF is preserved by step() at EVERY opcode byte 0..255 of every device (declared via C01-C03 + closure of the programming model Proofs/HistSpecClosed.lean; ADC/SBC in binary AND decimal mode and JSR without side condition directly on the generated helpers, Proofs/HistArith.lean; undeclared via undeclared_dev*; waiting 65C02), by irq(), nmi() and reset(start); hence at every state of every history (closed_history); every access the recording memory logs along a history - all reads and all writes - is at an address inside the address space and every written value fits the byte (accesses_closed_history, writes_/reads_closed_history; per generated handler in Proofs/HistLogHandlers.lean, dispatch through the translator tables devX.instructL); quantified per call (Hist.OpOK): reset(start) is given an address, the 65Org16 opcode cell holds a byte 0..255; initial state well-formed, 6502/65Org16 not waiting',
               'one-step facts of C05 proper: undeclared opcodes, irq/nmi/reset, PC after every step; "never raises" = in-range indices cannot raise on a list / ObservableMemory (C10/C11) + translator accepted the source; the three memory kinds are additionally run dynamically',
               '65Org16: opcode cell in 0..255 (the property quantifies over opcode BYTES 0-255)']
RULE = ('3 devices x 256 opcode bytes x boundary-biased states x memory kinds {list, ObservableMemory, '
        'bounds-checking}; short histories of step/irq/nmi/reset; distinct = (device, opcode, memory kind, '
        'pc class, op sequence) signatures')


def _opcodes(dev, modes):
    return list(range(256))


SPEC = dict(module='props.c05', devs=['6502', '65C02', '65Org16'], opcodes=_opcodes, aspects={'raise'},
            mode='history', n_quick=24, n_thorough=800, decimal=True)


class BoundsMem(object):
    def __init__(self, seed, W, AW, ov):
        self.seed, self.W, self.top, self.bm = seed, W, 1 << AW, (1 << W) - 1
        self.cells = dict(ov)

    def __getitem__(self, a):
        if not isinstance(a, int) or not (0 <= a < self.top):
            raise IndexError('address %r outside the address space' % (a,))
        v = self.cells.get(a)
        return bg(self.seed, self.W, a) if v is None else v

    def __setitem__(self, a, v):
        if not isinstance(a, int) or not (0 <= a < self.top):
            raise IndexError('address %r outside the address space' % (a,))
        if not isinstance(v, int) or not (0 <= v <= self.bm):
            raise ValueError('value %r does not fit in a byte' % (v,))
        self.cells[a] = v


class TrackList(list):
    """a real list (IndexError semantics of list) that remembers which cells were written"""
    def __init__(self, it):
        list.__init__(self, it)
        self.dirty = []

    def __setitem__(self, a, v):
        list.__setitem__(self, a, v)      # raises like a list for an address outside it
        self.dirty.append(a)


def run_one(classes, case, kind, shared):
    from py65.memory import ObservableMemory
    W, AW = widths(case.dev)
    if kind == 'bounds':
        mem = BoundsMem(case.seed, W, AW, case.ov)
    else:
        size = 0x10000 if W == 8 else 0x40000
        base = shared.get((size, W))
        if base is None:
            base = TrackList(bg(7, W, a) for a in range(size))
            shared[(size, W)] = base
        for a in base.dirty:
            list.__setitem__(base, a, bg(7, W, a))
        base.dirty = []
        for a, v in case.ov.items():
            if 0 <= a < size:
                list.__setitem__(base, a, v)
                base.dirty.append(a)
        mem = base if kind == 'list' else ObservableMemory(subject=base, addrWidth=AW)
    try:
        mpu = classes[case.dev](memory=mem, pc=case.startpc)
        mpu.a, mpu.x, mpu.y, mpu.sp, mpu.p, mpu.pc = case.a, case.x, case.y, case.sp, case.p, case.pc
        if hasattr(mpu, 'waiting'):
            mpu.waiting = bool(case.waiting)
        bm, am = (1 << W) - 1, (1 << AW) - 1
        for i, op in enumerate(case.ops):
            if op == 'step' and not getattr(mpu, 'waiting', False) and not (0 <= mem[mpu.pc & (0x3ffff if (W == 16 and kind != 'bounds') else am)] <= 255):
                break
            getattr(mpu, op)()
            for r in ('a', 'x', 'y', 'sp', 'p'):
                v = getattr(mpu, r)
                if not (0 <= v <= bm):
                    return 'after op %d (%s): register %s = %r outside the byte' % (i, op, r, v)
            if not (0 <= mpu.pc <= am):
                return 'after op %d (%s): pc = %r outside the address space' % (i, op, mpu.pc)
    except Exception as ex:
        return 'raised %s: %s' % (type(ex).__name__, ex)
    return None


def _worker(args):
    dev, opcodes, per, seed, quick = args
    classes = device_classes()
    modes = classes[dev].disassemble
    rng = random.Random(seed)
    cases = cpu_props.make_cases(rng, dev, modes, opcodes, per, 'history', True)
    W, AW = widths(dev)
    shared = {}
    out = dict(n=0, findings=[], sig=set())
    kinds = ['bounds', 'obs'] + (['list'] if W == 8 else [])
    for c in cases:
        if W == 16:
            c.waiting = False
        for kind in kinds:
            out['n'] += 1
            f = run_one(classes, c, kind, shared)
            out['sig'].add((dev, c.ov.get(c.pc), kind, c.pc >> (AW - 2), tuple(c.ops)))
            if f:
                opc = c.ov.get(c.pc)
                out['findings'].append(dict(
                    key=dict(dev=dev, opcode=opc, aspect='raise', memory=kind),
                    what='%s opcode $%02x on %s memory: %s' % (dev, opc or 0, kind, f),
                    replay=dict(case=c.to_json(), memory=kind)))
    out['sig'] = list(out['sig'])
    return out


def explore(ctx):
    # generated-model validation + Spec differential for the `raise` aspect (total RecMem)
    cpu_props.explore(ctx, SPEC)
    quick = ctx.quick()
    per = 6 if quick else 300
    jobs = []
    k = 0
    for dev in DEVNAMES:
        for i in range(4 if quick else 16):
            chunk = list(range(256))[i::(4 if quick else 16)]
            jobs.append((dev, chunk, per, ctx.seed * 7919 + k, quick))
            k += 1
    with multiprocessing.Pool(min(16, len(jobs))) as pool:
        res = pool.map(_worker, jobs)
    n = sum(r['n'] for r in res)
    sig = set()
    for r in res:
        sig |= set(map(tuple, r['sig']))
        ctx.findings += r['findings']
    ctx.stats['evaluations'] += n
    ctx.stats['distinct_nontrivial'] += len(sig)
    ctx.stats.setdefault('distribution', {})['memory_kind_runs'] = n
    ctx.note('memory-kind runs: %d (list / ObservableMemory / bounds-checking), findings so far %d' % (n, len(ctx.findings)))


def replay(ctx, path):
    obj = json.load(open(path))
    f = obj.get('finding', {})
    rp = f.get('replay', {})
    if 'memory' in rp:
        c = Case.from_json(rp['case'])
        r = run_one(device_classes(), c, rp['memory'], {})
        print('case   :', c.line('cpu'))
        print('memory :', rp['memory'])
        print('result :', r or 'no exception, registers in range')
        return 1 if r else 0
    return cpu_props.replay(ctx, path)
