"""Tie by regeneration for the monitor's character-I/O set-up and the console read (C18): run the translator
`harness/py2lean_monio.py` (units `io`: monitor.py, `con`: utils/console.py + compat.py) before the build (called from `check.py` through `c18.pre_build(ctx)`, inside
the build lock).

The translator parses `$PY65_REPO/py65/monitor.py` with `ast` and rewrites
`lean/Py65/Gen/MonIOGen.lean` iff its text changed; the check then builds `Py65.Proofs.MonIOGenEq`
(generated = hand model `Model/MonIO.lean`, for all arguments) and `Py65.Props.C18g` (the property
theorems restated for the generated definitions) like any other theorem module, so a source change that
breaks an equality shows up as a broken proof.  A refusal (construct outside the accepted subset, a
changed import / `_output` / `_exit` / `_usage`, an attribute assigned or `_reset` called somewhere
else, an unknown statement in `__init__`) is a broken tie (`kind='translator'`), never by itself a
violation: the exploration still runs.
"""
import json
import os
import subprocess
import sys

HERE = os.path.dirname(os.path.dirname(os.path.abspath(__file__)))
if HERE not in sys.path:
    sys.path.insert(0, HERE)
from common import LEAN, REPO  # noqa: E402

GEN_FILES = {'io': ('MonIOGen.lean', 'py65/monitor.py'),
             'con': ('ConsoleGen.lean', 'py65/utils/console.py + py65/compat.py')}


def pre_build(ctx):
    rep = os.path.join(ctx.work, 'py2lean_monio.json')
    env = dict(os.environ, PY65_REPO=REPO)
    p = subprocess.run([sys.executable, os.path.join(HERE, 'py2lean_monio.py'), '--out',
                        os.path.join(LEAN, 'Py65', 'Gen'), '--report', rep],
                       stdout=subprocess.PIPE, stderr=subprocess.STDOUT, env=env, timeout=120)
    out = p.stdout.decode('utf-8', 'replace')
    r = {}
    try:
        r = json.load(open(rep))
    except Exception:
        pass
    tr = ctx.stats.setdefault('translator', {})
    ok = True
    for unit, (fn, src) in sorted(GEN_FILES.items()):
        u = (r.get('units') or {}).get(unit, {})
        tr['monitor_io' if unit == 'io' else 'console'] = dict(
            unit=unit, file='lean/Py65/Gen/' + fn, functions=u.get('functions'), source=src,
            rewritten=[w for w in (r.get('written') or []) if w == fn], sha256=r.get('sha256'), ok=bool(u.get('ok')))
        if not u.get('ok'):
            ok = False
            err = u.get('error') or r.get('error') or out
            ctx.broken.append(dict(kind='translator',
                                   what='py2lean_monio refused %s (unit %s%s)'
                                        % (src, unit, ', function %s' % u['function'] if u.get('function') else ''),
                                   detail=(err or '')[-1500:], where=u.get('where') or r.get('where'),
                                   function=u.get('function')))
            ctx.note('C18 translator REFUSED unit %s: %s' % (unit, (err or '')[:200]))
    if r.get('written'):
        ctx.note('C18 translator: %s rewritten (the source differs from the pinned translation)'
                 % ', '.join(r['written']))
    return ok
