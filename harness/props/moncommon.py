"""Shared by the monitor checks C18 / C19 / C20: building a real `py65.monitor.Monitor` on a pipe,
running one line under a time budget, snapshots.  Stdlib only."""
import io
import os
import signal
import sys

HERE = os.path.dirname(os.path.dirname(os.path.abspath(__file__)))
if HERE not in sys.path:
    sys.path.insert(0, HERE)
from common import REPO, WORK, history_prologue  # noqa: E402,F401  (also puts PY65_REPO on sys.path)

DEVS = ('6502', '65C02', '65Org16')
WIDTHS = {'6502': (8, 16), '65C02': (8, 16), '65Org16': (16, 32)}


class Budget(BaseException):
    """The command did not return in time (a non-terminating program, an interactive prompt waiting
    for input, an astronomically long listing on the 32-bit device)."""


_FIRED = [False]


def _alarm(sig, frame):
    # Behave like the user's Ctrl-C: `console.getch` and `Monitor._run` let KeyboardInterrupt through
    # (a bare `except:` in console.py would swallow any other exception) and `Monitor.onecmd` reports
    # "Interrupt" and returns.  The timer repeats, in case one interrupt lands inside a bare `except`.
    _FIRED[0] = True
    raise KeyboardInterrupt()


def install_timer():
    signal.signal(signal.SIGALRM, _alarm)


_MON = None


def monitor_module():
    global _MON
    if _MON is None:
        import py65.monitor as mod

        def no_urlopen(url, *a, **k):   # URLs are never fetched by the checks
            raise IOError('urlopen disabled in the verification harness: %s' % (url,))
        mod.urlopen = no_urlopen
        _MON = mod
    return _MON


class Mon(object):
    """One real Monitor with its own stdin pipe and a StringIO stdout."""

    def __init__(self, dev, i=None, o=None, extra=(), kwargs=None):
        mod = monitor_module()
        self.r, self.w = os.pipe()
        self.fin = os.fdopen(self.r, 'rb', 0)
        self.out = io.StringIO()
        start_dev, prologue = (dev, []) if (kwargs and 'memory' in kwargs) else history_prologue(dev)
        argv = ['py65mon', '-m', start_dev]
        if i is not None:
            argv += ['-i', i]
        if o is not None:
            argv += ['-o', o]
        argv += list(extra)
        self.m = mod.Monitor(argv=argv, stdin=self.fin, stdout=self.out, **(kwargs or {}))
        self.prologue = ['Monitor(argv=%r)' % (argv,)] + prologue
        for line in prologue:          # session history that must not matter (common.history_prologue)
            self.m.onecmd(line)
        self.m.lastcmd = ''
        self.out.truncate(0)
        self.out.seek(0)
        self.wopen = True
        self.typed = []                # every line given to onecmd through run() (for replays)

    def feed(self, data):
        if data:
            os.write(self.w, data)

    def pending(self):
        import select
        rd, _, _ = select.select([self.m.stdin], [], [], 0)
        return bool(rd)

    def close_input(self):
        if self.wopen:
            os.close(self.w)
            self.wopen = False

    def run(self, line, budget=3.0):
        """-> (kind, value, text): kind in 'ret' | 'raise' | 'budget'."""
        self.out.truncate(0)
        self.out.seek(0)
        self.typed.append(line)
        _FIRED[0] = False
        kind, val = 'budget', None
        try:
            signal.setitimer(signal.ITIMER_REAL, budget, 0.05)
            try:
                r = self.m.onecmd(line)
                signal.setitimer(signal.ITIMER_REAL, 0)
                kind, val = 'ret', r
            except KeyboardInterrupt:
                kind = 'budget'
            except BaseException as ex:  # noqa: B902 -- an escaping exception is what C20 forbids
                signal.setitimer(signal.ITIMER_REAL, 0)
                kind, val = 'raise', '%s: %s' % (type(ex).__name__, str(ex)[:200])
            finally:
                signal.setitimer(signal.ITIMER_REAL, 0)
        except KeyboardInterrupt:
            kind = 'budget'
        signal.setitimer(signal.ITIMER_REAL, 0)
        if _FIRED[0]:
            kind, val = 'budget', None
        try:
            text = self.out.getvalue()
        except KeyboardInterrupt:
            text = ''
        return kind, val, text

    def subject(self):
        mem = self.m._mpu.memory
        return getattr(mem, '_subject', mem)

    def regs(self):
        u = self.m._mpu
        return (u.a, u.x, u.y, u.sp, u.p, u.pc)

    def snapshot(self):
        m = self.m
        ap = m._address_parser
        return dict(dev=m._mpu.name, regs=self.regs(), mem=hash(tuple(self.subject())),
                    labels=tuple(ap.labels.items()), bps=tuple(m._breakpoints), radix=ap.radix,
                    width=m._width)

    def close(self):
        self.close_input()
        for f in (self.fin, getattr(self.m, 'unbuffered_stdin', None)):
            try:
                if f is not None:
                    f.close()
            except Exception:
                pass


def core_of(snap):
    return {k: snap[k] for k in ('dev', 'regs', 'mem', 'labels', 'bps', 'radix', 'width')}


def tohex(s):
    if isinstance(s, str):
        s = s.encode('latin-1')
    return s.hex() if s else '-'


def unhex(h):
    return '' if h == '-' else bytes.fromhex(h).decode('latin-1')
