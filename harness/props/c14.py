"""C14 -- each device decodes exactly its own instruction set; instances share no state.

Lean side (Py65.Props.C14): the generated tables = Spec.Isa tables for all 256 bytes (kernel
evaluation).  Here: (1) the same comparison on the real classes with an oracle parsed from
lean/Py65/Spec/Isa.lean (failing-input search), (2) all 15 ordered non-empty selections of the three
device modules in fresh interpreters must yield the same four tables, (3) two-instance isolation
experiment on all 9 device pairs."""
import itertools
import json
import os
import random
import re
import subprocess
import sys

import common
from common import DEVNAMES, RecMem, device_classes, gen_case, widths

ID = 'C14'
LEAN_MODULES = ['Py65.Props.C14']
NAMESPACES = ['Py65.Props.C14']
# library helpers (CPython behaviour modelled in lean/Py65/Model/*Rt*.lean ...) that the generated code of these
# modules calls, derived by scanning the Lean sources (harness/rtscan.py); validated against CPython on every run
import rtcheck  # noqa: E402
RT_HELPERS = rtcheck.helpers_for(LEAN_MODULES)
LEVEL = 'proof'
EXPECTED_THEOREMS = ['Py65.Props.C14.isa_6502', 'Py65.Props.C14.isa_65org16', 'Py65.Props.C14.isa_65c02',
                     'Py65.Props.C14.handlers_6502', 'Py65.Props.C14.handlers_65org16',
                     'Py65.Props.C14.handlers_65c02']
RULE = ('3 devices x 256 opcode bytes compared with the documented table (exhaustive); 15 ordered module '
        'selections x 3 devices x 4 tables (exhaustive); 9 device pairs x random interleavings of steps; '
        'distinct = distinct (device, opcode) table rows + distinct configurations + distinct interleavings')
TRUSTED = ['Spec.Isa (documented instruction sets, hand-transcribed)',
           'translator table extraction (reads the live class tables); fresh-interpreter configuration runs']
ASSUMPTIONS = ['instance isolation rests on the translator refusing any write to class/module state plus the dynamic two-instance experiment']

MODS = {'6502': 'py65.devices.mpu6502', '65C02': 'py65.devices.mpu65c02', '65Org16': 'py65.devices.mpu65org16'}


_C8 = dict(byteMask=0xff, addrMask=0xffff, addrHighMask=0xff00, spBase=0x100, BYTE_WIDTH=8, ADDR_WIDTH=16, sp=0xff)
EXPECTED_CFG = {'6502': _C8, '65C02': _C8,
                '65Org16': dict(byteMask=0xffff, addrMask=0xffffffff, addrHighMask=0xffff0000, spBase=0x10000,
                                BYTE_WIDTH=16, ADDR_WIDTH=32, sp=0xffff)}


def spec_tables():
    src = open(os.path.join(common.LEAN, 'Py65', 'Spec', 'Isa.lean')).read()

    def table(name):
        body = src.split('def %s' % name)[1].split(']')[0]
        out = {}
        for m in re.finditer(r'\(0x([0-9a-f]{2}), \.(\w+)(?: (\d))?, \.(\w+)\)', body):
            out[int(m.group(1), 16)] = (m.group(2) + (m.group(3) or ''), m.group(4))
        return out
    nmos = table('nmosTable')
    cmos = dict(nmos)
    cmos.update(table('cmosExtTable'))
    return {'6502': nmos, '65Org16': nmos, '65C02': cmos}


DUMP = r'''
import importlib, json, sys
order = sys.argv[1].split(',')
mods = {'6502': 'py65.devices.mpu6502', '65C02': 'py65.devices.mpu65c02', '65Org16': 'py65.devices.mpu65org16'}
def cfg(i):
    return dict(byteMask=i.byteMask, addrMask=i.addrMask, addrHighMask=i.addrHighMask, spBase=i.spBase,
                BYTE_WIDTH=i.BYTE_WIDTH, ADDR_WIDTH=i.ADDR_WIDTH, sp=i.sp, p=i.p, pc=i.pc)
inst = {}
for d in order:
    m = importlib.import_module(mods[d]); inst['first:' + d] = cfg(m.MPU())
for d in mods:
    m = importlib.import_module(mods[d]); inst['then:' + d] = cfg(m.MPU())
out = {'instances': inst}
for d, name in mods.items():
    m = importlib.import_module(name)
    c = m.MPU
    out[d] = dict(instruct=[f.__module__.split('.')[-1] + '.' + f.__name__ for f in c.instruct],
                  cycletime=list(c.cycletime), extracycles=list(c.extracycles),
                  disassemble=[list(x) for x in c.disassemble])
print(json.dumps(out))
'''


def dump_tables(order):
    env = dict(os.environ, PYTHONPATH=common.REPO)
    p = subprocess.run([sys.executable, '-c', DUMP, ','.join(order)], stdout=subprocess.PIPE,
                       stderr=subprocess.PIPE, env=env, timeout=120)
    if p.returncode != 0:
        return None, p.stderr.decode()[-500:]
    return json.loads(p.stdout.decode()), None


def explore(ctx):
    classes = device_classes()
    spec = spec_tables()
    n_eval = 0
    distinct = set()
    # (1) tables vs documented sets
    for dev in DEVNAMES:
        tbl = classes[dev].disassemble
        for op in range(256):
            n_eval += 1
            exp = spec[dev].get(op, ('???', 'imp'))
            got = tuple(tbl[op])
            h = classes[dev].instruct[op].__name__
            distinct.add((dev, op))
            ok_h = h == ('inst_0x%02x' % op) if op in spec[dev] else h == 'inst_not_implemented'
            if got != exp or not ok_h:
                ctx.findings.append(dict(
                    key=dict(dev=dev, opcode=op, aspect='table'),
                    what='%s opcode $%02x: table says %r handler %s, documented %r' % (dev, op, got, h, exp),
                    replay=dict(dev=dev, opcode=op, got=list(got), handler=h, expected=list(exp))))
    # (2) configurations
    base, err = dump_tables(['6502', '65C02', '65Org16'])
    if base is None:
        ctx.broken.append(dict(kind='tie', what='cannot dump tables in a fresh interpreter', detail=err))
        base = {}
    orders = []
    for k in (1, 2, 3):
        orders += list(itertools.permutations(DEVNAMES, k))
    for order in orders:
        n_eval += 1
        distinct.add(('cfg',) + tuple(order))
        got, err = dump_tables(list(order))
        if got is None:
            ctx.findings.append(dict(key=dict(aspect='config', order=list(order)),
                                     what='importing %s raises: %s' % (order, err), replay=dict(order=list(order))))
            continue
        for key, got_cfg in got.get('instances', {}).items():
            dev = key.split(':')[1]
            exp_cfg = EXPECTED_CFG[dev]
            bad = {k: (got_cfg[k], v) for k, v in exp_cfg.items() if got_cfg[k] != v}
            if bad:
                ctx.findings.append(dict(
                    key=dict(aspect='config-instance', order=list(order), dev=dev),
                    what='after creating %s in this order, a new %s instance has %s (got, documented)' % (list(order), dev, bad),
                    replay=dict(order=list(order), dev=dev, bad={k: list(v) for k, v in bad.items()})))
        for dev in DEVNAMES:
            for tb in ('instruct', 'cycletime', 'extracycles', 'disassemble'):
                if base and got[dev][tb] != base[dev][tb]:
                    idx = [i for i in range(256) if got[dev][tb][i] != base[dev][tb][i]][:5]
                    ctx.findings.append(dict(
                        key=dict(aspect='config', order=list(order), dev=dev, table=tb),
                        what='import order %s changes %s.%s at opcodes %s' % (list(order), dev, tb, idx),
                        replay=dict(order=list(order), dev=dev, table=tb, opcodes=idx)))
    ctx.samples.append(dict(configurations=[list(o) for o in orders][:6]))
    # (3) isolation: two instances, random interleavings
    rng = random.Random(ctx.seed)
    n_pairs = 40 if ctx.quick() else 1500
    for d1 in DEVNAMES:
        for d2 in DEVNAMES:
            for rep in range(n_pairs // 9 + 1):
                n_eval += 1
                seed = rng.randrange(1 << 30)
                r = random.Random(seed)
                try:
                    f = isolation_case(classes, d1, d2, r)
                except Exception as ex:          # the devices themselves fail
                    f = 'raised %s: %s' % (type(ex).__name__, ex)
                distinct.add(('iso', d1, d2, seed % 997))
                if f:
                    ctx.findings.append(dict(key=dict(aspect='isolation', dev=d1, other=d2),
                                             what='instances %s/%s influence each other: %s' % (d1, d2, f),
                                             replay=dict(d1=d1, d2=d2, seed=seed)))
            # instances created WITHOUT a memory argument (each must get its own; seeded change C14-4)
            n_eval += 1
            try:
                f = default_memory_case(classes, d1, d2, random.Random(rng.randrange(1 << 30)))
            except Exception as ex:
                f = 'raised %s: %s' % (type(ex).__name__, ex)
            if f:
                ctx.findings.append(dict(key=dict(aspect='isolation-default-memory', dev=d1, other=d2),
                                         what='instances %s/%s created without a memory argument: %s' % (d1, d2, f),
                                         replay=dict(d1=d1, d2=d2)))
    # (3b) isolation ACROSS processes: what a device computes must not depend on whether a processor of another (or
    # the same) device ran earlier in the process.  The in-process experiments above compare interleaved with solo
    # runs made in the SAME interpreter, so state shared through a module-level or class-level cache is wrong in both
    # and cancels out (seeded change C14-6: N/Z flags memoised per value in a module-level dict); here the solo trace
    # comes from a fresh interpreter.
    n_x, xf = cross_process_isolation(ctx)
    n_eval += n_x
    for f in xf:
        ctx.findings.append(f)
    # (4) 65Org16: an opcode CELL is 16 bits wide; only the 151 documented values (all < 256) are instructions.
    # A cell value >= 256 must not decode or execute as one (raising -- what the pinned tree does, recorded
    # as outside C05's and C09's quantifier 0..255 -- or acting as an undeclared opcode are both "not decoded").
    n_wide = 0
    for v in wide_opcode_values(rng, 60 if ctx.quick() else 3000):
        n_wide += 1
        n_eval += 1
        f = wide_opcode_case(classes, v)
        distinct.add(('wide', v & 0xff, v >> 12))
        if f:
            ctx.findings.append(dict(key=dict(aspect='opcode-cell-above-255', dev='65Org16'),
                                     what='65Org16 opcode cell $%04x is not a documented opcode but %s' % (v, f),
                                     replay=dict(dev='65Org16', cell=v)))
            break
    ctx.stats['evaluations'] = n_eval
    ctx.stats['distinct_nontrivial'] = len(distinct)
    ctx.stats['traces_validated_against_impl'] = n_eval
    ctx.stats['distribution'] = dict(table_rows=768, configurations=len(orders),
                                     pair_runs=n_eval - 768 - len(orders) - n_wide, org16_cells_above_255=n_wide)
    ctx.note('tables, %d configurations, isolation runs: %d findings' % (len(orders), len(ctx.findings)))


def _iso_child(seed, order):
    import subprocess
    import sys
    from common import REPO
    child = os.path.join(os.path.dirname(os.path.abspath(__file__)), 'c14_iso_child.py')
    p = subprocess.run([sys.executable, child, str(seed), ','.join(order)], stdout=subprocess.PIPE, stderr=subprocess.PIPE,
                       env=dict(os.environ, PYTHONPATH=REPO), timeout=120)
    if p.returncode != 0:
        return {'error': p.stderr.decode('utf-8', 'replace')[-400:]}
    return json.loads(p.stdout.decode())


def cross_process_isolation(ctx):
    seed = 1000 + ctx.seed
    solo = {d: _iso_child(seed, [d]) for d in DEVNAMES}
    findings, n = [], 0
    for d1 in DEVNAMES:
        for d2 in DEVNAMES:
            n += 1
            both = _iso_child(seed, [d1, d2])
            for k, d in ((0, d1), (1, d2)):
                got, want = both.get('%d:%s' % (k, d)), solo[d].get('0:%s' % d)
                if got != want:
                    i = next((j for j in range(min(len(got or []), len(want or []))) if got[j] != want[j]), 0) if got and want else 0
                    findings.append(dict(
                        key=dict(aspect='isolation-across-devices', dev=d, other=(d1 if k else d2)),
                        what='a %s that runs %s a %s in the same process computes differently from a %s alone in a fresh '
                             'process: step %d gives (a,x,y,sp,p,pc,cycles) = %s, alone %s%s' % (
                                 d, 'after' if k else 'before', d1 if k else d2, d, i,
                                 (got or ['?'])[i] if got else both.get('error'), (want or ['?'])[i] if want else solo[d].get('error'),
                                 '' if got and want else ' (child failed)'),
                        replay=dict(iso_order=[d1, d2], iso_seed=seed, dev=d)))
                    break
            if findings:
                break
        if findings:
            break
    ctx.stats.setdefault('extra', {})['cross_process_isolation_pairs'] = n
    return n, findings


def wide_opcode_values(rng, n):
    lows = [0xa9, 0x4c, 0x20, 0x00, 0x60, 0xe8, 0x8d, 0xea, 0x69, 0xd0]
    out = [0x0100, 0x01a9, 0xff4c, 0xffff, 0x8000, 0x0120, 0x10e8]
    while len(out) < n:
        out.append((rng.randrange(1, 256) << 8) | (rng.choice(lows) if rng.random() < 0.5 else rng.randrange(256)))
    return out[:n]


def wide_opcode_case(classes, v):
    """-> None, or how the 65Org16 treats the opcode cell value v >= 256 as an instruction."""
    from py65.disassembler import Disassembler
    from py65.utils.addressing import AddressParser
    from py65.memory import ObservableMemory
    m = classes['65Org16'](memory=ObservableMemory(addrWidth=32))
    base = 0x2000
    for i, c in enumerate([v, 0x0012, 0x0034]):
        m.memory[base + i] = c
    m.pc = base
    m.a, m.x, m.y = 0x11, 0x22, 0x33
    m.memory[0x12] = 0x77
    before = (m.a, m.x, m.y, m.sp, m.p)
    try:
        m.step()
        after = (m.a, m.x, m.y, m.sp, m.p)
        if after != before or m.pc != base + 1:
            return 'step() executed it: registers %r -> %r, pc +%d' % (before, after, m.pc - base)
    except Exception:
        pass
    try:
        n, text = Disassembler(m, AddressParser(maxwidth=32)).instruction_at(base)
        if not text.startswith('???'):
            return 'the disassembler shows it as %r' % text
    except Exception:
        pass
    return None


def snapshot(m):
    return (m.a, m.x, m.y, m.sp, m.p, m.pc, m.processorCycles)


def isolation_case(classes, d1, d2, r):
    modes1, modes2 = classes[d1].disassemble, classes[d2].disassemble

    def mk(dev, modes, seed):
        rr = random.Random(seed)
        ops = [i for i in range(256) if modes[i][0] != '???']
        c = gen_case(rr, dev, rr.choice(ops), modes)
        W, _ = widths(dev)
        mem = RecMem(c.seed, W, c.ov)
        m = classes[dev](memory=mem, pc=c.pc)
        m.a, m.x, m.y, m.sp, m.p = c.a, c.x, c.y, c.sp, c.p
        return m
    s1, s2 = r.randrange(1 << 30), r.randrange(1 << 30)
    # solo traces
    solo = []
    for dev, modes, sd in ((d1, modes1, s1), (d2, modes2, s2)):
        m = mk(dev, modes, sd)
        tr = []
        for _ in range(12):
            if not (0 <= m.memory.peek(m.pc) <= 255):
                break
            m.step()
            tr.append(snapshot(m))
        solo.append(tr)
    t1 = [list(classes[d1].instruct), list(classes[d1].cycletime), list(classes[d1].disassemble)]
    a, b = mk(d1, modes1, s1), mk(d2, modes2, s2)
    ia = ib = 0
    tra, trb = [], []
    while ia < len(solo[0]) or ib < len(solo[1]):
        pick_a = ia < len(solo[0]) and (ib >= len(solo[1]) or r.random() < 0.5)
        if pick_a:
            before = snapshot(b)
            a.step()
            tra.append(snapshot(a))
            ia += 1
            if snapshot(b) != before:
                return 'stepping A changed B registers'
        else:
            before = snapshot(a)
            b.step()
            trb.append(snapshot(b))
            ib += 1
            if snapshot(a) != before:
                return 'stepping B changed A registers'
    if tra != solo[0] or trb != solo[1]:
        return 'interleaved trace differs from solo trace'
    if t1 != [list(classes[d1].instruct), list(classes[d1].cycletime), list(classes[d1].disassemble)]:
        return 'class tables changed while running'
    return None


def default_memory_case(classes, d1, d2, r):
    a, b = classes[d1](), classes[d2]()
    if a.memory is b.memory:
        return 'they share one memory object'
    addr = r.randrange(0x0200, 0xff00)
    val = r.randrange(1, 256)
    prog = [0xa9, val, 0x8d, addr & 0xff, addr >> 8] if d1 != '65Org16' else [0xa9, val, 0x8d, addr, 0]
    base = 0x0300 if not (0x0300 <= addr < 0x0310) else 0x0400
    for i, v in enumerate(prog):
        a.memory[base + i] = v
    a.pc = base
    before_b = (snapshot(b), [b.memory[base + i] for i in range(5)], b.memory[addr])
    a.step()
    a.step()
    if a.memory[addr] != val:
        return 'LDA #/STA did not store (harness)'
    if (snapshot(b), [b.memory[base + i] for i in range(5)], b.memory[addr]) != before_b:
        return 'a program loaded into and run on the first changed the second (memory cell %d or registers)' % addr
    c = classes[d1]()
    if c.memory[addr] != 0 or any(c.memory[base + i] != 0 for i in range(5)) or c.memory is a.memory:
        return 'an instance created later starts with the memory contents of an earlier instance'
    shared = [0] * 0x10000
    e, f = classes[d1](memory=shared), classes[d2](memory=shared)
    e.memory[addr] = val
    if f.memory[addr] != val:
        return 'two instances given the SAME memory object do not share it'
    return None


def replay(ctx, path):
    obj = json.load(open(path))
    print(json.dumps(obj.get('finding', obj), indent=1)[:2000])
    f = obj.get('finding', {}).get('replay', {})
    classes = device_classes()
    if 'iso_order' in f:
        both, alone = _iso_child(f['iso_seed'], f['iso_order']), _iso_child(f['iso_seed'], [f['dev']])
        k = f['iso_order'].index(f['dev']) if f['iso_order'][1] != f['dev'] else 1
        same = both.get('%d:%s' % (k, f['dev'])) == alone.get('0:%s' % f['dev'])
        print('now: %s in the order %s vs alone in a fresh process: %s' % (f['dev'], f['iso_order'], 'same trace' if same else 'DIFFERENT traces'))
        return 0 if same else 1
    if 'cell' in f:
        r = wide_opcode_case(classes, f['cell'])
        print('now: 65Org16 opcode cell $%04x: %s' % (f['cell'], r or 'not decoded (raises or acts as undeclared)'))
        return 1 if r else 0
    if 'opcode' in f and 'dev' in f and 'table' not in f:
        dev, op = f['dev'], f['opcode']
        print('now: table', classes[dev].disassemble[op], 'handler', classes[dev].instruct[op].__name__,
              '| documented', spec_tables()[dev].get(op, ('???', 'imp')))
    return 0
