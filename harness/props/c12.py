"""C12 -- each instruction performs exactly the data accesses its definition implies."""
import cpu_props

ID = 'C12'
LEAN_MODULES = []
NAMESPACES = []
LEVEL = 'proof'
RULE = ('every declared opcode x boundary-biased states (registers, operands, pointers and PC aimed at page/wrap boundaries); distinct = distinct (opcode, register-class, pc-quadrant, touched-cell-count) signatures of executions that ran')


def _opcodes(dev, modes):
    return [i for i in range(256) if modes[i][0] != '???']


SPEC = dict(module='props.c12', devs=['6502', '65C02', '65Org16'], opcodes=_opcodes, aspects={'acc'}, mode='step',
            n_quick=60, n_thorough=2000, decimal=True)


def explore(ctx):
    cpu_props.explore(ctx, SPEC)


def replay(ctx, path):
    return cpu_props.replay(ctx, path)
