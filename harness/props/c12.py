"""C12 -- each instruction performs exactly the data accesses its definition implies.

Lean side (Py65.Props.C12): for every declared opcode of each device and every well-formed state,
the events one step() of the REGENERATED model appends to its access log are, as a multiset, the
opcode fetch + Spec.fetched operand bytes + Spec.dataAccesses (accesses_nmos6502 / accesses_cmos /
accesses_org16, no opcode excluded, no side condition); interrupts, reset and the waiting 65C02
likewise.  Here: translator validation (the generated model's log equals the real device's log,
event for event) and the Spec-vs-real differential on the access multiset (failing-input search)."""
import cpu_props

ID = 'C12'
LEAN_MODULES = ['Py65.Props.C12']
NAMESPACES = ['Py65.Props.C12']
EXPECTED_THEOREMS = ['Py65.Props.C12.accesses_nmos6502', 'Py65.Props.C12.accesses_cmos', 'Py65.Props.C12.accesses_org16',
                     'Py65.Props.C12.accesses_waiting', 'Py65.Props.C12.irq_accesses', 'Py65.Props.C12.nmi_accesses',
                     'Py65.Props.C12.fetched_sublist']
TRUSTED = ['Spec.Access / Spec.AccessAll (hand-written: the accesses each instruction definition implies)',
           'translator harness/py2lean.py: memGet/memSet log every memory[...] access of the Python source; validated on every run by comparing the generated model\'s access log with a recording memory under the real device, event for event',
           'getc/putc devices attached by address (py65/monitor.py) are C18; subscribers see one callback per logged event by C10/C11']
ASSUMPTIONS = ['write values are erased in the compared multiset (addresses and kinds only), as the property states']
LEVEL = 'proof'
RULE = ('every declared opcode x boundary-biased states (registers, operands, pointers and PC aimed at page/wrap boundaries); distinct = distinct (opcode, register-class, pc-quadrant, touched-cell-count) signatures of executions that ran')


def _opcodes(dev, modes):
    return [i for i in range(256) if modes[i][0] != '???']


SPEC = dict(module='props.c12', devs=['6502', '65C02', '65Org16'], opcodes=_opcodes, aspects={'acc'}, mode='step',
            n_quick=60, n_thorough=2000, decimal=True)


def explore(ctx):
    cpu_props.explore(ctx, SPEC)


def replay(ctx, path):
    return cpu_props.replay(ctx, path)
