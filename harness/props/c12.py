"""C12 -- each instruction performs exactly the data accesses its definition implies.

Lean side (Py65.Props.C12): for every declared opcode of each device and every well-formed state,
the events one step() of the REGENERATED model appends to its access log are, as a multiset, the
opcode fetch + Spec.fetched operand bytes + Spec.dataAccesses (accesses_nmos6502 / accesses_cmos /
accesses_org16, no opcode excluded, no side condition); interrupts, reset and the waiting 65C02
likewise.  Here: translator validation (the generated model's log equals the real device's log,
event for event) and the Spec-vs-real differential on the access multiset (failing-input search)."""
import multiprocessing
import random

import cpu_props
from common import RecMem, device_classes, widths
from cpu_diff import real_observe

ID = 'C12'
LEAN_MODULES = ['Py65.Props.C12']
NAMESPACES = ['Py65.Props.C12']
# library helpers (CPython behaviour modelled in lean/Py65/Model/*Rt*.lean ...) that the generated code of these
# modules calls, derived by scanning the Lean sources (harness/rtscan.py); validated against CPython on every run
import rtcheck  # noqa: E402
RT_HELPERS = rtcheck.helpers_for(LEAN_MODULES)
EXPECTED_THEOREMS = ['Py65.Props.C12.accesses_nmos6502', 'Py65.Props.C12.accesses_cmos', 'Py65.Props.C12.accesses_org16',
                     'Py65.Props.C12.accesses_waiting', 'Py65.Props.C12.irq_accesses', 'Py65.Props.C12.nmi_accesses',
                     'Py65.Props.C12.fetched_sublist']
TRUSTED = ['Spec.Access / Spec.AccessAll (hand-written: the accesses each instruction definition implies)',
           'translator harness/py2lean.py: memGet/memSet log every memory[...] access of the Python source; validated on every run by comparing the generated model\'s access log with a recording memory under the real device, event for event',
           'getc/putc devices attached by address (py65/monitor.py) are C18; subscribers see one callback per logged event by C10/C11, and by the device-view runs here (ObservableMemory with every physical cell observed, event list compared with the recording memory\'s log)']
ASSUMPTIONS = ['write values are erased in the compared multiset (addresses and kinds only), as the property states']
LEVEL = 'proof'
RULE = ('every declared opcode x boundary-biased states (registers, operands, pointers and PC aimed at page/wrap boundaries); distinct = distinct (opcode, register-class, pc-quadrant, touched-cell-count) signatures of executions that ran')


def _opcodes(dev, modes):
    return [i for i in range(256) if modes[i][0] != '???']


SPEC = dict(module='props.c12', devs=['6502', '65C02', '65Org16'], opcodes=_opcodes, aspects={'acc'}, mode='step',
            n_quick=60, n_thorough=2000, decimal=True)


def _view_worker(args):
    """Device view: the same instruction on an ObservableMemory in which EVERY physical cell has a
    read and a write subscriber.  The subscribers must see exactly the access log a plain recording
    memory saw (same order, same values, addresses reduced to the physical size) -- "a device mapped
    at an address sees one event per architectural access", including accesses made through an
    address that mirrors the cell above the modelled memory (65Org16)."""
    dev, opcodes, per, seed = args
    from py65.memory import ObservableMemory
    classes = device_classes()
    modes = classes[dev].disassemble
    W, AW = widths(dev)
    rng = random.Random(seed)
    cases = cpu_props.make_cases(rng, dev, modes, opcodes, per, 'step', True)
    om = ObservableMemory(addrWidth=AW)
    phys = om.physMask
    seen = []
    om.subscribe_to_read(range(phys + 1), lambda a: seen.append(('r', a)))
    om.subscribe_to_write(range(phys + 1), lambda a, v: seen.append(('w', a, v)))
    subj = om._subject
    out = dict(n=0, skipped=0, mirrored=0, findings=[])
    for c in cases:
        o = real_observe(c, classes)
        if o.raised or not o.ops or o.ops[0] == 'oob':
            out['skipped'] += 1
            continue
        log = o.ops[0]['log']
        init = RecMem(c.seed, W, c.ov)
        cells = {}
        clash = False
        for a in o.touched:
            pa, v = a & phys, init.peek(a)
            if cells.setdefault(pa, v) != v:
                clash = True
        if clash:
            out['skipped'] += 1
            continue
        want = []
        for e in log:
            f = e.split(':')
            want.append(('r', int(f[1]) & phys) if f[0] == 'r' else ('w', int(f[1]) & phys, int(f[2])))
        if any(a > phys for a in o.touched):
            out['mirrored'] += 1
        for pa, v in cells.items():
            subj[pa] = v
        del seen[:]
        mpu = classes[dev](memory=om, pc=None)
        mpu.a, mpu.x, mpu.y, mpu.sp, mpu.p, mpu.pc = c.a, c.x, c.y, c.sp, c.p, c.pc
        mpu.processorCycles, mpu.excycles, mpu.addcycles = c.cycles, c.excycles, c.addcycles
        del seen[:]
        err = None
        try:
            mpu.step()
        except Exception as ex:
            err = '%s: %s' % (type(ex).__name__, ex)
        got = list(seen)
        for pa in set(cells) | set(e[1] for e in got):
            subj[pa] = 0
        out['n'] += 1
        if err or got != want:
            opc = c.ov.get(c.pc)
            name, mo = modes[opc]
            out['findings'].append(dict(
                key=dict(dev=dev, opcode=opc, mnemonic=name, mode=mo, aspect='device-view'),
                what='%s %s %s $%02x on ObservableMemory with every cell observed: subscribers saw %s, the architectural '
                     'accesses are %s' % (dev, name, mo, opc, err or got, want),
                replay=dict(case=c.to_json(), subscribers_saw=err or [list(e) for e in got],
                            expected=[list(e) for e in want])))
    return out


def _mon_worker(args):
    """The monitor's own mapped devices (getc/putc, py65/monitor.py:260-280, part of this property's anchors):
    a program run under a Monitor -- after a seed-derived history of `reset` / `mpu` commands -- stores to the
    output address and loads from the input address; the putc device must see ONE event per store (one
    character printed) and the getc device one event per load (one pending byte consumed).  Generator, runner
    and the event-count oracle are C18's (`props.c18.gen_case/run_case/judge`); only the per-access event counts
    are judged here."""
    seed, idx, n = args
    from props import c18
    c18.install_timer()
    rng = random.Random('c12-mon-%d-%d' % (seed, idx))
    cases = list(c18.fixed_cases()) if idx == 0 else []
    for k in range(n):
        cases.append(c18.gen_case(rng, c18.DEVS[(idx + k) % 3]))
    out = dict(n=0, findings=[], touching=0)
    for c in cases:
        r = c18.run_case(c)
        if r['ctor'] != 'ok':
            continue
        out['n'] += 1
        if c18.classify(c, r):
            out['touching'] += 1
        for kind, what in c18.judge(c, r):
            if not kind.endswith(('-output', '-consumed')):
                continue
            if len(out['findings']) < 4:
                i_, o_, kw_ = c18.mon_args(c)
                seq = ['Monitor(argv=%r)' % (['py65mon', '-m', c['dev']] + (['-i', i_] if i_ is not None else []) +
                                             (['-o', o_] if o_ is not None else []))]
                seq += [('reset' if k_ == 'reset' else 'mpu %s' % a) for k_, a in c['cmds']]
                out['findings'].append(dict(
                    key=dict(aspect='monitor-devices', kind=kind.split('-')[-1]),
                    what='mapped device under the monitor [%s]: %s' % ('; '.join(seq), what),
                    replay=dict(monitor_case=c18._jsonable(c), sequence=seq, detail=what)))
    return out


def explore(ctx):
    cpu_props.explore(ctx, SPEC)
    nm = 40 if ctx.quick() else 1500
    with multiprocessing.Pool(8) as pool:
        mres = pool.map(_mon_worker, [(ctx.seed, i, nm) for i in range(8)])
    seen = set()
    for r in mres:
        for f in r['findings']:
            if f['key']['kind'] not in seen:
                seen.add(f['key']['kind'])
                ctx.findings.append(f)
    ctx.stats.setdefault('distribution', {})['monitor_devices'] = dict(
        cases=sum(r['n'] for r in mres), touching_getc_or_putc=sum(r['touching'] for r in mres))
    ctx.stats['evaluations'] = ctx.stats.get('evaluations', 0) + sum(r['n'] for r in mres)
    ctx.note('monitor devices (getc/putc after reset/mpu histories): %d programs, %d touch I or O' % (
        sum(r['n'] for r in mres), sum(r['touching'] for r in mres)))
    classes = device_classes()
    per = 5 if ctx.quick() else 120
    jobs, k = [], 0
    for dev in SPEC['devs']:
        ops = _opcodes(dev, classes[dev].disassemble)
        nch = 5 if dev == '65Org16' else 3
        for i in range(nch):
            jobs.append((dev, ops[i::nch], per if dev != '65Org16' else per * 2, ctx.seed * 7717 + k))
            k += 1
    with multiprocessing.Pool(min(16, len(jobs))) as pool:
        res = pool.map(_view_worker, jobs)
    n = sum(r['n'] for r in res)
    seenk = set()
    for r in res:
        for f in r['findings']:
            kk = (f['key']['dev'], f['key']['opcode'])
            if kk not in seenk and len(seenk) < 12:
                seenk.add(kk)
                ctx.findings.append(f)
    ctx.stats['evaluations'] += n
    ctx.stats.setdefault('distribution', {})['device_view'] = dict(
        cases=n, through_mirrored_addresses=sum(r['mirrored'] for r in res), skipped=sum(r['skipped'] for r in res))
    ctx.note('device view (every cell of an ObservableMemory observed): %d instructions, %d through mirrored addresses, '
             '%d skipped' % (n, sum(r['mirrored'] for r in res), sum(r['skipped'] for r in res)))


def replay(ctx, path):
    import json
    obj = json.load(open(path))
    rp = (obj.get('finding') or {}).get('replay') or {}
    if 'monitor_case' in rp:
        from props import c18
        c18.install_timer()
        c = c18._from_json(rp['monitor_case'])
        r = c18.run_case(c)
        print('session  : %s' % '; '.join(rp.get('sequence', [])))
        print('program  : %s, pending input %r' % (c['ops'], c['inp']))
        bad = False
        for kind, what in c18.judge(c, r):
            if kind.endswith(('-output', '-consumed')):
                print('DIFF     : [device events] %s' % what)
                bad = True
        return 1 if bad else 0
    return cpu_props.replay(ctx, path)
