"""C16 -- monitor fill / load / save / mem touch exactly the addressed cells on every device.

Proof level: the theorems of lean/Py65/Props/C16.lean hold of the hand-written model
lean/Py65/Model/MonMem.lean (over the ObservableMemory model of C10 and the AddressParser model of
C15) for ALL ranges, data lists, file contents and widths.  This module is

 * the TIE of that model to the real code: random scripts of monitor commands are executed through
   the REAL `Monitor.onecmd` (one fresh `Monitor(argv=['py65mon','-m',dev], stdin=<pipe>,
   stdout=StringIO)` per script, all three devices) and through the Lean model (driver line
   `mon ...`); compared are the parsed output of every command, the COMPLETE backing list of the
   memory after the script, the characters sent to putc, the breakpoint list, width and pc.
   A disagreement is a broken tie (ctx.broken kind='tie');
 * SEPARATELY the PROPERTY, evaluated on the real code's behaviour by a small Python oracle written
   from the property text and independent of the model: after every command the complete backing
   list is compared with "the list before + exactly the cells the property names"; `save` files are
   compared with the cells; `save`/clobber/`load` round trips must restore; `mem` output is parsed
   back; a too wide value/address must be reported and leave the list unchanged.  A deviation is a
   finding with a replay.

Ranges sit at and across $FF/$100, $FFFF/$10000, the I/O cells $F001/$F004, the physical top
($3FFFF/$40000 on the 65Org16) and the top of the address space; data lists have 0-20 items; files
are empty, odd, even, longer than the space to the top; widths 10-200.
"""
import hashlib
import io
import json
import multiprocessing
import os
import random
import re
import shlex
import shutil
import sys
import time
from array import array

HERE = os.path.dirname(os.path.dirname(os.path.abspath(__file__)))
if HERE not in sys.path:
    sys.path.insert(0, HERE)
import common  # noqa: E402
from common import run_driver, bg  # noqa: E402

ID = 'C16'
LEAN_MODULES = ['Py65.Props.C16', 'Py65.Proofs.MonFillGenEq', 'Py65.Proofs.MonMemGenEq', 'Py65.Props.C16g']
NAMESPACES = ['Py65.Props.C16', 'Py65.Proofs.MonFillGenEq', 'Py65.Proofs.MonMemGenEq', 'Py65.Props.C16g']
# library helpers (CPython behaviour modelled in lean/Py65/Model/*Rt*.lean ...) that the generated code of these
# modules calls, derived by scanning the Lean sources (harness/rtscan.py); validated against CPython on every run
import rtcheck  # noqa: E402
RT_HELPERS = rtcheck.helpers_for(LEAN_MODULES)
LEVEL = 'proof'
USES_PROLOGUE = True
USES_GEN = False
EXPECTED_THEOREMS = [
    'Py65.Props.C16.flat_memory', 'Py65.Props.C16.fill_exact', 'Py65.Props.C16.fill_exact_aliasing', 'Py65.Props.C16.fill_rejects', 'Py65.Props.C16.load_exact',
    'Py65.Props.C16.load_data_spec', 'Py65.Props.C16.load_rejects',
    'Py65.Props.C16.save_exact', 'Py65.Props.C16.save_load_roundtrip',
    'Py65.Props.C16.mem_exact', 'Py65.Props.C16.mem_reads_cells',
    # tie by regeneration: generated `_fill` = hand model, and the fill/load theorems restated for it
    'Py65.Proofs.MonFillGenEq.while1_eq', 'Py65.Proofs.MonFillGenEq.fill_eq', 'Py65.Proofs.MonFillGenEq.fill_diverges',
    'Py65.Proofs.MonFillGenEq.doFill_eq',
    'Py65.Props.C16g.fill_exact', 'Py65.Props.C16g.fill_exact_aliasing', 'Py65.Props.C16g.fill_needs_range',
    'Py65.Props.C16g.load_exact', 'Py65.Props.C16g.wrote_line_text',
    # tie by regeneration of the command front ends (unit memcmd): generated do_fill / do_load / do_save / do_mem =
    # hand model MonMem.doFill / doLoad / doSave / doMem for all argument strings, and the remaining theorems restated
    'Py65.Proofs.MonMemGenEq.do_fill_eq', 'Py65.Proofs.MonMemGenEq.fillerExc_kind', 'Py65.Proofs.MonMemGenEq.do_load_pre_eq',
    'Py65.Proofs.MonMemGenEq.do_load_eq', 'Py65.Proofs.MonMemGenEq.do_save_eq', 'Py65.Proofs.MonMemGenEq.do_mem_eq',
    'Py65.Proofs.MonMemGenEq.pairs_eq', 'Py65.Proofs.MonMemGenEq.save_for2_eq', 'Py65.Proofs.MonMemGenEq.mem_for1_eq',
    'Py65.Props.C16g.fill_rejects', 'Py65.Props.C16g.load_rejects', 'Py65.Props.C16g.save_exact',
    'Py65.Props.C16g.save_load_roundtrip', 'Py65.Props.C16g.mem_exact', 'Py65.Props.C16g.mem_reads_cells',
]
RULE = ('one evaluation = one monitor command executed through the real Monitor.onecmd inside a script. '
        'non-trivial = the command wrote at least one cell, wrote a file, printed at least one cell, or was '
        'rejected with a report; distinct = distinct (device, command kind, outcome kind, boundary class of '
        'the start address, boundary class of the end address, length class, data/file length class, '
        'terminal width class) tuples among those')
TRUSTED = [
    'REGENERATED on every run: Monitor._fill (the one-address extension with clipping at addrMask, the `while '
    'address <= end` loop with `address &= self.addrMask`, `filler[index] & self.byteMask`, the index wrap, the '
    'three numbers of the "Wrote" line) is translated from the current py65/monitor.py by harness/py2lean_mon.py '
    'into lean/Py65/Gen/MonFillGen.lean; Py65.Proofs.MonFillGenEq.fill_eq proves the generated method equal to '
    'the hand model MonMem.fill for ALL arguments (hypothesis: a proper range ends at or below addrMask -- '
    'guaranteed by the address parser; fill_diverges shows the loop does not terminate otherwise), and '
    'Py65.Props.C16g restates fill_exact / fill_exact_aliasing / load_exact for the generated method.  A source '
    'change that breaks the equality, or that the translator refuses, is a broken tie',
    'REGENERATED on every run: the command front ends Monitor.do_fill / do_load / do_save / do_mem and their help_* '
    '(arity tests, try/except KeyError/OverflowError/else with the filler loop and `value > self.byteMask`; the file '
    'read with its OSError / urlopen handlers, `top` placement with `//`, the PC default, the 8-bit list and the '
    '16-bit big-endian pairing bytes[0::2]/bytes[1::2]; the two number() calls of save, the cell-by-cell comprehension '
    'over range(start, end + 1), the octet loop range(byteWidth - 8, -1, -8) with (m >> shift) & 0xff, the Saved line; '
    'the range() loop of mem with `len(line) + len(more) > self._width`) are translated by harness/py2lean_monmem.py '
    'into lean/Py65/Gen/MonMemGen.lean, where do_fill / do_load call the GENERATED _fill; '
    'Py65.Proofs.MonMemGenEq.do_fill_eq / do_load_eq / do_save_eq / do_mem_eq prove them equal to the hand model '
    'MonMem.doFill / doLoad / doSave / doMem on shlex.split(args) for ALL argument strings, memories, parsers and worlds '
    '(hypotheses: parser well-formed with maxaddr = addrMask and fuel above the address space for fill; BYTE_WIDTH >= 8 '
    'and fuel above the file length for load; none for save; _width >= 0 for mem); Py65.Props.C16g restates '
    'fill_rejects / load_rejects / save_exact / save_load_roundtrip / mem_exact / mem_reads_cells for the generated methods',
    'hand model lean/Py65/Model/MonMem.lean (monitor.py do_fill/do_load/do_save/do_mem transcribed line '
    'by line on tokenised arguments; _fill also hand-modelled, see above) over Py65.Model.ObsMem and '
    'Py65.Model.AddrParser -- tied to the real Monitor by this sampled correspondence (parsed output of every '
    'command, complete backing list, putc stream, breakpoint list, width, pc) AND by the regeneration above',
    'harness/py2lean_monmem.py (extends py2lean_mon.py: dynamic try/except, raise, comprehensions, range loops, // << >>, '
    'nested def, join functions; isinstance(x, str) is decided statically for Python 3 -- the dead Python-2 branches '
    'are not translated) and the library / OS helpers of lean/Py65/Model/MonMemRt.lean, modelled not verified: the '
    'exceptions with their arguments (PExc), the World (open(name, rb).read() = octets or OSError(errno, strerror); '
    'open(name, wb) succeeds or OSError; urlopen(url).read(); exc.args[0] of the parser\'s KeyError / OverflowError), '
    'file objects (pyOpenR/pyOpenW/pyUrlopen/pyFileWrite, a written file appears at close), bytearray (pyByteArray), '
    '// (pyFloorDiv / Int.fdiv), >> << (pyShr/pyShl), `sub in s` (pyStrIn), l[i::c] (pySliceFromStep), list(map(f,a,b)) '
    '(pyMap2), str(exc) (PExc.str), range (ObsMem.pyRange), shlex.split (MonCmd.shlexSplit), the ObservableMemory item '
    'read (Model.ObsMem.get), the address parser (parseNumberX / parseRangeX over AddrParser.numberL / rangeL)',
    'harness/py2lean_mon.py (Python subset -> Lean; CPython evaluation order for the accepted subset is modelled, '
    'not verified) and the library helpers the generated text calls, lean/Py65/Model/MonGenRt.lean: list indexing '
    '(pyGetItem), %d / %0Nx conversions (pyFmtD, pyFmtX), ObservableMemory item store (Model.ObsMem.set); '
    'self.addrMask / byteMask / addrFmt are the device constants of MonMem.Dev (the translator checks that _reset '
    'still copies them from the device and that nothing else assigns them)',
    'Python facts modelled, not verified: shlex.split (the harness only sends lines whose shlex.split is the '
    'token list it intends and asserts that), cmd.Cmd dispatch, %-formatting, bytes slicing [0::2]/[1::2], zip, '
    'bytearray, open/read/write of files, slice.indices',
    'harness/props/c16.py: generator, output parser, the independent property oracle',
]
ASSUMPTIONS = [
    'the monitor is built as py65mon does (default I/O addresses): reads of $F004 (getc) answer the pending '
    'input byte or 0 -- the harness keeps the input empty, so "the contents" of that one address, as mem and '
    'save see it, is 0 whatever the backing cell holds; writes to $F001 (putc) store the value and also emit '
    'the character (compared as a separate stream).  Character I/O itself is C18',
    'the 65Org16 has 2^32 addresses over 2^18 physical cells: "the cell of address a" is the physical cell '
    'a mod $40000 (item access of ObservableMemory); ranges longer than the physical memory (which would '
    'overwrite themselves) are outside the quantifier',
    'files: existing regular files; for `top` at most as many words as the address space holds',
    'terminal width as set by the width command (>= 10).  30 % of the scripts run in a session context (a `radix` command '
    'and up to five `add_label`s typed first): bare digits are then in that radix and numbers may be labels or '
    'label+/-offset (label values on the byte and address boundaries); the real monitor gets those spellings, the '
    'model (radix 16, no labels) the same numbers as $hex -- number parsing itself is C15',
    'memory cells hold values in [0, 2^BYTE_WIDTH) (true of every cell the monitor or a device writes)',
    'tie by regeneration covers Monitor._fill, do_fill, do_load, do_save, do_mem and their help_* methods; onecmd / '
    'cmd.Cmd dispatch, do_width and the other commands remain hand-modelled and tied by correspondence; the file system '
    'is a parameter (World): save_load_roundtrip assumes that load reads the octets save wrote.  The generated while loop is '
    'fuel-bounded: fill_eq holds for every fuel above the length of the range and needs `end <= addrMask` for a '
    'proper range (do_fill guarantees it: the parser raises OverflowError first); a one-address range needs nothing',
]

GETC, PUTC = 0xF004, 0xF001
DEVS = {
    '6502': dict(W=8, AW=16, phys=0x10000, afmt=4, bfmt=2),
    '65C02': dict(W=8, AW=16, phys=0x10000, afmt=4, bfmt=2),
    '65Org16': dict(W=16, AW=32, phys=0x40000, afmt=8, bfmt=4),
}
SEEDS = [-1, 11, 29]
_TEMPLATES = {}


def pre_build(ctx):
    """translator tie: regenerate lean/Py65/Gen/MonFillGen.lean (unit fill: _fill) and MonMemGen.lean (unit memcmd:
    do_fill / do_load / do_save / do_mem) from the current monitor.py; the units are independent"""
    from props import montie, monmemtie
    a = montie.pre_build(ctx, 'fill')
    b = monmemtie.pre_build(ctx)
    return a and b


def template(dev, seed):
    P = DEVS[dev]
    key = (P['W'], seed)
    t = _TEMPLATES.get(key)
    if t is None:
        if seed == -1:
            t = [0] * P['phys']
        else:
            W = P['W']
            t = [bg(seed, W, a) for a in range(P['phys'])]
        _TEMPLATES[key] = t
    return t


def tohex(s):
    if isinstance(s, str):
        s = s.encode('latin-1')
    return s.hex() if s else '-'


def toks_field(toks):
    if not toks:
        return 'N'
    return ','.join((t.encode('latin-1').hex() if t else 'E') for t in toks)


# ---------------------------------------------------------------------------------------
# scripts: protocol line and command lines
# ---------------------------------------------------------------------------------------

def cmd_token(c):
    k = c['k']
    toks = c.get('ntoks', c.get('toks'))
    if k in ('fill', 'save', 'mem', 'ab', 'db'):
        return '%s/%s' % (k, toks_field(toks))
    if k == 'load':
        return 'load/%s/%s' % (c['file'] or '-', toks_field(toks))
    if k in ('width', 'pc'):
        return '%s/%d' % (k, c['n'])
    if k == 'shb':
        return 'shb'
    raise ValueError(k)


def driver_line(s):
    return 'mon %s %d %d %s' % (s['dev'], s['seed'], s['pc'], ' '.join(cmd_token(c) for c in s['cmds']))


def cmd_line(c, path=None):
    """The text typed at the monitor prompt; asserts that shlex.split gives the intended tokens."""
    k = c['k']
    name = {'fill': 'fill', 'save': 'save', 'mem': 'mem', 'load': 'load', 'ab': 'add_breakpoint',
            'db': 'delete_breakpoint', 'shb': 'show_breakpoints', 'width': 'width'}[k]
    if c.get('short'):
        name = {'fill': c['short'], 'save': 's', 'mem': 'm', 'load': 'l', 'ab': 'ab', 'db': 'db', 'shb': 'shb',
                'width': 'width'}[k]
    if k == 'width':
        return '%s %d' % (name, c['n'])
    if k == 'shb':
        return name
    toks = list(c['toks'])
    if k in ('load', 'save'):
        toks = [path] + toks
    args = ' '.join(toks)
    assert shlex.split(args) == toks, (args, toks)
    return (name + ' ' + args) if args else name


# ---------------------------------------------------------------------------------------
# the real monitor
# ---------------------------------------------------------------------------------------

EXC = {'OverflowError': 'overflow', 'KeyError': 'key', 'IndexError': 'indexError', 'TypeError': 'typeError'}
WROTE = re.compile(r'Wrote \+(-?\d+) bytes from \$(-?[0-9a-f]+) to \$(-?[0-9a-f]+)\n\Z')


def exc_kind(body):
    if 'Traceback (most recent call last)' not in body:
        return None
    last = [l for l in body.split('\n') if l.strip()][-1]
    t = last.split(':')[0].strip()
    return EXC.get(t, 'other:' + t)


class RealMon(object):
    def __init__(self, dev, seed, pc, scratch, sctx=None):
        from py65.monitor import Monitor
        r, w = os.pipe()
        os.close(w)                    # EOF: getch_noblock returns '' at once, getc answers 0
        self.stdin = os.fdopen(r, 'r')
        self.out = io.StringIO()
        start_dev, prologue = common.history_prologue(dev)
        self.mon = Monitor(argv=['py65mon', '-m', start_dev], stdin=self.stdin, stdout=self.out)
        self.prologue = ["Monitor(argv=['py65mon', '-m', %r])" % start_dev] + prologue
        for line in prologue:          # session history that must not matter (common.history_prologue)
            self.mon.onecmd(line)
        if sctx:                       # session context: labels first (their addresses in hex), then the radix
            for nm in sorted(sctx['labels']):
                line = 'add_label $%x %s' % (sctx['labels'][nm], nm)
                self.mon.onecmd(line)
                self.prologue.append(line)
            if sctx['radix'] != 16:
                line = 'radix %s' % {10: 'd', 8: 'o', 2: 'b'}[sctx['radix']]
                self.mon.onecmd(line)
                self.prologue.append(line)
            assert self.mon._address_parser.radix == sctx['radix'], 'radix command had no effect'
            assert dict(self.mon._address_parser.labels) == sctx['labels'], 'add_label commands had no effect'
        self.labels = dict(sctx['labels']) if sctx else {}
        self.mon.lastcmd = ''
        self.dev, self.P = dev, DEVS[dev]
        _m = self.mon._mpu.memory
        self.subj = getattr(_m, '_subject', _m)
        assert len(self.subj) == self.P['phys']
        self.subj[:] = template(dev, seed)
        self.mon._mpu.pc = pc
        self.scratch = scratch
        self.putc = []
        self.nfile = 0

    def close(self):
        try:
            self.stdin.close()
            u = self.mon.unbuffered_stdin
            if u is not None and u is not self.stdin:
                u.close()
        except Exception:
            pass

    BUDGET_S = 25.0

    def type(self, line):
        """One command line through the real `Monitor.onecmd`, under a time budget: a command that
        does not return (e.g. a fill over a range the device does not have) is reported as such
        instead of hanging the check (seeded change C16-3 made `fill` loop over 2^32 addresses)."""
        import signal
        self.out.seek(0)
        self.out.truncate(0)
        fired = [False]

        def on_alarm(sig, frame):
            fired[0] = True
            raise KeyboardInterrupt()
        old = signal.signal(signal.SIGALRM, on_alarm)
        signal.setitimer(signal.ITIMER_REAL, self.BUDGET_S, 0.2)
        try:
            try:
                self.mon.onecmd(line)
            except KeyboardInterrupt:
                pass
        finally:
            signal.setitimer(signal.ITIMER_REAL, 0)
            signal.signal(signal.SIGALRM, old)
        if fired[0]:
            return 'TIMEOUT: `%s` did not return within %d s\n' % (line[:80], self.BUDGET_S)
        text = self.out.getvalue()
        tail = '\n' + repr(self.mon._mpu) + '\n'
        assert text.endswith(tail), text[-200:]
        return text[:-len(tail)]

    def run(self, c):
        """Execute one command; returns (canonical outcome, raw body, command line, file bytes|None)."""
        k = c['k']
        if k == 'pc':
            self.mon._mpu.pc = c['n']
            return 'pc', '', '(pc := %d)' % c['n'], None
        path = None
        if k in ('load', 'save'):
            self.nfile += 1
            path = os.path.join(self.scratch, 'f%d.bin' % self.nfile)
            if k == 'load':
                with open(path, 'wb') as f:
                    f.write(bytes.fromhex(c['file']) if c['file'] else b'')
        line = cmd_line(c, path)
        body = self.type(line)
        data = None
        ex = exc_kind(body)
        if k in ('fill', 'load'):
            m = WROTE.search(body)
            if m:
                self.putc += [ord(ch) for ch in body[:m.start()]]
                out = 'wrote:%d:%d:%d' % (int(m.group(1)), int(m.group(2), 16), int(m.group(3), 16))
            elif ex:
                out = ex
            elif body.startswith('Overflow: $'):
                out = 'overflow'
            elif body.startswith('Label not found'):
                out = 'key'
            elif body.startswith('fill <address_range>'):
                out = 'help'
            elif body.startswith('Syntax error'):
                out = 'syntax'
            else:
                out = 'unparsed:' + body[:60]
        elif k == 'save':
            m = re.match(r'Saved \+(\d+) bytes to (.*)\n\Z', body)
            if m:
                with open(path, 'rb') as f:
                    data = f.read()
                out = 'saved:%d:%s' % (int(m.group(1)), data.hex() or '-')
            elif ex:
                out = ex
            elif body.startswith('Syntax error'):
                out = 'syntax'
            else:
                out = 'unparsed:' + body[:60]
        elif k == 'mem':
            if ex:
                out = ex
            elif body.startswith('mem <address_range>'):
                out = 'help'
            else:
                assert body.endswith('\n')
                out = 'lines:' + ','.join(tohex(l) for l in body[:-1].split('\n'))
        elif k == 'width':
            m = re.search(r'Terminal width is (-?\d+)\n\Z', body)
            out = 'width:%d' % int(m.group(1)) if m else 'unparsed:' + body[:60]
        elif k == 'ab':
            m = re.match(r'Breakpoint (\d+) added at \$([0-9A-F]+)\n\Z', body)
            m2 = re.match(r'Breakpoint already present at \$([0-9A-F]+)\n\Z', body)
            if m:
                out = 'added:%d:%d' % (int(m.group(1)), int(m.group(2), 16))
            elif m2:
                out = 'present:%d' % int(m2.group(1), 16)
            elif ex:
                out = ex
            elif body.startswith('Syntax error'):
                out = 'syntax'
            else:
                out = 'unparsed:' + body[:60]
        elif k == 'db':
            m = re.match(r'Breakpoint (\d+) removed\n\Z', body)
            m2 = re.match(r'Breakpoint (\d+) already removed\n\Z', body)
            if m:
                out = 'removed:%d' % int(m.group(1))
            elif m2:
                out = 'already:%d' % int(m2.group(1))
            elif ex:
                out = ex
            elif body.startswith('Illegal number'):
                out = 'illegal'
            elif body.startswith('Syntax error'):
                out = 'syntax'
            else:
                out = 'unparsed:' + body[:60]
        elif k == 'shb':
            l = []
            ok = True
            for ln in body.split('\n'):
                if not ln:
                    continue
                m = re.match(r'Breakpoint (\d+): \$([0-9A-F]+)(?: (\S+))?$', ln)
                if m and m.group(3) is not None and self.labels.get(m.group(3)) != int(m.group(2), 16):
                    m = None               # a label is shown only when it stands for that address
                if not m:
                    ok = False
                    break
                l.append('%d=%d' % (int(m.group(1)), int(m.group(2), 16)))
            out = ('bps:' + (','.join(l) or '-')) if ok else 'unparsed:' + body[:60]
        else:
            raise ValueError(k)
        return out, body, line, data

    def tail_state(self):
        bps = ','.join('x' if b is None else str(b) for b in self.mon._breakpoints) or '-'
        return (' '.join(str(v) for v in self.putc) or '-', bps, '%d %d' % (self.mon._width, self.mon._mpu.pc))


# ---------------------------------------------------------------------------------------
# the property oracle (independent of the model; works on the real code's behaviour)
# ---------------------------------------------------------------------------------------

def cell_read(P, subj, a):
    """What a read of address `a` returns: the physical cell, except the getc register (no input)."""
    p = a % P['phys']
    return 0 if p == GETC else subj[p]


def first_diffs(exp, got, limit=6):
    out = []
    if len(exp) != len(got):
        return ['length %d vs %d' % (len(exp), len(got))]
    # narrow quickly
    n = len(exp)
    step = 4096
    for lo in range(0, n, step):
        if exp[lo:lo + step] != got[lo:lo + step]:
            for a in range(lo, min(n, lo + step)):
                if exp[a] != got[a]:
                    out.append('cell $%x: expected %x, found %x' % (a, exp[a], got[a]))
                    if len(out) >= limit:
                        return out
    return out


def words_of_file(P, data):
    if P['W'] == 8:
        return list(data)
    return [(data[2 * i] << 8) | data[2 * i + 1] for i in range(len(data) // 2)]


def octets_of_cells(P, cells):
    out = bytearray()
    for v in cells:
        if P['W'] == 16:
            out.append((v >> 8) & 0xff)
        out.append(v & 0xff)
    return bytes(out)


def oracle(dev, c, before, after, body, data, snapshots):
    """Returns None or (kind, text) when the property is violated by this command's behaviour."""
    P = DEVS[dev]
    it = c.get('intent')
    if not it:
        return None
    top = (1 << P['AW']) - 1
    bm = (1 << P['W']) - 1
    k = c['k']
    if it.get('reject'):
        if 'Overflow' not in body:
            return ('reject-not-reported', 'a %s too wide for the device was not reported: output %r' % (it['reject'], body[:120]))
        if after != before:
            return ('reject-wrote', 'a %s too wide for the device was reported but memory changed: %s' % (
                it['reject'], '; '.join(first_diffs(before, after))))
        return None
    if k == 'fill':
        start, end, data_ = it['start'], it['end'], it['data']
        n = len(data_)
        E = min(start + n - 1, top) if start == end else end
        exp = before[:]
        for i in range(E - start + 1):
            exp[(start + i) % P['phys']] = data_[i % n]
        if exp != after:
            return ('fill-cells', 'fill $%x:$%x with %d item(s): %s; output %r' % (
                start, end, n, '; '.join(first_diffs(exp, after)), body[-80:]))
        return None
    if k == 'load':
        if 'roundtrip' in it:
            snap, a, b = snapshots[it['roundtrip']], it['start'], it['end']
            kind = 'save-range-above-physical-memory' if (b >= P['phys']) else 'save-load-roundtrip'
            exp = before[:]
            for x in range(a, b + 1):
                exp[x % P['phys']] = cell_read(P, snap, x)
            if exp != after:
                return (kind, 'save $%x..$%x, clobber, load back: %s; output %r' % (
                    a, b, '; '.join(first_diffs(exp, after)), body[-80:]))
            return None
        words = words_of_file(P, bytes.fromhex(c['file']) if c['file'] else b'')
        start = it['start']
        if start == 'top':
            start = top + 1 - len(words)
        exp = before[:]
        for i, w in enumerate(words):
            if start + i > top:
                break
            exp[(start + i) % P['phys']] = w
        if exp != after:
            return ('load-cells', 'load of %d octet(s) at %s: %s; output %r' % (
                len(c['file']) // 2, it['start'] if it['start'] == 'top' else '$%x' % start,
                '; '.join(first_diffs(exp, after)), body[-80:]))
        return None
    if k == 'save':
        a, b = it['start'], it['end']
        kind = 'save-range-above-physical-memory' if (b >= P['phys']) else 'save-file'
        if after != before:
            return ('save-wrote', 'save changed memory: ' + '; '.join(first_diffs(before, after)))
        want = octets_of_cells(P, [cell_read(P, before, x) for x in range(a, b + 1)])
        if data is None:
            return (kind, 'save $%x $%x wrote no file: %r' % (a, b, body[-120:]))
        if data != want:
            return (kind, 'save $%x $%x: file has %d octet(s) %s..., the cells of the range are %d octet(s) %s...' % (
                a, b, len(data), data[:12].hex(), len(want), want[:12].hex()))
        return None
    if k == 'mem':
        a, b = it['start'], it['end']
        if after != before:
            return ('mem-wrote', 'mem changed memory: ' + '; '.join(first_diffs(before, after)))
        want = [cell_read(P, before, x) for x in range(a, b + 1)]
        got = []
        if not body.endswith('\n'):
            return ('mem-output', 'mem output does not end a line: %r' % body[-60:])
        for ln in body[:-1].split('\n'):
            m = re.match(r'^([0-9a-f]+):((?:  [0-9a-f]+)*)$', ln)
            if not m:
                return ('mem-output', 'mem $%x:$%x printed a line that does not read back: %r' % (a, b, ln[:80]))
            if int(m.group(1), 16) != a + len(got):
                return ('mem-output', 'mem $%x:$%x: line %r is labelled $%s but starts at cell $%x' % (
                    a, b, ln[:40], m.group(1), a + len(got)))
            got += [int(x, 16) for x in m.group(2).split()]
        if got != want:
            i = next((j for j in range(min(len(got), len(want))) if got[j] != want[j]), min(len(got), len(want)))
            return ('mem-output', 'mem $%x:$%x at width %s: %d value(s) printed, range has %d; first difference at '
                    '$%x: printed %s, cell %s' % (a, b, it.get('width'), len(got), len(want), a + i,
                                                   got[i:i + 1], want[i:i + 1]))
        return None
    return None


# ---------------------------------------------------------------------------------------
# generator
# ---------------------------------------------------------------------------------------

def boundaries(dev):
    P = DEVS[dev]
    if P['W'] == 8:
        return [0, 1, 0xff, 0x100, 0x1ff, 0x200, 0xf000, 0xf001, 0xf004, 0xf005, 0xfff0, 0xfffa, 0xfffe, 0xffff]
    return [0, 1, 0xffff, 0x10000, 0x10001, 0xf001, 0xf004, 0x1ffff, 0x20000, 0x3fff0, 0x3fffe, 0x3ffff,
            0x40000, 0x40001, 0x4f004, 0x7ffff, 0x80000, 0x7fffffff, 0x80000000, 0xfffffff0, 0xfffffffe,
            0xffffffff]


def addr_class(dev, a):
    P = DEVS[dev]
    top = (1 << P['AW']) - 1
    if a > top:
        return 'wide'
    if a == top:
        return 'top'
    if a >= top - 16:
        return 'near-top'
    if P['W'] == 16:
        if a >= P['phys']:
            return 'above-phys' if a > P['phys'] + 16 else 'at-phys'
        if a >= P['phys'] - 17:
            return 'near-phys-top'
    if a % P['phys'] in (GETC, PUTC):
        return 'io'
    if 0xfff0 <= a <= 0x10010:
        return 'at-64k'
    if a < 0x200:
        return 'low'
    return 'mid'


def len_class(n):
    if n <= 0:
        return '0'
    if n <= 2:
        return str(n)
    if n <= 8:
        return '3-8'
    if n <= 20:
        return '9-20'
    if n <= 100:
        return '21-100'
    return '>100'


def width_class(w):
    if w <= 12:
        return '10-12'
    if w <= 20:
        return '13-20'
    if w <= 77:
        return '21-77'
    if w <= 80:
        return '78-80'
    if w <= 150:
        return '81-150'
    return '151-200'


_SPELL = [None]     # session context of the script being generated: dict(radix, labels, map) or None


def _digits(n, radix):
    if n == 0:
        return '0'
    d, out = '0123456789abcdef', ''
    while n:
        out = d[n % radix] + out
        n //= radix
    return out


def spell_num(rng, n):
    """One spelling of n.  Under a session context (a `radix` command and `add_label`s typed before the
    script: property C16 quantifies over ranges and data lists, C20 over prior session histories) bare digits
    are in the session's radix and a number may be a label or label+/-offset; the context remembers what
    every spelling denotes so that the model is asked about the same numbers."""
    ctx = _SPELL[0]
    if ctx is None or n < 0:
        t = _spell_plain(rng, n, 16)
    else:
        r = rng.random()
        names = [k for k, v in ctx['labels'].items() if v == n]
        if names and r < 0.5:
            t = rng.choice(names)
        elif ctx['labels'] and r < 0.3:
            k = rng.choice(sorted(ctx['labels']))
            v = ctx['labels'][k]
            off = _spell_plain(rng, abs(n - v), ctx['radix'])
            t = '%s%s%s' % (k, '+' if n >= v else '-', off)
        else:
            t = _spell_plain(rng, n, ctx['radix'])
        ctx['map'][t] = n
    return t


def _spell_plain(rng, n, radix):
    r = rng.random()
    if r < 0.35:
        return _digits(n, radix)
    if r < 0.45:
        return _digits(n, radix).upper()
    if r < 0.65:
        return '$%x' % n
    if r < 0.72:
        return '$%04X' % n
    if r < 0.87:
        return '+%d' % n
    if r < 0.95 and n < (1 << 20):
        return '%' + bin(n)[2:]
    return '00' + _digits(n, radix)


def gen_context(rng, dev):
    """A session context: default radix and a label table whose values sit on the byte / address boundaries."""
    P = DEVS[dev]
    top = (1 << P['AW']) - 1
    bm = (1 << P['W']) - 1
    vals = [0, 1, bm, bm + 1, 2 * bm + 1, 0x200, P['phys'] - 1, top, rng.randrange(bm + 1), rng.randrange(P['phys'])]
    names = ['zq', 'Lbl_1', 'wide', 'top_', 'yy9', 'g0', 'data_x', 'k']
    rng.shuffle(names)
    labels = {}
    for nm in names[:rng.choice([0, 1, 2, 3, 5])]:
        labels[nm] = rng.choice(vals)
    return dict(radix=rng.choice([16, 10, 10, 8, 2]), labels=labels, map={})


def normalise_toks(toks, m):
    """The same tokens with every spelled number replaced by its `$hex` form (what the model, which has
    radix 16 and no labels, is asked); separators and everything else are kept."""
    out = []
    for t in toks:
        if t in m:
            out.append('$%x' % m[t])
            continue
        pieces = re.split(r'([:,]+)', t)
        if all((p in m) or re.fullmatch(r'[:,]*', p) for p in pieces):
            out.append(''.join(('$%x' % m[p]) if p in m else p for p in pieces))
        else:
            out.append(t)
    return out


def spell_range(rng, a, b):
    if a == b and rng.random() < 0.6:
        return spell_num(rng, a)
    sep = rng.choice([':', ':', ':', ',', '::', ':,'])
    return spell_num(rng, a) + sep + spell_num(rng, b)


def gen_range(rng, dev, maxlen=64):
    """(start, end) with start <= end <= top, biased to the boundaries."""
    P = DEVS[dev]
    top = (1 << P['AW']) - 1
    r = rng.random()
    n = rng.choice([1, 1, 1, 2, 3, 4, 5, 8, 9, 16, 17, 33, rng.randrange(1, maxlen + 1)])
    if r < 0.4:
        b = rng.choice(boundaries(dev))
        start = max(0, b - rng.choice([0, 0, 1, 2, 3, 5, 8, 17]))
    elif r < 0.55:
        start = top + 1 - n - rng.choice([0, 0, 0, 1, 2])
    elif r < 0.65 and P['W'] == 16:
        start = P['phys'] * rng.choice([1, 1, 2, 3, 0x3fff]) - rng.choice([0, 1, 2, 5, 9])
    elif r < 0.9:
        start = rng.randrange(P['phys'])
    else:
        start = rng.randrange(top + 1)
    start = max(0, min(start, top))
    end = min(top, start + n - 1)
    return start, end


def rnd_val(rng, dev):
    return common.rnd_byte(rng, DEVS[dev]['W'])


def gen_fill(rng, dev, big=False):
    P = DEVS[dev]
    top = (1 << P['AW']) - 1
    bm = (1 << P['W']) - 1
    a, b = gen_range(rng, dev, 1200 if big else 64)
    n = rng.choice([1, 1, 2, 3, 4, 5, 7, 8, 16, 20, rng.randrange(0, 21), rng.randrange(0, 21)])
    data = [rnd_val(rng, dev) for _ in range(n)]
    intent = dict(start=a, end=b, data=data)
    r = rng.random()
    if n == 0:
        intent = None
    elif r < 0.08:
        data[rng.randrange(n)] = rng.choice([bm + 1, bm + 2, 2 * bm + 1, 0x10000, 0xfffff, top, top + 1])
        if max(data) > bm:
            intent = dict(reject='value')
    elif r < 0.14:
        w = top + 1 + rng.choice([0, 0, 1, 2, 0xff, 0x10000])
        if rng.random() < 0.5:
            a, b = min(a, w), w
        else:
            a, b = w, w + rng.choice([0, 1, 5])
        intent = dict(reject='address')
    rev = rng.random() < 0.04 and a != b and intent and not intent.get('reject')
    rs = spell_range(rng, b, a) if rev else spell_range(rng, a, b)
    if rev:
        intent = None          # the reversed spelling is C15's ordering rule, not this property's
    toks = [rs] + [spell_num(rng, v) for v in data]
    return dict(k='fill', toks=toks, intent=intent, short=rng.choice([None, None, 'f', '>']))


def gen_file(rng, dev, space=None):
    n = rng.choice([0, 0, 1, 2, 3, 4, 5, 7, 8, 15, 16, 17, 31, 32, 33, 64, 65, rng.randrange(0, 81)])
    if space is not None and rng.random() < 0.5:
        # longer than the space to the top
        n = (space * (DEVS[dev]['W'] // 8)) + rng.choice([1, 2, 3, 5, 9])
    return bytes(rng.randrange(256) if rng.random() < 0.7 else rng.choice([0, 0xff, 0x80, 1]) for _ in range(n))


def gen_load(rng, dev):
    P = DEVS[dev]
    top = (1 << P['AW']) - 1
    r = rng.random()
    if r < 0.2:
        data = gen_file(rng, dev)
        return dict(k='load', file=data.hex(), toks=['top'], intent=dict(start='top'))
    if r < 0.27:
        data = gen_file(rng, dev)
        return dict(k='load', file=data.hex(), toks=[], intent=dict(start='pc'))
    if r < 0.33:
        w = top + 1 + rng.choice([0, 1, 0x10, 0x10000])
        return dict(k='load', file=gen_file(rng, dev).hex(), toks=[spell_num(rng, w)], intent=dict(reject='address'))
    if r < 0.36:
        return dict(k='load', file=gen_file(rng, dev).hex(), toks=[rng.choice(['xyz', '12g', '$', 'top ', 'TOP'])
                                                                    .strip() or 'q'], intent=None)
    if r < 0.38:
        return dict(k='load', file='', toks=['1', '2'], intent=None)
    a, _ = gen_range(rng, dev)
    space = top - a + 1 if top - a < 40 else None
    data = gen_file(rng, dev, space)
    return dict(k='load', file=data.hex(), toks=[spell_num(rng, a)], intent=dict(start=a))


def gen_mem(rng, dev, around=None, width=78):
    P = DEVS[dev]
    top = (1 << P['AW']) - 1
    if around is not None and rng.random() < 0.7:
        a = max(0, around[0] - rng.choice([0, 1, 2, 3]))
        b = min(top, around[1] + rng.choice([0, 1, 2, 3]))
        if b - a > 300:
            b = a + 300
    else:
        a, b = gen_range(rng, dev, 120)
    r = rng.random()
    if r < 0.06:
        w = top + 1 + rng.choice([0, 1, 0x100])
        return dict(k='mem', toks=[spell_range(rng, min(a, w), w)], intent=dict(reject='address'))
    if r < 0.09:
        return dict(k='mem', toks=rng.choice([[], ['0', '1'], ['nolabel'], ['1:'], [':']]), intent=None)
    return dict(k='mem', toks=[spell_range(rng, a, b)], intent=dict(start=a, end=b, width=width))


def gen_save(rng, dev):
    P = DEVS[dev]
    top = (1 << P['AW']) - 1
    a, b = gen_range(rng, dev, 80)
    r = rng.random()
    if r < 0.08:
        w = top + 1 + rng.choice([0, 1, 0x100])
        toks = [spell_num(rng, a), spell_num(rng, w)] if rng.random() < 0.5 else [spell_num(rng, w), spell_num(rng, w)]
        return dict(k='save', toks=toks, intent=dict(reject='address'))
    if r < 0.11:
        return dict(k='save', toks=rng.choice([[], ['0'], ['0', '1', '2'], ['zz', '0'], ['0', 'zz']]), intent=None)
    if r < 0.14 and a != b:
        return dict(k='save', toks=[spell_num(rng, b), spell_num(rng, a)], intent=None)   # start > end
    return dict(k='save', toks=[spell_num(rng, a), spell_num(rng, b)], intent=dict(start=a, end=b))


def gen_width(rng):
    r = rng.random()
    if r < 0.35:
        n = rng.choice([10, 10, 11, 12, 13, 14, 15, 16, 17, 20, 77, 78, 79, 80, 199, 200])
    elif r < 0.9:
        n = rng.randrange(10, 201)
    else:
        n = rng.choice([9, 0, 1, -5, 5])
    return dict(k='width', n=n)


def gen_script(rng, dev):
    P = DEVS[dev]
    top = (1 << P['AW']) - 1
    s = dict(dev=dev, seed=rng.choice(SEEDS), pc=rng.choice([0, 0x300, 0xfff0, top - 3, rng.randrange(P['phys'])]),
             cmds=[])
    cmds = s['cmds']
    width = 78
    last = None
    n = rng.randrange(3, 9)
    big = rng.random() < 0.04
    ctx = gen_context(rng, dev) if rng.random() < 0.3 else None
    _SPELL[0] = ctx
    try:
        _gen_cmds(rng, dev, s, cmds, n, big, width, last, top, P)
    finally:
        _SPELL[0] = None
    if ctx is not None:
        s['ctx'] = dict(radix=ctx['radix'], labels=ctx['labels'])
        for c in cmds:
            if 'toks' in c and c['k'] != 'db':      # delete_breakpoint takes a plain int(), not an address
                c['ntoks'] = normalise_toks(c['toks'], ctx['map'])
    return s


def _gen_cmds(rng, dev, s, cmds, n, big, width, last, top, P):
    while len(cmds) < n:
        r = rng.random()
        if (not cmds and r < 0.6) or r < 0.08:
            c = gen_width(rng)
            if c['n'] >= 10:
                width = c['n']
            cmds.append(c)
        elif r < 0.36:
            c = gen_fill(rng, dev, big)
            cmds.append(c)
            it = c['intent']
            if it and 'start' in it:
                e = it['end'] if it['start'] != it['end'] else min(top, it['start'] + len(it['data']) - 1)
                last = (it['start'], e)
        elif r < 0.52:
            if rng.random() < 0.1:
                cmds.append(dict(k='pc', n=rng.choice([0, top, top - 1, rng.randrange(P['phys']), rng.randrange(top + 1)])))
            c = gen_load(rng, dev)
            if c['intent'] and c['intent'].get('start') == 'pc':
                pcs = [x['n'] for x in cmds if x['k'] == 'pc']
                c['intent']['start'] = pcs[-1] if pcs else s['pc']
            cmds.append(c)
            it = c['intent']
            if it and isinstance(it.get('start'), int):
                last = (it['start'], min(top, it['start'] + 8))
        elif r < 0.62:
            cmds.append(gen_save(rng, dev))
        elif r < 0.74:
            # save, clobber, load back
            a, b = gen_range(rng, dev, 48)
            i = len(cmds)
            cmds.append(dict(k='save', toks=[spell_num(rng, a), spell_num(rng, b)], intent=dict(start=a, end=b)))
            junk = [rnd_val(rng, dev) ^ 0x55 for _ in range(rng.choice([1, 2, 3]))]
            cmds.append(dict(k='fill', toks=[spell_num(rng, a) + ':' + spell_num(rng, b)] + [spell_num(rng, v) for v in junk],
                             intent=dict(start=a, end=b, data=junk)))
            cmds.append(dict(k='load', file=None, file_from=i, toks=[spell_num(rng, a)],
                             intent=dict(roundtrip=i, start=a, end=b)))
            last = (a, b)
        elif r < 0.95:
            cmds.append(gen_mem(rng, dev, last, width))
        else:
            k = rng.random()
            if k < 0.5:
                cmds.append(dict(k='ab', toks=[spell_num(rng, rng.choice([0x10, 0x20, 0x30, top, top + 1]))]))
            elif k < 0.8:
                cmds.append(dict(k='db', toks=[rng.choice(['0', '1', '2', '3', '-1', 'x', '+1', ' 1'.strip()])]))
            else:
                cmds.append(dict(k='shb'))
    return s


def special_scripts():
    """Hand-picked scripts run first on every device (the probes of the design round)."""
    out = []
    for dev in DEVS:
        P = DEVS[dev]
        top = (1 << P['AW']) - 1
        t = '%x' % top
        out.append(dict(dev=dev, seed=11, pc=0x300, cmds=[
            dict(k='fill', toks=['10:13', '1', '2'], intent=dict(start=0x10, end=0x13, data=[1, 2])),
            dict(k='fill', toks=['20', '1', '2', '3'], intent=dict(start=0x20, end=0x20, data=[1, 2, 3])),
            dict(k='fill', toks=['%x' % (top - 1), '1', '2', '3', '4'], intent=dict(start=top - 1, end=top - 1, data=[1, 2, 3, 4])),
            dict(k='mem', toks=['%x:%s' % (top - 3, t)], intent=dict(start=top - 3, end=top, width=78)),
            dict(k='fill', toks=['f004', '55'], intent=dict(start=0xf004, end=0xf004, data=[0x55])),
            dict(k='fill', toks=['f001', '41', '42'], intent=dict(start=0xf001, end=0xf001, data=[0x41, 0x42])),
            dict(k='mem', toks=['f000:f008'], intent=dict(start=0xf000, end=0xf008, width=78)),
            dict(k='width', n=10),
            dict(k='mem', toks=['0:8'], intent=dict(start=0, end=8, width=10)),
        ]))
        out.append(dict(dev=dev, seed=29, pc=0x300, cmds=[
            dict(k='load', file='', toks=['10'], intent=dict(start=0x10)),
            dict(k='load', file='', toks=['0'], intent=dict(start=0)),
            dict(k='load', file='', toks=['top'], intent=dict(start='top')),
            dict(k='load', file='', toks=[], intent=dict(start=0x300)),
            dict(k='load', file='0102030405', toks=['10'], intent=dict(start=0x10)),
            dict(k='load', file='07', toks=['20'], intent=dict(start=0x20)),
            dict(k='load', file='0102030405', toks=['top'], intent=dict(start='top')),
            dict(k='load', file=bytes(range(40)).hex(), toks=['%x' % (top - 15)], intent=dict(start=top - 15)),
            dict(k='load', file='0102030405', toks=[], intent=dict(start=0x300)),
            dict(k='mem', toks=['300:305'], intent=dict(start=0x300, end=0x305, width=78)),
            dict(k='load', file='0102', toks=['%x' % (top + 1)], intent=dict(reject='address')),
            dict(k='fill', toks=['0:3', '%x' % ((1 << P['W']))], intent=dict(reject='value')),
            dict(k='fill', toks=['%x:%x' % (top + 1, top + 4), '1'], intent=dict(reject='address')),
            dict(k='fill', toks=['0:1'], intent=None),
            dict(k='fill', toks=['5', 'xyz'], intent=None),
        ]))
        if P['W'] == 8:
            # a file longer than the whole memory at `top` (tie only)
            out.append(dict(dev=dev, seed=-1, pc=0, cmds=[
                dict(k='load', file=bytes((i * 7 + 1) & 0xff for i in range(0x10005)).hex(), toks=['top'], intent=None),
                dict(k='mem', toks=['fff0:ffff'], intent=dict(start=0xfff0, end=0xffff, width=78)),
            ]))
        else:
            ph = P['phys']
            out.append(dict(dev=dev, seed=11, pc=0, cmds=[
                dict(k='fill', toks=['%x:%x' % (ph, ph + 3), '9', '8', '7', '6'], intent=dict(start=ph, end=ph + 3, data=[9, 8, 7, 6])),
                dict(k='mem', toks=['0:3'], intent=dict(start=0, end=3, width=78)),
                dict(k='fill', toks=['%x' % (top - 1), '5', '6', '7', '8'], intent=dict(start=top - 1, end=top - 1, data=[5, 6, 7, 8])),
                dict(k='mem', toks=['%x:%x' % (ph - 2, ph + 1)], intent=dict(start=ph - 2, end=ph + 1, width=78)),
                dict(k='mem', toks=['%x:%x' % (top - 3, top)], intent=dict(start=top - 3, end=top, width=78)),
                dict(k='save', toks=['0', '3'], intent=dict(start=0, end=3)),
                dict(k='save', toks=['%x' % (ph - 2), '%x' % (ph + 1)], intent=dict(start=ph - 2, end=ph + 1)),
                dict(k='save', toks=['%x' % (top - 3), '%x' % top], intent=dict(start=top - 3, end=top)),
            ]))
    return out


# ---------------------------------------------------------------------------------------
# evaluation
# ---------------------------------------------------------------------------------------

def run_real(s, scratch, want_oracle=True):
    """Execute a script on the real monitor.  Returns dict(outs, tail, subj(list), findings, per-command info)."""
    dev = s['dev']
    P = DEVS[dev]
    rm = RealMon(dev, s['seed'], s['pc'], scratch, s.get('ctx'))
    outs, info, finds = [], [], []
    snapshots = {}
    files = {}
    width = 78
    try:
        for i, c in enumerate(s['cmds']):
            if c['k'] == 'load' and c.get('file') is None:
                src = files.get(c['file_from'])
                c = dict(c, file=(src or b'').hex())
                s['cmds'][i] = c
            need = want_oracle and bool(c.get('intent'))
            before = rm.subj[:] if need else None
            if c['k'] == 'save' and c.get('intent') and 'start' in c['intent']:
                snapshots[i] = before if before is not None else rm.subj[:]
            out, body, line, data = rm.run(c)
            if c['k'] == 'save':
                files[i] = data
            outs.append(out)
            info.append((line, out))
            if need:
                v = oracle(dev, c, before, rm.subj, body, data, snapshots)
                if v:
                    finds.append(dict(key=dict(kind=v[0], dev=dev), index=i, line=line, text=v[1]))
        tail = rm.tail_state()
        subj = rm.subj[:]
    finally:
        rm.close()
    return dict(outs=outs, tail=tail, subj=subj, finds=finds, info=info)


def parse_model(reply):
    parts = reply.split(' || ')
    if len(parts) != 5:
        return None
    outs = parts[0].split(' | ') if parts[0] else []
    cells = {}
    if parts[1] != '-':
        for kv in parts[1].split(' '):
            a, v = kv.split('=')
            cells[int(a)] = int(v)
    return dict(outs=outs, cells=cells, tail=(parts[2], parts[3], parts[4]))


def classify(dev, c, out, width):
    it = c.get('intent') or {}
    ok = out.split(':')[0]
    a = it.get('start')
    b = it.get('end', a)
    if a == 'top':
        ca, cb = 'top-placement', 'top'
    else:
        ca = addr_class(dev, a) if isinstance(a, int) else '-'
        cb = addr_class(dev, b) if isinstance(b, int) else '-'
    ln = len_class(b - a + 1) if isinstance(a, int) and isinstance(b, int) else '-'
    if c['k'] == 'fill':
        dl = len_class(len(c['toks']) - 1)
    elif c['k'] == 'load':
        n = len(c.get('file') or '') // 2
        dl = ('odd-' if n % 2 else 'even-') + len_class(n)
    else:
        dl = '-'
    wc = width_class(width) if c['k'] == 'mem' else '-'
    return (dev, c['k'], ok, ca, cb, ln, dl, wc)


def evaluate(scripts, scratch):
    res = dict(n_scripts=0, n_cmds=0, agree_scripts=0, mism=[], findings=[], nfind={}, dist={}, nontriv=set(),
               samples=[], digest=hashlib.sha1())
    reals = []
    for s in scripts:
        reals.append(run_real(s, scratch))          # fills in the files of round-trip loads
    lines = [driver_line(s) for s in scripts]
    models = run_driver(lines)
    for s, ln, rr, mo in zip(scripts, lines, reals, models):
        res['n_scripts'] += 1
        res['n_cmds'] += len(s['cmds'])
        dev = s['dev']
        width = 78
        sk = 'session/' + ('radix-%d,labels-%d' % (s['ctx']['radix'], min(len(s['ctx']['labels']), 3)) if s.get('ctx') else 'plain')
        res['dist'][sk] = res['dist'].get(sk, 0) + 1
        for c, out in zip(s['cmds'], rr['outs']):
            if c['k'] == 'width' and c['n'] >= 10:
                width = c['n']
            cl = classify(dev, c, out, width)
            key = '%s/%s/%s' % (cl[0], cl[1], cl[2])
            res['dist'][key] = res['dist'].get(key, 0) + 1
            for tag, v in (('start', cl[3]), ('end', cl[4])):
                if v != '-':
                    kk = 'range-%s/%s' % (tag, v)
                    res['dist'][kk] = res['dist'].get(kk, 0) + 1
            if c['k'] == 'mem' and cl[2] == 'lines':
                kk = 'mem-width/' + cl[7]
                res['dist'][kk] = res['dist'].get(kk, 0) + 1
            if c['k'] == 'load':
                kk = 'file/' + cl[6]
                res['dist'][kk] = res['dist'].get(kk, 0) + 1
            if cl[2] in ('wrote', 'saved', 'lines', 'overflow', 'key') and not out.startswith('wrote:0:'):
                res['nontriv'].add(hash(cl))
        bad = None
        pm = parse_model(mo)
        if pm is None:
            bad = 'driver reply not understood: %s' % mo[:200]
        else:
            if pm['outs'] != rr['outs']:
                j = next((i for i in range(min(len(pm['outs']), len(rr['outs']))) if pm['outs'][i] != rr['outs'][i]),
                         min(len(pm['outs']), len(rr['outs'])))
                bad = 'command %d (%s): model %s, real %s' % (
                    j, rr['info'][j][0] if j < len(rr['info']) else '?',
                    (pm['outs'][j] if j < len(pm['outs']) else '-')[:160],
                    (rr['outs'][j] if j < len(rr['outs']) else '-')[:160])
            elif pm['tail'] != rr['tail']:
                bad = 'putc/breakpoints/width/pc: model %r, real %r' % (pm['tail'], rr['tail'])
            else:
                exp = template(dev, s['seed'])[:]
                for a, v in pm['cells'].items():
                    exp[a] = v
                if exp != rr['subj']:
                    bad = 'memory after the script: ' + '; '.join(
                        'model ' + d for d in first_diffs(exp, rr['subj']))
        if bad is None:
            res['agree_scripts'] += 1
            res['digest'].update(array('L', rr['subj']).tobytes()[:4096])
        elif len(res['mism']) < 12:
            res['mism'].append(dict(what=bad, request=ln[:3000], script=s,
                                    lines=[l for l, _ in rr['info']]))
        else:
            res['mism_more'] = res.get('mism_more', 0) + 1
        for f in rr['finds']:
            ks = json.dumps(f['key'], sort_keys=True)
            res['nfind'][ks] = res['nfind'].get(ks, 0) + 1
            if res['nfind'][ks] <= 3:
                res['findings'].append(dict(
                    key=f['key'],
                    what='%s: `%s` -- %s' % (dev, f['line'], f['text']),
                    replay=dict(script=s, index=f['index'], line=f['line'],
                                lines=[l for l, _ in rr['info']], text=f['text'])))
        if len(res['samples']) < 2 and bad is None and any(o.startswith('lines:') for o in rr['outs']) \
                and any(o.startswith('wrote:') and not o.startswith('wrote:0') for o in rr['outs']):
            res['samples'].append(dict(device=dev, typed=[l for l, _ in rr['info']], parsed_real=[o[:100] for o in rr['outs']],
                                       model_reply=mo[:400],
                                       backing_list_sha1=hashlib.sha1(array('L', rr['subj']).tobytes()).hexdigest()))
    res['digest'] = res['digest'].hexdigest()
    return res


def shrink(f, scratch):
    """Try to reproduce a finding with the failing command alone (plus what it depends on)."""
    s = f['replay']['script']
    i = f['replay']['index']
    c = s['cmds'][i]
    keep = [j for j, x in enumerate(s['cmds'][:i]) if x['k'] in ('width', 'pc')]
    it = c.get('intent') or {}
    if 'roundtrip' in it:
        keep = sorted(set(keep + list(range(it['roundtrip'], i))))
    idx = keep + [i]
    cmds = []
    for j in idx:
        x = dict(s['cmds'][j])
        if x.get('intent') and 'roundtrip' in x['intent']:
            x['intent'] = dict(x['intent'], roundtrip=idx.index(x['intent']['roundtrip']))
            x['file_from'] = idx.index(x['file_from'])
            x['file'] = None
        cmds.append(x)
    s2 = dict(dev=s['dev'], seed=s['seed'], pc=s['pc'], cmds=cmds)
    try:
        rr = run_real(s2, scratch)
    except Exception:
        return f
    for g in rr['finds']:
        if g['key'] == f['key']:
            return dict(key=f['key'], what='%s: `%s` -- %s' % (s['dev'], g['line'], g['text']),
                        replay=dict(script=s2, index=g['index'], line=g['line'],
                                    lines=[l for l, _ in rr['info']], text=g['text']))
    return f


def _work(spec):
    seed, idx, n = spec
    rng = random.Random('c16-%d-%d' % (seed, idx))
    scratch = os.path.join(common.WORK, 'c16-files-%d-%d' % (os.getpid(), idx))
    os.makedirs(scratch, exist_ok=True)
    try:
        scripts = [gen_script(rng, list(DEVS)[(idx + j) % 3]) for j in range(n)]
        r = evaluate(scripts, scratch)
        r['findings'] = [shrink(f, scratch) for f in r['findings']]
        return r
    finally:
        shutil.rmtree(scratch, ignore_errors=True)


def merge(total, r):
    for k in ('n_scripts', 'n_cmds', 'agree_scripts'):
        total[k] += r[k]
    total['mism'] += r['mism']
    total['mism_more'] = total.get('mism_more', 0) + r.get('mism_more', 0)
    total['findings'] += r['findings']
    for k, v in r['nfind'].items():
        total['nfind'][k] = total['nfind'].get(k, 0) + v
    for k, v in r['dist'].items():
        total['dist'][k] = total['dist'].get(k, 0) + v
    total['nontriv'] |= r['nontriv']
    total['samples'] += r['samples']
    total['digests'].append(r['digest'])


def explore(ctx):
    t0 = time.time()
    total = dict(n_scripts=0, n_cmds=0, agree_scripts=0, mism=[], findings=[], nfind={}, dist={}, nontriv=set(),
                 samples=[], digests=[])
    scratch = os.path.join(common.WORK, 'c16-files-%d-main' % os.getpid())
    os.makedirs(scratch, exist_ok=True)
    try:
        r = evaluate(special_scripts(), scratch)
        r['findings'] = [shrink(f, scratch) for f in r['findings']]
        merge(total, r)
    finally:
        shutil.rmtree(scratch, ignore_errors=True)
    ctx.note('fixed scripts: %d scripts, %d commands, %d scripts agree, %.1fs' % (
        total['n_scripts'], total['n_cmds'], total['agree_scripts'], time.time() - t0))
    n_scripts = 6000 if ctx.quick() else 120000
    chunk = 50 if ctx.quick() else 250
    procs = min(16, os.cpu_count() or 1)
    specs = [(ctx.seed, i, chunk) for i in range((n_scripts + chunk - 1) // chunk)]
    with multiprocessing.Pool(procs) as pool:
        for r in pool.imap_unordered(_work, specs):
            merge(total, r)
    ctx.note('random scripts: %d chunks of %d on %d processes; total %d scripts, %d commands, %.1fs' % (
        len(specs), chunk, procs, total['n_scripts'], total['n_cmds'], time.time() - t0))
    for m in total['mism'][:6]:
        ctx.broken.append(dict(kind='tie', what='model and real monitor disagree: %s' % m['what'][:300],
                               detail='typed: %s' % ' ; '.join(m['lines'])[:1500], replay=m))
    if total['mism']:
        ctx.note('model/real disagreements: %d scripts' % (len(total['mism']) + total.get('mism_more', 0)))
    total['findings'].sort(key=lambda f: (len(f['replay']['script']['cmds']), len(f['what'])))
    seen = {}
    for f in total['findings']:
        ks = json.dumps(f['key'], sort_keys=True)
        seen[ks] = seen.get(ks, 0) + 1
        if seen[ks] <= 2:
            ctx.findings.append(f)
    shown = set()
    for f in ctx.findings:
        ks = json.dumps(f['key'], sort_keys=True)
        if ks not in shown:
            shown.add(ks)
            ctx.note('property deviation %s x%d, e.g. %s' % (ks, total['nfind'].get(ks, 0), f['what'][:260]))
    ctx.stats['evaluations'] = total['n_cmds']
    ctx.stats['traces_validated_against_impl'] = total['agree_scripts']
    ctx.stats['distinct_nontrivial'] = len(total['nontriv'])
    ctx.stats['distribution'] = dict(scripts=total['n_scripts'], commands=total['n_cmds'],
                                     by_device_command_outcome={k: v for k, v in sorted(total['dist'].items())
                                                                if not k.startswith(('range-', 'mem-width', 'file/'))},
                                     range_boundary_classes={k: v for k, v in sorted(total['dist'].items())
                                                             if k.startswith('range-')},
                                     mem_widths={k: v for k, v in sorted(total['dist'].items()) if k.startswith('mem-width')},
                                     files={k: v for k, v in sorted(total['dist'].items()) if k.startswith('file/')},
                                     property_deviations=dict(total['nfind']),
                                     memory_compared='complete backing list (65536 / 262144 cells) after every script '
                                                     '(model) and after every command (oracle)')
    ctx.samples = total['samples'][:6]


def replay(ctx, path):
    obj = json.load(open(path))
    f = obj.get('finding')
    rp = (f or {}).get('replay') or (obj.get('broken') or [{}])[0].get('replay')
    if not rp or 'script' not in rp:
        print(json.dumps(obj, indent=1)[:3000])
        return 0
    s = rp['script']
    scratch = os.path.join(common.WORK, 'c16-files-%d-replay' % os.getpid())
    os.makedirs(scratch, exist_ok=True)
    try:
        rr = run_real(s, scratch)
        ln = driver_line(s)
        try:
            mo = run_driver([ln])[0]
        except Exception as ex:  # noqa: B902
            mo = 'driver unavailable: %s' % ex
    finally:
        shutil.rmtree(scratch, ignore_errors=True)
    print('device   :', s['dev'], ' background seed', s['seed'], ' pc', s['pc'])
    for (line, out) in rr['info']:
        print('typed    : %-50s -> %s' % (line, out[:110]))
    print('model    :', mo[:600])
    bad = False
    for g in rr['finds']:
        print('DIFF     : [property] command %d `%s`: %s' % (g['index'], g['line'], g['text']))
        bad = True
    pm = parse_model(mo)
    if pm is None or pm['outs'] != rr['outs'] or pm['tail'] != rr['tail']:
        print('DIFF     : [tie] model and real monitor disagree')
        bad = True
    else:
        exp = template(s['dev'], s['seed'])[:]
        for a, v in pm['cells'].items():
            exp[a] = v
        if exp != rr['subj']:
            print('DIFF     : [tie] memory: ' + '; '.join(first_diffs(exp, rr['subj'])))
            bad = True
    return 1 if bad else 0
