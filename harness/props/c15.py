"""C15 -- address parsing is exact, bounded and fails only with KeyError/OverflowError.

Tie 1 (translator): `harness/py2lean_addr.py` regenerates `lean/Py65/Gen/AddrParserGen.lean` from the
CURRENT `py65/utils/addressing.py` on every run (hook `pre_build`, inside the build lock);
`Py65.Proofs.AddrParserGenEq` proves the generated functions equal to the hand model for all
arguments and `Py65.Props.C15g` restates the property theorems for the generated definitions.  A
refusal of the translator or a GenEq/C15g module that no longer builds is a broken tie; the
exploration below is then the failing-input search.

Tie 2 (hand model): `Py65.Model.AddrParser.number/range/labelFor` and `Py65.Model.PyStr.pyInt/fmt*`
(compiled into the driver; protocol lines `num`, `rng`, `lbl`, `pyint`, `fmt`) against the real
`py65.utils.addressing.AddressParser` and against CPython's `int(str, base)` / `%`-formatting, on

  * structured inputs: all widths x radices x n from boundary classes and random; every supported
    spelling ($hex, +decimal, %binary, bare digits in the radix) with leading zeros and letter
    cases, plus the spellings `int()` also takes (0x prefixes, underscores, signs, blanks);
    label tables (labels that look like numbers, contain + or -, start with a prefix character,
    are 'a', are empty); label +/- offset in every spelling with blanks; ranges in every form;
  * arbitrary strings over printable ASCII + tab biased towards near-valid input
    (>= 30 000 quick, >= 300 000 thorough on 16 processes), and a smaller stream over all of ASCII.

Separately the PROPERTY is evaluated on the real code with an oracle that does not use the model:
the expected outcome of a structured input is known by construction (the generator builds the
spelling from n with its own digit routine), and for every input the outcome must be a value in
[0, 2^width) or KeyError or OverflowError, ranges ordered.  A deviation of the real code from the
oracle is a finding (with a replay); a deviation of the model from the real code is a broken tie.
"""
import json
import multiprocessing
import os
import random
import sys
import time

HERE = os.path.dirname(os.path.dirname(os.path.abspath(__file__)))
if HERE not in sys.path:
    sys.path.insert(0, HERE)
from common import run_driver, REPO  # noqa: E402  (also puts PY65_REPO on sys.path)

ID = 'C15'
LEAN_MODULES = ['Py65.Props.C15', 'Py65.Proofs.AddrParserGenEq', 'Py65.Props.C15g']
NAMESPACES = ['Py65.Props.C15', 'Py65.Proofs.AddrParserGenEq', 'Py65.Props.C15g']
# library helpers (CPython behaviour modelled in lean/Py65/Model/*Rt*.lean ...) that the generated code of these
# modules calls, derived by scanning the Lean sources (harness/rtscan.py); validated against CPython on every run
import rtcheck  # noqa: E402
RT_HELPERS = rtcheck.helpers_for(LEAN_MODULES)
LEVEL = 'proof'
USES_GEN = False
EXPECTED_THEOREMS = [
    'Py65.Props.C15.num_hex', 'Py65.Props.C15.num_dec', 'Py65.Props.C15.num_bin',
    'Py65.Props.C15.num_bare', 'Py65.Props.C15.num_label', 'Py65.Props.C15.num_label_offset',
    'Py65.Props.C15.num_label_offset_spellings', 'Py65.Props.C15.offset_spellings',
    'Py65.Props.C15.num_bounded', 'Py65.Props.C15.num_errors', 'Py65.Props.C15.num_overflow',
    'Py65.Props.C15.num_malformed', 'Py65.Props.C15.range_ordered', 'Py65.Props.C15.range_errors',
    'Py65.Props.C15.range_pair', 'Py65.Props.C15.range_single', 'Py65.Props.C15.parser_wf',
    'Py65.Props.C15.num_dec_digit_limit',
    # generated model = hand model (obligations a source change breaks)
    'Py65.Proofs.AddrParserGenEq.set_maxwidth_eq', 'Py65.Proofs.AddrParserGenEq.get_maxwidth_eq',
    'Py65.Proofs.AddrParserGenEq.constrain_eq', 'Py65.Proofs.AddrParserGenEq.init_eq',
    'Py65.Proofs.AddrParserGenEq.init_defaults', 'Py65.Proofs.AddrParserGenEq.address_for_eq',
    'Py65.Proofs.AddrParserGenEq.label_for_eq', 'Py65.Proofs.AddrParserGenEq.numberF_eq',
    'Py65.Proofs.AddrParserGenEq.number_eq', 'Py65.Proofs.AddrParserGenEq.range_eq',
    # the property theorems restated for the generated definitions
    'Py65.Props.C15g.num_hex', 'Py65.Props.C15g.num_dec', 'Py65.Props.C15g.num_bin',
    'Py65.Props.C15g.num_bare', 'Py65.Props.C15g.num_label', 'Py65.Props.C15g.num_label_offset',
    'Py65.Props.C15g.num_label_offset_err', 'Py65.Props.C15g.num_label_offset_spellings',
    'Py65.Props.C15g.num_bounded', 'Py65.Props.C15g.num_errors', 'Py65.Props.C15g.num_overflow',
    'Py65.Props.C15g.num_malformed', 'Py65.Props.C15g.num_dec_digit_limit',
    'Py65.Props.C15g.range_ordered', 'Py65.Props.C15g.range_errors', 'Py65.Props.C15g.range_pair',
    'Py65.Props.C15g.range_single', 'Py65.Props.C15g.parser_wf', 'Py65.Props.C15g.init_errors',
    'Py65.Props.C15g.maxwidth_property', 'Py65.Props.C15g.constrain_spec',
    'Py65.Props.C15g.label_for_spec', 'Py65.Props.C15g.address_for_spec',
]
RULE = ('widths {16,24,32} x radices {16,10,8,2} enumerated; n from boundary classes '
        '{0,1,9,10,15,16,255,256,2^(w-1),2^w-2,2^w-1,2^w,2^w+1,10^k-1,10^k} then uniform; every spelling '
        'kind x leading zeros x letter case; 12 fixed + random label tables; label+/-offset x blanks x '
        'offset spelling; range forms; then arbitrary strings over printable ASCII + tab biased to '
        'near-valid input.  distinct = distinct (op,width,radix,labels,string) inputs; nontrivial = the '
        'real code returned a value or raised OverflowError, or the input came from a structured '
        '(near-valid) generator')
TRUSTED = [
    'REGENERATED on every run from py65/utils/addressing.py by harness/py2lean_addr.py (ast-based; refuses '
    'anything outside its enumerated subset): the control flow, statement order, operators, comparisons, '
    'constants, default arguments, attribute set and exception flow of AddressParser.__init__, '
    '_get/_set_maxwidth (the maxwidth property), address_for, label_for, number, range, _constrain '
    '(lean/Py65/Gen/AddrParserGen.lean); Py65.Proofs.AddrParserGenEq proves them equal to the hand model '
    'Py65.Model.AddrParser for all arguments, Py65.Props.C15g restates the property theorems for them',
    'still MODELLED (library behaviour, named helpers of Py65.Model.PyRt / PyStr / AddrParser, tied by the '
    'sampled correspondence of this check): the two regular expressions as deterministic scanners (mapped '
    'only for the exact pattern strings in the translator\'s table), int(str, base), str.startswith, s[1:], '
    'dict get/set/in/items with insertion order, exception propagation and try/except as Except, the '
    'recursion bound (fuel 1000 = sys.getrecursionlimit()), %x/%o/%u/{:b}, zfill/rjust',
    'the translator py2lean_addr.py itself (CPython evaluation order for the accepted subset is modelled: '
    'raising sub-expressions are hoisted left to right) and its parameter/attribute type table '
    '(maxwidth, radix: natural numbers; labels: str -> int)',
    'CPython 3.12 `re`, `int(str, base)` and %-formatting are modelled for ASCII input, not verified',
    'the Python oracle of this module (digit routine, expected outcomes by construction)',
    "CPython's default int digit limit sys.get_int_max_str_digits() = 4300 (PYTHONINTMAXSTRDIGITS / -X "
    'int_max_str_digits unset): decimal spellings are claimed only up to 4300 digits (hypothesis '
    '`z + digits <= 4300` of num_dec / num_bare radix 10; num_dec_digit_limit proves the KeyError beyond); '
    'bases 16, 8, 2 are unbounded',
]
ASSUMPTIONS = [
    'input strings are over ASCII (claimed alphabet: printable ASCII + tab); non-ASCII digits and '
    'blanks that int()/re accept are outside the model',
    'CPython default sys.get_int_max_str_digits() = 4300: a decimal spelling with more than 4300 '
    'digits is a ValueError (-> KeyError); the round-trip theorems for base 10 carry that bound',
    'label tables hold str keys and in-range int values (what __init__ and the monitor store); a '
    'label whose name starts with $ + or % is shadowed by the number prefixes and a label that is '
    'also a digit string shadows the number: both are excluded from the round-trip claims',
    'radix is one of 16/10/8/2 (what the monitor can set)',
    'translator typing: maxwidth and radix are natural numbers, label values are ints, inputs are str; '
    'exception messages are not modelled (only the exception class)',
]

WIDTHS = (16, 24, 32)
RADICES = (16, 10, 8, 2)
DIG = '0123456789abcdefghijklmnopqrstuvwxyz'
PRINTABLE = ''.join(chr(c) for c in range(32, 127)) + '\t'
BLANKS = ['', ' ', '  ', '\t', ' \t ']


def tohex(s):
    return s.encode('latin-1').hex() if s else '-'


def to_base(n, b):
    """Independent digit routine (most significant first, lower case)."""
    if n == 0:
        return '0'
    out = []
    while n:
        out.append(DIG[n % b])
        n //= b
    return ''.join(reversed(out))


def recase(s, mode):
    if mode == 'u':
        return s.upper()
    if mode == 'm':
        return ''.join(c.upper() if i % 2 else c for i, c in enumerate(s))
    if mode == 'M':
        return ''.join(c.upper() if i % 2 == 0 else c for i, c in enumerate(s))
    return s


SPELL_KINDS = ('hex', 'dec', 'bin', 'bare')


def spell(n, kind, radix, zeros=0, case='l'):
    if kind == 'hex':
        return '$' + '0' * zeros + recase(to_base(n, 16), case)
    if kind == 'dec':
        return '+' + '0' * zeros + to_base(n, 10)
    if kind == 'bin':
        return '%' + '0' * zeros + to_base(n, 2)
    return '0' * zeros + recase(to_base(n, radix), case)


_BIG = 10 ** 4000


def big_str(v):
    """str(v) also for values beyond CPython's decimal digit limit (which is part of what is being
    compared, so it is lifted only around this one conversion)."""
    if -_BIG < v < _BIG:
        return str(v)
    old = sys.get_int_max_str_digits()
    sys.set_int_max_str_digits(0)
    try:
        return str(v)
    finally:
        sys.set_int_max_str_digits(old)


def constrain_exp(v, width):
    return 'ok %d' % v if 0 <= v < (1 << width) else 'overflow'


# ---------------------------------------------------------------------------------------
# the two sides
# ---------------------------------------------------------------------------------------

def labels_field(labels):
    return ','.join('%s=%d' % (tohex(k), v) for k, v in labels) or '-'


def line_of(c):
    op = c[0]
    if op in ('num', 'rng'):
        return '%s %d %d %s %s' % (op, c[1], c[2], labels_field(c[3]), tohex(c[4]))
    if op == 'lbl':
        return 'lbl %d %s %d' % (c[1], labels_field(c[2]), c[3])
    if op == 'pyint':
        return 'pyint %d %s' % (c[1], tohex(c[2]))
    if op == 'fmt':
        kind, w, x = c[1], c[2], c[3]
        return 'fmt %s %d %s' % (kind, w, tohex(x) if isinstance(x, str) else str(x))
    raise ValueError(op)


_AP = None


def _parser_cls():
    global _AP
    if _AP is None:
        from py65.utils.addressing import AddressParser
        _AP = AddressParser
    return _AP


def real_of(c):
    """Canonical reply of the real code (same text as the driver's)."""
    op = c[0]
    if op in ('num', 'rng'):
        try:
            p = _parser_cls()(maxwidth=c[1], radix=c[2], labels=dict(c[3]))
        except OverflowError:
            return 'init-overflow'
        try:
            if op == 'num':
                return 'ok %d' % p.number(c[4])
            a, b = p.range(c[4])
            return 'ok %d %d' % (a, b)
        except KeyError:
            return 'key'
        except OverflowError:
            return 'overflow'
        except BaseException as ex:  # noqa: B902 -- any other escape is the property failing
            return 'other:%s' % type(ex).__name__
    if op == 'lbl':
        try:
            p = _parser_cls()(maxwidth=c[1], labels=dict(c[2]))
        except OverflowError:
            return 'init-overflow'
        r = p.label_for(c[3])
        return 'none' if r is None else 'some ' + tohex(r)
    if op == 'pyint':
        try:
            v = int(c[2], c[1])
        except ValueError:
            return 'none'
        return 'some ' + big_str(v)
    if op == 'fmt':
        kind, w, x = c[1], c[2], c[3]
        if kind == 'hex':
            t = ('%0' + str(w) + 'x') % x
        elif kind == 'dec':
            t = '%u' % x
            assert t == '%d' % x == str(x)
        elif kind == 'oct':
            t = ('%0' + str(w) + 'o') % x
        elif kind == 'bin':
            t = '{0:b}'.format(x)
        elif kind == 'binz':
            from py65.utils.conversions import itoa
            t = itoa(x, 2).zfill(w)
        elif kind == 'zfill':
            t = x.zfill(w)
        elif kind == 'rjust':
            t = x.rjust(w)
        elif kind == 'rjust0':
            t = x.rjust(w, '0')
        else:
            raise ValueError(kind)
        return tohex(t)
    raise ValueError(op)


# ---------------------------------------------------------------------------------------
# generators.  A case is a tuple  (op, ..., )  and travels with  (stream, expect, key)
#   expect: None or the canonical outcome the PROPERTY demands (oracle by construction)
# ---------------------------------------------------------------------------------------

def boundary_ns(w):
    top = 1 << w
    ns = [0, 1, 2, 7, 8, 9, 10, 11, 15, 16, 17, 99, 100, 255, 256, 0xabc, 0xdef, 0xfade, 1 << (w - 1),
          (1 << (w - 1)) - 1, top - 2, top - 1, top, top + 1, 2 * top, 16 * top - 1]
    k = 1
    while k <= 16 * top:
        ns += [k - 1, k]
        k *= 10
    return sorted(set(ns))


def label_tables(rng, w):
    top = (1 << w) - 1
    fixed = [
        (),
        (('foo', 0xc000 & top),),
        (('foo', 0xc000 & top), ('bar', 0), ('baz', top)),
        (('a', 10), ('b', 11), ('f', 3), ('ff', 7), ('10', 5), ('0', 9), ('1', 77), ('c000', 1)),
        (('a+b', 5), ('x-1', 6), ('a', 100), ('b', 200), ('x', 300)),
        (('$c000', 1), ('+5', 2), ('%1', 3), ('$', 4), ('+', 5), ('%', 6)),
        (('', 42), (' ', 43), ('a b', 44), ('foo ', 45), (' foo', 46), ('foo', 47)),
        (('foo+1', 500), ('foo', 10), ('foo-1', 600), ('foo + 1', 700)),
        (('top', top), ('zero', 0), ('mid', top // 2)),
        (('lbl', 0x100 & top), ('LBL', 0x200 & top), ('l_1', 3), ('0x10', 4), ('1_0', 6), ('a:b', 8), ('x,y', 9)),
        (('same1', 5), ('same2', 5), ('other', 6)),
        (('beef', 1), ('dead', 2), ('cafe', 3), ('1a', 4), ('a1', 5)),
    ]
    return fixed


def random_table(rng, w):
    top = (1 << w) - 1
    names = ['foo', 'bar', 'a', 'b', 'f', 'ff', '10', 'x1', 'start', 'end', 'L', 'loop', '_', 'q9', 'a+b',
             'c-d', '$x', '%0', '7', '0', 'main.l', 'Z']
    rng.shuffle(names)
    k = rng.randrange(0, 6)
    return tuple((n, rng.choice([0, 1, top, top - 1, rng.randrange(top + 1), rng.randrange(256)]))
                 for n in names[:k])


def plain_label(l):
    """A label name the grammar can reference: non-empty, no blank, no sign, no prefix character
    in front (those are the number prefixes)."""
    return (len(l) > 0 and not any(ch.isspace() or ch in '+-' for ch in l) and l[0] not in '$+%')


def all_digits_in(s, radix):
    try:
        return len(s) > 0 and all(DIG.index(ch.lower()) < radix for ch in s)
    except ValueError:
        return False


def gen_structured(rng, tier):
    """Yield (case, stream, expect, key)."""
    quick = tier == 'quick'
    nrand = 6 if quick else 60
    # canonical witnesses first (DESIGN.md section 4 F7: offsets with hex letters; KeyError before the
    # repair "fix: label+offset / label-offset accept offsets with hex digits", replays/C15-F7-prefix.json)
    for w in WIDTHS:
        t1 = (('foo', 0xc000),)
        for s, v in (('foo+$1a', 0xc01a), ('foo-$1a', 0xc000 - 0x1a), ('foo+ff', 0xc0ff), ('foo+$FF', 0xc0ff),
                     ('foo+$10', 0xc010), ('foo+10', 0xc010), ('foo-+10', 0xc000 - 10), ('foo+%10', 0xc002)):
            letters = any(ch in 'abcdefABCDEF' for ch in s[4:])
            yield ('num', w, 16, t1, s), 'label-offset', 'ok %d' % v, \
                'label-offset-' + ('hexletters' if letters else 'digits')
    for w in WIDTHS:
        top = 1 << w
        ns = boundary_ns(w) + [rng.randrange(top) for _ in range(nrand)] + \
            [rng.randrange(top, 16 * top) for _ in range(nrand // 3)]
        tables = label_tables(rng, w) + [random_table(rng, w) for _ in range(3 if quick else 12)]
        for r in RADICES:
            # --- spellings ------------------------------------------------------------------
            for n in ns:
                for kind in SPELL_KINDS:
                    for zeros in (0, 1, 4) if quick else (0, 1, 2, 4, 9):
                        for case in ('l', 'u', 'm', 'M'):
                            if case != 'l' and not (kind == 'hex' or (kind == 'bare' and r == 16)):
                                continue
                            s = spell(n, kind, r, zeros, case)
                            labels = tables[(n + zeros) % len(tables)]
                            ld = dict(labels)
                            if kind == 'bare' and s in ld:
                                exp, key = 'ok %d' % ld[s], 'label-shadows-number'
                            else:
                                exp, key = constrain_exp(n, w), 'spelling-' + kind
                            yield ('num', w, r, labels, s), 'spelling', exp, key
                # extended spellings int() also takes: correspondence only
                h = to_base(n, 16)
                for s in ('$0x' + h, '$0X' + h.upper(), '$0x_' + h, '$' + '_'.join(h), '$ ' + h + ' ',
                          '$\t' + h, '$-' + h, '$+' + h, '$--' + h, '$0b' + to_base(n, 2), '%0b' + to_base(n, 2),
                          '%0B_' + to_base(n, 2), '+0o' + to_base(n, 8), '+-' + to_base(n, 10),
                          '+ ' + to_base(n, 10), '+' + to_base(n, 10) + '_', '+_' + to_base(n, 10),
                          '+' + '__'.join(to_base(n, 10)), '0x' + to_base(n, r), '0o' + to_base(n, r),
                          '0b' + to_base(n, r), '-' + to_base(n, r), ' ' + to_base(n, r), to_base(n, r) + ' ',
                          to_base(n, r) + '\n', '_'.join(to_base(n, r)), to_base(n, r) + 'g', '$' + h + 'g',
                          '%' + to_base(n, 2) + '2', '+' + to_base(n, 10) + 'a', to_base(n, min(r + 1, 36))):
                    yield ('num', w, r, tables[n % len(tables)], s), 'spelling-ext', None, ''
            # --- labels, label +/- offset ------------------------------------------------------
            for labels in tables:
                ld = dict(labels)
                for l, a in labels:
                    exp = 'ok %d' % a if (l and l[0] not in '$+%') else None
                    yield ('num', w, r, labels, l), 'label', exp, 'label'
                    yield ('num', w, r, labels, l + 'x'), 'label', None, ''
                    yield ('num', w, r, labels, l.upper()), 'label', None, ''
                for l in ('nosuch', 'undefined_label', 'zz', 'g', 'foo.bar', 'x_y', 'q', '_', 'label', '~', '#1'):
                    if l not in ld:
                        # malformed / unknown: not a label, not digits of the radix -> KeyError
                        exp = 'key' if not all_digits_in(l.replace('_', ''), r) else None
                        yield ('num', w, r, labels, l), 'unknown-label', exp, 'unknown-label'
                offs = [0, 1, 2, 9, 10, 15, 16, 26, 0x1a, 255, 256, 0xabc, top - 1, top, rng.randrange(top)]
                names = [l for l, _ in labels] + ['nosuch']
                for l in names:
                    for sign in '+-':
                        for m in offs if not quick else rng.sample(offs, 6):
                            for kind in SPELL_KINDS:
                                case = rng.choice('lum')
                                zeros = rng.choice((0, 0, 1, 3))
                                sp = spell(m, kind, r, zeros, case if (kind == 'hex' or r == 16) else 'l')
                                b1, b2 = rng.choice(BLANKS), rng.choice(BLANKS)
                                s = l + b1 + sign + b2 + sp
                                tail = rng.choice(['', '', '', '\n'])
                                exp, key = None, ''
                                if plain_label(l) and s not in ld and tail == '':
                                    if l in ld:
                                        if sp[0] not in '$+%' and sp in ld:
                                            mval, inner_ok = ld[sp], True     # the offset is itself a label
                                        else:
                                            mval, inner_ok = m, m < top       # prefixes win over labels
                                        v = ld[l] + mval if sign == '+' else ld[l] - mval
                                        exp = constrain_exp(v, w) if inner_ok else 'overflow'
                                        letters = any(ch in 'abcdefABCDEF' for ch in sp)
                                        key = 'label-offset-' + ('hexletters' if letters else 'digits')
                                    else:
                                        exp, key = 'key', 'unknown-label-offset'
                                yield ('num', w, r, labels, s + tail), 'label-offset', exp, key
                # --- ranges ----------------------------------------------------------------------
                atoms = []
                for n in rng.sample(ns, 5 if quick else 10):
                    kind = rng.choice(SPELL_KINDS)
                    s = spell(n, kind, r, rng.choice((0, 2)), 'l')
                    if kind == 'bare' and s in ld:
                        continue
                    atoms.append((s, constrain_exp(n, w)))
                for l, a in labels:
                    if plain_label(l) and ':' not in l and ',' not in l:
                        atoms.append((l, 'ok %d' % a))
                atoms.append(('nosuch', 'key'))
                for _ in range(12 if quick else 60):
                    (sa, ea), (sb, eb) = rng.choice(atoms), rng.choice(atoms)
                    sep = rng.choice([':', ',', '::', ':,', ',,'])
                    b1, b2 = rng.choice(['', '', ' ']), rng.choice(BLANKS)
                    # blanks before the separator belong to group 1 and reach number(): only '' is
                    # a "form" the property promises; with b1 != '' correspondence only
                    s = sa + b1 + sep + b2 + sb
                    exp = None
                    if b1 == '':
                        if ea.startswith('ok') and eb.startswith('ok'):
                            x, y = int(ea[3:]), int(eb[3:])
                            exp = 'ok %d %d' % (min(x, y), max(x, y))
                        elif ea.startswith('ok'):
                            exp = eb
                        else:
                            exp = ea
                    yield ('rng', w, r, labels, s), 'range-pair', exp, 'range-pair'
                for sa, ea in atoms:
                    exp = 'ok %s %s' % (ea[3:], ea[3:]) if ea.startswith('ok') else ea
                    yield ('rng', w, r, labels, sa), 'range-single', exp, 'range-single'
                for s in ('a:b:c', ':1', '1:', '1: ', '1:  ', '1:\n', '1:2\n', '1 :2', ' :2', '1:2,', '1: :2', ',', ':',
                          '', '1;2', '1-2', '1 2', '2:1', 'ff:0', '$ffff:$0', '$10000:0', '0:$10000', 'x:0', '0:x'):
                    yield ('rng', w, r, labels, s), 'range-odd', None, ''
                # label_for
                for a in sorted(set([v for _, v in labels] + [0, 1, top - 1])):
                    yield ('lbl', w, labels, a), 'label-for', None, ''
    # constructor overflow, long decimal strings
    for w in WIDTHS:
        for bad in (-1, 1 << w, (1 << w) + 5):
            yield ('num', w, 16, (('ok', 1), ('bad', bad)), 'ok'), 'init', 'init-overflow', 'init'
        for k in (4299, 4300, 4301, 5000):
            yield ('num', w, 10, (), '+' + '0' * (k - 1) + '7'), 'long', None, ''
            yield ('num', w, 10, (), '0' * (k - 1) + '7'), 'long', None, ''
            yield ('num', w, 16, (), '0' * (k - 1) + '7'), 'long', 'ok 7', 'long-pow2'
            yield ('num', w, 16, (), '$' + '0' * (k - 1) + '7'), 'long', 'ok 7', 'long-pow2'
            yield ('num', w, 16, (), '%' + '0' * (k - 1) + '1'), 'long', 'ok 1', 'long-pow2'
            yield ('num', w, 16, (('foo', 5),), 'foo+' + '0' * (k - 1) + '7'), 'long', None, ''


TOKENS = ['$', '+', '%', '-', '_', '0x', '0X', '0b', '0B', '0o', ' ', '\t', ':', ',', '0', '1', '00', '10', 'f', 'F',
          'a', 'b', 'ff', 'g', 'x', 'foo', 'bar', 'bad', 'beef', 'a-b', 'foo+bad', 'foo-b', '7', '8', '9', '2', 'c000', 'ffff', '10000', '65535', '65536', '__',
          '+-', '$$', '::', ' + ', ' - ', 'a+b', '\\', "'", '"', '.', '#', '(', ')', '*', '=', '~', '@']
ARB_TABLES = [(), (('foo', 0xc000), ('bar', 5), ('a', 10), ('b', 11)),
              (('foo', 0x1000), ('bad', 2), ('beef', 0xffff), ('a-b', 7), ('b', 1), ('f', 15), ('1', 9)),
              (('10', 5), ('ff', 7), ('a+b', 9), ('x', 0), ('foo', 65535))]


def near_valid(rng, alphabet):
    r = rng.random()
    if r < 0.45:
        k = rng.randrange(0, 7)
        return ''.join(rng.choice(TOKENS) for _ in range(k))
    if r < 0.75:
        # mutate a valid input
        n = rng.choice([0, 1, 10, 255, 4096, 65535, 65536, rng.randrange(1 << 17)])
        base = rng.choice(['$%x' % n, '+%d' % n, '%' + bin(n)[2:], '%x' % n, '%d' % n, '%o' % n,
                           'foo+%d' % (n & 255), 'foo-$%x' % (n & 255), 'a + %d' % (n & 15), 'bar  -  +%d' % (n & 15),
                           '%x:%x' % (n, n // 2), 'foo,bar', '$%x : foo+1' % n, 'foo+%x' % (n & 255)])
        s = list(base)
        for _ in range(rng.randrange(0, 3)):
            op = rng.randrange(3)
            pos = rng.randrange(len(s) + 1)
            ch = rng.choice(alphabet) if rng.random() < 0.5 else rng.choice('$+%-_ \t:,0x1fb')
            if op == 0:
                s.insert(pos, ch)
            elif op == 1 and s:
                del s[min(pos, len(s) - 1)]
            elif s:
                s[min(pos, len(s) - 1)] = ch
        return ''.join(s)
    k = rng.randrange(0, 10)
    return ''.join(rng.choice(alphabet) for _ in range(k))


def gen_arbitrary(rng, n, alphabet, stream):
    for i in range(n):
        s = near_valid(rng, alphabet)
        w = WIDTHS[i % 3]
        r = RADICES[(i // 3) % 4]
        labels = ARB_TABLES[(i // 12) % len(ARB_TABLES)]
        labels = tuple((k, v & ((1 << w) - 1)) for k, v in labels)
        op = 'rng' if (i % 5 == 4) else 'num'
        yield (op, w, r, labels, s), stream, None, ''


def gen_pyint(rng, n):
    alpha = PRINTABLE
    for i in range(n):
        s = near_valid(rng, alpha)
        if s[:1] in '$%' or (s[:1] == '+' and rng.random() < 0.5):
            s = s[1:]
        base = rng.choice([2, 8, 10, 16, 2, 8, 10, 16, 3, 7, 36, 32, 4, 1, 37, 11])
        yield ('pyint', base, s), 'pyint', None, ''
    for base in (2, 8, 10, 16):
        for s in ('', ' ', '+', '-', '0x', '0X1F', '0b', '0b1', '0o7', '0o', '0x_', '0_x1', '+0x1', '-0b1', '\t1\n',
                  '\x0b1\x0c', '\r1\r', '1\x1c', '\x1c1', '1\x00', '\x001', '00', '0_0', '012', '+-1', '0b_1', '0b__1',
                  '0b1_', '0b_', '0_b1', '-0', '- 0', '0x 1', '0x+1', '0x0x1', 'G', 'g', '8', '2', '0b2', '0o8', '0xg',
                  '0b12', '1_0', '_1', '1__0', '1_', ' 1f ', '1 f', '0' * 4300, '0' * 4301, '1' * 4300, '1' * 4301,
                  '_'.join('1' * 4300), '_'.join('1' * 4301), '-' + '1' * 4300, '+' + '0' * 4301, ' ' + '1' * 4300 + ' ',
                  '0x' + '1' * 4301, '0b' + '1' * 4301, '0o' + '1' * 4301):
            yield ('pyint', base, s), 'pyint', None, ''
        for c in range(128):
            for s in (chr(c), chr(c) + '1', '1' + chr(c), '1' + chr(c) + '1', '0' + chr(c) + '1'):
                yield ('pyint', base, s), 'pyint', None, ''


def gen_fmt(rng, n):
    ns = [0, 1, 7, 8, 9, 10, 15, 16, 255, 256, 4095, 4096, 65535, 65536, (1 << 24) - 1, 1 << 24, (1 << 32) - 1, 1 << 32,
          10 ** 20, 10 ** 50 - 1, 1 << 200]
    ns += [rng.randrange(1 << rng.randrange(1, 40)) for _ in range(n)]
    for x in ns:
        for kind in ('hex', 'dec', 'oct', 'bin', 'binz'):
            for w in (0, 1, 2, 4, 8, 9, 33) if kind in ('hex', 'oct', 'binz') else (0,):
                yield ('fmt', kind, w, x), 'fmt', None, ''
    for s in ('', '1', '-1', '+1', '--1', 'abc', '-', '+', ' 1', '101', '-101', 'a' * 9):
        for w in (0, 1, 2, 3, 4, 8, 12):
            for kind in ('zfill', 'rjust', 'rjust0'):
                yield ('fmt', kind, w, s), 'fmt', None, ''


# ---------------------------------------------------------------------------------------
# evaluation
# ---------------------------------------------------------------------------------------

def check_invariants(c, real):
    """Oracle part that applies to EVERY input: outcome kinds, bounds, ordering."""
    op = c[0]
    if op not in ('num', 'rng'):
        return None
    if real.startswith('other:'):
        return 'exception %s escaped' % real[6:]
    if real.startswith('ok '):
        vals = [int(x) for x in real.split()[1:]]
        top = 1 << c[1]
        if not all(0 <= v < top for v in vals):
            return 'result %s outside [0, 2^%d)' % (vals, c[1])
        if op == 'rng' and not vals[0] <= vals[1]:
            return 'range not ordered: %s' % vals
    return None


def evaluate(items):
    """items: list of (case, stream, expect, key).  Returns a summary dict (picklable)."""
    lines = [line_of(it[0]) for it in items]
    model = run_driver(lines)
    res = dict(n=len(items), agree=0, mism=[], findings=[], nfind={}, dist={}, outcomes={}, distinct=set(),
               nontriv=set(), samples=[], sampled=set())
    for (c, stream, exp, key), ln, mo in zip(items, lines, model):
        re_ = real_of(c)
        res['dist'][stream] = res['dist'].get(stream, 0) + 1
        kind = re_.split(' ')[0].split(':')[0]
        if c[0] in ('num', 'rng'):
            ok = c[0] + '/' + kind
            res['outcomes'][ok] = res['outcomes'].get(ok, 0) + 1
            if key:
                res['outcomes']['class/' + key] = res['outcomes'].get('class/' + key, 0) + 1
        h = hash(c)
        res['distinct'].add(h)
        if kind in ('ok', 'overflow', 'some') or not stream.startswith('arbitrary'):
            res['nontriv'].add(h)
        if mo == re_:
            res['agree'] += 1
        elif len(res['mism']) < 20:
            res['mism'].append(dict(request=ln, case=list(c), model=mo, real=re_, stream=stream))
        else:
            res['mism_more'] = res.get('mism_more', 0) + 1
        bad = check_invariants(c, re_)
        k2 = None
        if bad:
            k2 = dict(kind='invariant', op=c[0])
        elif exp is not None and re_ != exp:
            bad = 'expected %s, real code gave %s' % (exp, re_)
            k2 = dict(kind=key)
        if bad:
            ks = json.dumps(k2, sort_keys=True)
            res['nfind'][ks] = res['nfind'].get(ks, 0) + 1
            if res['nfind'][ks] <= 3:
                res['findings'].append(dict(
                    key=k2,
                    what='%s width=%d radix=%d labels=%r input=%r: %s' % (
                        c[0], c[1], c[2], dict(c[3]), c[4], bad),
                    replay=dict(case=list(c), expected=exp, real=re_, model=mo, request=ln, stream=stream)))
        if kind == 'ok' and stream in ('label-offset', 'range-pair', 'spelling', 'arbitrary') \
                and stream not in res['sampled'] and len(c[4]) > 3:
            res['sampled'].add(stream)
            res['samples'].append(dict(request=ln, input=c[4], stream=stream, real=re_, model=mo))
    return res


def _work(spec):
    seed, idx, n, alphabet, stream = spec
    rng = random.Random('c15-%d-%d-%s' % (seed, idx, stream))
    items = list(gen_arbitrary(rng, n, alphabet, stream))
    r = evaluate(items)
    return r


def merge(total, r):
    total['n'] += r['n']
    total['agree'] += r['agree']
    total['mism'] += r['mism']
    total['mism_more'] = total.get('mism_more', 0) + r.get('mism_more', 0)
    total['findings'] += r['findings']
    for k, v in r['nfind'].items():
        total['nfind'][k] = total['nfind'].get(k, 0) + v
    for k, v in r['dist'].items():
        total['dist'][k] = total['dist'].get(k, 0) + v
    for k, v in r['outcomes'].items():
        total['outcomes'][k] = total['outcomes'].get(k, 0) + v
    total['distinct'] |= r['distinct']
    total['nontriv'] |= r['nontriv']
    total['samples'] += r['samples']


def pre_build(ctx):
    """Tie 1: regenerate lean/Py65/Gen/AddrParserGen.lean from the current source (called by check.py
    inside the build lock, before `lake build`).  A refusal is a broken tie, not a violation."""
    import subprocess
    from common import LEAN
    rep = os.path.join(ctx.work, 'py2lean_addr.json')
    p = subprocess.run([sys.executable, os.path.join(HERE, 'py2lean_addr.py'), '--repo', REPO,
                        '--out', os.path.join(LEAN, 'Py65', 'Gen'), '--report', rep],
                       stdout=subprocess.PIPE, stderr=subprocess.STDOUT, timeout=120)
    r = {}
    try:
        r = json.load(open(rep))
    except Exception:
        pass
    if p.returncode != 0 or not r.get('ok'):
        ctx.broken.append(dict(kind='translator',
                               what='py2lean_addr refused py65/utils/addressing.py (%s)'
                                    % (r.get('where') or 'no location'),
                               detail=(r.get('error') or p.stdout.decode('utf-8', 'replace'))[-1500:],
                               where=r.get('where'), function=r.get('function')))
        ctx.note('translator refusal: %s' % (r.get('error') or '?')[:200])
        return
    ctx.stats['translator'] = dict(functions=r.get('functions'), methods=r.get('methods'),
                                   rewritten=r.get('written'), source_sha256=r.get('source_sha256'),
                                   tool='harness/py2lean_addr.py')
    if r.get('written'):
        ctx.note('generated model changed: %s rewritten' % ', '.join(r['written']))


def explore(ctx):
    t0 = time.time()
    rng = random.Random('c15-%d' % ctx.seed)
    total = dict(n=0, agree=0, mism=[], findings=[], nfind={}, dist={}, outcomes={}, distinct=set(),
                 nontriv=set(), samples=[])
    items = list(gen_structured(rng, ctx.tier))
    items += list(gen_pyint(rng, 4000 if ctx.quick() else 60000))
    items += list(gen_fmt(rng, 300 if ctx.quick() else 5000))
    B = 20000
    for i in range(0, len(items), B):
        merge(total, evaluate(items[i:i + B]))
    ctx.note('structured + pyint + fmt: %d cases, %d agree, %.1fs' % (total['n'], total['agree'], time.time() - t0))
    n_arb = 30000 if ctx.quick() else 300000
    n_ctl = 6000 if ctx.quick() else 60000
    procs = min(16, os.cpu_count() or 1)
    chunk = 2500 if ctx.quick() else 10000
    ascii_all = ''.join(chr(c) for c in range(128))
    specs = [(ctx.seed, i, chunk, PRINTABLE, 'arbitrary') for i in range((n_arb + chunk - 1) // chunk)]
    specs += [(ctx.seed, i, chunk, ascii_all, 'arbitrary-ascii-all') for i in range((n_ctl + chunk - 1) // chunk)]
    with multiprocessing.Pool(procs) as pool:
        for r in pool.imap_unordered(_work, specs):
            merge(total, r)
    ctx.note('arbitrary strings: %d chunks of %d on %d processes, total %.1fs' % (len(specs), chunk, procs,
                                                                                 time.time() - t0))
    for m in total['mism'][:8]:
        ctx.broken.append(dict(kind='tie', what='model and real code disagree on %s' % m['request'][:200],
                               detail='model=%s real=%s stream=%s case=%r' % (m['model'], m['real'], m['stream'],
                                                                             m['case']), replay=m))
    if total['mism']:
        ctx.note('model/real disagreements: %d' % (len(total['mism']) + total.get('mism_more', 0)))
    seen = {}
    total['findings'].sort(key=lambda f: (len(f['replay']['case'][3]), len(str(f['replay']['case'][4])),
                                          f['replay']['case'][1], str(f['replay']['case'])))
    for f in total['findings']:
        ks = json.dumps(f['key'], sort_keys=True)
        seen[ks] = seen.get(ks, 0) + 1
        if seen[ks] <= 2:
            ctx.findings.append(f)
    shown = set()
    for f in ctx.findings:
        ks = json.dumps(f['key'], sort_keys=True)
        if ks not in shown:
            shown.add(ks)
            ctx.note('property deviation %s x%d, e.g. %s' % (ks, total['nfind'].get(ks, 0), f['what'][:220]))
    ctx.stats['evaluations'] = total['n']
    ctx.stats['traces_validated_against_impl'] = total['agree']
    ctx.stats['distinct_nontrivial'] = len(total['nontriv'])
    ctx.stats['distribution'] = dict(streams=total['dist'], outcomes=total['outcomes'],
                                     distinct_inputs=len(total['distinct']),
                                     property_deviations={k: v for k, v in total['nfind'].items()})
    ctx.samples = total['samples'][:6]
    sessions(ctx)


def _outcome(f, *a):
    try:
        return ('ok', f(*a))
    except KeyError:
        return ('key',)
    except OverflowError:
        return ('overflow',)
    except Exception as ex:  # any other escaping exception is itself a violation
        return ('other', type(ex).__name__)


def sessions(ctx):
    """History dimension: ONE long-lived parser whose label table, radix and width are changed in
    place between calls (as the monitor does); every answer must equal the answer of a freshly
    built parser with the current table/radix/width (parsing is a function of the current
    configuration, not of what was parsed before)."""
    AP = _parser_cls()
    rng = random.Random('c15-sessions-%d' % ctx.seed)
    n_sess = 400 if ctx.quick() else 8000
    names = ['foo', 'bar', 'a', 'loop', 'x1', 'f', 'ff', 'b', 'c000']
    n_calls = 0
    for si in range(n_sess):
        width = rng.choice([16, 24, 32])
        radix = rng.choice([16, 10, 8, 2])
        labels = {}
        live = AP(maxwidth=width, radix=radix, labels={})
        script = ['width %d' % width, 'radix %d' % radix]
        sess_names = rng.sample(names, 3)
        asked = []
        for step in range(rng.randrange(3, 25)):
            r = rng.random()
            if r < 0.25:
                k, v = rng.choice(sess_names), rng.randrange(1 << 16)
                live.labels[k] = v
                labels[k] = v
                script.append('label %s=%d' % (k, v))
            elif r < 0.33 and labels:
                k = rng.choice(sorted(labels))
                if dict(live.labels) != labels:
                    # parsing must not edit the label table (seeded change C15-5 left it empty after a refused offset)
                    ctx.findings.append(dict(
                        key=dict(kind='label-table-changed-by-parsing'),
                        what='same parser, after %d operations (none of which edits the table): its label table is %r, the labels '
                             'defined are %r' % (len(script), dict(live.labels), labels),
                        replay=dict(session=script, got=sorted(dict(live.labels)), expected=sorted(labels))))
                    break
                del live.labels[k]
                del labels[k]
                script.append('del %s' % k)
            elif r < 0.40:
                radix = rng.choice([16, 10, 8, 2])
                live.radix = radix
                script.append('radix %d' % radix)
            elif r < 0.45:
                width = rng.choice([16, 24, 32])
                live.maxwidth = width
                script.append('width %d' % width)
            else:
                base = rng.choice(sess_names)
                off = rng.choice(['0', '1', '10', '$1f', '+9', '%101', 'ff', 'F'])
                text = rng.choice([base, '%s+%s' % (base, off), '%s - %s' % (base, off), '$%x' % rng.randrange(1 << 20),
                                   off, '%s:%s' % (base, off)])
                use_range = ':' in text or rng.random() < 0.15
                if asked and rng.random() < 0.45:
                    # ask again something this parser has already answered (memoisation, stale state)
                    text, use_range = rng.choice(asked)
                asked.append((text, use_range))
                fresh = AP(maxwidth=width, radix=radix, labels=dict(labels))
                got = _outcome(live.range if use_range else live.number, text)
                exp = _outcome(fresh.range if use_range else fresh.number, text)
                n_calls += 1
                script.append('%s %r' % ('range' if use_range else 'number', text))
                if got != exp:
                    ctx.findings.append(dict(
                        key=dict(kind='history-dependence'),
                        what='same parser, after %d earlier operations: %s(%r) gives %r but a fresh parser with the same labels/radix/width gives %r'
                             % (len(script) - 1, 'range' if use_range else 'number', text, got, exp),
                        replay=dict(session=script, got=list(got), expected=list(exp))))
                    break
    n_calls += bystanders(ctx, AP)
    ctx.stats['evaluations'] += n_calls
    ctx.stats.setdefault('distribution', {})['session_calls'] = n_calls
    ctx.note('sessions: %d long-lived parsers, %d calls compared with fresh parsers' % (n_sess, n_calls))


def bystanders(ctx, AP):
    """Isolation between parser instances: a label defined on one parser (in place, as the monitor's
    add_label does), or put into the dict a parser was built from afterwards, is unknown to every
    other parser -- however the parsers were constructed (default labels, explicit dict, same dict).
    Seeded change C15-3 (the default `labels={}` shared by all parsers) was missed before this."""
    rng = random.Random('c15-bystanders-%d' % ctx.seed)
    n = 0
    ctors = {
        'default': lambda w, src: AP(maxwidth=w),
        'empty-dict': lambda w, src: AP(maxwidth=w, labels={}),
        'given-dict': lambda w, src: AP(maxwidth=w, labels=src),
        'positional': lambda w, src: AP(w, 16, src),
        'no-args': lambda w, src: AP(),
    }
    kinds = sorted(ctors)
    for _ in range(60 if ctx.quick() else 600):
        wa, wb = rng.choice([16, 24, 32]), rng.choice([16, 24, 32])
        ka, kb = rng.choice(kinds), rng.choice(kinds)
        src = {'shared': 5}
        a = ctors[ka](wa, src)
        b = ctors[kb](wb, src)
        name = rng.choice(['vram', 'foo', 'c0de', 'L1'])
        top_a = (1 << a.maxwidth) - 1
        val = rng.choice([0, 1, 0xffff, 0x10000, top_a]) & top_a
        script = ['A = %s parser (width %d)' % (ka, a.maxwidth), 'B = %s parser (width %d)' % (kb, b.maxwidth)]
        before = [_outcome(b.number, name), _outcome(b.range, name), _outcome(b.number, name + '+1')]
        a.labels[name] = val
        script.append('A.labels[%r] = %d' % (name, val))
        if rng.random() < 0.5:
            src[name + 'x'] = 7
            script.append('the dict passed to the constructors gets %r afterwards' % (name + 'x'))
            before.append(None)
        after = [_outcome(b.number, name), _outcome(b.range, name), _outcome(b.number, name + '+1')]
        n += 3
        bad = None
        if after != before[:3]:
            bad = 'B.number/range(%r) changed from %r to %r' % (name, before[:3], after)
        elif _outcome(a.number, name) != ('ok', val):
            bad = 'A.number(%r) is %r, expected %d' % (name, _outcome(a.number, name), val)
        if bad is None and len(before) == 4:
            # the constructor copies its argument: a later change of that dict is invisible to both
            for who, q in (('A', a), ('B', b)):
                if _outcome(q.number, name + 'x')[0] == 'ok':
                    bad = '%s resolves %r, which was added to the constructor argument only after construction' % (who, name + 'x')
        if bad:
            ctx.findings.append(dict(key=dict(kind='instance-isolation'),
                                     what='two parsers: %s -- %s' % ('; '.join(script), bad),
                                     replay=dict(session=script, problem=bad)))
            break
    return n


def replay(ctx, path):
    obj = json.load(open(path))
    f = obj.get('finding')
    rp = (f or {}).get('replay') or (obj.get('broken') or [{}])[0].get('replay')
    if not rp:
        print(json.dumps(obj, indent=1)[:3000])
        return 0
    if 'session' in rp:
        AP = _parser_cls()
        live = AP(maxwidth=16, radix=16, labels={})
        labels, width, radix = {}, 16, 16
        bad = False
        for line in rp['session']:
            w = line.split(' ', 1)
            if w[0] == 'label':
                k, v = w[1].split('='); live.labels[k] = int(v); labels[k] = int(v)
            elif w[0] == 'del':
                del live.labels[w[1]]; del labels[w[1]]
            elif w[0] == 'radix':
                radix = int(w[1]); live.radix = radix
            elif w[0] == 'width':
                width = int(w[1]); live.maxwidth = width
            else:
                text = eval(w[1])
                fresh = AP(maxwidth=width, radix=radix, labels=dict(labels))
                got = _outcome(getattr(live, w[0]), text)
                exp = _outcome(getattr(fresh, w[0]), text)
                print('%-28s live=%r fresh=%r%s' % (line, got, exp, '   <-- DIFF' if got != exp else ''))
                bad = bad or got != exp
        return 1 if bad else 0
    c = rp['case']
    if c[0] in ('num', 'rng'):
        c = (c[0], c[1], c[2], tuple(tuple(x) for x in c[3]), c[4])
    elif c[0] == 'lbl':
        c = (c[0], c[1], tuple(tuple(x) for x in c[2]), c[3])
    else:
        c = tuple(c)
    ln = line_of(c)
    re_ = real_of(c)
    try:
        mo = run_driver([ln])[0]
    except Exception as ex:  # noqa: B902
        mo = 'driver unavailable: %s' % ex
    print('request  :', ln)
    print('input    : %r' % (c[4] if len(c) > 4 else c[-1],))
    print('expected :', rp.get('expected'))
    print('real     :', re_)
    print('model    :', mo)
    bad = check_invariants(c, re_)
    if bad:
        print('DIFF     : [property] %s' % bad)
    if rp.get('expected') is not None and re_ != rp['expected']:
        print('DIFF     : [property] expected %s, real code gave %s' % (rp['expected'], re_))
        bad = True
    if mo != re_:
        print('DIFF     : [tie] model %s vs real %s' % (mo, re_))
        bad = True
    return 1 if bad else 0
