"""Child of C14's cross-process isolation experiment: create the named devices in the given order in THIS fresh
interpreter, run the same fixed instruction mix on each (own memory each), print the per-step register traces.
usage: c14_iso_child.py <seed> <dev>[,<dev>...]      (PYTHONPATH must contain the py65 tree under test)"""
import json
import random
import sys


def program(dev, seed):
    """bytes of a straight-line program; the immediate values are the same for every device (<= $ff)."""
    r = random.Random(seed)
    vals = [0x00, 0x01, 0x7f, 0x80, 0x8f, 0xc3, 0xff] + [r.randrange(0x80, 0x100) for _ in range(6)] + [r.randrange(256) for _ in range(4)]
    code = []
    for v in vals:
        code += [0xa9, v, 0xaa, 0xe8, 0xca, 0xa8, 0xc8, 0x88, 0x0a, 0x2a, 0x29, v ^ 0x0f, 0x09, v, 0x49, 0x55,
                 0x18, 0x69, v, 0x38, 0xe9, v ^ 0xff, 0xc9, v, 0x48, 0x68, 0x85, 0x10, 0x24, 0x10, 0xe6, 0x10, 0xa5, 0x10]
        if dev != '65Org16':
            code += [0xf8, 0x18, 0x69, v, 0x38, 0xe9, v ^ 0x5a, 0xd8]
    return code


def main():
    seed = int(sys.argv[1])
    order = sys.argv[2].split(',')
    from py65.devices.mpu6502 import MPU as M6502
    from py65.devices.mpu65c02 import MPU as M65C02
    from py65.devices.mpu65org16 import MPU as M65Org16
    cls = {'6502': M6502, '65C02': M65C02, '65Org16': M65Org16}
    out = {}
    for k, dev in enumerate(order):
        m = cls[dev](memory=[0] * (0x20000 if dev == '65Org16' else 0x10000))    # the 65Org16 stack is at $10000-$1FFFF
        code = program(dev, seed)
        for i, b in enumerate(code):
            m.memory[0x300 + i] = b
        m.pc = 0x300
        tr = []
        try:
            while m.pc < 0x300 + len(code):
                m.step()
                tr.append([m.a, m.x, m.y, m.sp, m.p, m.pc, m.processorCycles])
        except Exception as ex:  # noqa: B902
            tr.append('raised %s' % type(ex).__name__)
        out['%d:%s' % (k, dev)] = tr
    print(json.dumps(out))


main()
