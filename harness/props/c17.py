"""C17 -- monitor run control equals stepping the bare device and stops where documented.

Proof level: the theorems of lean/Py65/Props/C17.lean hold of the hand-written model
lean/Py65/Model/MonRun.lean (`_run`, goto / return / step, the breakpoint list) for EVERY step
function, every program, every breakpoint history.  This module is

 * the PROPERTY ITSELF evaluated on the real code: random terminating programs (instruction streams
   over the device's declared opcodes with forward branches / jumps / subroutine calls, ending in
   BRK, RTS or RTI) are placed at random start addresses; a random history of add_breakpoint /
   delete_breakpoint commands is typed into a real `Monitor`; then `goto a`, `return` or `step` is
   typed.  A second, bare MPU of the same class over an equivalent memory is stepped from the same
   state until -- after at least one instruction -- PC is at a stop opcode or at a breakpoint that
   the ORACLE's own bookkeeping (written from the property text, not from the monitor's list)
   considers active; registers, cycle count and the complete memory must then equal the monitor's,
   and "Breakpoint n reached." must name the number the address was given.  Numbers must never be
   reused, deleted breakpoints must never stop execution.  Deviations are findings with replays;
 * the TIE of the model to the real code: the same runs through the Lean model over the GENERATED
   device step function (driver line `run ...`) and the same breakpoint histories through the
   model's list operations (driver line `mon ...`), compared exactly.

Non-terminating programs (fuel-bounded pre-run on the bare device), a 65C02 in WAI and opcodes
> 255 at PC on the 65Org16 are outside the quantifier and skipped (counted).
"""
import io
import json
import multiprocessing
import os
import random
import re
import signal
import sys
import time

HERE = os.path.dirname(os.path.dirname(os.path.abspath(__file__)))
if HERE not in sys.path:
    sys.path.insert(0, HERE)
import common  # noqa: E402
from common import run_driver  # noqa: E402
from props import c16 as M  # noqa: E402

ID = 'C17'
LEAN_MODULES = ['Py65.Props.C17', 'Py65.Proofs.MonRunGenEq', 'Py65.Props.C17g', 'Py65.Props.C17h']
NAMESPACES = ['Py65.Props.C17', 'Py65.Proofs.MonRunGenEq', 'Py65.Props.C17g', 'Py65.Props.C17h']
# library helpers (CPython behaviour modelled in lean/Py65/Model/*Rt*.lean ...) that the generated code of these
# modules calls, derived by scanning the Lean sources (harness/rtscan.py); validated against CPython on every run
import rtcheck  # noqa: E402
RT_HELPERS = rtcheck.helpers_for(LEAN_MODULES)
LEVEL = 'proof'
USES_PROLOGUE = True
USES_GEN = True
EXPECTED_THEOREMS = [
    'Py65.Props.C17.runLoop_is_iterate', 'Py65.Props.C17.run_is_iterate', 'Py65.Props.C17.run_complete',
    'Py65.Props.C17.commands_are_runs', 'Py65.Props.C17.run_variants_agree', 'Py65.Props.C17.bp_numbers_fresh',
    'Py65.Props.C17.delete_bad_number_unchanged', 'Py65.Props.C17.bp_deleted_inert',
    # tie by regeneration: generated methods = hand model, and the theorems restated for them
    'Py65.Proofs.MonRunGenEq.while1_eq', 'Py65.Proofs.MonRunGenEq.while2_eq', 'Py65.Proofs.MonRunGenEq.run_eq',
    'Py65.Proofs.MonRunGenEq.do_return_eq', 'Py65.Proofs.MonRunGenEq.do_goto_eq', 'Py65.Proofs.MonRunGenEq.do_step_eq',
    'Py65.Proofs.MonRunGenEq.do_add_breakpoint_eq', 'Py65.Proofs.MonRunGenEq.do_delete_breakpoint_eq',
    'Py65.Proofs.MonRunGenEq.do_show_breakpoints_eq', 'Py65.Proofs.MonRunGenEq.genBpHistory_eq',
    'Py65.Props.C17g.run_is_iterate', 'Py65.Props.C17g.run_complete', 'Py65.Props.C17g.commands_are_runs',
    'Py65.Props.C17g.run_variants_agree', 'Py65.Props.C17g.bp_numbers_fresh',
    'Py65.Props.C17g.delete_bad_number_unchanged', 'Py65.Props.C17g.bp_deleted_inert',
    'Py65.Props.C17g.show_breakpoints_lists_active',
    # composition with C13h (documented cycles over histories) and C05h (closure over histories), the step being a
    # GENERATED device (lean/Py65/Props/C17h.lean, notes/compose2.md)
    'Py65.Props.C17h.run_stops', 'Py65.Props.C17h.run_cycles', 'Py65.Props.C17h.run_cycles_6502',
    'Py65.Props.C17h.run_cycles_65c02_exact', 'Py65.Props.C17h.run_cycles_65org16', 'Py65.Props.C17h.run_closed',
    'Py65.Props.C17h.run_closed_8bit', 'Py65.Props.C17h.goto_cycles_closed', 'Py65.Props.C17h.return_cycles_closed',
    'Py65.Props.C17h.step_cycles_closed',
]
RULE = ('one evaluation = one goto/return/step command typed into a real Monitor after a breakpoint history, '
        'on a program the bare device finishes within the fuel.  non-trivial = the run changed at least one '
        'register, the cycle count or a cell; distinct = distinct (device, command, stop reason '
        '[stop opcode BRK/RTS/RTI | breakpoint | single step], steps class, active-breakpoint class, '
        'deleted-breakpoint class, start-address class, first opcode of the program) tuples among those')
TRUSTED = [
    'REGENERATED on every run: Monitor._run (both `while True` loops with break, set(self._breakpoints) with its '
    'None entries, self._breakpoints.index(pc), the message), do_step, do_goto, do_return (stop-code lists), '
    'do_add_breakpoint, do_delete_breakpoint (range check, None tombstones, the two-argument _output call), '
    'do_show_breakpoints and their help_* are translated from the current py65/monitor.py by '
    'harness/py2lean_mon.py into lean/Py65/Gen/MonRunGen.lean; Py65.Proofs.MonRunGenEq proves every generated '
    'method equal to the hand model Py65.Model.MonRun for ALL arguments, states, fuels and ANY step function '
    '(run_eq, do_goto_eq, do_return_eq, do_step_eq, do_add/delete/show_breakpoint(s)_eq, genBpHistory_eq); '
    'Py65.Props.C17g restates the C17 theorems for the generated methods.  A source change that breaks an '
    'equality, or that the translator refuses, is a broken tie',
    'hand model lean/Py65/Model/MonRun.lean (the same methods transcribed by hand; the driver runs it) -- tied to '
    'the real Monitor additionally by this sampled correspondence: '
    'number of steps, breakpoint report, all registers, cycle count, excycles/addcycles, every written cell and '
    'the complete backing list',
    'the generated device model Py65.Gen.* (translator, validated by C01/C03/C05) as the `step` of the tie',
    'harness/props/c17.py: program generator, the bare-device oracle (a second MPU of the same class stepped by '
    'the harness), the breakpoint bookkeeping oracle, output parser',
    'Python facts modelled, not verified: set(list) emptiness, `in` on a set/list holding None, list.index, '
    'cmd.Cmd dispatch, shlex.split',
    'harness/py2lean_mon.py (Python subset -> Lean; evaluation order and static resolution of try/except for the '
    'accepted subset are modelled, not verified) and the library helpers of lean/Py65/Model/MonGenRt.lean the '
    'generated text calls: pySet / pyIn / pyIndex / pyGetItem / pyListSet (set, in, list.index, indexing), '
    'pyFmtD / pyFmtUX (%d, %04X), MonCmd.shlexSplit, PyStr.pyIntL (int), AddrParser.numberL / labelFor; '
    'mpu.step() is the parameter `step` (instantiated with the generated device step by the driver); '
    'console.noncanonical_mode / restore_mode are skipped by name; do_disassemble is an uninterpreted printer',
    'C17h (composition, proof only): the generated _run / do_goto / do_return / do_step instantiated with the GENERATED '
    'device steps (Hist.Dev.step), composed with C13h.cycles_history / cycles_history_65c02_exact / '
    'cycles_monotone_prefix (documented cycle table Spec.Cycles as the oracle) and C05h.closed_history; nothing new is '
    'modelled',
]
ASSUMPTIONS = [
    'programs terminate: the bare device reaches the stop condition within the fuel (4000 instructions); '
    'non-terminating programs, a 65C02 that executed WAI, and a 65Org16 whose PC reaches a cell > 255 '
    '(IndexError in the opcode table, C05) are outside the quantifier',
    'the monitor is built as py65mon does: the memory is an ObservableMemory with getc on $F004 (input kept '
    'empty: reads answer 0) and putc on $F001; the bare device runs over an ObservableMemory of the same '
    'size with the same getc behaviour ("the same state" includes the I/O registers; character I/O is C18)',
    'the tie to the Lean model (whose memory is a total function without aliasing or I/O registers) is '
    'compared only for runs whose accesses stay inside the physical memory and never read a non-zero getc cell; '
    'the others are still checked against the bare device',
    'breakpoint arguments are single tokens (numbers in any spelling of C15 / decimal integers for delete)',
    'tie by regeneration: the generated loops take a fuel with the accounting of the model (one unit per '
    'mpu.step()), so the GenEq theorems need no hypothesis; the device step itself, shlex.split, int(), the address '
    'parser and the %-conversions remain library behaviour (named helpers), the monitor-side peek mem[pc] is the '
    'pure read St.mem (as in the hand model)',
    'C17h run_cycles / run_closed: the hypotheses of C13h / C05h and no others -- the start state is well-formed '
    '(Hist.Inv: WF, and a 6502 / 65Org16 is not waiting; for goto the parsed address is an address of the device); '
    '65Org16: the opcode cells the run executes hold bytes 0..255 (CellsOK; above 255 the real step() raises '
    'IndexError); documented count on the 65C02: no BRA $80 executed (NoBra) -- run_cycles_65c02_exact needs no '
    'hypothesis and gives documented - #BRA; 6502: no side condition (run_cycles_6502).  Well-formedness along the run '
    'is proved, not assumed',
]

FUEL = 4000


def pre_build(ctx):
    """translator tie: regenerate lean/Py65/Gen/MonRunGen.lean from the current monitor.py"""
    from props import montie
    return montie.pre_build(ctx, 'run')

GETC = M.GETC
NOPER = {'imp': 0, 'acc': 0, 'imm': 1, 'zpg': 1, 'zpx': 1, 'zpy': 1, 'inx': 1, 'iny': 1, 'zpi': 1, 'rel': 1,
         'abs': 2, 'abx': 2, 'aby': 2, 'ind': 2, 'iax': 2}
_TABLES = {}


def tables(dev):
    t = _TABLES.get(dev)
    if t is None:
        cls = common.device_classes()[dev]
        dis = cls().disassemble
        t = dict(cls=cls, dis=dis,
                 plain=[i for i, (mn, mo) in enumerate(dis)
                        if mn != '???' and mn not in ('BRK', 'RTS', 'RTI', 'JMP', 'JSR', 'WAI', 'STP')],
                 undeclared=[i for i, (mn, mo) in enumerate(dis) if mn == '???'])
        _TABLES[dev] = t
    return t


# ---------------------------------------------------------------------------------------
# generator
# ---------------------------------------------------------------------------------------

def gen_case(rng, dev):
    P = M.DEVS[dev]
    W, AW, phys = P['W'], P['AW'], P['phys']
    bm, top = (1 << W) - 1, (1 << AW) - 1
    T = tables(dev)
    ov = {}
    # start address
    r = rng.random()
    if W == 8:
        if r < 0.25:
            S = rng.choice([0x200, 0x2f0, 0x7ffa, 0xc000, 0xfe00, 0xff80, 0xffd0, 0x00f0, 0x1f0, 0xeff0])
        elif r < 0.35:
            S = 0x10000 - rng.choice([6, 9, 12, 20, 40])        # the stream may run over the top
        else:
            S = rng.randrange(0x200, 0xff00)
    else:
        if r < 0.3:
            S = rng.choice([0x20000, 0x2fff0, 0x30000, 0x3f000, 0xfff0, 0x200, 0x1fff0, 0x3ff80])
        else:
            S = rng.randrange(0x20000, 0x3ff00)
    n_ins = rng.choice([1, 2, 3, 4, 6, 8, 12, 16, 24])
    cmd = rng.choice(['goto', 'goto', 'goto', 'return', 'return', 'step'])
    term = rng.choice([0x00, 0x00, 0x60, 0x40]) if cmd == 'goto' else rng.choice([0x60, 0x40, 0x60, 0x00])
    pc = S
    istarts = []
    code = []

    def emit(v):
        nonlocal pc
        ov[pc & top] = v
        code.append(v)
        pc += 1

    def operand_abs():
        if W == 8:
            if rng.random() < 0.5:
                a = rng.choice([0x00, 0x10, 0xff, 0x100, 0x1ff, 0x300, 0x3ff, 0x4000, 0xeffe])
            else:
                a = rng.randrange(0x10000)
            return a & 0xff, a >> 8
        lo = rng.choice([0, 0x10, 0xff, 0xffff, 0xfffe, rng.randrange(1 << 16)])
        return lo, rng.choice([0, 0, 1, 2])

    sub = None
    for k in range(n_ins):
        istarts.append(pc & top)
        r = rng.random()
        if k == 0 and rng.random() < 0.1:
            # the program STARTS at a stop opcode: it must be executed ("after at least one instruction")
            emit(rng.choice([0x00] if cmd == 'goto' else [0x60, 0x40]) if cmd != 'step' else rng.choice([0x00, 0x60, 0x40]))
            continue
        if r < 0.05 and k < n_ins - 1:
            # JMP abs forward (target fixed up below: a later instruction or the terminator)
            emit(0x4c)
            code_pos = pc
            emit(0)
            emit(0)
            ov['fix-%d' % code_pos] = ('jmp', code_pos, len(istarts))
            continue
        if r < 0.09 and sub is None:
            emit(0x20)
            code_pos = pc
            emit(0)
            emit(0)
            sub = code_pos
            continue
        if r < 0.11 and T['undeclared'] and W == 8:
            op = rng.choice(T['undeclared'])       # holes execute as documented (C05); legal in a stream
        else:
            op = rng.choice(T['plain'])
        mode = T['dis'][op][1]
        emit(op)
        if mode == 'rel':
            emit(rng.choice([0, 0, 1, 2, 3, 4, 5]))
        elif NOPER[mode] == 1:
            emit(common.rnd_byte(rng, W))
        elif NOPER[mode] == 2:
            lo, hi = operand_abs()
            emit(lo)
            emit(hi)
    term_addr = pc & top
    istarts.append(term_addr)
    emit(term)
    # a few more terminators behind, so that a branch over the first still ends
    for _ in range(8):
        emit(rng.choice([term, term, 0x00, 0x60, 0xea]))
    emit(term)
    # subroutine
    if sub is not None:
        saddr = pc & top
        ov[sub & top] = saddr & bm
        ov[(sub + 1) & top] = (saddr >> W) & bm
        for _ in range(rng.choice([0, 1, 2, 3])):
            istarts.append(pc & top)
            op = rng.choice([o for o in T['plain'] if T['dis'][o][1] in ('imp', 'acc', 'imm', 'zpg')])
            emit(op)
            if NOPER[T['dis'][op][1]] == 1:
                emit(common.rnd_byte(rng, W))
        istarts.append(pc & top)
        emit(0x60)
    for k in [k for k in ov if isinstance(k, str)]:
        _, pos, idx = ov.pop(k)
        later = [a for a in istarts[idx:] if a != (pos - 1) & top] or [term_addr]
        tgt = rng.choice(later[:4])
        ov[pos & top] = tgt & bm
        ov[(pos + 1) & top] = (tgt >> W) & bm
    # data: zero page pointers, stack, vectors
    for _ in range(rng.choice([0, 4, 8, 16])):
        a = rng.randrange(0x100 if W == 8 else 0x10000)
        if a not in ov:
            ov[a] = common.rnd_byte(rng, W) if W == 8 else rng.choice([0, 1, 2, common.rnd_byte(rng, W)])
    if W == 16:
        # pointer high words small, so that indirect accesses stay inside the physical memory
        for a in list(ov):
            if a < 0x10000 and (a + 1) not in ov:
                ov[a + 1] = rng.choice([0, 1, 2])
    # vectors -> somewhere with a terminator
    if rng.random() < 0.7:
        v = rng.choice([term_addr, istarts[0], (term_addr + 3) & top])
        for base in ((0xfffe, 0xfffa) if W == 8 else (0xfffffffe, 0xfffffffa)):
            ov.setdefault(base, v & bm)
            ov.setdefault(base + 1, (v >> W) & bm)
    ov = {k: v for k, v in ov.items() if 0 <= k < phys}
    ov[GETC] = 0                     # the getc register reads as 0 (no input): keep its cell 0 as well
    if GETC in range(S, S + len(code)):
        return None
    c = dict(dev=dev, seed=(rng.choice([-1, 11, 29]) if W == 8 else -1), ov=ov, S=S, cmd=cmd,
             a=common.rnd_byte(rng, W), x=common.rnd_byte(rng, W), y=common.rnd_byte(rng, W),
             sp=rng.choice([bm, bm - 1, bm - 3, 0, 1, 2, common.rnd_byte(rng, W)]),
             p=rng.randrange(256), pc0=rng.choice([0, S, top, rng.randrange(phys)]),
             cycles=rng.choice([0, 1, 7, rng.randrange(1 << 20)]), term=term, n_ins=n_ins,
             first_op=code[0])
    if W == 16:
        c['p'] &= ~8
    # breakpoint history
    hist = []
    r = rng.random()
    nh = 0 if r < 0.3 else rng.choice([1, 2, 3, 4, 6, 9, 9, 16, 24])    # long ones: breakpoint numbers with two digits
    added = 0
    for _ in range(nh):
        r = rng.random()
        if r < 0.6 or added == 0:
            q = rng.random()
            if q < 0.6:
                a = rng.choice(istarts)
            elif q < 0.7:
                a = S
            elif q < 0.8:
                a = term_addr
            elif q < 0.97:
                a = rng.randrange(top + 1) if rng.random() < 0.5 else rng.choice(istarts) + rng.choice([1, -1, phys])
                a &= top
            else:
                a = top + 1 + rng.randrange(3)
            hist.append(dict(k='ab', toks=[M.spell_num(rng, a)], addr=a))
            added += 1
        else:
            q = rng.random()
            if q < 0.75:
                # any number given out so far; in long histories mostly a recent one (two-digit numbers)
                t = str(rng.randrange(added) if added <= 10 or rng.random() < 0.4 else rng.randrange(10, added))
            elif q < 0.85:
                t = str(added + rng.choice([0, 0, 1, 5]))          # == len: IndexError; > len: TypeError
            else:
                t = rng.choice(['-1', 'x', '+0', '1_0', ''])
            hist.append(dict(k='db', toks=[t] if t else []))
    if nh and rng.random() < 0.12:
        # delete everything: the second loop of _run with tombstones only
        for i in range(added):
            hist.append(dict(k='db', toks=[str(i)]))
    if hist and rng.random() < 0.3:
        hist.append(dict(k='shb'))
    c['hist'] = hist
    # a second run in the same monitor after the breakpoints changed (the answer must depend on the
    # current breakpoint table only, not on what an earlier run saw)
    hist2 = []
    if added and cmd != 'step' and rng.random() < 0.7:
        for _ in range(rng.choice([1, 1, 2])):
            if rng.random() < 0.65:
                hist2.append(dict(k='db', toks=[str(rng.randrange(added))]))
            else:
                a = rng.choice(istarts)
                hist2.append(dict(k='ab', toks=[M.spell_num(rng, a)], addr=a))
    c['hist2'] = hist2
    c['spell'] = M.spell_num(rng, S)
    return c


def start_class(dev, S):
    P = M.DEVS[dev]
    top = (1 << P['AW']) - 1
    page = 1 << P['W']
    if S >= P['phys'] - 64:
        return 'near-top'
    if S % page >= page - 24:
        return 'page-end'
    if S < 2 * page:
        return 'zp-stack'
    return 'mid'


# ---------------------------------------------------------------------------------------
# the breakpoint bookkeeping oracle (from the property text)
# ---------------------------------------------------------------------------------------

class BpOracle(object):
    """numbers are handed out 0,1,2,... and never reused; an address is active from its successful add
    until the delete of its number."""

    def __init__(self):
        self.next = 0
        self.active = {}          # number -> address
        self.ever = {}            # number -> address

    def check(self, h, out):
        """Returns None or a violation text for the command `h` with parsed outcome `out`."""
        if h['k'] == 'ab':
            m = re.match(r'added:(\d+):(\d+)$', out)
            if m:
                n, a = int(m.group(1)), int(m.group(2))
                bad = None
                if n in self.ever:
                    bad = 'breakpoint number %d was given out again (first for $%x, now for $%x)' % (n, self.ever[n], a)
                elif n != self.next:
                    bad = 'breakpoint number %d given where %d successful adds preceded' % (n, self.next)
                elif a in self.active.values():
                    bad = 'address $%x added although it is active' % a
                elif a != h.get('addr'):
                    bad = 'breakpoint added at $%x, asked for $%x' % (a, h.get('addr'))
                self.ever[n] = a
                self.active[n] = a
                self.next = max(self.next, n) + 1 if bad else self.next + 1
                return bad
            m = re.match(r'present:(\d+)$', out)
            if m and int(m.group(1)) not in self.active.values():
                return 'address $%x refused as present although it is not active' % int(m.group(1))
            return None
        if h['k'] == 'db':
            t = (h.get('toks') or [''])[0]
            if re.fullmatch(r'[0-9]+', t) and int(t) in self.active and not re.match(r'removed:%d$' % int(t), out):
                # breakpoint numbers are handed out, listed and reported in decimal: `delete_breakpoint n` for an
                # active n must remove n (seeded change C17-6 read the number in the monitor's default radix)
                return 'delete_breakpoint %s did not remove the active breakpoint %d (outcome %r)' % (t, int(t), out[:80])
            m = re.match(r'removed:(\d+)$', out)
            if m:
                n = int(m.group(1))
                if n not in self.active:
                    return 'breakpoint %d reported removed but it was not active' % n
                del self.active[n]
                return None
            m = re.match(r'already:(\d+)$', out)
            if m and int(m.group(1)) in self.active:
                return 'breakpoint %d reported already removed but it is active' % int(m.group(1))
            return None
        if h['k'] == 'shb':
            if out.startswith('bps:'):
                got = {}
                if out != 'bps:-':
                    for kv in out[4:].split(','):
                        i, a = kv.split('=')
                        got[int(i)] = int(a)
                if got != self.active:
                    return 'show_breakpoints lists %r, active are %r' % (got, self.active)
            return None
        return None


# ---------------------------------------------------------------------------------------
# the two sides
# ---------------------------------------------------------------------------------------

class Timeout(Exception):
    pass


def _alarm(signum, frame):
    raise Timeout('monitor run did not end')


def regs_of(mpu):
    return '%d %d %d %d %d %d %d %d %d %d' % (
        mpu.a, mpu.x, mpu.y, mpu.sp, mpu.p, mpu.pc, mpu.processorCycles, mpu.excycles, int(mpu.addcycles),
        1 if getattr(mpu, 'waiting', False) else 0)


def bare_run(c, mem0, active, P):
    """Step a bare MPU from the case's state until the documented stop condition.  Returns
    (status, n, mpu, reason, io_flag)."""
    from py65.memory import ObservableMemory
    T = tables(c['dev'])
    subj = mem0[:]
    om = ObservableMemory(subject=subj, addrWidth=P['AW'])
    flag = [False]

    def getc(address):
        if subj[address] != 0:
            flag[0] = True
        return 0

    om.subscribe_to_read([GETC], getc)
    mpu = T['cls'](memory=om)
    mpu.a, mpu.x, mpu.y, mpu.sp, mpu.p = c['a'], c['x'], c['y'], c['sp'], c['p']
    mpu.pc = c['S'] if c['cmd'] != 'goto' else c['S']
    mpu.processorCycles = c['cycles']
    mpu.excycles, mpu.addcycles = 0, 0
    stop = {'goto': (0x00,), 'return': (0x60, 0x40), 'step': ()}[c['cmd']]
    n = 0
    try:
        while True:
            mpu.step()
            n += 1
            if c['cmd'] == 'step':
                return 'ok', n, mpu, 'step', flag[0]
            op = om[mpu.pc]
            if op in stop:
                return 'ok', n, mpu, 'stopcode', flag[0]
            if mpu.pc in active:
                return 'ok', n, mpu, 'breakpoint', flag[0]
            if n >= FUEL or getattr(mpu, 'waiting', False):
                return 'nonterminating', n, mpu, None, flag[0]
    except Exception as ex:  # noqa: B902 -- e.g. IndexError: opcode cell > 255 on the 65Org16
        return 'raise:%s' % type(ex).__name__, n, mpu, None, flag[0]


def run_case(c):
    """Returns dict(status, finds, lines for the driver, expected replies, class key, ...)."""
    dev = c['dev']
    P = M.DEVS[dev]
    rm = M.RealMon(dev, c['seed'], c['pc0'], None)
    res = dict(status='ok', finds=[], bp_line=None, bp_real=None, run_line=None, run_real=None, info=[])
    try:
        subj = rm.subj
        for a, v in c['ov'].items():
            subj[int(a)] = v
        mpu = rm.mon._mpu
        mpu.a, mpu.x, mpu.y, mpu.sp, mpu.p = c['a'], c['x'], c['y'], c['sp'], c['p']
        mpu.processorCycles = c['cycles']
        mpu.excycles, mpu.addcycles = 0, 0
        # ---- breakpoint history ----
        orc = BpOracle()
        outs = []
        for i, h in enumerate(c['hist']):
            out, body, line, _ = rm.run(h)
            outs.append(out)
            res['info'].append((line, out))
            bad = orc.check(h, out)
            if bad:
                res['finds'].append(dict(key=dict(kind='bp-number', dev=dev), index=i, line=line, text=bad))
        if c['hist']:
            res['bp_line'] = 'mon %s -1 0 %s' % (dev, ' '.join(M.cmd_token(h) for h in c['hist']))
            res['bp_real'] = (outs, ','.join('x' if b is None else str(b) for b in rm.mon._breakpoints) or '-')
        bps_now = list(rm.mon._breakpoints)
        active = set(orc.active.values())
        # ---- the bare device ----
        mem0 = subj[:]
        if c['cmd'] != 'goto':
            mpu.pc = c['S']
        status, n, B, reason, ioflag = bare_run(c, mem0, active, P)
        res['status'] = status
        res['n'] = n
        if status != 'ok':
            return res
        # ---- the monitor ----
        line = {'goto': 'goto ' + c['spell'], 'return': 'return', 'step': 'step'}[c['cmd']]
        if c.get('short'):
            line = {'goto': 'g ' + c['spell'], 'return': 'ret', 'step': 'z'}[c['cmd']]
        old = signal.signal(signal.SIGALRM, _alarm)
        signal.setitimer(signal.ITIMER_REAL, 20.0)
        try:
            body = rm.type(line)
        finally:
            signal.setitimer(signal.ITIMER_REAL, 0)
            signal.signal(signal.SIGALRM, old)
        res['info'].append((line, body[-60:]))
        key = dict(kind='run-state', dev=dev, cmd=c['cmd'])
        if 'Timeout' in body and 'Traceback' in body:
            res['finds'].append(dict(key=dict(kind='run-no-stop', dev=dev, cmd=c['cmd']), index=len(c['hist']), line=line,
                                     text='the bare device reaches the stop condition (%s) after %d instruction(s) at '
                                          '$%x; the monitor was still running after 20 s' % (reason, n, B.pc)))
            return res
        m = re.search(r'Breakpoint (\d+) reached\.\n\Z', body)
        hit = int(m.group(1)) if m else None
        if 'Traceback (most recent call last)' in body and hit is None and c['cmd'] != 'step':
            res['finds'].append(dict(key=dict(kind='run-raised', dev=dev, cmd=c['cmd']), index=len(c['hist']), line=line,
                                     text='the monitor raised: %s' % body.strip().split('\n')[-1][:200]))
            return res
        got, want = regs_of(mpu), regs_of(B)
        gs, ws = got.split()[:7], want.split()[:7]
        if gs != ws:
            names = ['a', 'x', 'y', 'sp', 'p', 'pc', 'cycles']
            d = ', '.join('%s %s != %s' % (nm, g, w) for nm, g, w in zip(names, gs, ws) if g != w)
            res['finds'].append(dict(key=key, index=len(c['hist']), line=line,
                                     text='after `%s` the monitor differs from the bare device stepped %d time(s) '
                                          '(stop: %s at $%x): %s' % (line, n, reason, B.pc, d)))
        elif subj != B.memory._subject:
            res['finds'].append(dict(key=key, index=len(c['hist']), line=line,
                                     text='after `%s` memory differs from the bare device stepped %d time(s): %s' % (
                                         line, n, '; '.join(M.first_diffs(B.memory._subject, subj)))))
        else:
            exp_hit = None
            if reason == 'breakpoint':
                exp_hit = [k for k, a in orc.active.items() if a == B.pc][0]
            if hit != exp_hit:
                res['finds'].append(dict(key=dict(kind='run-hit', dev=dev, cmd=c['cmd']), index=len(c['hist']), line=line,
                                         text='stopped by %s at $%x: "Breakpoint %s reached." printed, the number it was '
                                              'given is %s' % (reason, B.pc, hit, exp_hit)))
        # ---- Lean line ----
        ovs = ','.join('%d:%d' % (int(a), v) for a, v in sorted((int(k), v) for k, v in c['ov'].items())) or '-'
        cmdtok = {'goto': 'goto:%d' % c['S'], 'return': 'return', 'step': 'step'}[c['cmd']]
        bpf = ','.join('x' if b is None else str(b) for b in bps_now) or '-'
        pc_in = c['pc0'] if c['cmd'] == 'goto' else c['S']
        res['run_line'] = 'run %s %s %d %s %d %d %d %d %d %d %d 0 0 0 %d - %s' % (
            dev, cmdtok, n + 3, bpf, c['a'], c['x'], c['y'], c['sp'], c['p'], pc_in, c['cycles'], c['seed'], ovs)
        res['run_real'] = dict(n=n, hit=hit, regs=got, subj=subj[:], mem0=mem0, ioflag=ioflag)
        res['reason'] = reason
        res['changed'] = (got.split()[:7] != [str(c[k]) for k in ('a', 'x', 'y', 'sp', 'p')] + [str(pc_in), str(c['cycles'])]
                          or subj != mem0)
        res['nactive'] = len(active)
        res['ndeleted'] = sum(1 for b in bps_now if b is None)
        if c.get('hist2') and not res['finds']:
            rerun(c, rm, orc, res, mem0, P, line)
        return res
    finally:
        rm.close()


def rerun(c, rm, orc, res, mem0, P, line):
    """Same program, same initial state, same monitor instance, after the breakpoint table changed."""
    dev = c['dev']
    subj = rm.subj
    mpu = rm.mon._mpu
    for h in c['hist2']:
        out, body, l2, _ = rm.run(h)
        res['info'].append((l2, out))
        bad = orc.check(h, out)
        if bad:
            res['finds'].append(dict(key=dict(kind='bp-number', dev=dev), index=len(c['hist']), line=l2, text=bad))
            return
    active = set(orc.active.values())
    subj[:] = mem0
    mpu.a, mpu.x, mpu.y, mpu.sp, mpu.p = c['a'], c['x'], c['y'], c['sp'], c['p']
    mpu.processorCycles = c['cycles']
    mpu.excycles, mpu.addcycles = 0, 0
    if hasattr(mpu, 'waiting'):
        mpu.waiting = False
    mpu.pc = c['pc0'] if c['cmd'] == 'goto' else c['S']
    status, n, B, reason, ioflag = bare_run(c, mem0, active, P)
    if status != 'ok':
        return
    old = signal.signal(signal.SIGALRM, _alarm)
    signal.setitimer(signal.ITIMER_REAL, 20.0)
    try:
        body = rm.type(line)
    finally:
        signal.setitimer(signal.ITIMER_REAL, 0)
        signal.signal(signal.SIGALRM, old)
    res['info'].append((line, body[-60:]))
    res['reruns'] = res.get('reruns', 0) + 1
    idx = len(c['hist']) + 1 + len(c['hist2'])
    key = dict(kind='rerun-state', dev=dev, cmd=c['cmd'])
    if 'Timeout' in body and 'Traceback' in body:
        res['finds'].append(dict(key=dict(kind='rerun-no-stop', dev=dev, cmd=c['cmd']), index=idx, line=line,
                                 text='second run after %s: the bare device reaches the stop condition (%s) after %d '
                                      'instruction(s) at $%x; the monitor was still running after 20 s'
                                      % ([M.cmd_token(h) for h in c['hist2']], reason, n, B.pc)))
        return
    m = re.search(r'Breakpoint (\d+) reached\.\n\Z', body)
    hit = int(m.group(1)) if m else None
    got, want = regs_of(mpu), regs_of(B)
    gs, ws = got.split()[:7], want.split()[:7]
    exp_hit = None
    if reason == 'breakpoint':
        exp_hit = [k for k, a in orc.active.items() if a == B.pc][0]
    if gs != ws or subj != B.memory._subject or hit != exp_hit:
        names = ['a', 'x', 'y', 'sp', 'p', 'pc', 'cycles']
        d = ', '.join('%s %s != %s' % (nm, g, w) for nm, g, w in zip(names, gs, ws) if g != w)
        res['finds'].append(dict(key=key, index=idx, line=line,
                                 text='second `%s` in the same monitor after %s (active breakpoints now %s): the monitor '
                                      'differs from the bare device stepped %d time(s) (stop: %s at $%x): %s; printed '
                                      'breakpoint %s, expected %s' % (
                                          line, [M.cmd_token(h) for h in c['hist2']], sorted(active), n, reason, B.pc,
                                          d or 'registers equal', hit, exp_hit)))


def evaluate(cases):
    tot = dict(n=0, ran=0, skipped={}, agree=0, tie_skipped={}, mism=[], findings=[], nfind={}, dist={}, nontriv=set(),
               samples=[], bp_hist=0, bp_agree=0)
    results = []
    lines = []
    for c in cases:
        r = run_case(c)
        results.append(r)
        for k in ('bp_line', 'run_line'):
            if r.get(k):
                lines.append(r[k])
    replies = run_driver(lines)
    it = iter(replies)
    for c, r in zip(cases, results):
        tot['n'] += 1
        dev = c['dev']
        for f in r['finds']:
            ks = json.dumps(f['key'], sort_keys=True)
            tot['nfind'][ks] = tot['nfind'].get(ks, 0) + 1
            if tot['nfind'][ks] <= 3:
                tot['findings'].append(dict(key=f['key'], what='%s: %s' % (dev, f['text']),
                                            replay=dict(case=c, index=f['index'], line=f['line'],
                                                        typed=[l for l, _ in r['info']], text=f['text'])))
        if r.get('bp_line'):
            mo = next(it)
            tot['bp_hist'] += 1
            pm = M.parse_model(mo)
            outs, bps = r['bp_real']
            if pm is not None and pm['outs'] == outs and pm['tail'][1] == bps:
                tot['bp_agree'] += 1
            elif len(tot['mism']) < 12:
                tot['mism'].append(dict(what='breakpoint history: model %s / %s, real %s / %s' % (
                    pm and pm['outs'], pm and pm['tail'][1], outs, bps), request=r['bp_line'], case=c,
                    typed=[l for l, _ in r['info']]))
        if r['status'] != 'ok':
            tot['skipped'][r['status']] = tot['skipped'].get(r['status'], 0) + 1
            continue
        tot['ran'] += 1
        rr = r.get('run_real')
        if rr is None:
            continue
        mo = next(it)
        key = (dev, c['cmd'], r['reason'] if r['reason'] != 'stopcode' else 'stop-%02x' % c['term'],
               M.len_class(rr['n']), min(r['nactive'], 3), min(r['ndeleted'], 2), start_class(dev, c['S']), c['first_op'])
        dk = '%s/%s/%s' % key[:3]
        tot['dist'][dk] = tot['dist'].get(dk, 0) + 1
        for tag, v in (('steps', key[3]), ('active-bps', key[4]), ('deleted-bps', key[5]), ('start', key[6])):
            kk = '%s/%s' % (tag, v)
            tot['dist'][kk] = tot['dist'].get(kk, 0) + 1
        if r['changed']:
            tot['nontriv'].add(hash(key))
        bad = None
        if mo == 'nofuel 1':
            tot['tie_skipped']['alias'] = tot['tie_skipped'].get('alias', 0) + 1
            continue
        if mo.startswith('nofuel'):
            bad = 'model: the loop did not end within %d iterations, real monitor stopped after %d' % (rr['n'] + 3, rr['n'])
        else:
            parts = mo.split(' | ')
            if len(parts) != 3 or not parts[0].startswith('ok '):
                bad = 'driver reply not understood: %s' % mo[:200]
            elif parts[2] == '1':
                tot['tie_skipped']['alias'] = tot['tie_skipped'].get('alias', 0) + 1
                continue
            elif rr['ioflag']:
                tot['tie_skipped']['getc-cell'] = tot['tie_skipped'].get('getc-cell', 0) + 1
                continue
            else:
                f = parts[0].split(' ')
                mn, mhit, mregs = int(f[1]), f[2], ' '.join(f[3:])
                if mn != rr['n'] or mhit != ('-' if rr['hit'] is None else str(rr['hit'])) or mregs != rr['regs']:
                    bad = 'model steps=%d hit=%s regs=%s ; real steps=%d hit=%s regs=%s' % (
                        mn, mhit, mregs, rr['n'], rr['hit'], rr['regs'])
                else:
                    exp = rr['mem0']
                    if parts[1] != '-':
                        for kv in parts[1].split(' '):
                            a, v = kv.split('=')
                            exp[int(a)] = int(v)
                    if exp != rr['subj']:
                        bad = 'memory: ' + '; '.join('model ' + d for d in M.first_diffs(exp, rr['subj']))
        if bad is None:
            tot['agree'] += 1
            if len(tot['samples']) < 2 and rr['n'] > 3 and r['reason'] == 'breakpoint':
                tot['samples'].append(dict(device=dev, typed=[l for l, _ in r['info']], steps=rr['n'],
                                           registers_after=rr['regs'], model_reply=mo[:300]))
        elif len(tot['mism']) < 12:
            tot['mism'].append(dict(what=bad, request=r['run_line'][:3000], case=c, typed=[l for l, _ in r['info']]))
        else:
            tot['mism_more'] = tot.get('mism_more', 0) + 1
    return tot


def _work(spec):
    seed, idx, n = spec
    rng = random.Random('c17-%d-%d' % (seed, idx))
    cases = []
    while len(cases) < n:
        c = gen_case(rng, list(M.DEVS)[(idx + len(cases)) % 3])
        if c is not None:
            c['short'] = rng.random() < 0.2
            cases.append(c)
    return evaluate(cases)


def merge(total, r):
    for k in ('n', 'ran', 'agree', 'bp_hist', 'bp_agree'):
        total[k] += r[k]
    for k in ('skipped', 'tie_skipped', 'nfind', 'dist'):
        for a, v in r[k].items():
            total[k][a] = total[k].get(a, 0) + v
    total['mism'] += r['mism']
    total['mism_more'] = total.get('mism_more', 0) + r.get('mism_more', 0)
    total['findings'] += r['findings']
    total['nontriv'] |= r['nontriv']
    total['samples'] += r['samples']


def explore(ctx):
    t0 = time.time()
    total = dict(n=0, ran=0, skipped={}, agree=0, tie_skipped={}, mism=[], findings=[], nfind={}, dist={},
                 nontriv=set(), samples=[], bp_hist=0, bp_agree=0)
    n_cases = 12000 if ctx.quick() else 160000
    chunk = 100 if ctx.quick() else 500
    procs = min(16, os.cpu_count() or 1)
    specs = [(ctx.seed, i, chunk) for i in range((n_cases + chunk - 1) // chunk)]
    with multiprocessing.Pool(procs) as pool:
        for r in pool.imap_unordered(_work, specs):
            merge(total, r)
    ctx.note('%d programs generated, %d terminating runs through the real monitor (skipped: %s), %d breakpoint '
             'histories; tie: %d runs + %d histories agree (not compared: %s); %.1fs' % (
                 total['n'], total['ran'], total['skipped'], total['bp_hist'], total['agree'], total['bp_agree'],
                 total['tie_skipped'], time.time() - t0))
    if total['bp_agree'] != total['bp_hist'] and not total['mism']:
        total['mism'].append(dict(what='breakpoint histories disagree', request='', case={}, typed=[]))
    for m in total['mism'][:6]:
        ctx.broken.append(dict(kind='tie', what='model and real monitor disagree: %s' % m['what'][:400],
                               detail='typed: %s' % ' ; '.join(m['typed'])[:800], replay=m))
    if total['mism']:
        ctx.note('model/real disagreements: %d' % (len(total['mism']) + total.get('mism_more', 0)))
    total['findings'].sort(key=lambda f: (len(f['replay']['case'].get('hist', [])), f['replay']['case'].get('n_ins', 0)))
    seen = {}
    for f in total['findings']:
        ks = json.dumps(f['key'], sort_keys=True)
        seen[ks] = seen.get(ks, 0) + 1
        if seen[ks] <= 2:
            ctx.findings.append(f)
    shown = set()
    for f in ctx.findings:
        ks = json.dumps(f['key'], sort_keys=True)
        if ks not in shown:
            shown.add(ks)
            ctx.note('property deviation %s x%d, e.g. %s (typed: %s)' % (
                ks, total['nfind'].get(ks, 0), f['what'][:260], ' ; '.join(f['replay']['typed'])[:200]))
    ctx.stats['evaluations'] = total['ran']
    ctx.stats['traces_validated_against_impl'] = total['agree'] + total['bp_agree']
    ctx.stats['distinct_nontrivial'] = len(total['nontriv'])
    ctx.stats['distribution'] = dict(
        programs=total['n'], terminating_runs=total['ran'], outside_quantifier=total['skipped'],
        breakpoint_histories=total['bp_hist'], tie_runs_agree=total['agree'], tie_histories_agree=total['bp_agree'],
        tie_not_compared=total['tie_skipped'],
        by_device_command_stop={k: v for k, v in sorted(total['dist'].items()) if k.count('/') == 2},
        classes={k: v for k, v in sorted(total['dist'].items()) if k.count('/') == 1},
        property_deviations=dict(total['nfind']))
    ctx.samples = total['samples'][:6]


def replay(ctx, path):
    obj = json.load(open(path))
    f = obj.get('finding')
    rp = (f or {}).get('replay') or (obj.get('broken') or [{}])[0].get('replay')
    if not rp or not rp.get('case'):
        print(json.dumps(obj, indent=1)[:3000])
        return 0
    c = rp['case']
    c['ov'] = {int(k): v for k, v in c['ov'].items()}
    tot = evaluate([c])
    r = run_case(c)
    print('device   :', c['dev'], ' program of %d instruction(s) at $%x ending in $%02x' % (c['n_ins'], c['S'], c['term']))
    for line, out in r['info']:
        print('typed    : %-40s -> %s' % (line, out[:100].replace('\n', ' ')))
    print('bare MPU : %s after %s step(s), stop reason %s' % (r['status'], r.get('n'), r.get('reason')))
    bad = False
    for g in tot['findings']:
        print('DIFF     : [property] %s' % g['what'])
        bad = True
    for m in tot['mism']:
        print('DIFF     : [tie] %s' % m['what'][:400])
        bad = True
    return 1 if bad else 0
