"""C02 -- 65C02: CMOS additions and changed behaviours per the W65C02S model."""
import cpu_props

ID = 'C02'
LEAN_MODULES = ['Py65.Props.C02']
NAMESPACES = ['Py65.Props.C02', 'Py65.Proofs.HC', 'Py65.Proofs.H']
# library helpers (CPython behaviour modelled in lean/Py65/Model/*Rt*.lean ...) that the generated code of these
# modules calls, derived by scanning the Lean sources (harness/rtscan.py); validated against CPython on every run
import rtcheck  # noqa: E402
RT_HELPERS = rtcheck.helpers_for(LEAN_MODULES)
EXPECTED_THEOREMS = ['Py65.Props.C02.C02_full', 'Py65.Props.C02.C02_partial']
TRUSTED = ['Spec.Cpu / Spec.Isa (hand-written programming model, the oracle)',
           'translator harness/py2lean.py (Python subset -> Lean), validated on every run by exact-state comparison of the generated model with the real device',
           'Py.land/lor/lxor definitions (characterised bit-wise by theorems in Proofs/PyIntLemmas.lean, differentially tested)']
ASSUMPTIONS = ['C02_full: every one of the 195 declared opcodes is proved (Py65.Props.C02.unproved = []); ADC/SBC under the binary-mode hypothesis (decimal mode is C04), JSR under the no-self-overwrite hypothesis the property itself excludes',
               'JSR: the two stack cells written are not the instruction\'s own operand bytes',
               'state not waiting (WAI behaviour is C06); model state well-formed (WF)']
LEVEL = 'proof'
RULE = ('every declared opcode x boundary-biased states (registers, operands, pointers and PC aimed at page/wrap boundaries); distinct = distinct (opcode, register-class, pc-quadrant, touched-cell-count) signatures of executions that ran')


def _opcodes(dev, modes):
    return [i for i in range(256) if modes[i][0] != '???']


SPEC = dict(module='props.c02', devs=['65C02'], opcodes=_opcodes, aspects={'sem', 'wait'}, mode='step',
            n_quick=130, n_thorough=4000, decimal=False)


def explore(ctx):
    cpu_props.explore(ctx, SPEC)


def replay(ctx, path):
    return cpu_props.replay(ctx, path)
