"""C02 -- 65C02: CMOS additions and changed behaviours per the W65C02S model."""
import cpu_props

ID = 'C02'
LEAN_MODULES = []
NAMESPACES = []
LEVEL = 'proof'
RULE = ('every declared opcode x boundary-biased states (registers, operands, pointers and PC aimed at page/wrap boundaries); distinct = distinct (opcode, register-class, pc-quadrant, touched-cell-count) signatures of executions that ran')


def _opcodes(dev, modes):
    return [i for i in range(256) if modes[i][0] != '???']


SPEC = dict(module='props.c02', devs=['65C02'], opcodes=_opcodes, aspects={'sem', 'wait'}, mode='step',
            n_quick=130, n_thorough=4000, decimal=False)


def explore(ctx):
    cpu_props.explore(ctx, SPEC)


def replay(ctx, path):
    return cpu_props.replay(ctx, path)
