"""C09 -- the disassembler is total and agrees with what the device actually executes.

Tie 2 (hand model): `Py65.Model.Disasm.instructionAt` (driver line `dis`) against the REAL
`py65.disassembler.Disassembler(mpu, AddressParser(maxwidth=ADDR_WIDTH, labels))` on an
`ObservableMemory(addrWidth=ADDR_WIDTH)` -- a memory that spans the address space, as under the
monitor -- over 3 devices x all 256 opcode bytes x addresses {0, 1, top-2, top-1, top, random} x
operand classes {0, 1, page-1, page edges, sign boundary, random} x label tables (none; labels
on the operand / the word / the branch target / neighbours).  Disagreement -> broken tie.

SEPARATELY the PROPERTY, with an oracle that does not use the model (documented tables parsed from
lean/Py65/Spec/Isa.lean by harness/asmcommon.py):
  total     the real disassembler never raises and reports a length in 1..3; for declared opcodes
            the length is the documented instruction length of the decoded instruction;
  execute   execute-what-you-disassembled on the REAL device (same ObservableMemory): for every
            declared opcode that does not transfer control, PC advances by exactly the reported
            length (modulo the address space); for a relative branch with the flags set so that it
            is taken, the PC reached is the displayed target; JMP abs / JSR abs continue at the
            displayed operand.  States in which the instruction overwrote its own bytes are
            skipped (the statement excludes them) and counted.
A deviation of the real code is a finding with a replay.
"""
import json
import os
import random
import sys
import time

HERE = os.path.dirname(os.path.dirname(os.path.abspath(__file__)))
if HERE not in sys.path:
    sys.path.insert(0, HERE)
from common import run_driver, widths, DEVNAMES, device_classes  # noqa: E402
import asmcommon as ac  # noqa: E402
import disgen  # noqa: E402

ID = 'C09'
LEAN_MODULES = ['Py65.Props.C09', disgen.GENEQ_MODULE, 'Py65.Props.C09g', 'Py65.Props.C09h']
NAMESPACES = ['Py65.Props.C09', 'Py65.Props.C09g', 'Py65.Props.C09h', disgen.GENEQ_NAMESPACE]
# library helpers (CPython behaviour modelled in lean/Py65/Model/*Rt*.lean ...) that the generated code of these
# modules calls, derived by scanning the Lean sources (harness/rtscan.py); validated against CPython on every run
import rtcheck  # noqa: E402
RT_HELPERS = rtcheck.helpers_for(LEAN_MODULES)
LEVEL = 'proof'
USES_GEN = True
EXPECTED_THEOREMS = [
    'Py65.Props.C09.dis_total', 'Py65.Props.C09.dis_len', 'Py65.Props.C09.dis_undeclared',
    'Py65.Props.C09.dis_len_eq_exec', 'Py65.Props.C09.dis_branch_target', 'Py65.Props.C09.dis_branch_taken',
    'Py65.Props.C09.dis_jmp_jsr',
    # the same for the GENERATED instruction_at (tie by regeneration, harness/py2lean_dis.py)
    'Py65.Props.C09g.dis_total', 'Py65.Props.C09g.dis_len', 'Py65.Props.C09g.dis_undeclared',
    'Py65.Props.C09g.dis_len_eq_exec', 'Py65.Props.C09g.dis_branch_target', 'Py65.Props.C09g.dis_branch_taken',
    'Py65.Props.C09g.dis_jmp_jsr',
    # composition with C19 (the walk of `disassemble`), C01-C03 / C05h (the GENERATED device) and C12 (the access
    # log): the listing follows the execution (lean/Py65/Props/C09h.lean, notes/compose2.md)
    'Py65.Props.C09h.step_follows_listing', 'Py65.Props.C09h.listing_follows_execution',
    'Py65.Props.C09h.listing_follows_execution_log', 'Py65.Props.C09h.listing_follows_execution_range',
    'Py65.Props.C09h.listing_of_renamed',
    'Py65.Props.C09h.listing_ends_in_transfer',
] + disgen.GENEQ_THEOREMS
pre_build = disgen.pre_build
RULE = ('devices x opcode bytes 0..255 enumerated; addresses {0,1,top-2,top-1,top} then random; operand cells from '
        'boundary classes then random; label tables aimed at the operand, the operand word, the branch target and '
        'their neighbours.  distinct = distinct (device, pc, cells, labels) inputs; nontrivial = the opcode is declared '
        '(text carries an operand or a mnemonic), or the address is one of the last three (operand fetch wraps)')
TRUSTED = [
    disgen.TRUSTED_TEXT,
    disgen.MODELLED_TEXT,
    'hand model Py65.Model.Disasm (per-mode text and length, label_for = first label, relative target with wrap, '
    'WordAt / ByteAt reads modulo the address space): no longer trusted by itself -- it is proved equal to the '
    'generated function (instruction_at_eq) and is what the driver runs for the sampled correspondence of this '
    'check; opcode tables, widths and formats are the regenerated Py65.Gen.Tables',
    'Spec.Cpu.step (programming model; C01-C03 tie it to the translated device code) for the execution theorems; '
    'the execution comparison of this check runs the REAL device',
    'documented tables parsed from lean/Py65/Spec/Isa.lean by harness/asmcommon.py',
    'C09h (composition, proof only): the GENERATED device steps Py65.Gen.dev6502/dev65c02/dev65org16.step (what the '
    'driver runs; tied to the real classes by the translation validation of C01-C03) through C01_full / C02_full / '
    'C03_full and the history closure C05h (Proofs/HistStep), the access-log theorem C12 (accesses_nmos6502 / _cmos / '
    '_org16) and the walk model Model.Show.Visits of do_disassemble (tied to monitor.py by C19: ReprGenEq.do_disassemble_eq); '
    'nothing new is modelled',
]
ASSUMPTIONS = [
    'the opcode cell at the disassembled address holds a byte 0..255 (the quantifier of C09); a 65Org16 cell above '
    '255 there raises IndexError in mpu.disassemble[instruction] (model: DRes.index, theorem '
    'dis_opcode_cell_above_255) and is reported as a note, not a violation',
    'memory spans the address space and reduces addresses modulo its size (ObservableMemory); on a plain list '
    'instruction_at(top) raises IndexError from ByteAt(pc + 1) -- outside C09',
    'operand cells are within the device byte width; label values within the address space',
    'generated model: memory cells and addresses are not negative ("%0Nx" % n is modelled for n >= 0)',
    'C09h listing_follows_execution: the start state is well-formed and running (Hist.Inv, not waiting) with pc = start; '
    'start and end are addresses (end <= 2^ADDR_WIDTH - 1; start > end = a range that wraps past the top of memory); '
    'every listed instruction is a declared opcode that is not a branch / JMP / JSR / RTS / RTI / BRK and not WAI '
    '(Straight); hypothesis ON THE RUN: when the device has made k steps the opcode cell of the k-th listed instruction '
    'still holds what the listing saw (hfixed) -- or, access-log form (listing_follows_execution_log), the log of the '
    'generated device never shows a write to a protected cell (any set of cells containing the listed opcode cells) in '
    'the states the run passes through (listing_follows_execution_range: Prot = the cells of the range start:end itself, '
    'start..top and 0..end when it wraps).  NOT assumed: binary mode (ADC / SBC in decimal mode are covered), '
    'well-formedness along the run (proved, C05h).  listing_ends_in_transfer: the last listed instruction is JMP abs, '
    'JSR abs whose pushes do not hit its own operand bytes (C01 exclusion: the real JSR pushes before it reads the '
    'target), or a relative branch taken in the state reached; its three cells still hold what the listing saw',
]

CONTROL = ('BCC', 'BCS', 'BEQ', 'BMI', 'BNE', 'BPL', 'BVC', 'BVS', 'BRA', 'JMP', 'JSR', 'RTS', 'RTI', 'BRK')
BRANCH_FLAG = {'BPL': ('NEGATIVE', 0), 'BMI': ('NEGATIVE', 1), 'BVC': ('OVERFLOW', 0), 'BVS': ('OVERFLOW', 1),
               'BCC': ('CARRY', 0), 'BCS': ('CARRY', 1), 'BNE': ('ZERO', 0), 'BEQ': ('ZERO', 1), 'BRA': (None, 0)}


def cell_classes(rng, W):
    BM = 1 << W
    return [0, 1, 0x10, BM // 2 - 1, BM // 2, BM - 2, BM - 1, rng.randrange(BM), rng.randrange(BM)]


def pcs(rng, AW, quick):
    AM = 1 << AW
    out = [0, 1, AM - 3, AM - 2, AM - 1, rng.randrange(AM), (1 << (AW // 2)) - 1, (1 << (AW // 2))]
    if not quick:
        out += [rng.randrange(AM) for _ in range(24)]
    return out


def label_tables(rng, dev, pc, op, b1, b2):
    """0-6 identifier-like labels aimed at the operand byte, the operand word, the branch target and
    neighbours."""
    W, AW = widths(dev)
    BM, AM = 1 << W, 1 << AW
    word = b1 + b2 * BM
    targ = (pc + 2 + (b1 if b1 < BM // 2 else b1 - BM)) % AM
    names = ['loop', 'L1', 'zp_ptr', 'Table', 'io.port', '_x', 'dup']
    rng.shuffle(names)
    vals = [b1, word, targ, (b1 + 1) % BM, (word + 1) % AM, (targ - 1) % AM, b1]
    k = rng.randrange(1, 7)
    idx = rng.sample(range(len(vals)), k)
    return tuple((names[i], vals[j]) for i, j in enumerate(idx))


def gen(rng, tier):
    quick = tier == 'quick'
    for dev in DEVNAMES:
        W, AW = widths(dev)
        for op in range(256):
            for pc in pcs(rng, AW, quick):
                cc = cell_classes(rng, W)
                pairs = [(rng.choice(cc), rng.choice(cc)) for _ in range(3 if quick else 24)] + [(cc[0], cc[0]), (cc[6], cc[6])]
                for b1, b2 in pairs:
                    yield dev, pc, (), op, b1, b2
                    if rng.random() < (0.5 if quick else 1.0):
                        t = label_tables(rng, dev, pc, op, b1, b2)
                        yield dev, pc, t, op, b1, b2
                        if rng.random() < 0.3 and len(t) >= 2:
                            # the same names re-pointed (same size, edited in place by DisBench.set_labels as add_label
                            # does): the target shown must follow the table as it is now
                            vs = [v for _, v in t]
                            vs = vs[1:] + vs[:1]
                            yield dev, pc, tuple((n, v) for (n, _), v in zip(t, vs)), op, b1, b2


# ---------------------------------------------------------------------------------------
# execution on the real device
# ---------------------------------------------------------------------------------------

def run_exec(bench, rng, dev, pc, op, b1, b2, dec, n, text):
    """Execute the instruction at pc on the real device; return None or (key, message)."""
    mn, mo, shape, val, ln = dec
    W, AW = widths(dev)
    BM, AM = 1 << W, 1 << AW
    mpu = bench.mpu
    mpu.pc = pc
    mpu.a, mpu.x, mpu.y = rng.randrange(BM), rng.randrange(BM), rng.randrange(BM)
    mpu.sp = rng.randrange(BM)
    mpu.p = rng.randrange(256) & ~8          # binary mode
    if hasattr(mpu, 'waiting'):
        mpu.waiting = False
    if mn in BRANCH_FLAG:
        flag, want = BRANCH_FLAG[mn]
        if flag is not None:
            bit = getattr(mpu, flag)
            mpu.p = (mpu.p | bit) if want else (mpu.p & ~bit)
    before = [bench.mem[(pc + i) & bench.am] for i in range(3)]
    try:
        mpu.step()
    except BaseException as ex:  # noqa: B902
        return dict(kind='exec-raise', exc=type(ex).__name__), 'step() raised %s' % type(ex).__name__
    after = [bench.mem[(pc + i) & bench.am] for i in range(3)]
    if hasattr(mpu, 'waiting'):
        mpu.waiting = False
    if before != after:
        return 'self-overwrite'
    if mn not in CONTROL:
        if mpu.pc != (pc + n) % AM:
            return dict(kind='length-vs-exec', mode=mo), 'length %d but PC went from %d to %d' % (n, pc, mpu.pc)
    elif mn in BRANCH_FLAG:
        shown = text.split(' ', 1)[1]
        if shown.startswith('$'):
            tgt = int(shown[1:], 16)
        else:
            tgt = dict(bench.parser.labels).get(shown)
        if tgt != mpu.pc:
            return dict(kind='branch-target'), 'taken branch went to %d, displayed %r' % (mpu.pc, shown)
    elif mn in ('JMP', 'JSR') and mo == 'abs':
        shown = text.split(' ', 1)[1]
        tgt = int(shown[1:], 16) if shown.startswith('$') else dict(bench.parser.labels).get(shown)
        if tgt != mpu.pc:
            return dict(kind='jump-target'), '%s continued at %d, displayed %r' % (mn, mpu.pc, shown)
    return None


def explore(ctx):
    t0 = time.time()
    rng = random.Random('c09-%d' % ctx.seed)
    erng = random.Random('c09x-%d' % ctx.seed)
    benches = {dev: ac.DisBench(dev) for dev in DEVNAMES}
    cases = list(gen(rng, ctx.tier))
    lines, reals = [], []
    total = dict(n=0, agree=0, dist={}, outcomes={}, nfind={}, findings=[], mism=[], mism_more=0, distinct=set(),
                 nontriv=set(), samples=[], sampled=set(), execs=0, selfov=0)
    skipped = set()
    for ci, (dev, pc, labels, op, b1, b2) in enumerate(cases):
        bench = benches[dev]
        W, AW = widths(dev)
        AM = 1 << AW
        try:
            bench.put(pc, [op, b1, b2])
            # cells actually in memory at pc, pc+1, pc+2 (an address aliases when the space has fewer than 3 cells: never)
            cells = [bench.mem[(pc + i) & bench.am] for i in range(3)]
        except Exception as ex:  # noqa: B902 -- the memory that spans the address space itself raised
            ks = json.dumps(dict(kind='memory-raised'))
            total['nfind'][ks] = total['nfind'].get(ks, 0) + 1
            if total['nfind'][ks] <= 2:
                total['findings'].append(dict(
                    key=dict(kind='memory-raised'),
                    what='%s pc=%d: ObservableMemory(addrWidth=%d), which spans the address space, raised %s: %s on an '
                         'item access at $%x..$%x (disassembling there cannot be total)' % (
                             dev, pc, AW, type(ex).__name__, ex, pc & bench.am, (pc + 2) & bench.am),
                    replay=dict(case=[dev, pc, list(map(list, labels)), op, b1, b2], real='raised')))
            skipped.add(len(lines) + len(skipped))
            continue
        bench.set_labels(labels)
        labels = tuple((k, v) for k, v in bench.parser.labels.items())     # the table in its real order (edited in place)
        cases[ci] = (dev, pc, labels, op, b1, b2)
        re_ = bench.run(pc)
        lines.append(ac.dis_line(dev, pc, labels, *cells))
        reals.append(re_)
        total['n'] += 1
        dec = ac.spec_decode_stmt(dev, pc, cells[0], cells[1], cells[2])
        key = (dev, pc, tuple(cells), labels)
        total['distinct'].add(hash(key))
        if dec is not None or pc >= AM - 3:
            total['nontriv'].add(hash(key))
        cls = 'mode/' + (dec[1] if dec else 'undeclared')
        total['outcomes'][cls] = total['outcomes'].get(cls, 0) + 1
        total['dist'][dev] = total['dist'].get(dev, 0) + 1
        if pc >= AM - 2:
            total['outcomes']['pc/wraps'] = total['outcomes'].get('pc/wraps', 0) + 1
        if labels:
            total['outcomes']['labels/%d' % len(labels)] = total['outcomes'].get('labels/%d' % len(labels), 0) + 1
        bad = None
        n = text = None
        if ' ' not in re_ or not re_[0].isdigit():
            bad = (dict(kind='raised', what=re_), 'instruction_at raised / failed: %s' % re_)
        else:
            n = int(re_.split(' ')[0])
            h = re_.split(' ')[1]
            text = '' if h == '-' else bytes.fromhex(h).decode('latin-1')
            if not 1 <= n <= 3:
                bad = (dict(kind='length-range'), 'length %d not in 1..3' % n)
            elif dec is not None and n != dec[4]:
                bad = (dict(kind='length-vs-table', mode=dec[1]), 'length %d, documented length of %s %s is %d' % (
                    n, dec[0], dec[1], dec[4]))
            elif dec is not None:
                r = run_exec(bench, erng, dev, pc, op, b1, b2, dec, n, text)
                total['execs'] += 1
                if r == 'self-overwrite':
                    total['selfov'] += 1
                elif r is not None:
                    bad = r
        if bad:
            k, msg = bad
            ks = json.dumps(k, sort_keys=True)
            total['nfind'][ks] = total['nfind'].get(ks, 0) + 1
            if total['nfind'][ks] <= 3:
                total['findings'].append(dict(
                    key=k, what='%s pc=%d cells=%s labels=%r: %s (text %r)' % (dev, pc, cells, dict(labels), msg, text),
                    replay=dict(case=[dev, pc, list(map(list, labels)), cells[0], cells[1], cells[2]], real=re_)))
        if dec is not None and labels and cls not in total['sampled'] and text and '$' not in text and ' ' in text:
            total['sampled'].add(cls)
            total['samples'].append(dict(device=dev, pc=pc, cells=cells, labels=dict(labels), real=re_, text=text))
    model = run_driver(lines)
    cases = [c for i, c in enumerate(cases) if i not in skipped]
    for (dev, pc, labels, op, b1, b2), ln, mo, re_ in zip(cases, lines, model, reals):
        if mo == re_:
            total['agree'] += 1
        elif len(total['mism']) < 25:
            total['mism'].append(dict(request=ln, case=[dev, pc, list(map(list, labels)), op, b1, b2], model=mo, real=re_))
        else:
            total['mism_more'] += 1
    ctx.note('dis: %d cases, %d agree with the model, %d executed on the real device (%d self-overwrites skipped), %.1fs' % (
        total['n'], total['agree'], total['execs'], total['selfov'], time.time() - t0))
    # outside the quantifier: opcode cell above 255 on the 65Org16 (a note, never a finding)
    b = benches['65Org16']
    b.put(0x200, [0x1234, 0, 0])
    b.set_labels(())
    r = b.run(0x200)
    mo = run_driver([ac.dis_line('65Org16', 0x200, (), 0x1234, 0, 0)])[0]
    ctx.note('outside the quantifier (opcode cell 0x1234 on 65Org16): real=%s model=%s' % (r, mo))
    if r != mo:
        total['mism'].append(dict(request='opcode cell above 255', case=['65Org16', 0x200, [], 0x1234, 0, 0], model=mo, real=r))
    for m in total['mism'][:8]:
        ctx.broken.append(dict(kind='tie', what='model and real disassembler disagree on %s' % m['request'],
                               detail='model=%s real=%s' % (m['model'], m['real']), replay=m))
    seen = {}
    for f in total['findings']:
        ks = json.dumps(f['key'], sort_keys=True)
        seen[ks] = seen.get(ks, 0) + 1
        if seen[ks] <= 2:
            ctx.findings.append(f)
            if seen[ks] == 1:
                ctx.note('property deviation %s x%d, e.g. %s' % (ks, total['nfind'][ks], f['what'][:240]))
    ctx.stats['evaluations'] = total['n']
    ctx.stats['traces_validated_against_impl'] = total['agree']
    ctx.stats['distinct_nontrivial'] = len(total['nontriv'])
    ctx.stats['distribution'] = dict(devices=total['dist'], classes=total['outcomes'], executed=total['execs'],
                                     self_overwrites_skipped=total['selfov'], distinct_inputs=len(total['distinct']),
                                     property_deviations=dict(total['nfind']))
    ctx.samples = total['samples'][:6]


def replay(ctx, path):
    obj = json.load(open(path))
    f = obj.get('finding')
    rp = (f or {}).get('replay') or (obj.get('broken') or [{}])[0].get('replay')
    if not rp:
        print(json.dumps(obj, indent=1)[:3000])
        return 0
    dev, pc, labels, op, b1, b2 = rp['case']
    labels = tuple(tuple(x) for x in labels)
    bench = ac.DisBench(dev)
    bench.put(pc, [op, b1, b2])
    cells = [bench.mem[(pc + i) & bench.am] for i in range(3)]
    bench.set_labels(labels)
    re_ = bench.run(pc)
    ln = ac.dis_line(dev, pc, labels, *cells)
    try:
        mo = run_driver([ln])[0]
    except Exception as ex:  # noqa: B902
        mo = 'driver unavailable: %s' % ex
    print('request  :', ln)
    print('real     :', re_)
    print('model    :', mo)
    bad = False
    dec = ac.spec_decode_stmt(dev, pc, cells[0], cells[1], cells[2])
    print('documented:', dec)
    if ' ' in re_ and re_[0].isdigit():
        n = int(re_.split(' ')[0])
        h = re_.split(' ')[1]
        text = '' if h == '-' else bytes.fromhex(h).decode('latin-1')
        print('text     : %r length %d' % (text, n))
        if not 1 <= n <= 3 or (dec and n != dec[4]):
            print('DIFF     : [property] length')
            bad = True
        elif dec:
            for _ in range(8):
                r = run_exec(bench, random.Random(_), dev, pc, op, b1, b2, dec, n, text)
                if r not in (None, 'self-overwrite'):
                    print('DIFF     : [property] %s' % r[1])
                    bad = True
                    break
                bench.put(pc, [op, b1, b2])
    else:
        print('DIFF     : [property] raised')
        bad = True
    if mo != re_:
        print('DIFF     : [tie] model %s vs real %s' % (mo, re_))
        bad = True
    return 1 if bad else 0
