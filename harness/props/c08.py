"""C08 -- disassembly re-assembles to the original bytes for every encoding and address.

The REAL composition `Disassembler.instruction_at` -> `Assembler.assemble` (one shared
`AddressParser(maxwidth=ADDR_WIDTH, labels)`, an `ObservableMemory` spanning the address space) is run on

  * all 256 opcode bytes of the 3 devices x operand cells from boundary classes (0, 1, page edges,
    sign boundary, top, random) x addresses {0, 1, mid, top-3 ... top, random} x label tables of 0-6
    identifier-like names aimed at the operand byte, the operand word, the branch target and their
    neighbours (several names on one address included);
  * relative branches: 3 000 addresses x 16 displacements per branch opcode family in the quick tier;
    ALL 65 536 addresses x ALL 256 displacements on the 8-bit devices in the thorough tier (16.7 M per
    device, 16 processes), boundary addresses x all displacement classes on the 65Org16.

PROPERTY ORACLE (independent of the models; documented tables parsed from lean/Py65/Spec/Isa.lean):
for a declared opcode lying inside the address space the re-assembled bytes must be the original
bytes, or -- only for an absolute / absolute,X / absolute,Y operand below one page whose mnemonic has
the zero-page form in the documented table -- that zero-page form; when a label is bound to the
operand (branch target included) the text must show the first such label instead of `$hex`; an
instruction that straddles the top of memory must be refused on re-assembly (C07: code past the top).
Undeclared opcode bytes (`???`) must be refused on re-assembly.

Tie 2: the same composition through the two hand models (driver lines `dis` then `asm`) must give the
same text and the same bytes / refusal as the real code (the models are also tied individually by
C07 and C09).  Disagreement -> broken tie.
"""
import json
import multiprocessing
import os
import random
import sys
import time

HERE = os.path.dirname(os.path.dirname(os.path.abspath(__file__)))
if HERE not in sys.path:
    sys.path.insert(0, HERE)
from common import run_driver, widths, DEVNAMES, device_classes  # noqa: E402
import asmcommon as ac  # noqa: E402
import disgen  # noqa: E402

ID = 'C08'
LEAN_MODULES = ['Py65.Props.C08', disgen.GENEQ_MODULE, 'Py65.Props.C08g'] + ac.ASM_GEN_MODULES + ['Py65.Props.C08ga']
NAMESPACES = ['Py65.Props.C08', 'Py65.Props.C08g', disgen.GENEQ_NAMESPACE, 'Py65.Proofs.AsmGenEq', 'Py65.Props.C08ga']
# library helpers (CPython behaviour modelled in lean/Py65/Model/*Rt*.lean ...) that the generated code of these
# modules calls, derived by scanning the Lean sources (harness/rtscan.py); validated against CPython on every run
import rtcheck  # noqa: E402
RT_HELPERS = rtcheck.helpers_for(LEAN_MODULES)
LEVEL = 'proof'
USES_GEN = True
EXPECTED_THEOREMS = ['Py65.Props.C08.roundtrip', 'Py65.Props.C08.roundtrip_exact', 'Py65.Props.C08.spec_decode_encode',
                     'Py65.Props.C08.roundtrip_past_top', 'Py65.Props.C08.shown_label', 'Py65.Props.C08.shown_hex',
                     'Py65.Props.C08.noLabels_good',
                     # the same for the GENERATED instruction_at (tie by regeneration, harness/py2lean_dis.py)
                     'Py65.Props.C08g.roundtrip', 'Py65.Props.C08g.roundtrip_exact', 'Py65.Props.C08g.roundtrip_past_top',
                     ] + disgen.GENEQ_THEOREMS + ac.ASM_GEN_THEOREMS + [
                     # ... and for the GENERATED assemble (harness/py2lean_asm.py)
                     'Py65.Props.C08ga.roundtrip', 'Py65.Props.C08ga.roundtrip_exact', 'Py65.Props.C08ga.roundtrip_past_top']


def pre_build(ctx):
    disgen.pre_build(ctx)             # tie 1 (disassembler): regenerate lean/Py65/Gen/DisasmGen.lean
    ac.pre_build_asm(ctx)             # tie 1 (assembler): regenerate lean/Py65/Gen/AsmGen.lean


RULE = ('devices x opcode bytes 0..255 enumerated; operand cells and addresses from boundary classes then random; label '
        'tables of 0-6 identifier-like names aimed at operand / word / branch target / neighbours; branches: addresses x '
        'displacements (quick: 3000 x 16, thorough: all 65536 x 256 on the 8-bit devices).  distinct = distinct (device, '
        'pc, cells, labels); nontrivial = declared opcode (a text with a mnemonic is produced and re-assembled)')
TRUSTED = ac.ASM_GEN_TRUSTED + [
    'disassembler side: ' + disgen.TRUSTED_TEXT,
    disgen.MODELLED_TEXT,
    'assembler side: hand model Py65.Model.Asm (proved equal to the regenerated Py65.Gen.AsmGen, and tied by C07 and '
    'here in composition with the real disassembler by sampled correspondence); Py65.Model.AddrParser for reading the '
    'operand back (C15); the hand model Py65.Model.Disasm is still what the driver runs for the correspondence (it is '
    'proved equal to the generated function)',
    'Spec.Asm (decode / encode on the documented tables of Spec/Isa.lean) and its Python transcription in '
    'harness/asmcommon.py',
]
ASSUMPTIONS = [
    'the assembler side of Props/C08g.lean is the function GENERATED from the current py65/assembler.py (library '
    'behaviour modelled, see trusted_base); the disassembler side is the hand model',
    '"located at any address" is read as: the instruction lies inside the address space (pc + length <= 2^ADDR_WIDTH); '
    'C07 requires code running past the top of memory to be refused, and that is what is checked for straddling '
    'instructions (theorem roundtrip_past_top)',
    'label tables hold identifier-like names: letter or _ first, then letters, digits, _ or .; not A / a; unique; values '
    'inside the address space (GoodLabels in Py65/Proofs/AsmRound.lean)',
    'operand cells are within the device byte width; the opcode cell is a byte',
    'generated model: memory cells and addresses are not negative ("%0Nx" % n is modelled for n >= 0); the memory '
    'object spans the address space and reduces addresses with its mask (mpuOf / stOf in DisasmGenEq.lean)',
]

TWIN = {'abs': 'zpg', 'abx': 'zpx', 'aby': 'zpy'}


class WrapMem(object):
    """Minimal memory spanning the address space (reads wrap) for the exhaustive branch sweep."""
    __slots__ = ('cells', 'mask')

    def __init__(self, mask):
        self.cells, self.mask = {}, mask

    def __getitem__(self, a):
        return self.cells.get(a & self.mask, 0)

    def __setitem__(self, a, v):
        self.cells[a & self.mask] = v


def expected(dev, pc, op, b1, b2):
    """('bytes', [allowed byte lists], shown value or None, decoded) | ('refuse', why, [bytes also acceptable]) for the
    opcode at pc."""
    W, AW = widths(dev)
    BM, AM = 1 << W, 1 << AW
    dec = ac.spec_decode_stmt(dev, pc, op, b1, b2)
    if dec is None:
        return ('refuse', 'undeclared opcode', [])
    mn, mo, shape, val, ln = dec
    orig = [op, b1, b2][:ln]
    twin = None
    if mo in TWIN and b2 == 0:
        z = ac.spec_opcode_of(ac.variant_of(dev), mn, TWIN[mo])
        if z is not None:
            twin = [z, b1]
    if pc + ln > AM:
        # the original straddles the top of memory: C07 demands a refusal of code past the top; the shorter
        # zero-page form of the same statement is acceptable when it fits
        return ('refuse', 'straddles the top of memory', [twin] if (twin and pc + 2 <= AM) else [])
    allowed = [orig] + ([twin] if twin else [])
    return ('bytes', allowed, (val if mo not in ('imp', 'acc', 'imm') else None), dec)


def judge(dev, pc, labels, op, b1, b2, dis_res, asm_res):
    """None or (key, message): the real composition against the oracle."""
    exp = expected(dev, pc, op, b1, b2)
    if not (' ' in dis_res and dis_res[0].isdigit()):
        return dict(kind='dis-raised'), 'disassembler failed: %s' % dis_res
    n = int(dis_res.split(' ')[0])
    h = dis_res.split(' ')[1]
    text = '' if h == '-' else bytes.fromhex(h).decode('latin-1')
    got = ac.parse_ok(asm_res)
    if exp[0] == 'refuse':
        if got is not None and got not in exp[2]:
            return dict(kind='reassembled-' + exp[1].split()[0]), '%s: text %r re-assembled to %s, must be refused' % (exp[1], text, got)
        if got is None and asm_res not in ('syntax', 'overflow', 'key'):
            return dict(kind='exception', exc=asm_res), 'refusal is %s' % asm_res
        return None
    _, allowed, shown, dec = exp
    if n != dec[4]:
        return dict(kind='length'), 'length %d, documented %d' % (n, dec[4])
    if got is None:
        return dict(kind='refused', refusal=asm_res, mode=dec[1]), 'text %r refused (%s); original bytes %s' % (text, asm_res, allowed[0])
    if got not in allowed:
        return dict(kind='wrong-bytes', mode=dec[1]), 'text %r re-assembled to %s; allowed %s' % (text, got, allowed)
    if shown is not None:
        first = None
        for name, a in labels:
            if a == shown:
                first = name
                break
        if first is not None:
            toks = ac.spec_tokens(text)
            if first not in toks or any(t.startswith('$') for t in toks):
                return dict(kind='label-not-shown'), 'label %r is bound to %d but the text is %r' % (first, shown, text)
    return None


def cell_classes(rng, W):
    BM = 1 << W
    return [0, 1, 0x10, BM // 2 - 1, BM // 2, BM - 2, BM - 1, rng.randrange(BM), rng.randrange(BM)]


def pcs(rng, AW, quick):
    AM = 1 << AW
    out = [0, 1, AM // 2, AM - 4, AM - 3, AM - 2, AM - 1, rng.randrange(AM)]
    if not quick:
        out += [rng.randrange(AM) for _ in range(8)] + [(1 << (AW // 2)) - 1, 1 << (AW // 2)]
    return out


NAMES = ['loop', 'L1', 'zp_ptr', 'Table', 'io.port', '_x', 'dup', 'Start2', 'y1', 'xx']
# identifier-like names that are ALSO numbers in some default radix (hex words, underscore digits): a label
# must win over the number reading (seeded change C08-4 was missed until these were added)
NUMLIKE = ['add', 'dec', 'bed', 'fade', 'c0de', 'f00', 'be_ef', 'Ace', 'b1', 'DEAD', 'd', 'ab', 'e2', 'FF', 'b_0']


def label_tables(rng, dev, pc, op, b1, b2):
    W, AW = widths(dev)
    BM, AM = 1 << W, 1 << AW
    word = b1 + b2 * BM
    targ = (pc + 2 + (b1 if b1 < BM // 2 else b1 - BM)) % AM
    vals = [b1, word, targ, (b1 + 1) % BM, (word + 1) % AM, (targ - 1) % AM, b1, word, targ, pc]
    names = NAMES + NUMLIKE
    rng.shuffle(names)
    k = rng.randrange(1, 7)
    idx = rng.sample(range(len(vals)), k)
    return tuple((names[i], vals[j]) for i, j in enumerate(idx))


def gen(rng, tier):
    quick = tier == 'quick'
    for dev in DEVNAMES:
        W, AW = widths(dev)
        for op in range(256):
            for pc in pcs(rng, AW, quick):
                cc = cell_classes(rng, W)
                pairs = [(rng.choice(cc), rng.choice(cc)) for _ in range(2 if quick else 8)] + \
                        [(cc[0], cc[0]), (rng.choice(cc), 0), (cc[6], cc[6])]
                for b1, b2 in pairs:
                    yield dev, pc, (), op, b1, b2
                    for _ in range(1 if quick else 3):
                        t = label_tables(rng, dev, pc, op, b1, b2)
                        yield dev, pc, t, op, b1, b2
                        if rng.random() < 0.25 and len(t) >= 2:
                            # the same names re-pointed (a table of the same size, edited in place by
                            # DisBench.set_labels the way add_label does): what is shown must follow the new table
                            vs = [v for _, v in t]
                            vs = vs[1:] + vs[:1]
                            yield dev, pc, tuple((n, v) for (n, _), v in zip(t, vs)), op, b1, b2


def real_compose(bench, asm_for, dev, pc, labels, op, b1, b2):
    bench.put(pc, [op, b1, b2])
    bench.set_labels(labels)
    dr = bench.run(pc)
    if not (' ' in dr and dr[0].isdigit()):
        return dr, 'n/a'
    h = dr.split(' ')[1]
    text = '' if h == '-' else bytes.fromhex(h).decode('latin-1')
    try:
        bs = asm_for.assemble(text, pc)
        ar = 'ok ' + ','.join(str(b) for b in bs)
    except BaseException as ex:  # noqa: B902
        ar = ac.canon_exc(ex)
    return dr, ar


def make_bench(dev):
    from py65.assembler import Assembler
    bench = ac.DisBench(dev)
    asm = Assembler(bench.mpu, bench.parser)      # the SAME parser object, as under the monitor
    return bench, asm


# --- exhaustive branch sweep (real code only; picklable worker) ---------------------------

def _branch_worker(spec):
    dev, lo, hi, disps, seed = spec
    from py65.assembler import Assembler
    from py65.disassembler import Disassembler
    from py65.utils.addressing import AddressParser
    W, AW = widths(dev)
    BM, AM = 1 << W, 1 << AW
    cls = device_classes()[dev]
    mem = WrapMem(AM - 1)
    mpu = cls(memory=mem)
    parser = AddressParser(maxwidth=AW)
    dis = Disassembler(mpu, parser)
    asm = Assembler(mpu, parser)
    branch_ops = [op for op, (mn, mo) in ac.isa()[ac.variant_of(dev)].items() if mo == 'rel']
    n = 0
    bad = []
    nbad = 0
    k = 0
    for pc in range(lo, hi):
        if pc + 2 > AM:
            continue
        op = branch_ops[(pc + k) % len(branch_ops)]
        mem.cells.clear()
        mem[pc] = op
        for d in disps:
            mem[pc + 1] = d
            n += 1
            try:
                ln, text = dis.instruction_at(pc)
                bs = asm.assemble(text, pc)
            except BaseException as ex:  # noqa: B902
                ln, text, bs = -1, '', type(ex).__name__
            if bs != [op, d] or ln != 2:
                nbad += 1
                if len(bad) < 3:
                    bad.append(dict(dev=dev, pc=pc, op=op, disp=d, text=text, got=bs))
        k += 1
    return dict(n=n, nbad=nbad, bad=bad, dev=dev)


def branch_sweep(ctx, total):
    quick = ctx.quick()
    rng = random.Random('c08b-%d' % ctx.seed)
    specs = []
    for dev in DEVNAMES:
        W, AW = widths(dev)
        BM, AM = 1 << W, 1 << AW
        if quick or dev == '65Org16':
            h = BM // 2
            disps = sorted(set([0, 1, 2, h - 2, h - 1, h, h + 1, BM - 2, BM - 1, 0x10, BM - 0x10] +
                               [rng.randrange(BM) for _ in range(5)]))[:16]
            addrs = sorted(set([0, 1, 2, h, AM // 2, AM - 130, AM - 129, AM - 128, AM - 3, AM - 2] +
                               [rng.randrange(AM - 2) for _ in range(3000 if dev != '65Org16' or not quick else 1500)]))
            # contiguous chunks are not needed: run address by address
            for i in range(0, len(addrs), 400):
                specs.append(('list', dev, addrs[i:i + 400], disps))
        else:
            for lo in range(0, AM, 2048):
                specs.append((dev, lo, min(lo + 2048, AM), list(range(256)), ctx.seed))
    procs = min(16, os.cpu_count() or 1)
    t0 = time.time()
    with multiprocessing.Pool(procs) as pool:
        for r in pool.imap_unordered(_branch_dispatch, specs):
            total['branch_n'] += r['n']
            total['branch_bad'] += r['nbad']
            for b in r['bad']:
                if len(total['branch_examples']) < 4:
                    total['branch_examples'].append(b)
    ctx.note('branch sweep: %d (address, displacement) round trips, %d failures, %d processes, %.1fs' % (
        total['branch_n'], total['branch_bad'], procs, time.time() - t0))


def _branch_dispatch(spec):
    if spec[0] == 'list':
        _, dev, addrs, disps = spec
        out = dict(n=0, nbad=0, bad=[], dev=dev)
        for pc in addrs:
            r = _branch_worker((dev, pc, pc + 1, disps, 0))
            out['n'] += r['n']
            out['nbad'] += r['nbad']
            out['bad'] += r['bad'][:2]
        return out
    return _branch_worker(spec)


def explore(ctx):
    t0 = time.time()
    rng = random.Random('c08-%d' % ctx.seed)
    total = dict(n=0, agree=0, dist={}, outcomes={}, nfind={}, findings=[], mism=[], mism_more=0, distinct=set(),
                 nontriv=set(), samples=[], sampled=set(), branch_n=0, branch_bad=0, branch_examples=[])
    benches = {dev: make_bench(dev) for dev in DEVNAMES}
    cases = list(gen(rng, ctx.tier))
    dis_lines, reals = [], []
    recent = {dev: [] for dev in DEVNAMES}      # the last cases run on each long-lived bench (history for replays)
    for ci, (dev, pc, labels, op, b1, b2) in enumerate(cases):
        bench, asm = benches[dev]
        dr, ar = real_compose(bench, asm, dev, pc, labels, op, b1, b2)
        # the table as the parser holds it NOW, in its real order: a table edited in place keeps the positions of
        # the names it already had (as after add_label), and with two names for one address the first one is shown
        labels = tuple((k, v) for k, v in bench.parser.labels.items())
        cases[ci] = (dev, pc, labels, op, b1, b2)
        earlier = list(recent[dev])
        recent[dev] = (recent[dev] + [[dev, pc, list(map(list, labels)), op, b1, b2]])[-3:]
        reals.append((dr, ar))
        dis_lines.append(ac.dis_line(dev, pc, labels, op, b1, b2))
        total['n'] += 1
        dec = ac.spec_decode_stmt(dev, pc, op, b1, b2)
        key = hash((dev, pc, op, b1, b2, labels))
        total['distinct'].add(key)
        if dec is not None:
            total['nontriv'].add(key)
        cls = 'mode/' + (dec[1] if dec else 'undeclared')
        total['outcomes'][cls] = total['outcomes'].get(cls, 0) + 1
        total['outcomes']['asm/' + ar.split(' ')[0]] = total['outcomes'].get('asm/' + ar.split(' ')[0], 0) + 1
        total['dist'][dev] = total['dist'].get(dev, 0) + 1
        if labels:
            total['outcomes']['labels/%d' % len(labels)] = total['outcomes'].get('labels/%d' % len(labels), 0) + 1
        exp = expected(dev, pc, op, b1, b2)
        if exp[0] == 'bytes' and len(exp[1]) == 2:
            total['outcomes']['zero-page-twin-permitted'] = total['outcomes'].get('zero-page-twin-permitted', 0) + 1
        if exp[0] == 'refuse':
            k = 'must-refuse/' + exp[1].split()[0]
            total['outcomes'][k] = total['outcomes'].get(k, 0) + 1
        bad = judge(dev, pc, labels, op, b1, b2, dr, ar)
        if bad:
            k, msg = bad
            ks = json.dumps(k, sort_keys=True)
            total['nfind'][ks] = total['nfind'].get(ks, 0) + 1
            if total['nfind'][ks] <= 3:
                total['findings'].append(dict(
                    key=k, what='%s pc=%d bytes=%s labels=%r: %s' % (dev, pc, [op, b1, b2], dict(labels), msg),
                    replay=dict(case=[dev, pc, list(map(list, labels)), op, b1, b2], real_dis=dr, real_asm=ar,
                                earlier_cases_on_the_same_parser=earlier)))
        if dec is not None and labels and cls not in total['sampled'] and ar.startswith('ok') and '$' not in dr:
            h = dr.split(' ')[1]
            text = '' if h == '-' else bytes.fromhex(h).decode('latin-1')
            if ' ' in text:
                total['sampled'].add(cls)
                total['samples'].append(dict(device=dev, pc=pc, bytes=[op, b1, b2], labels=dict(labels), text=text, reassembled=ar))
    # the same composition through the two models
    mdis = run_driver(dis_lines)
    asm_lines = []
    for (dev, pc, labels, op, b1, b2), md in zip(cases, mdis):
        if ' ' in md and md[0].isdigit():
            h = md.split(' ')[1]
            text = '' if h == '-' else bytes.fromhex(h).decode('latin-1')
            asm_lines.append(ac.asm_line(dev, pc, 16, labels, text))
        else:
            asm_lines.append('stm -')          # placeholder request, result ignored
    masm = run_driver(asm_lines)
    for c, md, ma, (dr, ar), al in zip(cases, mdis, masm, reals, asm_lines):
        ok = md == dr and (ar == 'n/a' or ma == ar)
        if ok:
            total['agree'] += 1
        elif len(total['mism']) < 25:
            total['mism'].append(dict(request=al, case=[c[0], c[1], list(map(list, c[2])), c[3], c[4], c[5]],
                                      model='%s | %s' % (md, ma), real='%s | %s' % (dr, ar)))
        else:
            total['mism_more'] += 1
    ctx.note('composition: %d cases, %d agree with the models, %.1fs' % (total['n'], total['agree'], time.time() - t0))
    branch_sweep(ctx, total)
    if total['branch_bad']:
        for b in total['branch_examples'][:2]:
            total['findings'].append(dict(
                key=dict(kind='branch-roundtrip'),
                what='%s branch %s at pc=%d displacement byte %d: text %r re-assembled to %s' % (
                    b['dev'], b['op'], b['pc'], b['disp'], b['text'], b['got']),
                replay=dict(case=[b['dev'], b['pc'], [], b['op'], b['disp'], 0], real_dis=b['text'], real_asm=str(b['got']))))
        total['nfind'][json.dumps(dict(kind='branch-roundtrip'))] = total['branch_bad']
    for m in total['mism'][:8]:
        ctx.broken.append(dict(kind='tie', what='model and real composition disagree on %s' % m['case'],
                               detail='model=%s real=%s' % (m['model'], m['real']), replay=m))
    seen = {}
    for f in total['findings']:
        ks = json.dumps(f['key'], sort_keys=True)
        seen[ks] = seen.get(ks, 0) + 1
        if seen[ks] <= 2:
            ctx.findings.append(f)
            if seen[ks] == 1:
                ctx.note('property deviation %s x%d, e.g. %s' % (ks, total['nfind'].get(ks, 0), f['what'][:260]))
    ctx.stats['evaluations'] = total['n'] + total['branch_n']
    ctx.stats['traces_validated_against_impl'] = total['agree']
    ctx.stats['distinct_nontrivial'] = len(total['nontriv']) + total['branch_n']
    ctx.stats['distribution'] = dict(devices=total['dist'], classes=total['outcomes'], branch_round_trips=total['branch_n'],
                                     distinct_inputs=len(total['distinct']), property_deviations=dict(total['nfind']))
    ctx.samples = total['samples'][:6]


def replay(ctx, path):
    obj = json.load(open(path))
    f = obj.get('finding')
    rp = (f or {}).get('replay') or (obj.get('broken') or [{}])[0].get('replay')
    if not rp:
        print(json.dumps(obj, indent=1)[:3000])
        return 0
    dev, pc, labels, op, b1, b2 = rp['case']
    labels = tuple(tuple(x) for x in labels)
    bench, asm = make_bench(dev)
    dr, ar = real_compose(bench, asm, dev, pc, labels, op, b1, b2)
    if not judge(dev, pc, labels, op, b1, b2, dr, ar) and rp.get('earlier_cases_on_the_same_parser'):
        # not reproduced on a fresh parser: run the recorded earlier cases first (label tables edited in place)
        bench, asm = make_bench(dev)
        bench.force_inplace = True
        for e in rp['earlier_cases_on_the_same_parser']:
            real_compose(bench, asm, e[0], e[1], tuple(tuple(x) for x in e[2]), e[3], e[4], e[5])
        print('history  : %d earlier case(s) on the same parser (label table edited in place)' %
              len(rp['earlier_cases_on_the_same_parser']))
        dr, ar = real_compose(bench, asm, dev, pc, labels, op, b1, b2)
    ln = ac.dis_line(dev, pc, labels, op, b1, b2)
    print('request  :', ln)
    print('bytes    :', [op, b1, b2], 'at', pc, 'labels', dict(labels))
    print('real     : dis=%s  asm=%s' % (dr, ar))
    if ' ' in dr and dr[0].isdigit():
        h = dr.split(' ')[1]
        print('text     : %r' % ('' if h == '-' else bytes.fromhex(h).decode('latin-1')))
    print('expected :', expected(dev, pc, op, b1, b2)[:2])
    bad = False
    try:
        md = run_driver([ln])[0]
        ma = 'n/a'
        if ' ' in md and md[0].isdigit():
            h = md.split(' ')[1]
            text = '' if h == '-' else bytes.fromhex(h).decode('latin-1')
            ma = run_driver([ac.asm_line(dev, pc, 16, labels, text)])[0]
        print('model    : dis=%s  asm=%s' % (md, ma))
        if md != dr or (ar != 'n/a' and ma != ar):
            print('DIFF     : [tie] model vs real')
            bad = True
    except Exception as ex:  # noqa: B902
        print('model    : driver unavailable: %s' % ex)
    j = judge(dev, pc, labels, op, b1, b2, dr, ar)
    if j:
        print('DIFF     : [property] %s' % j[1])
        bad = True
    return 1 if bad else 0
