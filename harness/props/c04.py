"""C04 -- decimal-mode ADC/SBC give the documented BCD results on 6502 and 65C02.

Lean side (Py65.Props.C04): the decimal branches of the generated opADC/opSBC equal Bruce Clark's
NMOS sequences on all 2 x 2^17 (A, M, C) triples (kernel evaluation); 65C02 A/C/V on valid BCD;
the 65C02 N/Z deviation is witnessed (known finding).
Here: the real devices in decimal mode, every addressing mode of ADC/SBC, compared with
Spec.Decimal through the Lean driver (`dec` line); all other registers, PC and memory compared
with the binary Spec's frame (cpu_diff)."""
import json
import multiprocessing
import os
import random

import common
import cpu_props
from common import Case, RecMem, device_classes, gen_case, run_driver, widths

ID = 'C04'
LEAN_MODULES = ['Py65.Props.C04', 'Py65.Props.C04b', 'Py65.Props.C04c']
NAMESPACES = ['Py65.Props.C04', 'Py65.Props.C04c']
# library helpers (CPython behaviour modelled in lean/Py65/Model/*Rt*.lean ...) that the generated code of these
# modules calls, derived by scanning the Lean sources (harness/rtscan.py); validated against CPython on every run
import rtcheck  # noqa: E402
RT_HELPERS = rtcheck.helpers_for(LEAN_MODULES)
LEVEL = 'proof'
EXPECTED_THEOREMS = ['Py65.Props.C04.nmos_adc', 'Py65.Props.C04.nmos_sbc', 'Py65.Props.C04.cmos_acv',
                     'Py65.Props.C04.decimal_step_6502', 'Py65.Props.C04.decimal_step_65c02',
                     'Py65.Props.C04.adc_decimal_any_mode', 'Py65.Props.C04.sbc_decimal_any_mode',
                     'Py65.Props.C04c.valid_bcd_is_decimal_difference', 'Py65.Props.C04c.valid_bcd_is_decimal_difference_cmos',
                     'Py65.Props.C04c.cmos_acv_definitional_part']
TRUSTED = ['Spec.Decimal (transcription of Bruce Clark\'s decimal-mode sequences)',
           'translator py2lean (validated every run)']
ASSUMPTIONS = ['the lifting of the (A,M,C) kernel to every addressing mode and machine state IS a Lean theorem (C04b: decimal_step_6502 / decimal_step_65c02, frame included); the run on the real devices (all modes) is the failing-input search',
               'KNOWN FINDING: 65C02 N/Z in decimal mode follow the NMOS rule (existing tests pin it)']
RULE = ('(A, M, C) triples: boundary classes + uniform (quick) / all 2^17 (thorough) x {ADC, SBC} x every '
        'addressing mode x {6502, 65C02}; distinct = distinct (device, opcode, A, M, C)')


def _opcodes(dev, modes):
    return [i for i in range(256) if modes[i][0] in ('ADC', 'SBC')]


SPEC = dict(module='props.c04', devs=['6502', '65C02'], opcodes=_opcodes, aspects={'sem'}, mode='step',
            n_quick=40, n_thorough=300, decimal=True)


def valid_bcd(x):
    return (x & 15) < 10 and (x >> 4) < 10


def decimal_warmup(classes, dev, triples, reverse=False):
    """Cross-device history: the OTHER devices (the 65Org16 included) execute decimal-mode ADC #m / SBC #m for
    the same (A, M, C) triples in this process first.  Instances share no state (C14), so what the device under
    test then computes must not depend on it; a memo or table filled by one device and read by another does."""
    others = [d for d in ('6502', '65C02', '65Org16') if d != dev]
    if reverse:
        others.reverse()
    for od in others:
        u = classes[od](memory=[0] * 0x10000)
        for (a, m, c) in triples:
            for opc in (0x69, 0xe9):
                u.memory[0x200], u.memory[0x201] = opc, m
                u.pc, u.a, u.p = 0x200, a, 0x38 | c
                try:
                    u.step()
                except Exception:
                    u = classes[od](memory=[0] * 0x10000)
    return others


def _worker(args):
    dev, triples, seed = args
    classes = device_classes()
    warm = None
    if seed % 2 == 1 and not os.environ.get('VERIF_NO_NEIGHBOURS'):
        warm = decimal_warmup(classes, dev, triples, reverse=bool((seed // 2) % 2))
    modes = classes[dev].disassemble
    ops = _opcodes(dev, modes)
    rng = random.Random(seed)
    W, AW = widths(dev)
    items = []
    vet = classes[dev]()        # one long-lived instance: decimal results must not depend on its past
    prev = None
    for (a, m, c) in triples:
        opc = rng.choice(ops)
        case = gen_case(rng, dev, opc, modes, ('step',), decimal=True)
        case.a = a
        case.p = (case.p & ~1) | c | 8
        # place the operand value: run once on a recording memory to find the data address
        mem = RecMem(case.seed, W, case.ov)
        mpu = classes[dev](memory=mem, pc=case.pc)
        mpu.a, mpu.x, mpu.y, mpu.sp, mpu.p = case.a, case.x, case.y, case.sp, case.p
        mem.log = []
        mpu.step()
        reads = [int(e.split(':')[1]) for e in mem.log if e.startswith('r:')]
        ea = reads[-1]                      # the data read is the last read of ADC/SBC
        own = {case.pc, (case.pc + 1) & 0xffff, (case.pc + 2) & 0xffff}
        if modes[opc][1] != 'imm' and ea in own:
            continue
        case.ov[ea] = m
        if case.ov.get(case.pc) != opc:
            continue
        mem = RecMem(case.seed, W, case.ov)
        mpu = classes[dev](memory=mem, pc=case.pc)
        mpu.a, mpu.x, mpu.y, mpu.sp, mpu.p = case.a, case.x, case.y, case.sp, case.p
        mem.log = []
        mpu.step()
        reads = [int(e.split(':')[1]) for e in mem.log if e.startswith('r:')]
        if not reads or mem.peek(reads[-1]) != m or reads[-1] != ea:
            continue                         # pointer bytes moved under us; skip
        items.append((case, opc, a, m, c, mpu.a, mpu.p, None))
        vmem = RecMem(case.seed, W, case.ov)
        try:
            vet.memory = vmem
            vet.a, vet.x, vet.y, vet.sp, vet.p, vet.pc = case.a, case.x, case.y, case.sp, case.p, case.pc
            vet.step()
            if (vet.a, vet.p) != (mpu.a, mpu.p):
                items.append((case, opc, a, m, c, vet.a, vet.p, prev))
        except Exception:
            vet = classes[dev]()
        prev = case.to_json()
    lines = ['dec %s %s %d %d %d' % (modes[o][0].lower(), 'nmos' if dev == '6502' else 'cmos', a, m, c)
             for (_, o, a, m, c, _, _, _) in items]
    replies = run_driver(lines)
    out = dict(n=len(items), findings=[], sig=set())
    for (case, opc, a, m, c, ra, rp, hist), rep in zip(items, replies):
        ea_, ec, en, ev, ez = (int(x) for x in rep.split())
        got = dict(a=ra, c=rp & 1, n=(rp >> 7) & 1, v=(rp >> 6) & 1, z=(rp >> 1) & 1)
        exp = dict(a=ea_, c=ec, n=en, v=ev, z=ez)
        out['sig'].add((dev, opc, a, m, c))
        if dev == '65C02' and not (valid_bcd(a) and valid_bcd(m)):
            continue                          # the 65C02 claim is restricted to valid BCD
        diff = [k for k in ('a', 'c', 'n', 'v', 'z') if got[k] != exp[k]]
        if diff:
            name, mo = modes[opc]
            key = dict(dev=dev, aspect='decimal', fields=','.join(diff))
            if dev == '65C02' and set(diff) <= {'n', 'z'}:
                key = dict(dev=dev, aspect='decimal-nz')
            note = ''
            rpl = dict(case=case.to_json(), a=a, m=m, c=c, expected=exp, got=got)
            if hist is not None:
                key = dict(dev=dev, aspect='decimal-history', fields=','.join(diff))
                note = ' [on an instance that executed other decimal operations before; a fresh instance differs]'
                rpl['previous_case_on_the_same_instance'] = hist
            if warm:
                rpl['other_devices_first'] = dict(order=warm, triple=[a, m, c])
                note += ' [in a process where %s executed the same decimal operations first]' % ', '.join(warm)
            out['findings'].append(dict(
                key=key,
                what='%s %s %s $%02x D=1 A=$%02x M=$%02x C=%d: got %s, Clark says %s%s' % (dev, name, mo, opc, a, m, c, got, exp, note),
                replay=rpl))
    out['sig'] = list(out['sig'])
    return out


def explore(ctx):
    # translator validation + frame (registers other than A/P, PC, memory) through the generic differential
    cpu_props.explore(ctx, SPEC)
    rng = random.Random(ctx.seed + 4)
    B = [0, 1, 9, 0x0a, 0x0f, 0x10, 0x19, 0x50, 0x79, 0x80, 0x90, 0x99, 0x9a, 0xa0, 0xf9, 0xfa, 0xff]
    if ctx.quick():
        triples = [(a, m, c) for a in B for m in B for c in (0, 1)]
        triples += [(rng.randrange(256), rng.randrange(256), rng.randrange(2)) for _ in range(12000)]
    else:
        triples = [(a, m, c) for a in range(256) for m in range(256) for c in (0, 1)]
    jobs = []
    k = 0
    for dev in ('6502', '65C02'):
        nch = 8 if ctx.quick() else 32
        for i in range(nch):
            jobs.append((dev, triples[i::nch], ctx.seed * 31 + k))
            k += 1
    with multiprocessing.Pool(16, maxtasksperchild=1) as pool:      # one process per job (cross-device warm-up)
        res = pool.map(_worker, jobs, chunksize=1)
    n = sum(r['n'] for r in res)
    sig = set()
    seen = {}
    for r in res:
        sig |= set(map(tuple, r['sig']))
        for f in r['findings']:
            ks = json.dumps(f['key'], sort_keys=True)
            seen[ks] = seen.get(ks, 0) + 1
            if seen[ks] <= 3:
                ctx.findings.append(f)
    ctx.stats['evaluations'] += n
    ctx.stats['distinct_nontrivial'] += len(sig)
    ctx.stats.setdefault('distribution', {})['decimal_triples'] = n
    ctx.stats['distribution']['deviation_classes'] = seen
    ctx.note('decimal triples on the real devices: %d, deviation classes: %s' % (n, seen))


def replay(ctx, path):
    obj = json.load(open(path))
    f = obj.get('finding', {})
    rp = f.get('replay', {})
    if 'expected' in rp and 'a' in rp:
        classes = device_classes()
        c = Case.from_json(rp['case'])
        W, AW = widths(c.dev)
        w = rp.get('other_devices_first')
        if w:
            order = decimal_warmup(classes, c.dev, [tuple(w['triple'])], reverse=(w['order'] != [d for d in ('6502', '65C02', '65Org16') if d != c.dev]))
            print('history  : %s executed the same decimal ADC/SBC in this process first' % ', '.join(order))
        mem = RecMem(c.seed, W, c.ov)
        mpu = classes[c.dev](memory=mem, pc=c.pc)
        mpu.a, mpu.x, mpu.y, mpu.sp, mpu.p = c.a, c.x, c.y, c.sp, c.p
        mpu.step()
        got = dict(a=mpu.a, c=mpu.p & 1, n=(mpu.p >> 7) & 1, v=(mpu.p >> 6) & 1, z=(mpu.p >> 1) & 1)
        print('case     :', c.line('cpu'))
        print('A M C    :', rp['a'], rp['m'], rp['c'])
        print('expected :', rp['expected'])
        print('real     :', got)
        bad = got != rp['expected']
        if bad:
            print('DIFF')
        return 1 if bad else 0
    return cpu_props.replay(ctx, path)
