"""C01 -- NMOS 6502: every documented instruction executes per the programming model."""
import cpu_props

ID = 'C01'
LEAN_MODULES = []
NAMESPACES = []
LEVEL = 'proof'
RULE = ('all 151 documented opcodes x boundary-biased states (registers, operands, pointers and PC '
        'aimed at page/wrap boundaries); distinct = distinct (opcode, register-class, pc-quadrant, '
        'touched-cell-count) signatures of executions that ran')


def _opcodes(dev, modes):
    return [i for i in range(256) if modes[i][0] != '???']


SPEC = dict(module='props.c01', devs=['6502'], opcodes=_opcodes, aspects={'sem', 'wait'}, mode='step',
            n_quick=160, n_thorough=4000, decimal=False)


def explore(ctx):
    cpu_props.explore(ctx, SPEC)


def replay(ctx, path):
    return cpu_props.replay(ctx, path)
