"""C01 -- NMOS 6502: every documented instruction executes per the programming model."""
import cpu_props

ID = 'C01'
LEAN_MODULES = ['Py65.Props.C01']
NAMESPACES = ['Py65.Props.C01', 'Py65.Proofs.H']
# library helpers (CPython behaviour modelled in lean/Py65/Model/*Rt*.lean ...) that the generated code of these
# modules calls, derived by scanning the Lean sources (harness/rtscan.py); validated against CPython on every run
import rtcheck  # noqa: E402
RT_HELPERS = rtcheck.helpers_for(LEAN_MODULES)
EXPECTED_THEOREMS = ['Py65.Props.C01.C01_full', 'Py65.Props.C01.C01_partial']
TRUSTED = ['Spec.Cpu / Spec.Isa (hand-written programming model, the oracle)',
           'translator harness/py2lean.py (Python subset -> Lean), validated on every run by exact-state comparison of the generated model with the real device',
           'Py.land/lor/lxor definitions (characterised bit-wise by theorems in Proofs/PyIntLemmas.lean, differentially tested)']
ASSUMPTIONS = ['C01_full: every one of the 151 declared opcodes is proved (Py65.Props.C01.unproved = []); ADC/SBC under the binary-mode hypothesis (decimal mode is C04), JSR under the no-self-overwrite hypothesis the property itself excludes',
               'JSR: the two stack cells written are not the instruction\'s own operand bytes (the property\'s self-overwrite exclusion)',
               'model state: registers in the byte, PC in the address space, every cell in the byte (WF)']
LEVEL = 'proof'
RULE = ('all 151 documented opcodes x boundary-biased states (registers, operands, pointers and PC '
        'aimed at page/wrap boundaries); distinct = distinct (opcode, register-class, pc-quadrant, '
        'touched-cell-count) signatures of executions that ran')


def _opcodes(dev, modes):
    return [i for i in range(256) if modes[i][0] != '???']


SPEC = dict(module='props.c01', devs=['6502'], opcodes=_opcodes, aspects={'sem', 'wait'}, mode='step',
            n_quick=160, n_thorough=4000, decimal=False)


def explore(ctx):
    cpu_props.explore(ctx, SPEC)


def replay(ctx, path):
    return cpu_props.replay(ctx, path)
