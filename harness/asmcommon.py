"""Shared pieces of the C07 / C08 / C09 checks.

1. The PROPERTY ORACLE: the documented instruction encoding re-implemented in Python from the
   instruction tables of lean/Py65/Spec/Isa.lean (parsed from that file -- NOT from py65's tables)
   and the documented assembler syntax (lean/Py65/Spec/Asm.lean, transcribed independently of the
   Lean model of py65's assembler): `spec_encode`, `spec_encode_abs`, `spec_tokens`, `spec_parse`.
2. Runners of the real `Assembler` / `Disassembler` (in-process) producing the same canonical text as
   the Lean driver's `asm` / `nas` / `stm` / `dis` protocol lines, and the request-line builders.
"""
import os
import re
import sys

HERE = os.path.dirname(os.path.abspath(__file__))
if HERE not in sys.path:
    sys.path.insert(0, HERE)
from common import LEAN, device_classes, widths, DEVNAMES  # noqa: E402,F401

# ---------------------------------------------------------------------------------------
# documented tables (Spec/Isa.lean)
# ---------------------------------------------------------------------------------------

MODES = ('imp', 'acc', 'imm', 'zpg', 'zpx', 'zpy', 'abs', 'abx', 'aby', 'ind', 'inx', 'iny', 'rel', 'zpi', 'iax')
MODE_LEN = {'imp': 1, 'acc': 1, 'imm': 2, 'zpg': 2, 'zpx': 2, 'zpy': 2, 'rel': 2, 'inx': 2, 'iny': 2, 'zpi': 2,
            'abs': 3, 'abx': 3, 'aby': 3, 'ind': 3, 'iax': 3}
ZP_MODES = ('zpg', 'zpx', 'zpy', 'inx', 'iny', 'zpi')
SHAPES = ('none', 'acc', 'imm', 'dir', 'dirX', 'dirY', 'ind', 'indX', 'indY')
SHAPE_MODES = {'none': ('imp', 'acc'), 'acc': ('acc',), 'imm': ('imm',), 'dir': ('zpg', 'abs', 'rel'),
               'dirX': ('zpx', 'abx'), 'dirY': ('zpy', 'aby'), 'ind': ('zpi', 'ind'), 'indX': ('inx', 'iax'),
               'indY': ('iny',)}
MODE_SHAPE = {}
for _s, _ms in SHAPE_MODES.items():
    for _m in _ms:
        if _m not in MODE_SHAPE or _s != 'none':
            MODE_SHAPE[_m] = _s
MODE_SHAPE['imp'] = 'none'
MODE_SHAPE['acc'] = 'acc'

_ISA = None


def isa():
    """{'nmos': {opcode: (mnemonic, mode)}, 'cmos': {...}} from Spec/Isa.lean; sanity-checked against the
    mode-length table of the same file."""
    global _ISA
    if _ISA is not None:
        return _ISA
    src = open(os.path.join(LEAN, 'Py65', 'Spec', 'Isa.lean'), encoding='utf-8').read()

    def table(name):
        m = re.search(r'def %s\s*:.*?:=\s*\[(.*?)\n\]' % name, src, re.S)
        rows = {}
        for op, mn, bit, mo in re.findall(r'\(0x([0-9a-fA-F]{2}),\s*\.(\w+)(?:\s+(\d+))?,\s*\.(\w+)\)', m.group(1)):
            rows[int(op, 16)] = (mn + bit, mo)
        return rows
    nmos = table('nmosTable')
    ext = table('cmosExtTable')
    assert len(nmos) == 151 and len(ext) == 44, (len(nmos), len(ext))
    cmos = dict(nmos)
    cmos.update(ext)
    # Mode.len as documented in the same file
    for grp, n in re.findall(r'\|\s*((?:\.\w+\s*\|?\s*)+)=>\s*(\d)', re.search(r'def Mode\.len.*?\n\n', src, re.S).group(0)):
        for mo in re.findall(r'\.(\w+)', grp):
            assert MODE_LEN[mo] == int(n), (mo, n)
    _ISA = {'nmos': nmos, 'cmos': cmos}
    return _ISA


def variant_of(dev):
    return 'cmos' if dev == '65C02' else 'nmos'


def all_mnemonics():
    s = set()
    for t in isa().values():
        for mn, _ in t.values():
            s.add(mn)
    return sorted(s)


def spec_opcode_of(variant, mn, mode):
    t = isa()[variant]
    for op in range(256):
        if t.get(op) == (mn, mode):
            return op
    return None


def spec_disp(W, target, pc):
    AM = 1 << (2 * W)
    r = (target - (pc + 2)) % AM
    return r if r < AM // 2 else r - AM


def _encode_in(variant, W, mn, val, pc, modes):
    BM, AM = 1 << W, 1 << (2 * W)
    for mo in modes:
        op = spec_opcode_of(variant, mn, mo)
        if op is None:
            continue
        if mo in ZP_MODES and not val < BM:
            continue
        if mo in ('imp', 'acc'):
            ops = []
        elif mo == 'imm' or mo in ZP_MODES:
            ops = [val]
        elif mo == 'rel':
            d = spec_disp(W, val, pc)
            if not (-(BM // 2) <= d < BM // 2):
                return 'overflow'
            ops = [d % BM]
        else:
            ops = [val % BM, val // BM]
        if pc + MODE_LEN[mo] > AM:
            return 'overflow'
        return [op] + ops
    return 'syntax'


def _in_range(W, shape, val):
    if shape in ('none', 'acc'):
        return True
    if shape == 'imm':
        return 0 <= val < (1 << W)
    return 0 <= val < (1 << (2 * W))


def spec_encode(dev, mn, shape, val, pc):
    """Documented encoding (list of ints) or the refusal class ('syntax' | 'overflow')."""
    W = widths(dev)[0]
    if not _in_range(W, shape, val):
        return 'overflow'
    return _encode_in(variant_of(dev), W, mn, val, pc, SHAPE_MODES[shape])


def spec_encode_abs(dev, mn, shape, val, pc):
    W = widths(dev)[0]
    if not _in_range(W, shape, val):
        return 'overflow'
    return _encode_in(variant_of(dev), W, mn, val, pc, [m for m in SHAPE_MODES[shape] if m not in ZP_MODES])


def spec_documented(dev, mn, shape, val, pc):
    """The set (list) of byte lists that count as the documented encoding; empty = must refuse."""
    out = []
    for e in (spec_encode(dev, mn, shape, val, pc), spec_encode_abs(dev, mn, shape, val, pc)):
        if isinstance(e, list) and e not in out:
            out.append(e)
    return out


def spec_decode_stmt(dev, pc, op, b1, b2):
    """(mnemonic, mode, shape, value, length) denoted by the bytes at pc, or None (undeclared)."""
    W = widths(dev)[0]
    BM, AM = 1 << W, 1 << (2 * W)
    r = isa()[variant_of(dev)].get(op)
    if r is None:
        return None
    mn, mo = r
    if mo in ('imp', 'acc'):
        v = 0
    elif mo == 'imm' or mo in ZP_MODES:
        v = b1
    elif mo == 'rel':
        v = (pc + 2 + (b1 if b1 < BM // 2 else b1 - BM)) % AM
    else:
        v = b1 + b2 * BM
    return mn, mo, MODE_SHAPE[mo], v, MODE_LEN[mo]


# ---------------------------------------------------------------------------------------
# documented concrete syntax (tokens; Spec.Asm.tokens / parseOperand / parse)
# ---------------------------------------------------------------------------------------

# white space between tokens: what str.split() / \s accept in ASCII (Spec.Asm.isBlank)
SPEC_BLANKS = ' \t\n\x0b\x0c\r\x1c\x1d\x1e\x1f'


def spec_tokens(text):
    """Spec.Asm.tokens: `( ) ,` are tokens, white space separates and is dropped, maximal runs of other
    characters are words; the character after `#'` / `#"` at the start of a word belongs to the word
    whatever it is, white space excepted (a character literal is one token)."""
    toks, cur = [], ''
    for ch in text:
        if ch in SPEC_BLANKS:
            if cur:
                toks.append(cur)
                cur = ''
        elif cur in ("#'", '#"'):
            cur += ch
        elif ch in '(),':
            if cur:
                toks.append(cur)
                cur = ''
            toks.append(ch)
        else:
            cur += ch
    if cur:
        toks.append(cur)
    return toks


def _is_word(t):
    return t not in ('(', ')', ',')


def spec_charlit(word):
    """Spec.Asm.charLit: the character a character-literal operand word denotes ('c', "c", closing quote
    optional), else None."""
    if len(word) >= 2 and word[0] in ('"', "'") and word[2:] in ('', word[0]):
        return word[1]
    return None


def spp_line(text):
    return 'spp %s' % tohex(text)


def spec_parse_str(text):
    """spec_parse in the canonical form of the driver's `spp` reply."""
    p = spec_parse(text)
    if p is None:
        return 'none'
    return 'some %s %s %s' % (tohex(p[0]), p[1], tohex(p[2]))


def ascii_upper(s):
    """Spec.Asm.upperS: ASCII letters only (str.upper() would also map e.g. U+017F to S)."""
    return ''.join(chr(ord(c) - 32) if 'a' <= c <= 'z' else c for c in s)


def spec_parse(text):
    """(MNEMONIC, shape, operand word) or None: the statement the token sequence denotes."""
    toks = spec_tokens(text)
    if not toks or not _is_word(toks[0]):
        return None
    m, rest = ascii_upper(toks[0]), toks[1:]
    words = [_is_word(t) for t in rest]
    if rest == []:
        return m, 'none', ''
    if len(rest) == 1 and words[0]:
        w = rest[0]
        if w in ('A', 'a'):
            return m, 'acc', ''
        if w.startswith('#'):
            return m, 'imm', w[1:]
        return m, 'dir', w
    if len(rest) == 3 and words == [True, False, True] and rest[1] == ',':
        if rest[2] in ('X', 'x'):
            return m, 'dirX', rest[0]
        if rest[2] in ('Y', 'y'):
            return m, 'dirY', rest[0]
        return None
    if len(rest) == 3 and rest[0] == '(' and words[1] and rest[2] == ')':
        return m, 'ind', rest[1]
    if len(rest) == 5 and rest[0] == '(' and words[1] and rest[2] == ',' and rest[3] in ('X', 'x') and rest[4] == ')':
        return m, 'indX', rest[1]
    if len(rest) == 5 and rest[0] == '(' and words[1] and rest[2] == ')' and rest[3] == ',' and rest[4] in ('Y', 'y'):
        return m, 'indY', rest[1]
    return None


# ---------------------------------------------------------------------------------------
# the two sides
# ---------------------------------------------------------------------------------------

def tohex(s):
    return s.encode('latin-1').hex() if s else '-'


def labels_field(labels):
    return ','.join('%s=%d' % (tohex(k), v) for k, v in labels) or '-'


def asm_line(dev, pc, radix, labels, text):
    return 'asm %s %d %d %s %s' % (dev, pc, radix, labels_field(labels), tohex(text))


def nas_line(dev, radix, labels, text):
    return 'nas %s %d %s %s' % (dev, radix, labels_field(labels), tohex(text))


def stm_line(text):
    return 'stm %s' % tohex(text)


def dis_line(dev, pc, labels, b0, b1, b2):
    return 'dis %s %d %s %d %d %d' % (dev, pc, labels_field(labels), b0, b1, b2)


_CLS = None
_MPU = {}


def mpu_of(dev):
    """One shared instance per device for the assembler (it only reads class tables and masks)."""
    global _CLS
    if _CLS is None:
        _CLS = device_classes()
    if dev not in _MPU:
        _MPU[dev] = _CLS[dev]()
    return _MPU[dev]


_ASM_CACHE = {}


def assembler_for(dev, radix, labels):
    from py65.assembler import Assembler
    from py65.utils.addressing import AddressParser
    key = (dev, radix, labels)
    a = _ASM_CACHE.get(key)
    if a is None:
        mpu = mpu_of(dev)
        a = Assembler(mpu, AddressParser(maxwidth=mpu.ADDR_WIDTH, radix=radix, labels=dict(labels)))
        if len(_ASM_CACHE) > 4096:
            _ASM_CACHE.clear()
        _ASM_CACHE[key] = a
    return a


def canon_exc(ex):
    if isinstance(ex, SyntaxError):
        return 'syntax'
    if isinstance(ex, OverflowError):
        return 'overflow'
    if isinstance(ex, KeyError):
        return 'key'
    return 'other:%s' % type(ex).__name__


def real_asm(dev, pc, radix, labels, text):
    try:
        a = assembler_for(dev, radix, labels)
    except OverflowError:
        return 'other:init-overflow'
    try:
        bs = a.assemble(text, pc)
    except BaseException as ex:  # noqa: B902
        return canon_exc(ex)
    return 'ok ' + ','.join(str(b) for b in bs)


def real_nas(dev, radix, labels, text):
    try:
        a = assembler_for(dev, radix, labels)
    except OverflowError:
        return 'other:init-overflow'
    try:
        o, p = a.normalize_and_split(text)
    except BaseException as ex:  # noqa: B902
        return canon_exc(ex)
    return 'ok %s %s' % (tohex(o), tohex(p))


def real_stm(text):
    from py65.assembler import Assembler
    m = Assembler.Statement.match(text)
    if not m:
        return 'none'
    return 'some %s %s %s' % tuple(tohex(g) for g in m.groups())


def parse_ok(s):
    """'ok 1,2,3' -> [1,2,3]; anything else -> None"""
    if s.startswith('ok'):
        body = s[2:].strip()
        return [int(x) for x in body.split(',')] if body else []
    return None


class DisBench(object):
    """The real Disassembler of a device on an ObservableMemory spanning the address space (as the
    monitor builds it), with a label table that can be swapped."""

    def __init__(self, dev):
        from py65.memory import ObservableMemory
        from py65.disassembler import Disassembler
        from py65.utils.addressing import AddressParser
        cls = device_classes()[dev]
        self.dev = dev
        self.W, self.AW = widths(dev)
        self.mem = ObservableMemory(addrWidth=self.AW)
        self.mpu = cls(memory=self.mem)
        self.parser = AddressParser(maxwidth=self.AW)
        self.dis = Disassembler(self.mpu, self.parser)
        self.am = (1 << self.AW) - 1

    def put(self, pc, cells):
        for i, v in enumerate(cells):
            self.mem[(pc + i) & self.am] = v

    def set_labels(self, labels):
        """Install a label table on the long-lived parser.  Every fourth time by assigning a new dict, otherwise by editing the
        existing dict in place, key by key, the way the monitor's add_label / delete_label do (same object, often
        the same size): the documented result is the same table either way, so an index or cache derived from an
        earlier table (seeded changes C08-3, C19-3) shows up in the ordinary comparison."""
        self._nlab = getattr(self, '_nlab', 0) + 1
        new = dict(labels)
        if (self._nlab % 4 or getattr(self, 'force_inplace', False)) and isinstance(self.parser.labels, dict):
            cur = self.parser.labels
            if getattr(self, 'force_inplace', False):
                cur.clear()                     # replays: same dict object, exactly the recorded order
                cur.update(new)
            else:
                for k in [k for k in cur if k not in new]:
                    del cur[k]
                for k, v in new.items():
                    cur[k] = v
        else:
            self.parser.labels = new

    def run(self, pc):
        try:
            n, t = self.dis.instruction_at(pc)
        except NotImplementedError:
            return 'notimpl'
        except IndexError:
            return 'index'
        except BaseException as ex:  # noqa: B902
            return 'other:%s' % type(ex).__name__
        return '%d %s' % (n, tohex(t))


# ---------------------------------------------------------------------------------------
# tie 1 for the assembler: regenerate lean/Py65/Gen/AsmGen.lean from $PY65_REPO/py65/assembler.py
# ---------------------------------------------------------------------------------------

ASM_GEN_MODULES = ['Py65.Proofs.AsmGenEq']
ASM_GEN_THEOREMS = [
    'Py65.Proofs.AsmGenEq.Statement_eq', 'Py65.Proofs.AsmGenEq.Addressing_eq',
    'Py65.Proofs.AsmGenEq.init_addressing_eq', 'Py65.Proofs.AsmGenEq.normalize_and_split_eq',
    'Py65.Proofs.AsmGenEq.assemble_eq', 'Py65.Proofs.AsmGenEq.assembleG_eq', 'Py65.Proofs.AsmGenEq.splitG_eq',
]
ASM_GEN_TRUSTED = [
    'TRANSLATED on every run (harness/py2lean_asm.py, ast-based, refuses anything outside its subset): '
    'lean/Py65/Gen/AsmGen.lean = the class attributes Statement (by exact pattern text) and Addressing (data, in '
    'order), the template list built by __init__, and normalize_and_split / assemble statement by statement '
    '(control flow, order, operators, constants, exception handlers).  Py65/Proofs/AsmGenEq.lean proves the generated '
    'functions EQUAL to the hand model Py65.Model.Asm for all arguments (assemble_eq, normalize_and_split_eq, '
    'init_addressing_eq, Addressing_eq, Statement_eq); Props/C07g.lean / C08ga.lean restate the property theorems for '
    'the generated functions.  A source change outside the subset is a translator refusal; inside the subset it '
    'changes AsmGen.lean and the equalities no longer check -- both are reported as a broken tie',
    'still MODELLED, not translated (library behaviour, named helpers of lean/Py65/Model/AsmRt.lean mapped to the hand '
    "model): CPython `re` for the Statement pattern (deterministic scanner, keyed by the exact pattern text) and for "
    'the template patterns (the construction "^"+re.escape(t)+"$" / replace 00 / replace FF, recognised '
    'symbolically), str.split()/split(" ", 1)/join/strip/upper/startswith, s[i], s[i:], ord, len, %-formatting with '
    '"%0Nx", int(s, 16), list.index, 2-unpacking, AddressParser.number (hand model, C15), the embedding\'s exception '
    'monad (raise / try-except with one handler / continue / return); py2lean_asm.py itself (CPython evaluation order '
    'of the accepted expressions is followed by A-normalisation, not verified).  These remain tied by the sampled '
    'correspondence of this check',
]


def pre_build_asm(ctx):
    """Run the assembler translator (inside the build lock).  Returns its report, or None after a refusal
    (recorded in ctx.broken; lean/Py65/Gen/AsmGen.lean then keeps its previous content)."""
    import json
    import subprocess
    from common import REPO
    rep = os.path.join(ctx.work, 'py2lean_asm.json')
    env = dict(os.environ, PY65_REPO=REPO)
    p = subprocess.run([sys.executable, os.path.join(HERE, 'py2lean_asm.py'), '--out', os.path.join(LEAN, 'Py65', 'Gen'),
                        '--report', rep], stdout=subprocess.PIPE, stderr=subprocess.STDOUT, env=env, timeout=120)
    out = p.stdout.decode('utf-8', 'replace')
    r = {}
    try:
        r = json.load(open(rep))
    except Exception:
        pass
    if p.returncode != 0 or not r.get('ok'):
        ctx.broken.append(dict(kind='translator', what='py2lean_asm refused py65/assembler.py',
                               detail=(r.get('error') or out)[-1500:], where=r.get('where'),
                               function=r.get('function')))
        return None
    info = dict(functions=r.get('functions'), rewritten=r.get('written'), source_sha256=r.get('source_sha256'),
                generated_sha256=r.get('generated_sha256'))
    if isinstance(ctx.stats.get('translator'), dict):
        ctx.stats['translator']['assembler'] = info
    else:
        ctx.stats['translator'] = dict(assembler=info)
    if r.get('written'):
        ctx.note('py2lean_asm: lean/Py65/Gen/AsmGen.lean changed (the assembler source differs from the pinned one)')
    return r
