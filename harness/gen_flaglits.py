#!/usr/bin/env python3
"""Generate lean/Py65/Proofs/FlagLits.lean: the status-register idioms of the device code
(`p & ~MASK`, `p | FLAG`, `p | (v & FLAG)`, `p & FLAG` tests) as `Spec.setFlag` / `Spec.flag`
chains, per literal bit position.  One-off generator; output is ordinary kernel-checked Lean."""
import sys

BITS = [0, 1, 2, 3, 4, 5, 6, 7, 14, 15]
CLEAR_MASKS = [1, 2, 4, 8, 16, 64, 130, 131, 194, 195, 16384, 32770, 32771, 49154, 49155]
SET_MASKS = [3, 48]

out = ['''/- GENERATED ONCE by harness/gen_flaglits.py (static file; proofs are checked by the kernel). -/
import Py65.Proofs.LandLits
import Py65.Spec.Cpu

namespace Py65.Proofs
open Py Py65.Spec

/-- simp set: status-register idioms to `setFlag`/`flag` normal form -/
''']
A = '@[flagalg] '
for k in BITS:
    d = 1 << k
    out.append(A + 'theorem lor_flag_%d (p : Int) : lor p %d = setFlag p %d true := by\n'
               '  rw [lor_lit_%d, land_lit_%d]; simp [setFlag]; omega\n' % (d, d, k, d, d))
    out.append(A + 'theorem land_flag_%d (p : Int) : land p %d = if flag p %d then %d else 0 := by\n'
               '  rw [land_lit_%d]; simp [flag, eqB]; %s\n'
               % (d, d, k, d, d,
                  'have : p % 2 = 0 ∨ p % 2 = 1 := by omega\n  rcases this with h | h <;> simp [h]' if k == 0 else
                  'have : p / %d %% 2 = 0 ∨ p / %d %% 2 = 1 := by omega\n  rcases this with h | h <;> simp [h]' % (d, d)))
    out.append('@[flagalg ↓] ' + 'theorem lor_land_flag_%d (p v : Int) : lor p (land v %d) = setFlag p %d (flag p %d || flag v %d) := by\n'
               '  rw [lor_land, land_lit_%d, land_lit_%d, bitv_land_%d]; simp [setFlag, flag, eqB]\n'
               '  %s\n'
               % (d, d, k, k, k, d, d, d,
                  ('have h1 : p % 2 = 0 ∨ p % 2 = 1 := by omega\n  have h2 : v % 2 = 0 ∨ v % 2 = 1 := by omega\n'
                   '  rcases h1 with h1 | h1 <;> rcases h2 with h2 | h2 <;> simp [h1, h2] <;> omega') if k == 0 else
                  ('have h1 : p / %d %% 2 = 0 ∨ p / %d %% 2 = 1 := by omega\n  have h2 : v / %d %% 2 = 0 ∨ v / %d %% 2 = 1 := by omega\n'
                   '  rcases h1 with h1 | h1 <;> rcases h2 with h2 | h2 <;> simp [h1, h2] <;> omega') % (d, d, d, d)))
    out.append(A + 'theorem setFlag_same_%d (p : Int) (b c : Bool) : setFlag (setFlag p %d b) %d c = setFlag p %d c := by\n'
               '  cases b <;> cases c <;> simp [setFlag] <;> omega\n' % (k, k, k, k))
    out.append(A + 'theorem setFlag_of_flag_%d (p : Int) (b : Bool) (h : flag p %d = b) : setFlag p %d b = p := by\n'
               '  subst h; simp only [setFlag, flag, eqB]\n'
               '  %s\n' % (k, k, k,
               ('have h1 : p % 2 = 0 ∨ p % 2 = 1 := by omega\n  rcases h1 with h1 | h1 <;> simp [h1]') if k == 0 else
               ('have h1 : p / %d %% 2 = 0 ∨ p / %d %% 2 = 1 := by omega\n  rcases h1 with h1 | h1 <;> simp [h1]' % (1 << k, 1 << k))))
    out.append(A + 'theorem flag_setFlag_same_%d (p : Int) (b : Bool) : flag (setFlag p %d b) %d = b := by\n'
               '  cases b <;> simp [setFlag, flag, eqB] <;> omega\n' % (k, k, k))
    for j in BITS:
        if j == k:
            continue
        out.append(A + 'theorem flag_setFlag_%d_%d (p : Int) (b : Bool) : flag (setFlag p %d b) %d = flag p %d := by\n'
                   '  cases b <;> simp [setFlag, flag, eqB] <;> omega\n' % (k, j, k, j, j))
        if j < k:
            out.append(A + 'theorem setFlag_comm_%d_%d (p : Int) (b c : Bool) :\n'
                       '    setFlag (setFlag p %d b) %d c = setFlag (setFlag p %d c) %d b := by\n'
                       '  cases b <;> cases c <;> simp [setFlag] <;> omega\n' % (k, j, k, j, j, k))
out.append(A + 'theorem lor_zero (p : Int) : lor p 0 = p := by rw [lor_eq]; have := land_nonneg p 0 (by decide); have := land_le_right p 0 (by decide); omega\n')
out.append(A + 'theorem land_zero (p : Int) : land p 0 = 0 := by have := land_nonneg p 0 (by decide); have := land_le_right p 0 (by decide); omega\n')
for m in CLEAR_MASKS:
    bits = [i for i in range(20) if m >> i & 1]
    chain = 'p'
    for i in bits:
        chain = 'setFlag %s %d false' % ('(%s)' % chain if chain != 'p' else 'p', i)
    out.append(A + 'theorem land_clear_%d (p : Int) : land p (%d) = %s := by\n'
               '  rw [show ((%d : Int)) = -(%d) by decide, land_neg]; simp only [Int.reduceSub, land_lit_%d, setFlag]\n'
               '  simp <;> omega\n' % (m, -(m + 1), chain, -(m + 1), m + 1, m))
for (m, k1, k2) in ((192, 6, 7), (49152, 14, 15)):
    d1, d2 = 1 << k1, 1 << k2
    out.append('@[flagalg ↓] theorem lor_land_flag_%d (p v : Int) : lor p (land v %d) = '
               'setFlag (setFlag p %d (flag p %d || flag v %d)) %d (flag p %d || flag v %d) := by\n'
               '  rw [lor_land, land_lit_%d, land_lit_%d, bitv_land_%d, bitv_land_%d]; simp [setFlag, flag, eqB]\n'
               '  have h1 : p / %d %% 2 = 0 ∨ p / %d %% 2 = 1 := by omega\n'
               '  have h2 : v / %d %% 2 = 0 ∨ v / %d %% 2 = 1 := by omega\n'
               '  have h3 : p / %d %% 2 = 0 ∨ p / %d %% 2 = 1 := by omega\n'
               '  have h4 : v / %d %% 2 = 0 ∨ v / %d %% 2 = 1 := by omega\n'
               '  rcases h1 with h1 | h1 <;> rcases h2 with h2 | h2 <;> rcases h3 with h3 | h3 <;> rcases h4 with h4 | h4 <;>\n'
               '    simp [h1, h2, h3, h4] <;> omega\n'
               % (m, m, k1, k1, k1, k2, k2, k2, m, m, d1, d2, d1, d1, d1, d1, d2, d2, d2, d2))
for m in SET_MASKS:
    bits = [i for i in range(20) if m >> i & 1]
    chain = 'p'
    for i in bits:
        chain = 'setFlag %s %d true' % ('(%s)' % chain if chain != 'p' else 'p', i)
    out.append(A + 'theorem lor_set_%d (p : Int) : lor p %d = %s := by\n'
               '  rw [lor_lit_%d, land_lit_%d]; simp only [setFlag]; simp; omega\n' % (m, m, chain, m, m))
out.append('end Py65.Proofs\n')
open(sys.argv[1], 'w').write('\n'.join(out))
