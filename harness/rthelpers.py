"""Registry for harness/rtcheck.py: for every modelled CPython library helper of the Lean run-time vocabulary
its wire call (`rt <name> <args>` of lean/Py65/Driver/Rt.lean), a generator of structured + malformed inputs,
and the REAL CPython expression it stands for.  Alphabet of every string: ASCII (0..127) -- the models are
declared for ASCII only (`str.isspace`, `str.upper`, `int()` and `\\s` treat some Latin-1 / Unicode characters
specially: U+0085 and U+00A0 are blanks, `int('\\xa01')` strips them, 'ß'.upper() == 'SS'); see
notes/rt-validation.md.

Kinds (wire format, see Rt.lean): 'S' str, 'C' char, 'I' int, 'B' bool, 'K' raw token, ('O', k) optional,
('L', k) list, 'D' dict str->int (insertion order), 'P' pair of str `a=b`, ('T', k1, k2, ...) tuple.

A helper's generator yields argument tuples; the reference is called with them.  `none_on`: exception classes
of the reference that the model reports as `none`; every other exception is reported as `E:<Class>`.
`refusal_ok`: the model may answer `U:<why>` ("outside my modelled domain") instead of agreeing.
"""
import io
import random
import re
import string

WS_C = ' \t\n\v\f\r'
WS_RE = WS_C + '\x1c\x1d\x1e\x1f'
ASCII = ''.join(chr(i) for i in range(128))
PRINT = ''.join(chr(i) for i in range(32, 127))
ALNUM = string.ascii_letters + string.digits
HEXD = string.hexdigits
B36 = string.digits + string.ascii_lowercase

HELPERS = {}
ORDER = []


class H(object):
    def __init__(self, name, args, res, gen, ref, cpy, none_on=(), refusal_ok=False, domain='', wire=None,
                 pre=(), exhaustive=False, min_cases=200):
        self.name, self.args, self.res, self.gen, self.ref = name, args, res, gen, ref
        self.cpy, self.none_on, self.refusal_ok, self.domain = cpy, tuple(none_on), refusal_ok, domain
        self.wire = wire or name
        self.pre = tuple(pre)              # constant leading wire tokens
        self.exhaustive = exhaustive       # the generator enumerates the whole (finite) domain
        self.min_cases = min_cases
        HELPERS[name] = self
        ORDER.append(name)


# ---------------------------------------------------------------------------------------
# wire encoding
# ---------------------------------------------------------------------------------------

def hx(s):
    return s.encode('latin-1').hex() if s else '-'


_BIG = 10 ** 4000


def dec(n):
    """str(n) without CPython's 4300-digit limit (the limit is lifted for this one conversion only: the
    references under test must see the default)."""
    if abs(n) < _BIG:
        return str(n)
    import sys
    old = sys.get_int_max_str_digits()
    sys.set_int_max_str_digits(0)
    try:
        return str(n)
    finally:
        sys.set_int_max_str_digits(old)


def enc(kind, v):
    if isinstance(kind, tuple):
        if kind[0] == 'O':
            return 'N' if v is None else enc(kind[1], v)
        if kind[0] == 'L':
            v = list(v)
            return ','.join(enc(kind[1], x) for x in v) if v else '_'
        if kind[0] == 'T':
            return '|'.join(enc(k, x) for k, x in zip(kind[1:], v))
        raise ValueError(kind)
    if kind == 'S':
        return hx(v)
    if kind == 'C':
        return hx(v)
    if kind == 'I':
        return dec(int(v))
    if kind == 'B':
        return 'T' if v else 'F'
    if kind == 'K':
        return str(v)
    if kind == 'D':
        v = list(v.items()) if isinstance(v, dict) else list(v)
        return ','.join('%s=%s' % (hx(k), dec(x)) for k, x in v) if v else '_'
    if kind == 'P':
        return '%s=%s' % (hx(v[0]), hx(v[1]))
    raise ValueError(kind)


# ---------------------------------------------------------------------------------------
# building blocks of the generators
# ---------------------------------------------------------------------------------------

def rs(rng, alpha, lo, hi):
    return ''.join(rng.choice(alpha) for _ in range(rng.randint(lo, hi)))


def any_text(rng, maxlen=12):
    """A string over one of several ASCII alphabets (every ASCII character class appears)."""
    r = rng.random()
    if r < 0.08:
        return ''
    alpha = rng.choice([ASCII, PRINT, ALNUM, ALNUM + ' ', WS_RE + 'ab1', string.punctuation, PRINT + WS_RE,
                        'aAzZ09_', '\x00\x1b\x7f~ \t', HEXD + 'xX$+-%:,()#\'" '])
    n = rng.choice([1, 1, 2, 3, rng.randint(0, maxlen), rng.randint(0, maxlen)])
    if r > 0.97:
        n = rng.randint(60, 300)          # long
    return rs(rng, alpha, n, n)


def mutate(rng, s, alpha=ASCII):
    """One small edit (the malformed stream): insert / delete / replace / duplicate / swap."""
    if not s:
        return rng.choice(alpha)
    i = rng.randrange(len(s))
    k = rng.randrange(6)
    if k == 0:
        return s[:i] + rng.choice(alpha) + s[i:]
    if k == 1:
        return s[:i] + s[i + 1:]
    if k == 2:
        return s[:i] + rng.choice(alpha) + s[i + 1:]
    if k == 3:
        return s[:i] + s[i] + s[i:]
    if k == 4 and len(s) > 1:
        j = rng.randrange(len(s))
        l = list(s)
        l[i], l[j] = l[j], l[i]
        return ''.join(l)
    return s + rng.choice(alpha)


BOUND_BITS = [7, 8, 15, 16, 24, 31, 32, 53, 63, 64, 100]


def rint(rng, nonneg=False, huge=True, small=False):
    """Boundary-biased int: 0, ±1, 2^k-1, 2^k, 2^k+1, random of up to 80 bits, rarely a 300..4000-bit int."""
    r = rng.random()
    if small or r < 0.25:
        v = rng.choice([0, 1, 2, 3, 7, 8, 9, 10, 15, 16, 17, 100, 127, 128, 255, 256, 257])
    elif r < 0.5:
        k = rng.choice(BOUND_BITS)
        v = (1 << k) + rng.choice([-2, -1, 0, 1])
    elif r < 0.96 or not huge:
        v = rng.getrandbits(rng.choice([4, 8, 12, 16, 20, 32, 40, 64, 80]))
    else:
        v = rng.getrandbits(rng.choice([300, 300, 1000, 4000]))
    if not nonneg and rng.random() < 0.3:
        v = -v
    return v


def lim(n):
    """keep |n| below 10**4000 (CPython's str() / %d limit is 4300 digits)"""
    return n if abs(n) < _BIG else (abs(n) % _BIG) * (1 if n > 0 else -1)


def rwidth(rng):
    return rng.choice([0, 1, 2, 2, 3, 4, 4, 5, 8, 8, 9, 16, 17, 40, rng.randint(0, 70)])


def rlist(rng, lo=0, hi=8, f=None):
    f = f or (lambda: rng.choice([0, 1, 2, 3, 255, 256, -1, rng.randint(-5, 300)]))
    return [f() for _ in range(rng.choice([lo, rng.randint(lo, hi), rng.randint(lo, hi)]))]


def rindex(rng, n):
    """An index around the boundaries of a sequence of length n."""
    return rng.choice([0, 1, -1, n - 1, n, n + 1, -n, -n - 1, -n + 1, rng.randint(-n - 3, n + 3),
                       rng.choice([10 ** 6, -10 ** 6, 2 ** 64, -2 ** 64])])


def rdict(rng):
    keys = []
    pool = ['', 'a', 'b', 'foo', 'Foo', 'foo ', 'x1', '$10', 'a+1', 'l', rs(rng, ALNUM + '_', 1, 6), any_text(rng, 5)]
    for _ in range(rng.randint(0, 6)):
        k = rng.choice(pool)
        if k not in keys:
            keys.append(k)
    return dict((k, rint(rng, huge=False)) for k in keys)


def rkey(rng, d):
    r = rng.random()
    if d and r < 0.6:
        return rng.choice(list(d))
    if d and r < 0.75:
        return mutate(rng, rng.choice(list(d)), ALNUM + ' ')
    return rng.choice(['', 'a', 'foo', 'zz', any_text(rng, 5)])


def rstrs(rng, lo=0, hi=6, maxlen=6):
    pool = ['', 'a', 'b', 'ab', 'A', 'B', 'a ', ' a', '6502', '65C02', '65Org16', 'aa', 'ab\n']
    return [rng.choice(pool) if rng.random() < 0.5 else any_text(rng, maxlen) for _ in range(rng.randint(lo, hi))]


def rep(n, f):
    """n cases of the case-maker f(rng) -> args tuple."""
    def g(rng):
        for _ in range(n):
            yield f(rng)
    return g


def chars128(rng):
    for i in range(128):
        yield (chr(i),)


def try_(f, *exc):
    try:
        return f()
    except (exc or (Exception,)):
        return None


# ---------------------------------------------------------------------------------------
# PyStr: character classes, int(s, base), %-formats, rjust / zfill / startswith
# ---------------------------------------------------------------------------------------

H('PyStr.isCSpace', ['C'], 'B', chars128, lambda c: try_(lambda: int('7' + c) == 7, ValueError) or False,
  "what int() strips: int('7' + c) == 7", exhaustive=True, domain='ASCII, all 128 characters')
H('PyStr.isReSpace', ['C'], 'B', chars128, lambda c: c.isspace() and bool(re.match(r'\s', c)),
  r"c.isspace() / re.match(r'\s', c)", exhaustive=True, domain='ASCII, all 128 characters')
H('PyStr.isDigit', ['C'], 'B', chars128, lambda c: bool(re.fullmatch(r'[0-9]', c)) and bool(re.match(r'\d', c)),
  r"re.fullmatch('[0-9]', c) / \d", exhaustive=True, domain='ASCII, all 128 characters')
H('PyStr.isHexDigit', ['C'], 'B', chars128, lambda c: bool(re.fullmatch(r'[0-9a-fA-F]', c)),
  "re.fullmatch('[0-9a-fA-F]', c)", exhaustive=True, domain='ASCII, all 128 characters')
H('PyStr.digitVal', ['C'], ('O', 'I'), chars128, lambda c: int(c, 36), 'int(c, 36)', none_on=[ValueError],
  exhaustive=True, domain='ASCII, all 128 characters')


def _digit_char(d):
    return [c for c in ASCII if c == c.lower() and try_(lambda: int(c, 36), ValueError) == d][0]


H('PyStr.digitChar', ['I'], 'S', lambda rng: ((d,) for d in range(36)), _digit_char,
  'the lower-case c with int(c, 36) == d', exhaustive=True, domain='0 <= d < 36, all 36 values')
H('PyStr.upper', ['C'], 'S', chars128, lambda c: c.upper(), 'c.upper()', exhaustive=True,
  domain='ASCII, all 128 characters')
H('PyStr.lower', ['C'], 'S', chars128, lambda c: c.lower(), 'c.lower()', exhaustive=True,
  domain='ASCII, all 128 characters')


def g_startswith(rng):
    s = any_text(rng)
    r = rng.random()
    if r < 0.4:
        p = s[:rng.randint(0, len(s))]
    elif r < 0.6:
        p = mutate(rng, s[:rng.randint(0, len(s))])
    elif r < 0.7:
        p = s + any_text(rng, 3)
    else:
        p = any_text(rng, 4)
    return (s, p)


H('PyStr.startsWithChar', ['S', 'C'], 'B',
  rep(220, lambda rng: (lambda s: (s, s[0] if s and rng.random() < 0.5 else rng.choice(ASCII)))(any_text(rng))),
  lambda s, c: s.startswith(c), 's.startswith(c)')
H('PyStr.startsWith', ['S', 'S'], 'B', rep(260, g_startswith), lambda s, p: s.startswith(p), 's.startswith(p)')


def g_just(rng):
    s = rng.choice(['', '+', '-', '+1', '-1', '1', 'ab', '-ab', ' 1']) if rng.random() < 0.5 else any_text(rng, 10)
    w = rng.choice([0, 1, len(s) - 1, len(s), len(s) + 1, len(s) + 5, rwidth(rng)])
    return (s, max(w, 0), rng.choice('0 *x' + ASCII[:1]))


H('PyStr.rjustL', ['S', 'I', 'C'], 'S', rep(240, g_just), lambda s, w, c: s.rjust(w, c), 's.rjust(w, c)',
  domain='w >= 0 (a Nat in the model)')
H('PyStr.rjust', ['S', 'I', 'C'], 'S', rep(200, g_just), lambda s, w, c: s.rjust(w, c), 's.rjust(w, c)',
  domain='w >= 0')
H('PyStr.zfillL', ['S', 'I'], 'S', rep(240, lambda rng: g_just(rng)[:2]), lambda s, w: s.zfill(w), 's.zfill(w)',
  domain='w >= 0')
H('PyStr.zfill', ['S', 'I'], 'S', rep(200, lambda rng: g_just(rng)[:2]), lambda s, w: s.zfill(w), 's.zfill(w)',
  domain='w >= 0')


def int_text(rng, base):
    """A spelling int(s, base) mostly accepts: blanks, sign, prefix, digits with single underscores, blanks --
    and each of these parts also in the forms CPython refuses."""
    digs = B36[:max(2, min(base, 36))]
    r = rng.random()
    body = rs(rng, digs, 1, rng.choice([1, 2, 4, 8, 20]))
    if r < 0.12:
        body = rs(rng, B36, 1, 4)                      # maybe a digit >= base
    body = ''.join(c.upper() if rng.random() < 0.3 else c for c in body)
    if rng.random() < 0.25 and len(body) > 1:          # underscores: single (ok), doubled / leading / trailing (not)
        i = rng.randint(0, len(body))
        body = body[:i] + rng.choice(['_', '_', '__']) + body[i:]
    pre = rng.choice(['', '', '', '', '0x', '0X', '0o', '0O', '0b', '0B', '0x_', '0b_', '0_', '0', '00', '0x0x'])
    sign = rng.choice(['', '', '', '+', '-', '-', '+-', '--', '+ ', '- '])
    lead = rng.choice(['', '', '', ' ', '\t', '\n', '\v\f\r', '  ', '\x1c', '\x1f', '\x00'])
    trail = rng.choice(['', '', '', ' ', '\n', ' \t\r', '\x1c', '\x00', ' x', '_', 'L', '.0', ' 1'])
    return lead + sign + pre + body + trail


def g_int(rng):
    for k in range(330):
        r = rng.random()
        base = rng.choice([2, 8, 10, 10, 16, 16]) if r < 0.7 else rng.randint(2, 36)
        if r > 0.97:
            base = rng.choice([1, 37, 99])
        s = int_text(rng, base)
        if rng.random() < 0.15:
            s = mutate(rng, s)
        if rng.random() < 0.05:
            s = any_text(rng)
        yield (s, base)
    # CPython's 4300-digit limit (bases that are not a power of two), on both sides of the boundary
    for base, n in [(10, 4300), (10, 4301), (16, 4301), (3, 4301), (32, 4400), (36, 4300), (7, 4299)]:
        d = rng.choice('123456') if base > 6 else '1'
        yield (d * n, base)
        yield ('  -' + '0' * n + ' ', base)
        yield (('1_' * n)[:-1], base)
    for s in ['', ' ', '+', '-', '_', '0x', '0b', '0o', '0_', '_0', '0__0', '0x_f', '0xf_', '0X_F', '0b_1', '+0x1',
              '-0X1', '0 x1', '00x1', '0b101', '0o17', '0x1g', '1\n', '\n1', '1\x0b', '\x0c1', '1\x1c', 'z', 'Z',
              '0b2', '0o8', ' +_1', '+ 1', '1 _']:
        s = ''.join(c for c in s if ord(c) < 128)
        for base in (2, 8, 10, 16, 36):
            yield (s, base)


INT_DOMAIN = ('ASCII text; 2 <= base <= 36 plus the rejected bases 1, 37, 99; base 0 (literal syntax) is not modelled '
              '(`none`) and never used by the translated code (bases are the literals 2/8/10/16 and AddressParser.radix)')
H('PyStr.pyIntL', ['S', 'I'], ('O', 'I'), g_int, lambda s, b: int(s, b), 'int(s, base)', none_on=[ValueError],
  domain=INT_DOMAIN)
H('PyStr.pyInt', ['S', 'I'], ('O', 'I'), g_int, lambda s, b: int(s, b), 'int(s, base)', none_on=[ValueError],
  domain=INT_DOMAIN)


def _digits(b, n):
    if b == 2:
        return format(n, 'b')
    if b == 8:
        return '%o' % n
    if b == 10:
        return str(n)
    if b == 16:
        return '%x' % n
    s = ''
    while True:
        n, d = divmod(n, b)
        s = _digit_char(d) + s
        if n == 0:
            break
    assert int(s, b) >= 0
    return s


def g_digits(rng):
    b = rng.choice([2, 8, 10, 16, 2, 8, 10, 16, rng.randint(2, 36)])
    n = rint(rng, nonneg=True)
    if b == 10 and n >= 10 ** 4000:
        n %= 10 ** 4000
    return (b, n)


def _digits_ref(b, n):
    s = _digits(b, n)
    assert int(s, b) == n and (s == '0' or s[0] != '0')
    return s


H('PyStr.toDigits', ['I', 'I'], 'S', rep(260, g_digits), _digits_ref,
  "format(n,'b') / '%o' / str / '%x'; other bases: the canonical lower-case spelling s with int(s, b) == n",
  domain='2 <= b <= 36, n >= 0 (base 10: below the 4300-digit limit of str())')


def g_wn(rng):
    return (rwidth(rng), rint(rng, nonneg=True))


def _dec_n(rng):
    n = rint(rng, nonneg=True)
    return (n % 10 ** 4000,)


for _nm in ('PyStr.fmtHexL', 'PyStr.fmtHex'):
    H(_nm, ['I', 'I'], 'S', rep(230, g_wn), lambda w, n: '%0*x' % (w, n), "'%0<w>x' % n", domain='w, n >= 0')
for _nm in ('PyStr.fmtOctL', 'PyStr.fmtOct'):
    H(_nm, ['I', 'I'], 'S', rep(230, g_wn), lambda w, n: '%0*o' % (w, n), "'%0<w>o' % n", domain='w, n >= 0')
for _nm in ('PyStr.fmtDecL', 'PyStr.fmtDec'):
    H(_nm, ['I'], 'S', rep(230, _dec_n),
      lambda n: (lambda a, b, c: a if a == b == c else 'DIFF')('%u' % n, '%d' % n, str(n)),
      "'%u' % n == '%d' % n == str(n)", domain='0 <= n < 10**4000 (CPython raises above 4300 digits; never reached: '
                                                 'cycle counts, addresses, lengths)')
H('PyStr.fmtOct4', ['I'], 'S', rep(200, lambda rng: (rint(rng, nonneg=True),)), lambda n: '%04o' % n, "'%04o' % n",
  domain='n >= 0')
for _nm in ('PyStr.fmtBinL', 'PyStr.fmtBin'):
    H(_nm, ['I'], 'S', rep(230, lambda rng: (rint(rng, nonneg=True),)), lambda n: '{0:b}'.format(n),
      "'{0:b}'.format(n)", domain='n >= 0')


# ---------------------------------------------------------------------------------------
# the pattern strings and compiled patterns of the source under test, read at run time
# ---------------------------------------------------------------------------------------

_SRC = {}


class SourcePattern(Exception):
    """The expected regex call is no longer in the source (the translator refuses such a source as well)."""


def _repo():
    import common
    return common.REPO


def _calls(path, cls, func, callee):
    """The `re.<callee>(...)` call nodes inside class `cls`, method `func` of the file."""
    import ast
    import os
    tree = ast.parse(open(os.path.join(_repo(), 'py65', path), encoding='utf-8').read())
    out = []
    for c in ast.walk(tree):
        if isinstance(c, ast.ClassDef) and c.name == cls:
            for f in c.body:
                if isinstance(f, ast.FunctionDef) and f.name == func:
                    for n in ast.walk(f):
                        if isinstance(n, ast.Call) and isinstance(n.func, ast.Attribute) and n.func.attr == callee \
                                and isinstance(n.func.value, ast.Name) and n.func.value.id == 're':
                            out.append((n, f))
    return out


def src(key):
    if key in _SRC:
        return _SRC[key]
    import ast
    v = None
    if key in ('label_offset', 'range', 'registers'):
        path, cls, func, callee = {'label_offset': ('utils/addressing.py', 'AddressParser', 'number', 'match'),
                                   'range': ('utils/addressing.py', 'AddressParser', 'range', 'match'),
                                   'registers': ('monitor.py', 'Monitor', 'do_registers', 'findall')}[key]
        cs = [n for n, _ in _calls(path, cls, func, callee)
              if n.args and isinstance(n.args[0], ast.Constant) and isinstance(n.args[0].value, str)]
        if len(cs) != 1:
            raise SourcePattern('%s: expected one re.%s(<literal>, ...) in %s.%s, found %d' % (key, callee, cls, func, len(cs)))
        v = cs[0].args[0].value
    elif key == 'shortcut_template':
        # pattern = r'^%s\s+' % re.escape(shortcut);  re.match(pattern, line)
        found = []
        for n, f in _calls('monitor.py', 'Monitor', '_preprocess_line', 'escape'):
            for b in ast.walk(f):
                if isinstance(b, ast.BinOp) and isinstance(b.op, ast.Mod) and b.right is n \
                        and isinstance(b.left, ast.Constant) and isinstance(b.left.value, str):
                    found.append(b.left.value)
        if len(found) != 1:
            raise SourcePattern('shortcut_template: expected one `<literal> %% re.escape(..)` in Monitor._preprocess_line')
        v = found[0]
    elif key == 'assembler':
        from py65.assembler import Assembler
        from py65.devices.mpu6502 import MPU as M8
        from py65.devices.mpu65org16 import MPU as M16
        v = dict(statement=Assembler.Statement, addressing=list(Assembler.Addressing),
                 by_numchars={2: Assembler(M8())._addressing, 4: Assembler(M16())._addressing})
    elif key == 'devices':
        import common
        v = dict((nm, c()) for nm, c in common.device_classes().items())
    else:
        raise KeyError(key)
    _SRC[key] = v
    return v


# ---------------------------------------------------------------------------------------
# PyRt / AddrParser: dict operations, s[n:], int, the two regular expressions of addressing.py
# ---------------------------------------------------------------------------------------

H('PyRt.int', ['S', 'I'], 'I', g_int, lambda s, b: int(s, b), 'int(s, base)  (ValueError)', domain=INT_DOMAIN)
H('PyRt.sliceFrom', ['S', 'I'], 'S', rep(220, lambda rng: (lambda s: (s, rng.choice([0, 1, 2, len(s), len(s) + 1, rng.randint(0, 15)])))(any_text(rng))),
  lambda s, n: s[n:], 's[n:]', domain='n >= 0 (a literal in the source)')


def g_dk(rng):
    d = rdict(rng)
    return (d, rkey(rng, d))


H('PyRt.dictIn', ['S', 'D'], 'B', rep(220, lambda rng: g_dk(rng)[::-1]), lambda k, d: k in d, 'k in d')
H('PyRt.dictGetItem', ['D', 'S'], 'I', rep(220, g_dk), lambda d, k: d[k], 'd[k]  (KeyError)')
H('PyRt.dictGet', ['D', 'S', ('O', 'I')], ('O', 'I'),
  rep(220, lambda rng: g_dk(rng) + (rng.choice([None, None, 0, -1, 7]),)), lambda d, k, x: d.get(k, x), 'd.get(k, default)')


def _setitem(d, k, v):
    d = dict(d)
    d[k] = v
    return list(d.items())


H('PyRt.dictSetItem', ['D', 'S', 'I'], 'D', rep(220, lambda rng: g_dk(rng) + (rint(rng, huge=False),)), _setitem,
  'd[k] = v; list(d.items())  (insertion order: an existing key keeps its place)')
H('AddrParser.lookup', ['D', 'S'], ('O', 'I'), rep(220, g_dk), lambda d, k: d.get(k), 'd.get(k)')
H('AddrParser.insert', ['D', 'S', 'I'], 'D', rep(220, lambda rng: g_dk(rng) + (rint(rng, huge=False),)), _setitem,
  'd[k] = v; list(d.items())')


def g_label_offset(rng):
    r = rng.random()
    label = rng.choice(['foo', 'a', 'L1', 'x_y', '$10', 'f.o', 'b', rs(rng, ALNUM + '_$%.#', 1, 6)])
    ws = lambda: rng.choice(['', '', '', ' ', '  ', '\t', '\n', '\x1c', '\v'])
    sign = rng.choice(['+', '-'] * 5 + ['+-', '', '*'])
    off = rng.choice(['', '', '', '$', '+', '%', '$', '$$', '#']) \
        + rs(rng, rng.choice([string.digits, HEXD, HEXD, HEXD + 'gG_']), 0 if r < 0.05 else 1, 5)
    tail = rng.choice(['', '', '', '', '', '', '\n', '\n', ' ', '\n\n', '\r', 'h'])
    s = label + ws() + sign + ws() + off + tail
    if r > 0.85:
        s = mutate(rng, s, PRINT + WS_RE)
    if r > 0.97:
        s = any_text(rng)
    return (s,)


def _groups(pat_key, s):
    m = re.match(src(pat_key), s)
    return None if m is None else m.groups()


for _nm, _res in (('PyRt.reMatchLabelOffset', ('O', ('T', 'S', 'S', 'S'))), ('AddrParser.matchOffset', ('O', ('T', 'S', 'S', 'S')))):
    H(_nm, ['S'], _res, rep(400, g_label_offset), lambda s: _groups('label_offset', s),
      're.match(<the pattern literal of AddressParser.number in $PY65_REPO>, s).groups()')


def g_range(rng):
    r = rng.random()
    part = lambda: rng.choice(['', 'a', '10', '$ff', 'foo+1', ' ', '  ', 'a b', ' a', 'a ', '\n', 'a\n', rs(rng, ALNUM + ' $+-', 0, 5)])
    sep = rng.choice([':', ',', ':', ',', '::', ',:', ' : ', ' ,', ': ', '\t:\n', ''])
    s = part() + sep + part()
    if r < 0.15:
        s += rng.choice([':', ',']) + part()
    if r > 0.85:
        s = mutate(rng, s, PRINT + WS_RE)
    if r > 0.97:
        s = any_text(rng)
    return (s,)


for _nm in ('PyRt.reMatchRange', 'AddrParser.matchRange'):
    H(_nm, ['S'], ('O', ('T', 'S', 'S')), rep(400, g_range), lambda s: _groups('range', s),
      're.match(<the pattern literal of AddressParser.range in $PY65_REPO>, s).groups()')


# ---------------------------------------------------------------------------------------
# PyData / ObsMem: list operations, slice.indices, range, defaultdict(list)
# ---------------------------------------------------------------------------------------

def g_repeat(rng):
    xs = rlist(rng, 0, 4)
    n = rng.choice([-3, -1, 0, 1, 2, 3, 7, rng.randint(0, 40)])
    return (n, xs)


H('Py.listRepeat', ['I', ('L', 'I')], ('T', 'I', ('L', 'I')), rep(220, g_repeat),
  lambda n, xs: (len(n * xs), n * xs), 'n * xs  (length and items)')


def g_setitem(rng):
    l = rlist(rng, 1, 8)
    return (l, rng.randrange(len(l)), rint(rng, huge=False))


def _list_set(l, i, v):
    l = list(l)
    l[i] = v
    return l


H('Py.listSetItem', [('L', 'I'), 'I', 'I'], ('L', 'I'), rep(220, g_setitem), _list_set, 'l[i] = v',
  domain='0 <= i < len(l): the callers (ObservableMemory.__setitem__) mask the address first')


def g_slice_assign(rng):
    l = rlist(rng, 0, 8)
    n = len(l)
    b = lambda: rng.choice([0, 1, n - 1, n, n + 1, n + 5, rng.randint(0, n + 3), 10 ** 9])
    return (l, max(b(), 0), max(b(), 0), rlist(rng, 0, 6))


def _slice_assign(l, lo, hi, vals):
    l = list(l)
    l[lo:hi] = vals
    return (len(l), l)


H('Py.listSliceAssign', [('L', 'I'), 'I', 'I', ('L', 'I')], ('T', 'I', ('L', 'I')), rep(260, g_slice_assign),
  _slice_assign, 'l[lo:hi] = vals  (new length and items)',
  domain='lo, hi >= 0: ObservableMemory.write masks start_address and adds len(bytes)')


def g_slice(rng):
    while True:
        n = rng.choice([0, 1, 2, 5, 8, rng.randint(0, 20), 65536, 2 ** 18])
        def b():
            r = rng.random()
            if r < 0.2:
                return None
            if r < 0.9:
                return rng.choice([0, 1, -1, n - 1, n, n + 1, -n, -n - 1, -n + 1, rng.randint(-n - 3, n + 3)])
            return rng.choice([2 ** 64, -2 ** 64, 10 ** 30])
        step = rng.choice([None, None, 1, 1, 2, 3, -1, -1, -2, -3, 0, n, -n, n + 1, 2 ** 64, -2 ** 64, rng.randint(-6, 6)])
        if n > 100 and step is not None and 0 < abs(step) < n // 50:
            step = step * (n // 50)
        if n > 100 and step is None:
            step = rng.choice([n // 7, -(n // 9)])
        yield_ = (b(), b(), step, n)
        try:
            t = slice(*yield_[:3]).indices(n)
            if len(range(*t)) > 400:
                continue
        except ValueError:
            pass
        return yield_


def _slice_list(a, b, c, n):
    return list(range(*slice(a, b, c).indices(n)))


_SL = [('O', 'I'), ('O', 'I'), ('O', 'I'), 'I']
for _nm in ('ObsMem.sliceRange', 'ObsMem.sliceIndices'):
    H(_nm, _SL, ('O', ('L', 'I')), rep(330, g_slice), _slice_list, 'list(range(*slice(a, b, c).indices(length)))',
      none_on=[ValueError], domain='length >= 0 (a len()); ranges of at most 400 items are compared')
H('ObsMem.sliceTriple', _SL, ('O', ('T', 'I', 'I', 'I')), rep(330, g_slice),
  lambda a, b, c, n: slice(a, b, c).indices(n), 'slice(a, b, c).indices(length)', none_on=[ValueError],
  domain='length >= 0')


def g_clamp(rng):
    n = rng.choice([0, 1, 2, 5, rng.randint(0, 20), 65536])
    x = rng.choice([0, 1, -1, n - 1, n, n + 1, -n, -n - 1, -n + 1, rng.randint(-n - 3, n + 3), 2 ** 64, -2 ** 64])
    if rng.random() < 0.5:
        return (n, 0, n, x)
    return (n, -1, n - 1, x)


H('ObsMem.clampBound', ['I', 'I', 'I', 'I'], 'I', rep(220, g_clamp),
  lambda n, lo, up, x: slice(x, None, 1 if lo == 0 else -1).indices(n)[0],
  'slice(x, None, +-1).indices(length)[0]', domain='(lower, upper) = (0, length) or (-1, length - 1): the two uses')


def g_range3(rng):
    while True:
        a = rng.choice([0, 1, -1, 5, rng.randint(-20, 20), 2 ** 64, -2 ** 64])
        b = a + rng.choice([0, 1, -1, 2, 7, -7, rng.randint(-30, 30), 1000])
        c = rng.choice([1, 1, 2, 3, -1, -1, -2, 7, -7, 2 ** 64, rng.randint(-5, 5) or 1])
        if len(range(a, b, c)) <= 400:
            return (a, b, c)


H('ObsMem.pyRange', ['I', 'I', 'I'], ('L', 'I'), rep(260, g_range3), lambda a, b, c: list(range(a, b, c)),
  'list(range(a, b, c))', domain='c != 0 (slice.indices never returns step 0)')
H('ObsMem.rangeLen', ['I', 'I', 'I'], 'I', rep(260, g_range3), lambda a, b, c: len(range(a, b, c)),
  'len(range(a, b, c))', domain='c != 0')


def g_subs(rng):
    keys = [rng.choice([0, 1, 2, 0xF001, -1]) for _ in range(rng.randint(0, 6))]
    return (keys, [rng.randint(0, 4) for _ in keys], [rng.choice([0, 1, 2, 3, 0xF001, -1, 7]) for _ in range(4)])


def _subs(keys, lens, qs):
    import collections
    d = collections.defaultdict(list)
    for k, n in zip(keys, lens):
        d[k] = list(range(n))
    return [len(d[q]) for q in qs]


H('ObsMem.Subs.set', [('L', 'I'), ('L', 'I'), ('L', 'I')], ('L', 'I'), rep(200, g_subs), _subs,
  'defaultdict(list): d[k] = l; len(d[q])  (an absent key is the empty list)')


# ---------------------------------------------------------------------------------------
# GenRt: l[i], d.get, %-formats with run-time format strings, str.format, exact small floats, repr
# ---------------------------------------------------------------------------------------

def g_listget(rng):
    l = rlist(rng, 0, 8)
    return (l, rindex(rng, len(l)))


H('GenRt.listGet', [('L', 'I'), 'I'], 'I', rep(240, g_listget), lambda l, i: l[i], 'l[i]  (IndexError)')


def g_idict(rng):
    ks = []
    for _ in range(rng.randint(0, 6)):
        k = rng.choice([2, 8, 10, 16, 0, -1, 36, 1])
        if k not in ks:
            ks.append(k)
    return (ks, [rng.randint(0, 99) for _ in ks], rng.choice([2, 8, 10, 16, 0, -1, 36, 1, 3]))


H('GenRt.dictGet', [('L', 'I'), ('L', 'I'), 'I'], ('O', 'I'), rep(220, g_idict),
  lambda ks, vs, x: dict(zip(ks, vs)).get(x), 'd.get(k)', domain='a dict display: unique keys')


def hexfmt(rng):
    """A device format "%0<w>x" and, in the malformed stream, its neighbours."""
    r = rng.random()
    if r < 0.75:
        return '%0' + str(rng.choice([2, 4, 8, 2, 4, 8, 1, 0, 3, 16, 17, 40])) + 'x'
    return rng.choice(['%0x', '%04X', '%4x', '%x', '%04d', '%004x', '%04x ', ' %04x', '%04', '%0', '%', '', '04x',
                       '%%04x', '%-4x', '%+04x', '%04o', '%0 4x', '%04xx', '%0100x', '%s', '%0x4'])


def _pct(f, v):
    return f % v


H('GenRt.pctInt', ['S', 'I'], 'S', rep(300, lambda rng: (hexfmt(rng), rint(rng, nonneg=True))), _pct, 'fmt % n',
  refusal_ok=True, domain='n >= 0 (memory cells and addresses; the model prints toNat: CPython would print a sign); a '
                          'format outside "%0<w>x" is refused (U:), never approximated')
H('AsmRt.fmt', ['S', 'I'], 'S', rep(300, lambda rng: (hexfmt(rng), rint(rng))), _pct, 'fmt % n', refusal_ok=True,
  domain='a negative n or a format outside "%0<w>x" is refused (U:)')
H('Asm.pctFmt', ['S', 'I'], ('O', 'S'), rep(300, lambda rng: (hexfmt(rng), rint(rng, nonneg=True))),
  lambda f, n: (f % n) if re.fullmatch(r'%0[0-9]*x', f) else None,
  'fmt % n  (none = a format outside "%0<w>x")', domain='n >= 0; `none` must coincide with "not of the form %0<digits>x"')
H('Asm.decVal', ['S'], 'I', rep(200, lambda rng: (rs(rng, string.digits, 1, rng.choice([1, 2, 3, 9])),)), lambda s: int(s),
  'int(ds) for a run of ASCII digits (the width inside a format)', domain='non-empty digit string (the callers pass takeWhile isDigit)')


def g_bn(rng):
    return (rng.choice([2, 10, 16]), lim(rint(rng)))


_FMT1 = {2: '{0:b}', 10: '{0}', 16: '{0:x}'}
H('GenRt.intDigits', ['I', 'I'], 'S', rep(240, g_bn), lambda b, n: _FMT1[b].format(n), "'{0:b}' / '{0}' / '{0:x}'.format(n)",
  domain='b in (2, 10, 16): the bases of _itoa_fmts; |n| below the 4300-digit limit for b = 10')
H('Show.digitsInt', ['I', 'I'], 'S', rep(240, g_bn), lambda b, n: _FMT1[b].format(n), "'{0:b}' / str / '{0:x}'.format(n)",
  domain='b in (2, 10, 16)')


def g_fmt1(rng):
    r = rng.random()
    f = rng.choice(['{0:b}', '{0}', '{0:x}']) if r < 0.8 else rng.choice(['{0:o}', '{}', '{0:X}', '{0:d}', '', '{0', '{0:b} ', '{1}', '%x'])
    return (f, lim(rint(rng)))


H('GenRt.strFormat1', ['S', 'I'], 'S', rep(260, g_fmt1), lambda f, n: f.format(n), 'fmt.format(n)', refusal_ok=True,
  domain='the three formats of conversions._itoa_fmts; any other format string is refused (U:)')


def g_pctstr(rng):
    r = rng.random()
    f = '%-' + str(rng.choice([0, 1, 2, 5, 10, 13, 25, 40])) + 's' if r < 0.8 else \
        rng.choice(['%-s', '%s', '%5s', '%-05s', '%-5d', '%-5', '%-5ss', '', '%-5s '])
    return (f, any_text(rng, 20))


H('GenRt.pctStr', ['S', 'S'], 'S', rep(260, g_pctstr), lambda f, s: f % s, 'fmt % s  (left-justified field)', refusal_ok=True,
  domain='formats "%-<w>s"; any other is refused (U:)')
H('Fmt.ljustL', ['S', 'I'], 'S', rep(220, lambda rng: (any_text(rng, 20), rwidth(rng))),
  lambda s, w: (lambda a, b: a if a == b else 'DIFF')('%-*s' % (w, s), s.ljust(w)), "'%-<w>s' % s == s.ljust(w)", domain='w >= 0')


def g_frac(rng):
    a = rng.choice([8, 16, 0, 1, -1, 7, 9, rng.randint(-40, 40), rng.randint(-2 ** 20, 2 ** 20), rng.randint(-2 ** 20, 2 ** 20)])
    b = rng.choice([4, 4, 1, 2, 3, 7, 8, rng.randint(1, 1024), rng.randint(1, 1024)])
    return (a, b)


H('GenRt.fracOfDiv', ['I', 'I'], 'I', rep(220, g_frac), lambda a, b: int(a / b), 'int(a / b)  (float true division, truncated)',
  domain='|a| <= 2**20, 0 < b <= 1024 (BYTE_WIDTH / 4): the quotient is far from the 2**53 rounding range')
H('GenRt.fracToInt', ['I', 'I'], 'I', rep(220, g_frac), lambda a, b: int(a / b), 'int(a / b)', domain='as fracOfDiv')
H('GenRt.fracAddInt', ['I', 'I', 'I'], 'I', rep(220, lambda rng: (rng.choice([0, 1, -1, 3, rng.randint(-2 ** 20, 2 ** 20)]),) + g_frac(rng)),
  lambda n, a, b: int(n + a / b), 'int(n + a / b)', domain='as fracOfDiv, |n| <= 2**20')
H('AsmRt.truedivD', ['I', 'I'], 'I', rep(220, lambda rng: (lambda p: (abs(p[0]), p[1]))(g_frac(rng))),
  lambda a, b: int('%d' % (a / b)), "'%d' % (a / b)", domain='0 <= a <= 2**20, 0 < b (BYTE_WIDTH / 4)')

_SMALLINT = lambda rng: (lim(rint(rng)),)
H('GenRt.pyReprInt', ['I'], 'S', rep(220, _SMALLINT), lambda n: '%r' % n, "'%r' % n", domain='below the 4300-digit limit')
H('GenRt.pyStrInt', ['I'], 'S', rep(220, _SMALLINT),
  lambda n: (lambda a, b, c: a if a == b == c else 'DIFF')(str(n), '%s' % n, '%d' % n), "str(n) == '%s' % n == '%d' % n",
  domain='below the 4300-digit limit')
H('MonGenRt.pyFmtD', ['I'], 'S', rep(220, _SMALLINT), lambda n: '%d' % n, "'%d' % n", domain='below the 4300-digit limit')
_REPR_OK = ''.join(c for c in PRINT if c not in "'\\")
H('GenRt.pyReprStr', ['S'], 'S', rep(220, lambda rng: (rs(rng, rng.choice([_REPR_OK, ALNUM, ALNUM + ' "$#']), 0, 12),)),
  lambda s: '%r' % (s,), "'%r' % s",
  domain="printable ASCII without ' and \\ (used only for the text of exception messages about mnemonics / modes)")


# ---------------------------------------------------------------------------------------
# AsmRt / Asm: str.split / join / strip / upper, indexing, ord, unpacking, list.index, the Statement pattern
# and the template patterns of Assembler.__init__
# ---------------------------------------------------------------------------------------

def ws_text(rng):
    """Words separated by every kind of ASCII blank (and by the near-blanks \\x00 \\x1b \\x7f)."""
    if rng.random() < 0.1:
        return any_text(rng, 20)
    parts = []
    for _ in range(rng.randint(0, 5)):
        parts.append(rng.choice(['', ' ', '  ', '\t', '\n', '\v', '\f', '\r', '\x1c', '\x1d', '\x1e', '\x1f', '\x00', '\x1b', ' \t ']))
        parts.append(rng.choice(['', 'lda', 'LDA', '#$10', '($10),y', 'a', 'x', ',', rs(rng, PRINT.replace(' ', ''), 1, 4)]))
    parts.append(rng.choice(['', ' ', '\n', '  ']))
    return ''.join(parts)


for _nm in ('AsmRt.split', 'Asm.pySplit'):
    H(_nm, ['S'], ('L', 'S'), rep(260, lambda rng: (ws_text(rng),)), lambda s: s.split(), 's.split()')
H('MonMem.words', ['S'], ('L', 'S'), rep(220, lambda rng: (rs(rng, HEXD + '   :', 0, 20),)), lambda s: s.split(), 's.split()',
  domain='text over hex digits, colon and the space character (the lines `mem` prints; used by a property statement only)')
H('Asm.normWs', ['S'], 'S', rep(240, lambda rng: (ws_text(rng),)), lambda s: ' '.join(s.split()), "' '.join(s.split())")
H('Asm.removeWs', ['S'], 'S', rep(240, lambda rng: (ws_text(rng),)), lambda s: ''.join(s.split()), "''.join(s.split())")
for _nm in ('Asm.strip', 'MonCmd.pyStrip'):
    H(_nm, ['S'], 'S', rep(240, lambda rng: (ws_text(rng),)), lambda s: s.strip(), 's.strip()')
H('MonCmd.stripBlank', ['S'], 'S', rep(240, lambda rng: (ws_text(rng),)), lambda s: s.strip(' \t'), "s.strip(' \\t')")
H('Asm.upperS', ['S'], 'S', rep(240, lambda rng: (any_text(rng, 16),)), lambda s: s.upper(), 's.upper()')
H('MonIORt.pyLower', ['S'], 'S', rep(240, lambda rng: (any_text(rng, 16),)), lambda s: s.lower(), 's.lower()')


def g_join(rng):
    return (rng.choice(['', ' ', ', ', ',', '--', any_text(rng, 3)]), rstrs(rng))


for _nm in ('AsmRt.join', 'MonIORt.pyJoin'):
    H(_nm, ['S', ('L', 'S')], 'S', rep(240, g_join), lambda sep, l: sep.join(l), 'sep.join(l)')
H('Asm.joinSp', [('L', 'S')], 'S', rep(220, lambda rng: (rstrs(rng),)), lambda l: ' '.join(l), "' '.join(l)")
H('AsmRt.startswith', ['S', 'S'], 'B', rep(240, g_startswith), lambda s, p: s.startswith(p), 's.startswith(p)')
H('AsmRt.strGet', ['S', 'I'], 'S', rep(240, lambda rng: (lambda s: (s, rng.choice([0, 1, 2, 3, len(s) - 1, len(s), len(s) + 1]) if s else rng.choice([0, 1, 2])))(any_text(rng, 6))),
  lambda s, i: s[i], 's[i]  (IndexError)', domain='i >= 0 (a literal index in the source)')
H('AsmRt.sliceFrom', ['S', 'I'], 'S', rep(220, lambda rng: (lambda s: (s, rng.choice([0, 1, 2, 3, len(s), len(s) + 1])))(any_text(rng, 6))),
  lambda s, i: s[i:], 's[i:]', domain='i >= 0 (a literal)')
H('AsmRt.listGet', [('L', 'S'), 'I'], 'S', rep(220, lambda rng: (lambda l: (l, rng.choice([0, 1, 2, len(l), max(len(l) - 1, 0)])))(rstrs(rng, 0, 4))),
  lambda l, i: l[i], 'l[i]  (IndexError)', domain='i >= 0 (a literal)')
H('AsmRt.ord', ['S'], 'I', rep(220, lambda rng: (rng.choice(ASCII) if rng.random() < 0.7 else any_text(rng, 3),)), lambda s: ord(s),
  'ord(s)  (TypeError unless len(s) == 1)')
H('AsmRt.len', [('L', 'S')], 'I', rep(200, lambda rng: (rstrs(rng, 0, 9),)), lambda l: len(l), 'len(l)')
H('AsmRt.splitSp1L', ['S'], ('L', 'S'), rep(260, lambda rng: (ws_text(rng),)), lambda s: s.split(' ', 1), "s.split(' ', 1)")
H('Asm.splitSp1', ['S'], ('T', 'S', ('O', 'S')), rep(260, lambda rng: (ws_text(rng),)),
  lambda s: (lambda l: (l[0], l[1] if len(l) > 1 else None))(s.split(' ', 1)), "s.split(' ', 1)  (one or two pieces)")


def _unpack2(l):
    a, b = l
    return (a, b)


H('AsmRt.unpack2', [('L', 'S')], ('T', 'S', 'S'), rep(220, lambda rng: (rstrs(rng, 0, 4, 4) if rng.random() < 0.5 else rstrs(rng, 2, 2, 4),)),
  _unpack2, 'a, b = l  (ValueError)')
H('AsmRt.int', ['S', 'I'], 'I', g_int, lambda s, b: int(s, b), 'int(s, base)  (ValueError)', domain=INT_DOMAIN)


def g_index(rng):
    pool = [('LDA', 'imm'), ('LDA', 'zpg'), ('STA', 'zpg'), ('???', 'imp'), ('NOP', 'imp'), ('', ''), ('lda', 'imm'), ('LDA', '')]
    l = [rng.choice(pool) for _ in range(rng.randint(0, 8))]
    return (l, rng.choice(pool))


H('AsmRt.index', [('L', 'P'), 'P'], 'I', rep(240, g_index), lambda l, x: l.index(x), 'l.index(x)  (first position; ValueError)')
H('Asm.indexOf', [('L', 'P'), 'P'], ('O', 'I'), rep(240, g_index), lambda l, x: l.index(x), 'l.index(x)', none_on=[ValueError])


def g_statement(rng):
    r = rng.random()
    mn = rs(rng, rng.choice([string.ascii_uppercase, string.ascii_letters, 'AZaz[\\]^_`@{']), 3, 3)
    if r < 0.08:
        mn = rs(rng, ALNUM, rng.choice([2, 4]), 4)
    dig = rng.choice(['', '', '', '0', '7', '8', '3'])
    ws = lambda: rng.choice([' ', ' ', ' ', '  ', '\t', '', '\n', '\x1c'])
    ws0 = lambda: rng.choice(['', '', '', ' ', '  '])
    par = rng.choice(['', '', '(', '(', '((', '( '])
    target = rng.choice(['$10', '#$10', '$1234', 'foo', 'a', 'A', "#'a'", '#"("', '(', ')', '$10)', 'x', 'lab+1', '#', '', rs(rng, PRINT.replace(' ', ''), 1, 6)])
    after = rng.choice(['', '', ',x', ',X', ',y', '),y', ',x)', ')', ') ,Y', ', x', ',,', 'x', ')y)', '),y)', ',z', ' ', ' )', ')\n', '\n'])
    s = mn + dig + ws() + par + ws0() + target + ws0() + after
    if rng.random() < 0.5:
        s = ' '.join(s.split())            # what normalize_and_split hands to the pattern
    if r > 0.88:
        s = mutate(rng, s, PRINT + WS_RE)
    if r > 0.97:
        s = any_text(rng, 20)
    return (s,)


def _statement(s):
    m = src('assembler')['statement'].match(s)
    return None if m is None else m.groups()


for _nm in ('AsmRt.reStatement', 'Asm.matchStatement'):
    H(_nm, ['S'], ('O', ('T', 'S', 'S', 'S')), rep(500, g_statement), _statement,
      'Assembler.Statement.match(s).groups()  (the compiled pattern of $PY65_REPO/py65/assembler.py)')


def g_template(rng):
    a = src('assembler')
    n = rng.choice([2, 4])
    i = rng.randrange(len(a['addressing']))
    fmt = a['addressing'][i][1]
    r = rng.random()
    # an operand this template, or a neighbouring one, accepts: FF -> n hex digits, 00 -> n zeros
    j = i if r < 0.6 else rng.randrange(len(a['addressing']))
    t = a['addressing'][j][1]
    digs = lambda: rs(rng, rng.choice(['0123456789ABCDEF', '0123456789ABCDEF', '0', 'F', '0123456789abcdef', HEXD + 'G']), n, n)
    s = ''
    k = 0
    while k < len(t):
        if t.startswith('FF', k):
            s += digs()
            k += 2
        elif t.startswith('00', k):
            s += rng.choice(['0' * n, '0' * n, '0' * n, '0' * (n - 1) + '1', '0' * (n + 1)])
            k += 2
        else:
            s += t[k]
            k += 1
    if r > 0.8:
        s = mutate(rng, s, '0123456789ABCDEFXYxy$#(), A')
    if r > 0.97:
        s = any_text(rng, 10)
    return (n, i, s)


def _template(n, i, s):
    m = src('assembler')['by_numchars'][n][i][1].match(s)
    return None if m is None else list(m.groups())


def _template_ok(n, i, s):
    # `$` of the compiled pattern also matches before a final '\n'; the model's scanner requires the end.
    # Unreachable: the operand text is `.strip().upper()`ed by normalize_and_split, and '\n' is a blank.
    return not s.endswith('\n')


def _template_wire(args):
    n, i, s = args
    return (n, src('assembler')['addressing'][i][1], s)


for _nm in ('AsmRt.templatePattern', 'Asm.matchItems'):
    h = H(_nm, ['I', 'S', 'S'], ('O', ('L', 'S')), None, None,
          'Assembler(mpu)._addressing[i][1].match(s).groups()  (the patterns a real Assembler compiled for the 6502 '
          'and the 65Org16; the format strings are read from Assembler.Addressing)',
          domain="operand text without a final '\\n' (`$` also matches before it; operands are .strip()ped, so unreachable)")

    def _gen(rng, _h=h):
        out = 0
        while out < 420:
            a = g_template(rng)
            if _template_ok(*a):
                out += 1
                yield _template_wire(a)
    h.gen = _gen
    h.ref = lambda n, fmt, s: _template(n, _tmpl_index(fmt), s)
    h.ok = lambda n, fmt, s: not s.endswith('\n') and fmt in [f for _, f in src('assembler')['addressing']]


def _tmpl_index(fmt):
    # several modes share a format string ('$FFFF' abs / rel, '' imp / acc): their compiled patterns are identical
    return [f for _, f in src('assembler')['addressing']].index(fmt)


# ---------------------------------------------------------------------------------------
# MonGenRt / MonMem: %-conversions of any int, Python's index and slice conventions, strip(chars), the shortcut regex
# ---------------------------------------------------------------------------------------

def g_wv(rng):
    return (rng.choice([0, 1, 2, 2, 4, 4, 8, 3, 17]), rint(rng))


for _nm in ('MonGenRt.pyFmtX', 'MonMem.fmtHexInt'):
    H(_nm, ['I', 'I'], 'S', rep(240, g_wv), lambda w, v: '%0*x' % (w, v), "'%0<w>x' % v  (any int: the sign counts in the width)")
H('MonGenRt.pyFmtUX', ['I', 'I'], 'S', rep(240, g_wv), lambda w, v: '%0*X' % (w, v), "'%0<w>X' % v")
for _nm in ('ShowRt.pyFmtO', 'Show.fmtOctInt'):
    H(_nm, ['I', 'I'], 'S', rep(240, g_wv), lambda w, v: '%0*o' % (w, v), "'%0<w>o' % v")


def g_li(rng):
    l = rlist(rng, 0, 8)
    return (l, rindex(rng, len(l)))


H('MonGenRt.pyNormIndex', ['I', 'I'], 'I',
  rep(220, lambda rng: (lambda n: (n, rng.randint(-n, n - 1)))(rng.choice([1, 2, 3, rng.randint(1, 40), rng.randint(1, 400)]))),
  lambda n, i: range(n)[i], 'range(len)[i]  (the position a valid index denotes)',
  domain='-len <= i < len (internal of pyGetItem / pyListSet / pySliceBound, which are compared on every index)')
H('MonGenRt.pyGetItem', [('L', 'I'), 'I'], ('O', 'I'), rep(260, g_li), lambda l, i: l[i], 'l[i]', none_on=[IndexError])
H('MonGenRt.pyListSet', [('L', 'I'), 'I', 'I'], ('O', ('L', 'I')), rep(260, lambda rng: g_li(rng) + (rng.choice([0, -1, 99]),)),
  _list_set, 'l[i] = v', none_on=[IndexError])


def g_lx(rng):
    l = rlist(rng, 0, 8, lambda: rng.choice([0, 1, 2, 3, 0xEA, 0x00, 65535]))
    return (l, rng.choice(l) if l and rng.random() < 0.6 else rng.choice([0, 1, 4, 0xEA, -1]))


H('MonGenRt.pyIndex', [('L', 'I'), 'I'], ('O', 'I'), rep(240, g_lx), lambda l, x: l.index(x), 'l.index(x)', none_on=[ValueError])
H('MonGenRt.pyIn', ['I', ('L', 'I')], 'B', rep(240, lambda rng: g_lx(rng)[::-1]), lambda x, l: x in l, 'x in l')
H('MonGenRt.pySet', [('L', 'I'), ('L', 'I')], ('T', 'B', ('L', 'B')),
  rep(220, lambda rng: (lambda p: (p[0], [p[1], 0, 1, 0xEA]))(g_lx(rng))),
  lambda l, ps: (bool(set(l)), [p in set(l) for p in ps]), 'bool(set(l)), p in set(l)  (membership and emptiness)')
H('MonGenRt.pySliceBound', ['I', 'I'], 'I',
  rep(240, lambda rng: (lambda n: (n, rindex(rng, n)))(rng.choice([0, 1, 2, rng.randint(0, 30), rng.randint(0, 400)]))),
  lambda n, i: slice(i, None).indices(n)[0], 'slice(i, None).indices(len)[0]')


def g_si(rng):
    s = any_text(rng, 10)
    return (s, rindex(rng, len(s)))


H('MonGenRt.pySliceTo', ['S', 'I'], 'S', rep(240, g_si), lambda s, i: s[:i], 's[:i]', pre=['S'])
H('MonGenRt.pySliceFrom', ['S', 'I'], 'S', rep(240, g_si), lambda s, i: s[i:], 's[i:]', pre=['S'])
H('MonGenRt.pySliceTo/list', [('L', 'I'), 'I'], ('L', 'I'), rep(200, g_li), lambda l, i: l[:i], 'l[:i]', pre=['L'],
  wire='MonGenRt.pySliceTo')
H('MonGenRt.pySliceFrom/list', [('L', 'I'), 'I'], ('L', 'I'), rep(200, g_li), lambda l, i: l[i:], 'l[i:]', pre=['L'],
  wire='MonGenRt.pySliceFrom')


def g_strip(rng):
    chars = rng.choice([' \t', '.', ' ', '', 'ab', ' \t.', rs(rng, PRINT, 1, 3)])
    core = any_text(rng, 8)
    pad = lambda: rs(rng, chars + chars + ' .\t\n', 0, 4) if chars else rs(rng, ' .', 0, 3)
    return (chars, pad() + core + pad())


H('MonGenRt.pyLstripChars', ['S', 'S'], 'S', rep(240, g_strip), lambda cs, s: s.lstrip(cs) if cs else s, 's.lstrip(chars)',
  domain="chars non-empty in the source (' \\t' and '.'); for '' the model returns s")
H('MonGenRt.pyRstripChars', ['S', 'S'], 'S', rep(240, g_strip), lambda cs, s: s.rstrip(cs) if cs else s, 's.rstrip(chars)', domain='as lstrip')
H('MonGenRt.pyStripChars', ['S', 'S'], 'S', rep(240, g_strip), lambda cs, s: s.strip(cs) if cs else s, 's.strip(chars)', domain='as lstrip')


def g_litspaces(rng):
    lit = rng.choice(['a', 'ab', 'EOF', '~', '?', '>', 'd', 'shl', 'x', '.', '*', '(', '[a]', '\\', 'a b', '$', '^', rs(rng, PRINT, 1, 3)])
    r = rng.random()
    ws = rng.choice([' ', '  ', '\t', '\n', ' \t\v\f\r', '\x1c', '\x1f ', '', '', '\x00', '\x1b'])
    head = lit if r < 0.75 else mutate(rng, lit, PRINT)
    line = head + ws + rng.choice(['', 'rest', ' rest', '10 20', '\n'])
    if r > 0.95:
        line = any_text(rng)
    return (lit, line)


def _litspaces(lit, line):
    m = re.match(src('shortcut_template') % re.escape(lit), line)
    return None if m is None else m.span()


H('MonGenRt.reMatchLitSpaces', ['S', 'S'], ('O', ('T', 'I', 'I')), rep(320, g_litspaces), _litspaces,
  're.match(<template literal of Monitor._preprocess_line in $PY65_REPO> % re.escape(lit), line).span()')
H('MonCmd.dropPrefix?', ['S', 'S'], ('O', 'S'), rep(240, g_startswith), lambda s, p: s[len(p):] if s.startswith(p) else None,
  's[len(p):] if s.startswith(p) else None')


# ---------------------------------------------------------------------------------------
# MonMemRt: operators with their failure cases, bytearray, `in` on str, extended slices, map, str(exc)
# ---------------------------------------------------------------------------------------

H('MonMemRt.pyByteArray', [('L', 'I')], ('O', ('L', 'I')),
  rep(240, lambda rng: (rlist(rng, 0, 8, lambda: rng.choice([0, 1, 127, 128, 255, 255, 256, -1, 65535, rng.randint(0, 255), rng.randint(0, 255)])),)),
  lambda l: list(bytearray(l)), 'bytearray(l)', none_on=[ValueError])


def g_ab(rng):
    return (rint(rng), rng.choice([0, 1, -1, 2, 8, 16, 256, -256, rint(rng)]))


H('MonMemRt.pyFloorDiv', ['I', 'I'], ('O', 'I'), rep(260, g_ab), lambda a, b: a // b, 'a // b', none_on=[ZeroDivisionError])


def g_shift(rng):
    return (rint(rng), rng.choice([0, 1, 2, 7, 8, 15, 16, 31, 32, 64, -1, -8, rng.randint(-3, 130)]))


H('MonMemRt.pyShr', ['I', 'I'], ('O', 'I'), rep(260, g_shift), lambda x, k: x >> k, 'x >> k', none_on=[ValueError],
  domain='k <= 130 (a shift count is BYTE_WIDTH-sized)')
H('MonMemRt.pyShl', ['I', 'I'], ('O', 'I'), rep(260, g_shift), lambda x, k: x << k, 'x << k', none_on=[ValueError], domain='k <= 130')


def g_strin(rng):
    s = rng.choice(['http://x/y', 'file.bin', 'a:/b', '://', ':/', '', 'x://']) if rng.random() < 0.4 else any_text(rng, 10)
    r = rng.random()
    if r < 0.4:
        sub = '://'
    elif r < 0.7 and s:
        i = rng.randrange(len(s))
        sub = s[i:i + rng.randint(0, 4)]
    else:
        sub = any_text(rng, 3)
    return (sub, s)


H('MonMemRt.pyStrIn', ['S', 'S'], 'B', rep(260, g_strin), lambda sub, s: sub in s, 'sub in s')


def g_step(rng):
    l = rlist(rng, 0, 12)
    return (l, rindex(rng, len(l)), rng.choice([1, 2, 2, 2, 3, 5, 100]))


H('MonMemRt.pySliceFromStep', [('L', 'I'), 'I', 'I'], ('L', 'I'), rep(260, g_step), lambda l, i, st: l[i::st], 'l[i::step]',
  domain='step >= 1 (the literal 2 in the source)')
H('MonMemRt.everyNth', ['I', 'I', ('L', 'I')], ('L', 'I'),
  rep(220, lambda rng: (lambda l: (rng.choice([1, 2, 2, 3, 5, 100]), len(l), l))(rlist(rng, 0, 12))),
  lambda st, n, l: l[::st], 'l[::step]', domain='step >= 1; the bound argument is len(l) (internal of pySliceFromStep)')
H('MonMemRt.pyMap2', [('L', 'I'), ('L', 'I')], ('L', 'I'), rep(220, lambda rng: (rlist(rng, 0, 7), rlist(rng, 0, 7))),
  lambda a, b: list(map(lambda p, q: p * 1000003 + q, a, b)), 'list(map(f, a, b))  (stops at the shorter argument)')


def _filewrite(name, old, octets):
    f = io.BytesIO()
    f.write(bytes(old))
    f.write(bytearray(octets))
    return list(f.getvalue())


_BYTES = lambda rng: rlist(rng, 0, 8, lambda: rng.randint(0, 255))
H('MonMemRt.pyFileWrite', ['S', ('L', 'I'), ('L', 'I')], ('L', 'I'), rep(200, lambda rng: ('f.bin', _BYTES(rng), _BYTES(rng))),
  _filewrite, 'f.write(octets) on a binary file: the content grows by the octets', domain='octets in range(256) (a bytearray)')


def g_pexc(rng):
    r = rng.randrange(4)
    if r == 0:
        return ('Other', any_text(rng, 20))
    if r == 1:
        return ('OSError', rng.choice([2, 13, 21, 0, -1, rng.randint(0, 200)]), rng.choice(['No such file or directory', 'Permission denied', '', any_text(rng, 12)]))
    if r == 2:
        return ('OverflowError', rint(rng, huge=False))
    return ('ZeroDivisionError',)


def _pexc_str(kind, *a):
    if kind == 'Other':
        return str(Exception(a[0]))
    if kind == 'OSError':
        return str(OSError(a[0], a[1]))
    if kind == 'OverflowError':
        return str(OverflowError(a[0]))
    try:
        1 // 0
    except ZeroDivisionError as ex:
        return str(ex)


_h = H('MonMemRt.PExc.str', None, 'S', rep(260, g_pexc), _pexc_str, 'str(exc)',
       domain="Exception(text), OSError(errno, strerror), OverflowError(n), the ZeroDivisionError of `//`.  NOT KeyError / "
              "IndexError / TypeError / ValueError: the model returns the bare argument / the class name, CPython "
              "str(KeyError('a')) == \"'a'\" and str(IndexError()) == ''.  Unreachable: do_load applies str() only to what "
              "urlopen raised, which the World oracle hands over as Other(str(exc))")
_h.args_of = lambda args: {'Other': ['K', 'S'], 'OSError': ['K', 'I', 'S'], 'OverflowError': ['K', 'I'], 'ZeroDivisionError': ['K']}[args[0]]


# ---------------------------------------------------------------------------------------
# MonIORt: chr / ord, sorted, dict.keys, bytes.decode, the stdout stream, the device class constants
# ---------------------------------------------------------------------------------------

CP_BOUNDS = [0, 1, 0x7f, 0x80, 0xff, 0x100, 0x7ff, 0x800, 0xd7ff, 0xd800, 0xdfff, 0xe000, 0xffff, 0x10000, 0x10ffff,
             0x110000, 0x110001, -1, -2]


def rcp(rng):
    return rng.choice(CP_BOUNDS) if rng.random() < 0.5 else rng.choice([rng.randint(0, 255), rng.randint(0, 0xffff), rng.randint(-5, 0x120000)])


H('MonIORt.pyChr', ['I'], ('O', ('L', 'I')), rep(240, lambda rng: (rng.choice([rcp(rng), rcp(rng), rcp(rng), rng.randint(-300, 0x120000), rng.randint(-300, 70000), 2 ** 31 - 1, -2 ** 31]),)),
  lambda v: [ord(chr(v))], 'chr(v)', none_on=[ValueError],
  domain='|v| < 2**31 (beyond it CPython raises OverflowError, not ValueError); the argument is a memory cell value, masked to '
         'at most 16 bits by the device')
H('MonIORt.pyOrd', [('L', 'I')], ('O', 'I'),
  rep(220, lambda rng: ([max(0, min(rcp(rng), 0x10ffff)) for _ in range(rng.choice([1, 1, 1, 1, 0, 2, 3]))],)),
  lambda l: ord(''.join(map(chr, l))), 'ord(s)', none_on=[TypeError], domain='s a str (code points 0..0x10FFFF)')
H('MonIORt.pyCodes', ['S'], ('L', 'I'), rep(200, lambda rng: (any_text(rng, 12),)), lambda s: [ord(c) for c in s], '[ord(c) for c in s]')


def g_two_strs(rng):
    a = any_text(rng, 6)
    r = rng.random()
    b = a if r < 0.15 else a + any_text(rng, 2) if r < 0.3 else a[:rng.randint(0, len(a))] if r < 0.45 else mutate(rng, a) if r < 0.7 else any_text(rng, 6)
    return (a, b)


H('MonIORt.strLt', ['S', 'S'], 'B', rep(300, g_two_strs), lambda a, b: a < b, 'a < b  (str)')
H('MonIORt.pySorted', [('L', 'S')], ('L', 'S'), rep(260, lambda rng: (rstrs(rng, 0, 8, 4),)), lambda l: sorted(l), 'sorted(l) / l.sort()')
H('MonIORt.insertSorted', ['S', ('L', 'S')], ('L', 'S'), rep(240, lambda rng: (rng.choice(rstrs(rng, 1, 3, 4)), sorted(rstrs(rng, 0, 7, 4)))),
  lambda x, l: sorted(l + [x]), 'sorted(l + [x]) for a sorted l  (the step of the insertion sort)', domain='l sorted (internal of pySorted)')
H('MonIORt.pyKeys', ['D'], ('L', 'S'), rep(220, lambda rng: (rdict(rng),)), lambda d: list(d.keys()), 'list(d.keys())  (insertion order)')
H('MonIORt.pyList', [('L', 'I')], ('L', 'I'), rep(200, lambda rng: (rlist(rng),)), lambda l: list(l), 'list(x)')
H('MonIORt.isCont', ['I'], 'B', lambda rng: ((b,) for b in range(256)),
  lambda b: try_(lambda: bytes([0xC2, b]).decode('utf-8'), UnicodeDecodeError) is not None,
  "bytes([0xC2, b]).decode('utf-8') succeeds  (b is a continuation byte)", exhaustive=True, domain='all 256 byte values')


def utf8_bytes(rng):
    r = rng.random()
    cps = [max(0, min(rcp(rng), 0x10ffff)) for _ in range(rng.choice([1, 1, 2, 3]))]
    bs = []
    for cp in cps:
        if 0xd800 <= cp <= 0xdfff:
            bs += list(chr(cp).encode('utf-8', 'surrogatepass'))       # CESU-style surrogate: invalid in strict UTF-8
        else:
            bs += list(chr(cp).encode('utf-8'))
    if r < 0.35:
        k = rng.randrange(6)
        if k == 0 and bs:
            bs = bs[:-1]                                                # truncated sequence
        elif k == 1:
            bs = rng.choice([[0xC0, 0x80], [0xC1, 0xBF], [0xE0, 0x80, 0x80], [0xE0, 0x9F, 0xBF], [0xF0, 0x80, 0x80, 0x80],
                             [0xF0, 0x8F, 0xBF, 0xBF], [0xF4, 0x90, 0x80, 0x80], [0xF5, 0x80, 0x80, 0x80], [0xF8, 0x88, 0x80, 0x80, 0x80],
                             [0xED, 0xA0, 0x80], [0xED, 0x9F, 0xBF], [0xEE, 0x80, 0x80], [0xFF], [0xFE], [0x80], [0xBF]]) + bs[:2]
        elif k == 2 and bs:
            i = rng.randrange(len(bs))
            bs[i] = rng.randint(0, 255)
        elif k == 3:
            bs = [rng.randint(0, 255) for _ in range(rng.randint(0, 5))]
        elif k == 4 and bs:
            i = rng.randrange(len(bs))
            bs = bs[:i] + [rng.choice([0x80, 0xBF, 0xC2, 0xE0, 0xF0, 0x41])] + bs[i:]
        else:
            bs = bs + [rng.choice([0xC2, 0xE1, 0xF1])]
    return bs


H('MonIORt.utf8Decode', [('L', 'I')], ('O', ('L', 'I')), rep(400, lambda rng: (utf8_bytes(rng),)),
  lambda bs: [ord(c) for c in bytes(bs).decode('utf-8')], "bytes(bs).decode('utf-8')  (strict)", none_on=[UnicodeDecodeError],
  domain='items in range(256) (a bytes object)')


def g_decode(rng):
    r = rng.random()
    enc_ = 'utf-8' if r < 0.5 else 'latin-1' if r < 0.9 else rng.choice(['no-such-codec', 'klingon', '', 'utf-9'])
    bs = utf8_bytes(rng) if rng.random() < 0.7 else [rng.randint(0, 255) for _ in range(rng.randint(0, 4))]
    if enc_ not in ('utf-8', 'latin-1') and not bs:
        # CPython quirk: b''.decode('klingon') == '' (no codec lookup for empty input), the model says LookupError.
        # Unreachable: the translator refuses every codec literal other than 'latin-1' / 'utf-8'.
        bs = [0x41]
    return (bs, enc_)


H('MonIORt.pyDecode', [('L', 'I'), 'S'], ('L', 'I'), rep(320, g_decode), lambda bs, e: [ord(c) for c in bytes(bs).decode(e)],
  'bytes(bs).decode(encoding)  (UnicodeDecodeError, LookupError)',
  domain="encoding is the literal 'latin-1' or 'utf-8', or a name CPython does not know either; CPython's aliases ('utf8', "
         "'UTF-8', 'latin1', 'ascii', ...) are LookupError in the model -- unreachable: the translator accepts only the two "
         "literal spellings and refuses any other codec literal; for the same reason b''.decode(<unknown>) == '' (CPython "
         "skips the lookup for empty input) is excluded")
HELPERS['MonIORt.pyDecode'].ok = lambda bs, e: e in ('utf-8', 'latin-1') or (bool(bs) and e in ('no-such-codec', 'klingon', '', 'utf-9'))


def g_stdout(rng):
    enc_ = rng.choice(['ascii', 'latin-1', 'utf-8'])
    ops = []
    for _ in range(rng.randint(1, 6)):
        if rng.random() < 0.35:
            ops.append('F')
        else:
            cps = [max(0, min(rcp(rng), 0x10ffff)) if rng.random() < 0.5 else rng.randint(32, 126) for _ in range(rng.choice([1, 1, 1, 0, 2, 3]))]
            ops.append('W' + '.'.join(str(c) for c in cps))
    return (enc_, ops)


def _stdout(enc_, ops):
    raw = io.BytesIO()
    f = io.TextIOWrapper(raw, encoding=enc_, errors='strict', newline='')
    res, written, flushed = [], [], 0
    for op in ops:
        if op == 'F':
            f.flush()
            flushed = len(written)
            got = [ord(c) for c in raw.getvalue().decode(enc_, 'surrogatepass' if enc_ == 'utf-8' else 'strict')]
            assert got == written, (got, written)      # everything written so far has reached the file
            res.append('ok')
        else:
            cps = [int(x) for x in op[1:].split('.')] if len(op) > 1 else []
            try:
                f.write(''.join(map(chr, cps)))
                written += cps
                res.append('ok')
            except UnicodeEncodeError:
                res.append('E')
    f.flush()
    got = [ord(c) for c in raw.getvalue().decode(enc_)]
    assert got == written, (got, written)              # a refused write left nothing behind
    return (res, written, flushed)


for _nm in ('MonIORt.stdoutWrite', 'MonIORt.stdoutFlush'):
    H(_nm, ['K', ('L', 'K')], ('T', ('L', 'K'), ('L', 'I'), 'I'), rep(240, g_stdout), _stdout,
      'io.TextIOWrapper(raw, encoding=e).write(s) / .flush(): UnicodeEncodeError writes nothing; after flush() all of it is in raw',
      domain="encodings ascii / latin-1 / utf-8 as the encodable sets {<128}, {<256}, {code points except surrogates}")

for _attr, _kind in (('name', 'S'), ('ADDR_WIDTH', 'I'), ('BYTE_WIDTH', 'I'), ('ADDR_FORMAT', 'S'), ('BYTE_FORMAT', 'S'),
                     ('addrMask', 'I'), ('byteMask', 'I')):
    H('MonIORt.MpuCls.' + _attr, ['K', 'K'], _kind,
      (lambda a: (lambda rng: ((d, a) for d in ('6502', '65C02', '65Org16'))))(_attr),
      lambda dev, a: getattr(src('devices')[dev], a), 'getattr(py65.devices.<dev>.MPU(), %r)  (live instance of $PY65_REPO)' % _attr,
      wire='MonIORt.MpuCls', exhaustive=True, domain='the three device classes')


# ---------------------------------------------------------------------------------------
# ShowRt: rjust / zfill with any int width, str * n, split(sep)
# ---------------------------------------------------------------------------------------

def g_justi(rng):
    s, w, c = g_just(rng)
    return (s, rng.choice([w, w, -1, -5, -w]), c)


H('ShowRt.pyRjust', ['S', 'I', 'C'], 'S', rep(240, g_justi), lambda s, w, c: s.rjust(w, c), 's.rjust(w, c)')
H('ShowRt.pyZfill', ['S', 'I'], 'S', rep(240, lambda rng: g_justi(rng)[:2]), lambda s, w: s.zfill(w), 's.zfill(w)')
H('ShowRt.pyStrMul', ['S', 'I'], 'S', rep(220, lambda rng: (any_text(rng, 4), rng.choice([0, 1, 2, 3, -1, -7, 9, rng.randint(-3, 30)]))),
  lambda s, n: s * n, 's * n')


def g_splitchar(rng):
    sep = rng.choice([':', ':', ':', ',', ' ', 'a'])
    s = ''.join(rng.choice([sep, sep, 'a', 'b', '10', '', ' ', 'ff']) for _ in range(rng.randint(0, 7)))
    if rng.random() < 0.2:
        s = any_text(rng, 10)
    return (sep, s)


H('ShowRt.pySplitChar', ['C', 'S'], ('L', 'S'), rep(260, g_splitchar), lambda sep, s: s.split(sep), 's.split(sep)  (one-character sep)')


# ---------------------------------------------------------------------------------------
# MonCmd: shlex.split, re.findall of do_registers, cmd.Cmd.parseline / identchars
# ---------------------------------------------------------------------------------------

def g_shlex(rng):
    r = rng.random()
    parts = []
    for _ in range(rng.randint(0, 5)):
        k = rng.randrange(9)
        w = rs(rng, ALNUM + '$:+-#/.', 1, 5)
        if k == 0:
            parts.append('"%s"' % rng.choice([w, '', w + ' ' + w, 'a\\"b', 'a\\\\b', 'a\\nb', "it's", '\\']))
        elif k == 1:
            parts.append("'%s'" % rng.choice([w, '', w + ' ' + w, 'a\\b', 'say "x"', '\\']))
        elif k == 2:
            parts.append(w + rng.choice(['\\ ', '\\"', "\\'", '\\\\', '\\a']) + w)
        elif k == 3:
            parts.append(w + '"' + w + '"' + "'" + w + "'")
        elif k == 4:
            parts.append(rng.choice(['#', '#c', 'a#b', ';', '&', '|', '(', '\x00', '\x1c', '\v', '\f']))
        else:
            parts.append(w)
        parts.append(rng.choice([' ', ' ', '  ', '\t', '\n', '\r', '\r\n', '', '\v', '\x0c']))
    s = ''.join(parts)
    if r < 0.2:
        s = mutate(rng, s, '"\'\\ \t\nab')          # open quotes, trailing backslashes
    if r > 0.95:
        s = any_text(rng, 15)
    return (s,)


def _shlex(s):
    import shlex
    return shlex.split(s)


H('MonCmd.shlexSplit', ['S'], ('O', ('L', 'S')), rep(500, g_shlex), _shlex, 'shlex.split(s)', none_on=[ValueError])


def g_pairs(rng):
    r = rng.random()
    name = lambda: rng.choice(['a', 'x', 'y', 'pc', 'sp', 'p', '', 'foo', rs(rng, ALNUM, 1, 3)])
    val = lambda: rng.choice(['1', '$ff', '', 'foo+1', '%101', '1=2', rs(rng, ALNUM + '$+-%', 1, 4)])
    sep = lambda: rng.choice([',', ', ', ' ', '  ', ',,', '\t', '\n', '\x1c', '', '='])
    s = ''.join(name() + rng.choice(['=', '=', '=', ' = ', '==', '']) + val() + sep() for _ in range(rng.randint(0, 4)))
    if r > 0.85:
        s = mutate(rng, s, PRINT + WS_RE)
    if r > 0.97:
        s = any_text(rng)
    return (s,)


H('MonCmd.findPairs', ['S'], ('L', 'P'), rep(400, g_pairs), lambda s: re.findall(src('registers'), s),
  're.findall(<the pattern literal of Monitor.do_registers in $PY65_REPO>, s)')


def _cmd():
    import cmd
    return cmd.Cmd()


H('MonCmd.isIdentChar', ['C'], 'B', chars128, lambda c: c in _cmd().identchars, 'c in cmd.Cmd.identchars', exhaustive=True,
  domain='ASCII, all 128 characters')


def g_cmdline(rng):
    r = rng.random()
    word = rng.choice(['help', 'mem', 'q', 'a_b', 'x1', '', '?', '!', '?mem', '!ls', 'EOF', '~', '.', 'é'.encode('ascii', 'ignore').decode(), rs(rng, ALNUM + '_', 1, 5)])
    s = rng.choice(['', ' ', '\t', '\x1c']) + word + rng.choice(['', ' ', '  ', '\t', '$', '=']) + rng.choice(['', 'arg', 'a b ', ' 1:2 ', '\n']) + rng.choice(['', ' ', '\n', '\x1f'])
    if r > 0.85:
        s = mutate(rng, s, PRINT + WS_RE)
    if r > 0.95:
        s = any_text(rng)
    return (s,)


def _parseline(line):
    c, a, l = _cmd().parseline(line)
    if c is None and a is None:
        return 'empty' if l == '' else 'nocmd|' + hx(l)
    return 'cmd|%s|%s|%s' % (hx(c), hx(a), hx(l))


H('MonCmd.parseline', ['S'], 'K', rep(300, g_cmdline), _parseline, 'cmd.Cmd().parseline(line)  (no do_shell, as in Monitor)')


# ---------------------------------------------------------------------------------------
# Py: the integer operators
# ---------------------------------------------------------------------------------------

def g_xy(rng):
    return (rint(rng), rint(rng))


H('Py.land', ['I', 'I'], 'I', rep(300, g_xy), lambda x, y: x & y, 'x & y')
H('Py.lor', ['I', 'I'], 'I', rep(300, g_xy), lambda x, y: x | y, 'x | y')
H('Py.lxor', ['I', 'I'], 'I', rep(300, g_xy), lambda x, y: x ^ y, 'x ^ y')
H('Py.lnot', ['I'], 'I', rep(220, lambda rng: (rint(rng),)), lambda x: ~x, '~x')
_XK = lambda rng: (rint(rng), rng.choice([0, 1, 2, 7, 8, 15, 16, 31, 32, 63, 64, rng.randint(0, 130)]))
H('Py.shl', ['I', 'I'], 'I', rep(260, _XK), lambda x, k: x << k, 'x << k', domain='k >= 0 (a Nat: literal counts)')
H('Py.shr', ['I', 'I'], 'I', rep(260, _XK), lambda x, k: x >> k, 'x >> k', domain='k >= 0')


# ---------------------------------------------------------------------------------------
# domain filters for the shrinker: a shrunk input must stay inside the helper's documented domain
# (the generators only produce inputs inside it; see each helper's `domain` text)
# ---------------------------------------------------------------------------------------

def _ok(names, f):
    for nm in names:
        HELPERS[nm].ok = f


_ok(['PyStr.pyIntL', 'PyStr.pyInt', 'PyRt.int', 'AsmRt.int'], lambda s, b: b >= 1)
_ok(['PyStr.toDigits'], lambda b, n: 2 <= b <= 36 and n >= 0)
_ok(['Py.listSetItem'], lambda l, i, v: 0 <= i < len(l))
_ok(['ObsMem.clampBound'], lambda n, lo, up, x: n >= 0 and (lo, up) in ((0, n), (-1, n - 1)))
_ok(['ObsMem.pyRange', 'ObsMem.rangeLen'], lambda a, b, c: c != 0)
_ok(['GenRt.dictGet'], lambda ks, vs, x: len(set(ks)) == len(ks) == len(vs))
_ok(['Asm.decVal'], lambda s: s != '' and s.isdigit())
_ok(['GenRt.intDigits', 'Show.digitsInt'], lambda b, n: b in (2, 10, 16))
_ok(['GenRt.fracOfDiv', 'GenRt.fracToInt', 'AsmRt.truedivD'], lambda a, b: b > 0)
_ok(['GenRt.fracAddInt'], lambda n, a, b: b > 0)
_ok(['MonGenRt.pyNormIndex'], lambda n, i: -n <= i < n)
_ok(['MonMemRt.pySliceFromStep'], lambda l, i, st: st >= 1)
_ok(['MonMemRt.everyNth'], lambda st, n, l: st >= 1 and n == len(l))
_ok(['MonIORt.insertSorted'], lambda x, l: l == sorted(l))
_ok(['MonIORt.pyOrd'], lambda l: all(0 <= c <= 0x10ffff for c in l))
_ok(['MonIORt.utf8Decode'], lambda bs: all(0 <= b <= 255 for b in bs))
_ok(['MonMemRt.pyFileWrite'], lambda nm, a, b: all(0 <= x <= 255 for x in a + b))
_ok(['MonMem.words'], lambda s: all(c in HEXD + ' :' for c in s))
_ok(['GenRt.pyReprStr'], lambda s: all(c in _REPR_OK for c in s))
_ok(['MonIORt.pyChr'], lambda v: abs(v) < 2 ** 31)
_ok(['MonGenRt.pyLstripChars', 'MonGenRt.pyRstripChars', 'MonGenRt.pyStripChars'], lambda cs, s: True)
_ok(['Py.listSliceAssign'], lambda l, lo, hi, vals: lo >= 0 and hi >= 0)
_ok(['ObsMem.sliceRange', 'ObsMem.sliceIndices', 'ObsMem.sliceTriple'], lambda a, b, c, n: n >= 0)
