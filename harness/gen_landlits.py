#!/usr/bin/env python3
"""Generate lean/Py65/Proofs/LandLits.lean: `Py.land x LIT` for the literal masks that occur in
the device code after configuration constants are substituted (both byte widths).  One-off
generator; its output is an ordinary, kernel-checked Lean file."""
import sys

SINGLE = sorted(set([1 << i for i in range(0, 16)] ))
MULTI = [130, 131, 194, 195, 192, 48, 254, 253, 251, 247, 239, 223, 191, 127,
         32770, 32771, 49154, 49155, 49152]
MOD = [(1, 2), (3, 4), (15, 16), (255, 256), (65535, 65536), (4294967295, 4294967296)]
HIGH = [(0xFF00, 65536, 256, 8), (0xFFFF0000, 4294967296, 65536, 16)]

out = ['''/- GENERATED ONCE by harness/gen_landlits.py (static file; proofs are checked by the kernel).
   `Py.land x LIT` as linear arithmetic, for every sign of `x`. -/
import Py65.Proofs.PyIntLemmas
import Py65.Proofs.Attr

namespace Py
''']
for m in SINGLE:
    k = m.bit_length() - 1
    if m == 1:
        out.append('theorem land_lit_1 (x : Int) : land x 1 = x % 2 := by\n'
                   '  have := land_mask x 1; simpa using this\n')
    else:
        out.append('theorem land_lit_%d (x : Int) : land x %d = x / %d %% 2 * %d := by\n'
                   '  have := land_two_pow x %d; simpa using this\n' % (m, m, m, m, k))
for mask, mod in MOD[1:]:
    k = mod.bit_length() - 1
    out.append('theorem land_lit_%d (x : Int) : land x %d = x %% %d := by\n'
               '  have := land_mask x %d; simpa using this\n' % (mask, mask, mod, k))
for mask, mod in MOD[1:]:
    out.append('theorem land_lit_%d_left (x : Int) : land %d x = x %% %d := by\n'
               '  rw [land_comm]; exact land_lit_%d x\n' % (mask, mask, mod, mask))
for mask, hi, lo, k in HIGH:
    out.append('theorem land_lit_%d (x : Int) : land x %d = x %% %d - x %% %d := by\n'
               '  have h := land_add_disjoint x %d %d %d (by decide) (by decide) (by decide) (by decide)\n'
               '  have e : (%d : Int) + %d = %d := by decide\n'
               '  rw [e] at h\n'
               '  have h1 := land_lit_%d x\n  have h2 := land_lit_%d x\n  omega\n'
               % (mask, mask, hi, lo, mask, lo - 1, k, mask, lo - 1, hi - 1, hi - 1, lo - 1))
done = set(SINGLE) | {m for m, _ in MOD}
for mask in MULTI:
    bits = [i for i in range(40) if mask >> i & 1]
    terms = ' + '.join('x / %d %% 2 * %d' % (1 << i, 1 << i) if i > 0 else 'x % 2' for i in bits)
    lines = ['theorem land_lit_%d (x : Int) : land x %d = %s := by' % (mask, mask, terms)]
    rest = mask
    n = 0
    # peel top bits
    while bin(rest).count('1') > 1:
        k = rest.bit_length() - 1
        top = 1 << k
        low = rest - top
        n += 1
        lines.append('  have a%d := land_add_disjoint x %d %d %d (by decide) (by decide) (by decide) (by decide)'
                     % (n, top, low, k))
        lines.append('  have e%d : (%d : Int) + %d = %d := by decide' % (n, top, low, rest))
        lines.append('  rw [e%d] at a%d' % (n, n))
        rest = low
    for i in bits:
        lines.append('  have b%d := land_lit_%d x' % (i, 1 << i))
    lines.append('  omega')
    out.append('\n'.join(lines) + '\n')

# lor / lxor with a literal, bit extraction at literal positions
for m in sorted(set(SINGLE + [3, 48])):
    out.append('theorem lor_lit_%d (x : Int) : lor x %d = x + %d - land x %d := lor_eq x %d\n' % (m, m, m, m, m))
for m in (255, 65535):
    out.append('theorem lxor_lit_%d (x : Int) : lxor x %d = x + %d - 2 * land x %d := lxor_eq x %d\n' % (m, m, m, m, m))
for k in range(0, 16):
    d = 1 << k
    dv = 'x / %d' % d if k else 'x'
    for nm, rhs in (('land', 'min (X % 2) (Y % 2)'), ('lor', 'max (X % 2) (Y % 2)'),
                    ('lxor', '(X % 2 + Y % 2) % 2')):
        X = 'x / %d' % d if k else 'x'
        Y = 'y / %d' % d if k else 'y'
        L = '%s x y / %d' % (nm, d) if k else '%s x y' % nm
        out.append('theorem bitv_%s_%d (x y : Int) : %s %% 2 = %s := by\n  have := bitv_%s x y %d; simpa using this\n'
                   % (nm, d, L, rhs.replace('X', X).replace('Y', Y), nm, k))
    L = 'lnot x / %d' % d if k else 'lnot x'
    X = 'x / %d' % d if k else 'x'
    out.append('theorem bitv_lnot_%d (x : Int) : %s %% 2 = 1 - %s %% 2 := by\n  have := bitv_lnot x %d; simpa using this\n'
               % (d, L, X, k))
out.append('end Py\n')
txt = '\n'.join(out).replace('\ntheorem ', '\n@[pyarith] theorem ')
open(sys.argv[1], 'w').write(txt)
