#!/usr/bin/env python3
"""Mutation test of the tie by regeneration of the monitor's memory COMMAND FRONT ENDS
(notes/memcmd-gen-tie.md; unit `memcmd`: do_fill / do_load / do_save / do_mem): apply one textual edit to a
scratch copy of py65/monitor.py, run `bin/check C16 --tier quick` with PY65_REPO pointing at the copy, restore.

    MUT_REPO=/tmp/ext/memcmd/mut notes/mutate_memcmd_gen_tie.py [names...]

The scratch tree is created (cp -r /repo/py65) if missing.  Afterwards run the check once on the unchanged
/repo (or bin/regen): that restores lean/Py65/Gen/MonMemGen.lean and the evidence."""
import os
import re
import subprocess
import sys

VERIF = os.path.dirname(os.path.dirname(os.path.abspath(__file__)))
MUT = os.environ.get('MUT_REPO', '/tmp/ext/memcmd/mut')
if not os.path.isdir(os.path.join(MUT, 'py65')):
    os.makedirs(MUT, exist_ok=True)
    subprocess.check_call(['cp', '-r', '/repo/py65', os.path.join(MUT, 'py65')])
SRC = os.path.join(MUT, 'py65', 'monitor.py')
ORIG = open('/repo/py65/monitor.py').read()

M = {}


def mut(name, old, new, count=1):
    M[name] = (old, new, count)


# ---- semantic mutations (each must end in a VIOLATION line)
mut('M01-fill-value-ge-bytemask', "if value > self.byteMask:", "if value >= self.byteMask:")
mut('M02-fill-arity-lt-1', "        split = shlex.split(args)\n        if len(split) < 2:\n            return self.help_fill()",
    "        split = shlex.split(args)\n        if len(split) < 1:\n            return self.help_fill()")
mut('M03-load-top-no-plus-1', "start = top_address - program_size + 1", "start = top_address - program_size")
mut('M04-load-size-in-octets', "program_size = len(bytes) // (self.byteWidth // 8)", "program_size = len(bytes)")
mut('M05-load-pairing-swapped', "                    return (msb << 8) + lsb\n", "                    return (lsb << 8) + msb\n")
mut('M06-save-range-exclusive', "mem = [self._mpu.memory[addr] for addr in range(start, end + 1)]",
    "mem = [self._mpu.memory[addr] for addr in range(start, end)]")
mut('M07-save-octet-loop-stops-early', "for shift in range(self.byteWidth - 8, -1, -8):",
    "for shift in range(self.byteWidth - 8, 0, -8):")
mut('M08-mem-wrap-ge', "exceeded = len(line) + len(more) > self._width", "exceeded = len(line) + len(more) >= self._width")
mut('M09-mem-read-16bit-address', "            byte = self._mpu.memory[address]\n", "            byte = self._mpu.memory[address & 0xffff]\n")
mut('M10-save-octet-mask-7f', "f.write(bytearray([(m >> shift) & 0xff]))", "f.write(bytearray([(m >> shift) & 0x7f]))")
mut('M11-mem-range-exclusive', "for address in range(start, end + 1):\n            byte", "for address in range(start, end):\n            byte")
mut('M12-load-fill-two-address-range', "self._fill(start, start, bytes)", "self._fill(start, start + 1, bytes)")
mut('M13-load-arity-accepts-3', "if len(split) not in (1, 2):", "if len(split) not in (1, 2, 3):")
mut('M14-fill-overflow-swallowed', "            self._output(\"Overflow: $%x\" % exc.args[0])\n",
    "            self._output(\"Overflow: $%x\" % exc.args[0])\n            self._fill(0, 0, [0])\n")
mut('M15-save-count-plus-1', "self._output(\"Saved +%d bytes to %s\" % (len(mem), filename))",
    "self._output(\"Saved +%d bytes to %s\" % (len(mem) + 1, filename))")
mut('M16-load-default-not-pc', "        else:\n            start = self._mpu.pc\n\n        if self.byteWidth == 8:",
    "        else:\n            start = 0\n\n        if self.byteWidth == 8:")
mut('M17-mem-cache-attribute', "            byte = self._mpu.memory[address]\n",
    "            byte = self._mem_cache.get(address, self._mpu.memory[address]) if hasattr(self, '_mem_cache') else self._mpu.memory[address]\n")
# ---- harmless edits (each must be accepted silently: `C16 OK`)
for h in ('H1-rename-fill-locals', 'H2-rename-load-locals', 'H3-rename-save-locals', 'H4-rename-mem-locals',
          'H5-comments-docstrings-rewrap'):
    mut(h, None, None)


def harmless(name, s):
    def infunc(s, fname, f):
        a = s.index('    def %s(' % fname)
        b = s.index('\n    def ', a + 1)
        return s[:a] + f(s[a:b]) + s[b:]

    def ren(t, pairs):
        for a, b in pairs:
            t = re.sub(r'\b%s\b' % a, b, t)
        return t
    if name.startswith('H1'):
        return infunc(s, 'do_fill', lambda t: ren(t, [('filler', 'data'), ('piece', 'tok'), ('value', 'val')]))
    if name.startswith('H2'):
        return infunc(s, 'do_load', lambda t: ren(t, [('top_address', 'top'), ('program_size', 'nwords'), ('msb', 'hi'),
                                                      ('lsb', 'lo'), ('msg', 'text'), ('filename', 'fname')]))
    if name.startswith('H3'):
        return infunc(s, 'do_save', lambda t: ren(t, [('mem', 'cells'), ('m', 'cell'), ('shift', 'sh'), ('addr', 'a'),
                                                      ('msg', 'text')]))
    if name.startswith('H4'):
        return infunc(s, 'do_mem', lambda t: ren(t, [('line', 'cur'), ('more', 'extra'), ('byte', 'val'),
                                                     ('exceeded', 'over')]))
    if name.startswith('H5'):
        s = s.replace("    def do_fill(self, args):\n", "    def do_fill(self, args):\n        \"\"\"fill <range> <data...> (docstring added by the mutation test)\"\"\"\n        # tokenise\n")
        s = s.replace("                if value > self.byteMask:\n", "                if (value >\n                        self.byteMask):  # too wide for a cell\n")
        s = s.replace("    def do_save(self, args):\n", "    def do_save(self, args):\n        '''save \"file\" start end'''\n\n")
        s = s.replace("        mem = [self._mpu.memory[addr] for addr in range(start, end + 1)]\n",
                      "        mem = [self._mpu.memory[addr]\n               for addr in range(start,\n                                 end + 1)]   # cell by cell\n")
        s = s.replace("            exceeded = len(line) + len(more) > self._width\n",
                      "            # wrap?\n            exceeded = (len(line) + len(more)\n                        > self._width)\n")
        s = s.replace("        if len(split) not in (1, 2):\n", "        if len(split) not in (1,\n                              2):\n")
        s = s.replace("                program_size = len(bytes) // (self.byteWidth // 8)\n",
                      "                program_size = (len(bytes) //\n                                (self.byteWidth // 8))  # words\n")
        return s
    raise KeyError(name)


def run(name):
    old, new, count = M[name]
    if old is None:
        s = harmless(name, ORIG)
        assert s != ORIG, name
    else:
        assert ORIG.count(old) == count, (name, ORIG.count(old))
        s = ORIG.replace(old, new)
    compile(s, 'monitor.py', 'exec')
    open(SRC, 'w').write(s)
    try:
        env = dict(os.environ, PY65_REPO=MUT, VERIF_SEED=os.environ.get('VERIF_SEED', '0'))
        p = subprocess.run([os.path.join(VERIF, 'bin', 'check'), 'C16', '--tier', 'quick'], cwd=VERIF, env=env,
                           stdout=subprocess.PIPE, stderr=subprocess.STDOUT)
        out = p.stdout.decode('utf-8', 'replace').strip().split('\n')
        keep = [l for l in out if l.startswith(('VIOLATION', 'KNOWN', '  broken', '  first failing', 'C16 OK', 'C16 FAIL'))
                or 'translator' in l]
        print('=== %s rc=%d' % (name, p.returncode))
        for l in keep:
            print('   ' + l[:600])
        sys.stdout.flush()
    finally:
        open(SRC, 'w').write(ORIG)


if __name__ == '__main__':
    for n in (sys.argv[1:] or list(M)):
        run(n)
