#!/usr/bin/env python3
"""Mutation test of the C18 tie by regeneration (notes/io-gen-tie.md): apply one textual edit to a scratch
copy of py65/monitor.py (the copy lives in $MUT_REPO/py65, default /tmp/ext/io/mut/py65), run the C18 check
with PY65_REPO=$MUT_REPO, restore.

    notes/mutate_io_gen_tie.py [names...]        (no names: all)

Afterwards the translator is run once against /repo (restores lean/Py65/Gen/MonIOGen.lean) and the three
Lean modules are rebuilt.  VERIF_EXTRA_ROUNDS (default here: 1) bounds the extra exploration rounds the
check makes when a tie is broken and nothing concrete was found."""
import json
import os
import re
import shutil
import subprocess
import sys
import time

VERIF = os.path.dirname(os.path.dirname(os.path.abspath(__file__)))
MUT = os.environ.get('MUT_REPO', '/tmp/ext/io/mut')
REPO = '/repo'
if not os.path.isdir(os.path.join(MUT, 'py65')):
    os.makedirs(MUT, exist_ok=True)
    shutil.copytree(os.path.join(REPO, 'py65'), os.path.join(MUT, 'py65'))
FILES = ['monitor.py', 'utils/console.py', 'compat.py']
ORIG = dict((f, open(os.path.join(REPO, 'py65', f)).read()) for f in FILES)

M = {}
ORDER = []


def mut(name, edits, what, file='monitor.py'):
    """edits: list of (old, new) textual replacements, each `old` occurring exactly once; or a tag of harmless()"""
    M[name] = (edits, what, file)
    ORDER.append(name)


SUBW = "        m.subscribe_to_write([self.putc_addr], putc)\n"
SUBR = "        m.subscribe_to_read([self.getc_addr], getc)\n"
DO_RESET = "        self._reset(klass, self.getc_addr, self.putc_addr)\n"
DO_MPU = "                self._reset(new_mpu,self.getc_addr,self.putc_addr)\n"

# ---- semantic mutations (every one must end in a VIOLATION line)
mut('S01-subscribe-params+reset-drops-addrs',
    [(SUBW, "        m.subscribe_to_write([putc_addr], putc)\n"), (SUBR, "        m.subscribe_to_read([getc_addr], getc)\n"),
     (DO_RESET, "        self._reset(klass)\n")],
    'observers subscribed at the PARAMETERS and do_reset passes the defaults (the original defect)')
mut('S02-subscribe-params-only',
    [(SUBW, "        m.subscribe_to_write([putc_addr], putc)\n"), (SUBR, "        m.subscribe_to_read([getc_addr], getc)\n")],
    'observers subscribed at the parameters; every caller passes the attributes (unobservable)')
mut('S03-reset-drops-addrs-only', [(DO_RESET, "        self._reset(klass)\n")],
    'do_reset passes the default addresses to _reset (only the None test sees them)')
mut('S04-truthiness-test',
    [("        if getc_addr is not None and putc_addr is not None:\n", "        if getc_addr and putc_addr:\n")],
    '_reset tests truthiness: address 0 switches character I/O off')
mut('S05-getc-skips-cr',
    [("            if char:\n                byte = ord(char)\n", "            if char and char != '\\r':\n                byte = ord(char)\n")],
    'getc delivers 0 for a carriage return / line feed')
mut('S06-putc-writes-twice',
    [("                self.stdout.write(chr(value))\n", "                self.stdout.write(chr(value))\n                self.stdout.write(chr(value))\n")],
    'putc writes the character twice')
mut('S07-putc-no-flush', [("            self.stdout.flush()\n\n        def getc", "\n        def getc")],
    'putc does not flush (not observable on a StringIO)')
mut('S08-do-mpu-drops-addrs', [(DO_MPU, "                self._reset(new_mpu)\n")],
    'do_mpu passes the default addresses to _reset')
mut('S09-get-mpu-case-sensitive', [("            if key.lower() == requested:\n", "            if key == name:\n")],
    '_get_mpu compares case-sensitively')
mut('S10-input-base-10', [("                self.getc_addr = int(value, 16)\n", "                self.getc_addr = int(value, 10)\n")],
    '-i parsed with base 10')
mut('S11-output-option-sets-input',
    [("                self.putc_addr = int(value, 16)\n", "                self.getc_addr = int(value, 16)\n")],
    '-o stores into getc_addr')
mut('S12-reset-keeps-disassembler',
    [("        self._disassembler = Disassembler(self._mpu, self._address_parser)\n", "")],
    '_reset does not re-create the disassembler (C19 territory; not observable through C18)')
mut('S13-getc-idle-value', [("            else:\n                byte = 0\n            return byte\n",
                             "            else:\n                byte = 0xff\n            return byte\n")],
    'getc answers $FF when nothing is pending')
mut('S14-default-putc-addr', [("                       putc_addr=0xF001, getc_addr=0xF004):\n",
                               "                       putc_addr=0xF002, getc_addr=0xF004):\n")],
    'the default output address of the constructor is $F002')
mut('S15-table-wrong-class', [("    Microprocessors = {'6502': NMOS6502, '65C02': CMOS65C02,\n",
                               "    Microprocessors = {'6502': NMOS6502, '65C02': NMOS6502,\n")],
    "'65C02' names the NMOS class (same widths: not observable through C18)")
mut('S16-putc-7-bit', [("                self.stdout.write(chr(value))\n", "                self.stdout.write(chr(value & 0x7f))\n")],
    'putc strips bit 7')
mut('S17-reset-uses-attribute-class',
    [("        klass = self._mpu.__class__\n", "        klass = self.mpu_type\n")],
    'do_reset resets to the class chosen at start-up, not the current one')
mut('S18-observers-in-do-reset-only',
    [("        if getc_addr is not None and putc_addr is not None:\n            self._install_mpu_observers(getc_addr, putc_addr)\n", ""),
     (DO_RESET, DO_RESET + "        self._install_mpu_observers(self.getc_addr, self.putc_addr)\n")],
    '_install_mpu_observers is called from do_reset instead of _reset')
# ---- the console side (py65/utils/console.py POSIX getch_noblock, py65/compat.py as_string)
NOBLOCK = ("            if rd != []:\n                char = as_string(stdin.read(1), 'latin-1')\n        except KeyboardInterrupt:\n"
           "            # Pass along a CTRL-C interrupt.\n            raise\n        except:\n            pass\n\n"
           "        # Convert linefeeds to carriage returns.\n")
mut('C01-console-utf8', [(NOBLOCK, NOBLOCK.replace("'latin-1'", "'utf-8'"))],
    'getch_noblock decodes the byte with utf-8 (the seeded defect: bytes >= 0x80 come out as 0)', 'utils/console.py')
mut('C02-console-default-codec', [(NOBLOCK, NOBLOCK.replace("as_string(stdin.read(1), 'latin-1')", "as_string(stdin.read(1))"))],
    'getch_noblock uses the default codec of as_string (utf-8)', 'utils/console.py')
mut('C03-console-codec-alias', [(NOBLOCK, NOBLOCK.replace("'latin-1'", "'latin1'"))],
    "codec alias 'latin1' (same behaviour; not a literal the run-time model knows)", 'utils/console.py')
mut('C04-console-no-lf-to-cr', [("        if len(char) and ord(char) == 10:\n            char = '\\r'\n        return char\n\n\ndef line_input",
                                  "        return char\n\n\ndef line_input")],
    'getch_noblock does not turn LF into CR', 'utils/console.py')
mut('C05-console-swallows-ctrl-c', [(NOBLOCK, NOBLOCK.replace("        except KeyboardInterrupt:\n            # Pass along a CTRL-C interrupt.\n            raise\n", ""))],
    'getch_noblock swallows KeyboardInterrupt (not exercised by the exploration)', 'utils/console.py')
mut('C06-compat-ignores-codec', [("    def as_string(s, encoding='utf-8'):\n        if isinstance(s, str):\n            return s\n        else:\n            return s.decode(encoding)\n",
                                   "    def as_string(s, encoding='utf-8'):\n        if isinstance(s, str):\n            return s\n        else:\n            return s.decode('utf-8')\n")],
    'as_string (Python 3) ignores its codec argument', 'compat.py')
mut('C07-console-reads-two', [(NOBLOCK, NOBLOCK.replace("stdin.read(1)", "stdin.read(2)"))],
    'getch_noblock reads two bytes per call', 'utils/console.py')
# ---- harmless edits (must be accepted silently: C18 OK)
mut('H1-rename-closure-locals', 'H1', 'consistent renames in putc / getc / _get_mpu (parameters of the closures included)')
mut('H2-comments-docstrings-rewrap', 'H2', 'comments, docstrings, re-wrapped lines in _reset, _install_mpu_observers, _parse_args')
mut('H3-rename-parse-args-locals', 'H3', 'consistent renames of locals in _parse_args, do_mpu, do_reset, __init__')
mut('H4-rename-memory-local+blank-lines', 'H4', 'local m renamed in _install_mpu_observers, blank lines, parenthesised tests')
mut('H5-subscribe-read-first', [(SUBW + SUBR, SUBR + SUBW)],
    'the two subscriptions swapped (read first): the same memory object')
mut('H6-console-renames-comments', 'H6', 'getch_noblock: locals renamed, comments, re-wrapped call; as_string: docstring',
    'utils/console.py')


def infunc(s, fname, f):
    a = s.index('    def %s(' % fname)
    b = s.index('\n    def ', a + 1)
    return s[:a] + f(s[a:b]) + s[b:]


def rn(t, pairs):
    for a, b in pairs:
        t = re.sub(r'(?<![\w.])%s\b' % re.escape(a), b, t)
    return t


def harmless(tag, s):
    if tag == 'H1':
        def f(t):
            a = t.index('        def putc(')
            b = t.index('        m = ObservableMemory')
            return t[:a] + rn(t[a:b], [('address', 'addr'), ('value', 'val'), ('char', 'ch'), ('byte', 'code')]) + t[b:]
        s = infunc(s, '_install_mpu_observers', f)
        return infunc(s, '_get_mpu', lambda t: rn(t, [('requested', 'wanted'), ('klass', 'k'), ('mpu', 'found'), ('key', 'nm')]))
    if tag == 'H2':
        s = s.replace("    def _reset(self, mpu_type, getc_addr=0xF004, putc_addr=0xF001):\n",
                      "    def _reset(self, mpu_type, getc_addr=0xF004, putc_addr=0xF001):\n"
                      "        \"\"\"Build a new device (docstring added by the mutation test).\"\"\"\n        # the device\n")
        s = s.replace("        if getc_addr is not None and putc_addr is not None:\n",
                      "        if (getc_addr is not None\n                and putc_addr is not None):  # 0 is an address\n")
        s = s.replace("    def _install_mpu_observers(self, getc_addr, putc_addr):\n",
                      "    def _install_mpu_observers(self, getc_addr, putc_addr):\n        '''Map the two I/O registers.'''\n")
        s = s.replace("        m = ObservableMemory(subject=self.memory, addrWidth=self.addrWidth)\n",
                      "        m = ObservableMemory(subject=self.memory,\n                             addrWidth=self.addrWidth)  # new wrapper\n")
        s = s.replace("            if opt in ('-i', '--input'):\n", "            # input address\n            if opt in ('-i',\n                       '--input'):\n")
        s = s.replace("                self.putc_addr = int(value, 16)\n", "                self.putc_addr = int(value,\n                                     16)\n")
        return s
    if tag == 'H3':
        s = infunc(s, '_parse_args', lambda t: rn(t, [('opt', 'o'), ('value', 'v'), ('mpus', 'names'), ('msg', 'text'),
                                                       ('options', 'opts'), ('args', 'leftover'), ('mpu_type', 'klass'),
                                                       ('shortopts', 'so'), ('longopts', 'lo'), ('exc', 'err')]))
        s = infunc(s, 'do_mpu', lambda t: rn(t, [('new_mpu', 'chosen'), ('mpus', 'names')]))
        s = infunc(s, 'do_reset', lambda t: rn(t, [('klass', 'k')]))
        s = s.replace("            load, rom, goto = self._parse_args(argv)\n", "            ld, rm, gt = self._parse_args(argv)\n")
        s = s.replace("            if load is not None:\n                self.do_load(\"%r\" % load)\n",
                      "            if ld is not None:\n                self.do_load(\"%r\" % ld)\n")
        s = s.replace("            if goto is not None:\n                self.do_goto(goto)\n",
                      "            if gt is not None:\n                self.do_goto(gt)\n")
        s = s.replace("            if rom is not None:\n                # load a ROM and run from the reset vector\n                self.do_load(\"%r top\" % rom)\n",
                      "            if rm is not None:\n                # load a ROM and run from the reset vector\n                self.do_load(\"%r top\" % rm)\n")
        return s
    if tag == 'H4':
        s = infunc(s, '_install_mpu_observers', lambda t: rn(t, [('m', 'wrapped')]).replace(
            "            if char:\n", "\n            if (char):\n"))
        s = s.replace("        if args == '':\n            self._output(\"Current MPU is %s\" % self._mpu.name)\n",
                      "        if (args == ''):\n\n            self._output(\"Current MPU is %s\"\n                         % self._mpu.name)\n")
        return s
    if tag == 'H6':
        a = s.index("    def getch_noblock(stdin):\n        \"\"\" Read one character from stdin without blocking.")
        b = s.index("def line_input")
        t = rn(s[a:b], [('char', 'ch'), ('rd', 'ready'), ('wr', 'w_'), ('er', 'x_')])
        t = t.replace("                ch = as_string(stdin.read(1), 'latin-1')\n",
                      "                # one byte, every value is a character\n                ch = as_string(stdin.read(1),\n                               'latin-1')\n")
        return s[:a] + t + s[b:]
    raise KeyError(tag)


def apply(name):
    edits, _, f = M[name]
    if isinstance(edits, str):
        s = harmless(edits, ORIG[f])
    else:
        s = ORIG[f]
        for old, new in edits:
            assert s.count(old) == 1, (name, old, s.count(old))
            s = s.replace(old, new)
    assert s != ORIG[f], name
    compile(s, f, 'exec')
    return s


def src(f):
    return os.path.join(MUT, 'py65', f)


def regen_pinned():
    """lean/Py65/Gen/{MonIOGen,ConsoleGen}.lean := translation of /repo (so that a refusal leaves the pinned text)"""
    subprocess.check_call([sys.executable, os.path.join(VERIF, 'harness', 'py2lean_monio.py'), '--out',
                           os.path.join(VERIF, 'lean', 'Py65', 'Gen')], env=dict(os.environ, PY65_REPO=REPO))


def run(name):
    regen_pinned()
    s = apply(name)
    f = M[name][2]
    open(src(f), 'w').write(s)
    t0 = time.time()
    try:
        env = dict(os.environ, PY65_REPO=MUT, VERIF_SEED=os.environ.get('VERIF_SEED', '0'),
                   VERIF_EXTRA_ROUNDS=os.environ.get('VERIF_EXTRA_ROUNDS', '1'))
        p = subprocess.run([os.path.join(VERIF, 'bin', 'check'), 'C18', '--tier', 'quick'], cwd=VERIF, env=env,
                           stdout=subprocess.PIPE, stderr=subprocess.STDOUT)
        out = p.stdout.decode('utf-8', 'replace').strip().split('\n')
        keep = [l for l in out if l.startswith(('VIOLATION', 'KNOWN', '  broken', '  first failing', 'C18 OK', 'C18 FAIL'))
                or 'translator' in l]
        print('=== %s rc=%d %.0fs  (%s)' % (name, p.returncode, time.time() - t0, M[name][1]))
        for l in keep:
            print('   ' + l[:460])
        sys.stdout.flush()
        return p.returncode, keep
    finally:
        open(src(f), 'w').write(ORIG[f])


def restore():
    regen_pinned()
    subprocess.call(['lake', 'build', 'Py65.Props.C18', 'Py65.Proofs.MonIOGenEq', 'Py65.Props.C18g',
                     'Py65.Proofs.ConsoleGenEq', 'Py65.Props.C18gc'],
                    cwd=os.path.join(VERIF, 'lean'), stdout=subprocess.DEVNULL)


if __name__ == '__main__':
    names = sys.argv[1:] or ORDER
    res = {}
    try:
        for n in names:
            res[n] = run(n)
    finally:
        restore()
    print(json.dumps(dict((n, dict(rc=r[0], verdict=[l for l in r[1] if l.startswith(('VIOLATION', 'C18 '))]))
                          for n, r in res.items()), indent=1))
