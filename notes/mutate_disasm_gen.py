#!/usr/bin/env python3
"""mutation driver for the disassembler tie (notes/disasm-gen-tie.md): mutate_disasm_gen.py <name> <check>;
restores the scratch copy from /repo before and after; see MUT for the names"""
import os, shutil, subprocess, sys, time
SRC = '/repo'
DST = os.environ.get('MUT_REPO', '/tmp/repo_mut')   # scratch copy: cp -r /repo $MUT_REPO first
VERIF = os.environ.get('VERIF', '/verif')
FILES=['py65/disassembler.py','py65/utils/conversions.py','py65/utils/addressing.py','py65/monitor.py']
def restore():
    for f in FILES:
        shutil.copy(os.path.join(SRC,f), os.path.join(DST,f))
def sub(f, old, new, count=1):
    p=os.path.join(DST,f); s=open(p).read()
    assert s.count(old)>=1, (f, old)
    s=s.replace(old,new,count); open(p,'w').write(s)
def resub(f, pat, new):
    import re
    p=os.path.join(DST,f); s=open(p).read()
    s2=re.sub(pat,new,s); assert s2!=s; open(p,'w').write(s2)
M='py65/monitor.py'; D='py65/disassembler.py'; C='py65/utils/conversions.py'; A='py65/utils/addressing.py'
MUT={
 'm1_abx_suffix': lambda: sub(D, "disasm += ' %s,X' % address_or_label\n            length = 3", "disasm += ' %s,Y' % address_or_label\n            length = 3"),
 'm2_ind_length': lambda: sub(D, "disasm += ' (%s)' % address_or_label\n            length = 3", "disasm += ' (%s)' % address_or_label\n            length = 2"),
 'm3_rel_drop_mask': lambda: sub(D, "            targ &= self.addrMask\n", ""),
 'm4_rel_sign_bit': lambda: sub(D, "if opv & (1 << (self.byteWidth - 1)):", "if opv & (1 << self.byteWidth):"),
 'm5_cache_attr': lambda: (sub(D, "        self.byteMask = mpu.byteMask\n", "        self.byteMask = mpu.byteMask\n        self._cache = {}\n"),
                           sub(D, "        instruction = self._mpu.ByteAt(pc)\n", "        if pc in self._cache:\n            return self._cache[pc]\n        instruction = self._mpu.ByteAt(pc)\n"),
                           sub(D, "        return (length, disasm)", "        self._cache[pc] = (length, disasm)\n        return (length, disasm)")),
 'm6_label_cmp': lambda: sub(A, "if label_address == address:", "if label_address >= address:"),
 'm7_itoa_swap': lambda: sub(C, '    2: "{0:b}",\n    10: "{0}",', '    2: "{0}",\n    10: "{0:b}",'),
 'm8_drop_zpi': lambda: sub(D, """        elif addressing == 'zpi':
            zp_address = self._mpu.ByteAt(pc + 1)
            address_or_label = self._address_parser.label_for(
                zp_address, '$' + self.byteFmt % zp_address)
            disasm += ' (%s)' % address_or_label
            length = 2

""", ""),
 'm9_rel_swap_stmts': lambda: sub(D, """            targ = pc + 2
            if opv & (1 << (self.byteWidth - 1)):
                targ -= (opv ^ self.byteMask) + 1
            else:
                targ += opv
            targ &= self.addrMask
""", """            targ = pc + 2
            targ &= self.addrMask
            if opv & (1 << (self.byteWidth - 1)):
                targ -= (opv ^ self.byteMask) + 1
            else:
                targ += opv
"""),
 'm10_itoa_fmt_unknown': lambda: sub(C, '16: "{0:x}"', '16: "{0:X}"'),
 'm11_wordat_offset': lambda: sub(D, "        elif addressing == 'abs':\n            address = self._mpu.WordAt(pc + 1)", "        elif addressing == 'abs':\n            address = self._mpu.WordAt(pc + 2)"),
 'm12_imm_fmt': lambda: sub(D, "disasm += ' #$' + self.byteFmt % byte", "disasm += ' #$' + self.addrFmt % byte"),
 'm13_label_last': lambda: sub(A, """        for label, label_address in self.labels.items():
            if label_address == address:
                return label
        return default""", """        found = default
        for label, label_address in self.labels.items():
            if label_address == address:
                found = label
        return found"""),
 # harmless
 'h1_rename_locals': lambda: (sub(D, "address_or_label", "aol", 99), sub(D, "opv", "operand_value", 99), sub(D, "zp_address", "zp", 99), sub(A, "label_address", "la", 99), sub(C, "fmt = ", "the_format = ", 99), sub(C, "if fmt is", "if the_format is"), sub(C, "return fmt.format", "return the_format.format")),
 'h2_comments_reformat': lambda: (sub(D, "        instruction = self._mpu.ByteAt(pc)\n", "        # fetch the opcode\n\n        instruction = self._mpu.ByteAt(\n            pc)   # opcode byte\n"),
                                  sub(D, "        if addressing == 'acc':\n            disasm += ' A'", "        if addressing == \"acc\":  # accumulator\n            '''docstring-like statement'''\n            disasm +=     ' A'"),
                                  sub(C, "    fmt = _itoa_fmts.get(base)\n", "    # look up\n    fmt = _itoa_fmts.get( base )\n"),
                                  sub(A, "        return default\n", "        return default  # nothing found\n")),
 'h3_swap_disjoint_arms': lambda: sub(D, """        elif addressing == 'zpx':
            zp_address = self._mpu.ByteAt(pc + 1)
            address_or_label = self._address_parser.label_for(
                zp_address, '$' + self.byteFmt % zp_address)
            disasm += ' %s,X' % address_or_label
            length = 2

        elif addressing == 'zpy':
            zp_address = self._mpu.ByteAt(pc + 1)
            address_or_label = self._address_parser.label_for(
                zp_address, '$' + self.byteFmt % zp_address)
            disasm += ' %s,Y' % address_or_label
            length = 2
""", """        elif addressing == 'zpy':
            zp_address = self._mpu.ByteAt(pc + 1)
            address_or_label = self._address_parser.label_for(
                zp_address, '$' + self.byteFmt % zp_address)
            disasm += ' %s,Y' % address_or_label
            length = 2

        elif addressing == 'zpx':
            zp_address = self._mpu.ByteAt(pc + 1)
            address_or_label = self._address_parser.label_for(
                zp_address, '$' + self.byteFmt % zp_address)
            disasm += ' %s,X' % address_or_label
            length = 2
"""),
 'h4_rename_param_reserved': lambda: resub(D, r'\bpc\b', 'where'),
 'm14_wrap_to_one': lambda: sub(M, "            if cur_address > max_address:\n                cur_address = 0\n            dump +=", "            if cur_address > max_address:\n                cur_address = 1\n            dump +="),
 'm15_fieldwidth': lambda: sub(M, "fieldwidth = 1 + int(1 + self.byteWidth / 4) * 3", "fieldwidth = 1 + int(1 + self.byteWidth / 4) * 2"),
 'm16_swap_dump_incr': lambda: sub(M, '''            dump += self.byteFmt % self._mpu.memory[cur_address] + " "
            cur_address += 1''', '''            cur_address += 1
            dump += self.byteFmt % self._mpu.memory[cur_address] + " "'''),
 'm17_reset_provenance': lambda: sub(M, "        self.byteFmt = self._mpu.BYTE_FORMAT", "        self.byteFmt = self._mpu.ADDR_FORMAT"),
 'm18_maxaddr': lambda: sub(M, "    def _format_disassembly(self, address, length, disasm):\n        cur_address = address\n        max_address = (2 ** self._mpu.ADDR_WIDTH) - 1", "    def _format_disassembly(self, address, length, disasm):\n        cur_address = address\n        max_address = (2 ** self._mpu.ADDR_WIDTH)"),
 'h5_rename_dump': lambda: (resub(M, r'\bdump\b', 'column'), resub(M, r'\bbytes_remaining\b', 'todo')),
 'h6_monitor_other_method': lambda: sub(M, '        self._output("disassemble <address_range>")', '        self._output("disassemble <address_range>")  # help text\n        pass'),
 'x1_extra_field': lambda: sub(D, "        self.byteMask = mpu.byteMask\n", "        self.byteMask = mpu.byteMask\n        self.extra = 0\n"),
 'x2_init_default': lambda: sub(A, "def __init__(self, maxwidth=16, radix=16, labels={})", "def __init__(self, maxwidth=16, radix=10, labels={})"),
 'x3_memory_index': lambda: sub(D, "instruction = self._mpu.ByteAt(pc)", "instruction = self._mpu.memory[pc]"),
 'none': lambda: None,
}
name, check = sys.argv[1], sys.argv[2]
restore(); MUT[name]()
t=time.time()
p=subprocess.run(['bin/check', check, '--tier', 'quick'], cwd=VERIF, env=dict(os.environ, PY65_REPO=DST), stdout=subprocess.PIPE, stderr=subprocess.STDOUT)
out=p.stdout.decode('utf-8','replace').split('\n')
keep=[l for l in out if 'VIOLATION' in l or 'broken:' in l or 'first failing' in l or l.startswith(check) or 'KNOWN' in l or 'Traceback' in l or 'Error' in l]
print('== %s %s rc=%d %.0fs' % (name, check, p.returncode, time.time()-t))
for l in keep[:int(os.environ.get("KEEP","8"))]: print('   ', l[:330])
restore()
