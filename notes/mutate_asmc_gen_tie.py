#!/usr/bin/env python3
"""Mutation test of the tie by regeneration of the monitor's remaining commands (unit `asmc`: do_assemble,
_interactive_assemble, do_help, do_version, do_cd, do_pwd; notes/asmc-gen-tie.md): apply one textual edit to a
scratch copy of py65/monitor.py, run `bin/check C20` with PY65_REPO pointing at the copy, restore.
Usage: mutate_asmc_gen_tie.py [names...]   (default: all)
The scratch copy is $MUT_REPO (default /tmp/ext/asmc/mut) and holds a copy of /repo/py65.
Afterwards run `bin/check C20` once on the unchanged /repo (restores lean/Py65/Gen/MonAsmGen.lean and evidence)."""
import subprocess, sys, os, re, time
VERIF = os.path.dirname(os.path.dirname(os.path.abspath(__file__)))
MUT = os.environ.get('MUT_REPO', '/tmp/ext/asmc/mut')
if not os.path.isdir(os.path.join(MUT, 'py65')):
    os.makedirs(MUT, exist_ok=True)
    subprocess.check_call(['cp', '-r', '/repo/py65', os.path.join(MUT, 'py65')])
SRC = os.path.join(MUT, 'py65', 'monitor.py')
ORIG = open('/repo/py65/monitor.py').read()

M = {}
def mut(name, old, new, count=1):
    M[name] = (old, new, count)

ONE_STORE = "            end = start + len(bytes)\n            self._mpu.memory[start:end] = bytes\n            self.do_disassemble("
# ---- do_assemble
mut('A01-store-first-byte-only', "            self._mpu.memory[start:end] = bytes\n            self.do_disassemble(",
    "            self._mpu.memory[start] = bytes[0]\n            self.do_disassemble(")
mut('A02-end-minus-one', "            end = start + len(bytes)\n            self._mpu.memory[start:end] = bytes\n            self.do_disassemble(",
    "            end = start + len(bytes) - 1\n            self._mpu.memory[start:end] = bytes\n            self.do_disassemble(")
mut('A03-store-before-assemble',
    "            bytes = self._assembler.assemble(statement, start)\n            end = start + len(bytes)\n",
    "            self._mpu.memory[start:start + 1] = [0xea]\n            bytes = self._assembler.assemble(statement, start)\n            end = start + len(bytes)\n")
mut('A04-no-syntaxerror-handler',
    "        except SyntaxError:\n            self._output(\"Syntax error: %s\" % statement)\n", "")
mut('A05-elementwise-loop-instead-of-slice', "            self._mpu.memory[start:end] = bytes\n            self.do_disassemble(",
    "            for i, b in enumerate(bytes):\n                self._mpu.memory[start + i] = b\n            self.do_disassemble(")
mut('A06-overflow-handler-resets-pc',
    "        except OverflowError:\n            self._output(\"Overflow error: %s\" % args)\n        except SyntaxError:\n            self._output(\"Syntax error: %s\" % statement)\n",
    "        except OverflowError:\n            self._mpu.pc = 0\n            self._output(\"Overflow error: %s\" % args)\n        except SyntaxError:\n            self._output(\"Syntax error: %s\" % statement)\n")
mut('A07-assemble-at-pc-zero', "            bytes = self._assembler.assemble(statement, start)\n",
    "            bytes = self._assembler.assemble(statement, 0)\n")
mut('A08-arity-three-pieces', "        splitted = args.split(None, 1)\n        if len(splitted) != 2:\n",
    "        splitted = args.split(None, 2)\n        if len(splitted) != 2:\n")
mut('A09-overflow-text', "            self._output(\"Overflow error: %s\" % args)\n        except SyntaxError:\n            self._output(\"Syntax error: %s\" % statement)\n",
    "            self._output(\"Overflow error: %s\" % statement)\n        except SyntaxError:\n            self._output(\"Syntax error: %s\" % statement)\n")
mut('A10-store-masked-start', "            self._mpu.memory[start:end] = bytes\n            self.do_disassemble(",
    "            self._mpu.memory[start & 0xff:end & 0xff] = bytes\n            self.do_disassemble(")
# ---- _interactive_assemble
mut('I01-no-wrap', "                start += numbytes\n                if start >= (2 ** self._mpu.ADDR_WIDTH):\n                    start = 0\n",
    "                start += numbytes\n")
mut('I02-blank-line-does-not-stop', "            if not line.strip():\n                self.stdout.write(\"\\n\")\n                return\n",
    "            if line.strip() == '.':\n                self.stdout.write(\"\\n\")\n                return\n")
mut('I03-refused-line-advances', "            except SyntaxError:\n                addr = self.addrFmt % start\n                self.stdout.write(\"\\r$%s  ?Syntax\\n\" % addr)\n",
    "            except SyntaxError:\n                addr = self.addrFmt % start\n                self.stdout.write(\"\\r$%s  ?Syntax\\n\" % addr)\n                start += 1\n")
mut('I04-store-one-above', "                end = start + numbytes\n                self._mpu.memory[start:end] = bytes\n",
    "                end = start + numbytes\n                self._mpu.memory[start + 1:end + 1] = bytes\n")
mut('I05-wrap-test-gt', "                if start >= (2 ** self._mpu.ADDR_WIDTH):\n", "                if start > (2 ** self._mpu.ADDR_WIDTH):\n")
mut('I06-start-at-zero-not-pc', "        if args == '':\n            start = self._mpu.pc\n", "        if args == '':\n            start = 0\n")
mut('I07-advance-before-store',
    "                end = start + numbytes\n                self._mpu.memory[start:end] = bytes\n",
    "                start += numbytes\n                end = start + numbytes\n                self._mpu.memory[start:end] = bytes\n")
mut('I08-prompt-text', "            prompt = \"\\r$\" + (self.addrFmt % start) + \"   \" + \\\n", "            prompt = \"\\r$\" + (self.addrFmt % start) + \"  \" + \\\n")
mut('I09-keyerror-start-goes-on', "                self._output(exc.args[0]) # \"Label not found: foo\"\n                return\n",
    "                self._output(exc.args[0]) # \"Label not found: foo\"\n                start = 0\n")
# ---- display commands
mut('D01-cd-swallows-error', "        except OSError as exc:\n            msg = \"Cannot change directory: [%d] %s\" % (exc.errno,\n                exc.strerror)\n            self._output(msg)\n",
    "        except OSError as exc:\n            pass\n")
mut('D02-help-no-strip', "        args = self._shortcuts.get(args.strip(), args)\n", "        args = self._shortcuts.get(args, args)\n")
mut('D03-version-text', "        self._output(\"\\nPy65 Monitor\")\n", "        self._output(\"\\nPy65 Monitor 2\")\n")
mut('D04-pwd-changes-width', "        cwd = os.getcwd()\n        self._output(cwd)\n", "        cwd = os.getcwd()\n        self._width = len(cwd)\n        self._output(cwd)\n")
mut('D05-cd-empty-goes-home', "        if args == '':\n            return self.help_cd()\n\n        try:\n            os.chdir(args)\n",
    "        if args == '':\n            args = '/'\n\n        try:\n            os.chdir(args)\n")
# ---- harmless
for h in ('H1-rename-do_assemble-locals', 'H2-rename-interactive-locals', 'H3-comments-docstrings-rewrap',
          'H4-rename-cd-pwd-help-locals', 'H5-underscore-renamed'):
    mut(h, None, None)


def harmless(name, s):
    def infunc(s, fname, f):
        a = s.index('    def %s(' % fname)
        b = s.index('\n    def ', a + 1)
        return s[:a] + f(s[a:b]) + s[b:]
    if name.startswith('H1'):
        return infunc(s, 'do_assemble', lambda t: re.sub(r'\bsplitted\b', 'parts', re.sub(r'\bstatement\b', 'stmt',
                      re.sub(r'(?<!\.)\bbytes\b', 'code', re.sub(r'(?<!\.)\bend\b', 'stop', t)))))
    if name.startswith('H2'):
        return infunc(s, '_interactive_assemble', lambda t: re.sub(r'\bprompt\b', 'pr', re.sub(r'\bnumbytes\b', 'n',
                      re.sub(r'\bfdisasm\b', 'shown', re.sub(r'\bindent\b', 'pad', re.sub(r'\baddr\b', 'where', t))))))
    if name.startswith('H3'):
        s = s.replace("    def do_assemble(self, args):\n", "    def do_assemble(self, args):\n        \"\"\"Assemble one statement, or start the interactive assembler (docstring added by the mutation test).\"\"\"\n        # split off the address\n")
        s = s.replace("            bytes = self._assembler.assemble(statement, start)\n", "            bytes = self._assembler.assemble(statement,\n                                             start)  # may raise\n")
        s = s.replace("            self._mpu.memory[start:end] = bytes\n            self.do_disassemble(", "            self._mpu.memory[start:end] = bytes   # one slice store\n\n            self.do_disassemble(")
        s = s.replace("        while True:\n            prompt = ", "        # the session\n        while True:\n\n            prompt = ")
        s = s.replace("                if start >= (2 ** self._mpu.ADDR_WIDTH):\n", "                if (start >=\n                        (2 ** self._mpu.ADDR_WIDTH)):  # top\n")
        s = s.replace("    def do_pwd(self, args=None):\n", "    def do_pwd(self, args=None):\n        '''Print the working directory.'''\n")
        s = s.replace("            msg = \"Cannot change directory: [%d] %s\" % (exc.errno,\n                exc.strerror)\n", "            msg = \"Cannot change directory: [%d] %s\" % (\n                exc.errno, exc.strerror)\n")
        return s
    if name.startswith('H4'):
        s = infunc(s, 'do_cd', lambda t: re.sub(r'\bmsg\b', 'text', re.sub(r'\bexc\b', 'err', t)))
        return infunc(s, 'do_pwd', lambda t: re.sub(r'\bcwd\b', 'here', t))
    if name.startswith('H5'):
        return infunc(s, '_interactive_assemble', lambda t: t.replace("_, disasm = self._disassembler", "length, disasm = self._disassembler"))
    raise KeyError(name)


def run(name):
    old, new, count = M[name]
    if old is None:
        src = harmless(name, ORIG)
        if src == ORIG:
            return name, 'EDIT DID NOT APPLY', ''
    else:
        if ORIG.count(old) != count:
            return name, 'PATTERN COUNT %d != %d' % (ORIG.count(old), count), ''
        src = ORIG.replace(old, new)
    compile(src, SRC, 'exec')
    open(SRC, 'w').write(src)
    t0 = time.time()
    try:
        env = dict(os.environ, PY65_REPO=MUT, VERIF_SEED=os.environ.get('VERIF_SEED', '0'))
        p = subprocess.run([os.path.join(VERIF, 'bin', 'check'), 'C20', '--tier', 'quick'], cwd=VERIF, env=env,
                           stdout=subprocess.PIPE, stderr=subprocess.STDOUT)
        out = p.stdout.decode('utf-8', 'replace')
    finally:
        open(SRC, 'w').write(ORIG)
    keep = [l for l in out.split('\n') if re.search(r'VIOLATION|C20 (OK|FAIL)|first failing input|broken:|REFUSED|rewritten', l)]
    return name, 'rc=%d %.0fs' % (p.returncode, time.time() - t0), '\n    '.join(l[:420] for l in keep)


if __name__ == '__main__':
    names = sys.argv[1:] or list(M)
    for n in names:
        name, status, text = run(n)
        print('== %s: %s\n    %s' % (name, status, text))
        sys.stdout.flush()
