#!/usr/bin/env python3
"""Mutation test of the monitor tie by regeneration (notes/mon-gen-tie.md): apply one textual edit to a
scratch copy of py65/monitor.py, run the check with PY65_REPO, restore.  Usage: mutate_mon_gen_tie.py [names…].
Afterwards run the checks once on the unchanged /repo (restores lean/Py65/Gen/Mon*Gen.lean and evidence)."""
import subprocess, sys, os, re, json
VERIF = os.path.dirname(os.path.dirname(os.path.abspath(__file__)))
MUT = os.environ.get('MUT_REPO', '/tmp/build/R/repo_mut')      # scratch copy of /repo (cp -r /repo $MUT_REPO)
if not os.path.isdir(MUT):
    subprocess.check_call(['cp', '-r', '/repo', MUT])
SRC = os.path.join(MUT, 'py65', 'monitor.py')
ORIG = open('/repo/py65/monitor.py').read()

M = {}
def mut(name, check, old, new, count=1):
    M[name] = (check, old, new, count)

# ---- fill / C16
mut('F1-drop-addr-mask', 'C16', "            address &= self.addrMask\n", "")
mut('F2-byte-mask-7f', 'C16', "(filler[index] & self.byteMask)", "(filler[index] & 0x7f)")
mut('F3-swap-index-wrap', 'C16',
    "            index += 1\n            if index == length:\n                index = 0\n",
    "            if index == length:\n                index = 0\n            index += 1\n")
mut('F4-message-count', 'C16', "fmt = (end - start + 1, start, end)", "fmt = (end - start, start, end)")
mut('F5-clip-off-by-one', 'C16', "                end = self.addrMask\n", "                end = self.addrMask - 1\n")
mut('F6-loop-strict', 'C16', "while address <= end:", "while address < end:")
# ---- run / C17
mut('R1-return-stopcodes', 'C17', "returns = [0x60, 0x40]", "returns = [0x60]")
mut('R2-bp-before-stopcode', 'C17',
    "                if mem[pc] in stopcodes:\n                    break\n                if pc in breakpoints:\n                    msg = \"Breakpoint %d reached.\"\n                    self._output(msg % self._breakpoints.index(pc))\n                    break\n",
    "                if pc in breakpoints:\n                    msg = \"Breakpoint %d reached.\"\n                    self._output(msg % self._breakpoints.index(pc))\n                    break\n                if mem[pc] in stopcodes:\n                    break\n")
mut('R3-cache-attribute', 'C17', "        breakpoints = set(self._breakpoints)\n",
    "        if not hasattr(self, '_bp_cache'):\n            self._bp_cache = set(self._breakpoints)\n        breakpoints = self._bp_cache\n")
mut('R4-delete-range-ge', 'C17', "number > len(self._breakpoints)", "number >= len(self._breakpoints)")
mut('R5-add-reuses-slot', 'C17', "            self._breakpoints.append(address)\n            msg = \"Breakpoint %d added at $%04X\"\n            self._output(msg % (len(self._breakpoints) - 1, address))\n",
    "            if None in self._breakpoints:\n                slot = self._breakpoints.index(None)\n                self._breakpoints[slot] = address\n            else:\n                self._breakpoints.append(address)\n                slot = len(self._breakpoints) - 1\n            msg = \"Breakpoint %d added at $%04X\"\n            self._output(msg % (slot, address))\n")
mut('R6-goto-stop-rts', 'C17', "brks = [0x00]", "brks = [0x00, 0x60]")
mut('R7-step-twice-first-loop', 'C17', "            while True:\n                mpu.step()\n                if mem[mpu.pc] in stopcodes:\n                    break\n",
    "            while True:\n                if mem[mpu.pc] in stopcodes:\n                    break\n                mpu.step()\n")
# ---- pre / C20
mut('P1-table-reorder', 'C20', "                           'q':    'quit',\n                           'r':    'registers',\n",
    "                           'r':    'registers',\n                           'q':    'quit',\n")
mut('P2-regex-star', 'C20', r"pattern = r'^%s\s+' % re.escape(shortcut)", r"pattern = r'^%s\s*' % re.escape(shortcut)")
mut('P3-only-double-quote', 'C20', "if char in ('\"', \"'\"):", "if char in ('\"',):")
mut('P4-no-lstrip-dots', 'C20', "line = line.strip(' \\t').lstrip('.')", "line = line.strip(' \\t')")
mut('P5-table-entry', 'C20', "'x':    'quit',", "'x':    'step',")
mut('P6-tilde-no-space', 'C20', "line = self._shortcuts['~'] + ' ' + line[1:]", "line = self._shortcuts['~'] + line[1:]")
# ---- harmless
mut('H1-rename-fill-locals', 'C16', None, None)
mut('H2-rename-run-locals', 'C17', None, None)
mut('H3-rename-pre-locals', 'C20', None, None)
mut('H4-comments-reformat', 'C16,C17,C20', None, None)


def harmless(name, s):
    def infunc(s, fname, f):
        a = s.index('    def %s(' % fname)
        b = s.index('\n    def ', a + 1)
        return s[:a] + f(s[a:b]) + s[b:]
    if name.startswith('H1'):
        return infunc(s, '_fill', lambda t: re.sub(r'\bindex\b', 'idx', re.sub(r'\baddress\b', 'addr', re.sub(r'\blength\b', 'n', t))))
    if name.startswith('H2'):
        return infunc(s, '_run', lambda t: re.sub(r'\bpc\b', 'cur', t).replace('mpu.cur', 'mpu.pc').replace('msg', 'text'))
    if name.startswith('H3'):
        return infunc(s, '_preprocess_line', lambda t: re.sub(r'\bquoted\b', 'inq', re.sub(r'\bmatches\b', 'mo', re.sub(r'\bcommand\b', 'cmdname', t))))
    if name.startswith('H4'):
        s = s.replace("    def _fill(self, start, end, filler):\n", "    def _fill(self, start, end, filler):\n        \"\"\"Fill memory (docstring added by the mutation test).\"\"\"\n        # a comment\n")
        s = s.replace("        while address <= end:\n", "\n        # the loop\n        while (address\n               <= end):\n")
        s = s.replace("    def _run(self, stopcodes):\n", "    def _run(self, stopcodes):\n        '''Run until a stop code or breakpoint.'''\n\n")
        s = s.replace("                if mem[mpu.pc] in stopcodes:\n                    break\n", "                if (mem[mpu.pc]\n                        in stopcodes):  # stop\n                    break\n")
        s = s.replace("    def _preprocess_line(self, line):\n", "    def _preprocess_line(self, line):\n        \"\"\"Normalise a command line.\"\"\"\n")
        s = s.replace("            if (not quoted) and (char == ';'):\n", "            if ((not quoted)\n                    and (char == ';')):  # comment start\n")
        s = s.replace("                           'EOF':  'quit',", "                           'EOF': 'quit',  # end of file")
        return s
    raise KeyError(name)


def run(name):
    check, old, new, count = M[name]
    if old is None:
        s = harmless(name, ORIG)
        assert s != ORIG
    else:
        assert ORIG.count(old) == count, (name, ORIG.count(old))
        s = ORIG.replace(old, new)
    compile(s, 'monitor.py', 'exec')
    open(SRC, 'w').write(s)
    res = {}
    try:
        for c in check.split(','):
            env = dict(os.environ, PY65_REPO=MUT, VERIF_SEED=os.environ.get('VERIF_SEED', '0'))
            p = subprocess.run([os.path.join(VERIF, 'bin', 'check'), c, '--tier', 'quick'], cwd=VERIF, env=env,
                               stdout=subprocess.PIPE, stderr=subprocess.STDOUT)
            out = p.stdout.decode('utf-8', 'replace').strip().split('\n')
            keep = [l for l in out if l.startswith(('VIOLATION', 'KNOWN', '  broken', '  first failing', c + ' OK', c + ' FAIL'))
                    or 'translator' in l]
            res[c] = (p.returncode, keep)
            print('=== %s %s rc=%d' % (name, c, p.returncode))
            for l in keep:
                print('   ' + l[:420])
            sys.stdout.flush()
    finally:
        open(SRC, 'w').write(ORIG)
    return res


if __name__ == '__main__':
    names = sys.argv[1:] or list(M)
    for n in names:
        run(n)
