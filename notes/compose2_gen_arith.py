#!/usr/bin/env python3
"""Static generator of lean/Py65/Proofs/Compose2ArithSteps.lean (builder comp2).

Reads the case list of lean/Py65/Proofs/HistArithSteps.lean (itself written by harness/gen_hist.py from the Spec
tables: one line per ADC / SBC / JSR opcode with its handler, dispatch fact, addressing-mode lemma and operand
count) and writes, for the ADC / SBC opcodes of each device, the dispatch of `Compose2.step_adv`:
a step at such an opcode ends with PC one instruction length further on and the memory it started with.
usage:  python3 notes/compose2_gen_arith.py lean/Py65/Proofs
The output is a committed proof file checked by the kernel like any other; this script is only its provenance.
"""
import re
import sys

HDR = '''/-
Dispatch of `Proofs/Compose2Arith.lean` over the ADC / SBC opcodes of the three generated devices (static
file written once from the case list of `Proofs/HistArithSteps.lean`; the proofs are checked by the
kernel): a `step()` at an ADC / SBC opcode, binary or decimal mode, ends with PC one instruction length
further on (modulo the address space) and with the memory it started with.
-/
import Py65.Proofs.Compose2Arith
import Py65.Gen.Tables

namespace Py65.Proofs.Compose2
open Py65 Py65.Gen Py65.Spec Py65.Proofs

def isAdcSbc : Mn → Bool
  | .ADC | .SBC => true
  | _ => false

/-- the opcodes of ADC and SBC -/
def adcSbcOps (v : Variant) : List Int :=
  match v with
  | .nmos => NMOS
  | .cmos => CMOS

theorem adcsbc_rows_nmos : ∀ r ∈ nmosTable, isAdcSbc r.2.1 = true → r.1 ∈ adcSbcOps .nmos := by decide +kernel
theorem adcsbc_rows_cmos : ∀ r ∈ cmosExtTable ++ nmosTable, isAdcSbc r.2.1 = true → r.1 ∈ adcSbcOps .cmos := by
  decide +kernel

theorem decode_adcsbc {v : Variant} {op : Int} {mn : Mn} {mo : Mode} (hd : decode v op = some (mn, mo))
    (ha : isAdcSbc mn = true) : op ∈ adcSbcOps v := by
  cases v with
  | nmos => exact adcsbc_rows_nmos _ (lookup_mem hd) ha
  | cmos => exact adcsbc_rows_cmos _ (Hist.decode_mem hd) ha

/-- the instruction length of a decoded opcode, as a function of the opcode (evaluated by `decide`) -/
theorem len_of_decode {v : Variant} {op : Int} {mn : Mn} {mo : Mode} (hd : decode v op = some (mn, mo)) :
    mo.len = ((decode v op).map (fun r => r.2.len)).getD 0 := by rw [hd]; rfl
'''

INFO = {'dev6502': ('.nmos', 'Or.inl rfl'), 'dev65org16': ('.nmos', 'Or.inr rfl'), 'dev65c02': ('.cmos', 'Or.inl rfl')}
CASE = re.compile(r'exact step_arith _ hc _ s \((\S+) _\) \(by rw \[hopv\]; exact (\S+)\) \((adc_inst|sbc_inst) _ hc _ '
                  r'\((fun s hs => .*?\.2)\) (\d) _ hf\)')


def main(proofs_dir):
    src = open(proofs_dir + '/HistArithSteps.lean').read()
    parts = re.split(r'\ntheorem (arith_step_dev\w+)', src)
    devs = []
    for i in range(1, len(parts), 2):
        devs.append((parts[i].replace('arith_step_', ''), [m.groups() for m in CASE.finditer(parts[i + 1])]))
    d = dict(devs)
    ops = lambda cases: [int(c[1].split('_')[-1], 16) for c in cases]
    body = [HDR.replace('NMOS', str(ops(d['dev6502']))).replace('CMOS', str(ops(d['dev65c02'])))]
    for dev, cases in devs:
        v, hc = INFO[dev]
        body.append(f'''
theorem adcsbc_step_{dev} (s : St) (hs : WF {dev}.cfg s) (mn : Mn) (mo : Mode)
    (hd : decode {v} (s.mem s.pc) = some (mn, mo)) (ha : isAdcSbc mn = true) :
    (Mpu6502.step {dev}.cfg {dev}.tbl s).pc = (s.pc + mo.len) % AM {dev}.cfg.BYTE_WIDTH ∧
      (Mpu6502.step {dev}.cfg {dev}.tbl s).mem = s.mem := by
  have hc : IsDev {dev}.cfg := {hc}
  have hop := decode_adcsbc hd ha
  generalize hopv : s.mem s.pc = op at hop hd
  simp only [adcSbcOps, List.mem_cons, List.mem_nil_iff, or_false] at hop
  rcases hop with {' | '.join(['rfl'] * len(cases))}''')
        for (H, I, kind, sem, k) in cases:
            adv = 'adc_adv' if kind == 'adc_inst' else 'sbc_adv'
            body.append(f'''  · rw [show mo.len = {k} + 1 from (len_of_decode hd).trans (by decide)]
    exact step_adv _ hc _ s hs ({H} _) {k} (by rw [hopv]; exact {I}) ({adv} _ _ ({sem}) {k})''')
    body.append('\nend Py65.Proofs.Compose2\n')
    open(proofs_dir + '/Compose2ArithSteps.lean', 'w').write('\n'.join(body))


if __name__ == '__main__':
    main(sys.argv[1])
