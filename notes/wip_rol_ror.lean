
theorem opROL_mem_core (c : Cfg) (hc : IsDev c) (x : St → Int × St) (mo : Mode) (hx : ModeSem c x mo)
    (s : St) (hs : WF c s) :
    core (Mpu6502.opROL_mem c x s) =
      { core s with
        p := rmwP c.BYTE_WIDTH .ROL s.p (s.mem (ea c.BYTE_WIDTH mo (core s))) (flag s.p bitC),
        mem := fun k => if k = ea c.BYTE_WIDTH mo (core s)
                 then rmwV c.BYTE_WIDTH .ROL (s.mem (ea c.BYTE_WIDTH mo (core s))) (flag s.p bitC)
                 else s.mem k } := by
  rmw_mem_core Mpu6502.opROL_mem

theorem opROR_mem_core (c : Cfg) (hc : IsDev c) (x : St → Int × St) (mo : Mode) (hx : ModeSem c x mo)
    (s : St) (hs : WF c s) :
    core (Mpu6502.opROR_mem c x s) =
      { core s with
        p := rmwP c.BYTE_WIDTH .ROR s.p (s.mem (ea c.BYTE_WIDTH mo (core s))) (flag s.p bitC),
        mem := fun k => if k = ea c.BYTE_WIDTH mo (core s)
                 then rmwV c.BYTE_WIDTH .ROR (s.mem (ea c.BYTE_WIDTH mo (core s))) (flag s.p bitC)
                 else s.mem k } := by
  rmw_mem_core Mpu6502.opROR_mem

theorem opROL_acc_core (c : Cfg) (hc : IsDev c) (s : St) (hs : WF c s) :
    core (Mpu6502.opROL_acc c s) =
      { core s with a := rmwV c.BYTE_WIDTH .ROL s.a (flag s.p bitC),
                    p := rmwP c.BYTE_WIDTH .ROL s.p s.a (flag s.p bitC) } := by
  rmw_acc_core Mpu6502.opROL_acc

theorem opROR_acc_core (c : Cfg) (hc : IsDev c) (s : St) (hs : WF c s) :
    core (Mpu6502.opROR_acc c s) =
      { core s with a := rmwV c.BYTE_WIDTH .ROR s.a (flag s.p bitC),
                    p := rmwP c.BYTE_WIDTH .ROR s.p s.a (flag s.p bitC) } := by
  rmw_acc_core Mpu6502.opROR_acc
