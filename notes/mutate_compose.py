#!/usr/bin/env python3
"""Mutation test of the COMPOSITION (notes/compose.md; Py65.Proofs.MonCompose / Py65.Props.C20h): apply one textual
edit to a scratch copy of py65/monitor.py, run `bin/check C20 --tier quick` with PY65_REPO pointing at the copy,
restore.  The point: a change of a command of ANOTHER unit (fill / run / io) must now break a C20-level obligation
(or produce a failing input of C20), not only the unit's own check.

    MUT_REPO=/tmp/ext/honest/mut notes/mutate_compose.py [names...]

The scratch tree is created (cp -r /repo/py65) if missing.  Afterwards the script runs the check once on the
unchanged /repo, which restores the generated files."""
import os
import subprocess
import sys
import time

VERIF = os.path.dirname(os.path.dirname(os.path.abspath(__file__)))
MUT = os.environ.get('MUT_REPO', '/tmp/ext/honest/mut')
if not os.path.isdir(os.path.join(MUT, 'py65')):
    os.makedirs(MUT, exist_ok=True)
    subprocess.check_call(['cp', '-r', '/repo/py65', os.path.join(MUT, 'py65')])
SRC = os.path.join(MUT, 'py65', 'monitor.py')
ORIG = open('/repo/py65/monitor.py').read()

M = []


def mut(name, old, new):
    M.append((name, old, new))


# the one the task asks for: the `except OverflowError` handler of do_fill also fills
mut('K1-fill-overflow-handler-fills', "            self._output(\"Overflow: $%x\" % exc.args[0])\n",
    "            self._output(\"Overflow: $%x\" % exc.args[0])\n            self._fill(0, 0, [0])\n")
# do_goto sets the PC before it knows the address is good (unit `run`)
mut('K2-goto-pc-before-parse', "        self._mpu.pc = self._address_parser.number(args)\n        brks = [0x00]",
    "        self._mpu.pc = 0\n        self._mpu.pc = self._address_parser.number(args)\n        brks = [0x00]")
# do_delete_breakpoint: a refused number drops the last breakpoint (unit `run`)
mut('K3-delete-bad-number-pops', "            self._output(\"Illegal number: %s\" % args)\n            return\n",
    "            self._output(\"Illegal number: %s\" % args)\n            self._breakpoints = self._breakpoints[:-1]\n            return\n")
# do_mpu: an unknown name resets the current device (unit `io`)
mut('K4-mpu-unknown-resets', "                self._output(\"Unknown MPU: %s\" % args)\n",
    "                self._output(\"Unknown MPU: %s\" % args)\n                self.do_reset('')\n")
# harmless: comments / docstring in do_fill, do_goto
mut('H1-comments', "    def do_goto(self, args):\n", "    def do_goto(self, args):\n        # go to an address and run\n")


def run(env_repo):
    env = dict(os.environ, VERIF_SEED='0')
    if env_repo:
        env['PY65_REPO'] = env_repo
    t = time.time()
    p = subprocess.run([os.path.join(VERIF, 'bin', 'check'), 'C20', '--tier', 'quick'], cwd=VERIF, env=env,
                       stdout=subprocess.PIPE, stderr=subprocess.STDOUT)
    out = p.stdout.decode('utf-8', 'replace')
    return p.returncode, out, time.time() - t


def main():
    names = sys.argv[1:]
    for name, old, new in M:
        if names and name not in names:
            continue
        if ORIG.count(old) != 1:
            print('%s: pattern occurs %d times, skipped' % (name, ORIG.count(old)))
            continue
        open(SRC, 'w').write(ORIG.replace(old, new))
        rc, out, dt = run(MUT)
        keep = [l for l in out.split('\n') if l.startswith('VIOLATION') or l.startswith('C20 ') or 'REFUSED' in l
                or 'no longer checks' in l or 'missing' in l]
        print('== %s (rc=%d, %.0fs)' % (name, rc, dt))
        for l in keep[:14]:
            print('   ' + l[:400])
        open(SRC, 'w').write(ORIG)
    rc, out, dt = run(None)
    print('== unchanged /repo: ' + [l for l in out.split('\n') if l.startswith('C20 ')][-1])


if __name__ == '__main__':
    main()
