#!/usr/bin/env python3
"""Sensitivity test of harness/rtcheck.py: does the differential check NOTICE a library model that is wrong?

Changing a Lean helper for real means rebuilding every proof that depends on it, so the same question is asked
from the other side: each entry replaces the CPython REFERENCE of one helper by a plausible-but-wrong variant
(the behaviour a careless model would have had), runs the ordinary generators of that helper with the ordinary
seed, and requires a disagreement, shrunk to a small input.  A generator that cannot tell the two behaviours
apart shows up here as MISSED.

  PYTHONPATH=/repo /venv/bin/python notes/rt_selftest.py [seed]
"""
import os
import re
import shlex
import sys

V = os.path.dirname(os.path.dirname(os.path.abspath(__file__)))
sys.path.insert(0, os.path.join(V, 'harness'))
import rtcheck            # noqa: E402
import rthelpers as rh    # noqa: E402

C_WS = ' \t\n\v\f\r'

MUTANTS = [
    ('PyStr.isReSpace', lambda c: c in C_WS, r'\s without the separators \x1c..\x1f'),
    ('PyStr.pyIntL', lambda s, b: int(s.strip(' \t\n\v\f\r\x1c\x1d\x1e\x1f'), b), 'int() also stripping \\x1c..\\x1f'),
    ('PyStr.pyIntL', lambda s, b: int(s.replace('__', '_'), b), 'int() accepting doubled underscores'),
    ('PyStr.pyIntL', lambda s, b: int(s, b) if len(s) < 4000 else 0, 'int() without the 4300-digit limit'),
    ('PyStr.zfillL', lambda s, w: s.rjust(w, '0'), 'zfill padding in front of the sign'),
    ('PyStr.fmtHexL', lambda w, n: '%0*X' % (w, n), 'upper-case hex digits'),
    ('AsmRt.split', lambda s: [p for p in re.split(r'[ \t\n\v\f\r]+', s) if p], 'split() at C blanks only'),
    ('AsmRt.splitSp1L', lambda s: s.split(None, 1), "split(None, 1) instead of split(' ', 1)"),
    ('PyRt.reMatchLabelOffset', lambda s: (lambda m: m and m.groups())(re.match(r'^([^\s+-]+)\s*([+\-])\s*([$+%]?\d+)$', s)),
     'the pattern before the repair (\\d offsets)'),
    ('PyRt.reMatchRange', lambda s: (lambda m: m and m.groups())(re.match(r'^([^:,]+)\s*[:,]\s*([^:,]+)$', s)),
     'one separator instead of a run'),
    ('AsmRt.reStatement', lambda s: (lambda m: m and m.groups())(
        re.match(r'^([A-Za-z]{3}[0-7]?\s+\(?\s*)([^,\s\)]+)(\s*[,xXyY\s]*\)?[,xXyY\s]*)$', s)), '[A-Za-z] instead of [A-z]'),
    ('AsmRt.templatePattern', lambda n, f, s: (lambda m: m and list(m.groups()))(
        re.match(('^' + re.escape(f) + '$').replace('00', '0{%d}' % n).replace('FF', '([0-9A-Fa-f]{%d})' % n), s)),
     'template digits in either case'),
    ('MonCmd.shlexSplit', lambda s: shlex.split(s, posix=False), 'shlex in non-POSIX mode'),
    ('MonCmd.shlexSplit', lambda s: s.split(), 'str.split instead of shlex'),
    ('MonGenRt.pySliceFrom', lambda s, i: s[max(i, 0):], 's[i:] without from-the-end indices'),
    ('MonGenRt.pyGetItem', lambda l, i: l[i] if i >= 0 else (_ for _ in ()).throw(IndexError()), 'l[i] without negative indices'),
    ('MonGenRt.reMatchLitSpaces', lambda lit, line: (lambda m: m and m.span())(re.match('^%s +' % re.escape(lit), line)),
     'blank instead of \\s after the shortcut'),
    ('MonGenRt.pyFmtX', lambda w, v: ('-' if v < 0 else '') + '%0*x' % (w, abs(v)), 'sign not counted in the width'),
    ('MonMemRt.pyFloorDiv', lambda a, b: int(a / b) if abs(a) < 2 ** 50 and abs(b) < 2 ** 50 else a // b, 'truncating division'),
    ('MonMemRt.pySliceFromStep', lambda l, i, st: l[i:][::st][:max(len(l) // st, 0)], 'one item short on odd lengths'),
    ('MonIORt.utf8Decode', lambda bs: [ord(c) for c in bytes(bs).decode('utf-8', 'surrogatepass')], 'surrogates accepted'),
    ('MonIORt.pySorted', lambda l: sorted(l, key=str.lower), 'case-insensitive order'),
    ('MonIORt.pyChr', lambda v: [ord(chr(v & 0xffff))], 'chr of the masked value'),
    ('ObsMem.sliceRange', lambda a, b, c, n: list(range(*slice(a, b, c or 1).indices(n))), 'step 0 treated as 1'),
    ('Py.listSliceAssign', lambda l, lo, hi, vals: (lambda m: (len(m), m))(l[:lo] + vals + l[max(hi, lo + len(vals)):]),
     'slice assignment that never grows the list'),
    ('PyRt.dictSetItem', lambda d, k, v: [(a, b) for a, b in d.items() if a != k] + [(k, v)], 'an updated key moves to the end'),
    ('ShowRt.pySplitChar', lambda sep, s: [p for p in s.split(sep)] if s else [], "''.split(sep) == []"),
    ('GenRt.pctStr', lambda f, s: f % s[:int(f[2:-1] or 0)] if re.fullmatch(r'%-\d+s', f) else f % s, 'field truncates'),
    ('Py.shr', lambda x, k: int(x / 2 ** k) if abs(x) < 2 ** 50 else x >> k, 'shift rounding toward zero'),
    ('Py.land', lambda x, y: (abs(x) & abs(y)), 'and on magnitudes'),
]


def main():
    seed = int(sys.argv[1]) if len(sys.argv) > 1 else 0
    missed = 0
    print('| helper | wrong reference | outcome | shrunk input | model (Lean) | wrong reference says |')
    print('|---|---|---|---|---|---|')
    for name, bad, what in MUTANTS:
        h = rh.HELPERS[name]
        good = h.ref
        h.ref = bad
        try:
            r = rtcheck.run([name], seed)
        finally:
            h.ref = good
        if r['disagreements']:
            d = r['disagreements'][0]
            print('| `%s` | %s | noticed (%d of %d cases) | %s | `%s` | `%s` |' % (
                name, what, d['failing_cases'], r['stats'][name], ', '.join(d['input']).replace('|', '\\|')[:80],
                d['model'][:40], d['real'][:40]))
        else:
            missed += 1
            print('| `%s` | %s | **MISSED** | | | |' % (name, what))
    print('\n%d mutants, %d missed' % (len(MUTANTS), missed))
    sys.exit(1 if missed else 0)


if __name__ == '__main__':
    main()
