#!/usr/bin/env python3
"""Mutation test of the tie by regeneration of the monitor's dispatcher and state-owning commands (unit `cmds`,
notes/cmds-gen-tie.md): apply one textual edit to a scratch copy of py65/monitor.py, run `bin/check C20` with
PY65_REPO pointing at the copy, restore.  Usage: mutate_cmds_gen_tie.py [names...]   (default: all)
The scratch copy is $MUT_REPO (default /tmp/ext/cmds/mut) and holds a copy of /repo/py65.
`C1-*` mutates a copy of the standard library's cmd.py and runs only the translator (--cmd-source).
Afterwards run `bin/check C20` once on the unchanged /repo (restores lean/Py65/Gen/MonCmdGen.lean and evidence)."""
import subprocess, sys, os, re, json, shutil
VERIF = os.path.dirname(os.path.dirname(os.path.abspath(__file__)))
MUT = os.environ.get('MUT_REPO', '/tmp/ext/cmds/mut')
if not os.path.isdir(os.path.join(MUT, 'py65')):
    os.makedirs(MUT, exist_ok=True)
    subprocess.check_call(['cp', '-r', '/repo/py65', os.path.join(MUT, 'py65')])
SRC = os.path.join(MUT, 'py65', 'monitor.py')
ORIG = open('/repo/py65/monitor.py').read()

M = {}
def mut(name, old, new, count=1):
    M[name] = (old, new, count)

# ---- do_registers
mut('G1-width-test-without-sp', "                if register != 'pc':\n", "                if register in ('a', 'x', 'y', 'p'):\n")
mut('G2-bytemask-plus-one', "if intval != (intval & self.byteMask):", "if intval > self.byteMask + 1:")
mut('G3-setattr-before-width-test',
    "                if register != 'pc':\n                    if intval != (intval & self.byteMask):\n                        msg = \"Overflow: %r too wide for register %r\"\n                        self._output(msg % (value, register))\n                        continue\n\n                setattr(self._mpu, register, intval)\n",
    "                setattr(self._mpu, register, intval)\n                if register != 'pc':\n                    if intval != (intval & self.byteMask):\n                        msg = \"Overflow: %r too wide for register %r\"\n                        self._output(msg % (value, register))\n                        continue\n")
mut('G4-register-tuple-extra', "if register not in ('pc', 'sp', 'a', 'x', 'y', 'p'):", "if register not in ('pc', 'sp', 'a', 'x', 'y', 'p', 'q'):")
mut('G5-findall-regex', r"pairs = re.findall(r'([^=,\s]*)=([^=,\s]*)', args)", r"pairs = re.findall(r'([^=,\s]+)=([^=,\s]*)', args)")
# ---- do_width / do_radix
mut('W1-width-accepts-below-10', "                if new_width >= 10:\n", "                if new_width >= 1:\n")
mut('X1-radix-assign-before-validate', "            changed = False\n            for name, radix in radixes.items():\n",
    "            changed = False\n            self._address_parser.radix = 10\n            for name, radix in radixes.items():\n")
mut('X2-radix-table-value', "'Octal': 8,", "'Octal': 9,")
# ---- labels
mut('L1-add-label-store-before-validate',
    "        try:\n            address = self._address_parser.number(split[0])\n        except KeyError as exc:\n            self._output(exc.args[0]) # \"Label not found: foo\"\n",
    "        self._address_parser.labels[split[1]] = 0\n        try:\n            address = self._address_parser.number(split[0])\n        except KeyError as exc:\n            self._output(exc.args[0]) # \"Label not found: foo\"\n")
mut('L2-delete-label-raises-on-unknown',
    "        if args in self._address_parser.labels:\n            del self._address_parser.labels[args]\n",
    "        del self._address_parser.labels[args]\n")
mut('L3-add-label-overflow-stored',
    "        except OverflowError:\n            self._output(\"Overflow error: %s\" % args)\n        else:\n            label = split[1]\n            self._address_parser.labels[label] = address\n",
    "        except OverflowError:\n            self._output(\"Overflow error: %s\" % args)\n            self._address_parser.labels[split[1]] = self.addrMask\n        else:\n            label = split[1]\n            self._address_parser.labels[label] = address\n")
# ---- dispatcher
mut('D1-startswith-q', 'if not line.startswith("quit"):', 'if not line.startswith("q"):')
mut('D2-new-do_x', "    def help_quit(self):\n", "    def do_x(self, args):\n        return self.do_quit(args)\n\n    def help_quit(self):\n")
mut('D3-new-do_y-exits', "    def help_quit(self):\n", "    def do_y(self, args):\n        return 1\n\n    def help_quit(self):\n")
mut('D4-catch-all-narrowed', "        except Exception:\n            error = ''.join(traceback.format_exception(*sys.exc_info()))\n",
    "        except ValueError:\n            error = ''.join(traceback.format_exception(*sys.exc_info()))\n")
mut('D5-quit-returns-0', "        self._output('')\n        return 1\n", "        self._output('')\n        return 0\n")
mut('D6-override-default', "    def _output_mpu_status(self):\n", "    def default(self, line):\n        self.lastcmd = ''\n\n    def _output_mpu_status(self):\n")
mut('D7-result-dropped', "        return result\n", "        return None\n")
mut('D8-rename-command', "    def do_width(self, args):\n", "    def do_columns(self, args):\n")
mut('D9-preprocess-after-dispatch', "            result = cmd.Cmd.onecmd(self, line)\n", "            result = cmd.Cmd.onecmd(self, line.lower())\n")
# ---- harmless
for h in ('H1-rename-registers-locals', 'H2-rename-label-radix-locals', 'H3-comments-docstrings-rewrap', 'H4-rename-onecmd-locals'):
    mut(h, None, None)
# ---- the standard library (translator only)
mut('C1-cmd-py-changed', None, None)


def harmless(name, s):
    def infunc(s, fname, f):
        a = s.index('    def %s(' % fname)
        b = s.index('\n    def ', a + 1)
        return s[:a] + f(s[a:b]) + s[b:]
    if name.startswith('H1'):
        return infunc(s, 'do_registers', lambda t: re.sub(r'\bintval\b', 'n', re.sub(r'\bvalue\b', 'val', re.sub(r'\bpairs\b', 'found', t))))
    if name.startswith('H2'):
        s = infunc(s, 'do_add_label', lambda t: re.sub(r'(?<!\.)\bsplit\b', 'parts', re.sub(r'\baddress\b', 'addr', t)))
        return infunc(s, 'do_radix', lambda t: re.sub(r'\bnew\b', 'letter', re.sub(r'\bchanged\b', 'hit', t)))
    if name.startswith('H3'):
        s = s.replace("    def onecmd(self, line):\n", "    def onecmd(self, line):\n        \"\"\"Run one command line (docstring added by the mutation test).\"\"\"\n        # preprocess first\n")
        s = s.replace("        if not line.startswith(\"quit\"):\n", "\n        if not line.startswith(\n                \"quit\"):   # no status after quit\n")
        s = s.replace("    def do_width(self, args):\n", "    def do_width(self, args):\n        '''Set or show the terminal width.'''\n")
        s = s.replace("                if new_width >= 10:\n", "                if (new_width\n                        >= 10):  # minimum\n")
        s = s.replace("    def do_registers(self, args):\n", "    def do_registers(self, args):\n        # assign registers\n\n")
        s = s.replace("            if register not in ('pc', 'sp', 'a', 'x', 'y', 'p'):\n", "            if register not in ('pc', 'sp', 'a',\n                                'x', 'y', 'p'):\n")
        return s
    if name.startswith('H4'):
        return infunc(s, 'onecmd', lambda t: re.sub(r'\bresult\b', 'res', re.sub(r'\berror\b', 'err', t)))
    raise KeyError(name)


def show(name, c, rc, out):
    keep = [l for l in out if l.startswith(('VIOLATION', 'KNOWN', '  broken', '  first failing', c + ' OK', c + ' FAIL'))
            or 'translator' in l or 'deviation' in l]
    print('=== %s %s rc=%d' % (name, c, rc))
    for l in keep:
        print('   ' + l[:460])
    sys.stdout.flush()


def run(name):
    old, new, count = M[name]
    if name.startswith('C1'):
        import cmd as _cmd
        t = open(_cmd.__file__).read()
        t2 = t.replace("        if cmd == '':\n            return self.default(line)\n", "        if cmd == '' or cmd == 'noop':\n            return self.default(line)\n")
        assert t2 != t
        p = os.path.join(MUT, 'cmd_mut.py')
        open(p, 'w').write(t2)
        q = subprocess.run([sys.executable, os.path.join(VERIF, 'harness', 'py2lean_moncmd.py'), '--out', os.path.join(MUT, 'gen'),
                            '--report', os.path.join(MUT, 'r.json'), '--cmd-source', p], stdout=subprocess.PIPE, stderr=subprocess.STDOUT)
        print('=== %s translator rc=%d' % (name, q.returncode))
        print('   ' + json.load(open(os.path.join(MUT, 'r.json'))).get('error', '')[:460])
        return
    if old is None:
        s = harmless(name, ORIG)
        assert s != ORIG
    else:
        assert ORIG.count(old) == count, (name, ORIG.count(old))
        s = ORIG.replace(old, new)
    compile(s, 'monitor.py', 'exec')
    open(SRC, 'w').write(s)
    try:
        env = dict(os.environ, PY65_REPO=MUT, VERIF_SEED=os.environ.get('VERIF_SEED', '0'))
        p = subprocess.run([os.path.join(VERIF, 'bin', 'check'), 'C20', '--tier', 'quick'], cwd=VERIF, env=env,
                           stdout=subprocess.PIPE, stderr=subprocess.STDOUT)
        show(name, 'C20', p.returncode, p.stdout.decode('utf-8', 'replace').strip().split('\n'))
    finally:
        open(SRC, 'w').write(ORIG)


if __name__ == '__main__':
    names = sys.argv[1:] or list(M)
    for n in names:
        run(n)
