# throw-away reference of the 6502/65C02 programming model (W=8), written from the data sheets,
# used only to probe py65 for deviations while designing.  Deleted afterwards.
import random, sys
sys.path.insert(0,'/repo')
from py65.devices.mpu6502 import MPU as N
from py65.devices.mpu65c02 import MPU as C

NMOS = {}
def add(tbl, mn, **modes):
    for m,op in modes.items(): tbl[op]=(mn,m)
T=NMOS
add(T,'ADC',imm=0x69,zpg=0x65,zpx=0x75,abs=0x6D,abx=0x7D,aby=0x79,inx=0x61,iny=0x71)
add(T,'AND',imm=0x29,zpg=0x25,zpx=0x35,abs=0x2D,abx=0x3D,aby=0x39,inx=0x21,iny=0x31)
add(T,'ASL',acc=0x0A,zpg=0x06,zpx=0x16,abs=0x0E,abx=0x1E)
for mn,op in [('BCC',0x90),('BCS',0xB0),('BEQ',0xF0),('BMI',0x30),('BNE',0xD0),('BPL',0x10),('BVC',0x50),('BVS',0x70)]: T[op]=(mn,'rel')
add(T,'BIT',zpg=0x24,abs=0x2C)
for mn,op in [('BRK',0),('CLC',0x18),('CLD',0xD8),('CLI',0x58),('CLV',0xB8),('DEX',0xCA),('DEY',0x88),('INX',0xE8),('INY',0xC8),('NOP',0xEA),('PHA',0x48),('PHP',0x08),('PLA',0x68),('PLP',0x28),('RTI',0x40),('RTS',0x60),('SEC',0x38),('SED',0xF8),('SEI',0x78),('TAX',0xAA),('TAY',0xA8),('TSX',0xBA),('TXA',0x8A),('TXS',0x9A),('TYA',0x98)]: T[op]=(mn,'imp')
add(T,'CMP',imm=0xC9,zpg=0xC5,zpx=0xD5,abs=0xCD,abx=0xDD,aby=0xD9,inx=0xC1,iny=0xD1)
add(T,'CPX',imm=0xE0,zpg=0xE4,abs=0xEC); add(T,'CPY',imm=0xC0,zpg=0xC4,abs=0xCC)
add(T,'DEC',zpg=0xC6,zpx=0xD6,abs=0xCE,abx=0xDE); add(T,'INC',zpg=0xE6,zpx=0xF6,abs=0xEE,abx=0xFE)
add(T,'EOR',imm=0x49,zpg=0x45,zpx=0x55,abs=0x4D,abx=0x5D,aby=0x59,inx=0x41,iny=0x51)
add(T,'JMP',abs=0x4C,ind=0x6C); add(T,'JSR',abs=0x20)
add(T,'LDA',imm=0xA9,zpg=0xA5,zpx=0xB5,abs=0xAD,abx=0xBD,aby=0xB9,inx=0xA1,iny=0xB1)
add(T,'LDX',imm=0xA2,zpg=0xA6,zpy=0xB6,abs=0xAE,aby=0xBE); add(T,'LDY',imm=0xA0,zpg=0xA4,zpx=0xB4,abs=0xAC,abx=0xBC)
add(T,'LSR',acc=0x4A,zpg=0x46,zpx=0x56,abs=0x4E,abx=0x5E)
add(T,'ORA',imm=0x09,zpg=0x05,zpx=0x15,abs=0x0D,abx=0x1D,aby=0x19,inx=0x01,iny=0x11)
add(T,'ROL',acc=0x2A,zpg=0x26,zpx=0x36,abs=0x2E,abx=0x3E); add(T,'ROR',acc=0x6A,zpg=0x66,zpx=0x76,abs=0x6E,abx=0x7E)
add(T,'SBC',imm=0xE9,zpg=0xE5,zpx=0xF5,abs=0xED,abx=0xFD,aby=0xF9,inx=0xE1,iny=0xF1)
add(T,'STA',zpg=0x85,zpx=0x95,abs=0x8D,abx=0x9D,aby=0x99,inx=0x81,iny=0x91)
add(T,'STX',zpg=0x86,zpy=0x96,abs=0x8E); add(T,'STY',zpg=0x84,zpx=0x94,abs=0x8C)
CMOS=dict(NMOS); T=CMOS
add(T,'TSB',zpg=0x04,abs=0x0C); add(T,'TRB',zpg=0x14,abs=0x1C)
for i in range(8): T[0x07+0x10*i]=('RMB%d'%i,'zpg'); T[0x87+0x10*i]=('SMB%d'%i,'zpg')
for mn,op in [('ORA',0x12),('AND',0x32),('EOR',0x52),('ADC',0x72),('STA',0x92),('LDA',0xB2),('CMP',0xD2),('SBC',0xF2)]: T[op]=(mn,'zpi')
T[0x1A]=('INC','acc'); T[0x3A]=('DEC','acc'); add(T,'BIT',zpx=0x34,abx=0x3C,imm=0x89)
for mn,op in [('PHY',0x5A),('PLY',0x7A),('PHX',0xDA),('PLX',0xFA),('WAI',0xCB)]: T[op]=(mn,'imp')
add(T,'STZ',zpg=0x64,zpx=0x74,abs=0x9C,abx=0x9E); T[0x7C]=('JMP','iax'); T[0x80]=('BRA','rel')

LEN={'imp':1,'acc':1,'imm':2,'zpg':2,'zpx':2,'zpy':2,'rel':2,'inx':2,'iny':2,'zpi':2,'abs':3,'abx':3,'aby':3,'ind':3,'iax':3}
READ={'LDA','LDX','LDY','ADC','SBC','AND','ORA','EOR','CMP','CPX','CPY','BIT'}
RMW={'ASL','LSR','ROL','ROR','INC','DEC'}
def base_cycles(mn,mo,cmos):
    if mo=='rel': return 3 if mn=='BRA' else 2
    if mn in READ: return {'imm':2,'zpg':3,'zpx':4,'zpy':4,'abs':4,'abx':4,'aby':4,'inx':6,'iny':5,'zpi':5}[mo]
    if mn in ('STA','STX','STY','STZ'): return {'zpg':3,'zpx':4,'zpy':4,'abs':4,'abx':5,'aby':5,'inx':6,'iny':6,'zpi':5}[mo]
    if mn in RMW: return {'acc':2,'zpg':5,'zpx':6,'abs':6,'abx':7}[mo]
    if mn in('TSB','TRB'): return {'zpg':5,'abs':6}[mo]
    if mn[:3] in('RMB','SMB'): return 5
    if mn=='JMP': return {'abs':3,'ind':6 if cmos else 5,'iax':6}[mo]
    return {'JSR':6,'RTS':6,'RTI':6,'BRK':7,'PHA':3,'PHP':3,'PHX':3,'PHY':3,'PLA':4,'PLP':4,'PLX':4,'PLY':4,'WAI':3}.get(mn,2)

def s8(b): return b-256 if b>=128 else b
def step(cmos, r, mem):
    """r: dict a x y sp p pc ; mem: function addr->byte (pre-state). returns (r', writes dict, cycles, waiting)"""
    tbl=CMOS if cmos else NMOS
    a,x,y,sp,p,pc=r['a'],r['x'],r['y'],r['sp'],r['p'],r['pc']
    M=lambda ad: mem(ad & 0xFFFF)
    op=M(pc)
    if op not in tbl:
        return dict(r,pc=(pc+2)&0xFFFF),{},0,False
    mn,mo=tbl[op]; cyc=base_cycles(mn,mo,cmos); W={}; waiting=False
    o1=M(pc+1); o2=M(pc+2); npc=(pc+LEN[mo])&0xFFFF
    C=p&1; 
    def flag(bit,val):
        nonlocal p
        p=(p&~bit)|(bit if val else 0)
    def nz(v): flag(0x80,v&0x80); flag(2,v==0)
    cross=False; ea=None
    if mo=='zpg': ea=o1
    elif mo=='zpx': ea=(o1+x)&0xFF
    elif mo=='zpy': ea=(o1+y)&0xFF
    elif mo=='abs': ea=o1|(o2<<8)
    elif mo=='abx': b=o1|(o2<<8); ea=(b+x)&0xFFFF; cross=(b>>8)!=(ea>>8)
    elif mo=='aby': b=o1|(o2<<8); ea=(b+y)&0xFFFF; cross=(b>>8)!=(ea>>8)
    elif mo=='inx': z=(o1+x)&0xFF; ea=M(z)|(M((z+1)&0xFF)<<8)
    elif mo=='iny': b=M(o1)|(M((o1+1)&0xFF)<<8); ea=(b+y)&0xFFFF; cross=(b>>8)!=(ea>>8)
    elif mo=='zpi': ea=M(o1)|(M((o1+1)&0xFF)<<8)
    elif mo=='imm': ea=(pc+1)&0xFFFF
    def push(v):
        nonlocal sp
        W[0x100+sp]=v&0xFF; sp=(sp-1)&0xFF
    def pull():
        nonlocal sp
        sp=(sp+1)&0xFF
        return W.get(0x100+sp, M(0x100+sp))
    if mn in READ and mo in('abx','aby','iny') and cross: cyc+=1
    if mn in('LDA','LDX','LDY'):
        v=M(ea); nz(v)
        if mn=='LDA': a=v
        elif mn=='LDX': x=v
        else: y=v
    elif mn in('STA','STX','STY','STZ'): W[ea]={'STA':a,'STX':x,'STY':y,'STZ':0}[mn]
    elif mn in('AND','ORA','EOR'):
        v=M(ea); a={'AND':a&v,'ORA':a|v,'EOR':a^v}[mn]; nz(a)
    elif mn in('ADC','SBC'):
        v=M(ea)
        if p&8: raise NotImplementedError
        if mn=='SBC': v=v^0xFF
        t=a+v+C; sv=s8(a)+s8(v)+C
        flag(1,t>0xFF); flag(0x40, sv<-128 or sv>127); a=t&0xFF; nz(a)
    elif mn in('CMP','CPX','CPY'):
        reg={'CMP':a,'CPX':x,'CPY':y}[mn]; v=M(ea); flag(1,reg>=v); nz((reg-v)&0xFF)
    elif mn=='BIT':
        v=M(ea); flag(2,(a&v)==0)
        if mo!='imm': flag(0x80,v&0x80); flag(0x40,v&0x40)
    elif mn in RMW:
        v=a if mo=='acc' else M(ea)
        if mn=='ASL': flag(1,v&0x80); v=(v<<1)&0xFF
        elif mn=='LSR': flag(1,v&1); v=v>>1
        elif mn=='ROL': c=C; flag(1,v&0x80); v=((v<<1)|c)&0xFF
        elif mn=='ROR': c=C; flag(1,v&1); v=(v>>1)|(c<<7)
        elif mn=='INC': v=(v+1)&0xFF
        elif mn=='DEC': v=(v-1)&0xFF
        nz(v)
        if mo=='acc': a=v
        else: W[ea]=v
    elif mn in('TSB','TRB'):
        v=M(ea); flag(2,(a&v)==0); W[ea]=(v|a) if mn=='TSB' else (v&~a&0xFF)
    elif mn[:3]=='RMB': W[ea]=M(ea)&~(1<<int(mn[3]))&0xFF
    elif mn[:3]=='SMB': W[ea]=M(ea)|(1<<int(mn[3]))
    elif mo=='rel':
        cond={'BCC':not p&1,'BCS':p&1,'BEQ':p&2,'BNE':not p&2,'BMI':p&0x80,'BPL':not p&0x80,'BVS':p&0x40,'BVC':not p&0x40,'BRA':True}[mn]
        if cond:
            t=(npc+s8(o1))&0xFFFF
            if mn!='BRA': cyc+=1
            if (t>>8)!=(npc>>8): cyc+=1
            npc=t
    elif mn=='JMP':
        if mo=='abs': npc=o1|(o2<<8)
        elif mo=='ind':
            ptr=o1|(o2<<8)
            hi=(ptr+1)&0xFFFF if cmos else (ptr&0xFF00)|((ptr+1)&0xFF)
            npc=M(ptr)|(M(hi)<<8)
        else:
            ptr=((o1|(o2<<8))+x)&0xFFFF; npc=M(ptr)|(M(ptr+1)<<8)
    elif mn=='JSR':
        ret=(pc+2)&0xFFFF; push(ret>>8); push(ret); npc=o1|(o2<<8)
    elif mn=='RTS':
        lo=pull(); hi=pull(); npc=((lo|(hi<<8))+1)&0xFFFF
    elif mn=='RTI':
        p=pull(); lo=pull(); hi=pull(); npc=lo|(hi<<8)
    elif mn=='BRK':
        ret=(pc+2)&0xFFFF; push(ret>>8); push(ret); push(p|0x30); p|=4
        if cmos: p&=~8
        npc=M(0xFFFE)|(M(0xFFFF)<<8)
    elif mn=='PHA': push(a)
    elif mn=='PHX': push(x)
    elif mn=='PHY': push(y)
    elif mn=='PHP': push(p|0x30)
    elif mn=='PLA': a=pull(); nz(a)
    elif mn=='PLX': x=pull(); nz(x)
    elif mn=='PLY': y=pull(); nz(y)
    elif mn=='PLP': p=pull()
    elif mn=='CLC': p&=~1
    elif mn=='SEC': p|=1
    elif mn=='CLD': p&=~8
    elif mn=='SED': p|=8
    elif mn=='CLI': p&=~4
    elif mn=='SEI': p|=4
    elif mn=='CLV': p&=~0x40
    elif mn=='DEX': x=(x-1)&0xFF; nz(x)
    elif mn=='DEY': y=(y-1)&0xFF; nz(y)
    elif mn=='INX': x=(x+1)&0xFF; nz(x)
    elif mn=='INY': y=(y+1)&0xFF; nz(y)
    elif mn=='TAX': x=a; nz(x)
    elif mn=='TAY': y=a; nz(y)
    elif mn=='TSX': x=sp; nz(x)
    elif mn=='TXA': a=x; nz(a)
    elif mn=='TYA': a=y; nz(a)
    elif mn=='TXS': sp=x
    elif mn=='NOP': pass
    elif mn=='WAI': waiting=True
    else: raise KeyError(mn)
    return dict(a=a,x=x,y=y,sp=sp,p=p&0xFF,pc=npc),W,cyc,waiting

class Rec:
    """dict-backed 16-bit memory with PRF background, wraps like ObservableMemory (mask) so F1 does not crash"""
    def __init__(s,seed,over): s.seed=seed; s.d=dict(over); s.w={}
    def bg(s,a): return ((a*167+s.seed*13+(a>>8)*31) ^ (a>>3)) & 0xFF
    def __getitem__(s,a):
        a&=0xFFFF
        return s.d[a] if a in s.d else s.bg(a)
    def __setitem__(s,a,v): a&=0xFFFF; s.d[a]=v; s.w[a]=v

B=[0,1,0x0F,0x10,0x7F,0x80,0xFE,0xFF]
def rb(rnd): return rnd.choice(B) if rnd.random()<0.5 else rnd.randrange(256)
def main():
    rnd=random.Random(1); bad={}
    for cmos,K in ((False,N),(True,C)):
        tbl=CMOS if cmos else NMOS
        for op in range(256):
            for it in range(300):
                pc=rnd.choice([0,0xFD,0xFE,0xFF,0x100,0x1FD,0x1FE,0x200,0x7FFD,0xFFFC,0xFFFD,0xFFFE,0xFFFF,rnd.randrange(65536)])
                over={pc:op,(pc+1)&0xFFFF:rb(rnd),(pc+2)&0xFFFF:rb(rnd)}
                # make pointers interesting
                for _ in range(3): over[rnd.choice([0xFF,0x00,0x100,0x1FF,0xFFFF,rnd.randrange(65536)])]=rb(rnd)
                over[pc]=op
                seed=rnd.randrange(1<<20)
                r=dict(a=rb(rnd),x=rb(rnd),y=rb(rnd),sp=rb(rnd),p=rnd.randrange(256),pc=pc)
                if op in tbl and tbl[op][0] in('ADC','SBC'): r['p']&=~8
                mem=Rec(seed,over); pre=Rec(seed,over)
                m=K(memory=mem); m.a,m.x,m.y,m.sp,m.p,m.pc=r['a'],r['x'],r['y'],r['sp'],r['p'],r['pc']
                if op in tbl and tbl[op][0]=='JSR':
                    # self-overwrite exclusion
                    if {0x100+r['sp'],0x100+((r['sp']-1)&0xFF)} & {(pc+1)&0xFFFF,(pc+2)&0xFFFF}: continue
                try: m.step()
                except Exception as e:
                    bad.setdefault((cmos,op,'EXC '+type(e).__name__),(r,over)); continue
                er,W,cyc,wait=step(cmos,r,lambda ad: pre[ad])
                got=dict(a=m.a,x=m.x,y=m.y,sp=m.sp,p=m.p|0x30,pc=m.pc); er=dict(er,p=er['p']|0x30)
                if got!=er: bad.setdefault((cmos,op,'REGS'),(r,over,seed,got,er))
                gw={a:v for a,v in mem.w.items()}
                ew={a&0xFFFF:v for a,v in W.items()}
                # compare final memory on touched cells
                for ad in set(gw)|set(ew):
                    ev=ew.get(ad, pre[ad]); gv=mem[ad]
                    if ev!=gv: bad.setdefault((cmos,op,'MEM'),(r,over,seed,hex(ad),gv,ev))
                if m.processorCycles!=cyc: bad.setdefault((cmos,op,'CYC'),(r,over,seed,m.processorCycles,cyc))
                if cmos and getattr(m,'waiting',False)!=wait: bad.setdefault((cmos,op,'WAIT'),())
    for k,v in sorted(bad.items()): print(('65C02' if k[0] else '6502'),hex(k[1]),(CMOS if k[0] else NMOS).get(k[1]),k[2],v[-2:] if len(v)>2 else '')
    print('deviating (device,opcode,kind) triples:',len(bad))
main()
