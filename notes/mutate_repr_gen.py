#!/usr/bin/env python3
"""Mutation test of the display tie by regeneration (notes/repr-gen-tie.md): apply one textual edit to a
scratch copy of /repo's py65/ directory, run `bin/check C19 --tier quick` with PY65_REPO pointing at it,
restore.  Usage: mutate_repr_gen.py [names...]   (default: all).  Environment: MUT_REPO (default
/tmp/ext/repr/mut), VERIF_SEED (default 0).  Afterwards the check is run once on the unchanged /repo
(restores lean/Py65/Gen/ReprGen.lean, MonShowGen.lean to the pinned translation) and the scratch copy is deleted.
Prints one table row per mutation."""
import os
import re
import shutil
import subprocess
import sys
import time

VERIF = os.path.dirname(os.path.dirname(os.path.abspath(__file__)))
MUT = os.environ.get('MUT_REPO', '/tmp/ext/repr/mut')
FILES = {'mon': 'py65/monitor.py', 'm6502': 'py65/devices/mpu6502.py', 'c02': 'py65/devices/mpu65c02.py',
         'org16': 'py65/devices/mpu65org16.py'}
ORIG = dict((k, open(os.path.join('/repo', v)).read()) for k, v in FILES.items())

M = []


def mut(name, kind, fkey, old, new, what):
    M.append((name, kind, [(fkey, old, new)], what))


# ---- semantic mutations (each must end in a VIOLATION line) -------------------------------------------
mut('S01-rjust-8', 'sem', 'm6502', ".rjust(self.BYTE_WIDTH, '0')", ".rjust(8, '0')",
    "flags padded to 8 instead of BYTE_WIDTH (65Org16 differs)")
mut('S02-bit5-forced', 'sem', 'm6502', "itoa(self.p, 2)", "itoa(self.p | 0x20, 2)", "P printed with bit 5 forced")
mut('S03-x-y-swapped', 'sem', 'm6502', "self.x, self.y, self.sp, flags)", "self.y, self.x, self.sp, flags)",
    "X and Y swapped in the template arguments")
mut('S04-oct-03', 'sem', 'mon', 'self._output("%04o" % num)', 'self._output("%03o" % num)', "`%04o` -> `%03o`")
mut('S05-no-zfill', 'sem', 'mon', "self._output(itoa(num, 2).zfill(8))", "self._output(itoa(num, 2))", "zfill(8) removed")
mut('S06-dec-masked', 'sem', 'mon', 'self._output("+%u" % num)', 'self._output("+%u" % (num & 0xffff))',
    '`"+%u" % (num & 0xffff)`')
mut('S07-walk-strict', 'sem', 'mon', "while needs_wrap or cur_address <= end:", "while needs_wrap or cur_address < end:",
    "disassemble walk `cur_address < end`")
mut('S08-walk-by-one', 'sem', 'mon', "            remaining = length\n", "            remaining = 1\n",
    "walk advancing by 1 instead of the returned length")
mut('S09-cycles-masked', 'sem', 'mon', "self._output(str(self._mpu.processorCycles))",
    "self._output(str(self._mpu.processorCycles & 0xffff))", "do_cycles prints processorCycles & 0xffff")
mut('S10-org16-header', 'sem', 'org16', 'YR   SP  NV---------BDIZC\\n"', 'YR   SP NV---------BDIZC\\n"',
    "65Org16 header: flag title one column to the left")
mut('S11-status-no-blank', 'sem', 'mon', 'self._output("\\n" + repr(self._mpu))', 'self._output(repr(self._mpu))',
    "status print without the leading blank line")
mut('S12-tilde-addrfmt', 'sem', 'mon', 'self._output("$" + self.byteFmt % num)', 'self._output("$" + self.addrFmt % num)',
    "`~` hex line in the address format")
mut('S13-wrap-to-one', 'sem', 'mon', "                    needs_wrap = False\n                    cur_address = 0\n",
    "                    needs_wrap = False\n                    cur_address = 1\n", "wrapping walk continues at 1")
mut('S14-handlers-swapped', 'sem', 'mon',
    '        except KeyError:\n            self._output("Bad label: %s" % args)\n        except OverflowError:\n            self._output("Overflow error: %s" % args)',
    '        except OverflowError:\n            self._output("Bad label: %s" % args)\n        except KeyError:\n            self._output("Overflow error: %s" % args)',
    "do_tilde: the two except clauses exchanged")
mut('S15-c02-name', 'sem', 'c02', "self.name = '65C02'", "self.name = '65c02'", "65C02 calls itself 65c02")
mut('S16-flags-cache', 'sem', 'm6502', "        flags = itoa(self.p, 2).rjust(self.BYTE_WIDTH, '0')\n",
    "        if not hasattr(self, '_flags'):\n            self._flags = itoa(self.p, 2).rjust(self.BYTE_WIDTH, '0')\n        flags = self._flags\n",
    "flag text computed once and cached on the instance")
mut('S17-pc-byte-format', 'sem', 'm6502', '"%s: %04x %02x %02x %02x %02x %s")', '"%s: %02x %02x %02x %02x %02x %s")',
    "6502/65C02 PC printed with %02x")
mut('S18-end-ignored', 'sem', 'mon', "            end = self._address_parser.number(address_parts[1])\n",
    "            end = self._address_parser.number(address_parts[0])\n", "disassemble: end parsed from the start text")
# ---- harmless edits (must be accepted silently: C19 OK) ------------------------------------------------
M.append(('H1-comments-docstrings', 'harmless', 'H1', "comments and docstrings added to every translated function"))
M.append(('H2-rename-locals', 'harmless', 'H2', "consistent renames of locals in __repr__, do_tilde, do_disassemble"))
M.append(('H3-rewrap', 'harmless', 'H3', "re-wrapped lines, quote style, redundant parentheses"))
M.append(('H4-literal-joined', 'harmless', 'H4', "65Org16 reprformat: the two literals written as one"))
M.append(('H5-other-methods', 'harmless', 'H5', "edits of methods that are not translated (do_radix, help_cycles)"))


def infunc(s, fname, f, indent='    '):
    a = s.index('%sdef %s(' % (indent, fname))
    b = s.index('\n%sdef ' % indent, a + 1)
    return s[:a] + f(s[a:b]) + s[b:]


def harmless(tag, src):
    out = dict(src)
    if tag == 'H1':
        out['m6502'] = infunc(out['m6502'], '__repr__', lambda t: t.replace(
            "    def __repr__(self):\n", "    def __repr__(self):\n        \"\"\"two lines: a header and the registers\"\"\"\n        # flags first\n"))
        out['mon'] = infunc(out['mon'], 'do_tilde', lambda t: t.replace(
            "        try:\n", "        # show the number in four radixes\n        try:\n"))
        out['mon'] = infunc(out['mon'], 'do_disassemble', lambda t: t.replace(
            "        splitted = shlex.split(args)\n", "        \"\"\"disassemble a range\"\"\"\n\n        splitted = shlex.split(args)  # one token\n"))
        out['mon'] = infunc(out['mon'], 'do_cycles', lambda t: t.replace(
            "    def do_cycles(self, args):\n", "    def do_cycles(self, args):\n        # the counter\n"))
    elif tag == 'H2':
        out['m6502'] = infunc(out['m6502'], '__repr__', lambda t: re.sub(r'\bindent\b', 'pad', re.sub(r'\bflags\b', 'flagtext', t)))
        out['mon'] = infunc(out['mon'], 'do_tilde', lambda t: re.sub(r'\bnum\b', 'value', t))
        out['mon'] = infunc(out['mon'], 'do_disassemble', lambda t: re.sub(r'\bcur_address\b', 'cur', re.sub(
            r'\bremaining\b', 'left', re.sub(r'\bsplitted\b', 'tokens', re.sub(r'\bneeds_wrap\b', 'wrapping', t)))))
    elif tag == 'H3':
        out['m6502'] = infunc(out['m6502'], '__repr__', lambda t: t.replace(
            "        return self.reprformat() % (indent, self.name, self.pc, self.a,\n                                    self.x, self.y, self.sp, flags)",
            "        return self.reprformat() % (\n            indent, self.name,\n            self.pc, self.a, self.x, self.y, self.sp,\n            flags)").replace(
            "rjust(self.BYTE_WIDTH, '0')", 'rjust(self.BYTE_WIDTH, "0")'))
        out['mon'] = infunc(out['mon'], 'do_tilde', lambda t: t.replace('"%04o" % num', "'%04o' % (num)"))
        out['mon'] = infunc(out['mon'], 'do_disassemble', lambda t: t.replace(
            "max_address = (2 ** self._mpu.ADDR_WIDTH) - 1", "max_address = 2 ** self._mpu.ADDR_WIDTH - 1").replace(
            "            length, disasm = self._disassembler.instruction_at(cur_address)",
            "            length, disasm = \\\n                self._disassembler.instruction_at(cur_address)"))
    elif tag == 'H4':
        out['org16'] = out['org16'].replace(
            '        return ("%s   PC     AC   XR   YR   SP  NV---------BDIZC\\n" +\n                "%s: %08x %04x %04x %04x %04x %s")',
            '        return "%s   PC     AC   XR   YR   SP  NV---------BDIZC\\n%s: %08x %04x %04x %04x %04x %s"')
    elif tag == 'H5':
        out['mon'] = out['mon'].replace('self._output("Display the total number of cycles executed.")',
                                        'self._output("Display the total number of cycles executed so far.")')
        out['mon'] = infunc(out['mon'], 'do_radix', lambda t: t.replace("radixes = {", "radixes = {  # names\n            "))
    changed = [k for k in out if out[k] != src[k]]
    if not changed:
        raise SystemExit('harmless edit %s did not apply' % tag)
    return out


def write_tree(src):
    for k, rel in FILES.items():
        with open(os.path.join(MUT, rel), 'w') as f:
            f.write(src[k])


def run_check(repo):
    env = dict(os.environ, PY65_REPO=repo, VERIF_SEED=os.environ.get('VERIF_SEED', '0'))
    t0 = time.time()
    p = subprocess.run([os.path.join(VERIF, 'bin', 'check'), 'C19', '--tier', 'quick'], cwd=VERIF, env=env,
                       stdout=subprocess.PIPE, stderr=subprocess.STDOUT)
    return p.returncode, p.stdout.decode('utf-8', 'replace'), time.time() - t0


def summarise(rc, out):
    lines = out.split('\n')
    vio = [l for l in lines if l.startswith('VIOLATION')]
    first = [l.strip() for l in lines if 'first failing input' in l]
    broken = [l.strip() for l in lines if l.strip().startswith('broken:')]
    refused = [l.strip() for l in lines if 'REFUSED' in l]
    ok = [l for l in lines if re.match(r'C19 (OK|FAIL) ', l)]
    route = []
    if refused:
        route.append('translator REFUSED: ' + refused[0].split('REFUSED', 1)[1][:110].strip())
    names = sorted(set(re.findall(r'\[in (?:theorem|def|example) (\S+)\]', out)))
    if names:
        route.append('broken: ' + ', '.join(names[:4]))
    if first:
        route.append(first[0][:200])
    elif vio and 'no-failing-input-found' in vio[0]:
        route.append('no-failing-input-found; ' + (broken[0][:230] if broken else ''))
    return (vio[0] if vio else (ok[0] if ok else 'rc=%d' % rc)), ' // '.join(route)


def main():
    want = sys.argv[1:]
    if os.path.isdir(MUT):
        shutil.rmtree(MUT)
    os.makedirs(MUT)
    shutil.copytree('/repo/py65', os.path.join(MUT, 'py65'))
    rows = []
    rdir = os.path.join(VERIF, 'replays')
    replays_before = set(os.listdir(rdir)) if os.path.isdir(rdir) else set()
    try:
        for m in M:
            name, kind = m[0], m[1]
            if want and not any(name.startswith(w) for w in want):
                continue
            src = dict(ORIG)
            if kind == 'sem':
                for fkey, old, new in m[2]:
                    if src[fkey].count(old) != 1:
                        raise SystemExit('mutation %s: pattern occurs %d times in %s' % (name, src[fkey].count(old), FILES[fkey]))
                    src[fkey] = src[fkey].replace(old, new)
                what = m[3]
            else:
                src = harmless(m[2], src)
                what = m[3]
            write_tree(src)
            rc, out, dt = run_check(MUT)
            verdict, route = summarise(rc, out)
            good = (rc == 1 and verdict.startswith('VIOLATION')) if kind == 'sem' else (rc == 0 and ' OK ' in verdict)
            rows.append((name, what, verdict, route, dt, good))
            print('| %s | %s | %s | %s | %.0fs | %s |' % (name, what, verdict.replace('|', '/'), route.replace('|', '/'),
                                                         dt, 'as expected' if good else 'UNEXPECTED'), flush=True)
            write_tree(ORIG)
    finally:
        shutil.rmtree(MUT, ignore_errors=True)
        if os.environ.get('KEEP_REPLAYS') != '1':        # the replay files of the mutated trees are scratch
            for f in set(os.listdir(rdir)) - replays_before:
                os.remove(os.path.join(rdir, f))
        rc, out, dt = run_check('/repo')
        print('unchanged /repo afterwards: %s' % summarise(rc, out)[0])
    bad = [r for r in rows if not r[5]]
    print('%d mutations, %d as expected' % (len(rows), len(rows) - len(bad)))
    sys.exit(1 if bad else 0)


if __name__ == '__main__':
    main()
