"""usage: mutate.py <letter> -> creates /tmp/wE/mut/r_<letter> (copy of /repo with one defect)"""
import shutil, sys, os, re
L = sys.argv[1]
dst = '/tmp/wE/mut/r_' + L
shutil.rmtree(dst, ignore_errors=True)
shutil.copytree('/repo', dst, ignore=shutil.ignore_patterns('.git', '__pycache__'))
def edit(rel, old, new, count=1):
    p = os.path.join(dst, rel); s = open(p).read()
    assert s.count(old) >= 1, (rel, old)
    s = s.replace(old, new, count); open(p, 'w').write(s)
if L == 'a':   # do_registers assigns before the width check
    edit('py65/monitor.py', """                if register != 'pc':
                    if intval != (intval & self.byteMask):""", """                setattr(self._mpu, register, intval)
                if register != 'pc':
                    if intval != (intval & self.byteMask):""")
elif L == 'b':  # __repr__ prints x and y swapped
    edit('py65/devices/mpu6502.py', "self.x, self.y, self.sp, flags)", "self.y, self.x, self.sp, flags)")
elif L == 'c':  # shortcut d -> delete_label
    edit('py65/monitor.py', "'d':    'disassemble',", "'d':    'delete_label',")
elif L == 'd':  # comments stripped inside quotes too
    edit('py65/monitor.py', "            if (not quoted) and (char == ';'):", "            if char == ';':")
elif L == 'e':  # putc also subscribed to reads (literal reading of the task)
    edit('py65/monitor.py', "        m.subscribe_to_write([self.putc_addr], putc)\n", "        m.subscribe_to_write([self.putc_addr], putc)\n        m.subscribe_to_read([self.putc_addr], putc)\n")
elif L == 'e2':  # a second output subscriber: every stored byte is written twice
    edit('py65/monitor.py', "        m.subscribe_to_write([self.putc_addr], putc)\n", "        m.subscribe_to_write([self.putc_addr], putc)\n        m.subscribe_to_write([self.putc_addr], lambda a, v: putc(a, v))\n")
elif L == 'f':  # getc does not convert LF
    edit('py65/utils/console.py', "        if len(char) and ord(char) == 10:\n            char = '\\r'\n", "")
elif L == 'g':  # width < 10 accepted
    edit('py65/monitor.py', "                if new_width >= 10:", "                if new_width >= 1:")
elif L == 'h':  # add_label stores before validating
    edit('py65/monitor.py', """        try:
            address = self._address_parser.number(split[0])
        except KeyError as exc:
            self._output(exc.args[0]) # "Label not found: foo\"""", """        self._address_parser.labels[split[1]] = 0
        try:
            address = self._address_parser.number(split[0])
        except KeyError as exc:
            self._output(exc.args[0]) # "Label not found: foo\"""")
print(dst)
