/- The driver without the translated device code (used when `Py65.Gen.*` no longer compiles). -/
import Py65.Driver.Handle

open Py65 Py65.Driver

def handle (line : String) : String := (handleBase (tokens line)).getD "bad-op"

def main : IO Unit := do
  let out ← IO.getStdout
  loop handle (← IO.getStdin) out
  out.flush
