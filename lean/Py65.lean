import Py65.PyInt
import Py65.Machine
import Py65.Gen.Devices
