/-
C11 for the REGENERATED model: the property theorems of `Py65/Props/C11.lean`, restated for the
definitions that `harness/py2lean_mem.py` translates from the current `py65/memory.py`
(`Py65/Gen/ObsMemGen.lean`).  Property statements only; each follows from its hand-model
counterpart by rewriting with the equalities of `Py65/Proofs/ObsMemGenEq.lean`.

`ObsMemGenEq.replayObs` replays a device's item accesses with the generated
`__getitem__`/`__setitem__` (int index); `ObsMemGenEq.run`/`initOf` build memories with the
generated `__init__` and `subscribe_to_*`.
-/
import Py65.Props.C11
import Py65.Proofs.ObsMemGenEq

namespace Py65.Props.C11g
open Py65 Py65.Gen Py65.Proofs Py65.Spec.ObsMem
open Py65.Model.ObsMem (Reply OM Op Ev)
open Py65.Proofs.ObsMemGenEq (init_eq run_eq getitem_int_eq setitem_int_eq replayObs_eq)

/-- `obs_transparent_get` for the generated `__getitem__`. -/
theorem obs_transparent_get (reply : Reply) (m : OM) (hm : WF m) (hq : Quiet reply m) (a : Int)
    (h0 : 0 ≤ a) (h1 : a ≤ m.physMask) :
    (ObsMemGen.getitem_int reply m a).1 = m.subject a ∧
    (ObsMemGen.getitem_int reply m a).2 =
      { m with log := m.log ++ (m.rsubs.of a).map (fun cb => { cb := cb, addr := a, val := none }) } := by
  rw [getitem_int_eq]
  exact C11.obs_transparent_get reply m hm hq a h0 h1

/-- `obs_transparent_set` for the generated `__setitem__`. -/
theorem obs_transparent_set (reply : Reply) (m : OM) (hm : WF m) (hq : Quiet reply m) (a v : Int)
    (h0 : 0 ≤ a) (h1 : a ≤ m.physMask) :
    ObsMemGen.setitem_int reply m a v =
      { m with subject := upd m.subject a v, log := (ObsMemGen.setitem_int reply m a v).log } ∧
    (ObsMemGen.setitem_int reply m a v).log =
      m.log ++ (m.wsubs.of a).map (fun cb => { cb := cb, addr := a, val := some v }) := by
  rw [setitem_int_eq]
  exact C11.obs_transparent_set reply m hm hq a v h0 h1

/-- non-vacuity: a 64 K memory built by the generated methods, with a read subscriber on `$F004`
and a write subscriber on `$F001` that answer `None`, is `WF` and `Quiet`; the read returns the
cell, the write stores the value, and both callbacks were called. -/
example :
    let reply : Reply := fun _ _ _ _ => none
    let m := ObsMemGenEq.run reply (ObsMemGenEq.initOf 16 fun a => a % 256) [.subR [0xf004] 1, .subW [0xf001] 2]
    WF m ∧ Quiet reply m ∧
    (ObsMemGen.getitem_int reply m 0xf004).1 = 4 ∧
    (ObsMemGen.getitem_int reply m 0xf004).2.log = [⟨1, 0xf004, none⟩] ∧
    (ObsMemGen.setitem_int reply m 0xf001 65).subject 0xf001 = 65 ∧
    (ObsMemGen.setitem_int reply m 0xf001 65).log = [⟨2, 0xf001, some 65⟩] := by
  refine ⟨?_, fun _ _ _ _ _ _ => rfl, ?_⟩
  · rw [run_eq, init_eq]; exact Model.ObsMem.run_WF _ _ _ (Model.ObsMem.init_WF _ _)
  · decide +kernel

/-- `replay_equiv` for the generated item access: replaying ANY list of in-range accesses on a
plain memory and on a generated `ObservableMemory` whose subscribers all answer `None` gives the
same values and the same cells; subscriptions, mask and length are untouched. -/
theorem replay_equiv (reply : Reply) (evs : List MemEv) (mem : Int → Int) (m : OM)
    (hm : WF m) (hq : Quiet reply m)
    (hin : ∀ e ∈ evs, InRange m.physMask e)
    (hsame : ∀ k, 0 ≤ k → k ≤ m.physMask → mem k = m.subject k) :
    (ObsMemGenEq.replayObs reply m evs).1 = (replayPlain mem evs).1 ∧
    (∀ k, 0 ≤ k → k ≤ m.physMask →
        (replayPlain mem evs).2 k = (ObsMemGenEq.replayObs reply m evs).2.subject k) ∧
    (ObsMemGenEq.replayObs reply m evs).2.rsubs = m.rsubs ∧
    (ObsMemGenEq.replayObs reply m evs).2.wsubs = m.wsubs ∧
    (ObsMemGenEq.replayObs reply m evs).2.physMask = m.physMask ∧
    (ObsMemGenEq.replayObs reply m evs).2.subjLen = m.subjLen := by
  rw [replayObs_eq]
  exact C11.replay_equiv reply evs mem m hm hq hin hsame

/-- non-vacuity: read, write, read of observed cells and of an unobserved one, replayed on both
memories: same values, same cells, while the observers were called three times. -/
example :
    let reply : Reply := fun _ _ _ _ => none
    let cells : Int → Int := fun a => a % 256
    let m := ObsMemGenEq.run reply (ObsMemGenEq.initOf 16 cells) [.subR [0xf004, 0xf001] 1, .subW [0xf001] 2]
    let evs : List MemEv := [.r 0xf001, .w 0xf001 2, .r 0xf004, .r 0x10, .w 0xffff 9, .r 0xffff]
    (ObsMemGenEq.replayObs reply m evs).1 = [some 1, none, some 4, some 16, none, some 9] ∧
    (replayPlain cells evs).1 = [some 1, none, some 4, some 16, none, some 9] ∧
    (ObsMemGenEq.replayObs reply m evs).2.subject 0xf001 = 2 ∧ (replayPlain cells evs).2 0xf001 = 2 ∧
    (ObsMemGenEq.replayObs reply m evs).2.log =
      [⟨1, 0xf001, none⟩, ⟨2, 0xf001, some 2⟩, ⟨1, 0xf004, none⟩] ∧
    (∀ e ∈ evs, InRange m.physMask e) := by
  decide +kernel

end Py65.Props.C11g
