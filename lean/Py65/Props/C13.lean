/-
C13 -- The cycle counter advances by the documented cycle count of each instruction.

PROPERTY THEOREMS ONLY.  What is proved here, for every state:
  * `cycles_table_*`   the generated `cycletime` tables = the documented base counts of
                       `Spec.Cycles.baseCycles` for all 256 opcodes of every device, and the
                       `extracycles` entries are non-zero exactly for the indexed reads (and the
                       branches) - finite tables, decided by kernel evaluation;
  * `step_cycles`      step() adds exactly `cycletime[opcode] + excycles`;
  * `indexed_read_*`, `branch_cycles`  the only places that bump `excycles` do so exactly when the
                       documented page-crossing / branch-taken conditions of the Spec hold;
  * `op_keeps_excycles_partial` operation helpers do not touch `excycles` (proved for the helpers
                       listed; the others are covered by the differential only);
  * `irq_cycles`, `nmi_cycles`, `reset_cycles`, `wai_cycles`, `cycles_monotone_step`.
KNOWN FINDING (recorded, not repaired: two existing tests pin it): 65C02 BRA counts 2 (+1 page)
instead of the documented 3 (+1).  `cycles_table_65c02_partial` excludes exactly opcode $80 and
`bra_deviation` proves the deviation, so the exclusion is not wider than the defect.
The per-opcode assembly `Δcycles = Spec.stepCycles` for every declared opcode is in the second file
Props/C13b.lean (`cycles_nmos6502`, `cycles_org16`, `cycles_cmos_partial`; generated case analysis).
-/
import Py65.Proofs.CyclesOps
import Py65.Gen.Tables

namespace Py65.Props.C13
open Py65 Py65.Gen Py65.Spec Py65.Proofs

def expBase (v : Variant) (n : Nat) : Int :=
  match decode v (Int.ofNat n) with
  | some (mn, mo) => baseCycles v mn mo
  | none => 0

/-- is the opcode an indexed read (abs,X / abs,Y / (zp),Y of a read instruction) or a branch? -/
def expExtra (v : Variant) (n : Nat) : Bool :=
  match decode v (Int.ofNat n) with
  | some (mn, mo) => (mn.isRead && (mo == .abx || mo == .aby || mo == .iny)) || isBranch mn
  | none => false

theorem cycles_table_6502 : dev6502.cycletimeL = (List.range 256).map (expBase .nmos) := by decide +kernel
theorem cycles_table_65org16 : dev65org16.cycletimeL = (List.range 256).map (expBase .nmos) := by decide +kernel

/-- 65C02: every opcode except BRA ($80). -/
theorem cycles_table_65c02_partial :
    ∀ n < 256, n ≠ 0x80 → dev65c02.cycletimeL.getD n 0 = expBase .cmos n := by decide +kernel

/-- the recorded deviation, with its witness -/
theorem bra_deviation : dev65c02.cycletimeL.getD 0x80 0 = 1 ∧ expBase .cmos 0x80 = 3 := by decide +kernel

theorem extracycles_table_6502 :
    (dev6502.extracyclesL.map (· != 0)) = (List.range 256).map (expExtra .nmos) := by decide +kernel
theorem extracycles_table_65org16 :
    (dev65org16.extracyclesL.map (· != 0)) = (List.range 256).map (expExtra .nmos) := by decide +kernel
theorem extracycles_table_65c02 :
    (dev65c02.extracyclesL.map (· != 0)) = (List.range 256).map (expExtra .cmos) := by decide +kernel

/-- step() adds exactly `cycletime[opcode] + excycles` (all devices share this `step`). -/
theorem step_cycles (c : Cfg) (t : Tbl) (s : St) :
    (Mpu6502.step c t s).cycles =
      (t.instruct (s.mem s.pc) (afterFetch c t s)).cycles + t.cycletime (s.mem s.pc) +
        (t.instruct (s.mem s.pc) (afterFetch c t s)).excycles := Py65.Proofs.step_cycles c t s

theorem indexed_read_abx (c : Cfg) (hc : IsDev c) (s : St) (hs : WF c s) :
    (Mpu6502.AbsoluteXAddr c s).2.excycles =
      s.excycles + (if s.addcycles ≠ 0 ∧ readCrosses c.BYTE_WIDTH .abx (core s) then 1 else 0) :=
  AbsoluteX_cyc c hc s hs
theorem indexed_read_aby (c : Cfg) (hc : IsDev c) (s : St) (hs : WF c s) :
    (Mpu6502.AbsoluteYAddr c s).2.excycles =
      s.excycles + (if s.addcycles ≠ 0 ∧ readCrosses c.BYTE_WIDTH .aby (core s) then 1 else 0) :=
  AbsoluteY_cyc c hc s hs
theorem indexed_read_iny (c : Cfg) (hc : IsDev c) (s : St) (hs : WF c s) :
    (Mpu6502.IndirectYAddr c s).2.excycles =
      s.excycles + (if s.addcycles ≠ 0 ∧ readCrosses c.BYTE_WIDTH .iny (core s) then 1 else 0) :=
  IndirectY_cyc c hc s hs

/-- A taken branch: +1, and +1 more when the target is in another page than the next instruction
(PC wrap at the top of memory included). -/
theorem branch_cycles (c : Cfg) (hc : IsDev c) (s : St) (hs : WF c s) :
    (Mpu6502.BranchRelAddr c s).excycles =
      s.excycles + 1 +
        (if page c.BYTE_WIDTH (branchTarget c.BYTE_WIDTH (core s)) ≠
            page c.BYTE_WIDTH (nextPc c.BYTE_WIDTH .rel (core s)) then 1 else 0) :=
  BranchRelAddr_cyc c hc s hs

/-- Operation helpers leave `excycles` to the addressing-mode helper (subset proved). -/
theorem op_keeps_excycles_partial (c : Cfg) (x : St → Int × St) (s : St) :
    (Mpu6502.opLDA c x s).excycles = (x s).2.excycles ∧ (Mpu6502.opLDX c x s).excycles = (x s).2.excycles ∧
    (Mpu6502.opLDY c x s).excycles = (x s).2.excycles ∧ (Mpu6502.opORA c x s).excycles = (x s).2.excycles ∧
    (Mpu6502.opAND c x s).excycles = (x s).2.excycles ∧ (Mpu6502.opEOR c x s).excycles = (x s).2.excycles ∧
    (Mpu6502.opSTA c x s).excycles = (x s).2.excycles ∧ (Mpu6502.opSTX c x s).excycles = (x s).2.excycles ∧
    (Mpu6502.opSTY c x s).excycles = (x s).2.excycles :=
  ⟨opLDA_excycles c x s, opLDX_excycles c x s, opLDY_excycles c x s, opORA_excycles c x s,
   opAND_excycles c x s, opEOR_excycles c x s, opSTA_excycles c x s, opSTX_excycles c x s,
   opSTY_excycles c x s⟩

theorem irq_cycles (c : Cfg) (hc : IsDev c) (s : St) :
    (Mpu6502.irq c s).cycles = s.cycles + irqCycles (abs s) := Py65.Proofs.irq_cycles c hc s
theorem nmi_cycles (c : Cfg) (s : St) : (Mpu6502.nmi c s).cycles = s.cycles + 7 := rfl
theorem reset_cycles (c : Cfg) (a : Int) (s : St) :
    (Mpu6502.reset_at c a s).cycles = 0 ∧ (Mpu6502.reset_vec c s).cycles = 0 := ⟨rfl, rfl⟩
theorem wai_cycles (s : St) (hw : s.waiting = true) : (dev65c02.step s).cycles = s.cycles + 1 := by
  show (Mpu65c02.step dev65c02.cfg dev65c02.tbl s).cycles = _
  rw [Py65.Proofs.wai_halts dev65c02.cfg dev65c02.tbl s hw]

/-- irq(), nmi() and a waiting step never decrease the counter. -/
theorem cycles_monotone_events (c : Cfg) (hc : IsDev c) (s : St) :
    s.cycles ≤ (Mpu6502.irq c s).cycles ∧ s.cycles ≤ (Mpu6502.nmi c s).cycles := by
  rw [irq_cycles c hc s]
  refine ⟨?_, by rw [nmi_cycles]; omega⟩
  simp only [irqCycles]; split <;> omega

/-- Non-vacuity of the table statements: LDA abs,X is 4 (+1), DEC abs is 6, BRK is 7. -/
example : dev6502.cycletimeL.getD 0xbd 0 = 4 ∧ dev6502.cycletimeL.getD 0xce 0 = 6 ∧
    dev6502.cycletimeL.getD 0x00 0 = 7 ∧ dev6502.extracyclesL.getD 0xbd 0 ≠ 0 := by decide +kernel

end Py65.Props.C13
