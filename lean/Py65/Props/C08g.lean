/-
C08g -- the main theorems of C08 ("disassembly re-assembles to the original bytes for every encoding
and address") restated for the GENERATED `Disassembler.instruction_at` (`Py65/Gen/DisasmGen.lean`,
translated from `py65/disassembler.py` by `harness/py2lean_dis.py` on every run), composed with the
assembler model `Model.Asm.assembleL`.

Property statements only.  `disOf d P mem` is `Disassembler(mpu, address_parser)` built by the
generated `__init__` (see `Py65/Proofs/DisasmGenEq.lean`, which proves `Gen.instruction_at =
Model.Disasm.instructionAt`); every theorem here is the C08 theorem rewritten with that equality.
-/
import Py65.Props.C08
import Py65.Proofs.DisasmGenEq

namespace Py65.Props.C08g
open Py65.Model Py65.Model.PyStr Py65.Model.AddrParser Py65.Model.Asm Py65.Model.Disasm
open Py65.Proofs.Asm Py65.Proofs.DisasmGenEq Py65.Gen.DisasmGen
open Py65.Spec (Mode Mn Variant decode)
open Py65.Spec.Asm (instrBytes)
open Py65.Props.C08 (exP memOf)

variable {d : Dev} {v : Variant} {W : Nat}

private theorem len_cast (mo : Mode) : ((mo.len.toNat : Nat) : Int) = mo.len := by cases mo <;> rfl

/-- `roundtrip`: for every device, every declared opcode `n` with every operand bytes, located at
any address `pc` where it fits, and every label table of identifier-like names: the generated
disassembler returns `(documented length, text)`, and that text re-assembles at `pc` to the original
bytes -- or, for an absolute / absolute,X / absolute,Y operand below one page whose mnemonic has the
zero-page form, to that zero-page form (`RoundTrip`). -/
theorem roundtrip (hd : IsDevice d v W) {P : Parser} (hg : GoodLabels P W) (mem : Int → Int) (pc : Int)
    (n : Nat) (hn : n < 256) (hop : byteAt d mem pc = (n : Int)) (mn : Mn) (mo : Mode)
    (hdec : decode v (n : Int) = some (mn, mo))
    (hb1 : 0 ≤ byteAt d mem (pc + 1) ∧ byteAt d mem (pc + 1) < 2 ^ W)
    (hb2 : 0 ≤ byteAt d mem (pc + 2) ∧ byteAt d mem (pc + 2) < 2 ^ W)
    (hfit : pc + mo.len ≤ 2 ^ (2 * W)) :
    ∃ text r, (disOf d P mem).instruction_at pc = .ok (mo.len, text) ∧ assembleL d P text pc = .ok r ∧
      RoundTrip v mn mo n (byteAt d mem (pc + 1)) (byteAt d mem (pc + 2)) r := by
  obtain ⟨text, r, h1, h2, h3⟩ := C08.roundtrip hd hg mem pc n hn hop mn mo hdec hb1 hb2 hfit
  exact ⟨text, r, by rw [← len_cast mo]; exact gen_of_model (.of_devOK hd.ok) h1, h2, h3⟩

/-- Every opcode other than absolute / absolute,X / absolute,Y, and those three with a non-zero
high byte, come back as exactly the original bytes. -/
theorem roundtrip_exact (hd : IsDevice d v W) {P : Parser} (hg : GoodLabels P W) (mem : Int → Int) (pc : Int)
    (n : Nat) (hn : n < 256) (hop : byteAt d mem pc = (n : Int)) (mn : Mn) (mo : Mode)
    (hdec : decode v (n : Int) = some (mn, mo))
    (hb1 : 0 ≤ byteAt d mem (pc + 1) ∧ byteAt d mem (pc + 1) < 2 ^ W)
    (hb2 : 0 ≤ byteAt d mem (pc + 2) ∧ byteAt d mem (pc + 2) < 2 ^ W)
    (hfit : pc + mo.len ≤ 2 ^ (2 * W))
    (hnt : zpTwin mo = none ∨ byteAt d mem (pc + 2) ≠ 0) :
    ∃ text, (disOf d P mem).instruction_at pc = .ok (mo.len, text) ∧
      assembleL d P text pc =
        .ok (instrBytes mo n (byteAt d mem (pc + 1)) (byteAt d mem (pc + 2))) := by
  obtain ⟨text, h1, h2⟩ := C08.roundtrip_exact hd hg mem pc n hn hop mn mo hdec hb1 hb2 hfit hnt
  exact ⟨text, by rw [← len_cast mo]; exact gen_of_model (.of_devOK hd.ok) h1, h2⟩

/-! ### non-vacuity: concrete round trips, the generated function evaluated by the kernel -/

example : (disOf dev6502 ⟨16, 16, []⟩ (memOf 0x300 0xbd 0x34 0x12)).instruction_at 0x300
      = .ok (3, "LDA $1234,X".toList) ∧
    assembleL dev6502 ⟨16, 16, []⟩ "LDA $1234,X".toList 0x300 = .ok [0xbd, 0x34, 0x12] := by decide +kernel
example : (disOf dev6502 exP (memOf 0x300 0xb1 0x10 0)).instruction_at 0x300 = .ok (2, "LDA (zp_ptr),Y".toList) ∧
    assembleL dev6502 exP "LDA (zp_ptr),Y".toList 0x300 = .ok [0xb1, 0x10] := by decide +kernel
-- a backward branch at the start of memory: the target wraps to the top, shown as a label
example : (disOf dev6502 exP (memOf 0x0 0xd0 0xee 0)).instruction_at 0x0 = .ok (2, "BNE top".toList) ∧
    assembleL dev6502 exP "BNE top".toList 0x0 = .ok [0xd0, 0xee] := by decide +kernel
example : (disOf dev65org16 ⟨32, 16, []⟩
      (fun a => if a = 5 then 0x4c else if a = 6 then 0x5678 else 0x1234)).instruction_at 5
      = .ok (3, "JMP $12345678".toList) ∧
    assembleL dev65org16 ⟨32, 16, []⟩ "JMP $12345678".toList 5 = .ok [0x4c, 0x5678, 0x1234] := by decide +kernel

/-- An instruction that straddles the top of memory is refused on re-assembly with
`OverflowError`, as C07 demands of code running past the top. -/
theorem roundtrip_past_top :
    (disOf dev6502 ⟨16, 16, []⟩ (memOf 0xffff 0xa9 0x42 0)).instruction_at 0xffff = .ok (2, "LDA #$42".toList) ∧
    assembleL dev6502 ⟨16, 16, []⟩ "LDA #$42".toList 0xffff = .overflow := by decide +kernel

end Py65.Props.C08g
