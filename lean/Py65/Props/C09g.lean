/-
C09g -- the main theorems of C09 ("the disassembler is total and agrees with what the device actually
executes") restated for the GENERATED `Disassembler.instruction_at` (`Py65/Gen/DisasmGen.lean`,
translated from `py65/disassembler.py` by `harness/py2lean_dis.py` on every run).

Property statements only.  `disOf d P mem` is `Disassembler(mpu, address_parser)` built by the
generated `__init__` from the `mpu` object `mpuOf d mem` of a device record (for the three devices
that object is the generated device: `mpuOf_dev6502` ...) -- both in `Py65/Proofs/DisasmGenEq.lean`,
which also proves `Gen.instruction_at = Model.Disasm.instructionAt` (`instruction_at_eq`); every
theorem here is the C09 theorem rewritten with that equality.  A successful call returns the Python
tuple `(length, disasm)`.
-/
import Py65.Props.C09
import Py65.Proofs.DisasmGenEq

namespace Py65.Props.C09g
open Py65.Model Py65.Model.PyStr Py65.Model.AddrParser Py65.Model.Asm Py65.Model.Disasm
open Py65.Proofs.Asm Py65.Proofs.DisasmGenEq Py65.Gen.DisasmGen
open Py65.Spec (Mode Mn Variant decode AState)
open Py65.Spec.Asm (mnText)
open Py65.Props.C09 (Runs isControl)

private theorem len_cast (mo : Mode) : ((mo.len.toNat : Nat) : Int) = mo.len := by cases mo <;> rfl

/-- `dis_total`: for every device, any memory contents, any address and any label table,
disassembling an opcode byte returns -- never raises -- and reports a length from 1 to 3. -/
theorem dis_total {d : Dev} {v : Variant} {W : Nat} (hd : IsDevice d v W) (P : Parser) (mem : Int → Int)
    (pc : Int) (hop : 0 ≤ byteAt d mem pc ∧ byteAt d mem pc < 256) :
    ∃ n t, (disOf d P mem).instruction_at pc = .ok (n, t) ∧ 1 ≤ n ∧ n ≤ 3 := by
  obtain ⟨n, t, h, h1, h3⟩ := C09.dis_total hd P mem pc hop
  exact ⟨n, t, gen_of_model (.of_devOK hd.ok) h, by omega, by omega⟩

example : ∃ n t, (disOf dev6502 ⟨16, 16, []⟩ (fun a => if a = 0xffff then 0xad else 0x12)).instruction_at 0xffff
    = .ok (n, t) ∧ 1 ≤ n ∧ n ≤ 3 :=
  dis_total .d6502 _ _ _ (by decide +kernel)
example : (disOf dev6502 ⟨16, 16, []⟩ (fun a => if a = 0xffff then 0xad else 0x12)).instruction_at 0xffff
    = .ok (3, "LDA $1212".toList) := by decide +kernel   -- the generated code itself, evaluated by the kernel

/-- `dis_len`: for every declared opcode the reported length is the documented instruction length. -/
theorem dis_len {d : Dev} {v : Variant} {W : Nat} (hd : IsDevice d v W) (P : Parser) (mem : Int → Int)
    (pc : Int) (hop : 0 ≤ byteAt d mem pc ∧ byteAt d mem pc < 256) (mn : Mn) (mo : Mode)
    (hdec : decode v (byteAt d mem pc) = some (mn, mo)) :
    ∃ t, (disOf d P mem).instruction_at pc = .ok (mo.len, t) := by
  obtain ⟨t, h⟩ := C09.dis_len hd P mem pc hop mn mo hdec
  exact ⟨t, by rw [← len_cast mo]; exact gen_of_model (.of_devOK hd.ok) h⟩

example : decode .cmos 0x7c = some (.JMP, .iax) := by decide

/-- An opcode byte the device does not declare is shown as `???` with length 1. -/
theorem dis_undeclared {d : Dev} {v : Variant} {W : Nat} (hd : IsDevice d v W) (P : Parser)
    (mem : Int → Int) (pc : Int) (hop : 0 ≤ byteAt d mem pc ∧ byteAt d mem pc < 256)
    (hdec : decode v (byteAt d mem pc) = none) :
    (disOf d P mem).instruction_at pc = .ok (1, ['?', '?', '?']) :=
  gen_of_model (.of_devOK hd.ok) (n := 1) (C09.dis_undeclared hd P mem pc hop hdec)

example : decode .nmos 0x02 = none := by decide

/-- `dis_len_eq_exec`: for every declared opcode that does not transfer control, the reported length
is exactly the number of bytes by which executing the instruction advances PC (modulo the address
space), for every register state and memory. -/
theorem dis_len_eq_exec {d : Dev} {v : Variant} {W : Nat} (hd : IsDevice d v W) (P : Parser) (s : AState)
    (hs : Runs W s) (mn : Mn) (mo : Mode) (hdec : decode v (s.mem s.pc) = some (mn, mo))
    (hnc : isControl mn = false) :
    ∃ n t, (disOf d P s.mem).instruction_at s.pc = .ok (n, t) ∧
      (Py65.Spec.step W v s).pc = (s.pc + n) % 2 ^ (2 * W) := by
  obtain ⟨n, t, h, hpc⟩ := C09.dis_len_eq_exec hd P s hs mn mo hdec hnc
  exact ⟨n, t, gen_of_model (.of_devOK hd.ok) h, hpc⟩

example : Runs 8 { a := 0, x := 0, y := 0, sp := 0xff, p := 0x30, pc := 0xffff, mem := fun _ => 0xa9,
                   waiting := false } := ⟨rfl, by decide, by decide, by decide, by decide⟩
example : decode .nmos 0xa9 = some (.LDA, .imm) ∧ isControl .LDA = false := by decide

/-- `dis_branch_target`: for every relative branch at any address, the generated function reports
length 2 and shows (as `$hex` or as the label bound to it) the address
`(address + 2 + signed displacement) mod 2^AW`: the arithmetic of the `rel` branch
(`opv & (1 << (byteWidth - 1))`, `^ byteMask`, `& addrMask`) is the signed displacement. -/
theorem dis_branch_target {d : Dev} {v : Variant} {W : Nat} (hd : IsDevice d v W) (P : Parser)
    (mem : Int → Int) (pc : Int) (hop : 0 ≤ byteAt d mem pc ∧ byteAt d mem pc < 256) (mn : Mn)
    (hdec : decode v (byteAt d mem pc) = some (mn, .rel))
    (hb : 0 ≤ byteAt d mem (pc + 1) ∧ byteAt d mem (pc + 1) < 2 ^ W) :
    (disOf d P mem).instruction_at pc =
      .ok (2, mnText mn ++ ' ' :: shown P (W / 2)
        ((pc + 2 + Py65.Spec.signed W (byteAt d mem (pc + 1))) % 2 ^ (2 * W))) := by
  have h := dis_spec hd.ok P mem pc hop
  rw [hdec] at h
  simp only [disText, C09.dis_branch_target hd pc _ hb] at h
  exact gen_of_model (.of_devOK hd.ok) (n := 2) h

example : decode .nmos 0xd0 = some (.BNE, .rel) := by decide
example : (disOf dev6502 ⟨16, 16, []⟩ (fun a => if a = 0 then 0xd0 else 0xee)).instruction_at 0
    = .ok (2, "BNE $fff0".toList) := by decide +kernel

/-- `dis_branch_taken`: ... and that address is exactly the PC reached when the branch is taken. -/
theorem dis_branch_taken {d : Dev} {v : Variant} {W : Nat} (hd : IsDevice d v W) (P : Parser) (s : AState)
    (hs : Runs W s) (mn : Mn) (hdec : decode v (s.mem s.pc) = some (mn, .rel))
    (hb : 0 ≤ s.mem ((s.pc + 1) % 2 ^ (2 * W)) ∧ s.mem ((s.pc + 1) % 2 ^ (2 * W)) < 2 ^ W)
    (htaken : Py65.Spec.branchCond W mn s.p = true) :
    (disOf d P s.mem).instruction_at s.pc =
      .ok (2, mnText mn ++ ' ' :: shown P (W / 2) (Py65.Spec.step W v s).pc) :=
  gen_of_model (.of_devOK hd.ok) (n := 2) (C09.dis_branch_taken hd P s hs mn hdec hb htaken)

example : decode .nmos 0xd0 = some (.BNE, .rel) ∧ Py65.Spec.branchCond 8 .BNE 0x30 = true := by decide

/-- `dis_jmp_jsr`: JMP absolute and JSR absolute display (as `$hex` or as the label bound to it) the
address at which execution continues. -/
theorem dis_jmp_jsr {d : Dev} {v : Variant} {W : Nat} (hd : IsDevice d v W) (P : Parser) (s : AState)
    (hs : Runs W s) (mn : Mn) (hmn : mn = .JMP ∨ mn = .JSR)
    (hdec : decode v (s.mem s.pc) = some (mn, .abs)) :
    (disOf d P s.mem).instruction_at s.pc =
      .ok (3, mnText mn ++ ' ' :: shown P (W / 2) (Py65.Spec.step W v s).pc) :=
  gen_of_model (.of_devOK hd.ok) (n := 3) (C09.dis_jmp_jsr hd P s hs mn hmn hdec)

example : decode .nmos 0x4c = some (.JMP, .abs) ∧ decode .cmos 0x20 = some (.JSR, .abs) := by decide

/-- The generated function on the 65Org16 with an opcode cell above 255 (outside C09's quantifier):
`IndexError` from `mpu.disassemble[instruction]`. -/
theorem dis_opcode_cell_above_255 :
    (disOf dev65org16 ⟨32, 16, []⟩ (fun _ => 0x1234)).instruction_at 0 = .error .IndexError := by
  rfl

end Py65.Props.C09g
