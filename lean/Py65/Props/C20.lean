/-
C20 — "No input line crashes the monitor; rejected commands change nothing".

Property theorems only (helper lemmas: `Py65/Proofs/MonCmdLemmas.lean`).  They are about the
hand-written model `Py65/Model/MonCmd.lean` of `Monitor.onecmd` = `_preprocess_line` +
`cmd.Cmd.onecmd` (CPython 3.12) inside the catch-all, and of the commands that own session state;
the model is tied to the real `Monitor.onecmd` by the correspondence run of `harness/props/c20.py`.

Reading guide.  `onecmdL ext s line` is one call of `Monitor.onecmd(line)` in session state `s`
(device, registers, memory, labels, breakpoints, radix, width = `s.core`; plus `lastcmd`): it returns
a `Res` (verdict `ok` / `rejected why`, the truth value of the returned object in `exit`, per-pair
outcomes of `registers`) and the new state.  `ext : Ext` is the semantics of the commands modelled
elsewhere (`assemble`, `fill`, `load`, `goto`, `step`, `return`); by its type it can only touch
registers and memory, and `Ext.Honest` says it honours "refused ⇒ unchanged" itself (C07, C16, C17).
Every function of the model is total: `onecmdL` returns for every line, exceptions absorbed by the
catch-all are the verdict `rejected raised`.  `cleaned line` is the line after comment, blank and dot
removal; `preprocessL` is `_preprocess_line`; `dispatchWord` the word `cmd.Cmd` dispatches on.
-/
import Py65.Proofs.MonCmdLemmas

namespace Py65.Props.C20
open Py65 Py65.Model.PyStr Py65.Model.AddrParser Py65.Model.MonCmd Py65.Proofs.MonCmd Py65.Proofs.Num

/-- `dispatch_total`: `Monitor.onecmd` returns for ANY line in ANY state (the model is a total
function; whatever a command raises is absorbed and becomes a verdict), and the value it returns is
true exactly when the line — after preprocessing and `parseline`, or, for an empty line, the
repeated `lastcmd` — is dispatched on the word `quit`: `do_quit` is the only command that requests
exit, unknown words, `!…`, `?…` and every other command never do. -/
theorem dispatch_total (ext : Ext) (s : State) (line : Str) :
    (onecmdL ext s line).1.exit = true ↔ dispatchWord s line = some quit :=
  onecmd_exit_iff ext s line

/-- non-vacuity: `  ..x ; bye` requests exit, `quitx` and `?quit` do not; an empty line after `quit`
repeats it. -/
example :
    let ext : Ext := { run := fun _ c _ => (.ok, c.regs, c.mem) }
    let c : Core := { dev := .d6502, regs := resetRegs .d6502, mem := fun _ => 0, labels := [], breakpoints := [],
                      radix := 16, width := 78 }
    (onecmdL ext { core := c, lastcmd := [] } "  ..x ; bye".toList).1.exit = true ∧
    (onecmdL ext { core := c, lastcmd := [] } "quitx".toList).1.exit = false ∧
    (onecmdL ext { core := c, lastcmd := [] } "?quit".toList).1.exit = false ∧
    (onecmdL ext { core := c, lastcmd := quit } [] ).1.exit = true := by
  decide +kernel

/-- `quit_forms` (only the quit forms): if a line is dispatched on `quit`, then its cleaned text
(comment outside quotes, surrounding blanks, leading dots removed) starts — after blanks of any kind —
with `quit`, `q`, `x`, `exit` or `EOF` as a whole word (followed by nothing or by a character that
cannot continue a command word); for an empty line the same holds of the repeated `lastcmd`. -/
theorem quit_forms (s : State) (line : Str) (h : dispatchWord s line = some quit) :
    (∃ f ∈ quitForms, StartsWithWord f (lstripP isReSpace (cleaned line))) ∨
    (parseline (preprocessL line) = .empty ∧
      ∃ f ∈ quitForms, StartsWithWord f (lstripP isReSpace (cleaned s.lastcmd))) := by
  unfold dispatchWord at h
  cases hp : parseline (preprocessL line) with
  | cmd w a l' =>
    simp only [hp, Option.some.injEq] at h
    subst h
    exact Or.inl (preprocess_quit_only hp)
  | noCmd x => simp [hp] at h
  | empty =>
    simp only [hp] at h
    split_ifs at h
    cases hp2 : parseline (preprocessL s.lastcmd) with
    | cmd w a l' =>
      simp only [hp2, Option.some.injEq] at h
      subst h
      exact Or.inr ⟨rfl, preprocess_quit_only hp2⟩
    | noCmd x => simp [hp2] at h
    | empty => simp [hp2] at h

/-- `quit_forms_exit` (every quit form, with or without arguments, under any noise): for each of
`quit`, `q`, `x`, `exit`, `EOF`, alone or followed by blanks and arguments, with leading blanks, leading
dots, trailing blanks and a trailing `;` comment outside quotes, the line is dispatched on `quit` —
so by `dispatch_total` it requests exit, in every state. -/
theorem quit_forms_exit (s : State) (f : Str) (hf : f ∈ quitForms) (ws1 dots ws2 comment : Str)
    (hn : Noise ws1 dots ws2 comment) :
    dispatchWord s (ws1 ++ dots ++ f ++ ws2 ++ comment) = some quit ∧
    ∀ bl args, bl ≠ [] → (∀ c ∈ bl, isReSpace c = true) → ArgsOK args →
      dispatchWord s (ws1 ++ dots ++ (f ++ bl ++ args) ++ ws2 ++ comment) = some quit := by
  have facts : f ≠ [] ∧ (∀ c ∈ f, isPlain c = true) ∧ (∀ c, f.head? = some c → isBlank c = false ∧ c ≠ '.') ∧
      (∀ c, f.getLast? = some c → isBlank c = false) := by
    simp only [quitForms, List.mem_cons, List.mem_nil_iff, or_false] at hf
    rcases hf with rfl | rfl | rfl | rfl | rfl <;> exact ⟨by decide, by decide, by decide, by decide⟩
  obtain ⟨f1, f2, f3, f4⟩ := facts
  have fin : ∀ line tail, cleaned line = f ++ tail →
      (tail = [] ∨ ∃ bl args, tail = bl ++ args ∧ bl ≠ [] ∧ (∀ c ∈ bl, isReSpace c = true) ∧
        ∀ c, args.head? = some c → isReSpace c = false) → dispatchWord s line = some quit := by
    intro line tail hc ht
    obtain ⟨tail', e, ht'⟩ := quit_form_core f hf tail ht
    obtain ⟨a, l', hp⟩ := parseline_word quit tail' (by decide) (by decide) ht'
    unfold dispatchWord preprocessL
    rw [hc, e, hp]
  constructor
  · exact fin _ [] (by rw [List.append_nil]; exact cleaned_word_alone f ws1 dots ws2 comment hn f1 f2 f3 f4) (Or.inl rfl)
  · intro bl args hbl hblw ha
    refine fin _ (bl ++ args) ?_ (Or.inr ⟨bl, args, rfl, hbl, hblw, ha.head⟩)
    exact (cleaned_word_args f bl args ws1 dots ws2 comment hn f1 f2 f3 hblw ha).trans (List.append_assoc _ _ _)

/-- non-vacuity of the hypotheses: `"now" "x;y"` are acceptable arguments (the `;` is inside quotes),
blanks / dots / comment are noise. -/
example : ArgsOK "now \"x;y\"".toList ∧ Noise " \t".toList "..".toList "  ".toList "; bye \"".toList :=
  ⟨⟨by decide, by decide, by decide, by decide, by decide⟩, ⟨by decide, by decide, by decide, Or.inr ⟨_, rfl⟩⟩⟩

/-- `rejected_unchanged`: for ANY line in ANY state, if the line is refused — unknown command, `!…`,
syntax error, usage error, unknown label, overflow, illegal radix / width / number / register /
device, or an exception absorbed by the catch-all (open quote, bad breakpoint number, endless
repetition …) — then device, registers, memory, labels, breakpoints, radix and width are exactly what
they were.  (For `registers` "refused" means that not a single pair was assigned; see
`registers_exact` for the pair-by-pair statement.) -/
theorem rejected_unchanged (ext : Ext) (hext : ext.Honest) (s : State) (line : Str)
    (h : (onecmdL ext s line).1.verdict.isRejected = true) : (onecmdL ext s line).2.core = s.core :=
  onecmd_rejected ext hext s line h

/-- non-vacuity: each kind of refusal occurs. -/
example :
    let ext : Ext := { run := fun _ c _ => (.ok, c.regs, c.mem) }
    let c : Core := { dev := .d6502, regs := resetRegs .d6502, mem := fun _ => 0, labels := [("foo".toList, 5)],
                      breakpoints := [some 7], radix := 16, width := 78 }
    let v := fun (l : String) => (onecmdL ext { core := c, lastcmd := [] } l.toList).1.verdict
    v "frobnicate" = .rejected .unknownSyntax ∧ v "!ls" = .rejected .unknownSyntax ∧
    v "al c000" = .rejected .syntaxErr ∧ v "al nosuch x" = .rejected .label ∧ v "al $10000 x" = .rejected .overflow ∧
    v "al 1 \"x" = .rejected .raised ∧ v "db 1" = .rejected .raised ∧ v "width 9" = .rejected .illegal ∧
    v "radix x" = .rejected .illegal ∧ v "r a=$100" = .rejected .overflow ∧ v "r q=1" = .rejected .illegal ∧
    v "r a" = .rejected .syntaxErr ∧ v "mpu z80" = .rejected .illegal ∧ v "ab foo" = .ok ∧ v "r a=1,q=2" = .ok := by
  decide +kernel

/-- `registers_exact`: `registers <args>` finds the `name=value` pairs, judges each on its own
(`pairOutcome`: the name must be one of pc sp a x y p, the value must be a number or label the
address parser accepts, and it must fit the register: the byte width for all but pc, the address
width for pc) and assigns exactly the accepted ones, in order: afterwards every register holds the
value of the last accepted pair that names it, or its old value if there is none — in particular a
register that no pair names is unchanged.  Nothing else of the session changes (`runCommand`
rebuilds the state with only `regs` replaced). -/
theorem registers_exact (d : Dev) (P : Parser) (hP : P.WF) (r : Regs) (args : Str) :
    let res := doRegisters d P r args
    let outs := (findPairs args).map (pairOutcome d P)
    (∀ n, res.2.2.get n = (lastAssigned outs n).getD (r.get n)) ∧
    (∀ n, (∀ pair ∈ findPairs args, regOfName pair.1 ≠ some n) → res.2.2.get n = r.get n) ∧
    (∀ pair ∈ findPairs args, ∀ reg v, pairOutcome d P pair = .ok (reg, v) →
      regOfName pair.1 = some reg ∧ numberL P pair.2 = .ok v ∧ 0 ≤ v ∧ v ≤ P.maxaddr ∧
      (reg ≠ .pc → v ≤ d.byteMask)) := by
  intro res outs
  have main : ∀ n, res.2.2.get n = (lastAssigned outs n).getD (r.get n) := by
    intro n
    show (doRegisters d P r args).2.2.get n = _
    by_cases h1 : args = []
    · subst h1
      simp [doRegisters, outs, findPairs, findPairsF, lastAssigned]
    · by_cases h2 : findPairs args = []
      · simp [doRegisters, h1, h2, outs, lastAssigned]
      · simp only [doRegisters, h1, h2, if_false]
        exact (regsLoop_spec d P (findPairs args) r).2 n
  have fit : ∀ pair ∈ findPairs args, ∀ reg v, pairOutcome d P pair = .ok (reg, v) →
      regOfName pair.1 = some reg ∧ numberL P pair.2 = .ok v ∧ 0 ≤ v ∧ v ≤ P.maxaddr ∧
      (reg ≠ .pc → v ≤ d.byteMask) := by
    intro pair _ reg v ho
    obtain ⟨h1, h2, h3⟩ := pairOutcome_ok ho
    obtain ⟨b1, b2⟩ := numberL_bounded hP h2
    exact ⟨h1, h2, b1, b2, fun hne => (h3 hne).2⟩
  refine ⟨main, ?_, fit⟩
  intro n hn
  rw [main n]
  have : lastAssigned outs n = none := by
    unfold lastAssigned
    rw [List.getLast?_eq_none_iff, List.filterMap_eq_nil_iff]
    intro o ho
    simp only [outs, List.mem_map] at ho
    obtain ⟨pair, hp, rfl⟩ := ho
    cases hpo : pairOutcome d P pair with
    | error e => rfl
    | ok rv =>
      obtain ⟨reg, v⟩ := rv
      have := (pairOutcome_ok hpo).1
      have hne : reg ≠ n := fun e => hn pair hp (by rw [this, e])
      simp [hne]
  rw [this]; rfl

/-- non-vacuity: on the 6502 with label `foo = $c000`: `a=$12, x=$100, pc=foo, q=1, a=7` assigns
a (twice: 7 wins) and pc, refuses x (too wide) and q (no such register); y, sp, p keep their values. -/
example :
    let P : Parser := { width := 16, radix := 16, labels := [("foo".toList, 0xc000)] }
    let res := doRegisters .d6502 P (resetRegs .d6502) "a=$12, x=$100, pc=foo, q=1, a=7".toList
    res.2.2 = { a := 7, x := 0, y := 0, sp := 0xff, p := 0x30, pc := 0xc000 } ∧
    res.2.1 = [.ok (.a, 0x12), .error .overflow, .ok (.pc, 0xc000), .error .illegal, .ok (.a, 7)] := by
  decide +kernel

/-- `shortcut_equiv`: for every entry `sc ↦ cmd` of the shortcut table other than `~`, any leading
blanks, leading dots, at least one blank (of any kind) between shortcut and arguments, trailing blanks
and a trailing `;` comment outside quotes: the preprocessed line is `cmd`, one space, the arguments —
exactly what preprocessing leaves of the long command typed plainly; the shortcut alone gives `cmd`;
and `~` (blank optional) gives `tilde`, one space, and the text after `~`.  So every shortcut is
dispatched exactly as its long command with the same arguments. -/
theorem shortcut_equiv (sc cmd : Str) (hmem : (sc, cmd) ∈ shortcuts) (ws1 dots ws2 comment : Str)
    (hn : Noise ws1 dots ws2 comment) :
    (sc ≠ ['~'] →
      preprocessL (ws1 ++ dots ++ sc ++ ws2 ++ comment) = cmd ∧
      ∀ bl args, bl ≠ [] → (∀ c ∈ bl, isReSpace c = true) → ArgsOK args →
        preprocessL (ws1 ++ dots ++ (sc ++ bl ++ args) ++ ws2 ++ comment) = cmd ++ ' ' :: args ∧
        preprocessL (cmd ++ ' ' :: args) = cmd ++ ' ' :: args) ∧
    (∀ bl args, (∀ c ∈ bl, isReSpace c = true) → ArgsOK args →
        preprocessL (ws1 ++ dots ++ (['~'] ++ bl ++ args) ++ ws2 ++ comment) = tilde ++ ' ' :: (bl ++ args)) := by
  obtain ⟨p1, p2, -, -, p5⟩ := shortcuts_facts (sc, cmd) hmem
  have hw : IsWord sc := shortcuts_words (sc, cmd) hmem
  simp only at p1 p2 p5
  constructor
  · intro hnt
    constructor
    · unfold preprocessL
      rw [cleaned_word_alone sc ws1 dots ws2 comment hn hw.1 p1 p2 p5]
      exact preprocess_core_alone sc cmd hmem hnt
    · intro bl args hbl hblw ha
      constructor
      · unfold preprocessL
        rw [cleaned_word_args sc bl args ws1 dots ws2 comment hn hw.1 p1 p2 hblw ha]
        exact preprocess_core_args sc cmd hmem hnt bl args hbl hblw ha.head
      · -- the long form, typed plainly, is left alone
        obtain ⟨c1, c2, c3, -⟩ := cmdwords_facts (sc, cmd) hmem
        simp only at c1 c2 c3
        have hcw : IsWord cmd := ⟨c3, fun c hc => by
          by_contra h
          have := isIdent_not_space (by simpa using h)
          rw [c1 c hc] at this; cases this⟩
        have hplain : ∀ c ∈ cmd, isPlain c = true := by
          intro c hc
          have hi := c1 c hc
          have : ∀ ch : Char, isIdentChar ch = true → isPlain ch = true := by
            intro ch hch
            simp only [isPlain, isQuote, Bool.and_eq_true, Bool.not_eq_true', Bool.or_eq_false_iff,
              decide_eq_false_iff_not]
            refine ⟨⟨?_, ?_⟩, ?_⟩ <;> (rintro rfl; revert hch; decide)
          exact this c hi
        have hhead : ∀ c, cmd.head? = some c → isBlank c = false ∧ c ≠ '.' := by
          intro c hc
          obtain ⟨x, xs, rfl⟩ := List.exists_cons_of_ne_nil c3
          simp at hc; subst hc
          have hi := c1 x (by simp)
          constructor
          · by_contra h
            have := isIdent_not_space (isReSpace_of_isBlank (by simpa using h))
            rw [hi] at this; cases this
          · rintro rfl; revert hi; decide
        have hnoise : Noise [] [] [] [] := ⟨by simp, by simp, by simp, Or.inl rfl⟩
        have hcl := cleaned_word_args cmd [' '] args [] [] [] [] hnoise c3 hplain hhead (by simp; decide) ha
        simp only [List.nil_append, List.append_nil, List.append_assoc, List.singleton_append] at hcl
        unfold preprocessL
        rw [hcl]
        have hth : (cmd ++ ' ' :: args).head? ≠ some '~' := by
          obtain ⟨x, xs, rfl⟩ := List.exists_cons_of_ne_nil c3
          have hi := c1 x (by simp)
          simp only [List.cons_append, List.head?_cons, ne_eq, Option.some.injEq]
          rintro rfl; revert hi; decide
        rw [tildeCase_id _ hth, shortcutLoop_word shortcuts cmd (' ' :: args) shortcuts_words hcw
          (Or.inr ⟨' ', args, rfl, by decide⟩)]
        -- no command name is itself a shortcut
        have : shortcuts.find? (fun q => q.1 = cmd) = none := by
          simp only [shortcuts, List.mem_cons, List.mem_nil_iff, or_false, Prod.mk.injEq] at hmem
          rcases hmem with h | h | h | h | h | h | h | h | h | h | h | h | h | h | h | h | h | h | h | h | h | h | h
            | h | h <;> (rw [h.2]; decide)
        rw [this]
  · intro bl args hblw ha
    unfold preprocessL
    have hcl := cleaned_word_args ['~'] bl args ws1 dots ws2 comment hn (by decide) (by decide) (by decide) hblw ha
    rw [hcl]
    exact preprocess_core_tilde (bl ++ args)

/-- non-vacuity: `  ..m <tab> c000:c00f  ; dump` becomes `mem c000:c00f`. -/
example : preprocessL "  ..m \t c000:c00f  ; dump".toList = "mem c000:c00f".toList ∧
    preprocessL "~12".toList = "tilde 12".toList ∧ preprocessL ".q;".toList = quit := by
  decide +kernel

end Py65.Props.C20
