/-
C19g -- the C19 theorems that rest on `py65/utils/conversions.py: itoa`, restated for the GENERATED
`itoa` / `_itoa_fmts` (`Py65/Gen/DisasmGen.lean`, translated by `harness/py2lean_dis.py` on every run).

`itoa` is what prints the flag field of `MPU.__repr__` (`itoa(self.p, 2).rjust(BYTE_WIDTH, '0')`) and
the last line of the monitor's `~` command (`itoa(num, 2).zfill(8)`).  Property statements only; the
equalities `Gen.itoa = PyStr.fmtBinL / fmtDecL / toDigits 16` are in `Py65/Proofs/DisasmGenEq.lean`.
`disasm_shows_bytes` is restated for the generated `Monitor._format_disassembly` (py65/monitor.py).
What remains modelled (library behaviour): `dict.get`, `"{0:b}" / "{0}" / "{0:x}".format(n)`
(`Model/GenRt.lean`), `str.rjust`, `str.zfill`, `int(s, base)` (`Model/PyStr.lean`).

Second part (`harness/py2lean_show.py`, `Py65/Gen/ReprGen.lean`, `Py65/Gen/MonShowGen.lean`,
`Py65/Proofs/ReprGenEq.lean`): `repr_roundtrip`, `repr_flag_bits`, `status_shows_registers`,
`cycles_shows_counter`, `tilde_shows_number`, `tilde_rejects`, `disasm_walk_shows_bytes`,
`disasm_walk_complete` restated for the GENERATED `MPU.__repr__` (three device classes),
`Monitor._output_mpu_status`, `do_cycles`, `do_tilde`, `do_disassemble`, with the generated `itoa`,
`__repr__` and `_format_disassembly` plugged into their parameters.
-/
import Py65.Props.C19b
import Py65.Props.C19c
import Py65.Proofs.DisasmGenEq
import Py65.Proofs.ReprGenEq

namespace Py65.Props.C19g
open Py65.Model.PyStr Py65.Model.GenRt Py65.Model.Fmt Py65.Proofs.Fmt Py65.Proofs.DisasmGenEq
open Py65.Gen.DisasmGen

/-- `int(itoa(n, 2).zfill(w), 2) = n` and the same with `rjust(w, '0')`, for every `n` and width. -/
theorem itoa_roundtrip_bin (w n : Nat) :
    ∃ s, itoa (n : Int) 2 = .ok s ∧ pyIntL (zfillL s w) 2 = some (n : Int) ∧
      pyIntL (rjustL s w '0') 2 = some (n : Int) := by
  refine ⟨fmtBinL n, itoa_eq_bin n, ?_, ?_⟩
  · simpa [pyInt, zfill, fmtBin] using (C19.fmt_roundtrip_bin w n).1
  · simpa [pyInt, rjust, fmtBin] using (C19.fmt_roundtrip_bin w n).2

example : itoa 5 2 = .ok "101".toList ∧ zfillL "101".toList 8 = "00000101".toList := by decide +kernel

/-- `int(itoa(n, 16), 16) = n` -/
theorem itoa_roundtrip_hex (n : Nat) : ∃ s, itoa (n : Int) 16 = .ok s ∧ pyIntL s 16 = some (n : Int) := by
  refine ⟨fmtHexL 0 n, itoa_eq_hex n, ?_⟩
  simpa [pyInt, fmtHex] using C19.fmt_roundtrip_hex 0 n

example : itoa 0xbeef 16 = .ok "beef".toList := by decide +kernel

/-- `int(itoa(n), 10) = n` (base 10 is the default), for every `n` CPython can print in decimal. -/
theorem itoa_roundtrip_dec (n : Nat) (hn : n < 10 ^ 4300) :
    ∃ s, itoa (n : Int) = .ok s ∧ pyIntL s 10 = some (n : Int) := by
  refine ⟨fmtDecL n, itoa_eq_default n, ?_⟩
  simpa [pyInt, fmtDec] using C19.fmt_roundtrip_dec n hn

example : itoa 65535 = .ok "65535".toList := by decide +kernel

/-- every base other than 2, 10, 16 is refused (`ValueError`), nothing is printed -/
theorem itoa_other_base (num base : Int) (h2 : base ≠ 2) (h10 : base ≠ 10) (h16 : base ≠ 16) :
    ∃ msg, itoa num base = .error (.ValueError msg) :=
  ⟨_, itoa_unsupported num base h2 h10 h16⟩

example : itoa 5 8 = .error (.ValueError "Unsupported base: 8".toList) := by decide +kernel

/-- `repr_flag_bits` with the generated `itoa`: for every device and registers within its widths,
`itoa(p, 2).rjust(BYTE_WIDTH, '0')` returns, and is the flag field of the register line: from left to
right bits `W-1 … 0` of P, exactly `W` characters. -/
theorem itoa_flag_bits (d : Dev) (hd : d ∈ devices) (r : Regs) (hr : r.WF d) :
    ∃ s, itoa (r.p : Int) 2 = .ok s ∧ rjustL s d.byteWidth '0' = flags d r.p ∧
      flags d r.p = (List.range d.byteWidth).reverse.map (flagChar r.p) ∧
      (flags d r.p).length = d.byteWidth := by
  obtain ⟨h1, h2, -⟩ := C19.repr_flag_bits d hd r hr
  exact ⟨fmtBinL r.p, itoa_eq_bin r.p, rfl, h1, h2⟩

example : itoa 0xb1 2 = .ok "10110001".toList ∧ rjustL "10110001".toList 8 '0' = flags dev6502 0xb1 := by
  decide +kernel

/-- the binary line of `~ n` (`itoa(n, 2).zfill(8)`) reads back to `n`, like the other three lines
(`C19.tilde_consistent`) -/
theorem tilde_bin_line (n : Nat) : ∃ s, itoa (n : Int) 2 = .ok s ∧ pyIntL (zfillL s 8) 2 = some (n : Int) := by
  obtain ⟨s, h1, h2, -⟩ := itoa_roundtrip_bin 8 n
  exact ⟨s, h1, h2⟩

example : itoa 256 2 = .ok "100000000".toList := by decide +kernel

/-- `disasm_shows_bytes` for the GENERATED `Monitor._format_disassembly` (the text of every line of
`disassemble` / `assemble` / `step` output): the call returns, the line starts with `$` and the
address in the device's address format (reading it back gives the address); two blanks on, the `k`-th
group of the byte column is the cell at `address + k`, wrapping to 0 after the top of the address
space, for every `k` below the instruction length; and for instructions of up to three cells the
instruction text starts right after the fixed-width column. -/
theorem disasm_shows_bytes (d : Dev) (hd : d ∈ devices) (mem : Nat → Nat) (hm : ∀ a, mem a < 2 ^ d.byteWidth)
    (address length : Nat) (ha : address < 2 ^ d.addrWidth) (disasm : Str) :
    ∃ t, Monitor._format_disassembly (monOf d mem) (address : Int) (length : Int) disasm = .ok t ∧
    t.head? = some '$' ∧
    pyIntL ((t.drop 1).take d.addrDigits) 16 = some (address : Int) ∧
    (∀ k, k < length →
      ((t.drop (1 + d.addrDigits + 2 + k * (d.byteDigits + 1))).take (d.byteDigits + 1) =
          fmtHexL d.byteDigits (mem ((address + k) % 2 ^ d.addrWidth)) ++ [' '] ∧
       pyIntL (fmtHexL d.byteDigits (mem ((address + k) % 2 ^ d.addrWidth))) 16 =
          some ((mem ((address + k) % 2 ^ d.addrWidth) : Nat) : Int))) ∧
    (length ≤ 3 → t.drop (1 + d.addrDigits + 2 + fieldWidth d) = disasm) :=
  ⟨_, format_disassembly_eq hd mem address length disasm,
    C19.disasm_shows_bytes d hd mem hm address length ha disasm⟩

/-- non-vacuity: the generated code itself, evaluated by the kernel (a line at the top of memory wraps) -/
example : Monitor._format_disassembly (monOf dev6502 (fun a => if a = 0xffff then 0xa9 else 0x42)) 0xffff 2
    "LDA #$42".toList = .ok "$ffff  a9 42     LDA #$42".toList := by decide +kernel

/-! ## the display functions regenerated by `harness/py2lean_show.py` -/

section Show
open Py65 Py65.Model.MonGenRt Py65.Model.ShowRt Py65.Model.Show Py65.Model.AddrParser Py65.Proofs.ReprGenEq
open Py65.Gen

/-- the exception classes of the generated disassembler side as the monitor's -/
def excOf : PyErr → Exc
  | .IndexError => .IndexError
  | .ValueError _ => .ValueError
  | _ => .Other

/-- a call of a generated function of `Gen/DisasmGen.lean` from the generated monitor methods -/
def liftE {α : Type} : PyM α → Except Exc α
  | .ok v => .ok v
  | .error e => .error (excOf e)

/-- the GENERATED `itoa` (py65/utils/conversions.py), as the parameter `itoa` -/
def itoaG (num base : Int) : Except Exc Str := liftE (itoa num base)

theorem itoaG_bin : ItoaBin itoaG := fun n => by simp only [itoaG, itoa_eq_bin, liftE]

theorem itoaG_binInt : ItoaBinInt itoaG := fun v => by
  simp only [itoaG, liftE, itoa, _itoa_fmts, dictGet, strFormat1, intDigits, digitsInt]
  simp

/-- the GENERATED `__repr__` of the three device classes, each with the display model's device record -/
def genReprs : List (Model.Fmt.Dev × (St → Flow St Str)) :=
  [(dev6502, ReprGen.dev6502.__repr__ itoaG), (dev65c02, ReprGen.dev65c02.__repr__ itoaG),
   (dev65org16, ReprGen.dev65org16.__repr__ itoaG)]

theorem genReprs_eq {p : Model.Fmt.Dev × (St → Flow St Str)} (hp : p ∈ genReprs) (s : St) (hs : NonNeg s) :
    p.1 ∈ devices ∧ p.2 s = .ok (Model.Fmt.repr p.1 (regsOf s)) s := by
  simp only [genReprs, List.mem_cons, List.mem_nil_iff, or_false] at hp
  rcases hp with rfl | rfl | rfl
  · exact ⟨by simp [devices], repr_eq_6502 itoaG itoaG_bin s hs⟩
  · exact ⟨by simp [devices], repr_eq_65c02 itoaG itoaG_bin s hs⟩
  · exact ⟨by simp [devices], repr_eq_65org16 itoaG itoaG_bin s hs⟩

/-- `repr_roundtrip` for the GENERATED `__repr__` of every device class: on a device whose registers
are within its widths the call returns (the device untouched), and reading the second line of the
text back by its fixed columns gives exactly PC, A, X, Y, SP and P. -/
theorem repr_roundtrip (p : Model.Fmt.Dev × (St → Flow St Str)) (hp : p ∈ genReprs) (s : St) (hs : NonNeg s)
    (hr : (regsOf s).WF p.1) :
    ∃ t, p.2 s = .ok t s ∧ parseLine2 p.1 (afterNewline t) = some (regsOf s) :=
  ⟨_, (genReprs_eq hp s hs).2, C19.repr_roundtrip p.1 (genReprs_eq hp s hs).1 _ hr⟩

/-- non-vacuity: the generated code itself, evaluated by the kernel (65Org16, N set, P 16 bits wide) -/
example : reprOf (ReprGen.dev65org16.__repr__ itoaG)
      { (default : St) with pc := 0xc000, a := 1, x := 2, y := 3, sp := 0xffff, p := 0x8030 } =
    .ok "            PC     AC   XR   YR   SP  NV---------BDIZC\n65Org16: 0000c000 0001 0002 0003 ffff 1000000000110000".toList := by
  decide +kernel

example : reprOf (ReprGen.dev6502.__repr__ itoaG)
      { (default : St) with pc := 0xc000, a := 1, x := 2, y := 3, sp := 0xff, p := 0xb1 } =
    .ok "       PC  AC XR YR SP NV-BDIZC\n6502: c000 01 02 03 ff 10110001".toList := by decide +kernel

/-- `repr_flag_bits` for the GENERATED `__repr__`: the text is two lines; from column `flagCol` on, the
second line is, from left to right, bits `W-1 … 0` of P (`'1'` for a set bit), exactly `W = BYTE_WIDTH`
characters, and the first line carries the title `NV-BDIZC` (`NV---------BDIZC`) at that very column. -/
theorem repr_flag_bits (p : Model.Fmt.Dev × (St → Flow St Str)) (hp : p ∈ genReprs) (s : St) (hs : NonNeg s)
    (hr : (regsOf s).WF p.1) :
    ∃ l1 l2, p.2 s = .ok (l1 ++ '\n' :: l2) s ∧ '\n' ∉ l1 ∧
      l2.drop (flagCol p.1) = (List.range p.1.byteWidth).reverse.map (flagChar (regsOf s).p) ∧
      (l2.drop (flagCol p.1)).length = p.1.byteWidth ∧
      l1.drop (flagCol p.1) = flagTitle p.1 ∧ (flagTitle p.1).length = p.1.byteWidth := by
  obtain ⟨hd, he⟩ := genReprs_eq hp s hs
  obtain ⟨h1, h2, h3, h4, h5⟩ := C19.repr_flag_bits p.1 hd _ hr
  refine ⟨reprLine1 p.1, reprLine2 p.1 (regsOf s), ?_, (devOK_of_mem hd).nonl, ?_, ?_, h4, h5⟩
  · rw [he]; simp [Model.Fmt.repr]
  · rw [h3, h1]
  · rw [h3, h2]

/-- the GENERATED `__repr__` as the parameter `mpurepr` (`repr(self._mpu)`) -/
def mpureprG (p : Model.Fmt.Dev × (St → Flow St Str)) : St → Except Exc Str := reprOf p.2

/-- the monitor's copy of the device constants, from the display model's record -/
def mdev (d : Model.Fmt.Dev) : Model.MonMem.Dev :=
  { AW := d.addrWidth, BW := d.byteWidth, addrFmtW := d.addrDigits, byteFmtW := d.byteDigits }

/-- `status_shows_registers`: the GENERATED `_output_mpu_status` (what `onecmd` prints after every
command) with the GENERATED `__repr__`: one more output item, `"\n" + repr(mpu)`; with `_output`'s
newline it is the display model's `status`, and its register line reads back to the registers. -/
theorem status_shows_registers (p : Model.Fmt.Dev × (St → Flow St Str)) (hp : p ∈ genReprs)
    (iat : St → Int → Except Exc (Int × Str)) (fmtdis : St → Int → Int → Str → Except Exc Str) (P : Parser)
    (σ : ShowSt) (hs : NonNeg σ.mpu) (hr : (regsOf σ.mpu).WF p.1) :
    ∃ t, MonShowGen._output_mpu_status itoaG (mpureprG p) iat fmtdis (mdev p.1) P σ =
        .ok () { mpu := σ.mpu, out := σ.out ++ ['\n' :: t] } ∧
      ('\n' :: t) ++ ['\n'] = status p.1 (regsOf σ.mpu) ∧
      parseLine2 p.1 (afterNewline t) = some (regsOf σ.mpu) := by
  obtain ⟨hd, he⟩ := genReprs_eq hp σ.mpu hs
  have hm : mpureprG p σ.mpu = .ok (Model.Fmt.repr p.1 (regsOf σ.mpu)) := by simp only [mpureprG, reprOf, he]
  exact ⟨_, output_mpu_status_eq itoaG _ iat fmtdis _ P p.1 σ hm, status_text _ _, C19.repr_roundtrip p.1 hd _ hr⟩

/-- `cycles_shows_counter` for the GENERATED `do_cycles`: one line, and reading its decimal digits
back gives the device's cycle counter (any counter CPython can print: below `10^4300`). -/
theorem cycles_shows_counter (itoa : Int → Int → Except Exc Str) (mpurepr : St → Except Exc Str)
    (iat : St → Int → Except Exc (Int × Str)) (fmtdis : St → Int → Int → Str → Except Exc Str)
    (d : Model.MonMem.Dev) (P : Parser) (args : Str) (σ : ShowSt) (h0 : 0 ≤ σ.mpu.cycles)
    (hn : σ.mpu.cycles.toNat < 10 ^ 4300) :
    ∃ t, MonShowGen.do_cycles itoa mpurepr iat fmtdis d P args σ = .ok () { mpu := σ.mpu, out := σ.out ++ [t] } ∧
      pyIntL t 10 = some σ.mpu.cycles := by
  refine ⟨_, do_cycles_eq itoa mpurepr iat fmtdis d P args σ h0, ?_⟩
  rw [C19.cycles_shows_counter _ hn, Int.toNat_of_nonneg h0]

/-- non-vacuity: the generated code, evaluated by the kernel -/
example : (match MonShowGen.do_cycles itoaG (mpureprG (dev6502, ReprGen.dev6502.__repr__ itoaG)) (fun _ _ => .error .Other)
      (fun _ _ _ _ => .error .Other) (mdev dev6502) ⟨16, 16, []⟩ [] ⟨{ (default : St) with cycles := 123456 }, []⟩ with
    | .ok _ σ => σ.out | _ => []) = ["123456".toList] := by decide +kernel

/-- `tilde_shows_number` for the GENERATED `do_tilde` with the GENERATED `itoa`: for an argument the
address parser reads as `n`, exactly four more lines -- `+` decimal, `$` hex (the device's byte
format), octal, binary -- each denoting `n`. -/
theorem tilde_shows_number (mpurepr : St → Except Exc Str) (iat : St → Int → Except Exc (Int × Str))
    (fmtdis : St → Int → Int → Str → Except Exc Str) (d : Model.MonMem.Dev) (P : Parser) (args : Str) (σ : ShowSt)
    (n : Nat) (hn : n < 10 ^ 4300) (hargs : args ≠ []) (hp : numberL P args = .ok (n : Int)) :
    ∃ t1 t2 t3 t4, MonShowGen.do_tilde itoaG mpurepr iat fmtdis d P args σ =
        .ok () { mpu := σ.mpu, out := σ.out ++ ['+' :: t1, '$' :: t2, t3, t4] } ∧
      pyIntL t1 10 = some (n : Int) ∧ pyIntL t2 16 = some (n : Int) ∧
      pyIntL t3 8 = some (n : Int) ∧ pyIntL t4 2 = some (n : Int) := by
  obtain ⟨t1, t2, t3, t4, h, r⟩ := C19.tilde_shows_number d.byteFmtW P args n hn hargs hp
  refine ⟨t1, t2, t3, t4, ?_, r⟩
  rw [do_tilde_eq itoaG itoaG_binInt, h]
  rfl

/-- non-vacuity: the generated `do_tilde` (and the generated `itoa` inside it), evaluated by the kernel -/
example : (match MonShowGen.do_tilde itoaG (fun _ => .error .Other) (fun _ _ => .error .Other)
      (fun _ _ _ _ => .error .Other) (mdev dev6502) ⟨16, 16, []⟩ "$1ff".toList ⟨default, []⟩ with
    | .ok _ σ => σ.out | _ => []) = ["+511".toList, "$1ff".toList, "0777".toList, "111111111".toList] := by
  decide +kernel

/-- `tilde_rejects` for the GENERATED `do_tilde`: a `KeyError` / `OverflowError` of the parser prints
one message line and no number. -/
theorem tilde_rejects (mpurepr : St → Except Exc Str) (iat : St → Int → Except Exc (Int × Str))
    (fmtdis : St → Int → Int → Str → Except Exc Str) (d : Model.MonMem.Dev) (P : Parser) (args : Str) (σ : ShowSt)
    (hargs : args ≠ []) :
    (numberL P args = .key → MonShowGen.do_tilde itoaG mpurepr iat fmtdis d P args σ =
      .ok () { mpu := σ.mpu, out := σ.out ++ ["Bad label: ".toList ++ args] }) ∧
    (numberL P args = .overflow → MonShowGen.do_tilde itoaG mpurepr iat fmtdis d P args σ =
      .ok () { mpu := σ.mpu, out := σ.out ++ ["Overflow error: ".toList ++ args] }) := by
  obtain ⟨h1, h2⟩ := C19.tilde_rejects d.byteFmtW P args hargs
  constructor <;> intro h
  · rw [do_tilde_eq itoaG itoaG_binInt, h1 h]; rfl
  · rw [do_tilde_eq itoaG itoaG_binInt, h2 h]; rfl

/-- the memory of the device as the display model's memory (cells are not negative) -/
def natMem (m : Int → Int) : Nat → Nat := fun a => (m (a : Int)).toNat

/-- the GENERATED `Monitor._format_disassembly`, as the parameter `fmtdis` -/
def fmtdisG (d : Model.Fmt.Dev) : St → Int → Int → Str → Except Exc Str :=
  fun s address length disasm => liftE (Monitor._format_disassembly (monOf d (natMem s.mem)) address length disasm)

/-- the GENERATED `Disassembler.instruction_at` (device record `dA`, parser `P`), as the parameter `iat` -/
def iatG (dA : Model.Asm.Dev) (P : Parser) : St → Int → Except Exc (Int × Str) :=
  fun s pc => liftE ((disOf dA P s.mem).instruction_at pc)

theorem fmtdisG_spec {d : Model.Fmt.Dev} (hd : d ∈ devices) (s : St) (a len : Nat) (text : Str) :
    fmtdisG d s (a : Int) (len : Int) text = .ok (formatDisassembly d (natMem s.mem) a len text) := by
  simp only [fmtdisG, format_disassembly_eq hd, liftE]

/-- `disasm_walk_shows_bytes` for the GENERATED `do_disassemble` with the GENERATED
`_format_disassembly`, and ANY disassembler `iat` (in particular the generated `instruction_at`, `iatG`):
when the command, on a range `start … end` inside the address space (ordinary or wrapping), completes,
it has printed one line per visited instruction, in order -- the first at `start`, each next one the
returned length further on (`Visits`), up to the first address beyond `end` -- and every line shows the
address the walk is at and the cells in memory at that address. -/
theorem disasm_walk_shows_bytes (d : Model.Fmt.Dev) (hd : d ∈ devices) (itoa : Int → Int → Except Exc Str)
    (mpurepr : St → Except Exc Str) (iat : St → Int → Except Exc (Int × Str)) (P : Parser) (fuel : Nat) (args : Str)
    (σ σ' : ShowSt) (hm : ∀ a, natMem σ.mpu.mem a < 2 ^ d.byteWidth) (start end_ : Int)
    (hr : disRange P args = .range start end_) (h0 : 0 ≤ start) (h1 : start ≤ (2 : Int) ^ d.addrWidth - 1)
    (h2 : end_ ≤ (2 : Int) ^ d.addrWidth - 1)
    (h : MonShowGen.do_disassemble itoa mpurepr iat (fmtdisG d) (mdev d) P fuel args σ = .ok () σ') :
    ∃ vs lines, σ'.mpu = σ.mpu ∧ σ'.out = σ.out ++ lines ∧
      Visits (iat σ.mpu) ((2 : Int) ^ d.addrWidth - 1) start end_ start (decide (start > end_)) vs ∧
      List.Forall₂ (fun v line => ∃ a len : Nat, v.1 = (a : Int) ∧ v.2.1 = (len : Int) ∧
        C19.ShowsBytes d (natMem σ.mpu.mem) a len v.2.2 line) vs lines := by
  rw [do_disassemble_eq] at h
  simp only [doDisassemble, hr, disFlow, mdev] at h
  generalize hw : walk (iat σ.mpu) (fmtdisG d σ.mpu) ((2 : Int) ^ d.addrWidth - 1) start end_ fuel start
    (decide (start > end_)) = w at h
  obtain ⟨lines, e⟩ := w
  cases e with
  | raised e => simp [walkFlow] at h
  | nofuel => simp [walkFlow] at h
  | done =>
    simp only [walkFlow, Flow.ok.injEq, true_and] at h
    obtain ⟨vs, hv, hf⟩ := C19.disasm_walk_shows_bytes d hd (natMem σ.mpu.mem) hm (iat σ.mpu) (fmtdisG d σ.mpu)
      (fmtdisG_spec hd σ.mpu) start end_ fuel lines h0 h1 h2 hw
    exact ⟨vs, lines, by rw [← h], by rw [← h], hv, hf⟩

/-- `disasm_walk_complete` for the GENERATED `do_disassemble`: on an ordinary range whose instructions
all have a length in `1 … L` (as `C09g.dis_len` / `dis_undeclared` show of the generated disassembler
with `L = 3`) the command completes within `cells + L + 1` units of fuel, so the hypothesis of
`disasm_walk_shows_bytes` is satisfiable. -/
theorem disasm_walk_complete (d : Model.Fmt.Dev) (hd : d ∈ devices) (itoa : Int → Int → Except Exc Str)
    (mpurepr : St → Except Exc Str) (iat : St → Int → Except Exc (Int × Str)) (P : Parser) (fuel : Nat) (args : Str)
    (σ : ShowSt) (start end_ : Int) (hr : disRange P args = .range start end_) (h0 : 0 ≤ start) (hse : start ≤ end_)
    (L : Nat) (hi : ∀ a, 0 ≤ a → a ≤ end_ → ∃ len text, iat σ.mpu a = .ok (len, text) ∧ 1 ≤ len ∧ len ≤ (L : Int))
    (hf : (end_ - start + 1).toNat + L + 1 ≤ fuel) :
    ∃ σ', MonShowGen.do_disassemble itoa mpurepr iat (fmtdisG d) (mdev d) P fuel args σ = .ok () σ' := by
  rw [do_disassemble_eq]
  simp only [doDisassemble, hr, disFlow, mdev]
  have hd' : decide (start > end_) = false := by simp; omega
  rw [hd']
  -- below `start` the walk never looks: give the disassembler's totality there a dummy
  have key : ∀ (fuel : Nat) (cur : Int), 0 ≤ cur → (end_ - cur + 1).toNat + L + 1 ≤ fuel →
      (walk (iat σ.mpu) (fmtdisG d σ.mpu) ((2 : Int) ^ d.addrWidth - 1) start end_ fuel cur false).2 = .done := by
    intro fuel
    induction fuel with
    | zero => intro cur _ h; omega
    | succ f ih =>
      intro cur hc0 h
      unfold walk
      by_cases hc : cur ≤ end_
      · obtain ⟨len, text, e1, e2, e3⟩ := hi cur hc0 hc
        obtain ⟨cn, rfl⟩ := Int.eq_ofNat_of_zero_le hc0
        obtain ⟨ln, rfl⟩ := Int.eq_ofNat_of_zero_le (by omega : 0 ≤ len)
        have hl : 0 ≤ (ln : Int) ∧ (ln : Int) < (f : Int) := by omega
        simp only [Bool.false_eq_true, false_or, hc, if_true, e1, fmtdisG_spec hd, hl, and_self, hd',
          Py65.Proofs.Show.advance_plain, Int.toNat_natCast]
        apply ih
        · omega
        · omega
      · simp [hc]
  have hk := key fuel start h0 hf
  generalize walk (iat σ.mpu) (fmtdisG d σ.mpu) ((2 : Int) ^ d.addrWidth - 1) start end_ fuel start false = w at hk
  obtain ⟨lines, e⟩ := w
  simp only at hk
  subst hk
  exact ⟨_, rfl⟩

/-- non-vacuity: the GENERATED `do_disassemble`, `instruction_at` and `_format_disassembly` together,
evaluated by the kernel: `disassemble fffe:0000` on a 6502 with `LDA #$42` at `$fffe` and `NOP` at 0
wraps past the top of memory and prints two lines. -/
example : (match MonShowGen.do_disassemble itoaG (fun _ => .error .Other) (iatG Model.Asm.dev6502 ⟨16, 16, []⟩)
      (fmtdisG dev6502) (mdev dev6502) ⟨16, 16, []⟩ 10 "fffe:0000".toList
      ⟨{ (default : St) with mem := fun a => if a = 0xfffe then 0xa9 else if a = 0xffff then 0x42 else 0xea }, []⟩ with
    | .ok _ σ => σ.out | _ => []) =
    ["$fffe  a9 42     LDA #$42".toList, "$0000  ea        NOP".toList] := by decide +kernel

example : disRange ⟨16, 16, []⟩ "fffe:0000".toList = .range 0xfffe 0 ∧
    disRange ⟨16, 16, []⟩ "c000".toList = .range 0xc000 0xc000 := by decide +kernel

end Show

end Py65.Props.C19g
