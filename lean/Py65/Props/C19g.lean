/-
C19g -- the C19 theorems that rest on `py65/utils/conversions.py: itoa`, restated for the GENERATED
`itoa` / `_itoa_fmts` (`Py65/Gen/DisasmGen.lean`, translated by `harness/py2lean_dis.py` on every run).

`itoa` is what prints the flag field of `MPU.__repr__` (`itoa(self.p, 2).rjust(BYTE_WIDTH, '0')`) and
the last line of the monitor's `~` command (`itoa(num, 2).zfill(8)`).  Property statements only; the
equalities `Gen.itoa = PyStr.fmtBinL / fmtDecL / toDigits 16` are in `Py65/Proofs/DisasmGenEq.lean`.
`disasm_shows_bytes` is restated for the generated `Monitor._format_disassembly` (py65/monitor.py).
What remains modelled (library behaviour): `dict.get`, `"{0:b}" / "{0}" / "{0:x}".format(n)`
(`Model/GenRt.lean`), `str.rjust`, `str.zfill`, `int(s, base)` (`Model/PyStr.lean`).
-/
import Py65.Props.C19b
import Py65.Proofs.DisasmGenEq

namespace Py65.Props.C19g
open Py65.Model.PyStr Py65.Model.GenRt Py65.Model.Fmt Py65.Proofs.Fmt Py65.Proofs.DisasmGenEq
open Py65.Gen.DisasmGen

/-- `int(itoa(n, 2).zfill(w), 2) = n` and the same with `rjust(w, '0')`, for every `n` and width. -/
theorem itoa_roundtrip_bin (w n : Nat) :
    ∃ s, itoa (n : Int) 2 = .ok s ∧ pyIntL (zfillL s w) 2 = some (n : Int) ∧
      pyIntL (rjustL s w '0') 2 = some (n : Int) := by
  refine ⟨fmtBinL n, itoa_eq_bin n, ?_, ?_⟩
  · simpa [pyInt, zfill, fmtBin] using (C19.fmt_roundtrip_bin w n).1
  · simpa [pyInt, rjust, fmtBin] using (C19.fmt_roundtrip_bin w n).2

example : itoa 5 2 = .ok "101".toList ∧ zfillL "101".toList 8 = "00000101".toList := by decide +kernel

/-- `int(itoa(n, 16), 16) = n` -/
theorem itoa_roundtrip_hex (n : Nat) : ∃ s, itoa (n : Int) 16 = .ok s ∧ pyIntL s 16 = some (n : Int) := by
  refine ⟨fmtHexL 0 n, itoa_eq_hex n, ?_⟩
  simpa [pyInt, fmtHex] using C19.fmt_roundtrip_hex 0 n

example : itoa 0xbeef 16 = .ok "beef".toList := by decide +kernel

/-- `int(itoa(n), 10) = n` (base 10 is the default), for every `n` CPython can print in decimal. -/
theorem itoa_roundtrip_dec (n : Nat) (hn : n < 10 ^ 4300) :
    ∃ s, itoa (n : Int) = .ok s ∧ pyIntL s 10 = some (n : Int) := by
  refine ⟨fmtDecL n, itoa_eq_default n, ?_⟩
  simpa [pyInt, fmtDec] using C19.fmt_roundtrip_dec n hn

example : itoa 65535 = .ok "65535".toList := by decide +kernel

/-- every base other than 2, 10, 16 is refused (`ValueError`), nothing is printed -/
theorem itoa_other_base (num base : Int) (h2 : base ≠ 2) (h10 : base ≠ 10) (h16 : base ≠ 16) :
    ∃ msg, itoa num base = .error (.ValueError msg) :=
  ⟨_, itoa_unsupported num base h2 h10 h16⟩

example : itoa 5 8 = .error (.ValueError "Unsupported base: 8".toList) := by decide +kernel

/-- `repr_flag_bits` with the generated `itoa`: for every device and registers within its widths,
`itoa(p, 2).rjust(BYTE_WIDTH, '0')` returns, and is the flag field of the register line: from left to
right bits `W-1 … 0` of P, exactly `W` characters. -/
theorem itoa_flag_bits (d : Dev) (hd : d ∈ devices) (r : Regs) (hr : r.WF d) :
    ∃ s, itoa (r.p : Int) 2 = .ok s ∧ rjustL s d.byteWidth '0' = flags d r.p ∧
      flags d r.p = (List.range d.byteWidth).reverse.map (flagChar r.p) ∧
      (flags d r.p).length = d.byteWidth := by
  obtain ⟨h1, h2, -⟩ := C19.repr_flag_bits d hd r hr
  exact ⟨fmtBinL r.p, itoa_eq_bin r.p, rfl, h1, h2⟩

example : itoa 0xb1 2 = .ok "10110001".toList ∧ rjustL "10110001".toList 8 '0' = flags dev6502 0xb1 := by
  decide +kernel

/-- the binary line of `~ n` (`itoa(n, 2).zfill(8)`) reads back to `n`, like the other three lines
(`C19.tilde_consistent`) -/
theorem tilde_bin_line (n : Nat) : ∃ s, itoa (n : Int) 2 = .ok s ∧ pyIntL (zfillL s 8) 2 = some (n : Int) := by
  obtain ⟨s, h1, h2, -⟩ := itoa_roundtrip_bin 8 n
  exact ⟨s, h1, h2⟩

example : itoa 256 2 = .ok "100000000".toList := by decide +kernel

/-- `disasm_shows_bytes` for the GENERATED `Monitor._format_disassembly` (the text of every line of
`disassemble` / `assemble` / `step` output): the call returns, the line starts with `$` and the
address in the device's address format (reading it back gives the address); two blanks on, the `k`-th
group of the byte column is the cell at `address + k`, wrapping to 0 after the top of the address
space, for every `k` below the instruction length; and for instructions of up to three cells the
instruction text starts right after the fixed-width column. -/
theorem disasm_shows_bytes (d : Dev) (hd : d ∈ devices) (mem : Nat → Nat) (hm : ∀ a, mem a < 2 ^ d.byteWidth)
    (address length : Nat) (ha : address < 2 ^ d.addrWidth) (disasm : Str) :
    ∃ t, Monitor._format_disassembly (monOf d mem) (address : Int) (length : Int) disasm = .ok t ∧
    t.head? = some '$' ∧
    pyIntL ((t.drop 1).take d.addrDigits) 16 = some (address : Int) ∧
    (∀ k, k < length →
      ((t.drop (1 + d.addrDigits + 2 + k * (d.byteDigits + 1))).take (d.byteDigits + 1) =
          fmtHexL d.byteDigits (mem ((address + k) % 2 ^ d.addrWidth)) ++ [' '] ∧
       pyIntL (fmtHexL d.byteDigits (mem ((address + k) % 2 ^ d.addrWidth))) 16 =
          some ((mem ((address + k) % 2 ^ d.addrWidth) : Nat) : Int))) ∧
    (length ≤ 3 → t.drop (1 + d.addrDigits + 2 + fieldWidth d) = disasm) :=
  ⟨_, format_disassembly_eq hd mem address length disasm,
    C19.disasm_shows_bytes d hd mem hm address length ha disasm⟩

/-- non-vacuity: the generated code itself, evaluated by the kernel (a line at the top of memory wraps) -/
example : Monitor._format_disassembly (monOf dev6502 (fun a => if a = 0xffff then 0xa9 else 0x42)) 0xffff 2
    "LDA #$42".toList = .ok "$ffff  a9 42     LDA #$42".toList := by decide +kernel

end Py65.Props.C19g
