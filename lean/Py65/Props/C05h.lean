/-
C05h -- execution is CLOSED over histories (second C05 file, own namespace `Py65.Props.C05h`).

PROPERTY THEOREMS ONLY (helper lemmas: Proofs/Hist.lean, HistSpecClosed.lean, HistArith.lean,
HistArithSteps.lean [generated], HistStep.lean, HistLog.lean, HistLogHandlers.lean / HistLogSteps.lean
[generated], HistLogRun.lean).  C05 has the one-step facts for undeclared opcodes, PC, reset and nmi;
here, for lists of calls `step() / irq() / nmi() / reset(start)` folded over the GENERATED device
operations (`Hist.run`), on all three devices:

  * `closed_step`      ONE `step()` at EVERY opcode byte 0..255 - declared or not, binary and decimal mode,
                       JSR wherever the stack lies, a waiting 65C02 - of a well-formed state gives a
                       well-formed state: A X Y SP P inside the byte, PC inside the address space, every
                       memory cell inside the byte (and a 6502 / 65Org16 still does not wait);
  * `closed_call`      the same for every call (`irq()`, `nmi()`, `reset(start)`);
  * `closed_history`   hence for every history, at EVERY intermediate state and at the end;
  * `closed_history_6502 / _65c02 / _65org16`  the same with the hypotheses spelled out per device;
  * `accesses_closed_history`   every access the recording memory sees along a history - EVERY read and
                       EVERY write, opcode fetches, operands, pointers, vectors, stack and data - is at an
                       address inside the address space, and every value written fits the byte
                       (`LogOK`; the generated model logs each `memory[e]` / `memory[e] = v` with its value);
  * `writes_closed_history / reads_closed_history`   the same, unfolded, for a recording that starts empty.
How the one-step closure is obtained (`Proofs/HistStep.lean`): declared opcodes other than ADC/SBC/JSR from
C01/C02/C03 (`abs (step s) = Spec.step (abs s)`) and the closure of the programming model, proved once
per Spec operation, width-generic (`Proofs/HistSpecClosed.lean`: `exec_closed`, `interrupt_closed`, ...);
ADC/SBC (both modes) and JSR (no side condition) directly on the generated helpers
(`Proofs/HistArith.lean`); undeclared bytes from C05's `undeclared_dev*`.

What is quantified over (`Hist.OpOK`, per call, on the state it is applied to), and nothing else:
  * `reset(start)`: `start` is an address (`0 ≤ start ≤ addrMask`) - `reset` stores it unmasked;
  * 65Org16 `step()`: the opcode cell holds a byte 0..255 (a cell above 255 makes the real `step()` raise
    IndexError: recorded in DESIGN 0.5, outside C05's quantifier "every opcode byte 0..255").
The initial state is well-formed and, on the 6502 / 65Org16, not waiting (`Hist.Inv`; those classes have
no WAI, `waiting` is only ever set by the 65C02's WAI, and the invariant proves it stays false).
-/
import Py65.Proofs.HistLogRun

namespace Py65.Props.C05h
open Py65 Py65.Gen Py65.Spec Py65.Proofs Py65.Proofs.Hist

/-- One `step()`, every opcode byte 0..255, every device. -/
theorem closed_step (d : Dev) (s : St) (hi : Inv d s) (hok : OpOK d .step s) : Inv d (d.step s) :=
  apply_inv d .step s hi hok

/-- The three devices separately, hypotheses spelled out. -/
theorem closed_step_6502 (s : St) (hs : WF dev6502.cfg s) (hw : s.waiting = false) :
    WF dev6502.cfg (dev6502.step s) ∧ (dev6502.step s).waiting = false := step_inv_nmos s hs hw

theorem closed_step_65c02 (s : St) (hs : WF dev65c02.cfg s) : WF dev65c02.cfg (dev65c02.step s) :=
  step_inv_cmos s hs

theorem closed_step_65org16 (s : St) (hs : WF dev65org16.cfg s) (hw : s.waiting = false)
    (hop : s.mem s.pc < 256) :
    WF dev65org16.cfg (dev65org16.step s) ∧ (dev65org16.step s).waiting = false :=
  step_inv_org16 s hs hw hop

/-- Every call. -/
theorem closed_call (d : Dev) (o : Op) (s : St) (hi : Inv d s) (hok : OpOK d o s) : Inv d (apply d o s) :=
  apply_inv d o s hi hok

/-- **Closure over histories**: every state a history passes through, and the state it ends in, is
well-formed. -/
theorem closed_history (d : Dev) (ops : List Op) (s : St) (hi : Inv d s) (hok : Along d (OpOK d) ops s) :
    Along d (fun _ s' => Inv d s') ops s ∧ Inv d (run d ops s) := run_inv d ops s hi hok

/-- All reset start addresses of the list are addresses of the device. -/
def ResetsOK (c : Cfg) (ops : List Op) : Prop := ∀ a, Op.reset (some a) ∈ ops → 0 ≤ a ∧ a ≤ c.addrMask

theorem along_of_resetsOK (d : Dev) (hd : d ≠ .org16) (ops : List Op) (s : St) (hr : ResetsOK d.cfg ops) :
    Along d (OpOK d) ops s := by
  induction ops generalizing s with
  | nil => trivial
  | cons o ops ih =>
    refine ⟨?_, ih _ (fun a ha => hr a (List.mem_cons_of_mem _ ha))⟩
    cases o with
    | step => intro h; exact absurd h hd
    | irq => trivial
    | nmi => trivial
    | reset a =>
      cases a with
      | none => trivial
      | some a => exact hr a List.mem_cons_self

/-- 6502: any well-formed start state, ANY list of calls whose reset addresses are addresses. -/
theorem closed_history_6502 (ops : List Op) (s : St) (hs : WF dev6502.cfg s) (hw : s.waiting = false)
    (hr : ResetsOK dev6502.cfg ops) : WF dev6502.cfg (run .nmos ops s) :=
  (run_inv .nmos ops s ⟨hs, fun _ => hw⟩ (along_of_resetsOK .nmos (by decide) ops s hr)).2.1

/-- 65C02: any well-formed start state (waiting or not), any list of calls whose reset addresses are
addresses. -/
theorem closed_history_65c02 (ops : List Op) (s : St) (hs : WF dev65c02.cfg s)
    (hr : ResetsOK dev65c02.cfg ops) : WF dev65c02.cfg (run .cmos ops s) :=
  (run_inv .cmos ops s ⟨hs, fun h => absurd rfl h⟩ (along_of_resetsOK .cmos (by decide) ops s hr)).2.1

/-- 65Org16: additionally every opcode cell executed holds a byte 0..255 (`OpOK`). -/
theorem closed_history_65org16 (ops : List Op) (s : St) (hs : WF dev65org16.cfg s) (hw : s.waiting = false)
    (hok : Along .org16 (OpOK .org16) ops s) : WF dev65org16.cfg (run .org16 ops s) :=
  (run_inv .org16 ops s ⟨hs, fun _ => hw⟩ hok).2.1

/-! ### the accesses along a history -/

/-- **Every access along a history is inside the address space, every written value fits the byte**
(stated on the log of the recording memory: if the log was fine before, it is fine after). -/
theorem accesses_closed_history (d : Dev) (ops : List Op) (s : St) (hi : Inv d s)
    (hok : Along d (OpOK d) ops s) (hl : LogOK d.W s.log) : LogOK d.W (run d ops s).log :=
  run_log d ops s hi hok hl

/-- One call. -/
theorem accesses_closed_call (d : Dev) (o : Op) (s : St) (hi : Inv d s) (hl : LogOK d.W s.log) :
    LogOK d.W (apply d o s).log := apply_log d o s hi hl

theorem inB_W (d : Dev) (v : Int) : InB d.W v ↔ (0 ≤ v ∧ v ≤ d.cfg.byteMask) := by
  rw [← d.W_eq]; exact inB_iff d.isDev v
theorem inA_W (d : Dev) (v : Int) : InA d.W v ↔ (0 ≤ v ∧ v ≤ d.cfg.addrMask) := by
  rw [← d.W_eq]; exact inA_iff d.isDev v

/-- Unfolded, for a recording that starts empty: every WRITE the history performs is at an address
`0 ≤ a ≤ addrMask` with a value `0 ≤ v ≤ byteMask`. -/
theorem writes_closed_history (d : Dev) (ops : List Op) (s : St) (hi : Inv d s)
    (hok : Along d (OpOK d) ops s) (hl : s.log = []) (a v : Int)
    (hev : MemEv.w a v ∈ (run d ops s).log) :
    (0 ≤ a ∧ a ≤ d.cfg.addrMask) ∧ (0 ≤ v ∧ v ≤ d.cfg.byteMask) := by
  have h := run_log d ops s hi hok (hl ▸ LogOK_nil _) _ hev
  exact ⟨(inA_W d a).1 h.1, (inB_W d v).1 h.2⟩

/-- ... and every READ (opcode, operand, pointer, vector, stack, data) is at an address `0 ≤ a ≤ addrMask`. -/
theorem reads_closed_history (d : Dev) (ops : List Op) (s : St) (hi : Inv d s)
    (hok : Along d (OpOK d) ops s) (hl : s.log = []) (a : Int)
    (hev : MemEv.r a ∈ (run d ops s).log) : 0 ≤ a ∧ a ≤ d.cfg.addrMask :=
  (inA_W d a).1 (run_log d ops s hi hok (hl ▸ LogOK_nil _) _ hev)

/-! ### non-vacuity -/

/-- A 6502 in DECIMAL mode with SP = `$00`: `ADC #$99` (decimal), an undeclared opcode byte `$02`, `JSR $0300`
(pushes wrap from `$0100` to `$01FF`), then irq(), nmi() and a reset to `$0300`. -/
def demoState : St :=
  { (default : St) with a := 0x99, sp := 0, p := 0x39, mem := fun k => if k = 0 then 0x69 else if k = 1 then 0x99 else if k = 2 then 0x02 else if k = 4 then 0x20 else if k = 6 then 0x03 else 0x00 }

def demoOps : List Op := [.step, .step, .step, .irq, .nmi, .reset (some 0x300)]

theorem demo_inv : Inv .nmos demoState := by
  refine ⟨⟨by decide, by decide, by decide, by decide, by decide, by decide, ?_⟩, fun _ => rfl⟩
  intro k; simp only [demoState]; (repeat' split) <;> decide

theorem demo_ok : Along .nmos (OpOK .nmos) demoOps demoState :=
  along_of_resetsOK .nmos (by decide) _ _ (by
    intro a ha
    simp only [demoOps, List.mem_cons, List.mem_nil_iff, or_false, reduceCtorEq, false_or, Op.reset.injEq,
      Option.some.injEq] at ha
    subst ha; decide)

/-- What the generated 6502 logs for the first three calls (kernel evaluation of the generated code): the
decimal ADC reads its operand, the undeclared byte only its opcode, the JSR writes `$00` to `$0100` and
`$06` to `$01FF` (stack wrap) and reads its operand bytes. -/
example : (run .nmos [.step, .step, .step] demoState).log.reverse =
    [.r 0, .r 1, .r 2, .r 4, .w 0x100 0x00, .w 0x1ff 0x06, .r 5, .r 6] := by decide +kernel

/-- ... and the theorems apply to the whole history. -/
example : WF dev6502.cfg (run .nmos demoOps demoState) := (closed_history .nmos demoOps demoState demo_inv demo_ok).2.1
example : LogOK 8 (run .nmos demoOps demoState).log :=
  accesses_closed_history .nmos demoOps demoState demo_inv demo_ok (LogOK_nil _)

end Py65.Props.C05h
