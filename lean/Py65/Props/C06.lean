/-
C06 -- Interrupts, subroutines, reset and WAI keep the stack and control flow intact.

PROPERTY THEOREMS ONLY (helper lemmas: Py65/Proofs/Interrupts.lean, Pairing.lean).
Reading chosen for "irq() does nothing at all while I is set" together with "a waiting 65C02
runs again after irq()": with I set, irq() changes no register, flag, cell, cycle count or access
log (`irq_masked`, whole-state equality on the shared irq()), but the 65C02 wrapper ends a WAI
first (W65C02S behaviour), see `wai_resumes`.
-/
import Py65.Proofs.Interrupts
import Py65.Proofs.Pairing

namespace Py65.Props.C06
open Py65 Py65.Gen Py65.Spec Py65.Proofs

/-- While I is set `irq()` is the identity on the whole model state (6502, 65Org16). -/
theorem irq_masked (c : Cfg) (hc : IsDev c) (s : St) (hI : flag s.p bitI = true) :
    Mpu6502.irq c s = s := Py65.Proofs.irq_masked c hc s hI

/-- On the 65C02 a masked `irq()` changes nothing but the waiting flag (cleared). -/
theorem irq_masked_65c02 (s : St) (hI : flag s.p bitI = true) :
    dev65c02.irq s = { s with waiting := false } := by
  show Mpu65c02.irq dev65c02.cfg s = _
  simp only [Mpu65c02.irq]
  exact Py65.Proofs.irq_masked c8 hc8 _ hI

/-- irq(): pushes PCH, PCL, P with B clear and bit 5 set; sets I; continues at the IRQ vector
(`Spec.irq`), for every well-formed state, on the two configurations. -/
theorem irq_entry (c : Cfg) (hc : IsDev c) (s : St) (hs : WF c s) (hw : s.waiting = false) :
    abs (Mpu6502.irq c s) = Spec.irq c.BYTE_WIDTH (abs s) := irq_sem c hc s hs hw

theorem nmi_entry (c : Cfg) (hc : IsDev c) (s : St) (hs : WF c s) (hw : s.waiting = false) :
    abs (Mpu6502.nmi c s) = Spec.nmi c.BYTE_WIDTH (abs s) := nmi_sem c hc s hs hw

theorem irq_entry_65c02 (s : St) (hs : WF dev65c02.cfg s) :
    abs (dev65c02.irq s) = Spec.irq 8 (abs s) := irq65c02_sem s hs
theorem nmi_entry_65c02 (s : St) (hs : WF dev65c02.cfg s) :
    abs (dev65c02.nmi s) = Spec.nmi 8 (abs s) := nmi65c02_sem s hs

/-- Pairing with a frame condition, for EVERY stack pointer (wrap-around included): whatever ran
in between, if it left SP and the three pushed cells as the entry made them, RTI resumes at the
interrupted PC with the interrupted flags and stack pointer. -/
theorem rti_after_interrupt (W : Nat) (hW : W = 8 ∨ W = 16) (v : Variant) (vec : Int) (s s' : AState)
    (hs : AWF W s) (hf : SameFrame (frame3 W s.sp) (interrupt W vec s) s') :
    (exec W v .RTI .imp s').pc = s.pc ∧ (exec W v .RTI .imp s').sp = s.sp ∧
    (exec W v .RTI .imp s').p = s.p := Py65.Proofs.rti_after_interrupt W hW v vec s s' hs hf

theorem rts_after_jsr (W : Nat) (hW : W = 8 ∨ W = 16) (v : Variant) (s s' : AState)
    (hs : AWF W s) (hf : SameFrame (frame2 W s.sp) (exec W v .JSR .abs s) s') :
    (exec W v .RTS .imp s').pc = (s.pc + 2) % AM W ∧ (exec W v .RTS .imp s').sp = s.sp :=
  Py65.Proofs.rts_after_jsr W hW v s s' hs hf

theorem rti_after_brk (W : Nat) (hW : W = 8 ∨ W = 16) (v : Variant) (s s' : AState)
    (hs : AWF W s) (hf : SameFrame (frame3 W s.sp) (exec W v .BRK .imp s) s') :
    (exec W v .RTI .imp s').pc = (s.pc + 1) % AM W ∧ (exec W v .RTI .imp s').sp = s.sp ∧
    (exec W v .RTI .imp s').p = s.p := Py65.Proofs.rti_after_brk W hW v s s' hs hf

/-- reset(): documented power-on registers, PC from the start address or the reset vector. -/
theorem reset_spec (c : Cfg) (hc : IsDev c) (s : St) (hw : s.waiting = false) (a : Int) :
    abs (Mpu6502.reset_at c a s) = Spec.reset c.BYTE_WIDTH (some a) (abs s) ∧
    abs (Mpu6502.reset_vec c s) = Spec.reset c.BYTE_WIDTH none (abs s) ∧
    (Mpu6502.reset_at c a s).cycles = 0 ∧ (Mpu6502.reset_vec c s).cycles = 0 :=
  ⟨reset_at_sem c hc a s hw, reset_vec_sem c hc s hw, rfl, rfl⟩

/-- A 65C02 stopped by WAI executes nothing: step() changes only the cycle counter. -/
theorem wai_halts (s : St) (hw : s.waiting = true) :
    dev65c02.step s = { s with cycles := s.cycles + 1 } :=
  Py65.Proofs.wai_halts dev65c02.cfg dev65c02.tbl s hw

/-- … and runs again after irq(), nmi() or reset(). -/
theorem wai_resumes (s : St) (a : Option Int) :
    (dev65c02.irq s).waiting = false ∧ (dev65c02.nmi s).waiting = false ∧
    (dev65c02.reset a s).waiting = false := by
  have h := Py65.Proofs.wai_resumes dev65c02.cfg s (a.getD 0)
  refine ⟨h.1, h.2.1, ?_⟩
  cases a <;> rfl

/-- Non-vacuity: SP = 0 (pushes wrap to $FF) is a well-formed interrupted state. -/
example : AWF 8 { a := 0, x := 0, y := 0, sp := 0, p := 0x30, pc := 0xfffe, mem := fun _ => 0, waiting := false } :=
  ⟨by decide, by decide, by decide, by decide⟩

end Py65.Props.C06
