/-
C04c -- what the Spec of C04 MEANS for SBC, and which part of `C04.cmos_acv` is definitional
(third C04 file, own namespace `Py65.Props.C04c`; imports only `Spec/Decimal.lean`, so it never touches
the 128 chunk files under `Proofs/Dec/`).

`C04.valid_bcd_is_decimal_sum` says that on valid BCD operands Clark's NMOS ADC sequence computes the
two-digit decimal sum with decimal carry.  The counterpart for SBC was missing:

* `valid_bcd_is_decimal_difference`        NMOS Seq. 3: for valid BCD `A`, `M` and carry-in `c` (borrow = `¬c`)
      the accumulator is the two-digit decimal difference `A - M - borrow` modulo 100 and the carry-out is
      "no decimal borrow" (all 100 x 100 x 2 cases, kernel evaluation);
* `valid_bcd_is_decimal_difference_cmos`   the same for the 65C02 sequence (Seq. 4);
Both also state that the result is valid BCD again (so `bcdVal` really reads two decimal digits).

NOTE on `C04.cmos_acv` (six conjuncts: A, C, V of ADC and of SBC, NMOS sequence = 65C02 sequence on valid
BCD).  `Spec.Decimal.adcCmos` IS `adcNmos` with only `n` and `z` overridden, and `sbcCmos` takes `c` and `v`
(and nothing else that `cmos_acv` mentions) from `sbcNmos`; so FIVE of the six conjuncts hold by definition,
for ALL operands, valid BCD or not -- they say nothing beyond "the Spec was written that way"
(`cmos_acv_definitional_part` below makes that explicit: proof by `rfl`).  The one conjunct with content is
the SBC ACCUMULATOR: Clark's Seq. 3 (NMOS) and Seq. 4 (65C02) are different computations that agree on
valid BCD (`cmos_acv`'s fourth conjunct) and differ outside (`sbc_sequences_differ_off_bcd`).  That the REAL
65C02 class matches is not carried by `cmos_acv` at all but by `C04.nmos_adc` / `nmos_sbc` (generated code =
NMOS sequences on all 2 x 2^17 triples; the 65C02 inherits that code) and by the recorded N/Z finding.
-/
import Py65.Spec.Decimal

namespace Py65.Props.C04c
open Py65.Spec.Decimal

/-- A valid BCD byte from its two decimal digits (as `C04.bcd`). -/
def bcd (h l : Fin 10) : Int := Int.ofNat (16 * h.val + l.val)

/-- Every `bcd h l` is valid BCD, with decimal value `10 h + l`. -/
theorem bcd_valid : ∀ h l : Fin 10, validBcd (bcd h l) = true ∧ bcdVal (bcd h l) = 10 * h.val + l.val := by
  decide +kernel

/-- **What the Spec means for SBC (NMOS, Seq. 3)**: on valid BCD operands the result is valid BCD and is the
two-digit decimal difference; carry-out clear = a decimal borrow occurred (100 was added). -/
theorem valid_bcd_is_decimal_difference : ∀ ah al mh ml : Fin 10, ∀ c : Bool,
    validBcd (sbcNmos (bcd ah al) (bcd mh ml) c).a = true ∧
    bcdVal (sbcNmos (bcd ah al) (bcd mh ml) c).a - (if (sbcNmos (bcd ah al) (bcd mh ml) c).c then 0 else 100) =
      bcdVal (bcd ah al) - bcdVal (bcd mh ml) - (if c then 0 else 1) := by
  decide +kernel

/-- The same for the 65C02 sequence (Seq. 4). -/
theorem valid_bcd_is_decimal_difference_cmos : ∀ ah al mh ml : Fin 10, ∀ c : Bool,
    validBcd (sbcCmos (bcd ah al) (bcd mh ml) c).a = true ∧
    bcdVal (sbcCmos (bcd ah al) (bcd mh ml) c).a - (if (sbcCmos (bcd ah al) (bcd mh ml) c).c then 0 else 100) =
      bcdVal (bcd ah al) - bcdVal (bcd mh ml) - (if c then 0 else 1) := by
  decide +kernel

/-- Five of the six conjuncts of `C04.cmos_acv` hold by definition of the Spec, for ALL operands. -/
theorem cmos_acv_definitional_part (a b : Int) (c : Bool) :
    (adcNmos a b c).a = (adcCmos a b c).a ∧ (adcNmos a b c).c = (adcCmos a b c).c ∧
    (adcNmos a b c).v = (adcCmos a b c).v ∧
    (sbcNmos a b c).c = (sbcCmos a b c).c ∧ (sbcNmos a b c).v = (sbcCmos a b c).v :=
  ⟨rfl, rfl, rfl, rfl, rfl⟩

/-- The sixth (SBC accumulator) is not: Seq. 3 and Seq. 4 differ outside valid BCD, e.g. `$00 - $0F` with
carry set gives `$9B` on the NMOS sequence and `$8B` on the 65C02 sequence. -/
theorem sbc_sequences_differ_off_bcd :
    (sbcNmos 0x00 0x0F true).a = 0x9B ∧ (sbcCmos 0x00 0x0F true).a = 0x8B := by decide +kernel

/-- non-vacuity / reading aid: `$42 - $17` = `$25`, no borrow; `$12 - $21` = `$91` with borrow;
`$00 - $00` with borrow-in = `$99` with borrow. -/
example : (sbcNmos 0x42 0x17 true).a = 0x25 ∧ (sbcNmos 0x42 0x17 true).c = true ∧
    (sbcNmos 0x12 0x21 true).a = 0x91 ∧ (sbcNmos 0x12 0x21 true).c = false ∧
    (sbcNmos 0x00 0x00 false).a = 0x99 ∧ (sbcNmos 0x00 0x00 false).c = false ∧
    bcd 4 2 = 0x42 ∧ bcdVal 0x91 = 91 := by decide +kernel

end Py65.Props.C04c
