/-
C19 — "What the monitor displays is the machine's true state": the two display COMMANDS whose
control flow `Props/C19b.lean` does not cover -- `~ <number>` as a whole and the range walk of
`disassemble <range>` (hand model `Py65/Model/Show.lean`; the texts are those of `Model/Fmt.lean`).
Same namespace as `Props/C19.lean` / `C19b.lean`.  Property theorems only (helper lemmas:
`Py65/Proofs/ShowLemmas.lean`).  The model is tied to py65/monitor.py by regeneration
(`Py65/Proofs/ReprGenEq.lean`: `do_tilde_eq`, `do_disassemble_eq`); `Props/C19g.lean` restates these
theorems for the generated functions.
-/
import Py65.Proofs.ShowLemmas
import Py65.Props.C19b

namespace Py65.Props.C19
open Py65.Model.PyStr Py65.Model.AddrParser Py65.Model.Fmt Py65.Model.Show Py65.Proofs.Show Py65.Proofs.Num

/-- `tilde_shows_number`: for an argument the address parser reads as the number `n`, `~` prints
exactly four lines -- `+` and decimal digits, `$` and hex digits, octal digits, binary digits -- and
every one of them denotes `n` (read back by `int(text, base)`).  `bw` is the `N` of `BYTE_FORMAT`. -/
theorem tilde_shows_number (bw : Nat) (P : Parser) (args : Str) (n : Nat) (hn : n < 10 ^ 4300)
    (hargs : args ≠ []) (hp : numberL P args = .ok (n : Int)) :
    ∃ t1 t2 t3 t4, doTilde bw P args = .lines ['+' :: t1, '$' :: t2, t3, t4] ∧
      pyIntL t1 10 = some (n : Int) ∧ pyIntL t2 16 = some (n : Int) ∧
      pyIntL t3 8 = some (n : Int) ∧ pyIntL t4 2 = some (n : Int) := by
  obtain ⟨h1, h2, h3, h4⟩ := tilde_consistent bw n hn
  refine ⟨fmtDecL n, fmtHexL bw n, fmtOctL 4 n, zfillL (fmtBinL n) 8, ?_, ?_, ?_, ?_, ?_⟩
  · simp only [doTilde, hargs, if_false, hp, tildeLines_nat]
  · simpa [pyInt, fmtDec] using h1
  · simpa [pyInt, fmtHex] using h2
  · simpa [pyInt, fmtOct4, fmtOct] using h3
  · simpa [pyInt, zfill, fmtBin] using h4

/-- non-vacuity: `~ $ff` on a 6502 monitor (`BYTE_FORMAT = "%02x"`). -/
example : doTilde 2 P16 "$ff".toList =
    .lines ["+255".toList, "$ff".toList, "0377".toList, "11111111".toList] := by decide +kernel

/-- `tilde_rejects`: an argument the parser refuses with `KeyError` / `OverflowError` prints one
message line naming the argument and no number at all. -/
theorem tilde_rejects (bw : Nat) (P : Parser) (args : Str) (hargs : args ≠ []) :
    (numberL P args = .key → doTilde bw P args = .lines ["Bad label: ".toList ++ args]) ∧
    (numberL P args = .overflow → doTilde bw P args = .lines ["Overflow error: ".toList ++ args]) := by
  constructor <;> intro h <;> simp only [doTilde, hargs, if_false, h]

example : doTilde 2 P16 "nosuch".toList = .lines ["Bad label: nosuch".toList] ∧
    doTilde 2 P16 "$10000".toList = .lines ["Overflow error: $10000".toList] := by decide +kernel

/-- The display property of ONE line `t` of `disassemble` output for the instruction of `length`
cells at `address` with the text `disasm` (the conclusion of `disasm_shows_bytes`). -/
def ShowsBytes (d : Dev) (mem : Nat → Nat) (address length : Nat) (disasm t : Str) : Prop :=
  t.head? = some '$' ∧
  pyIntL ((t.drop 1).take d.addrDigits) 16 = some (address : Int) ∧
  (∀ k, k < length →
    ((t.drop (1 + d.addrDigits + 2 + k * (d.byteDigits + 1))).take (d.byteDigits + 1) =
        fmtHexL d.byteDigits (mem ((address + k) % 2 ^ d.addrWidth)) ++ [' '] ∧
     pyIntL (fmtHexL d.byteDigits (mem ((address + k) % 2 ^ d.addrWidth))) 16 =
        some ((mem ((address + k) % 2 ^ d.addrWidth) : Nat) : Int))) ∧
  (length ≤ 3 → t.drop (1 + d.addrDigits + 2 + fieldWidth d) = disasm)

theorem showsBytes_format (d : Dev) (hd : d ∈ devices) (mem : Nat → Nat) (hm : ∀ a, mem a < 2 ^ d.byteWidth)
    (address length : Nat) (ha : address < 2 ^ d.addrWidth) (disasm : Str) :
    ShowsBytes d mem address length disasm (formatDisassembly d mem address length disasm) :=
  disasm_shows_bytes d hd mem hm address length ha disasm

/-- `disasm_walk`: what a completed `disassemble <range>` printed, for ANY disassembler `iat` and line
formatter `fmt`: one line per visited instruction, in order; the first visited address is `cur`
(`start`), each instruction is what `iat` returns at its address, the next address is its length
further on (`Visits` / `advance`), and the walk ends at the first address beyond `end`. -/
theorem disasm_walk {ε : Type} (iat : Int → Except ε (Int × Str)) (fmt : Int → Int → Str → Except ε Str)
    (maxA start end_ : Int) (fuel : Nat) (cur : Int) (nw : Bool) (lines : List Str)
    (h : walk iat fmt maxA start end_ fuel cur nw = (lines, .done)) :
    ∃ vs, Visits iat maxA start end_ cur nw vs ∧
      List.Forall₂ (fun v line => fmt v.1 v.2.1 v.2.2 = .ok line) vs lines :=
  walk_visits iat fmt maxA start end_ fuel cur nw lines h

/-- `disasm_walk_plain`: in an ordinary range (`start ≤ end`) the visited instructions are
consecutive: each starts where the previous one ended (address + length), the first at `start`,
the last is the one that reaches beyond `end`. -/
theorem disasm_walk_plain {ε : Type} (iat : Int → Except ε (Int × Str)) (fmt : Int → Int → Str → Except ε Str)
    (maxA start end_ : Int) (hse : start ≤ end_) (fuel : Nat) (lines : List Str)
    (h : walk iat fmt maxA start end_ fuel start (decide (start > end_)) = (lines, .done)) :
    ∃ vs, Steps iat end_ start vs ∧ List.Forall₂ (fun v line => fmt v.1 v.2.1 v.2.2 = .ok line) vs lines := by
  have hd : decide (start > end_) = false := by simp; omega
  rw [hd] at h
  obtain ⟨vs, hv, hf⟩ := walk_visits iat fmt maxA start end_ fuel start false lines h
  exact ⟨vs, visits_plain iat maxA start end_ (by omega) vs start hv, hf⟩

/-- `disasm_walk_wraps`: in a wrapping range (`start > end`) the next address is taken modulo the
size of the address space, and passing the top ends the wrap phase. -/
theorem disasm_walk_wraps (maxA : Int) (n : Nat) (cur : Int) (nw : Bool) (h0 : 0 ≤ cur) (h1 : cur ≤ maxA)
    (hn : (n : Int) ≤ maxA + 1) :
    advance maxA true n cur nw = if cur + n > maxA then (cur + n - (maxA + 1), false) else (cur + n, nw) :=
  advance_wrap maxA n cur nw h0 h1 hn

/-- `disasm_walk_complete`: the hypothesis of `disasm_walk` is satisfiable -- an ordinary range whose
instructions have lengths `1 … L` and printable lines is walked to its end within
`cells + L + 1` units of fuel. -/
theorem disasm_walk_complete {ε : Type} (iat : Int → Except ε (Int × Str)) (fmt : Int → Int → Str → Except ε Str)
    (maxA start end_ : Int) (hse : start ≤ end_) (L : Nat)
    (hi : ∀ a, a ≤ end_ → ∃ len text line, iat a = .ok (len, text) ∧ 1 ≤ len ∧ len ≤ (L : Int) ∧
      fmt a len text = .ok line)
    (fuel : Nat) (hf : (end_ - start + 1).toNat + L + 1 ≤ fuel) :
    ∃ lines, walk iat fmt maxA start end_ fuel start (decide (start > end_)) = (lines, .done) := by
  have hd : decide (start > end_) = false := by simp; omega
  rw [hd]
  exact ⟨_, Prod.ext rfl (walk_complete iat fmt maxA start end_ (by omega) L hi fuel start hf)⟩

/-- The line formatter of the display model as the walk's `fmt` (it never raises). -/
def fmtOf {ε : Type} (d : Dev) (mem : Nat → Nat) : Int → Int → Str → Except ε Str :=
  fun a len text => .ok (formatDisassembly d mem a.toNat len.toNat text)

/-- `disasm_walk_shows_bytes`: every line of a completed `disassemble <range>` inside the address
space (`0 ≤ start ≤ maxA`, `end ≤ maxA`, `maxA = 2^ADDR_WIDTH - 1`; ordinary or wrapping) shows the
address the walk is at and the cells in memory at that address (`ShowsBytes`), for ANY disassembler and
for every line formatter that is the display model's `formatDisassembly` on addresses and lengths that
are not negative (`fmtOf`; the generated `Monitor._format_disassembly`: `format_disassembly_eq`). -/
theorem disasm_walk_shows_bytes {ε : Type} (d : Dev) (hd : d ∈ devices) (mem : Nat → Nat)
    (hm : ∀ a, mem a < 2 ^ d.byteWidth) (iat : Int → Except ε (Int × Str)) (fmt : Int → Int → Str → Except ε Str)
    (hfmt : ∀ (a len : Nat) (text : Str), fmt (a : Int) (len : Int) text = .ok (formatDisassembly d mem a len text))
    (start end_ : Int) (fuel : Nat)
    (lines : List Str) (h0 : 0 ≤ start) (h1 : start ≤ (2 : Int) ^ d.addrWidth - 1) (h2 : end_ ≤ (2 : Int) ^ d.addrWidth - 1)
    (h : walk iat fmt ((2 : Int) ^ d.addrWidth - 1) start end_ fuel start (decide (start > end_)) =
      (lines, .done)) :
    ∃ vs, Visits iat ((2 : Int) ^ d.addrWidth - 1) start end_ start (decide (start > end_)) vs ∧
      List.Forall₂ (fun v line => ∃ a len : Nat, v.1 = (a : Int) ∧ v.2.1 = (len : Int) ∧
        ShowsBytes d mem a len v.2.2 line) vs lines := by
  obtain ⟨vs, hv, hf⟩ := walk_visits iat fmt _ start end_ fuel start _ lines h
  refine ⟨vs, hv, ?_⟩
  have hnn := visits_nonneg iat _ start end_ vs start _ h0 hv
  have hle := visits_le iat _ start end_ h2 vs start _ (fun hw => ⟨hw, h1⟩) hv
  have hq := forall₂_and_left hf (Q := fun v => (0 ≤ v.1 ∧ 0 ≤ v.2.1) ∧ v.1 ≤ (2 : Int) ^ d.addrWidth - 1)
    (fun v hv' => ⟨hnn v hv', hle v hv'⟩)
  refine hq.imp ?_
  rintro ⟨a, len, text⟩ line ⟨⟨⟨ha0, hl0⟩, hamax⟩, hline⟩
  obtain ⟨an, rfl⟩ := Int.eq_ofNat_of_zero_le ha0
  obtain ⟨ln, rfl⟩ := Int.eq_ofNat_of_zero_le hl0
  refine ⟨an, ln, rfl, rfl, ?_⟩
  simp only [hfmt, Except.ok.injEq] at hline
  rw [← hline]
  have han : an < 2 ^ d.addrWidth := by
    have : (an : Int) < (2 : Int) ^ d.addrWidth := by simp only at hamax; omega
    exact_mod_cast this
  exact showsBytes_format d hd mem hm an ln han text

theorem fmtOf_spec {ε : Type} (d : Dev) (mem : Nat → Nat) (a len : Nat) (text : Str) :
    fmtOf (ε := ε) d mem (a : Int) (len : Int) text = .ok (formatDisassembly d mem a len text) := by
  simp [fmtOf]

/-- non-vacuity: `disassemble fffe:0001` on a 6502 whose memory holds `LDA #$42` at `$fffe` and NOPs
elsewhere (a toy two-opcode disassembler): three lines, the walk wraps past the top of memory. -/
example :
    let mem : Nat → Nat := fun a => if a = 0xfffe then 0xa9 else if a = 0xffff then 0x42 else 0xea
    let iat : Int → Except Unit (Int × Str) := fun a =>
      if mem a.toNat = 0xa9 then .ok (2, "LDA #$42".toList) else .ok (1, "NOP".toList)
    walk iat (fmtOf dev6502 mem) 0xffff 0xfffe 1 10 0xfffe true =
      (["$fffe  a9 42     LDA #$42".toList, "$0000  ea        NOP".toList, "$0001  ea        NOP".toList], .done) := by
  decide +kernel

end Py65.Props.C19
