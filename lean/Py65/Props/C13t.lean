/-
C13t -- the generated per-opcode tables have exactly 256 entries (small extra C13 file, namespace
`Py65.Props.C13`; imports only the generated tables and devices).

Why: `C13.cycles_table_65c02_partial` (and the lookups `dev*.cycletime n = dev*.cycletimeL.getD n 0`,
`dev*.instruct n = (dev*.instructL cfg).getD n id`) read the tables with a DEFAULT.  For an undeclared
opcode the expected cycle count is 0 and the default is 0 too, so a table that was too SHORT would satisfy
the statement by accident.  `tables_have_256_entries` closes that: every one of the twelve tables the
translator emits (cycle times, extra cycles, handlers, disassembly; three devices) has length 256, hence
for `n < 256` no lookup ever returns the default (`lookup_is_entry`).
-/
import Py65.Gen.Devices

namespace Py65.Props.C13
open Py65 Py65.Gen

set_option maxRecDepth 65536 in
/-- Every generated per-opcode table has exactly 256 entries. -/
theorem tables_have_256_entries (c : Cfg) :
    dev6502.cycletimeL.length = 256 ∧ dev6502.extracyclesL.length = 256 ∧
    (dev6502.instructL c).length = 256 ∧ dev6502.disassembleL.length = 256 ∧
    dev65c02.cycletimeL.length = 256 ∧ dev65c02.extracyclesL.length = 256 ∧
    (dev65c02.instructL c).length = 256 ∧ dev65c02.disassembleL.length = 256 ∧
    dev65org16.cycletimeL.length = 256 ∧ dev65org16.extracyclesL.length = 256 ∧
    (dev65org16.instructL c).length = 256 ∧ dev65org16.disassembleL.length = 256 := by
  refine ⟨?_, ?_, ?_, ?_, ?_, ?_, ?_, ?_, ?_, ?_, ?_, ?_⟩ <;> first | decide +kernel | rfl

/-- Hence a lookup below 256 returns an ENTRY of the table, never the default. -/
theorem lookup_is_entry {α : Type} (l : List α) (h : l.length = 256) (n : Nat) (hn : n < 256) (dflt : α) :
    l.getD n dflt = l[n]'(h ▸ hn) := by
  simp [List.getD, List.getElem?_eq_getElem (h ▸ hn)]

/-- non-vacuity / use: the 65C02 cycle-time lookup at any opcode byte is the table entry. -/
example (n : Nat) (hn : n < 256) :
    dev65c02.cycletimeL.getD n 0 = dev65c02.cycletimeL[n]'((tables_have_256_entries dev65c02.cfg).2.2.2.2.1 ▸ hn) :=
  lookup_is_entry _ (tables_have_256_entries dev65c02.cfg).2.2.2.2.1 n hn 0

example : dev65c02.cycletimeL.getD 0x80 0 = 1 ∧ dev6502.cycletimeL.getD 0xEA 0 = 2 ∧
    dev6502.cycletimeL.getD 256 0 = 0 := by decide +kernel

end Py65.Props.C13
