/-
C09h -- THE LISTING FOLLOWS THE EXECUTION (composition of C09 with C19, C01-C03, C05h, C12; own namespace
`Py65.Props.C09h`).

PROPERTY THEOREMS ONLY (helper lemmas: `Proofs/Compose2Arith*.lean`, `Compose2Step.lean`, `Compose2Dis.lean`,
`Compose2Walk.lean`, `Compose2Follow.lean`, `Compose2Log.lean`).  C09 / C09g compare ONE disassembled
instruction with ONE step of the programming model `Spec.step`; C19c / C19g say which addresses
`disassemble start:end` lists (`Model.Show.Visits`).  Here both are composed with the GENERATED device
(`Hist.Dev`: `dev6502.step`, `dev65c02.step`, `dev65org16.step` - what the compiled driver runs) and lifted
to whole listings:

  * `step_follows_listing`      one step: at a declared opcode that does not transfer control the GENERATED
                                `instruction_at` reports exactly the number of cells by which the GENERATED
                                `step()` advances PC (modulo the address space) - binary AND decimal mode;
  * `listing_follows_execution` for straight-line code, the addresses `disassemble start:end` lists are
                                exactly the PCs the device visits when stepped from `pc = start` the same
                                number of times (ordinary ranges and ranges that wrap past the top of memory),
                                every step advancing by the listed length; hypothesis on the run: when the
                                device reaches a listed instruction its opcode cell still holds what the
                                listing saw (`hfixed`);
  * `listing_follows_execution_log`  the same with the hypothesis on the run stated on the ACCESS LOG: the
                                log never shows a write to a protected cell (`Prot`, any set of cells that
                                contains the listed opcode cells, e.g. the whole range); additionally the
                                protected cells keep their values;
  * `listing_follows_execution_range`  the instance `Prot` = the cells of the range `start:end` (`InRange`):
                                no logged write into the range - the code does not overwrite itself;
  * `listing_of_renamed`        `Listing` from the walk of the generated `do_disassemble` (C19g), whose model
                                calls `instruction_at` behind a renaming of its exception classes;
  * `listing_ends_in_transfer`  a listing whose LAST instruction is `JMP abs`, `JSR abs` or a taken branch:
                                the addresses are again the PCs, and the target DISPLAYED in the last line
                                (as `$hex` or as the label bound to it) is the PC after the last step.

Vocabulary (`Proofs/Compose2Follow.lean`): `Listing d P m start end vs` = `Visits` with the generated
`instruction_at` of the device class over the memory `m` (`vs = [(address, length, text), ...]`);
`Straight d op` = `op` is a declared opcode of the device whose mnemonic is not a branch / JMP / JSR / RTS /
RTI / BRK (`C09.isControl`) and not WAI; `Running d s` = `Hist.Inv d s` (well-formed) and not waiting;
`topAddr d = 2 ^ ADDR_WIDTH - 1`.  Only the INITIAL state is assumed well-formed (C05h closure).
What is NOT needed: binary mode (ADC / SBC in decimal mode are covered, `Proofs/Compose2Arith.lean`), any
condition on operands, registers or the stack.  65Org16: a declared opcode is a cell < 256 by definition.
-/
import Py65.Proofs.Compose2Log

namespace Py65.Props.C09h
open Py65 Py65.Gen Py65.Spec Py65.Proofs Py65.Proofs.Hist Py65.Proofs.Compose2
open Py65.Model.PyStr Py65.Model.AddrParser Py65.Model.Show
open Py65.Props.C09 (isControl Runs)
open Py65.Spec.Asm (mnText)
open Py65.Proofs.Asm (shown)

/-- **One step.**  A running, well-formed generated device at a declared opcode that does not transfer
control: the GENERATED `instruction_at(pc)` over the device's memory returns the documented length, and the
GENERATED `step()` leaves PC exactly that many cells further on (modulo the address space) - whatever the
registers, flags (decimal mode included) and operands; unless the instruction is WAI the device is running
and well-formed afterwards. -/
theorem step_follows_listing (d : Dev) (P : Parser) (s : St) (hr : Running d s) (mn : Mn) (mo : Mode)
    (hd : decode d.variant (s.mem s.pc) = some (mn, mo)) (hnc : isControl mn = false) :
    ∃ t, iat d P s.mem s.pc = .ok (mo.len, t) ∧
      (d.step s).pc = (s.pc + mo.len) % 2 ^ (2 * d.W) ∧ (mn ≠ .WAI → Running d (d.step s)) := by
  have hrange := hr.pc_range
  have hb := byteAt_in (isDevice d).ok s.mem s.pc hrange.1
    (by have := hrange.2; simp only [topAddr] at this; omega)
  have hop := decode_range hd
  obtain ⟨t, ht⟩ := Py65.Props.C09g.dis_len (isDevice d) P s.mem s.pc (by rw [hb]; exact hop) mn mo
    (by rw [hb]; exact hd)
  obtain ⟨h1, h2⟩ := step_straight d s hr.1 hr.2 mn mo hd hnc
  exact ⟨t, ht, h1, fun hn => ⟨apply_inv d .step s hr.1 (fun _ => hop.2), h2 hn⟩⟩

/-- **The listing follows the execution.**  `vs` is what `disassemble start:end` lists over the memory of
`s0` (`0 ≤ start`, `start, end ≤ topAddr`; `start > end` = a range that wraps past the top of memory); the
device is running at `pc = start`; every listed instruction is straight-line; and (hypothesis on the run)
when the device has made `k` steps, the opcode cell of the `k`-th listed instruction still holds what the
listing saw.  Then, with `n` the number of listed instructions:
  * for every `k < n` the PC after `k` steps is the `k`-th listed address - as lists: the PCs of the first
    `n` states are exactly the listed addresses;
  * every one of these steps advances PC by the listed length, modulo the address space (so the PC after
    all `n` steps is the address at which the listing stopped);
  * the device is well-formed and running in each of these states. -/
theorem listing_follows_execution (d : Dev) (P : Parser) (s0 : St) (start end_ : Int)
    (vs : List (Int × Int × Str)) (hr : Running d s0) (hpc : s0.pc = start) (he : end_ ≤ topAddr d)
    (hv : Listing d P s0.mem start end_ vs)
    (hstraight : ∀ v ∈ vs, Straight d (s0.mem v.1))
    (hfixed : ∀ k (hk : k < vs.length), (d.step^[k] s0).mem (vs[k]).1 = s0.mem (vs[k]).1) :
    (List.range vs.length).map (fun k => (d.step^[k] s0).pc) = vs.map (·.1) ∧
    (∀ k (hk : k < vs.length), (d.step^[k] s0).pc = (vs[k]).1 ∧
      (d.step^[k + 1] s0).pc = ((vs[k]).1 + (vs[k]).2.1) % 2 ^ (2 * d.W)) ∧
    (∀ k, k ≤ vs.length → Running d (d.step^[k] s0)) := by
  have core := follow_core d P s0 start end_ vs hr hpc he hv
    (fun k hk => hstraight _ (List.getElem_mem _)) (fun k hk => hfixed k (by omega))
  have next : ∀ k (hk : k < vs.length), (d.step^[k + 1] s0).pc = ((vs[k]).1 + (vs[k]).2.1) % 2 ^ (2 * d.W) ∧
      Running d (d.step^[k + 1] s0) := by
    intro k hk
    obtain ⟨c1, c2⟩ := core k hk
    have hi := visits_mem _ _ _ _ vs _ _ hv _ (List.getElem_mem hk)
    obtain ⟨_, _, l3, l4⟩ := at_listed d P s0.mem _ _ _ _ c2 c1 hi (hstraight _ (List.getElem_mem _)) (hfixed k hk)
    rw [Function.iterate_succ_apply']
    rw [topAddr_succ] at l3
    exact ⟨l3, l4⟩
  refine ⟨?_, fun k hk => ⟨(core k hk).1, (next k hk).1⟩, ?_⟩
  · apply List.ext_getElem
    · simp
    · intro k h1 h2
      simp only [List.getElem_map, List.getElem_range]
      exact (core k (by simpa using h2)).1
  · intro k hk
    cases k with
    | zero => exact hr
    | succ k => exact (next k (by omega)).2

/-- **The same, with the hypothesis on the run stated on the access log.**  `Prot` is any set of cells
containing the opcode cells of the listed instructions (e.g. all cells of the range).  If the access log of
the device (the generated model logs every `memory[a] = v`) never shows a write to a protected cell in the
states the run passes through, the conclusions of `listing_follows_execution` hold, and every protected
cell keeps its initial value in these states: the executed code did not overwrite the listed code. -/
theorem listing_follows_execution_log (d : Dev) (P : Parser) (s0 : St) (start end_ : Int)
    (vs : List (Int × Int × Str)) (Prot : Int → Prop) (hr : Running d s0) (hpc : s0.pc = start)
    (he : end_ ≤ topAddr d) (hv : Listing d P s0.mem start end_ vs)
    (hstraight : ∀ v ∈ vs, Straight d (s0.mem v.1))
    (hprot : ∀ v ∈ vs, Prot v.1)
    (hlog : ∀ k, k < vs.length → ∀ c, Prot c → ¬ WritesTo (d.step^[k] s0).log c) :
    (List.range vs.length).map (fun k => (d.step^[k] s0).pc) = vs.map (·.1) ∧
    (∀ k (hk : k < vs.length), (d.step^[k] s0).pc = (vs[k]).1 ∧
      (d.step^[k + 1] s0).pc = ((vs[k]).1 + (vs[k]).2.1) % 2 ^ (2 * d.W)) ∧
    (∀ k, k ≤ vs.length → Running d (d.step^[k] s0)) ∧
    (∀ k, k < vs.length → ∀ c, Prot c → (d.step^[k] s0).mem c = s0.mem c) := by
  have core := follow_log d P s0 start end_ vs Prot hr hpc he hv
    (fun k hk => hstraight _ (List.getElem_mem _)) (fun k hk => hprot _ (List.getElem_mem _)) hlog
  obtain ⟨h1, h2, h3⟩ := listing_follows_execution d P s0 start end_ vs hr hpc he hv hstraight
    (fun k hk => (core k hk).2.2 _ (hprot _ (List.getElem_mem _)))
  exact ⟨h1, h2, h3, fun k hk => (core k hk).2.2⟩

/-- **... for the range itself**: if the access log never shows a write INTO THE RANGE `start:end`
(`InRange`: the cells `start … end`; for a wrapping range `start … top` and `0 … end`) while the listed
code runs, the listing follows the execution and no cell of the range changes. -/
theorem listing_follows_execution_range (d : Dev) (P : Parser) (s0 : St) (start end_ : Int)
    (vs : List (Int × Int × Str)) (hr : Running d s0) (hpc : s0.pc = start)
    (he : end_ ≤ topAddr d) (hv : Listing d P s0.mem start end_ vs)
    (hstraight : ∀ v ∈ vs, Straight d (s0.mem v.1))
    (hlog : ∀ k, k < vs.length → ∀ c, InRange start end_ c → ¬ WritesTo (d.step^[k] s0).log c) :
    (List.range vs.length).map (fun k => (d.step^[k] s0).pc) = vs.map (·.1) ∧
    (∀ k (hk : k < vs.length), (d.step^[k] s0).pc = (vs[k]).1 ∧
      (d.step^[k + 1] s0).pc = ((vs[k]).1 + (vs[k]).2.1) % 2 ^ (2 * d.W)) ∧
    (∀ k, k ≤ vs.length → Running d (d.step^[k] s0)) ∧
    (∀ k, k < vs.length → ∀ c, InRange start end_ c → (d.step^[k] s0).mem c = s0.mem c) := by
  have hrange := hr.pc_range
  rw [hpc] at hrange
  exact listing_follows_execution_log d P s0 start end_ vs (InRange start end_) hr hpc he hv hstraight
    (listing_in_range d P s0.mem start end_ vs hrange.1 hrange.2 he hv hstraight) hlog

/-- The listing depends on `instruction_at` only through its successful results: a walk (`Visits`, as
`C19g.disasm_walk_shows_bytes` delivers it for the generated `do_disassemble`) with a disassembler `iat'`
whose successful results are those of the generated `instruction_at` over `m` - e.g. `C19g.iatG`, the same
function behind the monitor model's renaming of exception classes - is a `Listing`. -/
theorem listing_of_renamed {ε' : Type} (d : Dev) (P : Parser) (m : Int → Int) (start end_ : Int)
    (vs : List (Int × Int × Str)) (iat' : Int → Except ε' (Int × Str))
    (h : ∀ a r, iat' a = .ok r → iat d P m a = .ok r)
    (hv : Visits iat' (topAddr d) start end_ start (decide (start > end_)) vs) :
    Listing d P m start end_ vs :=
  visits_congr_ok (iat d P m) iat' h _ _ _ vs _ _ hv

/-- **A listing that ends in a control transfer.**  All listed instructions but the last are straight-line
(hypotheses on the run as in `listing_follows_execution`, for those); the last one, at `a`, is `JMP abs`,
`JSR abs` (whose two pushes do not hit its own operand bytes - C01's exclusion: the real JSR pushes before
it reads the target) or a relative branch that is taken in the state the device is in when it gets there;
its (at most three) cells still hold what the listing saw.  Then every listed address is the PC after the
corresponding number of steps, and the text of the last line is the mnemonic followed by - as `$hex` or as
the label bound to it - exactly the PC after the last step: the displayed target is where execution goes. -/
theorem listing_ends_in_transfer (d : Dev) (P : Parser) (s0 : St) (start end_ : Int)
    (pre : List (Int × Int × Str)) (a len : Int) (text : Str) (hr : Running d s0) (hpc : s0.pc = start)
    (he : end_ ≤ topAddr d) (hv : Listing d P s0.mem start end_ (pre ++ [(a, len, text)]))
    (hstraight : ∀ v ∈ pre, Straight d (s0.mem v.1))
    (hfixed : ∀ k (hk : k < pre.length), (d.step^[k] s0).mem (pre[k]).1 = s0.mem (pre[k]).1)
    (hlast : ∀ j, j ∈ [0, 1, 2] → (d.step^[pre.length] s0).mem ((a + j) % 2 ^ (2 * d.W)) =
      s0.mem ((a + j) % 2 ^ (2 * d.W)))
    (mn : Mn) (mo : Mode) (hdec : decode d.variant (s0.mem a) = some (mn, mo))
    (hkind : (mn = .JMP ∧ mo = .abs) ∨
      (mn = .JSR ∧ mo = .abs ∧
        NoSelfOverwriteJSR d.cfg (afterFetch d.cfg d.tbl (d.step^[pre.length] s0))) ∨
      (mo = .rel ∧ branchCond d.W mn (normP (d.step^[pre.length] s0).p) = true)) :
    (∀ k (hk : k < pre.length), (d.step^[k] s0).pc = (pre[k]).1) ∧
    (d.step^[pre.length] s0).pc = a ∧
    text = mnText mn ++ ' ' :: shown P (d.W / 2) (d.step^[pre.length + 1] s0).pc := by
  have hlen : (pre ++ [(a, len, text)]).length = pre.length + 1 := by simp
  have core := follow_core d P s0 start end_ _ hr hpc he hv
    (fun k hk => by
      have hk' : k < pre.length := by omega
      rw [List.getElem_append_left hk']; exact hstraight _ (List.getElem_mem _))
    (fun k hk => by
      have hk' : k < pre.length := by omega
      rw [List.getElem_append_left hk']; exact hfixed k hk')
  have hlastc := core pre.length (by omega)
  rw [List.getElem_append_right (Nat.le_refl _)] at hlastc
  simp only [Nat.sub_self, List.getElem_cons_zero] at hlastc
  obtain ⟨hpcl, hrl⟩ := hlastc
  refine ⟨fun k hk => ?_, hpcl, ?_⟩
  · have := (core k (by omega)).1
    rwa [List.getElem_append_left hk] at this
  -- the listed text, read over the memory of the state the device is in when it gets to `a`
  set s := d.step^[pre.length] s0 with hs
  have hW := d.hW
  have hrange := hrl.pc_range
  rw [hpcl] at hrange
  have ha1 : a < 2 ^ (2 * d.W) := by have := hrange.2; simp only [topAddr] at this; omega
  have hmod : a % 2 ^ (2 * d.W) = a := Int.emod_eq_of_lt hrange.1 ha1
  have h0 := hlast 0 (by simp); have h1 := hlast 1 (by simp); have h2 := hlast 2 (by simp)
  simp only [Int.add_zero] at h0
  rw [hmod] at h0
  have hin : (a, len, text) ∈ pre ++ [(a, len, text)] := List.mem_append_right _ List.mem_cons_self
  have hi : iat d P s0.mem a = .ok (len, text) :=
    visits_mem (iat d P s0.mem) (topAddr d) start end_ (pre ++ [(a, len, text)]) start _ hv (a, len, text) hin
  have hcongr : iat d P s.mem a = iat d P s0.mem a :=
    dis_congr (isDevice d) P s.mem s0.mem a (by rw [hmod, h0]; exact decode_range hdec)
      (by rw [hmod]; exact h0) h1 h2
  have hdec' : decode d.variant ((abs s).mem (abs s).pc) = some (mn, mo) := by
    show decode d.variant (s.mem s.pc) = _
    rw [hpcl, h0]; exact hdec
  have hop := decode_range hdec'
  have hruns : Runs d.W (abs s) := ⟨hrl.2, by show 0 ≤ s.pc; rw [hpcl]; exact hrange.1,
    by show s.pc < _; rw [hpcl]; exact ha1, hop.1, hop.2⟩
  have hstep : abs (d.step s) = Spec.step d.W d.variant (abs s) := by
    refine step_abs d s hrl.1 hrl.2 mn mo hdec' (fun h => ?_) (fun h => ?_)
    · rcases hkind with ⟨rfl, _⟩ | ⟨rfl, _⟩ | ⟨rfl, hb⟩
      · rcases h with h | h <;> cases h
      · rcases h with h | h <;> cases h
      · exfalso; rcases h with rfl | rfl <;> simp [branchCond] at hb
    · rcases hkind with ⟨rfl, _⟩ | ⟨_, _, hj⟩ | ⟨rfl, hb⟩
      · cases h
      · exact hj
      · subst h; simp [branchCond] at hb
  have hpcs : (Spec.step d.W d.variant (abs s)).pc = (d.step^[pre.length + 1] s0).pc := by
    rw [Function.iterate_succ_apply', ← hstep]; rfl
  have htext : iat d P s.mem a = .ok (mo.len, mnText mn ++ ' ' :: shown P (d.W / 2)
      (Spec.step d.W d.variant (abs s)).pc) := by
    have e : a = (abs s).pc := hpcl.symm
    rcases hkind with ⟨rfl, rfl⟩ | ⟨rfl, rfl, _⟩ | ⟨rfl, hb⟩
    · rw [e]; exact Py65.Props.C09g.dis_jmp_jsr (isDevice d) P (abs s) hruns .JMP (Or.inl rfl) hdec'
    · rw [e]; exact Py65.Props.C09g.dis_jmp_jsr (isDevice d) P (abs s) hruns .JSR (Or.inr rfl) hdec'
    · rw [e]
      refine Py65.Props.C09g.dis_branch_taken (isDevice d) P (abs s) hruns mn hdec' ?_ hb
      have := hrl.1.1.mem ((s.pc + 1) % 2 ^ (2 * d.W))
      rw [byteMask_eq] at this
      show 0 ≤ s.mem ((s.pc + 1) % 2 ^ (2 * d.W)) ∧ s.mem ((s.pc + 1) % 2 ^ (2 * d.W)) < 2 ^ d.W
      exact ⟨this.1, by omega⟩
  rw [hcongr, hi, hpcs] at htext
  simp only [Except.ok.injEq, Prod.mk.injEq] at htext
  exact htext.2

/-! ### non-vacuity: the generated disassembler and the generated devices, run by the kernel -/

/-- A 6502 program that wraps past the top of memory: `$fffe ADC #$01` (executed in DECIMAL mode: D is set
in the initial status), `$0000 STA $10`, `$0002 LDX #$07`, `$0004 INX`, `$0005 NOP`, `$0006 JMP $1234`. -/
def demoMem : Int → Int := fun k =>
  if k = 0xfffe then 0x69 else if k = 0xffff then 0x01 else if k = 0 then 0x85 else if k = 1 then 0x10
  else if k = 2 then 0xa2 else if k = 3 then 0x07 else if k = 4 then 0xe8 else if k = 5 then 0xea
  else if k = 6 then 0x4c else if k = 7 then 0x34 else if k = 8 then 0x12 else 0xea

def demoState : St := { (default : St) with pc := 0xfffe, a := 0x42, p := 0x38, mem := demoMem }

def demoP : Parser := ⟨16, 16, []⟩

/-- what `disassemble fffe:0005` lists -/
def demoListing : List (Int × Int × Str) :=
  [(0xfffe, 2, "ADC #$01".toList), (0, 2, "STA $10".toList), (2, 2, "LDX #$07".toList),
   (4, 1, "INX".toList), (5, 1, "NOP".toList)]

theorem demo_running : Running .nmos demoState := by
  refine ⟨⟨⟨by decide, by decide, by decide, by decide, by decide, by decide, ?_⟩, fun _ => rfl⟩, rfl⟩
  intro k; simp only [demoState, demoMem]; (repeat' split) <;> decide

/-- the listing is what the GENERATED `instruction_at` gives along the walk of `do_disassemble`
(a wrapping range: `start = $fffe > end = $0005`) -/
theorem demo_listing : Listing .nmos demoP demoState.mem 0xfffe 5 demoListing :=
  listing_of_check 10 (by decide +kernel)

theorem demo_straight : ∀ v ∈ demoListing, Straight .nmos (demoState.mem v.1) := by
  intro v hv
  apply straight_of_check
  revert v
  decide +kernel

/-- hypothesis on the run, direct form: the GENERATED 6502 stepped `k` times still has the listed opcode
in the `k`-th listed cell (`STA $10` stores outside the range) -/
theorem demo_fixed : ∀ k (hk : k < demoListing.length),
    ((Dev.step .nmos)^[k] demoState).mem (demoListing[k]).1 = demoState.mem (demoListing[k]).1 := by
  decide +kernel

/-- all hypotheses of `listing_follows_execution` hold of the example ... -/
example := listing_follows_execution .nmos demoP demoState 0xfffe 5 demoListing demo_running rfl
  (by decide) demo_listing demo_straight demo_fixed

/-- ... and its conclusion, evaluated independently on the generated device: the PCs of the five states are
the five listed addresses, and the sixth is `$0006`; the ADC ran in decimal mode (`$42 + $01 = $43`). -/
example : (List.range 6).map (fun k => ((Dev.step .nmos)^[k] demoState).pc) = [0xfffe, 0, 2, 4, 5, 6] ∧
    ((Dev.step .nmos)^[1] demoState).a = 0x43 ∧ ((Dev.step .nmos)^[4] demoState).x = 8 := by decide +kernel

/-- one step (`step_follows_listing`): ADC #$01 in decimal mode at `$fffe`, PC wraps to `$0000` -/
example : decode .nmos (demoState.mem demoState.pc) = some (.ADC, .imm) ∧ isControl .ADC = false ∧
    flag demoState.p bitD = true ∧ iat .nmos demoP demoState.mem demoState.pc = .ok (2, "ADC #$01".toList) ∧
    (Dev.step .nmos demoState).pc = 0 := by decide +kernel

/-- hypothesis on the run, access-log form: protected = the whole (wrapping) range `$fffe … $0005`; the log
of the generated device never shows a write into it (the only write is `w $10`). -/
def demoProt (c : Int) : Bool := decide (0xfffe ≤ c) || decide (c ≤ 5)

theorem demo_log : ∀ k, k < demoListing.length → ∀ c, demoProt c = true →
    ¬ WritesTo ((Dev.step .nmos)^[k] demoState).log c := by
  intro k hk c hc
  refine noWrite_of_check ?_ c hc
  revert k
  decide +kernel

example := listing_follows_execution_log .nmos demoP demoState 0xfffe 5 demoListing (fun c => demoProt c = true)
  demo_running rfl (by decide) demo_listing demo_straight (by decide) demo_log

/-- the range form: `InRange $fffe 5 c` is the same set of cells -/
example := listing_follows_execution_range .nmos demoP demoState 0xfffe 5 demoListing
  demo_running rfl (by decide) demo_listing demo_straight
  (fun k hk c hc => demo_log k hk c (by
    simp only [InRange, show ((0xfffe : Int) > 5) = True from by decide, if_true] at hc
    simp only [demoProt, Bool.or_eq_true, decide_eq_true_eq]; exact hc))

example : ((Dev.step .nmos)^[5] demoState).log.filter (fun ev => match ev with | .w _ _ => true | _ => false) =
    [MemEv.w 0x10 0x43] := by decide +kernel

/-- `listing_ends_in_transfer`: `disassemble fffe:0006` lists a sixth line, `JMP $1234`; after six steps
the generated device is at `$1234`, the address the line displays. -/
theorem demo_listing_jmp :
    Listing .nmos demoP demoState.mem 0xfffe 6 (demoListing ++ [(6, 3, "JMP $1234".toList)]) :=
  listing_of_check 10 (by decide +kernel)

example := listing_ends_in_transfer .nmos demoP demoState 0xfffe 6 demoListing 6 3 "JMP $1234".toList
  demo_running rfl (by decide) demo_listing_jmp demo_straight demo_fixed (by decide +kernel) .JMP .abs
  (by decide +kernel) (Or.inl ⟨rfl, rfl⟩)

example : ((Dev.step .nmos)^[6] demoState).pc = 0x1234 ∧
    "JMP $1234".toList = mnText .JMP ++ ' ' :: shown demoP (Dev.W .nmos / 2) 0x1234 := by decide +kernel

/-- 65C02: a listing ending in a TAKEN branch, `$0200 INC A`, `$0201 BRA $0210` (`80 0d`). -/
def braMem : Int → Int := fun k =>
  if k = 0x200 then 0x1a else if k = 0x201 then 0x80 else if k = 0x202 then 0x0d else 0xea

def braState : St := { (default : St) with pc := 0x200, mem := braMem }

theorem bra_running : Running .cmos braState := by
  refine ⟨⟨⟨by decide, by decide, by decide, by decide, by decide, by decide, ?_⟩, fun h => absurd rfl h⟩, rfl⟩
  intro k; simp only [braState, braMem]; (repeat' split) <;> decide

example := listing_ends_in_transfer .cmos demoP braState 0x200 0x201 [(0x200, 1, "INC A".toList)] 0x201 2
  "BRA $0210".toList bra_running rfl (by decide) (listing_of_check 10 (by decide +kernel))
  (by intro v hv; apply straight_of_check; revert v; decide +kernel) (by decide +kernel) (by decide +kernel)
  .BRA .rel (by decide +kernel) (Or.inr (Or.inr ⟨rfl, rfl⟩))

example : ((Dev.step .cmos)^[2] braState).pc = 0x210 := by decide +kernel

/-- 65Org16 (16-bit cells, 32-bit addresses): `LDA #$1234`, `TAX` at `$00010000`. -/
def orgMem : Int → Int := fun k =>
  if k = 0x10000 then 0xa9 else if k = 0x10001 then 0x1234 else if k = 0x10002 then 0xaa else 0xea

def orgState : St := { (default : St) with pc := 0x10000, mem := orgMem }

theorem org_running : Running .org16 orgState := by
  refine ⟨⟨⟨by decide, by decide, by decide, by decide, by decide, by decide, ?_⟩, fun _ => rfl⟩, rfl⟩
  intro k; simp only [orgState, orgMem]; (repeat' split) <;> decide

example := listing_follows_execution .org16 ⟨32, 16, []⟩ orgState 0x10000 0x10002
  [(0x10000, 2, "LDA #$1234".toList), (0x10002, 1, "TAX".toList)] org_running rfl (by decide)
  (listing_of_check 10 (by decide +kernel))
  (by intro v hv; apply straight_of_check; revert v; decide +kernel) (by decide +kernel)

example : (List.range 3).map (fun k => ((Dev.step .org16)^[k] orgState).pc) = [0x10000, 0x10002, 0x10003] ∧
    ((Dev.step .org16)^[2] orgState).x = 0x1234 := by decide +kernel

end Py65.Props.C09h
