/-
C14 -- Each device decodes exactly its own instruction set.

The generated tables (`Py65/Gen/Tables.lean`, read on every run from the LIVE classes, after the
decorators, `[:]` copies and inheritance did whatever they do) equal the documented instruction
sets of `Spec.Isa`, entry by entry, for all 256 opcode bytes; each declared opcode dispatches to the
handler of that opcode's name and each undeclared one to `inst_not_implemented`.
Finite tables: decided completely by kernel evaluation (`decide +kernel`, no axioms beyond the
standard ones).  The configuration part (import orders / subsets) and instance isolation are
checked by the harness (props/c14.py): every one of the 15 ordered module selections must produce
these same tables, and the translator refuses any write to class or module state.
-/
import Py65.Spec.Isa
import Py65.Gen.Tables

namespace Py65.Props.C14
open Py65.Spec Py65.Gen

theorem isa_6502 : dev6502.disassembleL = expectedTable .nmos := by decide +kernel
theorem isa_65org16 : dev65org16.disassembleL = expectedTable .nmos := by decide +kernel
theorem isa_65c02 : dev65c02.disassembleL = expectedTable .cmos := by decide +kernel

theorem count_nmos : declaredCount .nmos = 151 := by decide +kernel
theorem count_cmos : declaredCount .cmos = 195 := by decide +kernel

def hex2 (n : Nat) : String :=
  let d (k : Nat) : Char := if k < 10 then Char.ofNat (48 + k) else Char.ofNat (87 + k)
  String.ofList [d (n / 16), d (n % 16)]

/-- the handler-name table is "inst_0xNN" for declared opcodes, the default handler otherwise -/
def handlerOK (v : Variant) (names : List String) : Bool :=
  (List.range 256).all fun (n : Nat) =>
    match decode v (Int.ofNat n) with
    | some _ => (names.getD n "").endsWith ("inst_0x" ++ hex2 n)
    | none => names.getD n "" == "Mpu6502.inst_not_implemented"

theorem handlers_6502 : handlerOK .nmos dev6502.handlerNames = true := by decide +kernel
theorem handlers_65org16 : handlerOK .nmos dev65org16.handlerNames = true := by decide +kernel
theorem handlers_65c02 : handlerOK .cmos dev65c02.handlerNames = true := by decide +kernel

/-- Non-vacuity / reading aid: opcode $A9 is LDA #imm on every device, $02 is undeclared. -/
example : dev6502.disassembleL.getD 0xa9 ("", "") = ("LDA", "imm") ∧
    dev65c02.disassembleL.getD 0x80 ("", "") = ("BRA", "rel") ∧
    dev65org16.disassembleL.getD 0x02 ("", "") = ("???", "imp") := by decide +kernel

end Py65.Props.C14
