/-
C12 -- every instruction performs exactly the memory accesses its definition implies.

PROPERTY THEOREMS ONLY (helper lemmas live in Py65/Proofs/Acc*.lean).  The generated model of the
devices (regenerated from the Python source on every run) logs every `memory[...]` read and write.
For every declared opcode and every well-formed state, the events one `step()` appends to that log
are - as a multiset - the opcode fetch, the operand bytes `Spec.fetched` (each at most once, a
sub-list of the instruction's own operand bytes) and the data accesses `Spec.dataAccesses`
(loads/compares/ALU: one read of the effective address; stores: one write, no read;
read-modify-write: one read then one write; pushes/pulls: the stack cells involved; pointer and
vector bytes once each) - and nothing else.  No opcode is excluded and no side condition on the
state is needed (decimal mode, self-overwriting instructions included).

GENERATED skeleton (harness/gen_c12.py): case analysis over the rows of the Spec tables; every case
is closed by the per-opcode theorem `Py65.Proofs.A.aXX` / `AC.aXX` and the translator's dispatch
fact `devX.instruct_XX`.
-/
import Py65.Proofs.AccHandlers

namespace Py65.Props.C12
open Py65 Py65.Gen Py65.Spec Py65.Proofs Py

set_option linter.unusedSimpArgs false

/-- What one `step()` may do to memory: the opcode fetch, then `Spec.instrAccesses` evaluated on the
state after the opcode fetch (PC at the first operand byte), as a multiset. -/
def StepAccesses (W : Nat) (v : Variant) (mn : Mn) (mo : Mode) (s : St) (s' : St) : Prop :=
  ∃ T : List Acc, acl s' = T.reverse ++ acl s ∧
    T.Perm (Acc.r s.pc :: instrAccesses W v mn mo { core s with pc := (s.pc + 1) % AM W })

/-- The operand bytes an instruction fetches are among its own operand bytes, each at most once. -/
theorem fetched_sublist (W : Nat) (mn : Mn) (mo : Mode) (s : AState) :
    (fetched W mn mo s).Sublist (operandAddrs W mo s) ∨ (mo = .rel ∧ (fetched W mn mo s).Sublist [s.pc]) := by
  cases mo <;> simp [fetched, operandAddrs, Mode.len]
  split <;> simp

theorem step_acc (c : Cfg) (hc : IsDev c) (t : Tbl) (v : Variant) (s : St) (hs : WF c s)
    (op : Int) (mn : Mn) (mo : Mode) (h : St → St)
    (hop : s.mem s.pc = op) (hinst : t.instruct op = h) (hh : HandlerAcc c v h mn mo) :
    StepAccesses c.BYTE_WIDTH v mn mo s (Mpu6502.step c t s) := by
  subst hop
  obtain ⟨T, h1, h2⟩ := hh (afterFetch c t s) (afterFetch_WF c hc t s hs)
  refine ⟨Acc.r s.pc :: T, ?_, ?_⟩
  · have e : acl (Mpu6502.step c t s) = acl (t.instruct (s.mem s.pc) (afterFetch c t s)) := rfl
    rw [e, hinst, h1]
    simp [acl, afterFetch, accOf]
  · have e : core (afterFetch c t s) = { core s with pc := (s.pc + 1) % AM c.BYTE_WIDTH } := by
      rcases hc with rfl | rfl <;> simp [afterFetch, core, AM, pyarith]
    rw [← e]
    exact List.Perm.cons _ h2

/-- dev6502: every one of the 151 declared opcodes, every well-formed state. -/
theorem accesses_nmos6502 (s : St) (hs : WF dev6502.cfg s) (hw : s.waiting = false)
    (mn : Mn) (mo : Mode) (hd : decode .nmos (s.mem s.pc) = some (mn, mo)) :
    StepAccesses 8 .nmos mn mo s (dev6502.step s) := by
  have hc : IsDev dev6502.cfg := Or.inl rfl
  have hstep : dev6502.step s = Mpu6502.step dev6502.cfg dev6502.tbl s := by
    rfl
  rw [hstep]
  have hm := lookup_mem hd
  simp only [nmosTable, List.mem_cons, List.mem_nil_iff, or_false, Prod.mk.injEq] at hm
  generalize hop : s.mem s.pc = op at hm hd
  rcases hm with ⟨rfl, rfl, rfl⟩ | ⟨rfl, rfl, rfl⟩ | ⟨rfl, rfl, rfl⟩ | ⟨rfl, rfl, rfl⟩ | ⟨rfl, rfl, rfl⟩ | ⟨rfl, rfl, rfl⟩ | ⟨rfl, rfl, rfl⟩ | ⟨rfl, rfl, rfl⟩ | ⟨rfl, rfl, rfl⟩ | ⟨rfl, rfl, rfl⟩ | ⟨rfl, rfl, rfl⟩ | ⟨rfl, rfl, rfl⟩ | ⟨rfl, rfl, rfl⟩ | ⟨rfl, rfl, rfl⟩ | ⟨rfl, rfl, rfl⟩ | ⟨rfl, rfl, rfl⟩ | ⟨rfl, rfl, rfl⟩ | ⟨rfl, rfl, rfl⟩ | ⟨rfl, rfl, rfl⟩ | ⟨rfl, rfl, rfl⟩ | ⟨rfl, rfl, rfl⟩ | ⟨rfl, rfl, rfl⟩ | ⟨rfl, rfl, rfl⟩ | ⟨rfl, rfl, rfl⟩ | ⟨rfl, rfl, rfl⟩ | ⟨rfl, rfl, rfl⟩ | ⟨rfl, rfl, rfl⟩ | ⟨rfl, rfl, rfl⟩ | ⟨rfl, rfl, rfl⟩ | ⟨rfl, rfl, rfl⟩ | ⟨rfl, rfl, rfl⟩ | ⟨rfl, rfl, rfl⟩ | ⟨rfl, rfl, rfl⟩ | ⟨rfl, rfl, rfl⟩ | ⟨rfl, rfl, rfl⟩ | ⟨rfl, rfl, rfl⟩ | ⟨rfl, rfl, rfl⟩ | ⟨rfl, rfl, rfl⟩ | ⟨rfl, rfl, rfl⟩ | ⟨rfl, rfl, rfl⟩ | ⟨rfl, rfl, rfl⟩ | ⟨rfl, rfl, rfl⟩ | ⟨rfl, rfl, rfl⟩ | ⟨rfl, rfl, rfl⟩ | ⟨rfl, rfl, rfl⟩ | ⟨rfl, rfl, rfl⟩ | ⟨rfl, rfl, rfl⟩ | ⟨rfl, rfl, rfl⟩ | ⟨rfl, rfl, rfl⟩ | ⟨rfl, rfl, rfl⟩ | ⟨rfl, rfl, rfl⟩ | ⟨rfl, rfl, rfl⟩ | ⟨rfl, rfl, rfl⟩ | ⟨rfl, rfl, rfl⟩ | ⟨rfl, rfl, rfl⟩ | ⟨rfl, rfl, rfl⟩ | ⟨rfl, rfl, rfl⟩ | ⟨rfl, rfl, rfl⟩ | ⟨rfl, rfl, rfl⟩ | ⟨rfl, rfl, rfl⟩ | ⟨rfl, rfl, rfl⟩ | ⟨rfl, rfl, rfl⟩ | ⟨rfl, rfl, rfl⟩ | ⟨rfl, rfl, rfl⟩ | ⟨rfl, rfl, rfl⟩ | ⟨rfl, rfl, rfl⟩ | ⟨rfl, rfl, rfl⟩ | ⟨rfl, rfl, rfl⟩ | ⟨rfl, rfl, rfl⟩ | ⟨rfl, rfl, rfl⟩ | ⟨rfl, rfl, rfl⟩ | ⟨rfl, rfl, rfl⟩ | ⟨rfl, rfl, rfl⟩ | ⟨rfl, rfl, rfl⟩ | ⟨rfl, rfl, rfl⟩ | ⟨rfl, rfl, rfl⟩ | ⟨rfl, rfl, rfl⟩ | ⟨rfl, rfl, rfl⟩ | ⟨rfl, rfl, rfl⟩ | ⟨rfl, rfl, rfl⟩ | ⟨rfl, rfl, rfl⟩ | ⟨rfl, rfl, rfl⟩ | ⟨rfl, rfl, rfl⟩ | ⟨rfl, rfl, rfl⟩ | ⟨rfl, rfl, rfl⟩ | ⟨rfl, rfl, rfl⟩ | ⟨rfl, rfl, rfl⟩ | ⟨rfl, rfl, rfl⟩ | ⟨rfl, rfl, rfl⟩ | ⟨rfl, rfl, rfl⟩ | ⟨rfl, rfl, rfl⟩ | ⟨rfl, rfl, rfl⟩ | ⟨rfl, rfl, rfl⟩ | ⟨rfl, rfl, rfl⟩ | ⟨rfl, rfl, rfl⟩ | ⟨rfl, rfl, rfl⟩ | ⟨rfl, rfl, rfl⟩ | ⟨rfl, rfl, rfl⟩ | ⟨rfl, rfl, rfl⟩ | ⟨rfl, rfl, rfl⟩ | ⟨rfl, rfl, rfl⟩ | ⟨rfl, rfl, rfl⟩ | ⟨rfl, rfl, rfl⟩ | ⟨rfl, rfl, rfl⟩ | ⟨rfl, rfl, rfl⟩ | ⟨rfl, rfl, rfl⟩ | ⟨rfl, rfl, rfl⟩ | ⟨rfl, rfl, rfl⟩ | ⟨rfl, rfl, rfl⟩ | ⟨rfl, rfl, rfl⟩ | ⟨rfl, rfl, rfl⟩ | ⟨rfl, rfl, rfl⟩ | ⟨rfl, rfl, rfl⟩ | ⟨rfl, rfl, rfl⟩ | ⟨rfl, rfl, rfl⟩ | ⟨rfl, rfl, rfl⟩ | ⟨rfl, rfl, rfl⟩ | ⟨rfl, rfl, rfl⟩ | ⟨rfl, rfl, rfl⟩ | ⟨rfl, rfl, rfl⟩ | ⟨rfl, rfl, rfl⟩ | ⟨rfl, rfl, rfl⟩ | ⟨rfl, rfl, rfl⟩ | ⟨rfl, rfl, rfl⟩ | ⟨rfl, rfl, rfl⟩ | ⟨rfl, rfl, rfl⟩ | ⟨rfl, rfl, rfl⟩ | ⟨rfl, rfl, rfl⟩ | ⟨rfl, rfl, rfl⟩ | ⟨rfl, rfl, rfl⟩ | ⟨rfl, rfl, rfl⟩ | ⟨rfl, rfl, rfl⟩ | ⟨rfl, rfl, rfl⟩ | ⟨rfl, rfl, rfl⟩ | ⟨rfl, rfl, rfl⟩ | ⟨rfl, rfl, rfl⟩ | ⟨rfl, rfl, rfl⟩ | ⟨rfl, rfl, rfl⟩ | ⟨rfl, rfl, rfl⟩ | ⟨rfl, rfl, rfl⟩ | ⟨rfl, rfl, rfl⟩ | ⟨rfl, rfl, rfl⟩ | ⟨rfl, rfl, rfl⟩ | ⟨rfl, rfl, rfl⟩ | ⟨rfl, rfl, rfl⟩ | ⟨rfl, rfl, rfl⟩ | ⟨rfl, rfl, rfl⟩ | ⟨rfl, rfl, rfl⟩ | ⟨rfl, rfl, rfl⟩ | ⟨rfl, rfl, rfl⟩ | ⟨rfl, rfl, rfl⟩
  · exact step_acc _ hc _ .nmos s hs _ _ _ _ hop dev6502.instruct_00 (A.a00 _ hc .nmos)
  · exact step_acc _ hc _ .nmos s hs _ _ _ _ hop dev6502.instruct_01 (A.a01 _ hc .nmos)
  · exact step_acc _ hc _ .nmos s hs _ _ _ _ hop dev6502.instruct_05 (A.a05 _ hc .nmos)
  · exact step_acc _ hc _ .nmos s hs _ _ _ _ hop dev6502.instruct_06 (A.a06 _ hc .nmos)
  · exact step_acc _ hc _ .nmos s hs _ _ _ _ hop dev6502.instruct_08 (A.a08 _ hc .nmos)
  · exact step_acc _ hc _ .nmos s hs _ _ _ _ hop dev6502.instruct_09 (A.a09 _ hc .nmos)
  · exact step_acc _ hc _ .nmos s hs _ _ _ _ hop dev6502.instruct_0a (A.a0a _ hc .nmos)
  · exact step_acc _ hc _ .nmos s hs _ _ _ _ hop dev6502.instruct_0d (A.a0d _ hc .nmos)
  · exact step_acc _ hc _ .nmos s hs _ _ _ _ hop dev6502.instruct_0e (A.a0e _ hc .nmos)
  · exact step_acc _ hc _ .nmos s hs _ _ _ _ hop dev6502.instruct_10 (A.a10 _ hc .nmos)
  · exact step_acc _ hc _ .nmos s hs _ _ _ _ hop dev6502.instruct_11 (A.a11 _ hc .nmos)
  · exact step_acc _ hc _ .nmos s hs _ _ _ _ hop dev6502.instruct_15 (A.a15 _ hc .nmos)
  · exact step_acc _ hc _ .nmos s hs _ _ _ _ hop dev6502.instruct_16 (A.a16 _ hc .nmos)
  · exact step_acc _ hc _ .nmos s hs _ _ _ _ hop dev6502.instruct_18 (A.a18 _ hc .nmos)
  · exact step_acc _ hc _ .nmos s hs _ _ _ _ hop dev6502.instruct_19 (A.a19 _ hc .nmos)
  · exact step_acc _ hc _ .nmos s hs _ _ _ _ hop dev6502.instruct_1d (A.a1d _ hc .nmos)
  · exact step_acc _ hc _ .nmos s hs _ _ _ _ hop dev6502.instruct_1e (A.a1e _ hc .nmos)
  · exact step_acc _ hc _ .nmos s hs _ _ _ _ hop dev6502.instruct_20 (A.a20 _ hc .nmos)
  · exact step_acc _ hc _ .nmos s hs _ _ _ _ hop dev6502.instruct_21 (A.a21 _ hc .nmos)
  · exact step_acc _ hc _ .nmos s hs _ _ _ _ hop dev6502.instruct_24 (A.a24 _ hc .nmos)
  · exact step_acc _ hc _ .nmos s hs _ _ _ _ hop dev6502.instruct_25 (A.a25 _ hc .nmos)
  · exact step_acc _ hc _ .nmos s hs _ _ _ _ hop dev6502.instruct_26 (A.a26 _ hc .nmos)
  · exact step_acc _ hc _ .nmos s hs _ _ _ _ hop dev6502.instruct_28 (A.a28 _ hc .nmos)
  · exact step_acc _ hc _ .nmos s hs _ _ _ _ hop dev6502.instruct_29 (A.a29 _ hc .nmos)
  · exact step_acc _ hc _ .nmos s hs _ _ _ _ hop dev6502.instruct_2a (A.a2a _ hc .nmos)
  · exact step_acc _ hc _ .nmos s hs _ _ _ _ hop dev6502.instruct_2c (A.a2c _ hc .nmos)
  · exact step_acc _ hc _ .nmos s hs _ _ _ _ hop dev6502.instruct_2d (A.a2d _ hc .nmos)
  · exact step_acc _ hc _ .nmos s hs _ _ _ _ hop dev6502.instruct_2e (A.a2e _ hc .nmos)
  · exact step_acc _ hc _ .nmos s hs _ _ _ _ hop dev6502.instruct_30 (A.a30 _ hc .nmos)
  · exact step_acc _ hc _ .nmos s hs _ _ _ _ hop dev6502.instruct_31 (A.a31 _ hc .nmos)
  · exact step_acc _ hc _ .nmos s hs _ _ _ _ hop dev6502.instruct_35 (A.a35 _ hc .nmos)
  · exact step_acc _ hc _ .nmos s hs _ _ _ _ hop dev6502.instruct_36 (A.a36 _ hc .nmos)
  · exact step_acc _ hc _ .nmos s hs _ _ _ _ hop dev6502.instruct_38 (A.a38 _ hc .nmos)
  · exact step_acc _ hc _ .nmos s hs _ _ _ _ hop dev6502.instruct_39 (A.a39 _ hc .nmos)
  · exact step_acc _ hc _ .nmos s hs _ _ _ _ hop dev6502.instruct_3d (A.a3d _ hc .nmos)
  · exact step_acc _ hc _ .nmos s hs _ _ _ _ hop dev6502.instruct_3e (A.a3e _ hc .nmos)
  · exact step_acc _ hc _ .nmos s hs _ _ _ _ hop dev6502.instruct_40 (A.a40 _ hc .nmos)
  · exact step_acc _ hc _ .nmos s hs _ _ _ _ hop dev6502.instruct_41 (A.a41 _ hc .nmos)
  · exact step_acc _ hc _ .nmos s hs _ _ _ _ hop dev6502.instruct_45 (A.a45 _ hc .nmos)
  · exact step_acc _ hc _ .nmos s hs _ _ _ _ hop dev6502.instruct_46 (A.a46 _ hc .nmos)
  · exact step_acc _ hc _ .nmos s hs _ _ _ _ hop dev6502.instruct_48 (A.a48 _ hc .nmos)
  · exact step_acc _ hc _ .nmos s hs _ _ _ _ hop dev6502.instruct_49 (A.a49 _ hc .nmos)
  · exact step_acc _ hc _ .nmos s hs _ _ _ _ hop dev6502.instruct_4a (A.a4a _ hc .nmos)
  · exact step_acc _ hc _ .nmos s hs _ _ _ _ hop dev6502.instruct_4c (A.a4c _ hc .nmos)
  · exact step_acc _ hc _ .nmos s hs _ _ _ _ hop dev6502.instruct_4d (A.a4d _ hc .nmos)
  · exact step_acc _ hc _ .nmos s hs _ _ _ _ hop dev6502.instruct_4e (A.a4e _ hc .nmos)
  · exact step_acc _ hc _ .nmos s hs _ _ _ _ hop dev6502.instruct_50 (A.a50 _ hc .nmos)
  · exact step_acc _ hc _ .nmos s hs _ _ _ _ hop dev6502.instruct_51 (A.a51 _ hc .nmos)
  · exact step_acc _ hc _ .nmos s hs _ _ _ _ hop dev6502.instruct_55 (A.a55 _ hc .nmos)
  · exact step_acc _ hc _ .nmos s hs _ _ _ _ hop dev6502.instruct_56 (A.a56 _ hc .nmos)
  · exact step_acc _ hc _ .nmos s hs _ _ _ _ hop dev6502.instruct_58 (A.a58 _ hc .nmos)
  · exact step_acc _ hc _ .nmos s hs _ _ _ _ hop dev6502.instruct_59 (A.a59 _ hc .nmos)
  · exact step_acc _ hc _ .nmos s hs _ _ _ _ hop dev6502.instruct_5d (A.a5d _ hc .nmos)
  · exact step_acc _ hc _ .nmos s hs _ _ _ _ hop dev6502.instruct_5e (A.a5e _ hc .nmos)
  · exact step_acc _ hc _ .nmos s hs _ _ _ _ hop dev6502.instruct_60 (A.a60 _ hc .nmos)
  · exact step_acc _ hc _ .nmos s hs _ _ _ _ hop dev6502.instruct_61 (A.a61 _ hc .nmos)
  · exact step_acc _ hc _ .nmos s hs _ _ _ _ hop dev6502.instruct_65 (A.a65 _ hc .nmos)
  · exact step_acc _ hc _ .nmos s hs _ _ _ _ hop dev6502.instruct_66 (A.a66 _ hc .nmos)
  · exact step_acc _ hc _ .nmos s hs _ _ _ _ hop dev6502.instruct_68 (A.a68 _ hc .nmos)
  · exact step_acc _ hc _ .nmos s hs _ _ _ _ hop dev6502.instruct_69 (A.a69 _ hc .nmos)
  · exact step_acc _ hc _ .nmos s hs _ _ _ _ hop dev6502.instruct_6a (A.a6a _ hc .nmos)
  · exact step_acc _ hc _ .nmos s hs _ _ _ _ hop dev6502.instruct_6c (A.a6c _ hc)
  · exact step_acc _ hc _ .nmos s hs _ _ _ _ hop dev6502.instruct_6d (A.a6d _ hc .nmos)
  · exact step_acc _ hc _ .nmos s hs _ _ _ _ hop dev6502.instruct_6e (A.a6e _ hc .nmos)
  · exact step_acc _ hc _ .nmos s hs _ _ _ _ hop dev6502.instruct_70 (A.a70 _ hc .nmos)
  · exact step_acc _ hc _ .nmos s hs _ _ _ _ hop dev6502.instruct_71 (A.a71 _ hc .nmos)
  · exact step_acc _ hc _ .nmos s hs _ _ _ _ hop dev6502.instruct_75 (A.a75 _ hc .nmos)
  · exact step_acc _ hc _ .nmos s hs _ _ _ _ hop dev6502.instruct_76 (A.a76 _ hc .nmos)
  · exact step_acc _ hc _ .nmos s hs _ _ _ _ hop dev6502.instruct_78 (A.a78 _ hc .nmos)
  · exact step_acc _ hc _ .nmos s hs _ _ _ _ hop dev6502.instruct_79 (A.a79 _ hc .nmos)
  · exact step_acc _ hc _ .nmos s hs _ _ _ _ hop dev6502.instruct_7d (A.a7d _ hc .nmos)
  · exact step_acc _ hc _ .nmos s hs _ _ _ _ hop dev6502.instruct_7e (A.a7e _ hc .nmos)
  · exact step_acc _ hc _ .nmos s hs _ _ _ _ hop dev6502.instruct_81 (A.a81 _ hc .nmos)
  · exact step_acc _ hc _ .nmos s hs _ _ _ _ hop dev6502.instruct_84 (A.a84 _ hc .nmos)
  · exact step_acc _ hc _ .nmos s hs _ _ _ _ hop dev6502.instruct_85 (A.a85 _ hc .nmos)
  · exact step_acc _ hc _ .nmos s hs _ _ _ _ hop dev6502.instruct_86 (A.a86 _ hc .nmos)
  · exact step_acc _ hc _ .nmos s hs _ _ _ _ hop dev6502.instruct_88 (A.a88 _ hc .nmos)
  · exact step_acc _ hc _ .nmos s hs _ _ _ _ hop dev6502.instruct_8a (A.a8a _ hc .nmos)
  · exact step_acc _ hc _ .nmos s hs _ _ _ _ hop dev6502.instruct_8c (A.a8c _ hc .nmos)
  · exact step_acc _ hc _ .nmos s hs _ _ _ _ hop dev6502.instruct_8d (A.a8d _ hc .nmos)
  · exact step_acc _ hc _ .nmos s hs _ _ _ _ hop dev6502.instruct_8e (A.a8e _ hc .nmos)
  · exact step_acc _ hc _ .nmos s hs _ _ _ _ hop dev6502.instruct_90 (A.a90 _ hc .nmos)
  · exact step_acc _ hc _ .nmos s hs _ _ _ _ hop dev6502.instruct_91 (A.a91 _ hc .nmos)
  · exact step_acc _ hc _ .nmos s hs _ _ _ _ hop dev6502.instruct_94 (A.a94 _ hc .nmos)
  · exact step_acc _ hc _ .nmos s hs _ _ _ _ hop dev6502.instruct_95 (A.a95 _ hc .nmos)
  · exact step_acc _ hc _ .nmos s hs _ _ _ _ hop dev6502.instruct_96 (A.a96 _ hc .nmos)
  · exact step_acc _ hc _ .nmos s hs _ _ _ _ hop dev6502.instruct_98 (A.a98 _ hc .nmos)
  · exact step_acc _ hc _ .nmos s hs _ _ _ _ hop dev6502.instruct_99 (A.a99 _ hc .nmos)
  · exact step_acc _ hc _ .nmos s hs _ _ _ _ hop dev6502.instruct_9a (A.a9a _ hc .nmos)
  · exact step_acc _ hc _ .nmos s hs _ _ _ _ hop dev6502.instruct_9d (A.a9d _ hc .nmos)
  · exact step_acc _ hc _ .nmos s hs _ _ _ _ hop dev6502.instruct_a0 (A.aa0 _ hc .nmos)
  · exact step_acc _ hc _ .nmos s hs _ _ _ _ hop dev6502.instruct_a1 (A.aa1 _ hc .nmos)
  · exact step_acc _ hc _ .nmos s hs _ _ _ _ hop dev6502.instruct_a2 (A.aa2 _ hc .nmos)
  · exact step_acc _ hc _ .nmos s hs _ _ _ _ hop dev6502.instruct_a4 (A.aa4 _ hc .nmos)
  · exact step_acc _ hc _ .nmos s hs _ _ _ _ hop dev6502.instruct_a5 (A.aa5 _ hc .nmos)
  · exact step_acc _ hc _ .nmos s hs _ _ _ _ hop dev6502.instruct_a6 (A.aa6 _ hc .nmos)
  · exact step_acc _ hc _ .nmos s hs _ _ _ _ hop dev6502.instruct_a8 (A.aa8 _ hc .nmos)
  · exact step_acc _ hc _ .nmos s hs _ _ _ _ hop dev6502.instruct_a9 (A.aa9 _ hc .nmos)
  · exact step_acc _ hc _ .nmos s hs _ _ _ _ hop dev6502.instruct_aa (A.aaa _ hc .nmos)
  · exact step_acc _ hc _ .nmos s hs _ _ _ _ hop dev6502.instruct_ac (A.aac _ hc .nmos)
  · exact step_acc _ hc _ .nmos s hs _ _ _ _ hop dev6502.instruct_ad (A.aad _ hc .nmos)
  · exact step_acc _ hc _ .nmos s hs _ _ _ _ hop dev6502.instruct_ae (A.aae _ hc .nmos)
  · exact step_acc _ hc _ .nmos s hs _ _ _ _ hop dev6502.instruct_b0 (A.ab0 _ hc .nmos)
  · exact step_acc _ hc _ .nmos s hs _ _ _ _ hop dev6502.instruct_b1 (A.ab1 _ hc .nmos)
  · exact step_acc _ hc _ .nmos s hs _ _ _ _ hop dev6502.instruct_b4 (A.ab4 _ hc .nmos)
  · exact step_acc _ hc _ .nmos s hs _ _ _ _ hop dev6502.instruct_b5 (A.ab5 _ hc .nmos)
  · exact step_acc _ hc _ .nmos s hs _ _ _ _ hop dev6502.instruct_b6 (A.ab6 _ hc .nmos)
  · exact step_acc _ hc _ .nmos s hs _ _ _ _ hop dev6502.instruct_b8 (A.ab8 _ hc .nmos)
  · exact step_acc _ hc _ .nmos s hs _ _ _ _ hop dev6502.instruct_b9 (A.ab9 _ hc .nmos)
  · exact step_acc _ hc _ .nmos s hs _ _ _ _ hop dev6502.instruct_ba (A.aba _ hc .nmos)
  · exact step_acc _ hc _ .nmos s hs _ _ _ _ hop dev6502.instruct_bc (A.abc _ hc .nmos)
  · exact step_acc _ hc _ .nmos s hs _ _ _ _ hop dev6502.instruct_bd (A.abd _ hc .nmos)
  · exact step_acc _ hc _ .nmos s hs _ _ _ _ hop dev6502.instruct_be (A.abe _ hc .nmos)
  · exact step_acc _ hc _ .nmos s hs _ _ _ _ hop dev6502.instruct_c0 (A.ac0 _ hc .nmos)
  · exact step_acc _ hc _ .nmos s hs _ _ _ _ hop dev6502.instruct_c1 (A.ac1 _ hc .nmos)
  · exact step_acc _ hc _ .nmos s hs _ _ _ _ hop dev6502.instruct_c4 (A.ac4 _ hc .nmos)
  · exact step_acc _ hc _ .nmos s hs _ _ _ _ hop dev6502.instruct_c5 (A.ac5 _ hc .nmos)
  · exact step_acc _ hc _ .nmos s hs _ _ _ _ hop dev6502.instruct_c6 (A.ac6 _ hc .nmos)
  · exact step_acc _ hc _ .nmos s hs _ _ _ _ hop dev6502.instruct_c8 (A.ac8 _ hc .nmos)
  · exact step_acc _ hc _ .nmos s hs _ _ _ _ hop dev6502.instruct_c9 (A.ac9 _ hc .nmos)
  · exact step_acc _ hc _ .nmos s hs _ _ _ _ hop dev6502.instruct_ca (A.aca _ hc .nmos)
  · exact step_acc _ hc _ .nmos s hs _ _ _ _ hop dev6502.instruct_cc (A.acc _ hc .nmos)
  · exact step_acc _ hc _ .nmos s hs _ _ _ _ hop dev6502.instruct_cd (A.acd _ hc .nmos)
  · exact step_acc _ hc _ .nmos s hs _ _ _ _ hop dev6502.instruct_ce (A.ace _ hc .nmos)
  · exact step_acc _ hc _ .nmos s hs _ _ _ _ hop dev6502.instruct_d0 (A.ad0 _ hc .nmos)
  · exact step_acc _ hc _ .nmos s hs _ _ _ _ hop dev6502.instruct_d1 (A.ad1 _ hc .nmos)
  · exact step_acc _ hc _ .nmos s hs _ _ _ _ hop dev6502.instruct_d5 (A.ad5 _ hc .nmos)
  · exact step_acc _ hc _ .nmos s hs _ _ _ _ hop dev6502.instruct_d6 (A.ad6 _ hc .nmos)
  · exact step_acc _ hc _ .nmos s hs _ _ _ _ hop dev6502.instruct_d8 (A.ad8 _ hc .nmos)
  · exact step_acc _ hc _ .nmos s hs _ _ _ _ hop dev6502.instruct_d9 (A.ad9 _ hc .nmos)
  · exact step_acc _ hc _ .nmos s hs _ _ _ _ hop dev6502.instruct_dd (A.add _ hc .nmos)
  · exact step_acc _ hc _ .nmos s hs _ _ _ _ hop dev6502.instruct_de (A.ade _ hc .nmos)
  · exact step_acc _ hc _ .nmos s hs _ _ _ _ hop dev6502.instruct_e0 (A.ae0 _ hc .nmos)
  · exact step_acc _ hc _ .nmos s hs _ _ _ _ hop dev6502.instruct_e1 (A.ae1 _ hc .nmos)
  · exact step_acc _ hc _ .nmos s hs _ _ _ _ hop dev6502.instruct_e4 (A.ae4 _ hc .nmos)
  · exact step_acc _ hc _ .nmos s hs _ _ _ _ hop dev6502.instruct_e5 (A.ae5 _ hc .nmos)
  · exact step_acc _ hc _ .nmos s hs _ _ _ _ hop dev6502.instruct_e6 (A.ae6 _ hc .nmos)
  · exact step_acc _ hc _ .nmos s hs _ _ _ _ hop dev6502.instruct_e8 (A.ae8 _ hc .nmos)
  · exact step_acc _ hc _ .nmos s hs _ _ _ _ hop dev6502.instruct_e9 (A.ae9 _ hc .nmos)
  · exact step_acc _ hc _ .nmos s hs _ _ _ _ hop dev6502.instruct_ea (A.aea _ hc .nmos)
  · exact step_acc _ hc _ .nmos s hs _ _ _ _ hop dev6502.instruct_ec (A.aec _ hc .nmos)
  · exact step_acc _ hc _ .nmos s hs _ _ _ _ hop dev6502.instruct_ed (A.aed _ hc .nmos)
  · exact step_acc _ hc _ .nmos s hs _ _ _ _ hop dev6502.instruct_ee (A.aee _ hc .nmos)
  · exact step_acc _ hc _ .nmos s hs _ _ _ _ hop dev6502.instruct_f0 (A.af0 _ hc .nmos)
  · exact step_acc _ hc _ .nmos s hs _ _ _ _ hop dev6502.instruct_f1 (A.af1 _ hc .nmos)
  · exact step_acc _ hc _ .nmos s hs _ _ _ _ hop dev6502.instruct_f5 (A.af5 _ hc .nmos)
  · exact step_acc _ hc _ .nmos s hs _ _ _ _ hop dev6502.instruct_f6 (A.af6 _ hc .nmos)
  · exact step_acc _ hc _ .nmos s hs _ _ _ _ hop dev6502.instruct_f8 (A.af8 _ hc .nmos)
  · exact step_acc _ hc _ .nmos s hs _ _ _ _ hop dev6502.instruct_f9 (A.af9 _ hc .nmos)
  · exact step_acc _ hc _ .nmos s hs _ _ _ _ hop dev6502.instruct_fd (A.afd _ hc .nmos)
  · exact step_acc _ hc _ .nmos s hs _ _ _ _ hop dev6502.instruct_fe (A.afe _ hc .nmos)

/-- dev65org16: every one of the 151 declared opcodes, every well-formed state. -/
theorem accesses_org16 (s : St) (hs : WF dev65org16.cfg s) (hw : s.waiting = false)
    (mn : Mn) (mo : Mode) (hd : decode .nmos (s.mem s.pc) = some (mn, mo)) :
    StepAccesses 16 .nmos mn mo s (dev65org16.step s) := by
  have hc : IsDev dev65org16.cfg := Or.inr rfl
  have hstep : dev65org16.step s = Mpu6502.step dev65org16.cfg dev65org16.tbl s := by
    simp only [dev65org16.step, Mpu65org16.step, hw]; rfl
  rw [hstep]
  have hm := lookup_mem hd
  simp only [nmosTable, List.mem_cons, List.mem_nil_iff, or_false, Prod.mk.injEq] at hm
  generalize hop : s.mem s.pc = op at hm hd
  rcases hm with ⟨rfl, rfl, rfl⟩ | ⟨rfl, rfl, rfl⟩ | ⟨rfl, rfl, rfl⟩ | ⟨rfl, rfl, rfl⟩ | ⟨rfl, rfl, rfl⟩ | ⟨rfl, rfl, rfl⟩ | ⟨rfl, rfl, rfl⟩ | ⟨rfl, rfl, rfl⟩ | ⟨rfl, rfl, rfl⟩ | ⟨rfl, rfl, rfl⟩ | ⟨rfl, rfl, rfl⟩ | ⟨rfl, rfl, rfl⟩ | ⟨rfl, rfl, rfl⟩ | ⟨rfl, rfl, rfl⟩ | ⟨rfl, rfl, rfl⟩ | ⟨rfl, rfl, rfl⟩ | ⟨rfl, rfl, rfl⟩ | ⟨rfl, rfl, rfl⟩ | ⟨rfl, rfl, rfl⟩ | ⟨rfl, rfl, rfl⟩ | ⟨rfl, rfl, rfl⟩ | ⟨rfl, rfl, rfl⟩ | ⟨rfl, rfl, rfl⟩ | ⟨rfl, rfl, rfl⟩ | ⟨rfl, rfl, rfl⟩ | ⟨rfl, rfl, rfl⟩ | ⟨rfl, rfl, rfl⟩ | ⟨rfl, rfl, rfl⟩ | ⟨rfl, rfl, rfl⟩ | ⟨rfl, rfl, rfl⟩ | ⟨rfl, rfl, rfl⟩ | ⟨rfl, rfl, rfl⟩ | ⟨rfl, rfl, rfl⟩ | ⟨rfl, rfl, rfl⟩ | ⟨rfl, rfl, rfl⟩ | ⟨rfl, rfl, rfl⟩ | ⟨rfl, rfl, rfl⟩ | ⟨rfl, rfl, rfl⟩ | ⟨rfl, rfl, rfl⟩ | ⟨rfl, rfl, rfl⟩ | ⟨rfl, rfl, rfl⟩ | ⟨rfl, rfl, rfl⟩ | ⟨rfl, rfl, rfl⟩ | ⟨rfl, rfl, rfl⟩ | ⟨rfl, rfl, rfl⟩ | ⟨rfl, rfl, rfl⟩ | ⟨rfl, rfl, rfl⟩ | ⟨rfl, rfl, rfl⟩ | ⟨rfl, rfl, rfl⟩ | ⟨rfl, rfl, rfl⟩ | ⟨rfl, rfl, rfl⟩ | ⟨rfl, rfl, rfl⟩ | ⟨rfl, rfl, rfl⟩ | ⟨rfl, rfl, rfl⟩ | ⟨rfl, rfl, rfl⟩ | ⟨rfl, rfl, rfl⟩ | ⟨rfl, rfl, rfl⟩ | ⟨rfl, rfl, rfl⟩ | ⟨rfl, rfl, rfl⟩ | ⟨rfl, rfl, rfl⟩ | ⟨rfl, rfl, rfl⟩ | ⟨rfl, rfl, rfl⟩ | ⟨rfl, rfl, rfl⟩ | ⟨rfl, rfl, rfl⟩ | ⟨rfl, rfl, rfl⟩ | ⟨rfl, rfl, rfl⟩ | ⟨rfl, rfl, rfl⟩ | ⟨rfl, rfl, rfl⟩ | ⟨rfl, rfl, rfl⟩ | ⟨rfl, rfl, rfl⟩ | ⟨rfl, rfl, rfl⟩ | ⟨rfl, rfl, rfl⟩ | ⟨rfl, rfl, rfl⟩ | ⟨rfl, rfl, rfl⟩ | ⟨rfl, rfl, rfl⟩ | ⟨rfl, rfl, rfl⟩ | ⟨rfl, rfl, rfl⟩ | ⟨rfl, rfl, rfl⟩ | ⟨rfl, rfl, rfl⟩ | ⟨rfl, rfl, rfl⟩ | ⟨rfl, rfl, rfl⟩ | ⟨rfl, rfl, rfl⟩ | ⟨rfl, rfl, rfl⟩ | ⟨rfl, rfl, rfl⟩ | ⟨rfl, rfl, rfl⟩ | ⟨rfl, rfl, rfl⟩ | ⟨rfl, rfl, rfl⟩ | ⟨rfl, rfl, rfl⟩ | ⟨rfl, rfl, rfl⟩ | ⟨rfl, rfl, rfl⟩ | ⟨rfl, rfl, rfl⟩ | ⟨rfl, rfl, rfl⟩ | ⟨rfl, rfl, rfl⟩ | ⟨rfl, rfl, rfl⟩ | ⟨rfl, rfl, rfl⟩ | ⟨rfl, rfl, rfl⟩ | ⟨rfl, rfl, rfl⟩ | ⟨rfl, rfl, rfl⟩ | ⟨rfl, rfl, rfl⟩ | ⟨rfl, rfl, rfl⟩ | ⟨rfl, rfl, rfl⟩ | ⟨rfl, rfl, rfl⟩ | ⟨rfl, rfl, rfl⟩ | ⟨rfl, rfl, rfl⟩ | ⟨rfl, rfl, rfl⟩ | ⟨rfl, rfl, rfl⟩ | ⟨rfl, rfl, rfl⟩ | ⟨rfl, rfl, rfl⟩ | ⟨rfl, rfl, rfl⟩ | ⟨rfl, rfl, rfl⟩ | ⟨rfl, rfl, rfl⟩ | ⟨rfl, rfl, rfl⟩ | ⟨rfl, rfl, rfl⟩ | ⟨rfl, rfl, rfl⟩ | ⟨rfl, rfl, rfl⟩ | ⟨rfl, rfl, rfl⟩ | ⟨rfl, rfl, rfl⟩ | ⟨rfl, rfl, rfl⟩ | ⟨rfl, rfl, rfl⟩ | ⟨rfl, rfl, rfl⟩ | ⟨rfl, rfl, rfl⟩ | ⟨rfl, rfl, rfl⟩ | ⟨rfl, rfl, rfl⟩ | ⟨rfl, rfl, rfl⟩ | ⟨rfl, rfl, rfl⟩ | ⟨rfl, rfl, rfl⟩ | ⟨rfl, rfl, rfl⟩ | ⟨rfl, rfl, rfl⟩ | ⟨rfl, rfl, rfl⟩ | ⟨rfl, rfl, rfl⟩ | ⟨rfl, rfl, rfl⟩ | ⟨rfl, rfl, rfl⟩ | ⟨rfl, rfl, rfl⟩ | ⟨rfl, rfl, rfl⟩ | ⟨rfl, rfl, rfl⟩ | ⟨rfl, rfl, rfl⟩ | ⟨rfl, rfl, rfl⟩ | ⟨rfl, rfl, rfl⟩ | ⟨rfl, rfl, rfl⟩ | ⟨rfl, rfl, rfl⟩ | ⟨rfl, rfl, rfl⟩ | ⟨rfl, rfl, rfl⟩ | ⟨rfl, rfl, rfl⟩ | ⟨rfl, rfl, rfl⟩ | ⟨rfl, rfl, rfl⟩ | ⟨rfl, rfl, rfl⟩ | ⟨rfl, rfl, rfl⟩ | ⟨rfl, rfl, rfl⟩ | ⟨rfl, rfl, rfl⟩ | ⟨rfl, rfl, rfl⟩ | ⟨rfl, rfl, rfl⟩
  · exact step_acc _ hc _ .nmos s hs _ _ _ _ hop dev65org16.instruct_00 (A.a00 _ hc .nmos)
  · exact step_acc _ hc _ .nmos s hs _ _ _ _ hop dev65org16.instruct_01 (A.a01 _ hc .nmos)
  · exact step_acc _ hc _ .nmos s hs _ _ _ _ hop dev65org16.instruct_05 (A.a05 _ hc .nmos)
  · exact step_acc _ hc _ .nmos s hs _ _ _ _ hop dev65org16.instruct_06 (A.a06 _ hc .nmos)
  · exact step_acc _ hc _ .nmos s hs _ _ _ _ hop dev65org16.instruct_08 (A.a08 _ hc .nmos)
  · exact step_acc _ hc _ .nmos s hs _ _ _ _ hop dev65org16.instruct_09 (A.a09 _ hc .nmos)
  · exact step_acc _ hc _ .nmos s hs _ _ _ _ hop dev65org16.instruct_0a (A.a0a _ hc .nmos)
  · exact step_acc _ hc _ .nmos s hs _ _ _ _ hop dev65org16.instruct_0d (A.a0d _ hc .nmos)
  · exact step_acc _ hc _ .nmos s hs _ _ _ _ hop dev65org16.instruct_0e (A.a0e _ hc .nmos)
  · exact step_acc _ hc _ .nmos s hs _ _ _ _ hop dev65org16.instruct_10 (A.a10 _ hc .nmos)
  · exact step_acc _ hc _ .nmos s hs _ _ _ _ hop dev65org16.instruct_11 (A.a11 _ hc .nmos)
  · exact step_acc _ hc _ .nmos s hs _ _ _ _ hop dev65org16.instruct_15 (A.a15 _ hc .nmos)
  · exact step_acc _ hc _ .nmos s hs _ _ _ _ hop dev65org16.instruct_16 (A.a16 _ hc .nmos)
  · exact step_acc _ hc _ .nmos s hs _ _ _ _ hop dev65org16.instruct_18 (A.a18 _ hc .nmos)
  · exact step_acc _ hc _ .nmos s hs _ _ _ _ hop dev65org16.instruct_19 (A.a19 _ hc .nmos)
  · exact step_acc _ hc _ .nmos s hs _ _ _ _ hop dev65org16.instruct_1d (A.a1d _ hc .nmos)
  · exact step_acc _ hc _ .nmos s hs _ _ _ _ hop dev65org16.instruct_1e (A.a1e _ hc .nmos)
  · exact step_acc _ hc _ .nmos s hs _ _ _ _ hop dev65org16.instruct_20 (A.a20 _ hc .nmos)
  · exact step_acc _ hc _ .nmos s hs _ _ _ _ hop dev65org16.instruct_21 (A.a21 _ hc .nmos)
  · exact step_acc _ hc _ .nmos s hs _ _ _ _ hop dev65org16.instruct_24 (A.a24 _ hc .nmos)
  · exact step_acc _ hc _ .nmos s hs _ _ _ _ hop dev65org16.instruct_25 (A.a25 _ hc .nmos)
  · exact step_acc _ hc _ .nmos s hs _ _ _ _ hop dev65org16.instruct_26 (A.a26 _ hc .nmos)
  · exact step_acc _ hc _ .nmos s hs _ _ _ _ hop dev65org16.instruct_28 (A.a28 _ hc .nmos)
  · exact step_acc _ hc _ .nmos s hs _ _ _ _ hop dev65org16.instruct_29 (A.a29 _ hc .nmos)
  · exact step_acc _ hc _ .nmos s hs _ _ _ _ hop dev65org16.instruct_2a (A.a2a _ hc .nmos)
  · exact step_acc _ hc _ .nmos s hs _ _ _ _ hop dev65org16.instruct_2c (A.a2c _ hc .nmos)
  · exact step_acc _ hc _ .nmos s hs _ _ _ _ hop dev65org16.instruct_2d (A.a2d _ hc .nmos)
  · exact step_acc _ hc _ .nmos s hs _ _ _ _ hop dev65org16.instruct_2e (A.a2e _ hc .nmos)
  · exact step_acc _ hc _ .nmos s hs _ _ _ _ hop dev65org16.instruct_30 (A.a30 _ hc .nmos)
  · exact step_acc _ hc _ .nmos s hs _ _ _ _ hop dev65org16.instruct_31 (A.a31 _ hc .nmos)
  · exact step_acc _ hc _ .nmos s hs _ _ _ _ hop dev65org16.instruct_35 (A.a35 _ hc .nmos)
  · exact step_acc _ hc _ .nmos s hs _ _ _ _ hop dev65org16.instruct_36 (A.a36 _ hc .nmos)
  · exact step_acc _ hc _ .nmos s hs _ _ _ _ hop dev65org16.instruct_38 (A.a38 _ hc .nmos)
  · exact step_acc _ hc _ .nmos s hs _ _ _ _ hop dev65org16.instruct_39 (A.a39 _ hc .nmos)
  · exact step_acc _ hc _ .nmos s hs _ _ _ _ hop dev65org16.instruct_3d (A.a3d _ hc .nmos)
  · exact step_acc _ hc _ .nmos s hs _ _ _ _ hop dev65org16.instruct_3e (A.a3e _ hc .nmos)
  · exact step_acc _ hc _ .nmos s hs _ _ _ _ hop dev65org16.instruct_40 (A.a40 _ hc .nmos)
  · exact step_acc _ hc _ .nmos s hs _ _ _ _ hop dev65org16.instruct_41 (A.a41 _ hc .nmos)
  · exact step_acc _ hc _ .nmos s hs _ _ _ _ hop dev65org16.instruct_45 (A.a45 _ hc .nmos)
  · exact step_acc _ hc _ .nmos s hs _ _ _ _ hop dev65org16.instruct_46 (A.a46 _ hc .nmos)
  · exact step_acc _ hc _ .nmos s hs _ _ _ _ hop dev65org16.instruct_48 (A.a48 _ hc .nmos)
  · exact step_acc _ hc _ .nmos s hs _ _ _ _ hop dev65org16.instruct_49 (A.a49 _ hc .nmos)
  · exact step_acc _ hc _ .nmos s hs _ _ _ _ hop dev65org16.instruct_4a (A.a4a _ hc .nmos)
  · exact step_acc _ hc _ .nmos s hs _ _ _ _ hop dev65org16.instruct_4c (A.a4c _ hc .nmos)
  · exact step_acc _ hc _ .nmos s hs _ _ _ _ hop dev65org16.instruct_4d (A.a4d _ hc .nmos)
  · exact step_acc _ hc _ .nmos s hs _ _ _ _ hop dev65org16.instruct_4e (A.a4e _ hc .nmos)
  · exact step_acc _ hc _ .nmos s hs _ _ _ _ hop dev65org16.instruct_50 (A.a50 _ hc .nmos)
  · exact step_acc _ hc _ .nmos s hs _ _ _ _ hop dev65org16.instruct_51 (A.a51 _ hc .nmos)
  · exact step_acc _ hc _ .nmos s hs _ _ _ _ hop dev65org16.instruct_55 (A.a55 _ hc .nmos)
  · exact step_acc _ hc _ .nmos s hs _ _ _ _ hop dev65org16.instruct_56 (A.a56 _ hc .nmos)
  · exact step_acc _ hc _ .nmos s hs _ _ _ _ hop dev65org16.instruct_58 (A.a58 _ hc .nmos)
  · exact step_acc _ hc _ .nmos s hs _ _ _ _ hop dev65org16.instruct_59 (A.a59 _ hc .nmos)
  · exact step_acc _ hc _ .nmos s hs _ _ _ _ hop dev65org16.instruct_5d (A.a5d _ hc .nmos)
  · exact step_acc _ hc _ .nmos s hs _ _ _ _ hop dev65org16.instruct_5e (A.a5e _ hc .nmos)
  · exact step_acc _ hc _ .nmos s hs _ _ _ _ hop dev65org16.instruct_60 (A.a60 _ hc .nmos)
  · exact step_acc _ hc _ .nmos s hs _ _ _ _ hop dev65org16.instruct_61 (A.a61 _ hc .nmos)
  · exact step_acc _ hc _ .nmos s hs _ _ _ _ hop dev65org16.instruct_65 (A.a65 _ hc .nmos)
  · exact step_acc _ hc _ .nmos s hs _ _ _ _ hop dev65org16.instruct_66 (A.a66 _ hc .nmos)
  · exact step_acc _ hc _ .nmos s hs _ _ _ _ hop dev65org16.instruct_68 (A.a68 _ hc .nmos)
  · exact step_acc _ hc _ .nmos s hs _ _ _ _ hop dev65org16.instruct_69 (A.a69 _ hc .nmos)
  · exact step_acc _ hc _ .nmos s hs _ _ _ _ hop dev65org16.instruct_6a (A.a6a _ hc .nmos)
  · exact step_acc _ hc _ .nmos s hs _ _ _ _ hop dev65org16.instruct_6c (A.a6c _ hc)
  · exact step_acc _ hc _ .nmos s hs _ _ _ _ hop dev65org16.instruct_6d (A.a6d _ hc .nmos)
  · exact step_acc _ hc _ .nmos s hs _ _ _ _ hop dev65org16.instruct_6e (A.a6e _ hc .nmos)
  · exact step_acc _ hc _ .nmos s hs _ _ _ _ hop dev65org16.instruct_70 (A.a70 _ hc .nmos)
  · exact step_acc _ hc _ .nmos s hs _ _ _ _ hop dev65org16.instruct_71 (A.a71 _ hc .nmos)
  · exact step_acc _ hc _ .nmos s hs _ _ _ _ hop dev65org16.instruct_75 (A.a75 _ hc .nmos)
  · exact step_acc _ hc _ .nmos s hs _ _ _ _ hop dev65org16.instruct_76 (A.a76 _ hc .nmos)
  · exact step_acc _ hc _ .nmos s hs _ _ _ _ hop dev65org16.instruct_78 (A.a78 _ hc .nmos)
  · exact step_acc _ hc _ .nmos s hs _ _ _ _ hop dev65org16.instruct_79 (A.a79 _ hc .nmos)
  · exact step_acc _ hc _ .nmos s hs _ _ _ _ hop dev65org16.instruct_7d (A.a7d _ hc .nmos)
  · exact step_acc _ hc _ .nmos s hs _ _ _ _ hop dev65org16.instruct_7e (A.a7e _ hc .nmos)
  · exact step_acc _ hc _ .nmos s hs _ _ _ _ hop dev65org16.instruct_81 (A.a81 _ hc .nmos)
  · exact step_acc _ hc _ .nmos s hs _ _ _ _ hop dev65org16.instruct_84 (A.a84 _ hc .nmos)
  · exact step_acc _ hc _ .nmos s hs _ _ _ _ hop dev65org16.instruct_85 (A.a85 _ hc .nmos)
  · exact step_acc _ hc _ .nmos s hs _ _ _ _ hop dev65org16.instruct_86 (A.a86 _ hc .nmos)
  · exact step_acc _ hc _ .nmos s hs _ _ _ _ hop dev65org16.instruct_88 (A.a88 _ hc .nmos)
  · exact step_acc _ hc _ .nmos s hs _ _ _ _ hop dev65org16.instruct_8a (A.a8a _ hc .nmos)
  · exact step_acc _ hc _ .nmos s hs _ _ _ _ hop dev65org16.instruct_8c (A.a8c _ hc .nmos)
  · exact step_acc _ hc _ .nmos s hs _ _ _ _ hop dev65org16.instruct_8d (A.a8d _ hc .nmos)
  · exact step_acc _ hc _ .nmos s hs _ _ _ _ hop dev65org16.instruct_8e (A.a8e _ hc .nmos)
  · exact step_acc _ hc _ .nmos s hs _ _ _ _ hop dev65org16.instruct_90 (A.a90 _ hc .nmos)
  · exact step_acc _ hc _ .nmos s hs _ _ _ _ hop dev65org16.instruct_91 (A.a91 _ hc .nmos)
  · exact step_acc _ hc _ .nmos s hs _ _ _ _ hop dev65org16.instruct_94 (A.a94 _ hc .nmos)
  · exact step_acc _ hc _ .nmos s hs _ _ _ _ hop dev65org16.instruct_95 (A.a95 _ hc .nmos)
  · exact step_acc _ hc _ .nmos s hs _ _ _ _ hop dev65org16.instruct_96 (A.a96 _ hc .nmos)
  · exact step_acc _ hc _ .nmos s hs _ _ _ _ hop dev65org16.instruct_98 (A.a98 _ hc .nmos)
  · exact step_acc _ hc _ .nmos s hs _ _ _ _ hop dev65org16.instruct_99 (A.a99 _ hc .nmos)
  · exact step_acc _ hc _ .nmos s hs _ _ _ _ hop dev65org16.instruct_9a (A.a9a _ hc .nmos)
  · exact step_acc _ hc _ .nmos s hs _ _ _ _ hop dev65org16.instruct_9d (A.a9d _ hc .nmos)
  · exact step_acc _ hc _ .nmos s hs _ _ _ _ hop dev65org16.instruct_a0 (A.aa0 _ hc .nmos)
  · exact step_acc _ hc _ .nmos s hs _ _ _ _ hop dev65org16.instruct_a1 (A.aa1 _ hc .nmos)
  · exact step_acc _ hc _ .nmos s hs _ _ _ _ hop dev65org16.instruct_a2 (A.aa2 _ hc .nmos)
  · exact step_acc _ hc _ .nmos s hs _ _ _ _ hop dev65org16.instruct_a4 (A.aa4 _ hc .nmos)
  · exact step_acc _ hc _ .nmos s hs _ _ _ _ hop dev65org16.instruct_a5 (A.aa5 _ hc .nmos)
  · exact step_acc _ hc _ .nmos s hs _ _ _ _ hop dev65org16.instruct_a6 (A.aa6 _ hc .nmos)
  · exact step_acc _ hc _ .nmos s hs _ _ _ _ hop dev65org16.instruct_a8 (A.aa8 _ hc .nmos)
  · exact step_acc _ hc _ .nmos s hs _ _ _ _ hop dev65org16.instruct_a9 (A.aa9 _ hc .nmos)
  · exact step_acc _ hc _ .nmos s hs _ _ _ _ hop dev65org16.instruct_aa (A.aaa _ hc .nmos)
  · exact step_acc _ hc _ .nmos s hs _ _ _ _ hop dev65org16.instruct_ac (A.aac _ hc .nmos)
  · exact step_acc _ hc _ .nmos s hs _ _ _ _ hop dev65org16.instruct_ad (A.aad _ hc .nmos)
  · exact step_acc _ hc _ .nmos s hs _ _ _ _ hop dev65org16.instruct_ae (A.aae _ hc .nmos)
  · exact step_acc _ hc _ .nmos s hs _ _ _ _ hop dev65org16.instruct_b0 (A.ab0 _ hc .nmos)
  · exact step_acc _ hc _ .nmos s hs _ _ _ _ hop dev65org16.instruct_b1 (A.ab1 _ hc .nmos)
  · exact step_acc _ hc _ .nmos s hs _ _ _ _ hop dev65org16.instruct_b4 (A.ab4 _ hc .nmos)
  · exact step_acc _ hc _ .nmos s hs _ _ _ _ hop dev65org16.instruct_b5 (A.ab5 _ hc .nmos)
  · exact step_acc _ hc _ .nmos s hs _ _ _ _ hop dev65org16.instruct_b6 (A.ab6 _ hc .nmos)
  · exact step_acc _ hc _ .nmos s hs _ _ _ _ hop dev65org16.instruct_b8 (A.ab8 _ hc .nmos)
  · exact step_acc _ hc _ .nmos s hs _ _ _ _ hop dev65org16.instruct_b9 (A.ab9 _ hc .nmos)
  · exact step_acc _ hc _ .nmos s hs _ _ _ _ hop dev65org16.instruct_ba (A.aba _ hc .nmos)
  · exact step_acc _ hc _ .nmos s hs _ _ _ _ hop dev65org16.instruct_bc (A.abc _ hc .nmos)
  · exact step_acc _ hc _ .nmos s hs _ _ _ _ hop dev65org16.instruct_bd (A.abd _ hc .nmos)
  · exact step_acc _ hc _ .nmos s hs _ _ _ _ hop dev65org16.instruct_be (A.abe _ hc .nmos)
  · exact step_acc _ hc _ .nmos s hs _ _ _ _ hop dev65org16.instruct_c0 (A.ac0 _ hc .nmos)
  · exact step_acc _ hc _ .nmos s hs _ _ _ _ hop dev65org16.instruct_c1 (A.ac1 _ hc .nmos)
  · exact step_acc _ hc _ .nmos s hs _ _ _ _ hop dev65org16.instruct_c4 (A.ac4 _ hc .nmos)
  · exact step_acc _ hc _ .nmos s hs _ _ _ _ hop dev65org16.instruct_c5 (A.ac5 _ hc .nmos)
  · exact step_acc _ hc _ .nmos s hs _ _ _ _ hop dev65org16.instruct_c6 (A.ac6 _ hc .nmos)
  · exact step_acc _ hc _ .nmos s hs _ _ _ _ hop dev65org16.instruct_c8 (A.ac8 _ hc .nmos)
  · exact step_acc _ hc _ .nmos s hs _ _ _ _ hop dev65org16.instruct_c9 (A.ac9 _ hc .nmos)
  · exact step_acc _ hc _ .nmos s hs _ _ _ _ hop dev65org16.instruct_ca (A.aca _ hc .nmos)
  · exact step_acc _ hc _ .nmos s hs _ _ _ _ hop dev65org16.instruct_cc (A.acc _ hc .nmos)
  · exact step_acc _ hc _ .nmos s hs _ _ _ _ hop dev65org16.instruct_cd (A.acd _ hc .nmos)
  · exact step_acc _ hc _ .nmos s hs _ _ _ _ hop dev65org16.instruct_ce (A.ace _ hc .nmos)
  · exact step_acc _ hc _ .nmos s hs _ _ _ _ hop dev65org16.instruct_d0 (A.ad0 _ hc .nmos)
  · exact step_acc _ hc _ .nmos s hs _ _ _ _ hop dev65org16.instruct_d1 (A.ad1 _ hc .nmos)
  · exact step_acc _ hc _ .nmos s hs _ _ _ _ hop dev65org16.instruct_d5 (A.ad5 _ hc .nmos)
  · exact step_acc _ hc _ .nmos s hs _ _ _ _ hop dev65org16.instruct_d6 (A.ad6 _ hc .nmos)
  · exact step_acc _ hc _ .nmos s hs _ _ _ _ hop dev65org16.instruct_d8 (A.ad8 _ hc .nmos)
  · exact step_acc _ hc _ .nmos s hs _ _ _ _ hop dev65org16.instruct_d9 (A.ad9 _ hc .nmos)
  · exact step_acc _ hc _ .nmos s hs _ _ _ _ hop dev65org16.instruct_dd (A.add _ hc .nmos)
  · exact step_acc _ hc _ .nmos s hs _ _ _ _ hop dev65org16.instruct_de (A.ade _ hc .nmos)
  · exact step_acc _ hc _ .nmos s hs _ _ _ _ hop dev65org16.instruct_e0 (A.ae0 _ hc .nmos)
  · exact step_acc _ hc _ .nmos s hs _ _ _ _ hop dev65org16.instruct_e1 (A.ae1 _ hc .nmos)
  · exact step_acc _ hc _ .nmos s hs _ _ _ _ hop dev65org16.instruct_e4 (A.ae4 _ hc .nmos)
  · exact step_acc _ hc _ .nmos s hs _ _ _ _ hop dev65org16.instruct_e5 (A.ae5 _ hc .nmos)
  · exact step_acc _ hc _ .nmos s hs _ _ _ _ hop dev65org16.instruct_e6 (A.ae6 _ hc .nmos)
  · exact step_acc _ hc _ .nmos s hs _ _ _ _ hop dev65org16.instruct_e8 (A.ae8 _ hc .nmos)
  · exact step_acc _ hc _ .nmos s hs _ _ _ _ hop dev65org16.instruct_e9 (A.ae9 _ hc .nmos)
  · exact step_acc _ hc _ .nmos s hs _ _ _ _ hop dev65org16.instruct_ea (A.aea _ hc .nmos)
  · exact step_acc _ hc _ .nmos s hs _ _ _ _ hop dev65org16.instruct_ec (A.aec _ hc .nmos)
  · exact step_acc _ hc _ .nmos s hs _ _ _ _ hop dev65org16.instruct_ed (A.aed _ hc .nmos)
  · exact step_acc _ hc _ .nmos s hs _ _ _ _ hop dev65org16.instruct_ee (A.aee _ hc .nmos)
  · exact step_acc _ hc _ .nmos s hs _ _ _ _ hop dev65org16.instruct_f0 (A.af0 _ hc .nmos)
  · exact step_acc _ hc _ .nmos s hs _ _ _ _ hop dev65org16.instruct_f1 (A.af1 _ hc .nmos)
  · exact step_acc _ hc _ .nmos s hs _ _ _ _ hop dev65org16.instruct_f5 (A.af5 _ hc .nmos)
  · exact step_acc _ hc _ .nmos s hs _ _ _ _ hop dev65org16.instruct_f6 (A.af6 _ hc .nmos)
  · exact step_acc _ hc _ .nmos s hs _ _ _ _ hop dev65org16.instruct_f8 (A.af8 _ hc .nmos)
  · exact step_acc _ hc _ .nmos s hs _ _ _ _ hop dev65org16.instruct_f9 (A.af9 _ hc .nmos)
  · exact step_acc _ hc _ .nmos s hs _ _ _ _ hop dev65org16.instruct_fd (A.afd _ hc .nmos)
  · exact step_acc _ hc _ .nmos s hs _ _ _ _ hop dev65org16.instruct_fe (A.afe _ hc .nmos)

/-- dev65c02: every one of the 195 declared opcodes (44 added or overridden rows, the rest
inherited from the NMOS part), every well-formed state. -/
theorem accesses_cmos (s : St) (hs : WF dev65c02.cfg s) (hw : s.waiting = false)
    (mn : Mn) (mo : Mode) (hd : decode .cmos (s.mem s.pc) = some (mn, mo)) :
    StepAccesses 8 .cmos mn mo s (dev65c02.step s) := by
  have hc : IsDev dev65c02.cfg := Or.inl rfl
  have hstep : dev65c02.step s = Mpu6502.step dev65c02.cfg dev65c02.tbl s := by
    simp only [dev65c02.step, Mpu65c02.step, hw]; rfl
  rw [hstep]
  generalize hop : s.mem s.pc = op at hd
  simp only [decode] at hd
  split at hd
  · rename_i r hr
    obtain ⟨mn', mo'⟩ := r
    simp only [Option.some.injEq, Prod.mk.injEq] at hd
    obtain ⟨rfl, rfl⟩ := hd
    have hm := lookup_mem hr
    simp only [cmosExtTable, List.mem_cons, List.mem_nil_iff, or_false, Prod.mk.injEq] at hm
    rcases hm with ⟨rfl, rfl, rfl⟩ | ⟨rfl, rfl, rfl⟩ | ⟨rfl, rfl, rfl⟩ | ⟨rfl, rfl, rfl⟩ | ⟨rfl, rfl, rfl⟩ | ⟨rfl, rfl, rfl⟩ | ⟨rfl, rfl, rfl⟩ | ⟨rfl, rfl, rfl⟩ | ⟨rfl, rfl, rfl⟩ | ⟨rfl, rfl, rfl⟩ | ⟨rfl, rfl, rfl⟩ | ⟨rfl, rfl, rfl⟩ | ⟨rfl, rfl, rfl⟩ | ⟨rfl, rfl, rfl⟩ | ⟨rfl, rfl, rfl⟩ | ⟨rfl, rfl, rfl⟩ | ⟨rfl, rfl, rfl⟩ | ⟨rfl, rfl, rfl⟩ | ⟨rfl, rfl, rfl⟩ | ⟨rfl, rfl, rfl⟩ | ⟨rfl, rfl, rfl⟩ | ⟨rfl, rfl, rfl⟩ | ⟨rfl, rfl, rfl⟩ | ⟨rfl, rfl, rfl⟩ | ⟨rfl, rfl, rfl⟩ | ⟨rfl, rfl, rfl⟩ | ⟨rfl, rfl, rfl⟩ | ⟨rfl, rfl, rfl⟩ | ⟨rfl, rfl, rfl⟩ | ⟨rfl, rfl, rfl⟩ | ⟨rfl, rfl, rfl⟩ | ⟨rfl, rfl, rfl⟩ | ⟨rfl, rfl, rfl⟩ | ⟨rfl, rfl, rfl⟩ | ⟨rfl, rfl, rfl⟩ | ⟨rfl, rfl, rfl⟩ | ⟨rfl, rfl, rfl⟩ | ⟨rfl, rfl, rfl⟩ | ⟨rfl, rfl, rfl⟩ | ⟨rfl, rfl, rfl⟩ | ⟨rfl, rfl, rfl⟩ | ⟨rfl, rfl, rfl⟩ | ⟨rfl, rfl, rfl⟩ | ⟨rfl, rfl, rfl⟩
    · exact step_acc _ hc _ .cmos s hs _ _ _ _ hop dev65c02.instruct_04 (AC.a04 .cmos)
    · exact step_acc _ hc _ .cmos s hs _ _ _ _ hop dev65c02.instruct_07 (AC.a07 .cmos)
    · exact step_acc _ hc _ .cmos s hs _ _ _ _ hop dev65c02.instruct_0c (AC.a0c .cmos)
    · exact step_acc _ hc _ .cmos s hs _ _ _ _ hop dev65c02.instruct_12 (AC.a12 .cmos)
    · exact step_acc _ hc _ .cmos s hs _ _ _ _ hop dev65c02.instruct_14 (AC.a14 .cmos)
    · exact step_acc _ hc _ .cmos s hs _ _ _ _ hop dev65c02.instruct_17 (AC.a17 .cmos)
    · exact step_acc _ hc _ .cmos s hs _ _ _ _ hop dev65c02.instruct_1a (AC.a1a .cmos)
    · exact step_acc _ hc _ .cmos s hs _ _ _ _ hop dev65c02.instruct_1c (AC.a1c .cmos)
    · exact step_acc _ hc _ .cmos s hs _ _ _ _ hop dev65c02.instruct_27 (AC.a27 .cmos)
    · exact step_acc _ hc _ .cmos s hs _ _ _ _ hop dev65c02.instruct_32 (AC.a32 .cmos)
    · exact step_acc _ hc _ .cmos s hs _ _ _ _ hop dev65c02.instruct_34 (AC.a34 .cmos)
    · exact step_acc _ hc _ .cmos s hs _ _ _ _ hop dev65c02.instruct_37 (AC.a37 .cmos)
    · exact step_acc _ hc _ .cmos s hs _ _ _ _ hop dev65c02.instruct_3a (AC.a3a .cmos)
    · exact step_acc _ hc _ .cmos s hs _ _ _ _ hop dev65c02.instruct_3c (AC.a3c .cmos)
    · exact step_acc _ hc _ .cmos s hs _ _ _ _ hop dev65c02.instruct_47 (AC.a47 .cmos)
    · exact step_acc _ hc _ .cmos s hs _ _ _ _ hop dev65c02.instruct_52 (AC.a52 .cmos)
    · exact step_acc _ hc _ .cmos s hs _ _ _ _ hop dev65c02.instruct_57 (AC.a57 .cmos)
    · exact step_acc _ hc _ .cmos s hs _ _ _ _ hop dev65c02.instruct_5a (AC.a5a .cmos)
    · exact step_acc _ hc _ .cmos s hs _ _ _ _ hop dev65c02.instruct_64 (AC.a64 .cmos)
    · exact step_acc _ hc _ .cmos s hs _ _ _ _ hop dev65c02.instruct_67 (AC.a67 .cmos)
    · exact step_acc _ hc _ .cmos s hs _ _ _ _ hop dev65c02.instruct_72 (AC.a72 .cmos)
    · exact step_acc _ hc _ .cmos s hs _ _ _ _ hop dev65c02.instruct_74 (AC.a74 .cmos)
    · exact step_acc _ hc _ .cmos s hs _ _ _ _ hop dev65c02.instruct_77 (AC.a77 .cmos)
    · exact step_acc _ hc _ .cmos s hs _ _ _ _ hop dev65c02.instruct_7a (AC.a7a .cmos)
    · exact step_acc _ hc _ .cmos s hs _ _ _ _ hop dev65c02.instruct_7c (AC.a7c .cmos)
    · exact step_acc _ hc _ .cmos s hs _ _ _ _ hop dev65c02.instruct_80 (AC.a80 .cmos)
    · exact step_acc _ hc _ .cmos s hs _ _ _ _ hop dev65c02.instruct_87 (AC.a87 .cmos)
    · exact step_acc _ hc _ .cmos s hs _ _ _ _ hop dev65c02.instruct_89 (AC.a89 .cmos)
    · exact step_acc _ hc _ .cmos s hs _ _ _ _ hop dev65c02.instruct_92 (AC.a92 .cmos)
    · exact step_acc _ hc _ .cmos s hs _ _ _ _ hop dev65c02.instruct_97 (AC.a97 .cmos)
    · exact step_acc _ hc _ .cmos s hs _ _ _ _ hop dev65c02.instruct_9c (AC.a9c .cmos)
    · exact step_acc _ hc _ .cmos s hs _ _ _ _ hop dev65c02.instruct_9e (AC.a9e .cmos)
    · exact step_acc _ hc _ .cmos s hs _ _ _ _ hop dev65c02.instruct_a7 (AC.aa7 .cmos)
    · exact step_acc _ hc _ .cmos s hs _ _ _ _ hop dev65c02.instruct_b2 (AC.ab2 .cmos)
    · exact step_acc _ hc _ .cmos s hs _ _ _ _ hop dev65c02.instruct_b7 (AC.ab7 .cmos)
    · exact step_acc _ hc _ .cmos s hs _ _ _ _ hop dev65c02.instruct_c7 (AC.ac7 .cmos)
    · exact step_acc _ hc _ .cmos s hs _ _ _ _ hop dev65c02.instruct_cb (AC.acb .cmos)
    · exact step_acc _ hc _ .cmos s hs _ _ _ _ hop dev65c02.instruct_d2 (AC.ad2 .cmos)
    · exact step_acc _ hc _ .cmos s hs _ _ _ _ hop dev65c02.instruct_d7 (AC.ad7 .cmos)
    · exact step_acc _ hc _ .cmos s hs _ _ _ _ hop dev65c02.instruct_da (AC.ada .cmos)
    · exact step_acc _ hc _ .cmos s hs _ _ _ _ hop dev65c02.instruct_e7 (AC.ae7 .cmos)
    · exact step_acc _ hc _ .cmos s hs _ _ _ _ hop dev65c02.instruct_f2 (AC.af2 .cmos)
    · exact step_acc _ hc _ .cmos s hs _ _ _ _ hop dev65c02.instruct_f7 (AC.af7 .cmos)
    · exact step_acc _ hc _ .cmos s hs _ _ _ _ hop dev65c02.instruct_fa (AC.afa .cmos)
  · rename_i hnone
    have hm := lookup_mem hd
    simp only [nmosTable, List.mem_cons, List.mem_nil_iff, or_false, Prod.mk.injEq] at hm
    rcases hm with ⟨rfl, rfl, rfl⟩ | ⟨rfl, rfl, rfl⟩ | ⟨rfl, rfl, rfl⟩ | ⟨rfl, rfl, rfl⟩ | ⟨rfl, rfl, rfl⟩ | ⟨rfl, rfl, rfl⟩ | ⟨rfl, rfl, rfl⟩ | ⟨rfl, rfl, rfl⟩ | ⟨rfl, rfl, rfl⟩ | ⟨rfl, rfl, rfl⟩ | ⟨rfl, rfl, rfl⟩ | ⟨rfl, rfl, rfl⟩ | ⟨rfl, rfl, rfl⟩ | ⟨rfl, rfl, rfl⟩ | ⟨rfl, rfl, rfl⟩ | ⟨rfl, rfl, rfl⟩ | ⟨rfl, rfl, rfl⟩ | ⟨rfl, rfl, rfl⟩ | ⟨rfl, rfl, rfl⟩ | ⟨rfl, rfl, rfl⟩ | ⟨rfl, rfl, rfl⟩ | ⟨rfl, rfl, rfl⟩ | ⟨rfl, rfl, rfl⟩ | ⟨rfl, rfl, rfl⟩ | ⟨rfl, rfl, rfl⟩ | ⟨rfl, rfl, rfl⟩ | ⟨rfl, rfl, rfl⟩ | ⟨rfl, rfl, rfl⟩ | ⟨rfl, rfl, rfl⟩ | ⟨rfl, rfl, rfl⟩ | ⟨rfl, rfl, rfl⟩ | ⟨rfl, rfl, rfl⟩ | ⟨rfl, rfl, rfl⟩ | ⟨rfl, rfl, rfl⟩ | ⟨rfl, rfl, rfl⟩ | ⟨rfl, rfl, rfl⟩ | ⟨rfl, rfl, rfl⟩ | ⟨rfl, rfl, rfl⟩ | ⟨rfl, rfl, rfl⟩ | ⟨rfl, rfl, rfl⟩ | ⟨rfl, rfl, rfl⟩ | ⟨rfl, rfl, rfl⟩ | ⟨rfl, rfl, rfl⟩ | ⟨rfl, rfl, rfl⟩ | ⟨rfl, rfl, rfl⟩ | ⟨rfl, rfl, rfl⟩ | ⟨rfl, rfl, rfl⟩ | ⟨rfl, rfl, rfl⟩ | ⟨rfl, rfl, rfl⟩ | ⟨rfl, rfl, rfl⟩ | ⟨rfl, rfl, rfl⟩ | ⟨rfl, rfl, rfl⟩ | ⟨rfl, rfl, rfl⟩ | ⟨rfl, rfl, rfl⟩ | ⟨rfl, rfl, rfl⟩ | ⟨rfl, rfl, rfl⟩ | ⟨rfl, rfl, rfl⟩ | ⟨rfl, rfl, rfl⟩ | ⟨rfl, rfl, rfl⟩ | ⟨rfl, rfl, rfl⟩ | ⟨rfl, rfl, rfl⟩ | ⟨rfl, rfl, rfl⟩ | ⟨rfl, rfl, rfl⟩ | ⟨rfl, rfl, rfl⟩ | ⟨rfl, rfl, rfl⟩ | ⟨rfl, rfl, rfl⟩ | ⟨rfl, rfl, rfl⟩ | ⟨rfl, rfl, rfl⟩ | ⟨rfl, rfl, rfl⟩ | ⟨rfl, rfl, rfl⟩ | ⟨rfl, rfl, rfl⟩ | ⟨rfl, rfl, rfl⟩ | ⟨rfl, rfl, rfl⟩ | ⟨rfl, rfl, rfl⟩ | ⟨rfl, rfl, rfl⟩ | ⟨rfl, rfl, rfl⟩ | ⟨rfl, rfl, rfl⟩ | ⟨rfl, rfl, rfl⟩ | ⟨rfl, rfl, rfl⟩ | ⟨rfl, rfl, rfl⟩ | ⟨rfl, rfl, rfl⟩ | ⟨rfl, rfl, rfl⟩ | ⟨rfl, rfl, rfl⟩ | ⟨rfl, rfl, rfl⟩ | ⟨rfl, rfl, rfl⟩ | ⟨rfl, rfl, rfl⟩ | ⟨rfl, rfl, rfl⟩ | ⟨rfl, rfl, rfl⟩ | ⟨rfl, rfl, rfl⟩ | ⟨rfl, rfl, rfl⟩ | ⟨rfl, rfl, rfl⟩ | ⟨rfl, rfl, rfl⟩ | ⟨rfl, rfl, rfl⟩ | ⟨rfl, rfl, rfl⟩ | ⟨rfl, rfl, rfl⟩ | ⟨rfl, rfl, rfl⟩ | ⟨rfl, rfl, rfl⟩ | ⟨rfl, rfl, rfl⟩ | ⟨rfl, rfl, rfl⟩ | ⟨rfl, rfl, rfl⟩ | ⟨rfl, rfl, rfl⟩ | ⟨rfl, rfl, rfl⟩ | ⟨rfl, rfl, rfl⟩ | ⟨rfl, rfl, rfl⟩ | ⟨rfl, rfl, rfl⟩ | ⟨rfl, rfl, rfl⟩ | ⟨rfl, rfl, rfl⟩ | ⟨rfl, rfl, rfl⟩ | ⟨rfl, rfl, rfl⟩ | ⟨rfl, rfl, rfl⟩ | ⟨rfl, rfl, rfl⟩ | ⟨rfl, rfl, rfl⟩ | ⟨rfl, rfl, rfl⟩ | ⟨rfl, rfl, rfl⟩ | ⟨rfl, rfl, rfl⟩ | ⟨rfl, rfl, rfl⟩ | ⟨rfl, rfl, rfl⟩ | ⟨rfl, rfl, rfl⟩ | ⟨rfl, rfl, rfl⟩ | ⟨rfl, rfl, rfl⟩ | ⟨rfl, rfl, rfl⟩ | ⟨rfl, rfl, rfl⟩ | ⟨rfl, rfl, rfl⟩ | ⟨rfl, rfl, rfl⟩ | ⟨rfl, rfl, rfl⟩ | ⟨rfl, rfl, rfl⟩ | ⟨rfl, rfl, rfl⟩ | ⟨rfl, rfl, rfl⟩ | ⟨rfl, rfl, rfl⟩ | ⟨rfl, rfl, rfl⟩ | ⟨rfl, rfl, rfl⟩ | ⟨rfl, rfl, rfl⟩ | ⟨rfl, rfl, rfl⟩ | ⟨rfl, rfl, rfl⟩ | ⟨rfl, rfl, rfl⟩ | ⟨rfl, rfl, rfl⟩ | ⟨rfl, rfl, rfl⟩ | ⟨rfl, rfl, rfl⟩ | ⟨rfl, rfl, rfl⟩ | ⟨rfl, rfl, rfl⟩ | ⟨rfl, rfl, rfl⟩ | ⟨rfl, rfl, rfl⟩ | ⟨rfl, rfl, rfl⟩ | ⟨rfl, rfl, rfl⟩ | ⟨rfl, rfl, rfl⟩ | ⟨rfl, rfl, rfl⟩ | ⟨rfl, rfl, rfl⟩ | ⟨rfl, rfl, rfl⟩ | ⟨rfl, rfl, rfl⟩ | ⟨rfl, rfl, rfl⟩ | ⟨rfl, rfl, rfl⟩
    · exact step_acc _ hc _ .cmos s hs _ _ _ _ hop dev65c02.instruct_00 (AC.a00 .cmos)
    · exact step_acc _ hc _ .cmos s hs _ _ _ _ hop dev65c02.instruct_01 (A.a01 _ hc .cmos)
    · exact step_acc _ hc _ .cmos s hs _ _ _ _ hop dev65c02.instruct_05 (A.a05 _ hc .cmos)
    · exact step_acc _ hc _ .cmos s hs _ _ _ _ hop dev65c02.instruct_06 (A.a06 _ hc .cmos)
    · exact step_acc _ hc _ .cmos s hs _ _ _ _ hop dev65c02.instruct_08 (A.a08 _ hc .cmos)
    · exact step_acc _ hc _ .cmos s hs _ _ _ _ hop dev65c02.instruct_09 (A.a09 _ hc .cmos)
    · exact step_acc _ hc _ .cmos s hs _ _ _ _ hop dev65c02.instruct_0a (A.a0a _ hc .cmos)
    · exact step_acc _ hc _ .cmos s hs _ _ _ _ hop dev65c02.instruct_0d (A.a0d _ hc .cmos)
    · exact step_acc _ hc _ .cmos s hs _ _ _ _ hop dev65c02.instruct_0e (A.a0e _ hc .cmos)
    · exact step_acc _ hc _ .cmos s hs _ _ _ _ hop dev65c02.instruct_10 (A.a10 _ hc .cmos)
    · exact step_acc _ hc _ .cmos s hs _ _ _ _ hop dev65c02.instruct_11 (A.a11 _ hc .cmos)
    · exact step_acc _ hc _ .cmos s hs _ _ _ _ hop dev65c02.instruct_15 (A.a15 _ hc .cmos)
    · exact step_acc _ hc _ .cmos s hs _ _ _ _ hop dev65c02.instruct_16 (A.a16 _ hc .cmos)
    · exact step_acc _ hc _ .cmos s hs _ _ _ _ hop dev65c02.instruct_18 (A.a18 _ hc .cmos)
    · exact step_acc _ hc _ .cmos s hs _ _ _ _ hop dev65c02.instruct_19 (A.a19 _ hc .cmos)
    · exact step_acc _ hc _ .cmos s hs _ _ _ _ hop dev65c02.instruct_1d (A.a1d _ hc .cmos)
    · exact step_acc _ hc _ .cmos s hs _ _ _ _ hop dev65c02.instruct_1e (A.a1e _ hc .cmos)
    · exact step_acc _ hc _ .cmos s hs _ _ _ _ hop dev65c02.instruct_20 (A.a20 _ hc .cmos)
    · exact step_acc _ hc _ .cmos s hs _ _ _ _ hop dev65c02.instruct_21 (A.a21 _ hc .cmos)
    · exact step_acc _ hc _ .cmos s hs _ _ _ _ hop dev65c02.instruct_24 (A.a24 _ hc .cmos)
    · exact step_acc _ hc _ .cmos s hs _ _ _ _ hop dev65c02.instruct_25 (A.a25 _ hc .cmos)
    · exact step_acc _ hc _ .cmos s hs _ _ _ _ hop dev65c02.instruct_26 (A.a26 _ hc .cmos)
    · exact step_acc _ hc _ .cmos s hs _ _ _ _ hop dev65c02.instruct_28 (A.a28 _ hc .cmos)
    · exact step_acc _ hc _ .cmos s hs _ _ _ _ hop dev65c02.instruct_29 (A.a29 _ hc .cmos)
    · exact step_acc _ hc _ .cmos s hs _ _ _ _ hop dev65c02.instruct_2a (A.a2a _ hc .cmos)
    · exact step_acc _ hc _ .cmos s hs _ _ _ _ hop dev65c02.instruct_2c (A.a2c _ hc .cmos)
    · exact step_acc _ hc _ .cmos s hs _ _ _ _ hop dev65c02.instruct_2d (A.a2d _ hc .cmos)
    · exact step_acc _ hc _ .cmos s hs _ _ _ _ hop dev65c02.instruct_2e (A.a2e _ hc .cmos)
    · exact step_acc _ hc _ .cmos s hs _ _ _ _ hop dev65c02.instruct_30 (A.a30 _ hc .cmos)
    · exact step_acc _ hc _ .cmos s hs _ _ _ _ hop dev65c02.instruct_31 (A.a31 _ hc .cmos)
    · exact step_acc _ hc _ .cmos s hs _ _ _ _ hop dev65c02.instruct_35 (A.a35 _ hc .cmos)
    · exact step_acc _ hc _ .cmos s hs _ _ _ _ hop dev65c02.instruct_36 (A.a36 _ hc .cmos)
    · exact step_acc _ hc _ .cmos s hs _ _ _ _ hop dev65c02.instruct_38 (A.a38 _ hc .cmos)
    · exact step_acc _ hc _ .cmos s hs _ _ _ _ hop dev65c02.instruct_39 (A.a39 _ hc .cmos)
    · exact step_acc _ hc _ .cmos s hs _ _ _ _ hop dev65c02.instruct_3d (A.a3d _ hc .cmos)
    · exact step_acc _ hc _ .cmos s hs _ _ _ _ hop dev65c02.instruct_3e (A.a3e _ hc .cmos)
    · exact step_acc _ hc _ .cmos s hs _ _ _ _ hop dev65c02.instruct_40 (A.a40 _ hc .cmos)
    · exact step_acc _ hc _ .cmos s hs _ _ _ _ hop dev65c02.instruct_41 (A.a41 _ hc .cmos)
    · exact step_acc _ hc _ .cmos s hs _ _ _ _ hop dev65c02.instruct_45 (A.a45 _ hc .cmos)
    · exact step_acc _ hc _ .cmos s hs _ _ _ _ hop dev65c02.instruct_46 (A.a46 _ hc .cmos)
    · exact step_acc _ hc _ .cmos s hs _ _ _ _ hop dev65c02.instruct_48 (A.a48 _ hc .cmos)
    · exact step_acc _ hc _ .cmos s hs _ _ _ _ hop dev65c02.instruct_49 (A.a49 _ hc .cmos)
    · exact step_acc _ hc _ .cmos s hs _ _ _ _ hop dev65c02.instruct_4a (A.a4a _ hc .cmos)
    · exact step_acc _ hc _ .cmos s hs _ _ _ _ hop dev65c02.instruct_4c (A.a4c _ hc .cmos)
    · exact step_acc _ hc _ .cmos s hs _ _ _ _ hop dev65c02.instruct_4d (A.a4d _ hc .cmos)
    · exact step_acc _ hc _ .cmos s hs _ _ _ _ hop dev65c02.instruct_4e (A.a4e _ hc .cmos)
    · exact step_acc _ hc _ .cmos s hs _ _ _ _ hop dev65c02.instruct_50 (A.a50 _ hc .cmos)
    · exact step_acc _ hc _ .cmos s hs _ _ _ _ hop dev65c02.instruct_51 (A.a51 _ hc .cmos)
    · exact step_acc _ hc _ .cmos s hs _ _ _ _ hop dev65c02.instruct_55 (A.a55 _ hc .cmos)
    · exact step_acc _ hc _ .cmos s hs _ _ _ _ hop dev65c02.instruct_56 (A.a56 _ hc .cmos)
    · exact step_acc _ hc _ .cmos s hs _ _ _ _ hop dev65c02.instruct_58 (A.a58 _ hc .cmos)
    · exact step_acc _ hc _ .cmos s hs _ _ _ _ hop dev65c02.instruct_59 (A.a59 _ hc .cmos)
    · exact step_acc _ hc _ .cmos s hs _ _ _ _ hop dev65c02.instruct_5d (A.a5d _ hc .cmos)
    · exact step_acc _ hc _ .cmos s hs _ _ _ _ hop dev65c02.instruct_5e (A.a5e _ hc .cmos)
    · exact step_acc _ hc _ .cmos s hs _ _ _ _ hop dev65c02.instruct_60 (A.a60 _ hc .cmos)
    · exact step_acc _ hc _ .cmos s hs _ _ _ _ hop dev65c02.instruct_61 (A.a61 _ hc .cmos)
    · exact step_acc _ hc _ .cmos s hs _ _ _ _ hop dev65c02.instruct_65 (A.a65 _ hc .cmos)
    · exact step_acc _ hc _ .cmos s hs _ _ _ _ hop dev65c02.instruct_66 (A.a66 _ hc .cmos)
    · exact step_acc _ hc _ .cmos s hs _ _ _ _ hop dev65c02.instruct_68 (A.a68 _ hc .cmos)
    · exact step_acc _ hc _ .cmos s hs _ _ _ _ hop dev65c02.instruct_69 (A.a69 _ hc .cmos)
    · exact step_acc _ hc _ .cmos s hs _ _ _ _ hop dev65c02.instruct_6a (A.a6a _ hc .cmos)
    · exact step_acc _ hc _ .cmos s hs _ _ _ _ hop dev65c02.instruct_6c AC.a6c
    · exact step_acc _ hc _ .cmos s hs _ _ _ _ hop dev65c02.instruct_6d (A.a6d _ hc .cmos)
    · exact step_acc _ hc _ .cmos s hs _ _ _ _ hop dev65c02.instruct_6e (A.a6e _ hc .cmos)
    · exact step_acc _ hc _ .cmos s hs _ _ _ _ hop dev65c02.instruct_70 (A.a70 _ hc .cmos)
    · exact step_acc _ hc _ .cmos s hs _ _ _ _ hop dev65c02.instruct_71 (A.a71 _ hc .cmos)
    · exact step_acc _ hc _ .cmos s hs _ _ _ _ hop dev65c02.instruct_75 (A.a75 _ hc .cmos)
    · exact step_acc _ hc _ .cmos s hs _ _ _ _ hop dev65c02.instruct_76 (A.a76 _ hc .cmos)
    · exact step_acc _ hc _ .cmos s hs _ _ _ _ hop dev65c02.instruct_78 (A.a78 _ hc .cmos)
    · exact step_acc _ hc _ .cmos s hs _ _ _ _ hop dev65c02.instruct_79 (A.a79 _ hc .cmos)
    · exact step_acc _ hc _ .cmos s hs _ _ _ _ hop dev65c02.instruct_7d (A.a7d _ hc .cmos)
    · exact step_acc _ hc _ .cmos s hs _ _ _ _ hop dev65c02.instruct_7e (A.a7e _ hc .cmos)
    · exact step_acc _ hc _ .cmos s hs _ _ _ _ hop dev65c02.instruct_81 (A.a81 _ hc .cmos)
    · exact step_acc _ hc _ .cmos s hs _ _ _ _ hop dev65c02.instruct_84 (A.a84 _ hc .cmos)
    · exact step_acc _ hc _ .cmos s hs _ _ _ _ hop dev65c02.instruct_85 (A.a85 _ hc .cmos)
    · exact step_acc _ hc _ .cmos s hs _ _ _ _ hop dev65c02.instruct_86 (A.a86 _ hc .cmos)
    · exact step_acc _ hc _ .cmos s hs _ _ _ _ hop dev65c02.instruct_88 (A.a88 _ hc .cmos)
    · exact step_acc _ hc _ .cmos s hs _ _ _ _ hop dev65c02.instruct_8a (A.a8a _ hc .cmos)
    · exact step_acc _ hc _ .cmos s hs _ _ _ _ hop dev65c02.instruct_8c (A.a8c _ hc .cmos)
    · exact step_acc _ hc _ .cmos s hs _ _ _ _ hop dev65c02.instruct_8d (A.a8d _ hc .cmos)
    · exact step_acc _ hc _ .cmos s hs _ _ _ _ hop dev65c02.instruct_8e (A.a8e _ hc .cmos)
    · exact step_acc _ hc _ .cmos s hs _ _ _ _ hop dev65c02.instruct_90 (A.a90 _ hc .cmos)
    · exact step_acc _ hc _ .cmos s hs _ _ _ _ hop dev65c02.instruct_91 (A.a91 _ hc .cmos)
    · exact step_acc _ hc _ .cmos s hs _ _ _ _ hop dev65c02.instruct_94 (A.a94 _ hc .cmos)
    · exact step_acc _ hc _ .cmos s hs _ _ _ _ hop dev65c02.instruct_95 (A.a95 _ hc .cmos)
    · exact step_acc _ hc _ .cmos s hs _ _ _ _ hop dev65c02.instruct_96 (A.a96 _ hc .cmos)
    · exact step_acc _ hc _ .cmos s hs _ _ _ _ hop dev65c02.instruct_98 (A.a98 _ hc .cmos)
    · exact step_acc _ hc _ .cmos s hs _ _ _ _ hop dev65c02.instruct_99 (A.a99 _ hc .cmos)
    · exact step_acc _ hc _ .cmos s hs _ _ _ _ hop dev65c02.instruct_9a (A.a9a _ hc .cmos)
    · exact step_acc _ hc _ .cmos s hs _ _ _ _ hop dev65c02.instruct_9d (A.a9d _ hc .cmos)
    · exact step_acc _ hc _ .cmos s hs _ _ _ _ hop dev65c02.instruct_a0 (A.aa0 _ hc .cmos)
    · exact step_acc _ hc _ .cmos s hs _ _ _ _ hop dev65c02.instruct_a1 (A.aa1 _ hc .cmos)
    · exact step_acc _ hc _ .cmos s hs _ _ _ _ hop dev65c02.instruct_a2 (A.aa2 _ hc .cmos)
    · exact step_acc _ hc _ .cmos s hs _ _ _ _ hop dev65c02.instruct_a4 (A.aa4 _ hc .cmos)
    · exact step_acc _ hc _ .cmos s hs _ _ _ _ hop dev65c02.instruct_a5 (A.aa5 _ hc .cmos)
    · exact step_acc _ hc _ .cmos s hs _ _ _ _ hop dev65c02.instruct_a6 (A.aa6 _ hc .cmos)
    · exact step_acc _ hc _ .cmos s hs _ _ _ _ hop dev65c02.instruct_a8 (A.aa8 _ hc .cmos)
    · exact step_acc _ hc _ .cmos s hs _ _ _ _ hop dev65c02.instruct_a9 (A.aa9 _ hc .cmos)
    · exact step_acc _ hc _ .cmos s hs _ _ _ _ hop dev65c02.instruct_aa (A.aaa _ hc .cmos)
    · exact step_acc _ hc _ .cmos s hs _ _ _ _ hop dev65c02.instruct_ac (A.aac _ hc .cmos)
    · exact step_acc _ hc _ .cmos s hs _ _ _ _ hop dev65c02.instruct_ad (A.aad _ hc .cmos)
    · exact step_acc _ hc _ .cmos s hs _ _ _ _ hop dev65c02.instruct_ae (A.aae _ hc .cmos)
    · exact step_acc _ hc _ .cmos s hs _ _ _ _ hop dev65c02.instruct_b0 (A.ab0 _ hc .cmos)
    · exact step_acc _ hc _ .cmos s hs _ _ _ _ hop dev65c02.instruct_b1 (A.ab1 _ hc .cmos)
    · exact step_acc _ hc _ .cmos s hs _ _ _ _ hop dev65c02.instruct_b4 (A.ab4 _ hc .cmos)
    · exact step_acc _ hc _ .cmos s hs _ _ _ _ hop dev65c02.instruct_b5 (A.ab5 _ hc .cmos)
    · exact step_acc _ hc _ .cmos s hs _ _ _ _ hop dev65c02.instruct_b6 (A.ab6 _ hc .cmos)
    · exact step_acc _ hc _ .cmos s hs _ _ _ _ hop dev65c02.instruct_b8 (A.ab8 _ hc .cmos)
    · exact step_acc _ hc _ .cmos s hs _ _ _ _ hop dev65c02.instruct_b9 (A.ab9 _ hc .cmos)
    · exact step_acc _ hc _ .cmos s hs _ _ _ _ hop dev65c02.instruct_ba (A.aba _ hc .cmos)
    · exact step_acc _ hc _ .cmos s hs _ _ _ _ hop dev65c02.instruct_bc (A.abc _ hc .cmos)
    · exact step_acc _ hc _ .cmos s hs _ _ _ _ hop dev65c02.instruct_bd (A.abd _ hc .cmos)
    · exact step_acc _ hc _ .cmos s hs _ _ _ _ hop dev65c02.instruct_be (A.abe _ hc .cmos)
    · exact step_acc _ hc _ .cmos s hs _ _ _ _ hop dev65c02.instruct_c0 (A.ac0 _ hc .cmos)
    · exact step_acc _ hc _ .cmos s hs _ _ _ _ hop dev65c02.instruct_c1 (A.ac1 _ hc .cmos)
    · exact step_acc _ hc _ .cmos s hs _ _ _ _ hop dev65c02.instruct_c4 (A.ac4 _ hc .cmos)
    · exact step_acc _ hc _ .cmos s hs _ _ _ _ hop dev65c02.instruct_c5 (A.ac5 _ hc .cmos)
    · exact step_acc _ hc _ .cmos s hs _ _ _ _ hop dev65c02.instruct_c6 (A.ac6 _ hc .cmos)
    · exact step_acc _ hc _ .cmos s hs _ _ _ _ hop dev65c02.instruct_c8 (A.ac8 _ hc .cmos)
    · exact step_acc _ hc _ .cmos s hs _ _ _ _ hop dev65c02.instruct_c9 (A.ac9 _ hc .cmos)
    · exact step_acc _ hc _ .cmos s hs _ _ _ _ hop dev65c02.instruct_ca (A.aca _ hc .cmos)
    · exact step_acc _ hc _ .cmos s hs _ _ _ _ hop dev65c02.instruct_cc (A.acc _ hc .cmos)
    · exact step_acc _ hc _ .cmos s hs _ _ _ _ hop dev65c02.instruct_cd (A.acd _ hc .cmos)
    · exact step_acc _ hc _ .cmos s hs _ _ _ _ hop dev65c02.instruct_ce (A.ace _ hc .cmos)
    · exact step_acc _ hc _ .cmos s hs _ _ _ _ hop dev65c02.instruct_d0 (A.ad0 _ hc .cmos)
    · exact step_acc _ hc _ .cmos s hs _ _ _ _ hop dev65c02.instruct_d1 (A.ad1 _ hc .cmos)
    · exact step_acc _ hc _ .cmos s hs _ _ _ _ hop dev65c02.instruct_d5 (A.ad5 _ hc .cmos)
    · exact step_acc _ hc _ .cmos s hs _ _ _ _ hop dev65c02.instruct_d6 (A.ad6 _ hc .cmos)
    · exact step_acc _ hc _ .cmos s hs _ _ _ _ hop dev65c02.instruct_d8 (A.ad8 _ hc .cmos)
    · exact step_acc _ hc _ .cmos s hs _ _ _ _ hop dev65c02.instruct_d9 (A.ad9 _ hc .cmos)
    · exact step_acc _ hc _ .cmos s hs _ _ _ _ hop dev65c02.instruct_dd (A.add _ hc .cmos)
    · exact step_acc _ hc _ .cmos s hs _ _ _ _ hop dev65c02.instruct_de (A.ade _ hc .cmos)
    · exact step_acc _ hc _ .cmos s hs _ _ _ _ hop dev65c02.instruct_e0 (A.ae0 _ hc .cmos)
    · exact step_acc _ hc _ .cmos s hs _ _ _ _ hop dev65c02.instruct_e1 (A.ae1 _ hc .cmos)
    · exact step_acc _ hc _ .cmos s hs _ _ _ _ hop dev65c02.instruct_e4 (A.ae4 _ hc .cmos)
    · exact step_acc _ hc _ .cmos s hs _ _ _ _ hop dev65c02.instruct_e5 (A.ae5 _ hc .cmos)
    · exact step_acc _ hc _ .cmos s hs _ _ _ _ hop dev65c02.instruct_e6 (A.ae6 _ hc .cmos)
    · exact step_acc _ hc _ .cmos s hs _ _ _ _ hop dev65c02.instruct_e8 (A.ae8 _ hc .cmos)
    · exact step_acc _ hc _ .cmos s hs _ _ _ _ hop dev65c02.instruct_e9 (A.ae9 _ hc .cmos)
    · exact step_acc _ hc _ .cmos s hs _ _ _ _ hop dev65c02.instruct_ea (A.aea _ hc .cmos)
    · exact step_acc _ hc _ .cmos s hs _ _ _ _ hop dev65c02.instruct_ec (A.aec _ hc .cmos)
    · exact step_acc _ hc _ .cmos s hs _ _ _ _ hop dev65c02.instruct_ed (A.aed _ hc .cmos)
    · exact step_acc _ hc _ .cmos s hs _ _ _ _ hop dev65c02.instruct_ee (A.aee _ hc .cmos)
    · exact step_acc _ hc _ .cmos s hs _ _ _ _ hop dev65c02.instruct_f0 (A.af0 _ hc .cmos)
    · exact step_acc _ hc _ .cmos s hs _ _ _ _ hop dev65c02.instruct_f1 (A.af1 _ hc .cmos)
    · exact step_acc _ hc _ .cmos s hs _ _ _ _ hop dev65c02.instruct_f5 (A.af5 _ hc .cmos)
    · exact step_acc _ hc _ .cmos s hs _ _ _ _ hop dev65c02.instruct_f6 (A.af6 _ hc .cmos)
    · exact step_acc _ hc _ .cmos s hs _ _ _ _ hop dev65c02.instruct_f8 (A.af8 _ hc .cmos)
    · exact step_acc _ hc _ .cmos s hs _ _ _ _ hop dev65c02.instruct_f9 (A.af9 _ hc .cmos)
    · exact step_acc _ hc _ .cmos s hs _ _ _ _ hop dev65c02.instruct_fd (A.afd _ hc .cmos)
    · exact step_acc _ hc _ .cmos s hs _ _ _ _ hop dev65c02.instruct_fe (A.afe _ hc .cmos)

/-! ### interrupts and reset -/

theorem irq_accesses (c : Cfg) (hc : IsDev c) (s : St) (hs : WF c s) :
    acl (Mpu6502.irq c s) =
      if land s.p c.INTERRUPT ≠ 0 then acl s
      else (interruptAccesses c.BYTE_WIDTH irqVector (core s)).reverse ++ acl s := by
  have hsp := hs.sp
  inst_acl [Mpu6502.irq]
  split
  · rfl
  · rcases hc with rfl | rfl <;>
    · simp [accOf, interruptAccesses, stackAddr, core, irqVector, BM, pyarith] at hsp ⊢
      try omega

theorem nmi_accesses (c : Cfg) (hc : IsDev c) (s : St) (hs : WF c s) :
    acl (Mpu6502.nmi c s) = (interruptAccesses c.BYTE_WIDTH nmiVector (core s)).reverse ++ acl s := by
  have hsp := hs.sp
  inst_acl [Mpu6502.nmi]
  rcases hc with rfl | rfl <;>
  · simp [interruptAccesses, stackAddr, core, nmiVector, BM, pyarith] at hsp ⊢
    try omega

theorem reset_accesses (c : Cfg) (hc : IsDev c) (s : St) :
    acl (Mpu6502.reset_vec c s) = [Acc.r (resetVector + 1), Acc.r resetVector] ++ acl s := by
  inst_acl [Mpu6502.reset_vec]
  rcases hc with rfl | rfl <;> simp [resetVector, pyarith]

/-- The 65C02 wrappers (which clear `waiting`) perform the same accesses. -/
theorem irq_accesses_cmos (s : St) (hs : WF dev65c02.cfg s) :
    acl (Mpu65c02.irq dev65c02.cfg s) =
      if land s.p dev65c02.cfg.INTERRUPT ≠ 0 then acl s
      else (interruptAccesses 8 irqVector (core s)).reverse ++ acl s :=
  irq_accesses dev65c02.cfg (Or.inl rfl) { s with waiting := false } ⟨hs.a, hs.x, hs.y, hs.sp, hs.p, hs.pc, hs.mem⟩
theorem nmi_accesses_cmos (s : St) (hs : WF dev65c02.cfg s) :
    acl (Mpu65c02.nmi dev65c02.cfg s) = (interruptAccesses 8 nmiVector (core s)).reverse ++ acl s :=
  nmi_accesses dev65c02.cfg (Or.inl rfl) { s with waiting := false } ⟨hs.a, hs.x, hs.y, hs.sp, hs.p, hs.pc, hs.mem⟩

/-- A waiting 65C02 touches no memory at all. -/
theorem accesses_waiting (s : St) (hw : s.waiting = true) : acl (dev65c02.step s) = acl s := by
  simp only [dev65c02.step, Mpu65c02.step, hw]; rfl

/-- Non-vacuity: well-formed states executing `INC $80,X` (6502), `TRB $80` (65C02), `JSR` (65Org16). -/
example : ∃ s : St, WF dev6502.cfg s ∧ s.waiting = false ∧ decode .nmos (s.mem s.pc) = some (.INC, .zpx) := by
  refine ⟨{ (default : St) with mem := fun k => if k = 0 then 0xf6 else 0x80 }, ?_, rfl, by decide⟩
  refine ⟨by decide, by decide, by decide, by decide, by decide, by decide, ?_⟩
  intro k; dsimp only; split <;> decide
example : ∃ s : St, WF dev65c02.cfg s ∧ s.waiting = false ∧ decode .cmos (s.mem s.pc) = some (.TRB, .zpg) := by
  refine ⟨{ (default : St) with mem := fun k => if k = 0 then 0x14 else 0x80 }, ?_, rfl, by decide⟩
  refine ⟨by decide, by decide, by decide, by decide, by decide, by decide, ?_⟩
  intro k; dsimp only; split <;> decide
example : ∃ s : St, WF dev65org16.cfg s ∧ s.waiting = false ∧ decode .nmos (s.mem s.pc) = some (.JSR, .abs) := by
  refine ⟨{ (default : St) with mem := fun k => if k = 0 then 0x20 else 0x80 }, ?_, rfl, by decide⟩
  refine ⟨by decide, by decide, by decide, by decide, by decide, by decide, ?_⟩
  intro k; dsimp only; split <;> decide

/-- The specification's list, spelled out on three instructions (what the theorems promise). -/
example (s : AState) : instrAccesses 8 .nmos .INC .zpx s =
    [Acc.r s.pc, Acc.r ((s.mem s.pc + s.x) % 256), Acc.w ((s.mem s.pc + s.x) % 256)] := rfl
example (s : AState) : instrAccesses 8 .nmos .STA .abs s =
    [Acc.r s.pc, Acc.r ((s.pc + 1) % 65536), Acc.w (s.mem s.pc + s.mem ((s.pc + 1) % 65536) * 256)] := rfl
example (s : AState) : instrAccesses 8 .nmos .PHA .imp s = [Acc.w (256 + (s.sp - 0) % 256)] := rfl

end Py65.Props.C12
