/-
C16 -- "Monitor fill/load/save/mem touch exactly the addressed cells on every device".

Property theorems only (helper lemmas: `Py65/Proofs/MonLemmas.lean`; vocabulary:
`Py65/Spec/MonMem.lean`).  They are about the hand-written model `Py65/Model/MonMem.lean` of
`Monitor._fill / do_fill / do_load / do_save / do_mem`, which works on the `ObservableMemory` model
of C10 and the `AddressParser` model of C15; the model is tied to the real monitor by the
correspondence of `harness/props/c16.py` (driver line `mon …`).

Reading guide.
* `d : Dev` is the device as the monitor sees it (`dev8` = 6502/65C02: 16-bit addresses, 8-bit
  bytes; `dev16` = 65Org16: 32-bit addresses, 16-bit bytes); `P` the monitor's address parser
  (`hP : P.maxaddr = d.addrMask` -- it is built with the device's address width -- and `P.WF`).
* Commands take TOKENS (`Str`); "the token spells the number" is the hypothesis
  `numberL P tok = .ok n` / `rangeL P tok = .ok a b` (which spellings do is C15).
* `m : OM` is the monitor's memory with ANY content; `reply` is what its callbacks answer.
  `WQuiet reply m`: write subscribers answer None (putc does).  `phys mask a = a mod (mask+1)` is
  the physical cell of address `a`: the identity on the 8-bit devices (`flat_memory`), aliasing
  modulo $40000 on the 65Org16, whose ObservableMemory holds 2^18 cells.
  The theorems hold for `monReply` / `monMem` -- the object `_install_mpu_observers` builds --
  by `monMem_WF`, `monMem_wquiet`, `monMem_noReadSubs` (Proofs/MonLemmas).
* "window" hypothesis `E - start ≤ m.physMask`: the range is not longer than the physical memory
  (otherwise it overwrites itself; automatically true when `physMask = addrMask`).
* History: before the repair 021c418 `do_save` read ONE SLICE, which ObservableMemory clips at the
  physical size, so on the 65Org16 `save` of a range at or above $40000 wrote too little
  (findings/C16-save-slice-prefix.json); `save_exact` / `save_load_roundtrip` now hold without a
  physical-size restriction on where the range lies.
-/
import Py65.Proofs.MonLemmas

namespace Py65.Props.C16
open Py65.Model.PyStr Py65.Model.AddrParser Py65.Model.ObsMem Py65.Model.MonMem
open Py65.Spec.ObsMem Py65.Spec.MonMem Py65.Proofs.Num

/-- On a device whose memory object holds the whole address space (6502, 65C02: `physMask =
addrMask = $FFFF`) every in-range address is its own physical cell and no range is longer than
the memory. -/
theorem flat_memory (d : Dev) (m : OM) (h : m.physMask = d.addrMask) :
    (∀ a, 0 ≤ a → a ≤ d.addrMask → phys m.physMask a = a) ∧
    (∀ s e : Int, 0 ≤ s → e ≤ d.addrMask → e - s ≤ m.physMask) := by
  refine ⟨fun a h0 h1 => phys_of_inRange h0 (by rw [h]; exact h1), fun s e h0 h1 => by rw [h]; omega⟩

example : (monMem dev8.AW fun _ => 0).physMask = dev8.addrMask := by decide

/-- `fill_exact`: for every range token spelling `start ≤ stop` inside the address space and every
non-empty list of data tokens spelling values of at most a byte, `fill` reports
"Wrote +(E-start+1) bytes from $start to $E" where `E = stop`, or -- for a one-address range --
`E = start + len data - 1` clipped at the top of the address space; afterwards the cell of
`start + i` holds `data[i mod n]` for EVERY `0 ≤ i ≤ E - start` (any length: induction on the
loop), every other cell is unchanged, and nothing else of the memory object changed. -/
theorem fill_exact (reply : Reply) (d : Dev) (P : Parser) (m : OM) (r : Str) (pieces : List Str)
    (start stop : Int) (data : List Int)
    (hwf : P.WF) (hP : P.maxaddr = d.addrMask) (hw : WF m) (hq : WQuiet reply m)
    (hr : rangeL P r = .ok start stop) (hp : PiecesOk d P pieces data) (hne : data ≠ [])
    (hwin : fillStop d start stop data.length - start ≤ m.physMask) :
    let E := fillStop d start stop data.length
    let res := doFill reply d P (r :: pieces) m
    start ≤ E ∧ E ≤ d.addrMask ∧
    res.1 = .wrote (E - start + 1) start E ∧
    (∀ i : Nat, start + i ≤ E →
      res.2.subject (phys m.physMask (start + i)) = data.getD (i % data.length) 0) ∧
    (∀ k, (∀ i : Nat, start + i ≤ E → phys m.physMask (start + i) ≠ k) → res.2.subject k = m.subject k) ∧
    SameShape m res.2 := by
  intro E res
  obtain ⟨hab, h0, hb⟩ := rangeL_ordered hwf hr
  rw [hP] at hb
  have hpf := parseFiller_ok d P pieces data [] hp
  simp only [List.reverse_nil, List.nil_append] at hpf
  have hpne : pieces ≠ [] := by
    intro e; subst e
    cases data with
    | nil => exact hne rfl
    | cons v vs => simp [PiecesOk] at hp
  obtain ⟨p, ps, rfl⟩ := List.exists_cons_of_ne_nil hpne
  have hres : res = (Out.ofFill (fill reply d start stop data m).1, (fill reply d start stop data m).2) := by
    simp only [res, doFill, hr, hpf]
  obtain ⟨f1, f2, f3, f4, f5, f6⟩ := fill_spec reply d start stop data m hw hq h0 hab hb hne hwin
  have hdata : ∀ (ps : List Str) (data : List Int), PiecesOk d P ps data → ∀ v ∈ data, 0 ≤ v ∧ v ≤ d.byteMask := by
    intro ps
    induction ps with
    | nil => intro data h v hv; cases data <;> simp_all [PiecesOk]
    | cons q qs ih =>
      intro data h v hv
      cases data with
      | nil => simp at hv
      | cons w ws =>
        obtain ⟨h1, h2, h3⟩ := h
        simp only [List.mem_cons] at hv
        rcases hv with rfl | hv
        · exact ⟨(numberL_bounded hwf h1).1, h2⟩
        · exact ih ws h3 v hv
  rw [hres]
  refine ⟨f1, f2, by rw [f3]; rfl, ?_, f6, f4⟩
  intro i hi
  have hlen : 0 < data.length := List.length_pos_of_ne_nil hne
  have hlt : i % data.length < data.length := Nat.mod_lt _ hlen
  have hmem : data.getD (i % data.length) 0 ∈ data := by
    rw [List.getD_eq_getElem _ _ hlt]; exact List.getElem_mem hlt
  have := hdata _ _ hp _ hmem
  rw [f5 i hi, land_byteMask d this.1 this.2]

/-- `fill_exact_aliasing`: the same WITHOUT the window hypothesis, i.e. also for ranges of the
65Org16 longer than its 2^18 physical cells, whose addresses alias onto each other: the report is
the same, a cell hit by no address of the range is unchanged, and a cell hit by several ends up
with the item of the LAST address `start + i` that hits it (the loop runs upwards).  Under the
window hypothesis every address is the last to hit its cell: that is `fill_exact`. -/
theorem fill_exact_aliasing (reply : Reply) (d : Dev) (P : Parser) (m : OM) (r : Str) (pieces : List Str)
    (start stop : Int) (data : List Int)
    (hwf : P.WF) (hP : P.maxaddr = d.addrMask) (hw : WF m) (hq : WQuiet reply m)
    (hr : rangeL P r = .ok start stop) (hp : PiecesOk d P pieces data) (hne : data ≠ []) :
    let E := fillStop d start stop data.length
    let res := doFill reply d P (r :: pieces) m
    res.1 = .wrote (E - start + 1) start E ∧
    (∀ (k : Int) (i : Nat), start + i ≤ E → phys m.physMask (start + i) = k →
      (∀ i' : Nat, i < i' → start + i' ≤ E → phys m.physMask (start + i') ≠ k) →
      res.2.subject k = data.getD (i % data.length) 0) ∧
    (∀ k, (∀ i : Nat, start + i ≤ E → phys m.physMask (start + i) ≠ k) → res.2.subject k = m.subject k) ∧
    SameShape m res.2 := by
  intro E res
  obtain ⟨hab, h0, hb⟩ := rangeL_ordered hwf hr
  rw [hP] at hb
  have hpf := parseFiller_ok d P pieces data [] hp
  simp only [List.reverse_nil, List.nil_append] at hpf
  have hpne : pieces ≠ [] := by
    intro e; subst e
    cases data with
    | nil => exact hne rfl
    | cons v vs => simp [PiecesOk] at hp
  obtain ⟨p, ps, rfl⟩ := List.exists_cons_of_ne_nil hpne
  have hres : res = (Out.ofFill (fill reply d start stop data m).1, (fill reply d start stop data m).2) := by
    simp only [res, doFill, hr, hpf]
  obtain ⟨_, _, f3, f4, f5, f6⟩ := fill_general reply d start stop data m hw hq h0 hab hb hne
  have hdata : ∀ (ps : List Str) (data : List Int), PiecesOk d P ps data → ∀ v ∈ data, 0 ≤ v ∧ v ≤ d.byteMask := by
    intro ps
    induction ps with
    | nil => intro data h v hv; cases data <;> simp_all [PiecesOk]
    | cons q qs ih =>
      intro data h v hv
      cases data with
      | nil => simp at hv
      | cons w ws =>
        obtain ⟨h1, h2, h3⟩ := h
        simp only [List.mem_cons] at hv
        rcases hv with rfl | hv
        · exact ⟨(numberL_bounded hwf h1).1, h2⟩
        · exact ih ws h3 v hv
  rw [hres]
  refine ⟨by rw [f3]; rfl, ?_, f6, f4⟩
  intro k i hi hk hlast
  have hlen : 0 < data.length := List.length_pos_of_ne_nil hne
  have hlt : i % data.length < data.length := Nat.mod_lt _ hlen
  have hmem : data.getD (i % data.length) 0 ∈ data := by
    rw [List.getD_eq_getElem _ _ hlt]; exact List.getElem_mem hlt
  have := hdata _ _ hp _ hmem
  rw [f5 k i hi hk hlast, land_byteMask d this.1 this.2]

/-- non-vacuity (the probes of the design round, on the monitor's own memory object):
`fill 10:13 1 2` writes 1 2 1 2; `fill 20 1 2 3` (one address) extends to three cells;
`fill fffe 1 2 3 4` is clipped at the top: two cells. -/
example :
    let P : Parser := { width := 16, radix := 16, labels := [] }
    let m := monMem 16 fun _ => 0
    let r1 := doFill monReply dev8 P ["10:13".toList, "1".toList, "2".toList] m
    let r2 := doFill monReply dev8 P ["20".toList, "1".toList, "2".toList, "3".toList] m
    let r3 := doFill monReply dev8 P ["fffe".toList, "1".toList, "2".toList, "3".toList, "4".toList] m
    (r1.1, [0xf, 0x10, 0x11, 0x12, 0x13, 0x14].map r1.2.subject) = (.wrote 4 0x10 0x13, [0, 1, 2, 1, 2, 0]) ∧
    (r2.1, [0x1f, 0x20, 0x21, 0x22, 0x23].map r2.2.subject) = (.wrote 3 0x20 0x22, [0, 1, 2, 3, 0]) ∧
    (r3.1, [0xfffd, 0xfffe, 0xffff, 0, 1].map r3.2.subject) = (.wrote 2 0xfffe 0xffff, [0, 1, 2, 0, 0]) := by
  decide +kernel

/-- `fill_rejects`: whenever `fill` does not report "Wrote …" the memory object is exactly as it
was; an address too wide for the device (`OverflowError` of the parser) and a value wider than a
byte are both reported as overflow -- before the first cell is written. -/
theorem fill_rejects (reply : Reply) (d : Dev) (P : Parser) (m : OM) :
    (∀ split, (∀ c s e, (doFill reply d P split m).1 ≠ .wrote c s e) → (doFill reply d P split m).2 = m) ∧
    (∀ r pieces, pieces ≠ [] → rangeL P r = .overflow → doFill reply d P (r :: pieces) m = (.overflow, m)) ∧
    (∀ r a b pre pdata p post v, rangeL P r = .ok a b → PiecesOk d P pre pdata → numberL P p = .ok v →
      v > d.byteMask → doFill reply d P (r :: (pre ++ p :: post)) m = (.overflow, m)) := by
  refine ⟨?_, ?_, ?_⟩
  · intro split hnw
    unfold doFill at hnw ⊢
    split
    · rfl
    · rfl
    · rename_i r pieces
      split
      · rename_i start stop hr
        split
        · rename_i filler hf
          simp only [hr, hf] at hnw
          exact fill_not_wrote reply d start stop filler m hnw
        · rfl
      · rfl
      · rfl
      · rfl
  · intro r pieces hne hr
    obtain ⟨p, ps, rfl⟩ := List.exists_cons_of_ne_nil hne
    simp only [doFill, hr]
  · intro r a b pre pdata p post v hr hpre hp hv
    have := parseFiller_wide d P pre pdata p post v [] hpre hp hv
    cases hl : pre ++ p :: post with
    | nil => simp at hl
    | cons q qs =>
      rw [hl] at this
      simp only [doFill, hr, this]

/-- non-vacuity: on the 6502 `fill 10000:10003 aa` (address too wide), `fill 0:3 100` (value too
wide) are refused, memory untouched; on the 65Org16 both are fine widths. -/
example :
    let P8 : Parser := { width := 16, radix := 16, labels := [] }
    let P16 : Parser := { width := 32, radix := 16, labels := [] }
    (doFill monReply dev8 P8 ["10000:10003".toList, "aa".toList] (monMem 16 fun _ => 7)).1 = .overflow ∧
    (doFill monReply dev8 P8 ["0:3".toList, "100".toList] (monMem 16 fun _ => 7)).1 = .overflow ∧
    (doFill monReply dev16 P16 ["10000:10003".toList, "aa".toList] (monMem 32 fun _ => 7)).1 = .wrote 4 0x10000 0x10003 ∧
    (doFill monReply dev16 P16 ["0:3".toList, "100".toList] (monMem 32 fun _ => 7)).1 = .wrote 4 0 3 := by
  decide +kernel

/-- `load_data_spec`: what `load` stores.  8-bit devices: the octets of the file; 65Org16:
big-endian pairs `256 * bytes[2i] + bytes[2i+1]`, `len // 2` of them (an odd trailing octet is
dropped); and where: no address = PC, `top` = so that the LAST word lands on the top of the
address space (`2^AW - number of words`), otherwise the number the token spells. -/
theorem load_data_spec :
    (∀ bs, loadData dev8 bs = bs) ∧
    (∀ bs, (loadData dev16 bs).length = bs.length / 2 ∧
      ∀ i, i < bs.length / 2 → (loadData dev16 bs).getD i 0 = bs.getD (2 * i) 0 * 256 + bs.getD (2 * i + 1) 0) ∧
    (∀ d P file pc, loadStart d P file [] pc = .inr pc) ∧
    (∀ d P file pc, d = dev8 ∨ d = dev16 →
      loadStart d P file ["top".toList] pc = .inr (d.addrMask + 1 - (loadData d file).length)) ∧
    (∀ d P file pc t a, t ≠ "top".toList → numberL P t = .ok a → loadStart d P file [t] pc = .inr a) := by
  refine ⟨fun bs => by simp [loadData, dev8], fun bs => ?_, fun _ _ _ _ => rfl, ?_, ?_⟩
  · have : loadData dev16 bs = pairs bs := by simp [loadData, dev16]
    rw [this]
    exact ⟨pairs_length bs, pairs_getD bs⟩
  · intro d P file pc hd
    have ht : "top".toList = ['t', 'o', 'p'] := by decide
    rcases hd with rfl | rfl
    · simp only [loadStart, ht, if_true, loadData, dev8]
      norm_num
      omega
    · have : loadData dev16 file = pairs file := by simp [loadData, dev16]
      simp only [loadStart, ht, if_true, this, pairs_length]
      simp only [dev16]
      norm_num
      omega
  · intro d P file pc t a ht ha
    have ht' : ¬ t = ['t', 'o', 'p'] := by
      have : "top".toList = ['t', 'o', 'p'] := by decide
      rw [this] at ht; exact ht
    simp only [loadStart, ht', if_false, ha]

/-- `load_exact`: `load` from start address `a` (whichever way it was given, see
`load_data_spec`) stores word `i` of the file's data in the cell of `a + i` for every `i` up to the
end of the data or the top of the address space, whichever comes first, and changes no other cell.
An EMPTY file (or a single octet on the 65Org16) writes nothing and reports
"Wrote +0 bytes from $a to $(a-1)".  With `top` and at most `2^AW` words, `E` is the top. -/
theorem load_exact (reply : Reply) (d : Dev) (P : Parser) (m : OM) (file : List Int) (rest : List Str)
    (pc a : Int) (hw : WF m) (hq : WQuiet reply m)
    (hs : loadStart d P file rest pc = .inr a) (h0 : 0 ≤ a) (h1 : a ≤ d.addrMask)
    (hfile : ∀ v ∈ loadData d file, 0 ≤ v ∧ v ≤ d.byteMask)
    (hwin : fillStop d a a (loadData d file).length - a ≤ m.physMask) :
    let data := loadData d file
    let E := fillStop d a a data.length
    let res := doLoad reply d P file rest pc m
    E = min (a + data.length - 1) d.addrMask ∧
    res.1 = .wrote (E - a + 1) a E ∧
    (∀ i : Nat, a + i ≤ E → res.2.subject (phys m.physMask (a + i)) = data.getD i 0) ∧
    (∀ k, (∀ i : Nat, a + i ≤ E → phys m.physMask (a + i) ≠ k) → res.2.subject k = m.subject k) ∧
    SameShape m res.2 := by
  intro data E res
  have hE : E = min (a + data.length - 1) d.addrMask := by
    simp only [E, fillStop, if_true]
    split_ifs <;> omega
  have hres : res = (Out.ofFill (fill reply d a a data m).1, (fill reply d a a data m).2) := by
    simp only [res, doLoad, hs, data]
  by_cases hne : data = []
  · -- nothing to write
    have hl : data.length = 0 := by rw [hne]; rfl
    have hEa : E = a - 1 := by rw [hE, hl]; simp only [Nat.cast_zero]; omega
    have hf : fill reply d a a data m = (.wrote 0 a (a - 1), m) := by
      simp only [fill, hne, List.length_nil, Nat.cast_zero, if_true]
      have c1 : ¬ (a + 0 - 1 > d.addrMask) := by omega
      have c2 : ¬ (a ≤ a + 0 - 1) := by omega
      simp only [c1, c2, if_false, and_false]
      have : (a + 0 - 1 + 1 - a).toNat = 0 := by omega
      rw [this]
      simp only [fillLoop]
      have e : a + 0 - 1 = a - 1 := by omega
      rw [e]
      congr 2
      omega
    rw [hres, hf, hEa]
    refine ⟨by rw [← hEa, hE], by simp [Out.ofFill], ?_, fun k _ => rfl, SameShape.refl m⟩
    intro i hi
    have := Int.natCast_nonneg i
    omega
  · obtain ⟨f1, f2, f3, f4, f5, f6⟩ := fill_spec reply d a a data m hw hq h0 (le_refl a) h1 hne hwin
    rw [hres]
    refine ⟨hE, by simp only [f3, Out.ofFill]; rfl, ?_, f6, f4⟩
    intro i hi
    have hi' : (i : Int) < data.length := by
      have : E ≤ a + data.length - 1 := by rw [hE]; exact min_le_left _ _
      omega
    have hlt : i < data.length := by exact_mod_cast hi'
    have hmem : data.getD i 0 ∈ data := by
      rw [List.getD_eq_getElem _ _ hlt]; exact List.getElem_mem hlt
    have := hfile _ hmem
    rw [f5 i hi, Nat.mod_eq_of_lt hlt, land_byteMask d this.1 this.2]

/-- non-vacuity (probes): on the 65Org16 a 5-octet file at `top` gives the two words $0102 $0304 in
the last two cells of the 32-bit space (physical cells $3FFFE/$3FFFF) and drops the fifth octet;
an empty file writes nothing; on the 6502 a 40-octet file at $FFF0 is clipped to 16 cells. -/
example :
    let P16 : Parser := { width := 32, radix := 16, labels := [] }
    let P8 : Parser := { width := 16, radix := 16, labels := [] }
    let r1 := doLoad monReply dev16 P16 [1, 2, 3, 4, 5] ["top".toList] 0 (monMem 32 fun _ => 0)
    let r2 := doLoad monReply dev16 P16 [] ["10".toList] 0 (monMem 32 fun _ => 0)
    let r3 := doLoad monReply dev8 P8 ((List.range 40).map fun (i : Nat) => (i : Int)) ["fff0".toList] 0 (monMem 16 fun _ => 0)
    (r1.1, [0x3fffd, 0x3fffe, 0x3ffff, 0].map r1.2.subject) = (.wrote 2 0xfffffffe 0xffffffff, [0, 0x102, 0x304, 0]) ∧
    r2.1 = .wrote 0 0x10 0xf ∧
    (r3.1, [0xffef, 0xfff0, 0xffff, 0].map r3.2.subject) = (.wrote 16 0xfff0 0xffff, [0, 0, 15, 0]) := by
  decide +kernel

/-- `load_rejects`: when the start address cannot be computed (too wide, unknown label, too many
arguments) the command ends with that report and the memory object is exactly as it was. -/
theorem load_rejects (reply : Reply) (d : Dev) (P : Parser) (m : OM) (file : List Int) (rest : List Str)
    (pc : Int) :
    (∀ e, loadStart d P file rest pc = .inl e → doLoad reply d P file rest pc m = (e, m)) ∧
    (∀ t, t ≠ "top".toList → numberL P t = .overflow → doLoad reply d P file [t] pc m = (.overflow, m)) := by
  refine ⟨fun e he => by simp only [doLoad, he], ?_⟩
  intro t ht ho
  have ht' : ¬ t = ['t', 'o', 'p'] := by
    have : "top".toList = ['t', 'o', 'p'] := by decide
    rw [this] at ht; exact ht
  simp only [doLoad, loadStart, ht', if_false, ho, Out.ofRes]

example :
    let P8 : Parser := { width := 16, radix := 16, labels := [] }
    doLoad monReply dev8 P8 [1, 2] ["10000".toList] 0 (monMem 16 fun _ => 7) = (.overflow, monMem 16 fun _ => 7) ∧
    (doLoad monReply dev8 P8 [1, 2] ["1".toList, "2".toList] 0 (monMem 16 fun _ => 7)).1 = .syntaxError := by
  constructor
  · exact (load_rejects monReply dev8 _ _ [1, 2] ["10000".toList] 0).2 _ (by decide) (by decide +kernel)
  · decide +kernel

/-- `save_exact`: `save` of tokens spelling `a ≤ b` (any addresses of the device, also at and above
the physical size of the 65Org16, also ending at the top of the address space) writes exactly
the values a read of `a, a+1, …, b` returns, in order, each as `BW/8` octets most significant
first, and reports their number `b + 1 - a`; the cells themselves are untouched; where no read
subscriber sits in the range (every range without the getc register) those values are the
physical cells of the addresses and the memory object is unchanged altogether. -/
theorem save_exact (reply : Reply) (d : Dev) (P : Parser) (m : OM) (s e : Str) (a b : Int)
    (hs : numberL P s = .ok a) (he : numberL P e = .ok b) (hab : a ≤ b) :
    let rd := getMany reply (addrRange a b) m
    doSave reply d P [s, e] m = (.saved rd.1.length (rd.1.flatMap (octets d)), rd.2) ∧
    (rd.1.length : Int) = b + 1 - a ∧ rd.2.subject = m.subject ∧ SameShape m rd.2 ∧
    (WF m → NoReadSubs m a b →
      rd.1 = (addrRange a b).map (fun x => m.subject (phys m.physMask x)) ∧ rd.2 = m) ∧
    (∀ v, octets dev16 v = [v / 256 % 256, v % 256]) ∧ (∀ v, 0 ≤ v → v < 256 → octets dev8 v = [v]) := by
  intro rd
  have hrange : pyRange a (b + 1) 1 = addrRange a b := by
    rw [pyRange_one]; congr 1; omega
  refine ⟨?_, ?_, getMany_subject _ _ _, getMany_shape _ _ _, ?_, octets_dev16, octets_dev8⟩
  · simp only [doSave, hs, he, hrange]
    rfl
  · rw [getMany_len]
    exact addrRange_length a b (by omega)
  · intro hw hn
    apply getMany_noSubs reply _ m hw
    intro x hx
    have := mem_addrRange hx
    exact hn x this.1 this.2

/-- `save_load_roundtrip`: the file `save a b` wrote from memory `m`, loaded at `a` into ANY memory
`m2` of the same physical size (e.g. `m` after arbitrary clobbering), puts back exactly the saved
values into the cells of `a … b` and touches no other cell.
What it needs, precisely: the range is not longer than the physical memory (`b - a ≤ physMask`:
its addresses then hit pairwise different cells; always true on the 6502/65C02, on the 65Org16
it excludes only ranges of more than 2^18 cells, which alias onto themselves) and the saved
values are bytes of the device (`hvals`; true of cells).  No restriction on where the range lies:
at or above the physical size and ending at the top of the address space included. -/
theorem save_load_roundtrip (reply : Reply) (d : Dev) (P : Parser) (m m2 : OM) (s e t : Str) (a b pc : Int)
    (hd : d = dev8 ∨ d = dev16) (hwf : P.WF) (hP : P.maxaddr = d.addrMask)
    (hw : WF m) (hw2 : WF m2) (hq2 : WQuiet reply m2) (hpm : m2.physMask = m.physMask)
    (hs : numberL P s = .ok a) (he : numberL P e = .ok b) (ht : numberL P t = .ok a) (htop : t ≠ "top".toList)
    (hab : a ≤ b) (hwin : b - a ≤ m.physMask)
    (hvals : ∀ v ∈ (getMany reply (addrRange a b) m).1, 0 ≤ v ∧ v ≤ d.byteMask) :
    let vals := (getMany reply (addrRange a b) m).1
    ∃ file, (doSave reply d P [s, e] m).1 = .saved vals.length file ∧
      let res := doLoad reply d P file [t] pc m2
      res.1 = .wrote (b - a + 1) a b ∧
      (∀ i : Nat, a + i ≤ b → res.2.subject (phys m.physMask (a + i)) = vals.getD i 0) ∧
      (∀ k, (∀ i : Nat, a + i ≤ b → phys m.physMask (a + i) ≠ k) → res.2.subject k = m2.subject k) ∧
      (NoReadSubs m a b → ∀ i : Nat, a + i ≤ b →
        res.2.subject (phys m.physMask (a + i)) = m.subject (phys m.physMask (a + i))) := by
  intro vals
  obtain ⟨s1, s2, _, _, s5, _, _⟩ := save_exact reply d P m s e a b hs he hab
  refine ⟨vals.flatMap (octets d), by rw [s1], ?_⟩
  intro res
  have h0 : 0 ≤ a := (numberL_bounded hwf hs).1
  have hb2 : b ≤ d.addrMask := by rw [← hP]; exact (numberL_bounded hwf he).2
  have hdata : loadData d (vals.flatMap (octets d)) = vals := loadData_octets d hd vals hvals
  have hstart : loadStart d P (vals.flatMap (octets d)) [t] pc = .inr a :=
    load_data_spec.2.2.2.2 d P _ pc t a htop ht
  have hlen : (vals.length : Int) = b + 1 - a := s2
  have hstop : fillStop d a a vals.length = b := by
    simp only [fillStop, if_true]
    split_ifs <;> omega
  obtain ⟨l1, l2, l3, l4, _⟩ := load_exact reply d P m2 (vals.flatMap (octets d)) [t] pc a hw2 hq2 hstart h0
    (by omega) (by rw [hdata]; exact hvals) (by rw [hdata, hstop, hpm]; omega)
  rw [hdata, hstop, hpm] at l3 l4
  rw [hdata, hstop] at l2
  refine ⟨l2, l3, l4, ?_⟩
  intro hn i hi
  rw [l3 i hi]
  have hv : vals = (addrRange a b).map (fun x => m.subject (phys m.physMask x)) := (s5 hw hn).1
  have hi' : i < (b + 1 - a).toNat := by have := Int.natCast_nonneg i; omega
  rw [hv]
  simp only [addrRange, List.map_map]
  rw [List.getD_eq_getElem _ _ (by simpa using hi')]
  simp

/-- non-vacuity: save $10..$12 of a memory holding `k mod 251`, load the file into an all-zero
memory: the three cells come back, the neighbours stay 0.  And on the 65Org16 `save 3fffe 40001`
-- across the physical top -- writes all four cells (98, 99, then the aliases of cells 0 and 1),
`save 40000 40003` the cells 0..3: what `mem` prints for the same ranges. -/
example :
    let P8 : Parser := { width := 16, radix := 16, labels := [] }
    let P16 : Parser := { width := 32, radix := 16, labels := [] }
    let m := monMem 16 fun k => k % 251
    let sv := doSave monReply dev8 P8 ["10".toList, "12".toList] m
    let ld := doLoad monReply dev8 P8 [16, 17, 18] ["10".toList] 0 (monMem 16 fun _ => 0)
    sv.1 = .saved 3 [16, 17, 18] ∧ [0xf, 0x10, 0x11, 0x12, 0x13].map ld.2.subject = [0, 16, 17, 18, 0] ∧
    (doSave monReply dev16 P16 ["3fffe".toList, "40001".toList] (monMem 32 fun k => k % 251)).1 =
      .saved 4 [0, 98, 0, 99, 0, 0, 0, 1] ∧
    (doSave monReply dev16 P16 ["40000".toList, "40003".toList] (monMem 32 fun k => k % 251)).1 =
      .saved 4 [0, 0, 0, 1, 0, 2, 0, 3] := by
  decide +kernel

/-- `mem_exact`: for EVERY width setting (in particular every width ≥ 10 the `width` command
accepts), `mem` of a range token spelling `a ≤ b` prints lines that, read back (`int(x, 16)` of
the text before the colon and of every blank-separated word after it), give groups whose bytes,
concatenated in order, are exactly the values a read of `a, a+1, …, b` returns (`b + 1 - a` of
them, nothing dropped or repeated at a line break), every line labelled with the address of its
first byte; the cells are untouched.  (Values are assumed non-negative: they are cells or getc.) -/
theorem mem_exact (reply : Reply) (d : Dev) (P : Parser) (m : OM) (width : Nat) (r : Str) (a b : Int)
    (hwf : P.WF) (hr : rangeL P r = .ok a b)
    (hvals : ∀ v ∈ (getMany reply (addrRange a b) m).1, 0 ≤ v) :
    let rd := getMany reply (addrRange a b) m
    ∃ groups : List (Int × List Int),
      doMem reply d P width [r] m = (.lines (groups.map fun g => mkLine d g.1 g.2), rd.2) ∧
      parseMem (groups.map fun g => mkLine d g.1 g.2) = some groups ∧
      groups.flatMap (·.2) = rd.1 ∧ (rd.1.length : Int) = b + 1 - a ∧
      GroupsFrom a groups ∧ rd.2.subject = m.subject := by
  intro rd
  obtain ⟨hab, h0, _⟩ := rangeL_ordered hwf hr
  have hrange : pyRange a (b + 1) 1 = addrRange a b := by
    rw [pyRange_one]; congr 1; omega
  have hlen : (addrRange a b).length = rd.1.length := (getMany_len reply _ m).symm
  have hitems : ItemsFrom (a + (([] : List Int).length : Int)) ((addrRange a b).zip rd.1) := by
    simp only [List.length_nil, Nat.cast_zero, Int.add_zero]
    exact itemsFrom_zip _ a b rd.1 rfl
  have hsnd : ((addrRange a b).zip rd.1).map (·.2) = rd.1 := zip_map_snd _ _ hlen
  obtain ⟨groups, g1, g2, g3, g4⟩ := memLoop_spec d width ((addrRange a b).zip rd.1) a [] hitems h0
    (by simp) (by
      intro it hit
      have : it.2 ∈ ((addrRange a b).zip rd.1).map (·.2) := List.mem_map_of_mem hit
      rw [hsnd] at this
      exact hvals _ this)
  refine ⟨groups, ?_, parseMem_lines d groups g4, by rw [g2, hsnd]; rfl, ?_, g3, getMany_subject _ _ _⟩
  · have hline : fmtHexInt d.addrFmtW a ++ [':'] = mkLine d a [] := by simp [mkLine]
    simp only [doMem, hr, hrange, hline]
    rw [g1]
  · rw [getMany_len]; exact addrRange_length a b (by omega)

/-- `mem_reads_cells`: where no read subscriber sits in the range (every range that avoids the getc
register) the values `mem` prints are the physical cells of `a … b`, and the memory object -- call
log included -- is unchanged. -/
theorem mem_reads_cells (reply : Reply) (m : OM) (a b : Int) (hw : WF m) (hn : NoReadSubs m a b) :
    (getMany reply (addrRange a b) m).1 = (addrRange a b).map (fun x => m.subject (phys m.physMask x)) ∧
    (getMany reply (addrRange a b) m).2 = m := by
  apply getMany_noSubs reply _ m hw
  intro x hx
  have := mem_addrRange hx
  exact hn x this.1 this.2

/-- non-vacuity (probes): the 65Org16 at width 10 prints an address-only first line and then one
word per line; the 6502 at width 10 one byte per line; `mem f003:f005` shows 00 for the getc
register whatever its cell holds; and the printed text reads back. -/
example :
    let P16 : Parser := { width := 32, radix := 16, labels := [] }
    let P8 : Parser := { width := 16, radix := 16, labels := [] }
    (doMem monReply dev16 P16 10 ["0:1".toList] (monMem 32 fun k => k + 256)).1 =
      .lines ["00000000:".toList, "00000000:  0100".toList, "00000001:  0101".toList] ∧
    (doMem monReply dev8 P8 10 ["0:1".toList] (monMem 16 fun k => k + 1)).1 =
      .lines ["0000:  01".toList, "0001:  02".toList] ∧
    (doMem monReply dev8 P8 78 ["f003:f005".toList] (monMem 16 fun _ => 0x55)).1 =
      .lines ["f003:  55  00  55".toList] ∧
    parseMem ["00000000:".toList, "00000000:  0100".toList, "00000001:  0101".toList] =
      some [(0, []), (0, [0x100]), (1, [0x101])] := by
  intro P16 P8
  refine ⟨?_, ?_, ?_, by decide +kernel⟩
  · have hr : rangeL P16 "0:1".toList = .ok 0 1 := by decide +kernel
    have ha : pyRange 0 (1 + 1) 1 = [0, 1] := by decide +kernel
    have hg : (getMany monReply [0, 1] (monMem 32 fun k => k + 256)).1 = [256, 257] := by decide +kernel
    simp only [doMem, hr, ha, hg]
    simp [memLoop, dev16, fmtHexInt, fmtHexL, rjustL, toDigits, digitChar]
  · have hr : rangeL P8 "0:1".toList = .ok 0 1 := by decide +kernel
    have ha : pyRange 0 (1 + 1) 1 = [0, 1] := by decide +kernel
    have hg : (getMany monReply [0, 1] (monMem 16 fun k => k + 1)).1 = [1, 2] := by decide +kernel
    simp only [doMem, hr, ha, hg]
    simp [memLoop, dev8, fmtHexInt, fmtHexL, rjustL, toDigits, digitChar]
  · have hr : rangeL P8 "f003:f005".toList = .ok 0xf003 0xf005 := by decide +kernel
    have ha : pyRange 0xf003 (0xf005 + 1) 1 = [0xf003, 0xf004, 0xf005] := by decide +kernel
    have hg : (getMany monReply [0xf003, 0xf004, 0xf005] (monMem 16 fun _ => 0x55)).1 = [0x55, 0, 0x55] := by
      decide +kernel
    simp only [doMem, hr, ha, hg]
    simp [memLoop, dev8, fmtHexInt, fmtHexL, rjustL, toDigits, digitChar]

/-- non-vacuity of `mem_exact` itself on the monitor's memory object (hypotheses satisfiable). -/
example : ∃ groups : List (Int × List Int),
    parseMem (groups.map fun g => mkLine dev8 g.1 g.2) = some groups ∧
    groups.flatMap (·.2) = [0x55, 0, 0x55] ∧ GroupsFrom 0xf003 groups := by
  have hwf : ({ width := 16, radix := 16, labels := [] } : Parser).WF := by
    intro k v h; simp [lookup] at h
  have hg : (getMany monReply (addrRange 0xf003 0xf005) (monMem 16 fun _ => 0x55)).1 = [0x55, 0, 0x55] := by
    decide +kernel
  obtain ⟨groups, _, g2, g3, _, g5, _⟩ := mem_exact monReply dev8 _ (monMem 16 fun _ => 0x55) 20
    "f003:f005".toList 0xf003 0xf005 hwf (by decide +kernel) (by rw [hg]; decide)
  exact ⟨groups, g2, by rw [g3, hg], g5⟩

end Py65.Props.C16
