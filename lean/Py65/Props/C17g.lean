/-
C17g -- C17's theorems restated for the GENERATED run control and breakpoint commands.

`Py65.Gen.MonRunGen._run / do_goto / do_return / do_step / do_add_breakpoint /
do_delete_breakpoint / do_show_breakpoints` are regenerated from `/repo/py65/monitor.py` by
`harness/py2lean_mon.py` on every run of the C17 check (the two `while True:` loops with `break`,
`set(self._breakpoints)` with its `None` entries, `self._breakpoints.index(pc)`, the stop-code
lists `[0x60, 0x40]` / `[0x00]`, append / `None` tombstones / the range check);
`Py65/Proofs/MonRunGenEq.lean` proves each equal to the hand model `Py65.Model.MonRun`.
Below, the theorems of `Py65.Props.C17` with the generated methods in place of the model's
(property statements only; reading guide in C17.lean).

`σ : RunSt` is what these methods can touch: the device `σ.mpu : St`, the list
`σ.breakpoints`, the lines printed.  `step` is ANY function (in particular the generated device
steps), `dis` whatever `do_disassemble` prints (it only reads), `P` the monitor's address parser.
A generated method ends as `.ok () σ'` (returned), `.raise e σ'` (an exception left it; `onecmd`
catches it and goes on with `σ'`) or `.nofuel` (the Python loop is unbounded; `fuel` bounds the
generated one, one unit per `mpu.step()`).
What remains modelled: the device step (`step`; the generated CPU model elsewhere), `shlex.split`,
`int()`, the address parser (C15), `%`-conversions, list `append` / `index` / `in`.
-/
import Py65.Props.C17
import Py65.Proofs.MonRunGenEq

namespace Py65.Props.C17g
open Py65 Py65.Model.PyStr Py65.Model.AddrParser Py65.Model.MonMem Py65.Model.MonRun Py65.Model.MonGenRt
open Py65.Gen Py65.Proofs.MonRunGenEq

/-- `run_is_iterate` for the generated `_run`: if it returns, then for some `n ≥ 1` (`≤ fuel`) the
device is exactly `step^[n]` of where it started -- what stepping the bare device `n` times gives --,
the stop condition (the cell at PC is a stop code, or PC is an active breakpoint) holds there and
held after no earlier `0 < m < n` steps; the breakpoint list is untouched; "Breakpoint k reached."
is printed iff the stop was not a stop code, with `k` the first position of PC in the list; and
`_run` never raises. -/
theorem run_is_iterate (step : St → St) (dis : Str → St → List Str) (d : Dev) (P : Parser) (fuel : Nat)
    (codes : List Int) (σ : RunSt) :
    (∀ e σ', MonRunGen._run step dis d P fuel codes σ ≠ .raise e σ') ∧
    ∀ σ', MonRunGen._run step dis d P fuel codes σ = .ok () σ' →
      ∃ n, 1 ≤ n ∧ n ≤ fuel ∧ σ'.mpu = step^[n] σ.mpu ∧ σ'.breakpoints = σ.breakpoints ∧
        (atStopcode codes σ'.mpu = true ∨ atBreakpoint σ.breakpoints σ'.mpu = true) ∧
        (∀ m, 0 < m → m < n →
          atStopcode codes (step^[m] σ.mpu) = false ∧ atBreakpoint σ.breakpoints (step^[m] σ.mpu) = false) ∧
        σ'.out = σ.out ++
          (if atStopcode codes σ'.mpu then []
           else ["Breakpoint ".toList ++ pyFmtD (indexOf σ.breakpoints σ'.mpu.pc : Nat) ++ " reached.".toList]) := by
  rw [run_eq]
  cases hr : run step codes σ.breakpoints fuel σ.mpu with
  | none => exact ⟨fun e σ' h => by simp [runFlow] at h, fun σ' h => by simp [runFlow] at h⟩
  | some r =>
    refine ⟨fun e σ' h => by simp [runFlow] at h, fun σ' h => ?_⟩
    obtain ⟨h1, h2, h3, h4, h5, h6⟩ := C17.run_is_iterate step codes σ.breakpoints fuel σ.mpu r hr
    simp only [runFlow, Flow.ok.injEq, true_and] at h
    subst h
    refine ⟨r.steps, h1, h2, h3, rfl, h4, h5, ?_⟩
    simp only [h6]
    cases atStopcode codes r.st <;> simp [hitLines]

/-- non-vacuity: counting device over a memory holding BRK (0) only at address 5; breakpoints
`[None, $3]`: the generated `_run([0])` from PC = 1 stops at PC = 3 and prints one line; with both
slots deleted it runs on to the BRK at 5 and prints nothing. -/
example :
    let step : St → St := fun s => { s with pc := s.pc + 1, cycles := s.cycles + 2 }
    let s0 : St := { (default : St) with pc := 1, mem := fun k => if k = 5 then 0 else 0xea }
    let d : Dev := dev8
    let P : Parser := { width := 16, radix := 16, labels := [] }
    let obs := fun (r : Flow RunSt Unit) =>
      match r with
      | .ok _ s => some (s.mpu.pc, s.mpu.cycles, s.out.length)
      | _ => none
    obs (MonRunGen._run step (fun _ _ => []) d P 20 [0] { mpu := s0, breakpoints := [none, some 3], out := [] }) =
      some (3, 4, 1) ∧
    obs (MonRunGen._run step (fun _ _ => []) d P 20 [0] { mpu := s0, breakpoints := [none, none], out := [] }) =
      some (5, 8, 0) := by
  decide +kernel

/-- `run_complete` for the generated `_run`: if after `n ≥ 1` steps the stop condition holds for
the first time, the generated `_run` returns exactly there, for every fuel `≥ n`. -/
theorem run_complete (step : St → St) (dis : Str → St → List Str) (d : Dev) (P : Parser) (fuel : Nat)
    (codes : List Int) (σ : RunSt) (n : Nat) (h1 : 1 ≤ n) (h2 : n ≤ fuel)
    (hstop : stopBp codes σ.breakpoints (step^[n] σ.mpu) = true)
    (hfirst : ∀ m, 0 < m → m < n → stopBp codes σ.breakpoints (step^[m] σ.mpu) = false) :
    ∃ σ', MonRunGen._run step dis d P fuel codes σ = .ok () σ' ∧ σ'.mpu = step^[n] σ.mpu ∧
      σ'.breakpoints = σ.breakpoints := by
  obtain ⟨r, hr, _, hst⟩ := C17.run_complete step codes σ.breakpoints fuel σ.mpu n h1 h2 hstop hfirst
  rw [run_eq, hr]
  exact ⟨_, rfl, hst, rfl⟩

example : stopBp [0] [] ((fun s : St => { s with pc := s.pc + 1 })^[1] (default : St)) = true := by decide

/-- `commands_are_runs` for the generated commands: `goto <a>` (an argument the address parser reads
as `a`) is `_run([BRK])` from the same state with PC set to `a`; `return` is `_run([RTS, RTI])`;
`step` is exactly one `mpu.step()` followed by the (read-only) disassembly line of the new PC; an
empty `goto` prints the usage text and a refused address raises the parser's exception -- both leave
device and breakpoints untouched. -/
theorem commands_are_runs (step : St → St) (dis : Str → St → List Str) (d : Dev) (P : Parser) (fuel : Nat)
    (args : Str) (σ : RunSt) :
    (∀ a, args ≠ [] → numberL P args = .ok a →
      MonRunGen.do_goto step dis d P fuel args σ =
        MonRunGen._run step dis d P fuel [0x00]
          { mpu := { σ.mpu with pc := a }, breakpoints := σ.breakpoints, out := σ.out }) ∧
    (args = [] → ∃ σ', MonRunGen.do_goto step dis d P fuel args σ = .ok () σ' ∧ σ'.mpu = σ.mpu ∧
      σ'.breakpoints = σ.breakpoints) ∧
    (args ≠ [] → (∀ a, numberL P args ≠ .ok a) →
      ∃ e, MonRunGen.do_goto step dis d P fuel args σ = .raise e σ) ∧
    MonRunGen.do_return step dis d P fuel args σ = MonRunGen._run step dis d P fuel [0x60, 0x40] σ ∧
    (∃ σ', MonRunGen.do_step step dis d P args σ = .ok () σ' ∧ σ'.mpu = step^[1] σ.mpu ∧
      σ'.breakpoints = σ.breakpoints ∧
      σ'.out = σ.out ++ dis ("$".toList ++ fmtHexInt d.addrFmtW (step σ.mpu).pc) (step σ.mpu)) := by
  refine ⟨?_, ?_, ?_, ?_, ?_⟩
  · intro a hne hn
    rw [do_goto_eq, run_eq]
    simp only [hne, if_false, hn, goto]
    rfl
  · intro he
    rw [do_goto_eq]
    simp only [he, if_true]
    exact ⟨_, rfl, rfl, rfl⟩
  · intro hne hno
    rw [do_goto_eq]
    simp only [hne, if_false]
    cases hn : numberL P args with
    | ok a => exact absurd hn (hno a)
    | key => exact ⟨_, rfl⟩
    | overflow => exact ⟨_, rfl⟩
    | other => exact ⟨_, rfl⟩
  · rw [do_return_eq, run_eq]; rfl
  · rw [do_step_eq]
    exact ⟨_, rfl, rfl, rfl, rfl⟩

/-- non-vacuity: `goto 1` on the counting device with breakpoint 1 at $3 (number 0 deleted). -/
example :
    let step : St → St := fun s => { s with pc := s.pc + 1 }
    let s0 : St := { (default : St) with mem := fun k => if k = 5 then 0 else 0xea }
    let P : Parser := { width := 16, radix := 16, labels := [] }
    (match MonRunGen.do_goto step (fun _ _ => []) dev8 P 20 "1".toList
        { mpu := s0, breakpoints := [none, some 3], out := [] } with
     | .ok _ s => some (s.mpu.pc, s.out.length)
     | _ => none) = some (3, 1) := by
  decide +kernel

/-- `run_variants_agree` for the generated `_run`: with no ACTIVE breakpoint (the list is empty or
holds only deleted slots) the two loops of `_run` compute the same: the run from a state with the
list `bps` ends exactly as the run with the empty list, apart from the list itself. -/
theorem run_variants_agree (step : St → St) (dis : Str → St → List Str) (d : Dev) (P : Parser) (fuel : Nat)
    (codes : List Int) (σ : RunSt) (hno : ∀ b ∈ σ.breakpoints, b = none) :
    (∀ σ', MonRunGen._run step dis d P fuel codes σ = .ok () σ' →
      MonRunGen._run step dis d P fuel codes { mpu := σ.mpu, breakpoints := [], out := σ.out } =
        .ok () { mpu := σ'.mpu, breakpoints := [], out := σ'.out } ∧ σ'.out = σ.out) ∧
    (MonRunGen._run step dis d P fuel codes σ = .nofuel ↔
      MonRunGen._run step dis d P fuel codes { mpu := σ.mpu, breakpoints := [], out := σ.out } = .nofuel) := by
  obtain ⟨_, _, _, _, hagree⟩ := C17.run_variants_agree step codes σ.breakpoints fuel σ.mpu hno
  rw [run_eq, run_eq]
  simp only
  cases h1 : run step codes σ.breakpoints fuel σ.mpu with
  | none =>
    cases h2 : run step codes [] fuel σ.mpu with
    | none => simp [runFlow]
    | some r' =>
      exfalso
      have h := (C17.run_variants_agree step codes σ.breakpoints fuel σ.mpu hno).2.2.2.1
      rw [h1, h2] at h
      simp at h
  | some r =>
    cases h2 : run step codes [] fuel σ.mpu with
    | none =>
      exfalso
      have h := (C17.run_variants_agree step codes σ.breakpoints fuel σ.mpu hno).2.2.2.1
      rw [h1, h2] at h
      simp at h
    | some r' =>
      obtain ⟨_, hst, hhit⟩ := hagree r r' h1 h2
      have hn : r'.hit = none := by
        obtain ⟨_, _, _, _, _, h6⟩ := C17.run_is_iterate step codes [] fuel σ.mpu r' h2
        obtain ⟨_, _, _, h4, _, _⟩ := C17.run_is_iterate step codes [] fuel σ.mpu r' h2
        rw [h6]
        rcases h4 with h4 | h4
        · simp [h4]
        · simp [atBreakpoint] at h4
      refine ⟨fun σ' h => ?_, by simp [runFlow]⟩
      simp only [runFlow, Flow.ok.injEq, true_and] at h
      subst h
      simp [runFlow, hst, hhit, hn, hitLines]

example : ∀ b ∈ ([none, none] : List (Option Int)), b = none := by decide

/-- `bp_numbers_fresh` for the generated commands: run ANY history of `add_breakpoint` /
`delete_breakpoint` command lines -- each one token spelling an address / a decimal number; adds of
present addresses, deletes of deleted, negative, out-of-range numbers included -- through the
GENERATED methods from the empty list (an exception is absorbed by `onecmd`: the session goes on
with the state at the raise).  Then the final list and the printed lines are those of the commands
`h` the lines spell (`runBps`), the device is untouched, and with `adds` = the `(number, address)`
pairs of the "Breakpoint n added" messages in order: the `j`-th successful add was given number
`j`; the list is as long as the number of successful adds; slot `j` holds the address of add `j` or
`None`; no address is active twice, so for every active slot `i ↦ a` the number "Breakpoint %d
reached." would print is `i`. -/
theorem bp_numbers_fresh (step : St → St) (dis : Str → St → List Str) (d : Dev) (P : Parser)
    (lines : List BpLine) (h : List BpCmd) (hsp : List.Forall₂ (Spells P) lines h) (σ : RunSt)
    (h0 : σ.breakpoints = []) :
    let σ' := genBpHistory step dis d P σ lines
    let r := runBps [] h
    let adds := addsOf r.1
    σ'.mpu = σ.mpu ∧ σ'.breakpoints = r.2 ∧
    σ'.out = σ.out ++ r.1.flatMap (fun o => (bpText o).toList) ∧
    (∀ j (hj : j < adds.length), (adds[j]).1 = j) ∧
    σ'.breakpoints.length = adds.length ∧
    (∀ j (hj : j < adds.length), σ'.breakpoints[j]? = some (some (adds[j]).2) ∨ σ'.breakpoints[j]? = some none) ∧
    ActiveNodup σ'.breakpoints ∧
    (∀ (i : Nat) (a : Int), σ'.breakpoints[i]? = some (some a) → indexOf σ'.breakpoints a = i ∧
      ∃ hi : i < adds.length, adds[i] = (i, a)) := by
  intro σ' r adds
  have heq := genBpHistory_eq step dis d P lines h σ hsp
  rw [h0] at heq
  have hb : σ'.breakpoints = r.2 := by simp only [σ', heq, r]
  obtain ⟨c1, c2, c3, c4, c5⟩ := C17.bp_numbers_fresh h
  refine ⟨by simp only [σ', heq], hb, by simp only [σ', heq, r], c1, ?_, ?_, ?_, ?_⟩
  · rw [hb]; exact c2
  · rw [hb]; exact c3
  · rw [hb]; exact c4
  · rw [hb]; exact c5

/-- non-vacuity (the probe of C17, as command lines through the generated methods): add $10, add
$20, add $10 again (refused), delete 0, add $10 (gets the NEW number 2), delete 3 (`IndexError`),
delete 4 and delete -1 (`TypeError`), delete 0 again: the list ends as `[None, $20, $10]`; seven
commands printed a line. -/
example :
    let P : Parser := { width := 16, radix := 16, labels := [] }
    let σ' := genBpHistory id (fun _ _ => []) dev8 P { mpu := default, breakpoints := [], out := [] }
      [.add "10".toList, .add "$20".toList, .add "0010".toList, .del "0".toList, .add "10".toList,
       .del "3".toList, .del "4".toList, .del "-1".toList, .del "0".toList]
    σ'.breakpoints = [none, some 0x20, some 0x10] ∧ σ'.out.length = 6 := by
  decide +kernel

/-- `delete_bad_number_unchanged` for the generated `do_delete_breakpoint`: a number `< 0` or
`≥ len` (the off-by-one included) makes the command raise -- `TypeError` or `IndexError` -- and the
state at the raise is the state before: list, device and output untouched. -/
theorem delete_bad_number_unchanged (step : St → St) (dis : Str → St → List Str) (d : Dev) (P : Parser)
    (args tok : Str) (k : Int) (σ : RunSt)
    (h1 : Py65.Model.MonCmd.shlexSplit args = some [tok]) (h2 : pyIntL tok 10 = some k)
    (h : k < 0 ∨ k ≥ σ.breakpoints.length) :
    MonRunGen.do_delete_breakpoint step dis d P args σ = .raise .TypeError σ ∨
    MonRunGen.do_delete_breakpoint step dis d P args σ = .raise .IndexError σ := by
  obtain ⟨hl, hk⟩ := C17.delete_bad_number_unchanged σ.breakpoints k h
  rw [do_delete_breakpoint_eq, h1]
  simp only [h2]
  have hpair : delBp σ.breakpoints k = ((delBp σ.breakpoints k).1, σ.breakpoints) :=
    Prod.ext rfl hl
  rw [hpair]
  rcases hk with hk | hk
  · left; simp only [bpFlow, hk, bpText, bpExc]
  · right; simp only [bpFlow, hk, bpText, bpExc]

example : Py65.Model.MonCmd.shlexSplit "7".toList = some ["7".toList] ∧ pyIntL "7".toList 10 = some 7 := by
  decide +kernel

/-- `bp_deleted_inert` for the generated code: `delete_breakpoint k` on a slot holding `a` returns,
prints "Breakpoint k removed" and leaves the list with slot `k` set to `None`; afterwards `a` is
active nowhere, and whenever a generated `_run` from a state with that list ends with PC = `a`, it
ended because the cell at PC is a stop code, and nothing was printed. -/
theorem bp_deleted_inert (step : St → St) (dis : Str → St → List Str) (d : Dev) (P : Parser)
    (args tok : Str) (k : Nat) (a : Int) (σ : RunSt)
    (h1 : Py65.Model.MonCmd.shlexSplit args = some [tok]) (h2 : pyIntL tok 10 = some (k : Int))
    (hn : ActiveNodup σ.breakpoints) (hk : σ.breakpoints[k]? = some (some a)) :
    ∃ σ1, MonRunGen.do_delete_breakpoint step dis d P args σ = .ok () σ1 ∧
      σ1.mpu = σ.mpu ∧ σ1.breakpoints = σ.breakpoints.set k none ∧
      σ1.out = σ.out ++ ["Breakpoint ".toList ++ pyFmtD (k : Int) ++ " removed".toList] ∧
      (∀ i : Nat, σ1.breakpoints[i]? ≠ some (some a)) ∧
      ∀ fuel codes (σ2 σ3 : RunSt), σ2.breakpoints = σ1.breakpoints →
        MonRunGen._run step dis d P fuel codes σ2 = .ok () σ3 → σ3.mpu.pc = a →
        atStopcode codes σ3.mpu = true ∧ σ3.out = σ2.out := by
  obtain ⟨d1, d2, d3, _, _, _, d7⟩ := C17.bp_deleted_inert step [] σ.breakpoints k a hn hk
  have hdel : delBp σ.breakpoints k = (.removed k, σ.breakpoints.set k none) := by
    rw [Prod.ext_iff]; exact ⟨d1, d2⟩
  refine ⟨{ mpu := σ.mpu, breakpoints := σ.breakpoints.set k none,
            out := σ.out ++ ["Breakpoint ".toList ++ pyFmtD (k : Int) ++ " removed".toList] }, ?_, rfl, rfl, rfl, ?_, ?_⟩
  · rw [do_delete_breakpoint_eq, h1]
    simp only [h2, hdel, bpFlow, bpText]
  · intro i; simpa [d2] using d3 i
  · intro fuel codes σ2 σ3 hb hrun hpc
    rw [run_eq] at hrun
    cases hr : run step codes σ2.breakpoints fuel σ2.mpu with
    | none => simp [hr, runFlow] at hrun
    | some r =>
      simp only [hr, runFlow, Flow.ok.injEq, true_and] at hrun
      subst hrun
      have hb' : σ2.breakpoints = (delBp σ.breakpoints k).2 := by rw [hb, hdel]
      rw [hb'] at hr
      obtain ⟨e1, e2⟩ := (C17.bp_deleted_inert step codes σ.breakpoints k a hn hk).2.2.2.2.2.2 fuel σ2.mpu r hr hpc
      exact ⟨e1, by simp [e2, hitLines]⟩

/-- non-vacuity: breakpoint 0 at $3 deleted from `[$3, $7]` by the generated command; counting
device, BRK only at 5: `goto 1` then passes $3 and stops at the BRK. -/
example :
    let step : St → St := fun s => { s with pc := s.pc + 1 }
    let s0 : St := { (default : St) with mem := fun k => if k = 5 then 0 else 0xea }
    let P : Parser := { width := 16, radix := 16, labels := [] }
    let σ1 := stateAfter { mpu := s0, breakpoints := [], out := [] }
      (MonRunGen.do_delete_breakpoint step (fun _ _ => []) dev8 P "0".toList
        { mpu := s0, breakpoints := [some 3, some 7], out := [] })
    σ1.breakpoints = [none, some 7] ∧
    (match MonRunGen.do_goto step (fun _ _ => []) dev8 P 20 "1".toList σ1 with
     | .ok _ s => some (s.mpu.pc, s.out.length)
     | _ => none) = some (5, 1) := by
  decide +kernel

/-- `do_show_breakpoints` for the generated code: exactly the slots that are not `None`, with their
numbers, in order -- "Breakpoint i: $AAAA" plus the first label bound to the address, if any. -/
theorem show_breakpoints_lists_active (step : St → St) (dis : Str → St → List Str) (d : Dev) (P : Parser)
    (args : Str) (σ : RunSt) :
    MonRunGen.do_show_breakpoints step dis d P args σ =
      .ok () { mpu := σ.mpu, breakpoints := σ.breakpoints,
               out := σ.out ++ (showBps σ.breakpoints).map (showLine P) } ∧
    (∀ i a, (i, a) ∈ showBps σ.breakpoints ↔ σ.breakpoints[i]? = some (some a)) := by
  refine ⟨do_show_breakpoints_eq step dis d P args σ, ?_⟩
  intro i a
  simp only [showBps, List.mem_filterMap, List.mem_zipIdx_iff_getElem?, Prod.exists]
  constructor
  · rintro ⟨x, j, hx, hm⟩
    cases x with
    | none => simp at hm
    | some v =>
      simp only [Option.map_some, Option.some.injEq, Prod.mk.injEq] at hm
      obtain ⟨rfl, rfl⟩ := hm
      simpa using hx
  · intro h
    exact ⟨some a, i, by simpa using h, rfl⟩

example : showBps [none, some 0x20, some 0x10] = [(1, 0x20), (2, 0x10)] := by decide

end Py65.Props.C17g
