/-
C15g -- the C15 property theorems (address parsing is exact, bounded and fails only with
KeyError/OverflowError) restated for the definitions GENERATED from the current
`py65/utils/addressing.py` by `harness/py2lean_addr.py` (`Py65.Gen.AddrParserGen`).

Property statements only.  Each is obtained from its namesake in `Py65/Props/C15.lean` (about the
hand model) by rewriting with the equalities of `Py65/Proofs/AddrParserGenEq.lean`
(`number_eq`, `range_eq`, `constrain_eq`, `init_eq`, `label_for_eq`, `address_for_eq`), so a change
of the source that changes what the translation computes breaks that equality and with it every
theorem here.  Reading aids:

  * `self : Self` is the generated object (fields `radix`, `_maxwidth`, `_maxaddr`, `labels`);
    `MaxaddrInv self` is `self._maxaddr = 2 ^ self._maxwidth - 1`, established by `_set_maxwidth` (the only
    writer of the two attributes) and by `__init__` (`parser_wf`); `WF self` = every label value is
    in range (what `__init__` and the monitor store);
  * the generated functions work on `Str = List Char`; results are `Except Exc _`:
    `.ok v` = returned `v`, `.error .keyError` = raised `KeyError`, `.error .overflowError` = raised
    `OverflowError`;
  * `spelling b z m n` = `z` zeros followed by the base-`b` digits of `n`, letter cases chosen by `m`.

Beside each theorem a non-vacuity `example` (the objects `S16`/`S24`/`S32` are the generated
counterparts of C15's `P16`/`P24`/`P32`).
-/
import Py65.Props.C15
import Py65.Proofs.AddrParserGenEq

namespace Py65.Props.C15g
open Py65.Model Py65.Model.PyStr Py65.Model.AddrParser Py65.Model.PyRt Py65.Proofs.Num
open Py65.Proofs.AddrParserRep Py65.Proofs.AddrParserGenEq
open Py65.Gen
open Py65.Gen.AddrParserGen (Self)

/-! ### every supported spelling parses back to `n` -/

/-- `$hex`: any number of leading zeros, any letter case, any width. -/
theorem num_hex (self : Self) (hi : MaxaddrInv self) (n z : Nat) (m : List Bool) (hn : n < 2 ^ self._maxwidth) :
    AddrParserGen.number self ("$" ++ String.ofList (spelling 16 z m n)).toList = .ok n :=
  number_ok self hi (C15.num_hex (toParser self) n z m hn)

example : MaxaddrInv S16 ∧ 255 < 2 ^ S16._maxwidth := ⟨rfl, by decide⟩
example : AddrParserGen.number S16 "$00fF".toList = .ok 255 := number_ok S16 rfl (by decide)
example : AddrParserGen.number S32 "$0000ffffffff".toList = .ok 4294967295 := number_ok S32 rfl (by decide)

/-- `+decimal`; CPython refuses more than 4300 decimal digits (`num_dec_digit_limit`). -/
theorem num_dec (self : Self) (hi : MaxaddrInv self) (n z : Nat) (hn : n < 2 ^ self._maxwidth)
    (hlim : z + (toDigits 10 n).length ≤ 4300) :
    AddrParserGen.number self ("+" ++ String.ofList (spelling 10 z [] n)).toList = .ok n :=
  number_ok self hi (C15.num_dec (toParser self) n z hn hlim)

example : AddrParserGen.number S16 "+0065535".toList = .ok 65535 := number_ok S16 rfl (by decide)
example : ∃ n z, n < 2 ^ S32._maxwidth ∧ z + (toDigits 10 n).length ≤ 4300 :=
  ⟨4294967295, 4000, by decide, C15.num_dec_limit_ok _ _ 32 (by decide) (by decide) (by decide)⟩

/-- A decimal spelling with more than 4300 digits is a `KeyError` (CPython's digit limit). -/
theorem num_dec_digit_limit (self : Self) (hi : MaxaddrInv self) (n z : Nat)
    (hlim : 4300 < z + (toDigits 10 n).length) :
    AddrParserGen.number self ("+" ++ String.ofList (spelling 10 z [] n)).toList = .error .keyError :=
  number_key self hi (C15.num_dec_digit_limit (toParser self) n z hlim)

example : 4300 < 4300 + (toDigits 10 7).length := by
  have := toDigits_ne_nil 10 7
  have : 0 < (toDigits 10 7).length := List.length_pos_iff.mpr this
  omega

/-- `%binary` -/
theorem num_bin (self : Self) (hi : MaxaddrInv self) (n z : Nat) (hn : n < 2 ^ self._maxwidth) :
    AddrParserGen.number self ("%" ++ String.ofList (spelling 2 z [] n)).toList = .ok n :=
  number_ok self hi (C15.num_bin (toParser self) n z hn)

example : AddrParserGen.number S16 "%0001111111111111111".toList = .ok 65535 := number_ok S16 rfl (by decide)

/-- Bare digits in the default radix 16 / 10 / 8 / 2, when that digit string is not a label. -/
theorem num_bare (self : Self) (hi : MaxaddrInv self) (n z : Nat) (m : List Bool)
    (hr : self.radix = 16 ∨ self.radix = 10 ∨ self.radix = 8 ∨ self.radix = 2) (hn : n < 2 ^ self._maxwidth)
    (hlim : self.radix = 10 → z + (toDigits 10 n).length ≤ 4300)
    (hnl : lookup self.labels (spelling self.radix z m n) = none) :
    AddrParserGen.number self (String.ofList (spelling self.radix z m n)).toList = .ok n :=
  number_ok self hi (C15.num_bare (toParser self) n z m hr hn hlim hnl)

example : AddrParserGen.number S16 "00Ff".toList = .ok 255 := number_ok S16 rfl (by decide)
example : AddrParserGen.number S24 "0016777215".toList = .ok 16777215 := number_ok S24 rfl (by decide)
example : AddrParserGen.number S32 "37777777777".toList = .ok 4294967295 := number_ok S32 rfl (by decide)
example : lookup S16.labels "00Ff".toList = none := by decide

/-- A defined label (whose name is not taken by a number prefix) parses to its address. -/
theorem num_label (self : Self) (hi : MaxaddrInv self) (l : String) (a : Int) (hp : NoPrefix l.toList)
    (hl : lookup self.labels l.toList = some a) : AddrParserGen.number self l.toList = .ok a :=
  number_ok self hi (C15.num_label (toParser self) l a hp hl)

example : AddrParserGen.number S16 "foo".toList = .ok 0xc000 := number_ok S16 rfl (by decide)
example : NoPrefix "foo".toList ∧ lookup S16.labels "foo".toList = some 0xc000 := by decide

/-! ### label ± offset -/

/-- `label+offset` / `label-offset` (blanks allowed around the sign) is the arithmetic result put
through `_constrain`, for every offset `sp` the pattern accepts with `number sp = ok m`. -/
theorem num_label_offset (self : Self) (hi : MaxaddrInv self) (l b1 b2 sp : String) (sign : Char) (a m : Int)
    (hl : l.toList ≠ []) (hlc : ∀ c ∈ l.toList, isLabelChar c = true) (hlp : NoPrefix l.toList)
    (hb1 : ∀ c ∈ b1.toList, isReSpace c = true) (hb2 : ∀ c ∈ b2.toList, isReSpace c = true)
    (hs : sign = '+' ∨ sign = '-') (hsp : OffsetPat sp.toList)
    (hwhole : lookup self.labels (l ++ b1 ++ String.singleton sign ++ b2 ++ sp).toList = none)
    (ha : lookup self.labels l.toList = some a) (hm : AddrParserGen.number self sp.toList = .ok m) :
    AddrParserGen.number self (l ++ b1 ++ String.singleton sign ++ b2 ++ sp).toList
      = AddrParserGen._constrain self (if sign = '+' then a + m else a - m) :=
  number_constrain self hi
    (C15.num_label_offset (toParser self) l b1 b2 sp sign a m hl hlc hlp hb1 hb2 hs hsp hwhole ha
      (number_of_ok self hi hm))

example : AddrParserGen.number S16 "foo+$10".toList = .ok 0xc010 := number_ok S16 rfl (by decide)
example : AddrParserGen.number S16 "foo  -\t+16".toList = .ok 0xbff0 := number_ok S16 rfl (by decide)
example : AddrParserGen.number S16 "ten-11".toList = .error .overflowError :=
  number_overflow S16 rfl (by decide)
example : AddrParserGen._constrain S16 (0xc000 + 0x10) = .ok 0xc010 := by decide

/-- The inner failure of the offset, and an unknown label, propagate. -/
theorem num_label_offset_err (self : Self) (hi : MaxaddrInv self) (l b1 b2 sp : String) (sign : Char)
    (hl : l.toList ≠ []) (hlc : ∀ c ∈ l.toList, isLabelChar c = true) (hlp : NoPrefix l.toList)
    (hb1 : ∀ c ∈ b1.toList, isReSpace c = true) (hb2 : ∀ c ∈ b2.toList, isReSpace c = true)
    (hs : sign = '+' ∨ sign = '-') (hsp : OffsetPat sp.toList)
    (hwhole : lookup self.labels (l ++ b1 ++ String.singleton sign ++ b2 ++ sp).toList = none) :
    (lookup self.labels l.toList = none →
      AddrParserGen.number self (l ++ b1 ++ String.singleton sign ++ b2 ++ sp).toList = .error .keyError) ∧
    (∀ a, lookup self.labels l.toList = some a → AddrParserGen.number self sp.toList = .error .keyError →
      AddrParserGen.number self (l ++ b1 ++ String.singleton sign ++ b2 ++ sp).toList = .error .keyError) ∧
    (∀ a, lookup self.labels l.toList = some a → AddrParserGen.number self sp.toList = .error .overflowError →
      AddrParserGen.number self (l ++ b1 ++ String.singleton sign ++ b2 ++ sp).toList
        = .error .overflowError) := by
  obtain ⟨h1, h2, h3⟩ :=
    C15.num_label_offset_err (toParser self) l b1 b2 sp sign hl hlc hlp hb1 hb2 hs hsp hwhole
  exact ⟨fun h => number_key self hi (h1 h),
    fun a ha hk => number_key self hi (h2 a ha (number_of_key self hi hk)),
    fun a ha ho => number_overflow self hi (h3 a ha (number_of_overflow self hi ho))⟩

example : AddrParserGen.number S16 "bar+1".toList = .error .keyError := number_key S16 rfl (by decide)
example : AddrParserGen.number S16 "foo+$10000".toList = .error .overflowError :=
  number_overflow S16 rfl (by decide)

/-- Full strength of "label±offset for every offset spelling that is itself a valid number":
with `label = a` and `m < 2^width`, `label ± <any supported spelling of m>` (blanks allowed around
the sign) is `_constrain(a ± m)`; the four conjuncts are `$hex`, `+decimal`, `%binary` and bare
digits in the default radix (side conditions as in `C15.num_label_offset_spellings`). -/
theorem num_label_offset_spellings (self : Self) (hi : MaxaddrInv self) (l b1 b2 : String) (sign : Char) (a : Int)
    (m z : Nat) (mask : List Bool)
    (hl : l.toList ≠ []) (hlc : ∀ c ∈ l.toList, isLabelChar c = true) (hlp : NoPrefix l.toList)
    (hb1 : ∀ c ∈ b1.toList, isReSpace c = true) (hb2 : ∀ c ∈ b2.toList, isReSpace c = true)
    (hs : sign = '+' ∨ sign = '-') (ha : lookup self.labels l.toList = some a) (hm : m < 2 ^ self._maxwidth) :
    let whole := fun (sp : String) => l ++ b1 ++ String.singleton sign ++ b2 ++ sp
    let r := AddrParserGen._constrain self (if sign = '+' then a + m else a - m)
    (∀ sp, sp = "$" ++ String.ofList (spelling 16 z mask m) →
      lookup self.labels (whole sp).toList = none → AddrParserGen.number self (whole sp).toList = r) ∧
    (∀ sp, sp = "+" ++ String.ofList (spelling 10 z [] m) → z + (toDigits 10 m).length ≤ 4300 →
      lookup self.labels (whole sp).toList = none → AddrParserGen.number self (whole sp).toList = r) ∧
    (∀ sp, sp = "%" ++ String.ofList (spelling 2 z [] m) →
      lookup self.labels (whole sp).toList = none → AddrParserGen.number self (whole sp).toList = r) ∧
    (∀ sp, sp = String.ofList (spelling self.radix z mask m) →
      (self.radix = 16 ∨ self.radix = 10 ∨ self.radix = 8 ∨ self.radix = 2) →
      (self.radix = 10 → z + (toDigits 10 m).length ≤ 4300) →
      lookup self.labels (spelling self.radix z mask m) = none →
      lookup self.labels (whole sp).toList = none → AddrParserGen.number self (whole sp).toList = r) := by
  intro whole r
  obtain ⟨h1, h2, h3, h4⟩ := C15.num_label_offset_spellings (toParser self) l b1 b2 sign a m z mask
    hl hlc hlp hb1 hb2 hs ha hm
  exact ⟨fun sp e hw => number_constrain self hi (h1 sp e hw),
    fun sp e hlim hw => number_constrain self hi (h2 sp e hlim hw),
    fun sp e hw => number_constrain self hi (h3 sp e hw),
    fun sp e hr hlim hnl hw => number_constrain self hi (h4 sp e hr hlim hnl hw)⟩

example : AddrParserGen.number S16 "foo+$1a".toList = .ok 0xc01a ∧
    AddrParserGen.number S16 "foo - FF".toList = .ok 0xbf01 ∧
    AddrParserGen.number S16 "foo++26".toList = .ok 0xc01a ∧
    AddrParserGen.number S16 "foo-%11010".toList = .ok 0xbfe6 :=
  ⟨number_ok S16 rfl (by decide), number_ok S16 rfl (by decide), number_ok S16 rfl (by decide),
    number_ok S16 rfl (by decide)⟩

/-! ### bounds and error kinds -/

/-- Any result lies in `[0, 2^width - 1]` (label table filled through `_constrain`). -/
theorem num_bounded (self : Self) (hi : MaxaddrInv self) (hwf : WF self) (s : String) (n : Int)
    (h : AddrParserGen.number self s.toList = .ok n) : 0 ≤ n ∧ n < 2 ^ self._maxwidth :=
  C15.num_bounded (toParser self) hwf s n (number_of_ok self hi h)

example : WF S16 ∧ AddrParserGen.number S16 "foo-1".toList = .ok 0xbfff :=
  ⟨exWF 16 16 (by decide), number_ok S16 rfl (by decide)⟩

/-- No input string makes the generated `number` raise anything but `KeyError` / `OverflowError`
(in particular neither the `ValueError` of `int()` nor the recursion bound escapes). -/
theorem num_errors (self : Self) (hi : MaxaddrInv self) (s : String) (e : Exc)
    (h : AddrParserGen.number self s.toList = .error e) : e = .keyError ∨ e = .overflowError := by
  have hne : toRes (AddrParserGen.number self s.toList) ≠ .other := by
    rw [number_eq self hi]; exact C15.num_errors (toParser self) s
  exact toRes_ne_other.mp hne e h

example : AddrParserGen.number S16 "a+b-1".toList = .error .keyError ∧
    AddrParserGen.number S16 "+".toList = .error .keyError ∧
    AddrParserGen.number S16 "".toList = .error .keyError :=
  ⟨number_key S16 rfl (by decide), number_key S16 rfl (by decide), number_key S16 rfl (by decide)⟩

/-- Values outside the address width raise `OverflowError`: every spelling of an `n ≥ 2^width`,
and every negative value `int()` accepts. -/
theorem num_overflow (self : Self) (hi : MaxaddrInv self) (n z : Nat) (m : List Bool) (hn : 2 ^ self._maxwidth ≤ n) :
    AddrParserGen.number self ("$" ++ String.ofList (spelling 16 z m n)).toList = .error .overflowError ∧
    (z + (toDigits 10 n).length ≤ 4300 →
      AddrParserGen.number self ("+" ++ String.ofList (spelling 10 z [] n)).toList = .error .overflowError) ∧
    AddrParserGen.number self ("%" ++ String.ofList (spelling 2 z [] n)).toList = .error .overflowError ∧
    AddrParserGen.number self ("$-" ++ String.ofList (spelling 16 z m (n + 1))).toList
      = .error .overflowError := by
  obtain ⟨h1, h2, h3, h4⟩ := C15.num_overflow (toParser self) n z m hn
  exact ⟨number_overflow self hi h1, fun hl => number_overflow self hi (h2 hl), number_overflow self hi h3,
    number_overflow self hi h4⟩

example : AddrParserGen.number S16 "$10000".toList = .error .overflowError ∧
    AddrParserGen.number S16 "$-1".toList = .error .overflowError :=
  ⟨number_overflow S16 rfl (by decide), number_overflow S16 rfl (by decide)⟩

/-- Unknown labels and malformed text raise `KeyError`. -/
theorem num_malformed (self : Self) (hi : MaxaddrInv self) (s : String) :
    (pyInt s 16 = none → AddrParserGen.number self ("$" ++ s).toList = .error .keyError) ∧
    (pyInt s 10 = none → AddrParserGen.number self ("+" ++ s).toList = .error .keyError) ∧
    (pyInt s 2 = none → AddrParserGen.number self ("%" ++ s).toList = .error .keyError) ∧
    (NoPrefix s.toList → (∀ c ∈ s.toList, isLabelChar c = true) → lookup self.labels s.toList = none →
      pyInt s self.radix = none → AddrParserGen.number self s.toList = .error .keyError) := by
  obtain ⟨h1, h2, h3, h4⟩ := C15.num_malformed (toParser self) s
  exact ⟨fun h => number_key self hi (h1 h), fun h => number_key self hi (h2 h),
    fun h => number_key self hi (h3 h), fun a b c d => number_key self hi (h4 a b c d)⟩

example : AddrParserGen.number S16 "$xyz".toList = .error .keyError ∧
    AddrParserGen.number S16 "nosuch".toList = .error .keyError :=
  ⟨number_key S16 rfl (by decide), number_key S16 rfl (by decide)⟩

/-! ### ranges -/

/-- `range()` returns an ordered pair of in-range addresses, whatever the input form. -/
theorem range_ordered (self : Self) (hi : MaxaddrInv self) (hwf : WF self) (s : String) (a b : Int)
    (h : AddrParserGen.range self s.toList = .ok (a, b)) : a ≤ b ∧ 0 ≤ a ∧ b < 2 ^ self._maxwidth := by
  have he := range_eq self hi s.toList
  rw [h] at he
  exact C15.range_ordered (toParser self) hwf s a b he.symm

/-- and raises nothing but `KeyError` / `OverflowError`. -/
theorem range_errors (self : Self) (hi : MaxaddrInv self) (s : String) (e : Exc)
    (h : AddrParserGen.range self s.toList = .error e) : e = .keyError ∨ e = .overflowError := by
  have hne : toRRes (AddrParserGen.range self s.toList) ≠ .other := by
    rw [range_eq self hi]; exact C15.range_errors (toParser self) s
  exact toRRes_ne_other.mp hne e h

example : AddrParserGen.range S16 "$ffff:foo".toList = .ok (0xc000, 0xffff) :=
  toRRes_ok.mp ((range_eq S16 rfl _).trans (by decide))

/-- The forms `a:b` and `a,b` (any run of separators, blanks after it): both ends are parsed by
`number` -- `a` first -- and the pair is ordered. -/
theorem range_pair (self : Self) (x seps ws y : String)
    (hx : x.toList ≠ []) (hxc : ∀ c ∈ x.toList, isSep c = false)
    (hs : seps.toList ≠ []) (hsc : ∀ c ∈ seps.toList, isSep c = true)
    (hw : ∀ c ∈ ws.toList, isReSpace c = true)
    (hy : y.toList ≠ []) (hyc : ∀ c ∈ y.toList, isSep c = false)
    (hy0 : ∀ c, y.toList.head? = some c → isReSpace c = false) :
    AddrParserGen.range self (x ++ seps ++ ws ++ y).toList =
      (AddrParserGen.number self x.toList >>= fun a =>
       AddrParserGen.number self y.toList >>= fun b => pure (min a b, max a b)) := by
  have hm := matchRange_compose hx hxc hs hsc hw hy hyc hy0
  have hstr : (x ++ seps ++ ws ++ y).toList = x.toList ++ (seps.toList ++ (ws.toList ++ y.toList)) := by
    simp [String.toList_append]
  rw [hstr]
  exact range_some self hm

example : AddrParserGen.range S16 "$20,$10".toList = .ok (16, 32) :=
  toRRes_ok.mp ((range_eq S16 rfl _).trans (by decide))

/-- The single-address form: a string without `:` and `,`. -/
theorem range_single (self : Self) (s : String) (hs : ∀ c ∈ s.toList, isSep c = false) :
    AddrParserGen.range self s.toList = (AddrParserGen.number self s.toList >>= fun a => pure (a, a)) :=
  range_none self (matchRange_none_of_nosep hs)

example : AddrParserGen.range S16 "foo+1".toList = .ok (0xc001, 0xc001) :=
  toRRes_ok.mp ((range_eq S16 rfl _).trans (by decide))

/-! ### the constructor, the width property and the label table -/

/-- `__init__` stores width and radix, establishes `MaxaddrInv` and a well-formed label table (every value
went through `_constrain`), and the monitor's `labels[name] = number(...)` keeps it well formed. -/
theorem parser_wf (w r : Nat) (ls : List (Str × Int)) (self : Self)
    (h : AddrParserGen.__init__ w r ls = .ok self) :
    MaxaddrInv self ∧ WF self ∧ self._maxwidth = w ∧ self.radix = r ∧
    ∀ (k s : String) (v : Int), AddrParserGen.number self s.toList = .ok v →
      WF { self with labels := PyRt.dictSetItem self.labels k.toList v } := by
  obtain ⟨he, hinv, _⟩ := init_eq w r ls
  have hi := hinv self h
  rw [h] at he
  obtain ⟨h1, h2, h3, h4⟩ := C15.parser_wf w r ls (toParser self) he.symm
  exact ⟨hi, h1, h2, h3, fun k s v hv => h4 k s v (number_of_ok self hi hv)⟩

/-- The constructor raises nothing but `OverflowError` (a label value out of range). -/
theorem init_errors (w r : Nat) (ls : List (Str × Int)) (e : Exc)
    (h : AddrParserGen.__init__ w r ls = .error e) : e = .overflowError :=
  (init_eq w r ls).2.2 e h

example : AddrParserGen.__init__ 16 16 exLabels = .ok S16 := by decide
example : AddrParserGen.__init__ 16 16 [("big".toList, 65536)] = .error .overflowError := by decide

/-- Setting the `maxwidth` property stores the width and `2^width - 1` and re-establishes `MaxaddrInv`;
reading it gives the stored width. -/
theorem maxwidth_property (self : Self) (w : Nat) :
    AddrParserGen._get_maxwidth (AddrParserGen._set_maxwidth self w) = w ∧
    (AddrParserGen._set_maxwidth self w)._maxaddr = 2 ^ w - 1 ∧
    MaxaddrInv (AddrParserGen._set_maxwidth self w) ∧
    (AddrParserGen._set_maxwidth self w).labels = self.labels ∧
    (AddrParserGen._set_maxwidth self w).radix = self.radix := ⟨rfl, rfl, rfl, rfl, rfl⟩

example : (AddrParserGen._set_maxwidth S16 24)._maxaddr = 16777215 := by decide

/-- `_constrain` returns its argument when it lies in `[0, 2^width - 1]` and raises
`OverflowError` otherwise. -/
theorem constrain_spec (self : Self) (hi : MaxaddrInv self) (a : Int) :
    (0 ≤ a ∧ a < 2 ^ self._maxwidth → AddrParserGen._constrain self a = .ok a) ∧
    (a < 0 ∨ 2 ^ self._maxwidth ≤ a → AddrParserGen._constrain self a = .error .overflowError) := by
  have hm : (toParser self).maxaddr = 2 ^ self._maxwidth - 1 := rfl
  constructor
  · intro h
    exact toRes_ok.mp ((constrain_eq self hi a).trans (constrain_in h.1 (by rw [hm]; omega)))
  · intro h
    exact toRes_overflow.mp ((constrain_eq self hi a).trans (constrain_out (by rw [hm]; omega)))

example : AddrParserGen._constrain S16 65535 = .ok 65535 ∧
    AddrParserGen._constrain S16 65536 = .error .overflowError ∧
    AddrParserGen._constrain S16 (-1) = .error .overflowError := by decide

/-- `label_for` returns a label bound to that address (or the default). -/
theorem label_for_spec (self : Self) (a : Int) (l : Str) (h : AddrParserGen.label_for self a none = some l) :
    (l, a) ∈ self.labels := by
  rw [label_for_eq] at h
  apply C15.label_for_spec (toParser self) a l
  cases hl : labelFor (toParser self) a with
  | some l' => rw [hl] at h; exact h
  | none => rw [hl] at h; cases h

example : AddrParserGen.label_for S16 10 none = some "ten".toList := by decide

/-- `address_for` is the dictionary lookup with a default. -/
theorem address_for_spec (self : Self) (l : Str) (d : Option Int) :
    AddrParserGen.address_for self l d = (match lookup self.labels l with | some a => some a | none => d) :=
  address_for_eq self l d

example : AddrParserGen.address_for S16 "foo".toList none = some 0xc000 ∧
    AddrParserGen.address_for S16 "nosuch".toList (some 7) = some 7 := by decide

end Py65.Props.C15g
