/-
C20i -- C20 ("rejected commands change nothing") for the GENERATED `Monitor.onecmd` with ALL generated commands
plugged in: `Props/C20h.lean` left `do_assemble` (with `_interactive_assemble`), `do_help`, `do_version`, `do_cd`,
`do_pwd` behind the parameters `P.unt` / `P.asm` with the hypotheses `UntModels P` / `AsmHonest P`.  Here those
parameters are INSTANTIATED with the generated methods of unit `asmc` (`Gen/MonAsmGen.lean`; the GENERATED
assembler `Gen/AsmGen.lean` plugged in as in `Props/C20a.lean`; `self.do_disassemble` = the GENERATED command of
unit `show`) through the adapter `Model/MonCompose2Rt.lean`, and both hypotheses are DISCHARGED from the C20a
theorems.  Reading guide:

* `Q : Params2` (`Proofs/MonCompose2.lean`) = `Q.base : Params` of C20h (its `unt` / `asm` are not used) + the
  input oracle `Q.I.lines c arg` (the lines that will be typed on stdin while the command runs), `Q.I.cwd`, the OS
  for `cd` (`Q.aw`), two `KeyError` texts that only reach the output (`Q.kt`, `Q.ktDis`), `cmd.Cmd.do_help`
  (`Q.cmdhelp`: standard library, not translated) and the fuel of the interactive loop (`Q.fuelAsm`, one unit per
  prompt).  `Q.full : Params` is the instance; `othG Q.full` the composed parameter `oth` of the generated
  dispatcher, `extG Q.full` the model's `Ext` read off the generated commands.
* What REJECTED means for `assemble` (`asmVerdict`, restated in `assemble_refusals_fully_composed`):
  `assemble <address> <statement>` is refused ⇔ the address parser raises on `<address>` or the GENERATED
  assembler raises on `<statement>` at that address (any exception); `assemble [<address>]` (interactive) is
  refused ⇔ the argument is non-empty and the address parser raises on it.  `help version cd pwd`: never.
* An interactive session that runs out of typed lines (or of `Q.fuelAsm` prompts) DOES NOT RETURN: the generated
  loop answers `.nofuel` (`console.line_input` on an exhausted stdin polls for ever), the adapter hands it on as
  `.nofuel`, the generated `onecmd` is `.nofuel`.  Such a line is NOT refused by the model (a session only
  starts after its start address was accepted), so `rejected_unchanged_fully_composed` does not speak about it; a
  refused `assemble` is PROVED to end without reading a line (`assemble_refusals_fully_composed`).  The
  universally quantified `UntModels` needs `InputOK Q` (every `assemble` run ends); the property theorem does not.
* Remaining hypotheses of `rejected_unchanged_fully_composed`: `GlueOK` (the memory object is an object around
  the session's cells), `OutOnly Q.cmdhelp` (cmd.Cmd.do_help only prints), `LoadFuel` / `FillFuel` / the dispatcher's
  fuel, `¬ Loops`, a well-formed label table, and the library helpers of the units' run-time files.  NOTHING about
  any `do_*` method is assumed any more.
-/
import Py65.Props.C20h
import Py65.Proofs.MonCompose2

namespace Py65.Props.C20i
open Py65 Py65.Model Py65.Model.PyStr Py65.Model.AddrParser Py65.Model.MonCmd Py65.Model.MonGenRt
open Py65.Model.MonCmdRt Py65.Model.MonComposeRt Py65.Model.MonCompose2Rt Py65.Model.MonAsmRt
open Py65.Gen Py65.Proofs.MonCmd Py65.Proofs.MonCmdGenEq
open Py65.Proofs.MonCompose Py65.Proofs.MonCompose2 Py65.Proofs.MonPreGenEq Py65.Props.C20a Py65.Proofs.MonAsmGenEq
open Py65.Model.MonAsm

variable (Q : Params2) (tb : Exc → Str) (mr : Core → Str)

/-- `UntModels` of C20h for the instance with the GENERATED `do_assemble`, `do_help`, `do_version`, `do_cd`, `do_pwd`:
for each of the five, any argument and any state, the generated method (through the adapter) ends, the session
core afterwards is the model's (unchanged for `help version cd pwd`; for `assemble` registers and cells as
`asmModel` reads them off the run, everything else unchanged -- `asm_kept`), `lastcmd` is untouched, the value
is `None`.  Hypotheses: the glue, `cmd.Cmd.do_help` only prints, and `InputOK`: every `assemble` run ends. -/
theorem unt_models_generated (hG : GlueOK Q.base.G) (hh : OutOnly Q.cmdhelp) (hin : InputOK Q) : UntModels Q.full :=
  unt_models Q hG hh hin

/-- `AsmHonest` of C20h for the instance: when the address parser or the GENERATED assembler refuses, the
generated `do_assemble` leaves registers and cells as they were.  Hypothesis: the glue only. -/
theorem asm_honest_generated (hG : GlueOK Q.base.G) : AsmHonest Q.full := asm_honest Q hG

/-- `rejected_unchanged` for the generated `Monitor.onecmd` with ALL generated commands plugged in (the fifteen of
C20h and `assemble`, interactive `assemble`, `help`, `version`, `cd`, `pwd`): for ANY line in ANY state with a
well-formed label table, if the line is refused, the generated `onecmd` RETURNS and device, registers, memory
cells, labels, breakpoints, radix and width are exactly what they were.  No `UntModels`, no `AsmHonest`, no
hypothesis about the input oracle. -/
theorem rejected_unchanged_fully_composed (hG : GlueOK Q.base.G) (hh : OutOnly Q.cmdhelp) (hload : LoadFuel Q.full)
    (fuel : Nat) (line : Str) (σ : CmdSt) (hwf : σ.core.parser.WF) (hfill : FillFuel Q.full σ.core)
    (hf : fuel > (MonPreGen._preprocess_line line).length + (MonPreGen._preprocess_line σ.lastcmd).length + 6)
    (hnl : ¬ Loops σ line)
    (h : (onecmdL (extG Q.full) { core := σ.core, lastcmd := σ.lastcmd } line).1.verdict.isRejected = true) :
    ∃ v σ', MonCmdGen.onecmd (othG Q.full) tb mr fuel line σ = .ok v σ' ∧ σ'.core = σ.core := by
  rw [preprocess_eq] at hf
  exact onecmd_rejected_composed2 Q tb mr hG hh hload fuel line σ hwf hfill hf hnl h

/-- The same obtained by INSTANTIATING `C20h.rejected_unchanged_composed` (its hypotheses `UntModels` / `AsmHonest`
discharged by the two theorems above); this route needs `InputOK`. -/
theorem rejected_unchanged_composed_instance (hG : GlueOK Q.base.G) (hh : OutOnly Q.cmdhelp) (hin : InputOK Q)
    (hload : LoadFuel Q.full) (fuel : Nat) (line : Str) (σ : CmdSt) (hwf : σ.core.parser.WF)
    (hfill : FillFuel Q.full σ.core)
    (hf : fuel > (MonPreGen._preprocess_line line).length + (MonPreGen._preprocess_line σ.lastcmd).length + 6)
    (hnl : ¬ Loops σ line)
    (h : (onecmdL (extG Q.full) { core := σ.core, lastcmd := σ.lastcmd } line).1.verdict.isRejected = true) :
    ∃ v σ', MonCmdGen.onecmd (othG Q.full) tb mr fuel line σ = .ok v σ' ∧ σ'.core = σ.core :=
  C20h.rejected_unchanged_composed Q.full tb mr hG (unt_models Q hG hh hin) (asm_honest Q hG) hload fuel line σ hwf
    hfill hf hnl h

/-- EVERY line, refused or not: with `CallOK2` for the one command the line is dispatched to (`CallOK` of C20h and,
for `assemble`, "the run returned": the typed lines contained a blank line within `fuelAsm` prompts / the
disassembly ended within `fuelDis`), the generated `onecmd` with all generated commands returns, its session core
and `lastcmd` are the model's, and its value is true exactly for `quit`. -/
theorem onecmd_agrees_fully_composed (hG : GlueOK Q.base.G) (hh : OutOnly Q.cmdhelp) (fuel : Nat) (line : Str) (σ : CmdSt)
    (hf : fuel > (MonPreGen._preprocess_line line).length + (MonPreGen._preprocess_line σ.lastcmd).length + 6)
    (hnl : ¬ Loops σ line)
    (hok : ∀ cmd a, dispatched { core := σ.core, lastcmd := σ.lastcmd } line = some (cmd, a) → CallOK2 Q cmd a σ.core) :
    ∃ v σ', MonCmdGen.onecmd (othG Q.full) tb mr fuel line σ = .ok v σ' ∧
      σ'.core = (onecmdL (extG Q.full) { core := σ.core, lastcmd := σ.lastcmd } line).2.core ∧
      σ'.lastcmd = (onecmdL (extG Q.full) { core := σ.core, lastcmd := σ.lastcmd } line).2.lastcmd ∧
      (v.truthy = true ↔ dispatchWord { core := σ.core, lastcmd := σ.lastcmd } line = some quit) := by
  rw [preprocess_eq] at hf
  obtain ⟨v, s', e1, e2, e3, e4⟩ := onecmd_sim_composed2 Q tb mr hG hh fuel line σ hf hnl hok
  exact ⟨v, s', e1, e2, e3, by rw [e4]; exact C20.dispatch_total (extG Q.full) _ line⟩

/-- What REJECTED means for `assemble`, and what a refused `assemble` does: the model's verdict is `asmVerdict` of
the address parser and the GENERATED assembler of the session's device; a refused `assemble` ENDS (returns, or
raises into `onecmd`'s catch-all) -- it never prompts -- with the memory OBJECT (cells, subscribers, call log),
registers, address parser (labels, radix), breakpoints and width of the unit state exactly as built. -/
theorem assemble_refusals_fully_composed (c : Core) (arg : Str) :
    (runCommand (extG Q.full) c .assemble arg).verdict = asmVerdict (asmA Q c) c arg ∧
    ((asmVerdict (asmA Q c) c arg).isRejected = true →
      ∃ s, (asmC Q arg c = .ok () s ∨ ∃ e, asmC Q arg c = .raise e s) ∧ SameSession (asmStOf Q.base.G Q.I c arg) s) :=
  ⟨rfl, asm_rejected_end Q arg c⟩

/-- EVERY end of the generated `do_assemble` / `_interactive_assemble` -- accepted or refused, returned or raised,
however many lines were typed --: registers, labels, radix, breakpoints and width are those it started with (only
memory, output and pending input can differ).  This is what makes reading ALL fields back in the adapter
(`coreOfAsm`) agree with the model's "`assemble` changes registers and cells only". -/
theorem assemble_keeps_session (c : Core) (arg : Str) :
    match asmC Q arg c with
    | .ok _ s => s.regs = c.regs ∧ s.parser = c.parser ∧ s.breakpoints = c.breakpoints ∧ s.width = c.width
    | .raise _ s => s.regs = c.regs ∧ s.parser = c.parser ∧ s.breakpoints = c.breakpoints ∧ s.width = c.width
    | .nofuel => True := by
  have h := asm_kept Q arg c
  cases hr : asmC Q arg c with
  | ok v s => rw [hr] at h; exact h
  | raise e s => rw [hr] at h; exact h
  | nofuel => trivial

/-- The one thing the adapter does NOT read back -- the device object of unit `show` after the `do_disassemble`
that `do_assemble` calls -- is unchanged at every end of that call (`MonCompose.dis_kept`). -/
theorem disassemble_inside_assemble_kept (c : Core) (a : Str) (σ : AsmSt) :
    match disC Q.base a (coreOfAsm c σ) with
    | .ok _ s => s.mpu = stOf (coreOfAsm c σ)
    | .raise _ s => s.mpu = stOf (coreOfAsm c σ)
    | .nofuel => True := by
  have h := disA_device_kept Q c a σ
  cases hr : disC Q.base a (coreOfAsm c σ) with
  | ok v s => rw [hr] at h; exact h
  | raise e s => rw [hr] at h; exact h
  | nofuel => trivial

/-! ## non-vacuity: the generated code, fully composed, RUN by `decide +kernel` -/

/-- Parameters for the examples: those of C20h (`exP`: the monitor's own memory object, ...), the OS / texts /
`cmdhelp` stand-in of C20a, a working directory, and an input oracle that types `inx`, `bogus`, `lda #$12` and a
blank line into every interactive session -- except a session started at `$30`, which gets no blank line (and so
never returns). -/
def exQ : Params2 :=
  { base := C20h.exP,
    I := { lines := fun _ arg => if arg = "30".toList then ["nop".toList]
                                 else ["inx".toList, "bogus".toList, "lda #$12".toList, "  ".toList, "nop".toList],
           cwd := fun _ => "/tmp".toList },
    aw := C20a.w0, kt := C20a.kt0, ktDis := fun _ _ => [], cmdhelp := C20a.help0, fuelAsm := 10 }

/-- The hypotheses of `rejected_unchanged_fully_composed` hold of the example parameters and `C20g.exCore`. -/
example : GlueOK exQ.base.G ∧ OutOnly exQ.cmdhelp ∧ LoadFuel exQ.full ∧ FillFuel exQ.full C20g.exCore ∧
    C20g.exCore.parser.WF := by
  refine ⟨fun _ => rfl, fun a σ => Or.inl ⟨_, rfl⟩, ?_, (by unfold FillFuel; decide +kernel), ?_⟩
  · intro name file h
    have hlen : file.length ≤ 5 := by
      unfold Proofs.MonMemGenEq.loadSource at h
      simp only [exQ, Params2.full, C20h.exP, C16g.w0, MonMemRt.pyUrlopen, MonMemRt.pyOpenR] at h
      split_ifs at h <;> cases h <;> decide
    show file.length < 70000
    omega
  · intro k v h
    have : C20g.exCore.parser.labels = [("foo".toList, 0xc000)] := rfl
    rw [this] at h
    simp only [lookup] at h
    split at h
    · cases h; exact ⟨by decide, by decide⟩
    · cases h

/-- Run the GENERATED `onecmd` with ALL GENERATED commands on a line in `C20g.exCore` and test the result. -/
def exRunF (line : String) (p : PyRet → CmdSt → Bool) : Bool :=
  match MonCmdGen.onecmd (othG exQ.full) (fun _ => "TB".toList) (fun _ => "MPU".toList) 60 line.toList
      { core := C20g.exCore, lastcmd := [], out := [] } with
  | .ok v s => p v s
  | _ => false

/-- The model's verdict of a line (with `extG exQ.full`: computed from the generated assembler / commands). -/
def exVerdictF (line : String) : Verdict :=
  (onecmdL (extG exQ.full) { core := C20g.exCore, lastcmd := [] } line.toList).1.verdict

/-- non-vacuity of `rejected_unchanged_fully_composed` for the commands plugged in here: refused `assemble`
lines of every kind -- statement refused by the generated assembler (syntax, operand overflow, unknown label in
the operand), start address refused (unknown label, too wide), one-line and interactive -- have verdict
REJECTED, and the generated dispatcher with the generated `do_assemble` returns `None` with the core untouched
having printed something; a family of C20h (`fill`) still behaves. -/
example :
    let refused := fun (l : String) => (exVerdictF l).isRejected &&
      exRunF l (fun v s => v = none && C20h.sameCore s && decide (s.out.length ≥ 2))
    (refused "a 10 bogus" && refused "assemble 10 lda #$100" && refused "a 10 jmp nosuch" &&
     refused "a nosuch nop" && refused "a 10000 nop" && refused "assemble nosuch" && refused "a 10000" &&
     refused "fill 0:3 100") = true := by
  decide +kernel

/-- ... and accepted ones DO change the core through the adapter: the one-line form stores exactly the bytes;
an interactive session at `$20` (typed: `inx`, `bogus`, `lda #$12`, blank) stores `e8 a9 12`, the refused line
stores nothing, the line after the blank one is not consumed; `assemble` without argument starts at the PC (0);
everything but the cells is as it was.  The four display commands leave the core alone and print. -/
example :
    exVerdictF "a 10 lda #$12" = .ok ∧
    exRunF "a 10 lda #$12" (fun v s => v = none &&
      [0x0f, 0x10, 0x11, 0x12].map s.core.mem = [0, 0xa9, 0x12, 0] && decide (s.core.regs = C20g.exCore.regs) &&
      decide (s.core.labels = C20g.exCore.labels ∧ s.core.breakpoints = C20g.exCore.breakpoints ∧
        s.core.radix = 16 ∧ s.core.width = 78)) = true ∧
    exRunF "a foo jmp foo" (fun _ s => [0xc000, 0xc001, 0xc002].map s.core.mem = [0x4c, 0x00, 0xc0]) = true ∧
    exVerdictF "a 20" = .ok ∧
    exRunF "a 20" (fun v s => v = none && [0x1f, 0x20, 0x21, 0x22, 0x23].map s.core.mem = [0, 0xe8, 0xa9, 0x12, 0] &&
      decide (s.core.regs = C20g.exCore.regs ∧ s.core.labels = C20g.exCore.labels)) = true ∧
    exRunF "assemble" (fun _ s => [0, 1, 2, 3].map s.core.mem = [0xe8, 0xa9, 0x12, 0]) = true ∧
    (let shown := fun (l : String) (t : String) => exRunF l (fun v s => v = none && C20h.sameCore s && s.out.contains t.toList)
     (shown "version" "\nPy65 Monitor\n" && shown "pwd" "/tmp\n" && shown "cd sub" "/tmp/sub\n" &&
      shown "cd nosuch" "Cannot change directory: [2] No such file or directory\n" && shown "cd" "cd <directory>\n" &&
      shown "help" "help \n" && shown "? a" "help assemble\n")) = true := by
  decide +kernel

/-- An interactive session whose typed lines run out before a blank line does NOT return: the generated `onecmd`
is `.nofuel` (not `.ok`, not `.raise`) -- and the model does not call that line refused. -/
example :
    (match MonCmdGen.onecmd (othG exQ.full) (fun _ => "TB".toList) (fun _ => "MPU".toList) 60 "a 30".toList
        { core := C20g.exCore, lastcmd := [], out := [] } with | .nofuel => true | _ => false) = true ∧
    (exVerdictF "a 30").isRejected = false := by
  decide +kernel

/-- non-vacuity of `unt_models_generated` / `rejected_unchanged_composed_instance`: parameters for which `InputOK` HOLDS --
the oracle types one blank line into every session (`fuelAsm = 1` suffices), and `instruction_at` always raises, so
the `disassemble` after a one-line `assemble` ends at once (`fuelDis = 1`). -/
def exQ2 : Params2 :=
  { exQ with base := { C20h.exP with iat := fun _ _ _ => .error .Other, fuelDis := 1 },
             I := { lines := fun _ _ => [[]], cwd := fun _ => [] }, fuelAsm := 1 }

/-- the generated `do_disassemble` of `exQ2` never runs out of fuel -/
theorem disC_exQ2 (a : Str) (c : Core) : disC exQ2.base a c ≠ .nofuel := by
  unfold disC
  rw [Py65.Proofs.ReprGenEq.do_disassemble_eq]
  unfold Show.doDisassemble
  split
  · simp [Py65.Proofs.ReprGenEq.disFlow]
  · simp [Py65.Proofs.ReprGenEq.disFlow]
  · simp [Py65.Proofs.ReprGenEq.disFlow]
  · rename_i start end_ _
    show Py65.Proofs.ReprGenEq.walkFlow _ (if decide (start > end_) = true ∨ start ≤ end_ then ([], Show.WalkEnd.raised Exc.Other)
      else ([], Show.WalkEnd.done)) ≠ .nofuel
    split <;> simp [Py65.Proofs.ReprGenEq.walkFlow]

/-- `InputOK` is satisfiable: every `assemble` run of `exQ2` ends. -/
theorem inputOK_exQ2 : InputOK exQ2 := by
  intro arg c
  unfold asmC
  rw [do_assemble_eq]
  unfold doAssemble
  have hh : ∀ args st e σ, asmHandlers args st e σ ≠ .nofuel := by
    intro args st e σ; cases e <;> simp [asmHandlers]
  split
  · split
    · exact hh _ _ _ _
    · split
      · exact hh _ _ _ _
      · unfold disA
        generalize hσ : coreOfAsm c _ = c'
        have hd := disC_exQ2 ("$".toList ++ pyFmtX (memDev c.dev).addrFmtW ‹Int›) c'
        cases hr : disC exQ2.base ("$".toList ++ pyFmtX (memDev c.dev).addrFmtW ‹Int›) c' with
        | nofuel => exact absurd hr hd
        | ok v s => simp [liftShowA, catchAsm]
        | raise e s => simp only [liftShowA, catchAsm]; exact hh _ _ _ _
  · unfold interactiveAssemble
    have hl : ∀ start, iaLoop (asmA exQ2 c) (iatA exQ2 c) (fmtdisA exQ2 c) exQ2.base.G.reply (memDev c.dev) exQ2.fuelAsm start
        (asmStOf exQ2.base.G exQ2.I c arg) =
        .ok start (write { asmStOf exQ2.base.G exQ2.I c arg with inp := [], out := [prompt (memDev c.dev) start, []] } "\n".toList) := by
      intro start
      rfl
    split
    · rw [hl]; simp
    · split
      · rw [hl]; simp
      · simp
      · simp

/-- ... so `UntModels` holds of the instance `exQ2.full` (all three hypotheses of `unt_models_generated` hold). -/
example : UntModels exQ2.full :=
  unt_models_generated exQ2 (fun _ => rfl) (fun _ _ => Or.inl ⟨_, rfl⟩) inputOK_exQ2

end Py65.Props.C20i
