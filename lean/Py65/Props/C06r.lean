/-
C06r -- `reset()` of the 65C02 itself (third C06 file, own namespace `Py65.Props.C06r`).

`C06.reset_spec` is stated for the base-class `reset` (`Mpu6502.reset_at / reset_vec`: what the 6502 and the
65Org16 run) and needs `s.waiting = false`, because that code does not touch `waiting` while the documented
reset ends a wait.  The 65C02 overrides `reset` (`mpu65c02.MPU.reset`: base reset, then `self.waiting =
False`), and that override was only covered for the `waiting` flag (`C06.wai_resumes`).  Here the
documented power-on state is stated for the GENERATED 65C02 `reset` (`dev65c02.reset`, what the driver runs
for `reset(start)` / `reset()`), for EVERY state -- waiting or not, no hypothesis at all:

* `reset_spec_65c02`        `abs (dev65c02.reset a s) = Spec.reset 8 a (abs s)` for `a = some start` and `a = none`
                            (PC from the reset vector), cycle counter 0, `waiting = false`;
* `reset_spec_65c02_cfg`    the same for the class-level functions at any device configuration.
-/
import Py65.Proofs.Interrupts

namespace Py65.Props.C06r
open Py65 Py65.Gen Py65.Spec Py65.Proofs

/-- The 65C02 class's `reset`, any device configuration, ANY state (no `waiting` hypothesis). -/
theorem reset_spec_65c02_cfg (c : Cfg) (hc : IsDev c) (s : St) (a : Int) :
    abs (Mpu65c02.reset_at c a s) = Spec.reset c.BYTE_WIDTH (some a) (abs s) ∧
    abs (Mpu65c02.reset_vec c s) = Spec.reset c.BYTE_WIDTH none (abs s) ∧
    (Mpu65c02.reset_at c a s).cycles = 0 ∧ (Mpu65c02.reset_vec c s).cycles = 0 ∧
    (Mpu65c02.reset_at c a s).waiting = false ∧ (Mpu65c02.reset_vec c s).waiting = false := by
  have h1 := reset_at_sem c hc a { s with waiting := false } rfl
  have h2 := reset_vec_sem c hc { s with waiting := false } rfl
  refine ⟨?_, ?_, rfl, rfl, rfl, rfl⟩
  · exact h1
  · exact h2

/-- **`reset()` of the 65C02 device**: documented power-on registers (A = X = Y = 0, SP = `$FF`, P = `$30`),
PC = the start address or the word at `$FFFC/$FFFD`, memory untouched, the wait ended, cycle counter 0 --
from EVERY state, waiting or not. -/
theorem reset_spec_65c02 (s : St) (a : Option Int) :
    abs (dev65c02.reset a s) = Spec.reset 8 a (abs s) ∧
    (dev65c02.reset a s).cycles = 0 ∧ (dev65c02.reset a s).waiting = false := by
  have h := reset_spec_65c02_cfg dev65c02.cfg (Or.inl rfl) s (a.getD 0)
  cases a with
  | none => exact ⟨h.2.1, rfl, rfl⟩
  | some v => exact ⟨h.1, rfl, rfl⟩

/-- A WAITING 65C02 with junk registers; `$FFFC/$FFFD` = `$00 $80`. -/
def demo : St :=
  { a := 0x12, x := 0x34, y := 0x56, sp := 0x10, p := 0xCF, pc := 0x1234, excycles := 0, addcycles := 0,
    cycles := 99, waiting := true, mem := fun k => if k = 0xFFFD then 0x80 else 0, log := [] }

/-- non-vacuity: reset to `$C000` and reset through the vector, from the waiting state. -/
example :
    (dev65c02.reset (some 0xC000) demo).pc = 0xC000 ∧ (dev65c02.reset none demo).pc = 0x8000 ∧
    (dev65c02.reset none demo).a = 0 ∧ (dev65c02.reset none demo).sp = 0xFF ∧
    (dev65c02.reset none demo).p = 0x30 ∧
    (dev65c02.reset none demo).waiting = false ∧ (dev65c02.reset none demo).cycles = 0 ∧
    (Spec.reset 8 none (abs demo)).pc = 0x8000 ∧ (Spec.reset 8 none (abs demo)).waiting = false ∧
    demo.waiting = true := by
  decide +kernel

end Py65.Props.C06r
