/-
C13h -- the cycle counter over HISTORIES (third C13 file, own namespace `Py65.Props.C13h`).

PROPERTY THEOREMS ONLY (helper lemmas: Proofs/Hist.lean, HistStep.lean, HistSpecClosed.lean,
HistArith*.lean).  C13b proves, for ONE `step()` of a well-formed state, `Δcycles = Spec.stepCycles`.
Here the statement is lifted to every list of calls `step() / irq() / nmi() / reset()` folded over
the GENERATED device operations (`Hist.run`):

  * `cycles_history`        for every device and every reset-free history, the counter at the end is
                            the counter at the start plus the DOCUMENTED cycles of each call along the run
                            (`docCycles`: `Spec.stepCycles` for a step - declared opcode: base count, +1
                            page-crossing indexed read, +1/+2 taken branch; undeclared opcode byte: 0;
                            waiting 65C02: 1 -, 7 for a taken irq and for nmi, 0 for a masked irq);
  * `cycles_history_6502`   the same for the 6502 with no side condition at all;
  * `cycles_monotone_history`  the counter never decreases along a reset-free history;
  * `cycles_since_reset`    with resets anywhere in the list: the counter at the end is the documented sum
                            of the calls after the LAST reset (the counter restarts at 0 there);
  * `cycles_history_65c02_exact`  65C02 including BRA: documented sum minus one per executed BRA
                            (the recorded known finding, here as an exact count over the whole history).

Hypotheses.  Well-formedness of the states along the run and "not waiting" on the 6502/65Org16 are NOT
assumed along the run: they are an invariant (`Hist.Inv`) proved to be preserved by every call at every
opcode byte (Proofs/HistStep.lean, the C05h closure), so only the INITIAL state is assumed well-formed.
What is quantified over histories (`CycOK`, stated per call on the state it is applied to):
  * 65C02: a non-waiting step does not execute BRA `$80` (exactly C13b's exclusion; see `_exact` above);
  * 65Org16: the opcode cell executed holds a byte 0..255 (above 255 the real `step()` raises IndexError,
    DESIGN 0.5, outside the quantifier).
Undeclared opcode bytes are INCLUDED (they cost 0: `Spec.stepCycles` of an undeclared byte is 0).
-/
import Py65.Props.C13
import Py65.Props.C13b
import Py65.Proofs.HistStep

namespace Py65.Props.C13h
open Py65 Py65.Gen Py65.Spec Py65.Proofs Py65.Proofs.Hist

/-- Documented cycles of one call applied to the state `s`. -/
def opCycles (d : Dev) (o : Op) (s : St) : Int :=
  match o with
  | .step => stepCycles d.W d.variant (core s)
  | .irq => irqCycles (abs s)
  | .nmi => nmiCycles
  | .reset _ => 0

/-- Documented cycles of a history: the sum over its calls, each taken at the state the generated
device is in when the call is made. -/
def docCycles (d : Dev) : List Op → St → Int
  | [], _ => 0
  | o :: ops, s => opCycles d o s + docCycles d ops (apply d o s)

/-- What C13 quantifies over, per call (see the file header). -/
def CycOK (d : Dev) (o : Op) (s : St) : Prop :=
  match o with
  | .step => (d = .cmos → s.waiting = false → s.mem s.pc ≠ 0x80) ∧ (d = .org16 → s.mem s.pc < 256)
  | _ => True

theorem CycOK.toOpOK {d : Dev} {o : Op} {s : St} (h : CycOK d o s) (hr : Op.isReset o = false) :
    OpOK d o s := by
  cases o with
  | step => exact h.2
  | irq => trivial
  | nmi => trivial
  | reset a => simp [Op.isReset] at hr

/-- One `step()` of any device at any opcode byte (declared or not), waiting or not. -/
theorem step_cycles_dev (d : Dev) (s : St) (hi : Inv d s) (hok : CycOK d .step s) :
    (d.step s).cycles = s.cycles + stepCycles d.W d.variant (core s) := by
  obtain ⟨hs, hw⟩ := hi
  obtain ⟨hbra, h256⟩ := hok
  cases d with
  | nmos =>
    have hw' := hw (by decide)
    have hs : WF dev6502.cfg s := hs
    have hop : 0 ≤ s.mem s.pc ∧ s.mem s.pc < 256 := by
      have := hs.mem s.pc; constfold at this; omega
    cases hd : decode .nmos (s.mem s.pc) with
    | some r => exact Py65.Props.C13.cycles_nmos6502 s hs hw' r.1 r.2 hd
    | none =>
      have h := (Py65.Props.C05.undeclared_dev6502 s hs hw' hop hd).2
      have e : (core s).waiting = false := hw'
      have e2 : (core s).mem (core s).pc = s.mem s.pc := rfl
      show (dev6502.step s).cycles = _
      simp only [stepCycles, e, e2, hd, h, Dev.variant]; simp
  | org16 =>
    have hw' := hw (by decide)
    have hs : WF dev65org16.cfg s := hs
    have hop : 0 ≤ s.mem s.pc ∧ s.mem s.pc < 256 := ⟨(hs.mem s.pc).1, h256 rfl⟩
    cases hd : decode .nmos (s.mem s.pc) with
    | some r => exact Py65.Props.C13.cycles_org16 s hs hw' r.1 r.2 hd
    | none =>
      have h := (Py65.Props.C05.undeclared_dev65org16 s hs hw' hop hd).2
      have e : (core s).waiting = false := hw'
      have e2 : (core s).mem (core s).pc = s.mem s.pc := rfl
      show (dev65org16.step s).cycles = _
      simp only [stepCycles, e, e2, hd, h, Dev.variant]; simp
  | cmos =>
    have hs : WF dev6502.cfg s := hs
    cases hw' : s.waiting with
    | true =>
      have e : (core s).waiting = true := hw'
      show (dev65c02.step s).cycles = _
      rw [Py65.Props.C13.wai_cycles s hw']; simp [stepCycles, e]
    | false =>
      have hop : 0 ≤ s.mem s.pc ∧ s.mem s.pc < 256 := by
        have := hs.mem s.pc; constfold at this; omega
      cases hd : decode .cmos (s.mem s.pc) with
      | some r => exact Py65.Props.C13.cycles_cmos_partial s hs hw' r.1 r.2 hd (hbra rfl hw')
      | none =>
        have h := (Py65.Props.C05.undeclared_dev65c02 s hs hw' hop hd).2
        have e : (core s).waiting = false := hw'
        have e2 : (core s).mem (core s).pc = s.mem s.pc := rfl
        show (dev65c02.step s).cycles = _
        simp only [stepCycles, e, e2, hd, h, Dev.variant]; simp

theorem irqCycles_waiting (s : St) : irqCycles (abs { s with waiting := false }) = irqCycles (abs s) := rfl

/-- One call that is not a reset adds exactly its documented cycles. -/
theorem op_cycles (d : Dev) (o : Op) (s : St) (hi : Inv d s) (hok : CycOK d o s)
    (hr : Op.isReset o = false) : (apply d o s).cycles = s.cycles + opCycles d o s := by
  cases o with
  | step => exact step_cycles_dev d s hi hok
  | irq =>
    cases d with
    | nmos => exact Py65.Props.C13.irq_cycles _ (Or.inl rfl) s
    | org16 => exact Py65.Props.C13.irq_cycles _ (Or.inr rfl) s
    | cmos => exact Py65.Props.C13.irq_cycles _ (Or.inl rfl) { s with waiting := false }
  | nmi =>
    cases d with
    | nmos => exact Py65.Props.C13.nmi_cycles _ s
    | org16 => exact Py65.Props.C13.nmi_cycles _ s
    | cmos => exact Py65.Props.C13.nmi_cycles _ { s with waiting := false }
  | reset a => simp [Op.isReset] at hr

/-- **C13 over histories.**  For every device and every reset-free list of calls, started in a
well-formed state: the cycle counter ends at its initial value plus the documented cycles of every
call along the run. -/
theorem cycles_history (d : Dev) (ops : List Op) (s : St) (hi : Inv d s) (hnr : NoReset ops)
    (hok : Along d (CycOK d) ops s) :
    (run d ops s).cycles = s.cycles + docCycles d ops s := by
  induction ops generalizing s with
  | nil => simp [docCycles]
  | cons o ops ih =>
    obtain ⟨h1, h2⟩ := hok
    have hr := hnr.head
    rw [run_cons, ih _ (apply_inv d o s hi (h1.toOpOK hr)) hnr.tail h2, op_cycles d o s hi h1 hr]
    simp only [docCycles]; omega

/-- The 6502: no side condition at all - any well-formed start state (any memory contents: declared and
undeclared opcodes, binary and decimal mode) and any reset-free list of calls. -/
theorem cycles_history_6502 (ops : List Op) (s : St) (hs : WF dev6502.cfg s) (hw : s.waiting = false)
    (hnr : NoReset ops) :
    (run .nmos ops s).cycles = s.cycles + docCycles .nmos ops s := by
  refine cycles_history .nmos ops s ⟨hs, fun _ => hw⟩ hnr ?_
  have : ∀ (ops : List Op) (s : St), Along .nmos (CycOK .nmos) ops s := by
    intro ops
    induction ops with
    | nil => intro _; trivial
    | cons o ops ih =>
      intro s
      refine ⟨?_, ih _⟩
      cases o <;> simp [CycOK]
  exact this ops s

/-! ### monotonicity -/

theorem baseCycles_nonneg (v : Variant) (mn : Mn) (mo : Mode) : 0 ≤ baseCycles v mn mo := by
  cases mn <;> cases mo <;> cases v <;> simp [baseCycles, Mn.isRead]

theorem instrCycles_nonneg (W : Nat) (v : Variant) (mn : Mn) (mo : Mode) (a : AState) :
    0 ≤ instrCycles W v mn mo a := by
  have := baseCycles_nonneg v mn mo
  unfold instrCycles
  split_ifs <;> omega

theorem stepCycles_nonneg (W : Nat) (v : Variant) (a : AState) : 0 ≤ stepCycles W v a := by
  unfold stepCycles
  split
  · decide
  · split
    · exact instrCycles_nonneg _ _ _ _ _
    · decide

theorem opCycles_nonneg (d : Dev) (o : Op) (s : St) : 0 ≤ opCycles d o s := by
  cases o with
  | step => exact stepCycles_nonneg _ _ _
  | irq => simp only [opCycles, irqCycles]; split <;> decide
  | nmi => simp [opCycles, nmiCycles]
  | reset a => simp [opCycles]

theorem docCycles_nonneg (d : Dev) (ops : List Op) (s : St) : 0 ≤ docCycles d ops s := by
  induction ops generalizing s with
  | nil => simp [docCycles]
  | cons o ops ih =>
    have := opCycles_nonneg d o s
    have := ih (apply d o s)
    simp only [docCycles]; omega

/-- The counter never decreases along a reset-free history. -/
theorem cycles_monotone_history (d : Dev) (ops : List Op) (s : St) (hi : Inv d s) (hnr : NoReset ops)
    (hok : Along d (CycOK d) ops s) : s.cycles ≤ (run d ops s).cycles := by
  rw [cycles_history d ops s hi hnr hok]
  have := docCycles_nonneg d ops s
  omega

/-- ... and, more finely, it is non-decreasing from EVERY intermediate point to the end: for every
split of the history, the counter after the first part is at most the counter at the end. -/
theorem cycles_monotone_prefix (d : Dev) (ops₁ ops₂ : List Op) (s : St) (hi : Inv d s)
    (hnr : NoReset (ops₁ ++ ops₂)) (hok : Along d (CycOK d) (ops₁ ++ ops₂) s) :
    s.cycles ≤ (run d ops₁ s).cycles ∧ (run d ops₁ s).cycles ≤ (run d (ops₁ ++ ops₂) s).cycles := by
  have hnr1 : NoReset ops₁ := fun o ho => hnr o (List.mem_append_left _ ho)
  have hnr2 : NoReset ops₂ := fun o ho => hnr o (List.mem_append_right _ ho)
  obtain ⟨hok1, hok2⟩ := (Along.append ops₁ ops₂ s).1 hok
  have hop1 : Along d (OpOK d) ops₁ s := by
    clear hok hok2 hnr hnr2
    induction ops₁ generalizing s with
    | nil => trivial
    | cons o ops ih =>
      exact ⟨hok1.1.toOpOK hnr1.head, ih _ (apply_inv d o s hi (hok1.1.toOpOK hnr1.head)) hnr1.tail hok1.2⟩
  have hi1 := (run_inv d ops₁ s hi hop1).2
  refine ⟨cycles_monotone_history d ops₁ s hi hnr1 hok1, ?_⟩
  rw [run_append]
  exact cycles_monotone_history d ops₂ _ hi1 hnr2 hok2

/-! ### histories with resets -/

theorem reset_cycles_dev (d : Dev) (a : Option Int) (s : St) : (d.reset a s).cycles = 0 := by
  cases d <;> cases a <;> rfl

/-- With `reset()` anywhere in the history: if the calls after some reset are reset-free (i.e. it is
the LAST reset), the counter at the end is exactly the documented sum of the calls since that reset -
whatever the counter was before.  (`OpOK`: the earlier calls are inside the quantifiers of C05, so
that the state the reset leaves is well-formed.) -/
theorem cycles_since_reset (d : Dev) (pre post : List Op) (a : Option Int) (s : St) (hi : Inv d s)
    (hpre : Along d (OpOK d) (pre ++ [Op.reset a]) s) (hnr : NoReset post)
    (hok : Along d (CycOK d) post (run d (pre ++ [Op.reset a]) s)) :
    (run d (pre ++ Op.reset a :: post) s).cycles =
      docCycles d post (run d (pre ++ [Op.reset a]) s) := by
  have e : pre ++ Op.reset a :: post = (pre ++ [Op.reset a]) ++ post := by simp
  have hi1 := (run_inv d _ s hi hpre).2
  rw [e, run_append, cycles_history d post _ hi1 hnr hok]
  have : (run d (pre ++ [Op.reset a]) s).cycles = 0 := by
    rw [run_append]; exact reset_cycles_dev d a _
  omega

/-! ### the 65C02 including BRA: an exact count -/

/-- BRA ($80) on the 65C02 adds one cycle less than documented (2, or 3 when the target is in another
page; the data sheet says 3 / 4): the known finding, as a statement about `step()`. -/
theorem bra_step_cycles (s : St) (hs : WF dev65c02.cfg s) (hw : s.waiting = false)
    (hop : s.mem s.pc = 0x80) :
    (dev65c02.step s).cycles = s.cycles + stepCycles 8 .cmos (core s) - 1 := by
  have hc : IsDev dev65c02.cfg := Or.inl rfl
  rw [Py65.Props.C02.step_not_waiting s hw, Py65.Proofs.step_cycles, hop]
  have hinst : dev65c02.tbl.instruct 0x80 = Mpu65c02.inst_0x80 dev65c02.cfg := dev65c02.instruct_80
  have hct : dev65c02.tbl.cycletime 0x80 = 1 := by decide +kernel
  rw [hinst, hct]
  have hf := afterFetch_WF _ hc dev65c02.tbl s hs
  have e1 : (Mpu65c02.inst_0x80 dev65c02.cfg (afterFetch dev65c02.cfg dev65c02.tbl s)).cycles = s.cycles :=
    BranchRelAddr_cycles _ _
  have e2 := BranchRelAddr_cyc _ hc _ hf
  have e3 : (afterFetch dev65c02.cfg dev65c02.tbl s).excycles = 0 := rfl
  have e4 : core (afterFetch dev65c02.cfg dev65c02.tbl s) = { core s with pc := (s.pc + 1) % AM 8 } := by
    simp [afterFetch, core, AM, dev65c02_cfg, pyarith]
  have hd : decode .cmos (s.mem s.pc) = some (.BRA, .rel) := by rw [hop]; decide
  rw [e1, show Mpu65c02.inst_0x80 dev65c02.cfg = Mpu6502.BranchRelAddr dev65c02.cfg from rfl, e2, e3, e4,
    Py65.Props.C13.stepCycles_decl 8 .cmos (core s) .BRA .rel hw hd]
  have eb : dev65c02.cfg.BYTE_WIDTH = 8 := rfl
  simp only [instrCycles, baseCycles, Mn.isRead, isBranch, branchCond, eb]
  simp
  simp only [show (core s).pc = s.pc from rfl]
  split_ifs <;> omega

/-- How many BRA instructions a history executes (non-waiting 65C02 steps at opcode `$80`). -/
def braCount : List Op → St → Int
  | [], _ => 0
  | o :: ops, s =>
    (if o = Op.step ∧ s.waiting = false ∧ s.mem s.pc = 0x80 then 1 else 0) + braCount ops (apply .cmos o s)

/-- 65C02, EVERY reset-free history (BRA included): documented sum minus one per executed BRA. -/
theorem cycles_history_65c02_exact (ops : List Op) (s : St) (hs : WF dev65c02.cfg s) (hnr : NoReset ops) :
    (run .cmos ops s).cycles = s.cycles + docCycles .cmos ops s - braCount ops s := by
  induction ops generalizing s with
  | nil => simp [docCycles, braCount]
  | cons o ops ih =>
    have hr := hnr.head
    have hi : Inv .cmos s := ⟨hs, fun h => absurd rfl h⟩
    have hop : OpOK .cmos o s := by
      cases o with
      | step => intro h; cases h
      | irq => trivial
      | nmi => trivial
      | reset a => simp [Op.isReset] at hr
    have hi' := apply_inv .cmos o s hi hop
    rw [run_cons, ih _ hi'.1 hnr.tail]
    simp only [docCycles, braCount]
    by_cases hb : o = Op.step ∧ s.waiting = false ∧ s.mem s.pc = 0x80
    · have hb' := hb
      obtain ⟨rfl, hw, hop⟩ := hb'
      have h1 : (apply .cmos .step s).cycles = s.cycles + opCycles .cmos .step s - 1 :=
        bra_step_cycles s hs hw hop
      rw [if_pos hb]
      omega
    · have hok : CycOK .cmos o s := by
        cases o with
        | step => exact ⟨fun _ hw h80 => hb ⟨rfl, hw, h80⟩, fun h => by cases h⟩
        | irq => trivial
        | nmi => trivial
        | reset a => trivial
      have := op_cycles .cmos o s hi hok hr
      simp only [if_neg hb]
      omega

/-- The documented count of a BRA is at least 3, so the deviation never makes the counter go back. -/
theorem bra_doc_ge (s : St) (hw : s.waiting = false) (hop : s.mem s.pc = 0x80) :
    3 ≤ stepCycles 8 .cmos (core s) := by
  have hd : decode .cmos (s.mem s.pc) = some (.BRA, .rel) := by rw [hop]; decide
  rw [Py65.Props.C13.stepCycles_decl 8 .cmos (core s) .BRA .rel hw hd]
  simp only [instrCycles, baseCycles, Mn.isRead, isBranch, branchCond]
  simp
  split_ifs <;> omega

/-- 65C02: the counter never decreases along ANY reset-free history (BRA included, no side condition). -/
theorem cycles_monotone_history_65c02 (ops : List Op) (s : St) (hs : WF dev65c02.cfg s) (hnr : NoReset ops) :
    s.cycles ≤ (run .cmos ops s).cycles := by
  induction ops generalizing s with
  | nil => exact Int.le_refl _
  | cons o ops ih =>
    have hr := hnr.head
    have hi : Inv .cmos s := ⟨hs, fun h => absurd rfl h⟩
    have hop : OpOK .cmos o s := by
      cases o with
      | step => intro h; cases h
      | irq => trivial
      | nmi => trivial
      | reset a => simp [Op.isReset] at hr
    have hi' := apply_inv .cmos o s hi hop
    have h2 := ih _ hi'.1 hnr.tail
    rw [run_cons]
    refine Int.le_trans ?_ h2
    by_cases hb : o = Op.step ∧ s.waiting = false ∧ s.mem s.pc = 0x80
    · obtain ⟨rfl, hw, hop⟩ := hb
      have h1 : (apply .cmos .step s).cycles = s.cycles + stepCycles 8 .cmos (core s) - 1 :=
        bra_step_cycles s hs hw hop
      have := bra_doc_ge s hw hop
      omega
    · have hok : CycOK .cmos o s := by
        cases o with
        | step => exact ⟨fun _ hw h80 => hb ⟨rfl, hw, h80⟩, fun h => by cases h⟩
        | irq => trivial
        | nmi => trivial
        | reset a => trivial
      have := op_cycles .cmos o s hi hok hr
      have := opCycles_nonneg .cmos o s
      omega

/-! ### non-vacuity -/

/-- A concrete 6502 history: `LDA $12FF,X` with X = 1 (page crossing, 5 cycles), then `nmi()` (7), then an
undeclared opcode byte (0), then a masked `irq()` (0: nmi set I): the documented sum is 12, and the
generated device's counter, started at 100, ends at 112. -/
def demoState : St :=
  { (default : St) with x := 1, cycles := 100, mem := fun k => if k = 0 then 0xbd else if k = 1 then 0xff else if k = 2 then 0x12 else if k = 0xfffa then 0x00 else if k = 0xfffb then 0x80 else 0x02 }

def demoOps : List Op := [.step, .nmi, .step, .irq]

example : docCycles .nmos demoOps demoState = 12 ∧ (run .nmos demoOps demoState).cycles = 112 := by
  decide +kernel

example : WF dev6502.cfg demoState ∧ demoState.waiting = false ∧ NoReset demoOps := by
  refine ⟨⟨by decide, by decide, by decide, by decide, by decide, by decide, ?_⟩, rfl, ?_⟩
  · intro k; simp only [demoState]; (repeat' split) <;> decide
  · intro o ho; simp only [demoOps, List.mem_cons, List.mem_nil_iff, or_false] at ho
    rcases ho with rfl | rfl | rfl | rfl <;> rfl

/-- The 65C02 exact theorem is not vacuous either: `BRA +0` executed once costs 2 where 3 is documented. -/
def braState : St := { (default : St) with mem := fun k => if k = 0 then 0x80 else 0x00 }

example : docCycles .cmos [.step] braState = 3 ∧ braCount [.step] braState = 1 ∧
    (run .cmos [.step] braState).cycles = 2 := by decide +kernel

end Py65.Props.C13h
