/-
C17 -- "Monitor run control equals stepping the bare device and stops where documented".

Property theorems only (helper lemmas: `Py65/Proofs/MonRunLemmas.lean`).  They are about the
hand-written model `Py65/Model/MonRun.lean` of `Monitor._run / do_goto / do_return / do_step /
do_add_breakpoint / do_delete_breakpoint`; the model is tied to the real monitor by the
correspondence of `harness/props/c17.py` (driver lines `run …`, instantiated with the GENERATED
device step functions `Py65.Gen.devXXXX.step`, and `mon …` for breakpoint histories).

Reading guide.  `step : St → St` is ANY function: every theorem holds in particular for the three
generated devices, and "stepping a bare device `n` times" is literally `step^[n] s` (registers,
cycle count, memory function and access log are all fields of `St`).  A breakpoint list is
`List (Option Int)` (`none` = the slot of a deleted breakpoint).  `fuel` only bounds the model's
loop (the Python loop may not terminate); `run … = some r` means the loop ended.
-/
import Py65.Proofs.MonRunLemmas

namespace Py65.Props.C17
open Py65 Py65.Model.MonRun

/-- `run_is_iterate` (generic loop): the do-while loop ends after `n` iterations in `s'` iff `n`
is the LEAST number `≥ 1` of steps after which the exit test holds (and `n ≤ fuel`); then
`s' = step^[n] s`. -/
theorem runLoop_is_iterate (step : St → St) (stop : St → Bool) (fuel : Nat) (s : St) (n : Nat) (s' : St) :
    runLoop step stop fuel s = some (n, s') ↔
      (1 ≤ n ∧ n ≤ fuel ∧ s' = step^[n] s ∧ stop (step^[n] s) = true ∧
        ∀ m, 0 < m → m < n → stop (step^[m] s) = false) := by
  constructor
  · intro h
    obtain ⟨h1, h2, h3, h4, h5⟩ := runLoop_sound step stop fuel s n s' h
    exact ⟨h1, h2, h3, h3 ▸ h4, h5⟩
  · rintro ⟨h1, h2, rfl, h4, h5⟩
    exact runLoop_complete step stop fuel s n h1 h2 h4 h5

/-- non-vacuity: a "device" that only counts (`pc := pc + 1`), stop test `pc = 3`, from `pc = 0`:
the loop ends after exactly 3 steps; started AT the stop state (`pc = 3`) it still takes a step
first and so never stops again (within any fuel). -/
example :
    let step : St → St := fun s => { s with pc := s.pc + 1 }
    let stop : St → Bool := fun s => s.pc == 3
    ((runLoop step stop 10 { (default : St) with pc := 0 }).map fun r => (r.1, r.2.pc)) = some (3, 3) ∧
    ((runLoop step stop 10 { (default : St) with pc := 3 }).map fun r => (r.1, r.2.pc)) = none := by
  decide

/-- `run_is_iterate`: if `_run(stopcodes)` with the breakpoint list `bps` ends, then it made
`n ≥ 1` calls of `mpu.step()`, the device is exactly `step^[n] s` -- what stepping the bare device
`n` times from the same state gives --, the stop condition (the cell at PC is a stop code, or PC
is an active breakpoint) holds there and held after no earlier `0 < m < n` steps; "Breakpoint k
reached." is printed iff the stop was not a stop code, and `k` is the first position of PC in
the list. -/
theorem run_is_iterate (step : St → St) (codes : List Int) (bps : List (Option Int)) (fuel : Nat)
    (s : St) (r : RunRes) (h : run step codes bps fuel s = some r) :
    1 ≤ r.steps ∧ r.steps ≤ fuel ∧ r.st = step^[r.steps] s ∧
    (atStopcode codes r.st = true ∨ atBreakpoint bps r.st = true) ∧
    (∀ m, 0 < m → m < r.steps →
      atStopcode codes (step^[m] s) = false ∧ atBreakpoint bps (step^[m] s) = false) ∧
    r.hit = (if atStopcode codes r.st then none else some (indexOf bps r.st.pc)) := by
  unfold run at h
  by_cases he : bps.isEmpty = true
  · have hb : bps = [] := List.isEmpty_iff.1 he
    subst hb
    simp only [List.isEmpty_nil, if_true] at h
    cases hr : runLoop step (stopPlain codes) fuel s with
    | none => simp [hr] at h
    | some p =>
      obtain ⟨n, t⟩ := p
      obtain ⟨h1, h2, h3, h4, h5⟩ := runLoop_sound _ _ _ _ _ _ hr
      simp only [hr, Option.map_some, Option.some.injEq] at h
      subst h
      simp only [stopPlain] at h4 h5
      refine ⟨h1, h2, h3, Or.inl h4, fun m a b => ⟨h5 m a b, by simp [atBreakpoint]⟩, by simp [h4]⟩
  · simp only [he, Bool.false_eq_true, if_false] at h
    cases hr : runLoop step (stopBp codes bps) fuel s with
    | none => simp [hr] at h
    | some p =>
      obtain ⟨n, t⟩ := p
      obtain ⟨h1, h2, h3, h4, h5⟩ := runLoop_sound _ _ _ _ _ _ hr
      simp only [hr, Option.map_some, Option.some.injEq] at h
      subst h
      simp only [stopBp, Bool.or_eq_true] at h4
      refine ⟨h1, h2, h3, h4, ?_, ?_⟩
      · intro m a b
        have := h5 m a b
        simpa [stopBp, Bool.or_eq_false_iff] using this
      · simp only [hitReport]
        cases hc : atStopcode codes t with
        | true => simp
        | false =>
          have : atBreakpoint bps t = true := by simpa [hc] using h4
          simp [this]

/-- ... and conversely: if after `n ≥ 1` steps the stop condition holds for the first time, the
run ends exactly there, for every fuel `≥ n` (so the result does not depend on the fuel). -/
theorem run_complete (step : St → St) (codes : List Int) (bps : List (Option Int)) (fuel : Nat)
    (s : St) (n : Nat) (h1 : 1 ≤ n) (h2 : n ≤ fuel)
    (hstop : stopBp codes bps (step^[n] s) = true)
    (hfirst : ∀ m, 0 < m → m < n → stopBp codes bps (step^[m] s) = false) :
    ∃ r, run step codes bps fuel s = some r ∧ r.steps = n ∧ r.st = step^[n] s := by
  unfold run
  by_cases he : bps.isEmpty = true
  · have hb : bps = [] := List.isEmpty_iff.1 he
    subst hb
    have e : stopBp codes [] = stopPlain codes := by
      funext t; simp [stopBp, stopPlain, atBreakpoint]
    rw [e] at hstop hfirst
    simp only [List.isEmpty_nil, if_true, runLoop_complete step _ fuel s n h1 h2 hstop hfirst, Option.map_some]
    exact ⟨_, rfl, rfl, rfl⟩
  · simp only [he, Bool.false_eq_true, if_false, runLoop_complete step _ fuel s n h1 h2 hstop hfirst,
      Option.map_some]
    exact ⟨_, rfl, rfl, rfl⟩

/-- `goto a` is `_run([BRK])` from the same state with PC set to `a`; `return` is
`_run([RTS, RTI])`; `step` is exactly one `mpu.step()`.  (Definitional: the model's commands ARE
these compositions, so `run_is_iterate` applies to each.) -/
theorem commands_are_runs (step : St → St) (bps : List (Option Int)) (fuel : Nat) (a : Int) (s : St) :
    goto step bps fuel a s = run step [0x00] bps fuel { s with pc := a } ∧
    ret step bps fuel s = run step [0x60, 0x40] bps fuel s ∧
    (stepCmd step s).steps = 1 ∧ (stepCmd step s).st = step^[1] s ∧ (stepCmd step s).hit = none :=
  ⟨rfl, rfl, rfl, rfl, rfl⟩

/-- non-vacuity for `goto` with a breakpoint: counting device over a memory that holds BRK (0) only
at address 5; breakpoints `[none, some 3]` (number 0 deleted, number 1 at $3).  `goto 1` stops
after 2 steps at PC = 3 and reports breakpoint 1; with that breakpoint deleted too it runs on to
the BRK at 5 (4 steps) and reports nothing. -/
example :
    let step : St → St := fun s => { s with pc := s.pc + 1, cycles := s.cycles + 2 }
    let s0 : St := { (default : St) with mem := fun k => if k = 5 then 0 else 0xea }
    ((goto step [none, some 3] 20 1 s0).map fun r => (r.steps, r.st.pc, r.st.cycles, r.hit)) = some (2, 3, 4, some 1) ∧
    ((goto step [none, none] 20 1 s0).map fun r => (r.steps, r.st.pc, r.st.cycles, r.hit)) = some (4, 5, 8, none) := by
  decide

/-- `run_variants_agree`: with no ACTIVE breakpoint (the list is empty or holds only deleted
slots) the two loops of `_run` compute the same: same number of steps, same device state, and
nothing is reported. -/
theorem run_variants_agree (step : St → St) (codes : List Int) (bps : List (Option Int)) (fuel : Nat)
    (s : St) (hno : ∀ b ∈ bps, b = none) :
    runLoop step (stopBp codes bps) fuel s = runLoop step (stopPlain codes) fuel s ∧
    (∀ t, hitReport codes bps t = none) ∧
    (run step codes bps fuel s).map (fun r => (r.steps, r.hit)) =
      (run step codes [] fuel s).map (fun r => (r.steps, r.hit)) ∧
    (run step codes bps fuel s).map (·.st.pc) = (run step codes [] fuel s).map (·.st.pc) ∧
    ∀ r r', run step codes bps fuel s = some r → run step codes [] fuel s = some r' →
      r.steps = r'.steps ∧ r.st = r'.st ∧ r.hit = r'.hit := by
  have hbp : ∀ t, atBreakpoint bps t = false := by
    intro t
    unfold atBreakpoint
    cases hc : bps.contains (some t.pc) with
    | false => rfl
    | true =>
      have := hno _ (List.contains_iff_mem.1 hc)
      cases this
  have hstop : stopBp codes bps = stopPlain codes := by
    funext t; simp [stopBp, stopPlain, hbp t]
  have hhit : ∀ t, hitReport codes bps t = none := by
    intro t; simp [hitReport, hbp t]
  have hrun : ∀ r r', run step codes bps fuel s = some r → run step codes [] fuel s = some r' →
      r.steps = r'.steps ∧ r.st = r'.st ∧ r.hit = r'.hit := by
    intro r r' h1 h2
    unfold run at h1 h2
    simp only [List.isEmpty_nil, if_true] at h2
    cases hr : runLoop step (stopPlain codes) fuel s with
    | none => simp [hr] at h2
    | some p =>
      simp only [hr, Option.map_some, Option.some.injEq] at h2
      subst h2
      by_cases he : bps.isEmpty = true
      · simp only [he, if_true, hr, Option.map_some, Option.some.injEq] at h1
        subst h1; exact ⟨rfl, rfl, rfl⟩
      · simp only [he, Bool.false_eq_true, if_false, hstop, hr, Option.map_some, Option.some.injEq] at h1
        subst h1; exact ⟨rfl, rfl, hhit _⟩
  refine ⟨by rw [hstop], hhit, ?_, ?_, hrun⟩
  · cases h1 : run step codes bps fuel s with
    | none =>
      cases h2 : run step codes [] fuel s with
      | none => rfl
      | some r' =>
        exfalso
        unfold run at h1 h2
        simp only [List.isEmpty_nil, if_true] at h2
        by_cases he : bps.isEmpty = true
        · cases hr : runLoop step (stopPlain codes) fuel s <;> simp_all
        · simp only [he, Bool.false_eq_true, if_false, hstop] at h1
          cases hr : runLoop step (stopPlain codes) fuel s <;> simp_all
    | some r =>
      cases h2 : run step codes [] fuel s with
      | none =>
        exfalso
        unfold run at h1 h2
        simp only [List.isEmpty_nil, if_true] at h2
        by_cases he : bps.isEmpty = true
        · cases hr : runLoop step (stopPlain codes) fuel s <;> simp_all
        · simp only [he, Bool.false_eq_true, if_false, hstop] at h1
          cases hr : runLoop step (stopPlain codes) fuel s <;> simp_all
      | some r' =>
        obtain ⟨a, _, c⟩ := hrun r r' h1 h2
        simp [a, c]
  · cases h1 : run step codes bps fuel s with
    | none =>
      cases h2 : run step codes [] fuel s with
      | none => rfl
      | some r' =>
        exfalso
        unfold run at h1 h2
        simp only [List.isEmpty_nil, if_true] at h2
        by_cases he : bps.isEmpty = true
        · cases hr : runLoop step (stopPlain codes) fuel s <;> simp_all
        · simp only [he, Bool.false_eq_true, if_false, hstop] at h1
          cases hr : runLoop step (stopPlain codes) fuel s <;> simp_all
    | some r =>
      cases h2 : run step codes [] fuel s with
      | none =>
        exfalso
        unfold run at h1 h2
        simp only [List.isEmpty_nil, if_true] at h2
        by_cases he : bps.isEmpty = true
        · cases hr : runLoop step (stopPlain codes) fuel s <;> simp_all
        · simp only [he, Bool.false_eq_true, if_false, hstop] at h1
          cases hr : runLoop step (stopPlain codes) fuel s <;> simp_all
      | some r' =>
        obtain ⟨_, b, _⟩ := hrun r r' h1 h2
        simp [b]

/-- non-vacuity: `[none, none]` (two deleted breakpoints) takes the second loop of `_run`. -/
example : ([none, none] : List (Option Int)).isEmpty = false ∧ ∀ b ∈ ([none, none] : List (Option Int)), b = none := by
  decide

/-- `bp_numbers_fresh`: over ANY history of add / delete commands (adds of present addresses,
deletes of deleted, negative, out-of-range numbers included) started from the empty list, with
`adds` = the `(number, address)` pairs of the "Breakpoint n added" messages in order:

* the `j`-th successful add was given number `j` -- the list length at that moment --, so
  numbers are `0, 1, 2, …`: never reused;
* the list is as long as the number of successful adds, and slot `j` holds the address of the
  add that was given number `j`, or `None` once deleted: a slot is never given to another address;
* no address is active twice, hence for every active slot `i ↦ a` the number printed by
  "Breakpoint %d reached." (`_breakpoints.index(a)`) is `i`, the number it was given. -/
theorem bp_numbers_fresh (h : List BpCmd) :
    let r := runBps [] h
    let adds := addsOf r.1
    (∀ j (hj : j < adds.length), (adds[j]).1 = j) ∧
    r.2.length = adds.length ∧
    (∀ j (hj : j < adds.length), r.2[j]? = some (some (adds[j]).2) ∨ r.2[j]? = some none) ∧
    ActiveNodup r.2 ∧
    (∀ (i : Nat) (a : Int), r.2[i]? = some (some a) → indexOf r.2 a = i ∧
      ∃ hi : i < adds.length, adds[i] = (i, a)) := by
  intro r adds
  obtain ⟨i1, i2, i3, _, i5⟩ := runBps_inv h [] activeNodup_nil
  simp only [List.length_nil, Nat.zero_add] at i2 i3 i5
  refine ⟨i3, i2, i5, i1, ?_⟩
  intro i a hia
  refine ⟨indexOf_of_nodup _ i1 a i hia, ?_⟩
  have hil : i < r.2.length := by
    by_contra hl
    rw [List.getElem?_eq_none (by omega)] at hia
    cases hia
  have hi : i < adds.length := by rw [← i2]; exact hil
  refine ⟨hi, ?_⟩
  have h3 := i3 i hi
  have h5 := i5 i hi
  unfold SlotIs at h5
  rcases h5 with h5 | h5
  · rw [hia] at h5
    have : a = (adds[i]).2 := by simpa using h5
    rw [Prod.ext_iff]
    exact ⟨h3, this.symm⟩
  · rw [hia] at h5
    cases h5

/-- non-vacuity (the probe of the design round): add $10, add $20, add $10 again (refused),
delete 0, add $10 (gets the NEW number 2, not the free slot 0), delete 3 (`IndexError`: the bound
is off by one), delete 4 and delete -1 (`TypeError` of the two-argument `_output`), delete 0
again: the list ends as `[None, $20, $10]`. -/
example :
    runBps [] [.add 0x10, .add 0x20, .add 0x10, .del 0, .add 0x10, .del 3, .del 4, .del (-1), .del 0] =
      ([.added 0 0x10, .added 1 0x20, .present 0x10, .removed 0, .added 2 0x10, .indexError, .typeError,
        .typeError, .already 0], [none, some 0x20, some 0x10]) := by
  decide

/-- The failing commands of `do_delete_breakpoint` (number `< 0`, `> len` → `TypeError`;
`= len` → `IndexError`, the off-by-one) leave the list as it was. -/
theorem delete_bad_number_unchanged (bps : List (Option Int)) (k : Int) (h : k < 0 ∨ k ≥ bps.length) :
    (delBp bps k).2 = bps ∧ ((delBp bps k).1 = .typeError ∨ (delBp bps k).1 = .indexError) := by
  unfold delBp
  by_cases h1 : k < 0 ∨ k > bps.length
  · simp [h1]
  · have hk : k.toNat = bps.length := by omega
    simp only [h1, if_false, hk]
    simp

/-- `bp_deleted_inert`: after "Breakpoint k removed" the address `a` that slot `k` held is active
nowhere in the list, and a breakpoint that is not active never stops the loop: whenever a run with
a list in which `a` is not active ends with PC = `a`, it ended because the cell at PC is a stop
code -- the stop condition ignores `a` altogether -- and nothing is reported; every state the
loop passed through (and the end state) is treated exactly as by the list with the slot removed. -/
theorem bp_deleted_inert (step : St → St) (codes : List Int) (bps : List (Option Int)) (k : Nat) (a : Int)
    (hn : ActiveNodup bps) (hk : bps[k]? = some (some a)) :
    let bps' := (delBp bps k).2
    (delBp bps k).1 = .removed k ∧ bps' = bps.set k none ∧
    (∀ i : Nat, bps'[i]? ≠ some (some a)) ∧
    (∀ t : St, t.pc = a → atBreakpoint bps' t = false ∧ stopBp codes bps' t = atStopcode codes t) ∧
    (∀ t : St, stopBp codes bps' t = stopBp codes (bps.eraseIdx k) t) ∧
    (∀ fuel s, runLoop step (stopBp codes bps') fuel s = runLoop step (stopBp codes (bps.eraseIdx k)) fuel s) ∧
    (∀ fuel s r, run step codes bps' fuel s = some r → r.st.pc = a →
      atStopcode codes r.st = true ∧ r.hit = none) := by
  intro bps'
  have hkl : k < bps.length := by
    by_contra hl
    rw [List.getElem?_eq_none (by omega)] at hk
    cases hk
  have hdel : delBp bps k = (.removed k, bps.set k none) := by
    unfold delBp
    have h1 : ¬ ((k : Int) < 0 ∨ (k : Int) > bps.length) := by omega
    simp only [h1, if_false, Int.toNat_natCast, hk]
  have hb' : bps' = bps.set k none := by simp [bps', hdel]
  have hnot : ∀ i : Nat, bps'[i]? ≠ some (some a) := by
    intro i hi
    rw [hb'] at hi
    obtain ⟨h1, h2⟩ := set_none_getElem? _ _ _ _ hi
    exact h2 (hn i k a h1 hk)
  have hbp : ∀ t : St, t.pc = a → atBreakpoint bps' t = false := by
    intro t ht
    unfold atBreakpoint
    cases hc : bps'.contains (some t.pc) with
    | false => rfl
    | true =>
      obtain ⟨i, hi⟩ := (contains_some_iff bps' t.pc).1 hc
      rw [ht] at hi
      exact absurd hi (hnot i)
  have hsame : ∀ t : St, atBreakpoint bps' t = atBreakpoint (bps.eraseIdx k) t := by
    intro t
    unfold atBreakpoint
    rw [Bool.eq_iff_iff, contains_some_iff, contains_some_iff, hb']
    constructor
    · rintro ⟨i, hi⟩
      obtain ⟨h1, h2⟩ := set_none_getElem? _ _ _ _ hi
      by_cases hik : i < k
      · exact ⟨i, by rw [List.getElem?_eraseIdx]; simp [hik, h1]⟩
      · refine ⟨i - 1, ?_⟩
        rw [List.getElem?_eraseIdx]
        have : ¬ (i - 1 < k) := by omega
        simp only [this, if_false]
        have e : i - 1 + 1 = i := by omega
        rw [e]; exact h1
    · rintro ⟨i, hi⟩
      rw [List.getElem?_eraseIdx] at hi
      by_cases hik : i < k
      · simp only [hik, if_true] at hi
        exact ⟨i, by rw [List.getElem?_set]; simp [show k ≠ i by omega, hi]⟩
      · simp only [hik, if_false] at hi
        exact ⟨i + 1, by rw [List.getElem?_set]; simp [show k ≠ i + 1 by omega, hi]⟩
  have hstop : ∀ t : St, stopBp codes bps' t = stopBp codes (bps.eraseIdx k) t := by
    intro t; simp [stopBp, hsame t]
  refine ⟨by rw [hdel], hb', hnot, fun t ht => ⟨hbp t ht, by simp [stopBp, hbp t ht]⟩, hstop,
    fun fuel s => by rw [funext hstop], ?_⟩
  intro fuel s r hr hpc
  obtain ⟨_, _, _, h4, _, h6⟩ := run_is_iterate step codes bps' fuel s r hr
  have hc : atStopcode codes r.st = true := by
    rcases h4 with h4 | h4
    · exact h4
    · rw [hbp r.st hpc] at h4; cases h4
  exact ⟨hc, by rw [h6]; simp [hc]⟩

/-- non-vacuity: breakpoint 0 at $3 deleted from `[some 3, some 7]`; counting device, BRK only at 5:
`goto 1` passes $3 (4 steps to the BRK), whereas before the deletion it stopped at $3 after 2. -/
example :
    let step : St → St := fun s => { s with pc := s.pc + 1 }
    let s0 : St := { (default : St) with mem := fun k => if k = 5 then 0 else 0xea }
    (delBp [some 3, some 7] 0).2 = [none, some 7] ∧
    ((goto step (delBp [some 3, some 7] 0).2 20 1 s0).map fun r => (r.steps, r.st.pc, r.hit)) = some (4, 5, none) ∧
    ((goto step [some 3, some 7] 20 1 s0).map fun r => (r.steps, r.st.pc, r.hit)) = some (2, 3, some 0) := by
  decide

end Py65.Props.C17
