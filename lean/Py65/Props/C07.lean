/-
C07 -- The assembler emits the documented encoding or refuses; it never mis-assembles.

Property statements only (helper lemmas: Py65/Proofs/AsmLemmas.lean, device facts:
Py65/Proofs/AsmTables.lean), about the hand model `Py65.Model.Asm` of `py65/assembler.py` on the three
device records built from the GENERATED tables.  The oracle is `Py65.Spec.Asm` (documented encoding
from the tables of `Spec/Isa.lean`).

* `assembleVal d m sh x pc` (Proofs/AsmLemmas) is the model's back end -- the ordered template loop,
  `list.index`, byte swap, branch computation, top-of-memory check -- applied to the operand text
  that `normalize_and_split` produces for the operand shape `sh` and the operand value `x`, after the
  range check it applies to `x`.  `m` is ANY mnemonic text (declared by the device or not), `x` and
  `pc` are ANY integers.
* `asm_core`            on canonical operand text the back end returns exactly `Spec.encode` or the
                        right refusal: every device, every (mnemonic, shape) -- hence every
                        (mnemonic, mode) pair, also those the device lacks --, every value in and out
                        of range, every pc including code running past the top.
* `asm_zp_order`, `asm_abs_form`   which of the zero-page / absolute twins is produced.
* `asm_branch`, `disp_spec`        displacement, range check, wrap at the top of memory.
* `asm_backend_sound`   never mis-assembles (back end): bytes come back only for an operand text that
                        IS the canonical text of some (shape, value), and they are its documented
                        encoding.
* `asm_refusals`        the only refusals are SyntaxError / OverflowError / KeyError.

String level (the whole of `assemble`: `' '.join(split())`, the `Statement` scanner, `number`,
re-formatting, `split(" ", 1)`, blank removal, `strip`, `upper`, then the back end):
* `asm_text`, `asm_text_imm`, `asm_text_char`, `asm_text_acc`, `asm_text_none`
                        a statement written as  blanks MNEMONIC blanks <tokens of the shape with any
                        blanks/tabs between and around them>  with an operand word that
                        `AddressParser.number` values at `x` assembles exactly as `assembleVal` does for
                        `(MNEMONIC upper-cased, shape, x)` -- hence (with `asm_core`) to `Spec.encode`;
                        an operand word without value is the parser's KeyError / OverflowError.  With
                        the spellings theorems of C15 (`num_hex`, `num_dec`, `num_bin`, `num_bare`,
                        `num_label`, `num_label_offset`) this is "however the operand is spelled".
* `asm_ws_case`         invariance under blanks/tabs and letter case (mnemonic, X/Y register letter).
* `asm_total`           for EVERY text the result is bytes or one of the three refusals.
* `asm_sound_partial`   "never mis-assembles" for every text, first half: if bytes come back then
                        `normalize_and_split` produced an (opcode, operand) pair whose operand is the canonical
                        text of some (shape, value) and the bytes are the documented encoding of (opcode, shape,
                        value).
* `asm_sound`           "never mis-assembles" for every text, FULL (lemmas: Py65/Proofs/AsmSound.lean): if bytes
                        come back for a text `s` then the token sequence of the ORIGINAL text denotes a
                        statement under the documented syntax, `Spec.Asm.parse s = some (m, sh, w)`, the operand
                        word has a value, `value P sh w = .ok x` (`numberL P w`, or `ord c` for a character
                        literal `'c'`; 0 where the shape has no operand), and the bytes are `Spec.encode` of
                        `(m, sh, x)` at `pc` (`asm_sound_documented`: the same with `Documented`).  This is the
                        inversion of the `Statement` scanner, `before.split(" ", 1)`, the `target` rewriting and
                        the fall-back `statement.split(" ", 1)` for ARBITRARY text.
                        Hypotheses: the parser has the device's address width and in-range label values (as in
                        `asm_text`), and NO LABEL NAME CONTAINS `(` (`LabelsNoParen`, decidable).  The last one
                        is necessary: `asm_sound_label_paren` -- with a label `a(b` the text `LDA a(b` assembles
                        to `A5 05` although its tokens `LDA a ( b` denote nothing (the scanner's operand class
                        `[^,\s\)]` lets `(` into the operand word; label names are not restricted by py65).
                        Proving it corrected the Spec's tokeniser in two places (see Spec/Asm.lean): white space
                        is everything `str.split()` splits at, and a character literal `#'('` is one token
                        (`asm_sound_charlit_paren`, `asm_sound_newline` show the two texts that the former
                        tokeniser read differently from the assembler).
-/
import Py65.Proofs.AsmRound
import Py65.Proofs.AsmSound
import Py65.Props.C15

namespace Py65.Props.C07
open Py65.Model Py65.Model.PyStr Py65.Model.AddrParser Py65.Model.Asm
open Py65.Proofs.Asm
open Py65.Spec (Mode Mn Variant decode)
open Py65.Spec.Asm (opcodeOf Shape Outcome Refusal Stmt encode encodeIn encodeAbs Documented disp isZp fits
  operandBytes mnText)

variable {d : Dev} {v : Variant} {W : Nat}

/-- `asm_core`: for every device, every mnemonic text, every operand shape, every operand value and
every assembly address, the back end on the canonical operand text returns exactly the documented
encoding, or the documented refusal. -/
theorem asm_core (hd : IsDevice d v W) (m : Str) (sh : Shape) (x pc : Int) :
    assembleVal d m sh x pc = toARes (encode v W ⟨m, sh, x⟩ pc) :=
  asm_core_gen hd.ok m sh x pc

-- non-vacuity: declared pair; operand low then high; pair the device lacks; value out of range;
-- code running past the top; 65C02-only mode; 16-bit bytes
example : assembleVal dev6502 "LDA".toList .dirX 0x1234 0 = .ok [0xbd, 0x34, 0x12] := by decide +kernel
example : assembleVal dev6502 "STX".toList .dirY 0x1234 0 = .syntax := by decide +kernel
example : assembleVal dev6502 "LDA".toList .imm 256 0 = .overflow := by decide +kernel
example : assembleVal dev6502 "LDA".toList .dir 0x10000 0 = .overflow := by decide +kernel
example : assembleVal dev6502 "LDA".toList .dir 0x10 0xffff = .overflow := by decide +kernel
example : assembleVal dev6502 "LDA".toList .dir 0x10 0xfffe = .ok [0xa5, 0x10] := by decide +kernel
example : assembleVal dev65c02 "JMP".toList .indX 0x1234 0 = .ok [0x7c, 0x34, 0x12] := by decide +kernel
example : assembleVal dev6502 "JMP".toList .indX 0x1234 0 = .syntax := by decide +kernel
example : assembleVal dev65org16 "LDA".toList .dir 0x12345 0 = .ok [0xad, 0x2345, 0x1] := by decide +kernel
example : assembleVal dev6502 "???".toList .none 0 0 = .syntax := by decide +kernel

/-- Whatever comes back as bytes is a documented encoding of the statement. -/
theorem asm_core_documented (hd : IsDevice d v W) (m : Str) (sh : Shape) (x pc : Int) (bs : List Int)
    (h : assembleVal d m sh x pc = .ok bs) : Documented v W ⟨m, sh, x⟩ pc bs := by
  rw [asm_core hd] at h
  left
  cases he : encode v W ⟨m, sh, x⟩ pc with
  | ok bs' => rw [he] at h; simp only [toARes] at h; cases h; rfl
  | refuse r => rw [he] at h; cases r <;> simp [toARes] at h

/-- The three shapes that have a zero-page and an absolute form. -/
inductive Twin : Shape → Mode → Mode → Prop
  | dir : Twin .dir .zpg .abs
  | dirX : Twin .dirX .zpx .abx
  | dirY : Twin .dirY .zpy .aby

/-- `asm_zp_order`: an operand below one page is assembled in the zero-page form whenever the
device declares that form for the mnemonic (whether or not it also declares the absolute form). -/
theorem asm_zp_order (hd : IsDevice d v W) (m : Str) {sh : Shape} {zp ab : Mode} (ht : Twin sh zp ab)
    (x pc : Int) (hx : 0 ≤ x ∧ x < 2 ^ W) (op : Nat) (hop : opcodeOf v m zp = some op)
    (hpc : pc + 2 ≤ 2 ^ (2 * W)) :
    assembleVal d m sh x pc = .ok [(op : Int), x] := by
  rw [asm_core hd]
  have hW := hd.ok.hW
  have hx2 : x < 2 ^ (2 * W) := by rcases hW with rfl | rfl <;> omega
  have hnot : ¬ 2 ^ (2 * W) < pc + 2 := by omega
  cases ht <;>
    simp [encode, Shape.inRange, Shape.modes, encodeIn, hop, fits, isZp, operandBytes, Mode.len, hx, hx2,
      hnot, toARes]

/-- `asm_abs_form`: when the zero-page form does not apply (the device lacks it for the mnemonic, or
the operand is a page or more), the absolute form is assembled: opcode, low byte, high byte. -/
theorem asm_abs_form (hd : IsDevice d v W) (m : Str) {sh : Shape} {zp ab : Mode} (ht : Twin sh zp ab)
    (x pc : Int) (hx : 0 ≤ x ∧ x < 2 ^ (2 * W)) (hzp : opcodeOf v m zp = none ∨ 2 ^ W ≤ x)
    (op : Nat) (hop : opcodeOf v m ab = some op) (hpc : pc + 3 ≤ 2 ^ (2 * W)) :
    assembleVal d m sh x pc = .ok [(op : Int), x % 2 ^ W, x / 2 ^ W] := by
  rw [asm_core hd]
  have hnot : ¬ 2 ^ (2 * W) < pc + 3 := by omega
  rcases hzp with hz | hz
  · cases ht <;>
      simp [encode, Shape.inRange, Shape.modes, encodeIn, hop, hz, fits, isZp, operandBytes, Mode.len, hx,
        hnot, toARes]
  · have : ¬ x < 2 ^ W := by omega
    cases ht
    · cases hz' : opcodeOf v m .zpg <;>
        simp [encode, Shape.inRange, Shape.modes, encodeIn, hop, hz', this, fits, isZp, operandBytes,
          Mode.len, hx, hnot, toARes]
    · cases hz' : opcodeOf v m .zpx <;>
        simp [encode, Shape.inRange, Shape.modes, encodeIn, hop, hz', this, fits, isZp, operandBytes,
          Mode.len, hx, hnot, toARes]
    · cases hz' : opcodeOf v m .zpy <;>
        simp [encode, Shape.inRange, Shape.modes, encodeIn, hop, hz', this, fits, isZp, operandBytes,
          Mode.len, hx, hnot, toARes]

example : opcodeOf .nmos "LDA".toList .zpg = some 0xa5 ∧ opcodeOf .nmos "LDA".toList .abs = some 0xad ∧
    opcodeOf .nmos "JMP".toList .zpg = none ∧ opcodeOf .nmos "JMP".toList .abs = some 0x4c := by
  decide +kernel

/-- The documented displacement `d = disp W target pc` satisfies `pc + 2 + d ≡ target` modulo the
address space and is the representative in `[-2^(2W-1), 2^(2W-1))`. -/
theorem disp_spec {W : Nat} (hW : W = 8 ∨ W = 16) (target pc : Int) (ht : 0 ≤ target ∧ target < 2 ^ (2 * W)) :
    (pc + 2 + disp W target pc) % 2 ^ (2 * W) = target ∧
    -(2 ^ (2 * W - 1)) ≤ disp W target pc ∧ disp W target pc < 2 ^ (2 * W - 1) := by
  unfold disp
  rcases hW with rfl | rfl
  · norm_num at ht ⊢
    split_ifs <;> omega
  · norm_num at ht ⊢
    split_ifs <;> omega

/-- `asm_branch`: a mnemonic that has only the relative mode assembles to opcode and displacement
byte exactly when the displacement fits the signed byte range `[-2^(W-1), 2^(W-1))` and the two
bytes lie inside the address space; otherwise it is an `OverflowError`.  The displacement wraps
modulo the address space (`BNE $0000` at `$FFFE` has displacement 0). -/
theorem asm_branch (hd : IsDevice d v W) (m : Str) (op : Nat) (hrel : opcodeOf v m .rel = some op)
    (hz : opcodeOf v m .zpg = none) (ha : opcodeOf v m .abs = none) (target pc : Int)
    (ht : 0 ≤ target ∧ target < 2 ^ (2 * W)) :
    assembleVal d m .dir target pc =
      if -(2 ^ (W - 1)) ≤ disp W target pc ∧ disp W target pc < 2 ^ (W - 1) ∧ pc + 2 ≤ 2 ^ (2 * W)
      then .ok [(op : Int), disp W target pc % 2 ^ W] else .overflow := by
  rw [asm_core hd]
  simp only [encode, Shape.inRange, ht, and_self, decide_true, if_true, Shape.modes, encodeIn, hz, ha,
    hrel, fits, isZp, Bool.false_eq_true, if_false, operandBytes]
  have hl : Mode.rel.len = 2 := rfl
  rw [hl]
  split_ifs <;> first | rfl | omega | (exfalso; omega)

example : assembleVal dev6502 "BNE".toList .dir 0x0000 0xfffe = .ok [0xd0, 0x00] := by decide +kernel
example : assembleVal dev6502 "BNE".toList .dir 0x0081 0 = .ok [0xd0, 0x7f] := by decide +kernel
example : assembleVal dev6502 "BNE".toList .dir 0x0082 0 = .overflow := by decide +kernel
example : assembleVal dev6502 "BNE".toList .dir 0xff82 0 = .ok [0xd0, 0x80] := by decide +kernel
example : assembleVal dev6502 "BNE".toList .dir 0xff81 0 = .overflow := by decide +kernel
example : assembleVal dev6502 "BNE".toList .dir 0x0000 0xffff = .overflow := by decide +kernel
example : assembleVal dev65org16 "BNE".toList .dir 0xffff8002 0 = .ok [0xd0, 0x8000] := by decide +kernel

/-- every branch mnemonic has only the relative mode, on every variant that declares it -/
theorem branch_only_rel : ∀ v : Variant, ∀ mn ∈ [Mn.BCC, .BCS, .BEQ, .BMI, .BNE, .BPL, .BVC, .BVS, .BRA],
    opcodeOf v (mnText mn) .zpg = none ∧ opcodeOf v (mnText mn) .abs = none := by
  intro v
  cases v <;> decide +kernel

/-- `asm_backend_sound` ("never mis-assembles", back end): whatever opcode and operand text reach the
back end, bytes come back only if the operand text is exactly the canonical text of some operand
shape and in-range value, and the bytes are the documented encoding of (opcode, shape, value). -/
theorem asm_backend_sound (hd : IsDevice d v W) (opcode operand : Str) (pc : Int) (bs : List Int)
    (h : backend d opcode operand pc = .ok bs) :
    ∃ sh x, Shape.inRange W sh x = true ∧ operand = canonText W sh x ∧
      encode v W ⟨opcode, sh, x⟩ pc = .ok bs :=
  backend_sound hd.ok opcode operand pc bs h

example : backend dev6502 "LDA".toList "($0010),Y".toList 0 = .ok [0xb1, 0x10] := by decide +kernel
example : backend dev6502 "LDA".toList "$0010 GARBAGE".toList 0 = .syntax := by decide +kernel
example : backend dev6502 "LDA".toList "$0010,X,".toList 0 = .syntax := by decide +kernel

/-- `asm_refusals` (value level): the back end on canonical text never ends in any exception other
than the three documented refusals. -/
theorem asm_refusals (hd : IsDevice d v W) (m : Str) (sh : Shape) (x pc : Int) (w : String) :
    assembleVal d m sh x pc ≠ .other w := by
  rw [asm_core hd]
  cases encode v W ⟨m, sh, x⟩ pc with
  | ok bs => simp [toARes]
  | refuse r => cases r <;> simp [toARes]

/-! ## string level -/

/-- `asm_text` (address operands): blanks `w0`, mnemonic `M` in any letter case, blanks `w1` (at least
one), `(` for the indirect shapes, blanks `b1`, an operand word `T` (number in any spelling, label,
label±offset), then the remaining tokens of the shape in any register-letter case, each preceded by
arbitrary blanks `gs`, and trailing blanks `wEnd`. -/
theorem asm_text (hd : IsDevice d v W) (P : Parser) (hPw : P.width = 2 * W) (hwf : P.WF) (sh : Shape)
    (hsh : Shape.isAddr sh = true) (w0 M w1 b1 T wEnd : Str) (gs : List Str) (cs : Str) (pc : Int)
    (hw0 : Blank w0) (hw1 : Blank w1) (hw1ne : w1 ≠ []) (hb1 : Blank b1) (hwEnd : Blank wEnd)
    (hM : IsMnem M) (hT : AddrWord T)
    (hgs : ∀ g ∈ gs, Blank g) (hlen : gs.length = cs.length) (hcs : upperS cs = afterOf sh) :
    assembleL d P (w0 ++ (M ++ (w1 ++ (leadOf sh ++ (b1 ++ (T ++ (decorate gs cs ++ wEnd))))))) pc =
      match numberL P T with
      | .ok x => toARes (encode v W ⟨upperS M, sh, x⟩ pc)
      | .key => .key
      | .overflow => .overflow
      | .other => .other "number" := by
  obtain ⟨a1, a2, a3⟩ := suffix_ok sh gs cs hgs hlen hcs
  rw [asm_text_addr hd.ok P hPw hwf sh hsh w0 M w1 b1 T _ wEnd pc hw0 hw1 hw1ne hb1 hwEnd hM hT a1 a2 a3]
  cases numberL P T <;> simp only [asm_core hd]

/-- "However the operand is spelled", worked out for `$hex`: any number of leading zeros `z`, any
mixture of letter cases `m` (C15 `spelling`), any blanks, any register-letter case.  The other
spellings (`+decimal`, `%binary`, default radix, label, label±offset) plug the corresponding C15
theorem (`num_dec`, `num_bin`, `num_bare`, `num_label`, `num_label_offset`) into `asm_text` in the
same way: each of them is a statement `numberL P T = .ok n`. -/
theorem asm_spelling_hex (hd : IsDevice d v W) (P : Parser) (hPw : P.width = 2 * W) (hwf : P.WF) (sh : Shape)
    (hsh : Shape.isAddr sh = true) (n z : Nat) (m : List Bool) (hn : n < 2 ^ (2 * W))
    (w0 M w1 b1 wEnd : Str) (gs : List Str) (cs : Str) (pc : Int)
    (hw0 : Blank w0) (hw1 : Blank w1) (hw1ne : w1 ≠ []) (hb1 : Blank b1) (hwEnd : Blank wEnd)
    (hM : IsMnem M) (hgs : ∀ g ∈ gs, Blank g) (hlen : gs.length = cs.length) (hcs : upperS cs = afterOf sh) :
    assembleL d P (w0 ++ (M ++ (w1 ++ (leadOf sh ++ (b1 ++ (('$' :: spelling 16 z m n) ++
      (decorate gs cs ++ wEnd))))))) pc = toARes (encode v W ⟨upperS M, sh, (n : Int)⟩ pc) := by
  obtain ⟨hne, hdig, _, _⟩ := Py65.Proofs.Num.spelling_spec (b := 16) (by decide) (by decide) z m n
  have hT : AddrWord ('$' :: spelling 16 z m n) := by
    refine ⟨by simp, ?_, by simp, by simp, ?_, ?_⟩
    · intro c hc
      simp only [List.mem_cons] at hc
      rcases hc with rfl | hc
      · decide
      · have ha := (hdig c hc).alnum
        obtain ⟨k, hk, _⟩ := hdig c hc
        have hr := Py65.Proofs.Num.digitVal_range hk
        have h1 : c ≠ ',' := fun e => by rw [e] at ha; exact absurd ha.notsep (by decide)
        have h2 : c ≠ ')' := Py65.Proofs.Num.ne_of_toNat_ne (by show c.toNat ≠ 41; omega)
        simp [isTargetChar, h1, h2, ha.respace]
    · intro e
      have := congrArg List.length e
      simp at this
      exact hne this
    · intro e
      have := congrArg List.length e
      simp at this
      exact hne this
  have hnum : numberL P ('$' :: spelling 16 z m n) = .ok (n : Int) := by
    have hw : n < 2 ^ P.width := by rw [hPw]; exact hn
    have := Py65.Props.C15.num_hex P n z m hw
    simpa [number, String.toList_append, String.toList_ofList] using this
  rw [asm_text hd P hPw hwf sh hsh w0 M w1 b1 _ wEnd gs cs pc hw0 hw1 hw1ne hb1 hwEnd hM hT hgs hlen hcs, hnum]

/-- `asm_text_imm`: `#` and a number / label / label±offset word. -/
theorem asm_text_imm (hd : IsDevice d v W) (P : Parser) (w0 M w1 w wEnd : Str) (pc : Int)
    (hw0 : Blank w0) (hw1 : Blank w1) (hw1ne : w1 ≠ []) (hwEnd : Blank wEnd)
    (hM : IsMnem M) (hw : w ≠ []) (hwc : ∀ c ∈ w, isTargetChar c = true)
    (hq : w.head? ≠ some '\'' ∧ w.head? ≠ some '"') :
    assembleL d P (w0 ++ (M ++ (w1 ++ ('#' :: w ++ wEnd)))) pc =
      match numberL P w with
      | .ok x => toARes (encode v W ⟨upperS M, .imm, x⟩ pc)
      | .key => .key
      | .overflow => .overflow
      | .other => .other "number" := by
  rw [Py65.Proofs.Asm.asm_text_imm hd.ok P w0 M w1 w wEnd pc hw0 hw1 hw1ne hwEnd hM hw hwc hq]
  cases numberL P w <;> simp only [asm_core hd]

/-- `asm_text_char`: `#'c'`, `#"c"` (and the same without the closing quote) is `#ord(c)`. -/
theorem asm_text_char (hd : IsDevice d v W) (P : Parser) (w0 M w1 wEnd : Str) (q ch : Char) (close : Str)
    (pc : Int) (hw0 : Blank w0) (hw1 : Blank w1) (hw1ne : w1 ≠ []) (hwEnd : Blank wEnd)
    (hM : IsMnem M) (hq : q = '\'' ∨ q = '"') (hch : isTargetChar ch = true)
    (hclose : close = [] ∨ close = [q]) :
    assembleL d P (w0 ++ (M ++ (w1 ++ ('#' :: q :: ch :: close ++ wEnd)))) pc =
      toARes (encode v W ⟨upperS M, .imm, (ch.toNat : Int)⟩ pc) := by
  rw [Py65.Proofs.Asm.asm_text_char hd.ok P w0 M w1 wEnd q ch close pc hw0 hw1 hw1ne hwEnd hM hq hch hclose,
    asm_core hd]

/-- `asm_text_acc`: `ASL A`, `asl a`. -/
theorem asm_text_acc (hd : IsDevice d v W) (P : Parser) (w0 M w1 wEnd : Str) (a : Char) (pc : Int)
    (hw0 : Blank w0) (hw1 : Blank w1) (hw1ne : w1 ≠ []) (hwEnd : Blank wEnd)
    (hM : IsMnem M) (ha : a = 'A' ∨ a = 'a') :
    assembleL d P (w0 ++ (M ++ (w1 ++ (a :: wEnd)))) pc = toARes (encode v W ⟨upperS M, .acc, 0⟩ pc) := by
  rw [Py65.Proofs.Asm.asm_text_acc P w0 M w1 wEnd a pc hw0 hw1 hw1ne hwEnd hM ha, asm_core hd]

/-- `asm_text_none`: `NOP`, `  nop  `. -/
theorem asm_text_none (hd : IsDevice d v W) (P : Parser) (w0 M wEnd : Str) (pc : Int)
    (hw0 : Blank w0) (hwEnd : Blank wEnd) (hM : IsMnem M) :
    assembleL d P (w0 ++ (M ++ wEnd)) pc = toARes (encode v W ⟨upperS M, .none, 0⟩ pc) := by
  rw [Py65.Proofs.Asm.asm_text_none P w0 M wEnd pc hw0 hwEnd hM, asm_core hd]

/-- `asm_ws_case`: two writings of the same statement -- the same operand word, mnemonics equal up
to letter case, register letters in either case, ANY blanks or tabs (any white space `str.split`
knows) between and around the tokens -- assemble to the same result. -/
theorem asm_ws_case (hd : IsDevice d v W) (P : Parser) (hPw : P.width = 2 * W) (hwf : P.WF) (sh : Shape)
    (hsh : Shape.isAddr sh = true) (T : Str) (hT : AddrWord T) (pc : Int)
    (w0 M w1 b1 wEnd : Str) (gs : List Str) (cs : Str)
    (hw0 : Blank w0) (hw1 : Blank w1) (hw1ne : w1 ≠ []) (hb1 : Blank b1) (hwEnd : Blank wEnd)
    (hM : IsMnem M) (hgs : ∀ g ∈ gs, Blank g) (hlen : gs.length = cs.length) (hcs : upperS cs = afterOf sh)
    (w0' M' w1' b1' wEnd' : Str) (gs' : List Str) (cs' : Str)
    (hw0' : Blank w0') (hw1' : Blank w1') (hw1ne' : w1' ≠ []) (hb1' : Blank b1') (hwEnd' : Blank wEnd')
    (hM' : IsMnem M') (hgs' : ∀ g ∈ gs', Blank g) (hlen' : gs'.length = cs'.length)
    (hcs' : upperS cs' = afterOf sh) (hMM : upperS M = upperS M') :
    assembleL d P (w0 ++ (M ++ (w1 ++ (leadOf sh ++ (b1 ++ (T ++ (decorate gs cs ++ wEnd))))))) pc =
    assembleL d P (w0' ++ (M' ++ (w1' ++ (leadOf sh ++ (b1' ++ (T ++ (decorate gs' cs' ++ wEnd'))))))) pc := by
  rw [asm_text hd P hPw hwf sh hsh w0 M w1 b1 T wEnd gs cs pc hw0 hw1 hw1ne hb1 hwEnd hM hT hgs hlen hcs,
    asm_text hd P hPw hwf sh hsh w0' M' w1' b1' T wEnd' gs' cs' pc hw0' hw1' hw1ne' hb1' hwEnd' hM' hT hgs'
      hlen' hcs', hMM]

-- non-vacuity: `lda\t( $10 ) , y ` and `LDA ($10),Y`
example : assembleL dev6502 ⟨16, 16, []⟩ " lda\t( $10 ) , y ".toList 0 = .ok [0xb1, 0x10] ∧
    assembleL dev6502 ⟨16, 16, []⟩ "LDA ($10),Y".toList 0 = .ok [0xb1, 0x10] := by decide +kernel
example : " lda\t( $10 ) , y ".toList =
    [' '] ++ ("lda".toList ++ (['\t'] ++ (leadOf .indY ++ ([' '] ++ ("$10".toList ++
      (decorate [[' '], [' '], [' ']] [')', ',', 'y'] ++ [' '])))))) := by decide
example : IsMnem "lda".toList ∧ AddrWord "$10".toList ∧ upperS [')', ',', 'y'] = afterOf .indY :=
  ⟨isMnemB_sound (by decide), ⟨by decide, by decide, by decide, by decide, by decide⟩, by decide⟩

/-- `asm_total`: for every statement text whatsoever, every label table with in-range values, every
address: bytes, `SyntaxError`, `OverflowError` or `KeyError` -- nothing else escapes. -/
theorem asm_total (hd : IsDevice d v W) (P : Parser) (hwf : P.WF) (s : Str) (pc : Int) (w : String) :
    assembleL d P s pc ≠ .other w :=
  assembleL_ne_other hd.ok P hwf s pc w

/-- `asm_sound_partial` ("never mis-assembles", every text, first half): if bytes come back for ANY text
then `normalize_and_split` handed the back end an (opcode, operand) pair, the operand is the canonical
text of some shape and in-range value, and the bytes are the documented encoding of (opcode, shape,
value) at `pc`. -/
theorem asm_sound_partial (hd : IsDevice d v W) (P : Parser) (s : Str) (pc : Int) (bs : List Int)
    (h : assembleL d P s pc = .ok bs) :
    ∃ opcode operand sh x, normalizeAndSplit d P s = .ok opcode operand ∧
      Shape.inRange W sh x = true ∧ operand = canonText W sh x ∧ encode v W ⟨opcode, sh, x⟩ pc = .ok bs := by
  unfold assembleL at h
  cases hn : normalizeAndSplit d P s with
  | ok oc od =>
    rw [hn] at h
    obtain ⟨sh, x, h1, h2, h3⟩ := asm_backend_sound hd oc od pc bs h
    exact ⟨oc, od, sh, x, rfl, h1, h2, h3⟩
  | «syntax» => rw [hn] at h; cases h
  | overflow => rw [hn] at h; cases h
  | key => rw [hn] at h; cases h
  | other w => rw [hn] at h; cases h

/-- `asm_sound` ("never mis-assembles", every text, FULL): for every device, every parser of the
device's address width whose label values are in range and whose label names contain no `(`, every
text `s` and every address `pc`: if the assembler returns bytes then the token sequence of `s`
denotes a statement `(m, sh, w)` of the documented syntax, the operand word `w` has the value `x`, and
the bytes are exactly the documented encoding of `(m, sh, x)` at `pc`. -/
theorem asm_sound (hd : IsDevice d v W) (P : Parser) (hPw : P.width = 2 * W) (hwf : P.WF)
    (hlab : LabelsNoParen P) (s : Str) (pc : Int) (bs : List Int) (h : assembleL d P s pc = .ok bs) :
    ∃ m sh w x, Py65.Spec.Asm.parse s = some (m, sh, w) ∧ value P sh w = .ok x ∧
      encode v W ⟨m, sh, x⟩ pc = .ok bs :=
  asm_sound_gen hd.ok P hPw hwf hlab s pc bs h

/-- The statement of the header: the bytes are a documented encoding of what the text denotes. -/
theorem asm_sound_documented (hd : IsDevice d v W) (P : Parser) (hPw : P.width = 2 * W) (hwf : P.WF)
    (hlab : LabelsNoParen P) (s : Str) (pc : Int) (bs : List Int) (h : assembleL d P s pc = .ok bs) :
    ∃ m sh w x, Py65.Spec.Asm.parse s = some (m, sh, w) ∧ value P sh w = .ok x ∧
      Documented v W ⟨m, sh, x⟩ pc bs := by
  obtain ⟨m, sh, w, x, h1, h2, h3⟩ := asm_sound hd P hPw hwf hlab s pc bs h
  exact ⟨m, sh, w, x, h1, h2, Or.inl h3⟩

-- non-vacuity: the hypotheses hold for a parser with labels, bytes do come back, and the witnesses are
-- what the text says (`lda ( tbl ) , y` with `tbl = $10`, blanks and tabs anywhere)
example : (⟨16, 16, [("tbl".toList, 0x10), ("io.port".toList, 0xfe)]⟩ : Parser).width = 2 * 8 ∧
    LabelsNoParen ⟨16, 16, [("tbl".toList, 0x10), ("io.port".toList, 0xfe)]⟩ := by decide
example : (⟨16, 16, [("tbl".toList, 0x10), ("io.port".toList, 0xfe)]⟩ : Parser).WF :=
  (Py65.Proofs.Num.init_wf 16 16 [("tbl".toList, 0x10), ("io.port".toList, 0xfe)]
    ⟨16, 16, [("tbl".toList, 0x10), ("io.port".toList, 0xfe)]⟩ (by decide +kernel)).1
example : assembleL dev6502 ⟨16, 16, [("tbl".toList, 0x10), ("io.port".toList, 0xfe)]⟩ " lda\t( tbl ) , y ".toList 7
      = .ok [0xb1, 0x10] ∧
    Py65.Spec.Asm.parse " lda\t( tbl ) , y ".toList = some ("LDA".toList, .indY, "tbl".toList) ∧
    value ⟨16, 16, [("tbl".toList, 0x10), ("io.port".toList, 0xfe)]⟩ .indY "tbl".toList = .ok 0x10 ∧
    encode .nmos 8 ⟨"LDA".toList, .indY, 0x10⟩ 7 = .ok [0xb1, 0x10] := by decide +kernel
-- … and a text that denotes nothing is refused (the contrapositive at work)
example : Py65.Spec.Asm.parse "LDA $10 ,X,".toList = none ∧
    assembleL dev6502 ⟨16, 16, []⟩ "LDA $10 ,X,".toList 0 = .syntax := by decide +kernel

/-- `asm_sound_label_paren`: the hypothesis on the label names cannot be dropped.  With a label named
`a(b` the assembler turns `LDA a(b` into `A5 05`, but the tokens of that text are `LDA`, `a`, `(`, `b`,
which denote no statement.  (Confirmed on the real assembler; py65 does not restrict label names.) -/
theorem asm_sound_label_paren :
    assembleL dev6502 ⟨16, 16, [("a(b".toList, 5)]⟩ "LDA a(b".toList 0 = .ok [0xa5, 0x05] ∧
    Py65.Spec.Asm.parse "LDA a(b".toList = none ∧
    ¬ LabelsNoParen ⟨16, 16, [("a(b".toList, 5)]⟩ := by decide +kernel

/-- `asm_sound_charlit_paren`: a character literal is one token.  `LDA #'('` assembles to `A9 28`; the
tokeniser reads the operand as the single word `#'('` (before the correction of the Spec it split at the
parenthesis and the text denoted nothing).  `,` `)` and white space as the quoted character are refused
by the assembler (its scanner ends the operand word there), which soundness permits. -/
theorem asm_sound_charlit_paren :
    assembleL dev6502 ⟨16, 16, []⟩ "LDA #'('".toList 0 = .ok [0xa9, 0x28] ∧
    Py65.Spec.Asm.parse "LDA #'('".toList = some ("LDA".toList, .imm, "'('".toList) ∧
    value ⟨16, 16, []⟩ .imm "'('".toList = .ok 0x28 ∧
    assembleL dev6502 ⟨16, 16, []⟩ "LDA #','".toList 0 = .syntax ∧
    assembleL dev6502 ⟨16, 16, []⟩ "LDA #' '".toList 0 = .syntax := by decide +kernel

/-- `asm_sound_newline`: every white-space character of `str.split()` separates tokens. -/
theorem asm_sound_newline :
    assembleL dev6502 ⟨16, 16, []⟩ "LDA\n($10)\x0b,\x1cY\r".toList 0 = .ok [0xb1, 0x10] ∧
    Py65.Spec.Asm.parse "LDA\n($10)\x0b,\x1cY\r".toList = some ("LDA".toList, .indY, "$10".toList) := by
  decide +kernel

end Py65.Props.C07
