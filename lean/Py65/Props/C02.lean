/-
C02 -- 65C02: CMOS additions and changed behaviours execute per the W65C02S model.

PROPERTY THEOREMS ONLY.  GENERATED skeleton (harness/gen_cmos.py): case analysis over the rows of
`Spec.cmosExtTable` (the opcodes the 65C02 adds or overrides) and `Spec.nmosTable` (inherited);
every case is closed by a handler theorem (`Py65.Proofs.HC.hXX` for the CMOS rows, the width-generic
`Py65.Proofs.H.hXX` of C01 for the inherited rows - this is "instructions inherited from the NMOS
part behave as on the 6502 device") and the translator's dispatch fact `dev65c02.instruct_XX`.
-/
import Py65.Proofs.Handlers
import Py65.Proofs.HandlersCmos
import Py65.Proofs.Step

namespace Py65.Props.C02
open Py65 Py65.Gen Py65.Spec Py65.Proofs

/-- Opcodes whose handler theorem is not proved yet (covered by the differential only). -/
def unproved : List Int := []

/-- Full statement of C02 (see `C02_partial` for what is proved). -/
def Statement : Prop :=
  ∀ (s : St), WF dev65c02.cfg s → s.waiting = false →
  ∀ (mn : Mn) (mo : Mode), decode .cmos (s.mem s.pc) = some (mn, mo) →
  ((mn = .ADC ∨ mn = .SBC) → flag s.p bitD = false) →
  (mn = .JSR → NoSelfOverwriteJSR dev65c02.cfg (afterFetch dev65c02.cfg dev65c02.tbl s)) →
  abs (dev65c02.step s) = Spec.step 8 .cmos (abs s)

/-- A 65C02 that is not waiting steps like the shared `step`. -/
theorem step_not_waiting (s : St) (hw : s.waiting = false) :
    dev65c02.step s = Mpu6502.step dev65c02.cfg dev65c02.tbl s := by
  simp only [dev65c02.step, Mpu65c02.step, hw]; rfl

theorem C02_partial (s : St) (hs : WF dev65c02.cfg s) (hw : s.waiting = false)
    (mn : Mn) (mo : Mode) (hd : decode .cmos (s.mem s.pc) = some (mn, mo))
    (hproved : s.mem s.pc ∉ unproved)
    (hdec : (mn = .ADC ∨ mn = .SBC) → flag s.p bitD = false)
    (hjsr : mn = .JSR → NoSelfOverwriteJSR dev65c02.cfg (afterFetch dev65c02.cfg dev65c02.tbl s)) :
    abs (dev65c02.step s) = Spec.step 8 .cmos (abs s) := by
  have hc : IsDev dev65c02.cfg := Or.inl rfl
  rw [step_not_waiting s hw]
  generalize hop : s.mem s.pc = op at hd hproved
  have hd0 := hd
  simp only [decode] at hd
  split at hd
  · rename_i r hr
    obtain ⟨mn', mo'⟩ := r
    simp only [Option.some.injEq, Prod.mk.injEq] at hd
    obtain ⟨rfl, rfl⟩ := hd
    have hm := lookup_mem hr
    simp only [cmosExtTable, List.mem_cons, List.mem_nil_iff, or_false, Prod.mk.injEq] at hm

    rcases hm with ⟨rfl, rfl, rfl⟩ | ⟨rfl, rfl, rfl⟩ | ⟨rfl, rfl, rfl⟩ | ⟨rfl, rfl, rfl⟩ | ⟨rfl, rfl, rfl⟩ | ⟨rfl, rfl, rfl⟩ | ⟨rfl, rfl, rfl⟩ | ⟨rfl, rfl, rfl⟩ | ⟨rfl, rfl, rfl⟩ | ⟨rfl, rfl, rfl⟩ | ⟨rfl, rfl, rfl⟩ | ⟨rfl, rfl, rfl⟩ | ⟨rfl, rfl, rfl⟩ | ⟨rfl, rfl, rfl⟩ | ⟨rfl, rfl, rfl⟩ | ⟨rfl, rfl, rfl⟩ | ⟨rfl, rfl, rfl⟩ | ⟨rfl, rfl, rfl⟩ | ⟨rfl, rfl, rfl⟩ | ⟨rfl, rfl, rfl⟩ | ⟨rfl, rfl, rfl⟩ | ⟨rfl, rfl, rfl⟩ | ⟨rfl, rfl, rfl⟩ | ⟨rfl, rfl, rfl⟩ | ⟨rfl, rfl, rfl⟩ | ⟨rfl, rfl, rfl⟩ | ⟨rfl, rfl, rfl⟩ | ⟨rfl, rfl, rfl⟩ | ⟨rfl, rfl, rfl⟩ | ⟨rfl, rfl, rfl⟩ | ⟨rfl, rfl, rfl⟩ | ⟨rfl, rfl, rfl⟩ | ⟨rfl, rfl, rfl⟩ | ⟨rfl, rfl, rfl⟩ | ⟨rfl, rfl, rfl⟩ | ⟨rfl, rfl, rfl⟩ | ⟨rfl, rfl, rfl⟩ | ⟨rfl, rfl, rfl⟩ | ⟨rfl, rfl, rfl⟩ | ⟨rfl, rfl, rfl⟩ | ⟨rfl, rfl, rfl⟩ | ⟨rfl, rfl, rfl⟩ | ⟨rfl, rfl, rfl⟩ | ⟨rfl, rfl, rfl⟩
    · exact step_case _ hc _ .cmos s hs hw _ _ _ _ (fun _ => True) hop hd0 dev65c02.instruct_04 ((HC.h04 .cmos).toP _) trivial
    · exact step_case _ hc _ .cmos s hs hw _ _ _ _ (fun _ => True) hop hd0 dev65c02.instruct_07 ((HC.h07 .cmos).toP _) trivial
    · exact step_case _ hc _ .cmos s hs hw _ _ _ _ (fun _ => True) hop hd0 dev65c02.instruct_0c ((HC.h0c .cmos).toP _) trivial
    · exact step_case _ hc _ .cmos s hs hw _ _ _ _ (fun _ => True) hop hd0 dev65c02.instruct_12 ((HC.h12 .cmos).toP _) trivial
    · exact step_case _ hc _ .cmos s hs hw _ _ _ _ (fun _ => True) hop hd0 dev65c02.instruct_14 ((HC.h14 .cmos).toP _) trivial
    · exact step_case _ hc _ .cmos s hs hw _ _ _ _ (fun _ => True) hop hd0 dev65c02.instruct_17 ((HC.h17 .cmos).toP _) trivial
    · exact step_case _ hc _ .cmos s hs hw _ _ _ _ (fun _ => True) hop hd0 dev65c02.instruct_1a ((HC.h1a .cmos).toP _) trivial
    · exact step_case _ hc _ .cmos s hs hw _ _ _ _ (fun _ => True) hop hd0 dev65c02.instruct_1c ((HC.h1c .cmos).toP _) trivial
    · exact step_case _ hc _ .cmos s hs hw _ _ _ _ (fun _ => True) hop hd0 dev65c02.instruct_27 ((HC.h27 .cmos).toP _) trivial
    · exact step_case _ hc _ .cmos s hs hw _ _ _ _ (fun _ => True) hop hd0 dev65c02.instruct_32 ((HC.h32 .cmos).toP _) trivial
    · exact step_case _ hc _ .cmos s hs hw _ _ _ _ (fun _ => True) hop hd0 dev65c02.instruct_34 ((HC.h34 .cmos).toP _) trivial
    · exact step_case _ hc _ .cmos s hs hw _ _ _ _ (fun _ => True) hop hd0 dev65c02.instruct_37 ((HC.h37 .cmos).toP _) trivial
    · exact step_case _ hc _ .cmos s hs hw _ _ _ _ (fun _ => True) hop hd0 dev65c02.instruct_3a ((HC.h3a .cmos).toP _) trivial
    · exact step_case _ hc _ .cmos s hs hw _ _ _ _ (fun _ => True) hop hd0 dev65c02.instruct_3c ((HC.h3c .cmos).toP _) trivial
    · exact step_case _ hc _ .cmos s hs hw _ _ _ _ (fun _ => True) hop hd0 dev65c02.instruct_47 ((HC.h47 .cmos).toP _) trivial
    · exact step_case _ hc _ .cmos s hs hw _ _ _ _ (fun _ => True) hop hd0 dev65c02.instruct_52 ((HC.h52 .cmos).toP _) trivial
    · exact step_case _ hc _ .cmos s hs hw _ _ _ _ (fun _ => True) hop hd0 dev65c02.instruct_57 ((HC.h57 .cmos).toP _) trivial
    · exact step_case _ hc _ .cmos s hs hw _ _ _ _ (fun _ => True) hop hd0 dev65c02.instruct_5a ((HC.h5a .cmos).toP _) trivial
    · exact step_case _ hc _ .cmos s hs hw _ _ _ _ (fun _ => True) hop hd0 dev65c02.instruct_64 ((HC.h64 .cmos).toP _) trivial
    · exact step_case _ hc _ .cmos s hs hw _ _ _ _ (fun _ => True) hop hd0 dev65c02.instruct_67 ((HC.h67 .cmos).toP _) trivial
    · exact step_case _ hc _ .cmos s hs hw _ _ _ _ _ hop hd0 dev65c02.instruct_72 (HC.h72 .cmos) (hdec (Or.inl rfl))
    · exact step_case _ hc _ .cmos s hs hw _ _ _ _ (fun _ => True) hop hd0 dev65c02.instruct_74 ((HC.h74 .cmos).toP _) trivial
    · exact step_case _ hc _ .cmos s hs hw _ _ _ _ (fun _ => True) hop hd0 dev65c02.instruct_77 ((HC.h77 .cmos).toP _) trivial
    · exact step_case _ hc _ .cmos s hs hw _ _ _ _ (fun _ => True) hop hd0 dev65c02.instruct_7a ((HC.h7a .cmos).toP _) trivial
    · exact step_case _ hc _ .cmos s hs hw _ _ _ _ (fun _ => True) hop hd0 dev65c02.instruct_7c ((HC.h7c .cmos).toP _) trivial
    · exact step_case _ hc _ .cmos s hs hw _ _ _ _ (fun _ => True) hop hd0 dev65c02.instruct_80 ((HC.h80 .cmos).toP _) trivial
    · exact step_case _ hc _ .cmos s hs hw _ _ _ _ (fun _ => True) hop hd0 dev65c02.instruct_87 ((HC.h87 .cmos).toP _) trivial
    · exact step_case _ hc _ .cmos s hs hw _ _ _ _ (fun _ => True) hop hd0 dev65c02.instruct_89 ((HC.h89 .cmos).toP _) trivial
    · exact step_case _ hc _ .cmos s hs hw _ _ _ _ (fun _ => True) hop hd0 dev65c02.instruct_92 ((HC.h92 .cmos).toP _) trivial
    · exact step_case _ hc _ .cmos s hs hw _ _ _ _ (fun _ => True) hop hd0 dev65c02.instruct_97 ((HC.h97 .cmos).toP _) trivial
    · exact step_case _ hc _ .cmos s hs hw _ _ _ _ (fun _ => True) hop hd0 dev65c02.instruct_9c ((HC.h9c .cmos).toP _) trivial
    · exact step_case _ hc _ .cmos s hs hw _ _ _ _ (fun _ => True) hop hd0 dev65c02.instruct_9e ((HC.h9e .cmos).toP _) trivial
    · exact step_case _ hc _ .cmos s hs hw _ _ _ _ (fun _ => True) hop hd0 dev65c02.instruct_a7 ((HC.ha7 .cmos).toP _) trivial
    · exact step_case _ hc _ .cmos s hs hw _ _ _ _ (fun _ => True) hop hd0 dev65c02.instruct_b2 ((HC.hb2 .cmos).toP _) trivial
    · exact step_case _ hc _ .cmos s hs hw _ _ _ _ (fun _ => True) hop hd0 dev65c02.instruct_b7 ((HC.hb7 .cmos).toP _) trivial
    · exact step_case _ hc _ .cmos s hs hw _ _ _ _ (fun _ => True) hop hd0 dev65c02.instruct_c7 ((HC.hc7 .cmos).toP _) trivial
    · exact step_case _ hc _ .cmos s hs hw _ _ _ _ (fun _ => True) hop hd0 dev65c02.instruct_cb ((HC.hcb .cmos).toP _) trivial
    · exact step_case _ hc _ .cmos s hs hw _ _ _ _ (fun _ => True) hop hd0 dev65c02.instruct_d2 ((HC.hd2 .cmos).toP _) trivial
    · exact step_case _ hc _ .cmos s hs hw _ _ _ _ (fun _ => True) hop hd0 dev65c02.instruct_d7 ((HC.hd7 .cmos).toP _) trivial
    · exact step_case _ hc _ .cmos s hs hw _ _ _ _ (fun _ => True) hop hd0 dev65c02.instruct_da ((HC.hda .cmos).toP _) trivial
    · exact step_case _ hc _ .cmos s hs hw _ _ _ _ (fun _ => True) hop hd0 dev65c02.instruct_e7 ((HC.he7 .cmos).toP _) trivial
    · exact step_case _ hc _ .cmos s hs hw _ _ _ _ _ hop hd0 dev65c02.instruct_f2 (HC.hf2 .cmos) (hdec (Or.inr rfl))
    · exact step_case _ hc _ .cmos s hs hw _ _ _ _ (fun _ => True) hop hd0 dev65c02.instruct_f7 ((HC.hf7 .cmos).toP _) trivial
    · exact step_case _ hc _ .cmos s hs hw _ _ _ _ (fun _ => True) hop hd0 dev65c02.instruct_fa ((HC.hfa .cmos).toP _) trivial
  · rename_i hnone
    have hm := lookup_mem hd
    simp only [nmosTable, List.mem_cons, List.mem_nil_iff, or_false, Prod.mk.injEq] at hm
    rcases hm with ⟨rfl, rfl, rfl⟩ | ⟨rfl, rfl, rfl⟩ | ⟨rfl, rfl, rfl⟩ | ⟨rfl, rfl, rfl⟩ | ⟨rfl, rfl, rfl⟩ | ⟨rfl, rfl, rfl⟩ | ⟨rfl, rfl, rfl⟩ | ⟨rfl, rfl, rfl⟩ | ⟨rfl, rfl, rfl⟩ | ⟨rfl, rfl, rfl⟩ | ⟨rfl, rfl, rfl⟩ | ⟨rfl, rfl, rfl⟩ | ⟨rfl, rfl, rfl⟩ | ⟨rfl, rfl, rfl⟩ | ⟨rfl, rfl, rfl⟩ | ⟨rfl, rfl, rfl⟩ | ⟨rfl, rfl, rfl⟩ | ⟨rfl, rfl, rfl⟩ | ⟨rfl, rfl, rfl⟩ | ⟨rfl, rfl, rfl⟩ | ⟨rfl, rfl, rfl⟩ | ⟨rfl, rfl, rfl⟩ | ⟨rfl, rfl, rfl⟩ | ⟨rfl, rfl, rfl⟩ | ⟨rfl, rfl, rfl⟩ | ⟨rfl, rfl, rfl⟩ | ⟨rfl, rfl, rfl⟩ | ⟨rfl, rfl, rfl⟩ | ⟨rfl, rfl, rfl⟩ | ⟨rfl, rfl, rfl⟩ | ⟨rfl, rfl, rfl⟩ | ⟨rfl, rfl, rfl⟩ | ⟨rfl, rfl, rfl⟩ | ⟨rfl, rfl, rfl⟩ | ⟨rfl, rfl, rfl⟩ | ⟨rfl, rfl, rfl⟩ | ⟨rfl, rfl, rfl⟩ | ⟨rfl, rfl, rfl⟩ | ⟨rfl, rfl, rfl⟩ | ⟨rfl, rfl, rfl⟩ | ⟨rfl, rfl, rfl⟩ | ⟨rfl, rfl, rfl⟩ | ⟨rfl, rfl, rfl⟩ | ⟨rfl, rfl, rfl⟩ | ⟨rfl, rfl, rfl⟩ | ⟨rfl, rfl, rfl⟩ | ⟨rfl, rfl, rfl⟩ | ⟨rfl, rfl, rfl⟩ | ⟨rfl, rfl, rfl⟩ | ⟨rfl, rfl, rfl⟩ | ⟨rfl, rfl, rfl⟩ | ⟨rfl, rfl, rfl⟩ | ⟨rfl, rfl, rfl⟩ | ⟨rfl, rfl, rfl⟩ | ⟨rfl, rfl, rfl⟩ | ⟨rfl, rfl, rfl⟩ | ⟨rfl, rfl, rfl⟩ | ⟨rfl, rfl, rfl⟩ | ⟨rfl, rfl, rfl⟩ | ⟨rfl, rfl, rfl⟩ | ⟨rfl, rfl, rfl⟩ | ⟨rfl, rfl, rfl⟩ | ⟨rfl, rfl, rfl⟩ | ⟨rfl, rfl, rfl⟩ | ⟨rfl, rfl, rfl⟩ | ⟨rfl, rfl, rfl⟩ | ⟨rfl, rfl, rfl⟩ | ⟨rfl, rfl, rfl⟩ | ⟨rfl, rfl, rfl⟩ | ⟨rfl, rfl, rfl⟩ | ⟨rfl, rfl, rfl⟩ | ⟨rfl, rfl, rfl⟩ | ⟨rfl, rfl, rfl⟩ | ⟨rfl, rfl, rfl⟩ | ⟨rfl, rfl, rfl⟩ | ⟨rfl, rfl, rfl⟩ | ⟨rfl, rfl, rfl⟩ | ⟨rfl, rfl, rfl⟩ | ⟨rfl, rfl, rfl⟩ | ⟨rfl, rfl, rfl⟩ | ⟨rfl, rfl, rfl⟩ | ⟨rfl, rfl, rfl⟩ | ⟨rfl, rfl, rfl⟩ | ⟨rfl, rfl, rfl⟩ | ⟨rfl, rfl, rfl⟩ | ⟨rfl, rfl, rfl⟩ | ⟨rfl, rfl, rfl⟩ | ⟨rfl, rfl, rfl⟩ | ⟨rfl, rfl, rfl⟩ | ⟨rfl, rfl, rfl⟩ | ⟨rfl, rfl, rfl⟩ | ⟨rfl, rfl, rfl⟩ | ⟨rfl, rfl, rfl⟩ | ⟨rfl, rfl, rfl⟩ | ⟨rfl, rfl, rfl⟩ | ⟨rfl, rfl, rfl⟩ | ⟨rfl, rfl, rfl⟩ | ⟨rfl, rfl, rfl⟩ | ⟨rfl, rfl, rfl⟩ | ⟨rfl, rfl, rfl⟩ | ⟨rfl, rfl, rfl⟩ | ⟨rfl, rfl, rfl⟩ | ⟨rfl, rfl, rfl⟩ | ⟨rfl, rfl, rfl⟩ | ⟨rfl, rfl, rfl⟩ | ⟨rfl, rfl, rfl⟩ | ⟨rfl, rfl, rfl⟩ | ⟨rfl, rfl, rfl⟩ | ⟨rfl, rfl, rfl⟩ | ⟨rfl, rfl, rfl⟩ | ⟨rfl, rfl, rfl⟩ | ⟨rfl, rfl, rfl⟩ | ⟨rfl, rfl, rfl⟩ | ⟨rfl, rfl, rfl⟩ | ⟨rfl, rfl, rfl⟩ | ⟨rfl, rfl, rfl⟩ | ⟨rfl, rfl, rfl⟩ | ⟨rfl, rfl, rfl⟩ | ⟨rfl, rfl, rfl⟩ | ⟨rfl, rfl, rfl⟩ | ⟨rfl, rfl, rfl⟩ | ⟨rfl, rfl, rfl⟩ | ⟨rfl, rfl, rfl⟩ | ⟨rfl, rfl, rfl⟩ | ⟨rfl, rfl, rfl⟩ | ⟨rfl, rfl, rfl⟩ | ⟨rfl, rfl, rfl⟩ | ⟨rfl, rfl, rfl⟩ | ⟨rfl, rfl, rfl⟩ | ⟨rfl, rfl, rfl⟩ | ⟨rfl, rfl, rfl⟩ | ⟨rfl, rfl, rfl⟩ | ⟨rfl, rfl, rfl⟩ | ⟨rfl, rfl, rfl⟩ | ⟨rfl, rfl, rfl⟩ | ⟨rfl, rfl, rfl⟩ | ⟨rfl, rfl, rfl⟩ | ⟨rfl, rfl, rfl⟩ | ⟨rfl, rfl, rfl⟩ | ⟨rfl, rfl, rfl⟩ | ⟨rfl, rfl, rfl⟩ | ⟨rfl, rfl, rfl⟩ | ⟨rfl, rfl, rfl⟩ | ⟨rfl, rfl, rfl⟩ | ⟨rfl, rfl, rfl⟩ | ⟨rfl, rfl, rfl⟩ | ⟨rfl, rfl, rfl⟩ | ⟨rfl, rfl, rfl⟩ | ⟨rfl, rfl, rfl⟩ | ⟨rfl, rfl, rfl⟩ | ⟨rfl, rfl, rfl⟩
    · exact step_case _ hc _ .cmos s hs hw _ _ _ _ (fun _ => True) hop hd0 dev65c02.instruct_00 (HC.h00.toP _) trivial
    · exact step_case _ hc _ .cmos s hs hw _ _ _ _ (fun _ => True) hop hd0 dev65c02.instruct_01 ((H.h01 _ hc .cmos).toP _) trivial
    · exact step_case _ hc _ .cmos s hs hw _ _ _ _ (fun _ => True) hop hd0 dev65c02.instruct_05 ((H.h05 _ hc .cmos).toP _) trivial
    · exact step_case _ hc _ .cmos s hs hw _ _ _ _ (fun _ => True) hop hd0 dev65c02.instruct_06 ((H.h06 _ hc .cmos).toP _) trivial
    · exact step_case _ hc _ .cmos s hs hw _ _ _ _ (fun _ => True) hop hd0 dev65c02.instruct_08 ((H.h08 _ hc .cmos).toP _) trivial
    · exact step_case _ hc _ .cmos s hs hw _ _ _ _ (fun _ => True) hop hd0 dev65c02.instruct_09 ((H.h09 _ hc .cmos).toP _) trivial
    · exact step_case _ hc _ .cmos s hs hw _ _ _ _ (fun _ => True) hop hd0 dev65c02.instruct_0a ((H.h0a _ hc .cmos).toP _) trivial
    · exact step_case _ hc _ .cmos s hs hw _ _ _ _ (fun _ => True) hop hd0 dev65c02.instruct_0d ((H.h0d _ hc .cmos).toP _) trivial
    · exact step_case _ hc _ .cmos s hs hw _ _ _ _ (fun _ => True) hop hd0 dev65c02.instruct_0e ((H.h0e _ hc .cmos).toP _) trivial
    · exact step_case _ hc _ .cmos s hs hw _ _ _ _ (fun _ => True) hop hd0 dev65c02.instruct_10 ((H.h10 _ hc .cmos).toP _) trivial
    · exact step_case _ hc _ .cmos s hs hw _ _ _ _ (fun _ => True) hop hd0 dev65c02.instruct_11 ((H.h11 _ hc .cmos).toP _) trivial
    · exact step_case _ hc _ .cmos s hs hw _ _ _ _ (fun _ => True) hop hd0 dev65c02.instruct_15 ((H.h15 _ hc .cmos).toP _) trivial
    · exact step_case _ hc _ .cmos s hs hw _ _ _ _ (fun _ => True) hop hd0 dev65c02.instruct_16 ((H.h16 _ hc .cmos).toP _) trivial
    · exact step_case _ hc _ .cmos s hs hw _ _ _ _ (fun _ => True) hop hd0 dev65c02.instruct_18 ((H.h18 _ hc .cmos).toP _) trivial
    · exact step_case _ hc _ .cmos s hs hw _ _ _ _ (fun _ => True) hop hd0 dev65c02.instruct_19 ((H.h19 _ hc .cmos).toP _) trivial
    · exact step_case _ hc _ .cmos s hs hw _ _ _ _ (fun _ => True) hop hd0 dev65c02.instruct_1d ((H.h1d _ hc .cmos).toP _) trivial
    · exact step_case _ hc _ .cmos s hs hw _ _ _ _ (fun _ => True) hop hd0 dev65c02.instruct_1e ((H.h1e _ hc .cmos).toP _) trivial
    · exact step_case _ hc _ .cmos s hs hw _ _ _ _ _ hop hd0 dev65c02.instruct_20 (H.h20 _ hc .cmos) (hjsr rfl)
    · exact step_case _ hc _ .cmos s hs hw _ _ _ _ (fun _ => True) hop hd0 dev65c02.instruct_21 ((H.h21 _ hc .cmos).toP _) trivial
    · exact step_case _ hc _ .cmos s hs hw _ _ _ _ (fun _ => True) hop hd0 dev65c02.instruct_24 ((H.h24 _ hc .cmos).toP _) trivial
    · exact step_case _ hc _ .cmos s hs hw _ _ _ _ (fun _ => True) hop hd0 dev65c02.instruct_25 ((H.h25 _ hc .cmos).toP _) trivial
    · exact step_case _ hc _ .cmos s hs hw _ _ _ _ (fun _ => True) hop hd0 dev65c02.instruct_26 ((H.h26 _ hc .cmos).toP _) trivial
    · exact step_case _ hc _ .cmos s hs hw _ _ _ _ (fun _ => True) hop hd0 dev65c02.instruct_28 ((H.h28 _ hc .cmos).toP _) trivial
    · exact step_case _ hc _ .cmos s hs hw _ _ _ _ (fun _ => True) hop hd0 dev65c02.instruct_29 ((H.h29 _ hc .cmos).toP _) trivial
    · exact step_case _ hc _ .cmos s hs hw _ _ _ _ (fun _ => True) hop hd0 dev65c02.instruct_2a ((H.h2a _ hc .cmos).toP _) trivial
    · exact step_case _ hc _ .cmos s hs hw _ _ _ _ (fun _ => True) hop hd0 dev65c02.instruct_2c ((H.h2c _ hc .cmos).toP _) trivial
    · exact step_case _ hc _ .cmos s hs hw _ _ _ _ (fun _ => True) hop hd0 dev65c02.instruct_2d ((H.h2d _ hc .cmos).toP _) trivial
    · exact step_case _ hc _ .cmos s hs hw _ _ _ _ (fun _ => True) hop hd0 dev65c02.instruct_2e ((H.h2e _ hc .cmos).toP _) trivial
    · exact step_case _ hc _ .cmos s hs hw _ _ _ _ (fun _ => True) hop hd0 dev65c02.instruct_30 ((H.h30 _ hc .cmos).toP _) trivial
    · exact step_case _ hc _ .cmos s hs hw _ _ _ _ (fun _ => True) hop hd0 dev65c02.instruct_31 ((H.h31 _ hc .cmos).toP _) trivial
    · exact step_case _ hc _ .cmos s hs hw _ _ _ _ (fun _ => True) hop hd0 dev65c02.instruct_35 ((H.h35 _ hc .cmos).toP _) trivial
    · exact step_case _ hc _ .cmos s hs hw _ _ _ _ (fun _ => True) hop hd0 dev65c02.instruct_36 ((H.h36 _ hc .cmos).toP _) trivial
    · exact step_case _ hc _ .cmos s hs hw _ _ _ _ (fun _ => True) hop hd0 dev65c02.instruct_38 ((H.h38 _ hc .cmos).toP _) trivial
    · exact step_case _ hc _ .cmos s hs hw _ _ _ _ (fun _ => True) hop hd0 dev65c02.instruct_39 ((H.h39 _ hc .cmos).toP _) trivial
    · exact step_case _ hc _ .cmos s hs hw _ _ _ _ (fun _ => True) hop hd0 dev65c02.instruct_3d ((H.h3d _ hc .cmos).toP _) trivial
    · exact step_case _ hc _ .cmos s hs hw _ _ _ _ (fun _ => True) hop hd0 dev65c02.instruct_3e ((H.h3e _ hc .cmos).toP _) trivial
    · exact step_case _ hc _ .cmos s hs hw _ _ _ _ (fun _ => True) hop hd0 dev65c02.instruct_40 ((H.h40 _ hc .cmos).toP _) trivial
    · exact step_case _ hc _ .cmos s hs hw _ _ _ _ (fun _ => True) hop hd0 dev65c02.instruct_41 ((H.h41 _ hc .cmos).toP _) trivial
    · exact step_case _ hc _ .cmos s hs hw _ _ _ _ (fun _ => True) hop hd0 dev65c02.instruct_45 ((H.h45 _ hc .cmos).toP _) trivial
    · exact step_case _ hc _ .cmos s hs hw _ _ _ _ (fun _ => True) hop hd0 dev65c02.instruct_46 ((H.h46 _ hc .cmos).toP _) trivial
    · exact step_case _ hc _ .cmos s hs hw _ _ _ _ (fun _ => True) hop hd0 dev65c02.instruct_48 ((H.h48 _ hc .cmos).toP _) trivial
    · exact step_case _ hc _ .cmos s hs hw _ _ _ _ (fun _ => True) hop hd0 dev65c02.instruct_49 ((H.h49 _ hc .cmos).toP _) trivial
    · exact step_case _ hc _ .cmos s hs hw _ _ _ _ (fun _ => True) hop hd0 dev65c02.instruct_4a ((H.h4a _ hc .cmos).toP _) trivial
    · exact step_case _ hc _ .cmos s hs hw _ _ _ _ (fun _ => True) hop hd0 dev65c02.instruct_4c ((H.h4c _ hc .cmos).toP _) trivial
    · exact step_case _ hc _ .cmos s hs hw _ _ _ _ (fun _ => True) hop hd0 dev65c02.instruct_4d ((H.h4d _ hc .cmos).toP _) trivial
    · exact step_case _ hc _ .cmos s hs hw _ _ _ _ (fun _ => True) hop hd0 dev65c02.instruct_4e ((H.h4e _ hc .cmos).toP _) trivial
    · exact step_case _ hc _ .cmos s hs hw _ _ _ _ (fun _ => True) hop hd0 dev65c02.instruct_50 ((H.h50 _ hc .cmos).toP _) trivial
    · exact step_case _ hc _ .cmos s hs hw _ _ _ _ (fun _ => True) hop hd0 dev65c02.instruct_51 ((H.h51 _ hc .cmos).toP _) trivial
    · exact step_case _ hc _ .cmos s hs hw _ _ _ _ (fun _ => True) hop hd0 dev65c02.instruct_55 ((H.h55 _ hc .cmos).toP _) trivial
    · exact step_case _ hc _ .cmos s hs hw _ _ _ _ (fun _ => True) hop hd0 dev65c02.instruct_56 ((H.h56 _ hc .cmos).toP _) trivial
    · exact step_case _ hc _ .cmos s hs hw _ _ _ _ (fun _ => True) hop hd0 dev65c02.instruct_58 ((H.h58 _ hc .cmos).toP _) trivial
    · exact step_case _ hc _ .cmos s hs hw _ _ _ _ (fun _ => True) hop hd0 dev65c02.instruct_59 ((H.h59 _ hc .cmos).toP _) trivial
    · exact step_case _ hc _ .cmos s hs hw _ _ _ _ (fun _ => True) hop hd0 dev65c02.instruct_5d ((H.h5d _ hc .cmos).toP _) trivial
    · exact step_case _ hc _ .cmos s hs hw _ _ _ _ (fun _ => True) hop hd0 dev65c02.instruct_5e ((H.h5e _ hc .cmos).toP _) trivial
    · exact step_case _ hc _ .cmos s hs hw _ _ _ _ (fun _ => True) hop hd0 dev65c02.instruct_60 ((H.h60 _ hc .cmos).toP _) trivial
    · exact step_case _ hc _ .cmos s hs hw _ _ _ _ _ hop hd0 dev65c02.instruct_61 (H.h61 _ hc .cmos) (hdec (Or.inl rfl))
    · exact step_case _ hc _ .cmos s hs hw _ _ _ _ _ hop hd0 dev65c02.instruct_65 (H.h65 _ hc .cmos) (hdec (Or.inl rfl))
    · exact step_case _ hc _ .cmos s hs hw _ _ _ _ (fun _ => True) hop hd0 dev65c02.instruct_66 ((H.h66 _ hc .cmos).toP _) trivial
    · exact step_case _ hc _ .cmos s hs hw _ _ _ _ (fun _ => True) hop hd0 dev65c02.instruct_68 ((H.h68 _ hc .cmos).toP _) trivial
    · exact step_case _ hc _ .cmos s hs hw _ _ _ _ _ hop hd0 dev65c02.instruct_69 (H.h69 _ hc .cmos) (hdec (Or.inl rfl))
    · exact step_case _ hc _ .cmos s hs hw _ _ _ _ (fun _ => True) hop hd0 dev65c02.instruct_6a ((H.h6a _ hc .cmos).toP _) trivial
    · exact step_case _ hc _ .cmos s hs hw _ _ _ _ (fun _ => True) hop hd0 dev65c02.instruct_6c (HC.h6c.toP _) trivial
    · exact step_case _ hc _ .cmos s hs hw _ _ _ _ _ hop hd0 dev65c02.instruct_6d (H.h6d _ hc .cmos) (hdec (Or.inl rfl))
    · exact step_case _ hc _ .cmos s hs hw _ _ _ _ (fun _ => True) hop hd0 dev65c02.instruct_6e ((H.h6e _ hc .cmos).toP _) trivial
    · exact step_case _ hc _ .cmos s hs hw _ _ _ _ (fun _ => True) hop hd0 dev65c02.instruct_70 ((H.h70 _ hc .cmos).toP _) trivial
    · exact step_case _ hc _ .cmos s hs hw _ _ _ _ _ hop hd0 dev65c02.instruct_71 (H.h71 _ hc .cmos) (hdec (Or.inl rfl))
    · exact step_case _ hc _ .cmos s hs hw _ _ _ _ _ hop hd0 dev65c02.instruct_75 (H.h75 _ hc .cmos) (hdec (Or.inl rfl))
    · exact step_case _ hc _ .cmos s hs hw _ _ _ _ (fun _ => True) hop hd0 dev65c02.instruct_76 ((H.h76 _ hc .cmos).toP _) trivial
    · exact step_case _ hc _ .cmos s hs hw _ _ _ _ (fun _ => True) hop hd0 dev65c02.instruct_78 ((H.h78 _ hc .cmos).toP _) trivial
    · exact step_case _ hc _ .cmos s hs hw _ _ _ _ _ hop hd0 dev65c02.instruct_79 (H.h79 _ hc .cmos) (hdec (Or.inl rfl))
    · exact step_case _ hc _ .cmos s hs hw _ _ _ _ _ hop hd0 dev65c02.instruct_7d (H.h7d _ hc .cmos) (hdec (Or.inl rfl))
    · exact step_case _ hc _ .cmos s hs hw _ _ _ _ (fun _ => True) hop hd0 dev65c02.instruct_7e ((H.h7e _ hc .cmos).toP _) trivial
    · exact step_case _ hc _ .cmos s hs hw _ _ _ _ (fun _ => True) hop hd0 dev65c02.instruct_81 ((H.h81 _ hc .cmos).toP _) trivial
    · exact step_case _ hc _ .cmos s hs hw _ _ _ _ (fun _ => True) hop hd0 dev65c02.instruct_84 ((H.h84 _ hc .cmos).toP _) trivial
    · exact step_case _ hc _ .cmos s hs hw _ _ _ _ (fun _ => True) hop hd0 dev65c02.instruct_85 ((H.h85 _ hc .cmos).toP _) trivial
    · exact step_case _ hc _ .cmos s hs hw _ _ _ _ (fun _ => True) hop hd0 dev65c02.instruct_86 ((H.h86 _ hc .cmos).toP _) trivial
    · exact step_case _ hc _ .cmos s hs hw _ _ _ _ (fun _ => True) hop hd0 dev65c02.instruct_88 ((H.h88 _ hc .cmos).toP _) trivial
    · exact step_case _ hc _ .cmos s hs hw _ _ _ _ (fun _ => True) hop hd0 dev65c02.instruct_8a ((H.h8a _ hc .cmos).toP _) trivial
    · exact step_case _ hc _ .cmos s hs hw _ _ _ _ (fun _ => True) hop hd0 dev65c02.instruct_8c ((H.h8c _ hc .cmos).toP _) trivial
    · exact step_case _ hc _ .cmos s hs hw _ _ _ _ (fun _ => True) hop hd0 dev65c02.instruct_8d ((H.h8d _ hc .cmos).toP _) trivial
    · exact step_case _ hc _ .cmos s hs hw _ _ _ _ (fun _ => True) hop hd0 dev65c02.instruct_8e ((H.h8e _ hc .cmos).toP _) trivial
    · exact step_case _ hc _ .cmos s hs hw _ _ _ _ (fun _ => True) hop hd0 dev65c02.instruct_90 ((H.h90 _ hc .cmos).toP _) trivial
    · exact step_case _ hc _ .cmos s hs hw _ _ _ _ (fun _ => True) hop hd0 dev65c02.instruct_91 ((H.h91 _ hc .cmos).toP _) trivial
    · exact step_case _ hc _ .cmos s hs hw _ _ _ _ (fun _ => True) hop hd0 dev65c02.instruct_94 ((H.h94 _ hc .cmos).toP _) trivial
    · exact step_case _ hc _ .cmos s hs hw _ _ _ _ (fun _ => True) hop hd0 dev65c02.instruct_95 ((H.h95 _ hc .cmos).toP _) trivial
    · exact step_case _ hc _ .cmos s hs hw _ _ _ _ (fun _ => True) hop hd0 dev65c02.instruct_96 ((H.h96 _ hc .cmos).toP _) trivial
    · exact step_case _ hc _ .cmos s hs hw _ _ _ _ (fun _ => True) hop hd0 dev65c02.instruct_98 ((H.h98 _ hc .cmos).toP _) trivial
    · exact step_case _ hc _ .cmos s hs hw _ _ _ _ (fun _ => True) hop hd0 dev65c02.instruct_99 ((H.h99 _ hc .cmos).toP _) trivial
    · exact step_case _ hc _ .cmos s hs hw _ _ _ _ (fun _ => True) hop hd0 dev65c02.instruct_9a ((H.h9a _ hc .cmos).toP _) trivial
    · exact step_case _ hc _ .cmos s hs hw _ _ _ _ (fun _ => True) hop hd0 dev65c02.instruct_9d ((H.h9d _ hc .cmos).toP _) trivial
    · exact step_case _ hc _ .cmos s hs hw _ _ _ _ (fun _ => True) hop hd0 dev65c02.instruct_a0 ((H.ha0 _ hc .cmos).toP _) trivial
    · exact step_case _ hc _ .cmos s hs hw _ _ _ _ (fun _ => True) hop hd0 dev65c02.instruct_a1 ((H.ha1 _ hc .cmos).toP _) trivial
    · exact step_case _ hc _ .cmos s hs hw _ _ _ _ (fun _ => True) hop hd0 dev65c02.instruct_a2 ((H.ha2 _ hc .cmos).toP _) trivial
    · exact step_case _ hc _ .cmos s hs hw _ _ _ _ (fun _ => True) hop hd0 dev65c02.instruct_a4 ((H.ha4 _ hc .cmos).toP _) trivial
    · exact step_case _ hc _ .cmos s hs hw _ _ _ _ (fun _ => True) hop hd0 dev65c02.instruct_a5 ((H.ha5 _ hc .cmos).toP _) trivial
    · exact step_case _ hc _ .cmos s hs hw _ _ _ _ (fun _ => True) hop hd0 dev65c02.instruct_a6 ((H.ha6 _ hc .cmos).toP _) trivial
    · exact step_case _ hc _ .cmos s hs hw _ _ _ _ (fun _ => True) hop hd0 dev65c02.instruct_a8 ((H.ha8 _ hc .cmos).toP _) trivial
    · exact step_case _ hc _ .cmos s hs hw _ _ _ _ (fun _ => True) hop hd0 dev65c02.instruct_a9 ((H.ha9 _ hc .cmos).toP _) trivial
    · exact step_case _ hc _ .cmos s hs hw _ _ _ _ (fun _ => True) hop hd0 dev65c02.instruct_aa ((H.haa _ hc .cmos).toP _) trivial
    · exact step_case _ hc _ .cmos s hs hw _ _ _ _ (fun _ => True) hop hd0 dev65c02.instruct_ac ((H.hac _ hc .cmos).toP _) trivial
    · exact step_case _ hc _ .cmos s hs hw _ _ _ _ (fun _ => True) hop hd0 dev65c02.instruct_ad ((H.had _ hc .cmos).toP _) trivial
    · exact step_case _ hc _ .cmos s hs hw _ _ _ _ (fun _ => True) hop hd0 dev65c02.instruct_ae ((H.hae _ hc .cmos).toP _) trivial
    · exact step_case _ hc _ .cmos s hs hw _ _ _ _ (fun _ => True) hop hd0 dev65c02.instruct_b0 ((H.hb0 _ hc .cmos).toP _) trivial
    · exact step_case _ hc _ .cmos s hs hw _ _ _ _ (fun _ => True) hop hd0 dev65c02.instruct_b1 ((H.hb1 _ hc .cmos).toP _) trivial
    · exact step_case _ hc _ .cmos s hs hw _ _ _ _ (fun _ => True) hop hd0 dev65c02.instruct_b4 ((H.hb4 _ hc .cmos).toP _) trivial
    · exact step_case _ hc _ .cmos s hs hw _ _ _ _ (fun _ => True) hop hd0 dev65c02.instruct_b5 ((H.hb5 _ hc .cmos).toP _) trivial
    · exact step_case _ hc _ .cmos s hs hw _ _ _ _ (fun _ => True) hop hd0 dev65c02.instruct_b6 ((H.hb6 _ hc .cmos).toP _) trivial
    · exact step_case _ hc _ .cmos s hs hw _ _ _ _ (fun _ => True) hop hd0 dev65c02.instruct_b8 ((H.hb8 _ hc .cmos).toP _) trivial
    · exact step_case _ hc _ .cmos s hs hw _ _ _ _ (fun _ => True) hop hd0 dev65c02.instruct_b9 ((H.hb9 _ hc .cmos).toP _) trivial
    · exact step_case _ hc _ .cmos s hs hw _ _ _ _ (fun _ => True) hop hd0 dev65c02.instruct_ba ((H.hba _ hc .cmos).toP _) trivial
    · exact step_case _ hc _ .cmos s hs hw _ _ _ _ (fun _ => True) hop hd0 dev65c02.instruct_bc ((H.hbc _ hc .cmos).toP _) trivial
    · exact step_case _ hc _ .cmos s hs hw _ _ _ _ (fun _ => True) hop hd0 dev65c02.instruct_bd ((H.hbd _ hc .cmos).toP _) trivial
    · exact step_case _ hc _ .cmos s hs hw _ _ _ _ (fun _ => True) hop hd0 dev65c02.instruct_be ((H.hbe _ hc .cmos).toP _) trivial
    · exact step_case _ hc _ .cmos s hs hw _ _ _ _ (fun _ => True) hop hd0 dev65c02.instruct_c0 ((H.hc0 _ hc .cmos).toP _) trivial
    · exact step_case _ hc _ .cmos s hs hw _ _ _ _ (fun _ => True) hop hd0 dev65c02.instruct_c1 ((H.hc1 _ hc .cmos).toP _) trivial
    · exact step_case _ hc _ .cmos s hs hw _ _ _ _ (fun _ => True) hop hd0 dev65c02.instruct_c4 ((H.hc4 _ hc .cmos).toP _) trivial
    · exact step_case _ hc _ .cmos s hs hw _ _ _ _ (fun _ => True) hop hd0 dev65c02.instruct_c5 ((H.hc5 _ hc .cmos).toP _) trivial
    · exact step_case _ hc _ .cmos s hs hw _ _ _ _ (fun _ => True) hop hd0 dev65c02.instruct_c6 ((H.hc6 _ hc .cmos).toP _) trivial
    · exact step_case _ hc _ .cmos s hs hw _ _ _ _ (fun _ => True) hop hd0 dev65c02.instruct_c8 ((H.hc8 _ hc .cmos).toP _) trivial
    · exact step_case _ hc _ .cmos s hs hw _ _ _ _ (fun _ => True) hop hd0 dev65c02.instruct_c9 ((H.hc9 _ hc .cmos).toP _) trivial
    · exact step_case _ hc _ .cmos s hs hw _ _ _ _ (fun _ => True) hop hd0 dev65c02.instruct_ca ((H.hca _ hc .cmos).toP _) trivial
    · exact step_case _ hc _ .cmos s hs hw _ _ _ _ (fun _ => True) hop hd0 dev65c02.instruct_cc ((H.hcc _ hc .cmos).toP _) trivial
    · exact step_case _ hc _ .cmos s hs hw _ _ _ _ (fun _ => True) hop hd0 dev65c02.instruct_cd ((H.hcd _ hc .cmos).toP _) trivial
    · exact step_case _ hc _ .cmos s hs hw _ _ _ _ (fun _ => True) hop hd0 dev65c02.instruct_ce ((H.hce _ hc .cmos).toP _) trivial
    · exact step_case _ hc _ .cmos s hs hw _ _ _ _ (fun _ => True) hop hd0 dev65c02.instruct_d0 ((H.hd0 _ hc .cmos).toP _) trivial
    · exact step_case _ hc _ .cmos s hs hw _ _ _ _ (fun _ => True) hop hd0 dev65c02.instruct_d1 ((H.hd1 _ hc .cmos).toP _) trivial
    · exact step_case _ hc _ .cmos s hs hw _ _ _ _ (fun _ => True) hop hd0 dev65c02.instruct_d5 ((H.hd5 _ hc .cmos).toP _) trivial
    · exact step_case _ hc _ .cmos s hs hw _ _ _ _ (fun _ => True) hop hd0 dev65c02.instruct_d6 ((H.hd6 _ hc .cmos).toP _) trivial
    · exact step_case _ hc _ .cmos s hs hw _ _ _ _ (fun _ => True) hop hd0 dev65c02.instruct_d8 ((H.hd8 _ hc .cmos).toP _) trivial
    · exact step_case _ hc _ .cmos s hs hw _ _ _ _ (fun _ => True) hop hd0 dev65c02.instruct_d9 ((H.hd9 _ hc .cmos).toP _) trivial
    · exact step_case _ hc _ .cmos s hs hw _ _ _ _ (fun _ => True) hop hd0 dev65c02.instruct_dd ((H.hdd _ hc .cmos).toP _) trivial
    · exact step_case _ hc _ .cmos s hs hw _ _ _ _ (fun _ => True) hop hd0 dev65c02.instruct_de ((H.hde _ hc .cmos).toP _) trivial
    · exact step_case _ hc _ .cmos s hs hw _ _ _ _ (fun _ => True) hop hd0 dev65c02.instruct_e0 ((H.he0 _ hc .cmos).toP _) trivial
    · exact step_case _ hc _ .cmos s hs hw _ _ _ _ _ hop hd0 dev65c02.instruct_e1 (H.he1 _ hc .cmos) (hdec (Or.inr rfl))
    · exact step_case _ hc _ .cmos s hs hw _ _ _ _ (fun _ => True) hop hd0 dev65c02.instruct_e4 ((H.he4 _ hc .cmos).toP _) trivial
    · exact step_case _ hc _ .cmos s hs hw _ _ _ _ _ hop hd0 dev65c02.instruct_e5 (H.he5 _ hc .cmos) (hdec (Or.inr rfl))
    · exact step_case _ hc _ .cmos s hs hw _ _ _ _ (fun _ => True) hop hd0 dev65c02.instruct_e6 ((H.he6 _ hc .cmos).toP _) trivial
    · exact step_case _ hc _ .cmos s hs hw _ _ _ _ (fun _ => True) hop hd0 dev65c02.instruct_e8 ((H.he8 _ hc .cmos).toP _) trivial
    · exact step_case _ hc _ .cmos s hs hw _ _ _ _ _ hop hd0 dev65c02.instruct_e9 (H.he9 _ hc .cmos) (hdec (Or.inr rfl))
    · exact step_case _ hc _ .cmos s hs hw _ _ _ _ (fun _ => True) hop hd0 dev65c02.instruct_ea ((H.hea _ hc .cmos).toP _) trivial
    · exact step_case _ hc _ .cmos s hs hw _ _ _ _ (fun _ => True) hop hd0 dev65c02.instruct_ec ((H.hec _ hc .cmos).toP _) trivial
    · exact step_case _ hc _ .cmos s hs hw _ _ _ _ _ hop hd0 dev65c02.instruct_ed (H.hed _ hc .cmos) (hdec (Or.inr rfl))
    · exact step_case _ hc _ .cmos s hs hw _ _ _ _ (fun _ => True) hop hd0 dev65c02.instruct_ee ((H.hee _ hc .cmos).toP _) trivial
    · exact step_case _ hc _ .cmos s hs hw _ _ _ _ (fun _ => True) hop hd0 dev65c02.instruct_f0 ((H.hf0 _ hc .cmos).toP _) trivial
    · exact step_case _ hc _ .cmos s hs hw _ _ _ _ _ hop hd0 dev65c02.instruct_f1 (H.hf1 _ hc .cmos) (hdec (Or.inr rfl))
    · exact step_case _ hc _ .cmos s hs hw _ _ _ _ _ hop hd0 dev65c02.instruct_f5 (H.hf5 _ hc .cmos) (hdec (Or.inr rfl))
    · exact step_case _ hc _ .cmos s hs hw _ _ _ _ (fun _ => True) hop hd0 dev65c02.instruct_f6 ((H.hf6 _ hc .cmos).toP _) trivial
    · exact step_case _ hc _ .cmos s hs hw _ _ _ _ (fun _ => True) hop hd0 dev65c02.instruct_f8 ((H.hf8 _ hc .cmos).toP _) trivial
    · exact step_case _ hc _ .cmos s hs hw _ _ _ _ _ hop hd0 dev65c02.instruct_f9 (H.hf9 _ hc .cmos) (hdec (Or.inr rfl))
    · exact step_case _ hc _ .cmos s hs hw _ _ _ _ _ hop hd0 dev65c02.instruct_fd (H.hfd _ hc .cmos) (hdec (Or.inr rfl))
    · exact step_case _ hc _ .cmos s hs hw _ _ _ _ (fun _ => True) hop hd0 dev65c02.instruct_fe ((H.hfe _ hc .cmos).toP _) trivial

/-- C02 in full: `unproved` is empty, so the partial theorem is the statement. -/
theorem C02_full : Statement := fun s hs hw mn mo hd hdec hjsr =>
  C02_partial s hs hw mn mo hd (by simp [unproved]) hdec hjsr

/-- Non-vacuity: a well-formed state executing STZ $80 (a CMOS-only opcode). -/
example : ∃ s : St, WF dev65c02.cfg s ∧ s.waiting = false ∧
    decode .cmos (s.mem s.pc) = some (.STZ, .zpg) ∧ s.mem s.pc ∉ unproved := by
  refine ⟨{ (default : St) with mem := fun k => if k = 0 then 0x64 else 0x80 }, ?_, rfl, by decide, by decide⟩
  refine ⟨by decide, by decide, by decide, by decide, by decide, by decide, ?_⟩
  intro k; dsimp only; split <;> decide

end Py65.Props.C02
