/-
C10 for the REGENERATED model: the property theorems of `Py65/Props/C10.lean`, restated for the
definitions that `harness/py2lean_mem.py` translates from the current `py65/memory.py`
(`Py65/Gen/ObsMemGen.lean`).  Property statements only; each follows from its hand-model
counterpart by rewriting with the equalities of `Py65/Proofs/ObsMemGenEq.lean` (which are what a
change of `memory.py` breaks).

Dictionary (generated ↔ hand model):
`ObsMemGen.getitem_int/_slice` ↔ `get/getSlice`, `ObsMemGen.setitem_int/_slice` ↔ `set/setSlice`,
`ObsMemGen.subscribe_to_read/_write` ↔ `subscribeRead/Write`, `ObsMemGen.write` ↔ `write`,
`ObsMemGenEq.initOf w cells` = generated `__init__` applied to a backing list `cells` of the
default length, `ObsMemGenEq.run` = a history performed with the generated methods.
(`subscribe_idempotent_hist` of C10 is a statement about the Spec only and is not repeated.)
-/
import Py65.Props.C10
import Py65.Proofs.ObsMemGenEq

namespace Py65.Props.C10g
open Py65 Py65.Gen Py65.Proofs Py65.Spec.ObsMem
open Py65.Model.ObsMem (Reply OM Op Ev sliceIndices)
open Py65.Proofs.ObsMemGenEq (init_eq run_eq getitem_int_eq setitem_int_eq getitem_slice_eq
  setitem_slice_eq subscribe_to_read_eq subscribe_to_write_eq write_eq)

/-- `subs_spec` for the generated `__init__`, `subscribe_to_read/_write` (and every other
generated method, through `run`): after ANY history the subscriber lists are exactly the Spec's. -/
theorem subs_spec (reply : Reply) (w : Int) (cells : Int → Int) (hist : List Op) (a : Int) :
    let m := ObsMemGenEq.run reply (ObsMemGenEq.initOf w cells) hist
    m.physMask = (if w > 16 then 0x3ffff else 0xffff) ∧
    m.rsubs.of a = subscribers .read m.physMask hist a ∧
    m.wsubs.of a = subscribers .write m.physMask hist a ∧
    (subscribers .read m.physMask hist a).Nodup ∧ (subscribers .write m.physMask hist a).Nodup ∧
    (∀ cb, cb ∈ subscribers .read m.physMask hist a ↔
        ∃ addrs, Op.subR addrs cb ∈ hist ∧ ∃ x ∈ addrs, phys m.physMask x = a) ∧
    (∀ cb, cb ∈ subscribers .write m.physMask hist a ↔
        ∃ addrs, Op.subW addrs cb ∈ hist ∧ ∃ x ∈ addrs, phys m.physMask x = a) := by
  rw [run_eq, init_eq]
  exact C10.subs_spec reply w cells hist a

/-- non-vacuity (generated definitions evaluated by the kernel): callback 1 registered through an
alias and a negative address, callback 2 in between, callback 1 again: the generated memory holds
`[1, 2]` for cell 5, nothing for cell 4's write side. -/
example :
    let m := ObsMemGenEq.run (fun _ _ _ _ => none) (ObsMemGenEq.initOf 16 fun _ => 7)
      [.subR [5, 65541, -65531] 1, .subW [5] 9, .subR [4, 5] 2, .subR [5] 1, .set 5 3]
    m.rsubs.of 5 = [1, 2] ∧ m.wsubs.of 5 = [9] ∧ m.wsubs.of 4 = [] ∧ m.physMask = 0xffff := by
  decide +kernel

/-- `get_calls` for the generated `__getitem__` (int index). -/
theorem get_calls (reply : Reply) (w : Int) (cells : Int → Int) (hist : List Op) (a : Int) :
    let m := ObsMemGenEq.run reply (ObsMemGenEq.initOf w cells) hist
    let p := phys m.physMask a
    let subs := subscribers .read m.physMask hist p
    let r := ObsMemGen.getitem_int reply m a
    subs.Nodup ∧
    r.2.log = m.log ++ subs.map (fun cb => { cb := cb, addr := p, val := none }) ∧
    r.1 = (lastSome (readReplies reply subs m.log.length p)).getD (m.subject p) ∧
    r.2.subject = m.subject ∧ r.2.subjLen = m.subjLen ∧ r.2.rsubs = m.rsubs ∧ r.2.wsubs = m.wsubs ∧
    r.2.physMask = m.physMask := by
  rw [run_eq, init_eq, getitem_int_eq]
  exact C10.get_calls reply w cells hist a

/-- non-vacuity, and "0 is a value": subscribers `[1, 2, 3]` of cell 5 (content 7) answer
`some 9`, `some 0`, `none`: the generated read returns 0 after exactly three calls in order. -/
example :
    let reply : Reply := fun cb _ _ _ => if cb = 1 then some 9 else if cb = 2 then some 0 else none
    let m := ObsMemGenEq.run reply (ObsMemGenEq.initOf 16 fun _ => 7)
      [.subR [5] 1, .subR [65541] 2, .subR [5, 5] 3, .subR [5] 2]
    (ObsMemGen.getitem_int reply m (-65531)).1 = 0 ∧
    (ObsMemGen.getitem_int reply m (-65531)).2.log = [⟨1, 5, none⟩, ⟨2, 5, none⟩, ⟨3, 5, none⟩] := by
  decide +kernel

/-- `set_chain` for the generated `__setitem__` (int index). -/
theorem set_chain (reply : Reply) (w : Int) (cells : Int → Int) (hist : List Op) (a v : Int) :
    let m := ObsMemGenEq.run reply (ObsMemGenEq.initOf w cells) hist
    let p := phys m.physMask a
    let subs := subscribers .write m.physMask hist p
    let m' := ObsMemGen.setitem_int reply m a v
    subs.Nodup ∧
    m'.log = m.log ++ (List.range subs.length).map (fun i =>
      { cb := subs.getD i 0, addr := p, val := some (seen reply subs m.log.length p v i) }) ∧
    m'.subject = upd m.subject p (seen reply subs m.log.length p v subs.length) ∧
    m'.subjLen = m.subjLen ∧ m'.rsubs = m.rsubs ∧ m'.wsubs = m.wsubs ∧ m'.physMask = m.physMask := by
  rw [run_eq, init_eq, setitem_int_eq]
  exact C10.set_chain reply w cells hist a v

/-- non-vacuity: write subscribers `[1, 2, 3]` of cell 5; 1 answers `None`, 2 doubles the value,
3 answers `0`: they are shown 21, 21, 42 and 0 is stored; cell 6 keeps its 7. -/
example :
    let reply : Reply := fun cb _ _ v =>
      if cb = 1 then none else if cb = 2 then v.map (· * 2) else some 0
    let m := ObsMemGenEq.run reply (ObsMemGenEq.initOf 32 fun _ => 7)
      [.subW [5] 1, .subW [5 + 0x40000] 2, .subW [5] 3, .subW [5] 1]
    (ObsMemGen.setitem_int reply m 5 21).log = [⟨1, 5, some 21⟩, ⟨2, 5, some 21⟩, ⟨3, 5, some 42⟩] ∧
    (ObsMemGen.setitem_int reply m 5 21).subject 5 = 0 ∧
    (ObsMemGen.setitem_int reply m 5 21).subject 6 = 7 := by
  decide +kernel

/-- `no_subs_silent` for the generated item access. -/
theorem no_subs_silent (reply : Reply) (w : Int) (cells : Int → Int) (hist : List Op) (a : Int) :
    let m := ObsMemGenEq.run reply (ObsMemGenEq.initOf w cells) hist
    let p := phys m.physMask a
    ((∀ addrs cb, Op.subR addrs cb ∈ hist → ∀ x ∈ addrs, phys m.physMask x ≠ p) →
        ObsMemGen.getitem_int reply m a = (m.subject p, m)) ∧
    ((∀ addrs cb, Op.subW addrs cb ∈ hist → ∀ x ∈ addrs, phys m.physMask x ≠ p) →
        ∀ v, ObsMemGen.setitem_int reply m a v = { m with subject := upd m.subject p v }) := by
  rw [run_eq, init_eq, getitem_int_eq, setitem_int_eq]
  exact C10.no_subs_silent reply w cells hist a

/-- non-vacuity: subscribers on cells 4 and 6, none on 5: reading / writing 5 logs nothing
although every callback would answer 99. -/
example :
    let reply : Reply := fun _ _ _ _ => some 99
    let m := ObsMemGenEq.run reply (ObsMemGenEq.initOf 16 fun _ => 7) [.subR [4, 6] 1, .subW [4, 6, 65540] 2]
    (ObsMemGen.getitem_int reply m 5).1 = 7 ∧ (ObsMemGen.getitem_int reply m 5).2.log = [] ∧
    (ObsMemGen.setitem_int reply m 5 3).log = [] ∧ (ObsMemGen.setitem_int reply m 5 3).subject 5 = 3 ∧
    (ObsMemGen.getitem_int reply m 4).1 = 99 := by
  decide +kernel

/-- `subscribe_idempotent` for the generated `subscribe_to_read/_write`. -/
theorem subscribe_idempotent (m : OM) (addrs : List Int) (cb : Nat) :
    ((∀ x ∈ addrs, cb ∈ m.rsubs.of (Py.land x m.physMask)) → ObsMemGen.subscribe_to_read m addrs cb = m) ∧
    ((∀ x ∈ addrs, cb ∈ m.wsubs.of (Py.land x m.physMask)) → ObsMemGen.subscribe_to_write m addrs cb = m) ∧
    ObsMemGen.subscribe_to_read (ObsMemGen.subscribe_to_read m addrs cb) addrs cb =
      ObsMemGen.subscribe_to_read m addrs cb ∧
    ObsMemGen.subscribe_to_write (ObsMemGen.subscribe_to_write m addrs cb) addrs cb =
      ObsMemGen.subscribe_to_write m addrs cb := by
  rw [subscribe_to_read_eq, subscribe_to_write_eq]
  exact C10.subscribe_idempotent m addrs cb

/-- non-vacuity: the second, identical subscription adds no second call. -/
example :
    let reply : Reply := fun _ _ _ _ => none
    let m := ObsMemGenEq.run reply (ObsMemGenEq.initOf 16 fun _ => 7)
      [.subR [5, 6, 5] 1, .subR [5, 6, 5] 1, .subR [65541] 1]
    (ObsMemGen.getitem_int reply m 5).2.log = [⟨1, 5, none⟩] ∧ m.rsubs.of 6 = [1] := by
  decide +kernel

/-- `slice_elementwise` for the generated `__getitem__` / `__setitem__` with a slice index. -/
theorem slice_elementwise (reply : Reply) (m : OM) (hm : WF m) (start stop step : Option Int) :
    (step = some 0 →
        ObsMemGen.getitem_slice reply m ⟨start, stop, step⟩ = none ∧
        ∀ vals, ObsMemGen.setitem_slice reply m ⟨start, stop, step⟩ vals = none) ∧
    (step ≠ some 0 → ∃ idx,
        sliceIndices (m.physMask + 1) start stop step = some idx ∧
        (∀ i ∈ idx, 0 ≤ i ∧ i ≤ m.physMask) ∧
        ObsMemGen.getitem_slice reply m ⟨start, stop, step⟩ =
          some (idx.foldl (fun (acc : List Int × OM) n =>
                  (acc.1 ++ [(ObsMemGen.getitem_int reply acc.2 n).1],
                   (ObsMemGen.getitem_int reply acc.2 n).2)) ([], m)) ∧
        (∀ vals, ObsMemGen.setitem_slice reply m ⟨start, stop, step⟩ vals =
          some ((idx.zip vals).foldl (fun m p => ObsMemGen.setitem_int reply m p.1 p.2) m))) ∧
    (∀ s e, 0 ≤ s → s ≤ e → e ≤ m.physMask + 1 →
        sliceIndices (m.physMask + 1) (some s) (some e) none =
          some ((List.range (e - s).toNat).map fun (i : Nat) => s + (i : Int))) := by
  simp only [getitem_slice_eq, setitem_slice_eq, getitem_int_eq, setitem_int_eq]
  exact C10.slice_elementwise reply m hm start stop step

/-- non-vacuity: `mem[7:3:-2]` with a read subscriber on 5 calls it once; a slice write with too
few values stops early; step 0 is a `ValueError` (generated definitions). -/
example :
    let reply : Reply := fun _ _ _ _ => some 1
    let m := ObsMemGenEq.run reply (ObsMemGenEq.initOf 16 fun a => a) [.subR [5] 1]
    (ObsMemGen.getitem_slice reply m ⟨some 7, some 3, some (-2)⟩).map (·.1) = some [7, 1] ∧
    (ObsMemGen.getitem_slice reply m ⟨some 7, some 3, some (-2)⟩).map (·.2.log) = some [⟨1, 5, none⟩] ∧
    (ObsMemGen.setitem_slice reply m ⟨some 2, some 6, none⟩ [10, 11]).map
        (fun m' => (m'.subject 2, m'.subject 3, m'.subject 4)) = some (10, 11, 4) ∧
    (ObsMemGen.getitem_slice reply m ⟨none, none, some 0⟩).isNone := by
  decide +kernel

/-- `bulk_write_silent` for the generated `write`. -/
theorem bulk_write_silent (reply : Reply) (w : Int) (cells : Int → Int) (hist : List Op)
    (start : Int) (bytes : List Int) :
    let m := ObsMemGenEq.run reply (ObsMemGenEq.initOf w cells) hist
    let s := phys m.physMask start
    let m' := ObsMemGen.write m start bytes
    m'.log = m.log ∧ m'.rsubs = m.rsubs ∧ m'.wsubs = m.wsubs ∧ m'.physMask = m.physMask ∧
    (∀ i : Nat, i < bytes.length → m'.subject (s + i) = bytes.getD i 0) ∧
    (∀ k, k < s ∨ s + bytes.length ≤ k → m'.subject k = m.subject k) ∧
    m'.subjLen = max m.subjLen (s + bytes.length) := by
  rw [run_eq, init_eq, write_eq]
  exact C10.bulk_write_silent reply w cells hist start bytes

/-- non-vacuity: subscribers on cells 5 and 6 would answer 99; the generated bulk write over them
logs nothing and stores the bytes; at the last cell it runs past the end (no wrap-around). -/
example :
    let reply : Reply := fun _ _ _ _ => some 99
    let m := ObsMemGenEq.run reply (ObsMemGenEq.initOf 16 fun _ => 7) [.subR [5, 6] 1, .subW [5, 6] 2]
    (ObsMemGen.write m (5 + 0x10000) [1, 2, 3]).log = [] ∧
    (ObsMemGen.write m (5 + 0x10000) [1, 2, 3]).subject 6 = 2 ∧
    (ObsMemGen.write m 0xffff [1, 2, 3]).subjLen = 0x10002 ∧ (ObsMemGen.write m 0xffff [1, 2, 3]).subject 0 = 7 ∧
    (ObsMemGen.write m 0xffff [1, 2, 3]).subject 0x10001 = 3 := by
  decide +kernel

/-- The generated `__init__` with its default `subject=None`: a memory of `physMask + 1` zero
cells, no subscribers, empty call log (the state `subs_spec … []` starts from, with `cells = 0`). -/
theorem init_default (w : Int) :
    ObsMemGen.init ObsMemGen.init.default_1 w = ObsMemGenEq.initOf w (fun _ => 0) ∧
    ObsMemGen.init.default_2 = 16 := by
  rw [ObsMemGenEq.init_defaults.1, ObsMemGenEq.init_none_eq, init_eq]
  exact ⟨rfl, ObsMemGenEq.init_defaults.2⟩

/-- non-vacuity: `ObservableMemory()` is the 64 K memory of zeros. -/
example :
    (ObsMemGen.init ObsMemGen.init.default_1 ObsMemGen.init.default_2).physMask = 0xffff ∧
    (ObsMemGen.init ObsMemGen.init.default_1 ObsMemGen.init.default_2).subjLen = 0x10000 ∧
    (ObsMemGen.init ObsMemGen.init.default_1 ObsMemGen.init.default_2).subject 0x1234 = 0 := by
  decide +kernel

end Py65.Props.C10g
