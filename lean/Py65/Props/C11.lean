/-
C11 — "Observation is transparent".

Property theorems only.  They are about the model `Py65/Model/ObsMem.lean` of
`py65.memory.ObservableMemory` (tied to the real class by C10's correspondence) and about the
plain list memory seen as a total function.  A device touches its memory object only through
`memory[e]` and `memory[e] = v` (the translator refuses anything else, DESIGN.md §2.4) at
addresses `0 ≤ e ≤ addrMask = physMask` (C05), so a program run is, for the memory, a list of
in-range `MemEv`s; `replay_equiv` is the statement for any such list, hence for any program,
any placement of `None`-answering subscribers and any run length; the harness
(`harness/props/c11.py`) additionally performs the lock-step experiment on the real devices.

`Quiet reply m`: every callback subscribed anywhere on `m` answers `None` whenever and however it
is called — this includes the memory with no subscribers at all.
-/
import Py65.Proofs.ObsMemLemmas

namespace Py65.Props.C11
open Py65 Py65.Model.ObsMem Py65.Spec.ObsMem

/-- `obs_transparent_get`: on a memory whose subscribers all answer `None` (or that has none), a
read at an in-range address returns the stored cell and changes nothing but the call log (which
grows by exactly the calls C10 prescribes). -/
theorem obs_transparent_get (reply : Reply) (m : OM) (hm : WF m) (hq : Quiet reply m) (a : Int)
    (h0 : 0 ≤ a) (h1 : a ≤ m.physMask) :
    (Py65.Model.ObsMem.get reply m a).1 = m.subject a ∧
    (Py65.Model.ObsMem.get reply m a).2 =
      { m with log := m.log ++ (m.rsubs.of a).map (fun cb => { cb := cb, addr := a, val := none }) } := by
  have hp : Py.land a m.physMask = a := land_of_inRange hm h0 h1
  constructor
  · unfold Py65.Model.ObsMem.get
    simp only [hp]
    rw [readLoop_quiet reply a (m.rsubs.of a) none m.log (fun cb hcb i => hq a cb (Or.inl hcb) i a none)]
  · unfold Py65.Model.ObsMem.get
    simp only [hp, readLoop_log]

/-- `obs_transparent_set`: on such a memory a write at an in-range address stores exactly `v` at
exactly that address and changes nothing else but the call log. -/
theorem obs_transparent_set (reply : Reply) (m : OM) (hm : WF m) (hq : Quiet reply m) (a v : Int)
    (h0 : 0 ≤ a) (h1 : a ≤ m.physMask) :
    Py65.Model.ObsMem.set reply m a v =
      { m with subject := upd m.subject a v, log := (Py65.Model.ObsMem.set reply m a v).log } ∧
    (Py65.Model.ObsMem.set reply m a v).log = m.log ++ (m.wsubs.of a).map (fun cb => { cb := cb, addr := a, val := some v }) := by
  have hp : Py.land a m.physMask = a := land_of_inRange hm h0 h1
  have hv : ∀ log, (writeLoop reply a (m.wsubs.of a) v log).1 = v := fun log =>
    writeLoop_quiet reply a (m.wsubs.of a) v log (fun cb hcb i x => hq a cb (Or.inr hcb) i a x)
  constructor
  · unfold Py65.Model.ObsMem.set
    simp only [hp, hv]
    rfl
  · unfold Py65.Model.ObsMem.set
    simp only [hp]
    exact writeLoop_quiet_log reply a (m.wsubs.of a) v m.log (fun cb hcb i x => hq a cb (Or.inr hcb) i a x)

/-- non-vacuity for the two theorems above: a 64 K memory with a read subscriber on `$F004`
and a write subscriber on `$F001` that answer `None` is `WF` and `Quiet`; the read returns the
cell, the write stores the value, and both callbacks were called (so the hypotheses are not
satisfied only by memories nobody observes). -/
example :
    let reply : Reply := fun _ _ _ _ => none
    let m := run reply (init 16 fun a => a % 256) [.subR [0xf004] 1, .subW [0xf001] 2]
    WF m ∧ Quiet reply m ∧
    (Py65.Model.ObsMem.get reply m 0xf004).1 = 4 ∧
    (Py65.Model.ObsMem.get reply m 0xf004).2.log = [⟨1, 0xf004, none⟩] ∧
    (Py65.Model.ObsMem.set reply m 0xf001 65).subject 0xf001 = 65 ∧
    (Py65.Model.ObsMem.set reply m 0xf001 65).log = [⟨2, 0xf001, some 65⟩] := by
  refine ⟨run_WF _ _ _ (init_WF _ _), fun _ _ _ _ _ _ => rfl, ?_⟩
  decide +kernel

/-- `replay_equiv`: replaying ANY list of in-range item accesses on a plain memory `mem` and on
an `ObservableMemory` `m` whose subscribers all answer `None` (placed anywhere, any number; or
none at all), starting from the same cells, returns the same value for every read and ends —
hence, by taking prefixes, is after every single access — with the same cells; the
subscriptions, the mask and the backing list's length are untouched. -/
theorem replay_equiv (reply : Reply) (evs : List MemEv) (mem : Int → Int) (m : OM)
    (hm : WF m) (hq : Quiet reply m)
    (hin : ∀ e ∈ evs, InRange m.physMask e)
    (hsame : ∀ k, 0 ≤ k → k ≤ m.physMask → mem k = m.subject k) :
    (replayObs reply m evs).1 = (replayPlain mem evs).1 ∧
    (∀ k, 0 ≤ k → k ≤ m.physMask → (replayPlain mem evs).2 k = (replayObs reply m evs).2.subject k) ∧
    (replayObs reply m evs).2.rsubs = m.rsubs ∧ (replayObs reply m evs).2.wsubs = m.wsubs ∧
    (replayObs reply m evs).2.physMask = m.physMask ∧ (replayObs reply m evs).2.subjLen = m.subjLen := by
  induction evs generalizing mem m with
  | nil => exact ⟨rfl, hsame, rfl, rfl, rfl, rfl⟩
  | cons e es ih =>
    have hin' : ∀ e' ∈ es, InRange m.physMask e' := fun e' he' => hin e' (List.mem_cons_of_mem _ he')
    have he := hin e List.mem_cons_self
    cases e with
    | r a =>
      obtain ⟨h0, h1⟩ := he
      have hg := obs_transparent_get reply m hm hq a h0 h1
      have ih' := ih mem (Py65.Model.ObsMem.get reply m a).2 ⟨hm.1, hm.2⟩ hq hin' hsame
      simp only [replayObs, replayPlain, obsStep, plainStep]
      refine ⟨?_, ih'.2.1, ih'.2.2.1, ih'.2.2.2.1, ih'.2.2.2.2.1, ih'.2.2.2.2.2⟩
      rw [ih'.1, hg.1, hsame a h0 h1]
    | w a v =>
      obtain ⟨h0, h1⟩ := he
      have hs := (obs_transparent_set reply m hm hq a v h0 h1).1
      have hsame' : ∀ k, 0 ≤ k → k ≤ (Py65.Model.ObsMem.set reply m a v).physMask →
          upd mem a v k = (Py65.Model.ObsMem.set reply m a v).subject k := by
        intro k hk0 hk1
        rw [hs]
        show upd mem a v k = upd m.subject a v k
        unfold upd
        by_cases hk : k = a
        · simp [hk]
        · simp only [hk, if_false]; exact hsame k hk0 hk1
      have ih' := ih (upd mem a v) (Py65.Model.ObsMem.set reply m a v) ⟨hm.1, hm.2⟩ hq hin' hsame'
      simp only [replayObs, replayPlain, obsStep, plainStep]
      refine ⟨?_, ih'.2.1, ih'.2.2.1, ih'.2.2.2.1, ih'.2.2.2.2.1, ih'.2.2.2.2.2⟩
      rw [ih'.1]

/-- non-vacuity: the access log of `INC $F001 ; LDA $F004` style traffic (read, write, read of
observed cells, read of an unobserved one) replayed on both memories: same values, same cells —
while the observers were in fact called three times. -/
example :
    let reply : Reply := fun _ _ _ _ => none
    let cells : Int → Int := fun a => a % 256
    let m := run reply (init 16 cells) [.subR [0xf004, 0xf001] 1, .subW [0xf001] 2]
    let evs : List MemEv := [.r 0xf001, .w 0xf001 2, .r 0xf004, .r 0x10, .w 0xffff 9, .r 0xffff]
    (replayObs reply m evs).1 = [some 1, none, some 4, some 16, none, some 9] ∧
    (replayPlain cells evs).1 = [some 1, none, some 4, some 16, none, some 9] ∧
    (replayObs reply m evs).2.subject 0xf001 = 2 ∧ (replayPlain cells evs).2 0xf001 = 2 ∧
    (replayObs reply m evs).2.log = [⟨1, 0xf001, none⟩, ⟨2, 0xf001, some 2⟩, ⟨1, 0xf004, none⟩] ∧
    (∀ e ∈ evs, InRange m.physMask e) := by
  decide +kernel

end Py65.Props.C11
