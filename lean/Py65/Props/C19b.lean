/-
C19 — "What the monitor displays is the machine's true state": the register line, the byte column
of `disassemble`, the cycle counter.  (Number round trips and `tilde_consistent`: `Props/C19.lean`;
`mem`: `mem_exact` of C16.)  Same namespace as `Props/C19.lean`.

Property theorems only (helper lemmas: `Py65/Proofs/FmtLemmas.lean`).  They are about the
hand-written model `Py65/Model/Fmt.lean` of `MPU.__repr__` (all three devices), the status print,
`do_cycles` and `_format_disassembly`; the model is tied to the real code, byte for byte, by the
correspondence run of `harness/props/c19.py`.
-/
import Py65.Proofs.FmtLemmas
import Py65.Props.C19

namespace Py65.Props.C19
open Py65.Model.PyStr Py65.Model.Fmt Py65.Proofs.Fmt Py65.Proofs.Num

/-- `repr_roundtrip`: for every device and registers within the device's widths, reading the second
line of `repr(mpu)` back by its fixed columns (skip `name: `, then hex fields of 4/2 resp. 8/4 digits
separated by one blank, then `BYTE_WIDTH` binary digits) gives back exactly PC, A, X, Y, SP and P. -/
theorem repr_roundtrip (d : Dev) (hd : d ∈ devices) (r : Regs) (hr : r.WF d) :
    parseLine2 d (afterNewline (Model.Fmt.repr d r)) = some r :=
  parseLine2_repr d (devOK_of_mem hd) r hr

/-- non-vacuity: the 6502 at `PC=$c000 A=1 X=2 Y=3 SP=$ff P=$30` prints the familiar two lines, and
the 65Org16 its wide ones. -/
example :
    Model.Fmt.repr dev6502 { pc := 0xc000, a := 1, x := 2, y := 3, sp := 0xff, p := 0x30 } =
      "       PC  AC XR YR SP NV-BDIZC\n6502: c000 01 02 03 ff 00110000".toList ∧
    Model.Fmt.repr dev65org16 { pc := 0xc000, a := 1, x := 2, y := 3, sp := 0xffff, p := 0x8030 } =
      "            PC     AC   XR   YR   SP  NV---------BDIZC\n65Org16: 0000c000 0001 0002 0003 ffff 1000000000110000".toList := by
  constructor <;> simp [Model.Fmt.repr, reprLine1, reprLine2, indent, flags, fmtHexL, fmtBinL, rjustL, toDigits, digitChar,
    dev6502, dev65org16, header8, header16]

example : ({ pc := 0xc000, a := 1, x := 2, y := 3, sp := 0xff, p := 0x30 } : Regs).WF dev6502 := by
  simp [Regs.WF, dev6502]

/-- `repr_flag_bits`: the flag field is, from left to right, bits `W-1 … 0` of P (`'1'` for a set
bit), it has exactly `W = BYTE_WIDTH` characters, it starts at column `flagCol` of the second line,
and the first line carries the title `NV-BDIZC` (`NV---------BDIZC` on the 65Org16) at that very
column — so N is bit `W-1`, V bit `W-2`, and B, D, I, Z, C bits 4 … 0 under their letters. -/
theorem repr_flag_bits (d : Dev) (hd : d ∈ devices) (r : Regs) (hr : r.WF d) :
    flags d r.p = (List.range d.byteWidth).reverse.map (flagChar r.p) ∧
    (flags d r.p).length = d.byteWidth ∧
    (reprLine2 d r).drop (flagCol d) = flags d r.p ∧
    (reprLine1 d).drop (flagCol d) = flagTitle d ∧ (flagTitle d).length = d.byteWidth := by
  have ok := devOK_of_mem hd
  refine ⟨?_, flags_length d r.p ok.bw hr.2.2.2.2.2, reprLine2_flags d ok r hr, ?_, ?_⟩
  · exact rjust_bin_bits d.byteWidth r.p ok.bw hr.2.2.2.2.2
  · simp only [devices, List.mem_cons, List.mem_nil_iff, or_false] at hd
    rcases hd with rfl | rfl | rfl <;> decide
  · simp only [devices, List.mem_cons, List.mem_nil_iff, or_false] at hd
    rcases hd with rfl | rfl | rfl <;> decide

/-- non-vacuity: P = %10110001 on the 6502 shows N, B and C set (and the unused bit 5). -/
example : flags dev6502 0xb1 = "10110001".toList ∧ flagTitle dev6502 = "NV-BDIZC".toList := by
  constructor
  · simp [flags, fmtBinL, rjustL, toDigits, digitChar, dev6502]
  · decide

/-- `disasm_shows_bytes`: a line of `disassemble` / `assemble` / `step` output starts with `$` and the
address in the device's address format (reading it back gives the address); then, two blanks on,
the `k`-th group of the byte column (`BYTE_FORMAT` and a blank) is the cell at `address + k`, wrapping
to 0 after the top of the address space, for every `k` below the instruction length; and for
instructions of up to three cells the instruction text starts right after the fixed-width column
(`1 + int(1 + byteWidth/4)*3` characters). -/
theorem disasm_shows_bytes (d : Dev) (hd : d ∈ devices) (mem : Nat → Nat) (hm : ∀ a, mem a < 2 ^ d.byteWidth)
    (address length : Nat) (ha : address < 2 ^ d.addrWidth) (disasm : Str) :
    let t := formatDisassembly d mem address length disasm
    t.head? = some '$' ∧
    pyIntL ((t.drop 1).take d.addrDigits) 16 = some (address : Int) ∧
    (∀ k, k < length →
      ((t.drop (1 + d.addrDigits + 2 + k * (d.byteDigits + 1))).take (d.byteDigits + 1) =
          fmtHexL d.byteDigits (mem ((address + k) % 2 ^ d.addrWidth)) ++ [' '] ∧
       pyIntL (fmtHexL d.byteDigits (mem ((address + k) % 2 ^ d.addrWidth))) 16 =
          some ((mem ((address + k) % 2 ^ d.addrWidth) : Nat) : Int))) ∧
    (length ≤ 3 → t.drop (1 + d.addrDigits + 2 + fieldWidth d) = disasm) := by
  intro t
  have ok := devOK_of_mem hd
  have hm' : ∀ a, mem a < 16 ^ d.byteDigits := fun a => by rw [← ok.bfit]; exact hm a
  have la : (fmtHexL d.addrDigits address).length = d.addrDigits :=
    fmtHexL_length _ _ ok.ad (by rw [← ok.afit]; exact ha)
  have et : t = '$' :: (fmtHexL d.addrDigits address ++ ' ' :: ' ' :: (dumpLoop d mem address length ++
      (List.replicate (fieldWidth d - (dumpLoop d mem address length).length) ' ' ++ disasm))) :=
    formatDisassembly_eq d mem address length disasm
  have hdrop : ∀ x, t.drop (1 + d.addrDigits + 2 + x) = (dumpLoop d mem address length ++
      (List.replicate (fieldWidth d - (dumpLoop d mem address length).length) ' ' ++ disasm)).drop x := by
    intro x
    rw [et, show 1 + d.addrDigits + 2 + x = (d.addrDigits + (2 + x)) + 1 by omega, List.drop_succ_cons]
    rw [List.drop_append, List.drop_eq_nil_of_le (by omega), la, Nat.add_sub_cancel_left, List.nil_append]
    rw [show 2 + x = x + 1 + 1 by omega, List.drop_succ_cons, List.drop_succ_cons]
  refine ⟨by rw [et]; rfl, ?_, ?_, ?_⟩
  · rw [et]
    simp only [List.drop_succ_cons, List.drop_zero]
    rw [List.take_left' la]
    exact pyIntL_fmtHexL _ _
  · intro k hk
    refine ⟨?_, pyIntL_fmtHexL _ _⟩
    rw [hdrop]
    exact dumpLoop_chunk d mem ok.bd hm' length address k _ (Nat.le_of_lt ha) hk
  · intro hl
    rw [hdrop]
    have hlen := dumpLoop_length d mem ok.bd hm' length address (Nat.le_of_lt ha)
    have hle : (dumpLoop d mem address length).length ≤ fieldWidth d := by
      rw [hlen, ok.fw]
      have : length * (d.byteDigits + 1) ≤ 3 * (d.byteDigits + 1) := Nat.mul_le_mul_right _ hl
      omega
    rw [← List.append_assoc]
    apply List.drop_left'
    simp only [List.length_append, List.length_replicate]
    omega

/-- non-vacuity: `JMP $1234` assembled at the last cell of the 6502's memory: the listing shows
`$ffff  4c 34 12  JMP $1234` with the operand cells taken from addresses 0 and 1. -/
example :
    formatDisassembly dev6502 (fun a => if a = 0xffff then 0x4c else if a = 0 then 0x34 else if a = 1 then 0x12 else 0xea)
      0xffff 3 "JMP $1234".toList = "$ffff  4c 34 12  JMP $1234".toList := by
  simp [formatDisassembly, dumpLoop, ljustL, fieldWidth, fmtHexL, rjustL, toDigits, digitChar, dev6502]

/-- `cycles_shows_counter`: `cycles` prints the decimal digits of the cycle counter; reading them
back gives the counter (for every counter CPython can print at all: below `10^4300`). -/
theorem cycles_shows_counter (n : Nat) (hn : n < 10 ^ 4300) : pyIntL (cyclesText n) 10 = some (n : Int) := by
  have h := fmt_roundtrip_dec n hn
  simpa [pyInt, fmtDec, cyclesText] using h

example : cyclesText 123456 = "123456".toList := by
  simp [cyclesText, fmtDecL, toDigits, digitChar]

end Py65.Props.C19
