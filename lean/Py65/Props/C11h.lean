/-
C11h -- "observation is transparent FOR PROGRAMS" (device-level statement of C11; own namespace
`Py65.Props.C11h`).

`Props/C11.lean` is about lists of memory events (`replay_equiv`); that a device run IS such a list was a
comment.  Here the bridge is a theorem, built the way `Proofs/IoProg.lean` (C18h) builds it for the monitor's
two observers, but for ARBITRARY subscribers (callback ids + the reply oracle of `Model/ObsMem.lean`) and
without importing anything of the monitor (imports: the C11 theorems, C05h's closure of `step()`, and the
log-completeness of the generated CPU, `Proofs/IoProgCoh.lean` -- all CPU-only).

The machine (`ObsM`): the registers of a generated device (`cpu`; its `mem` / `log` fields are scratch) and
the `ObservableMemory` model `mem` that is the device's `self.memory`.
* `viewO reply m a`   what `memory[a]` WOULD return now (value of `ObsMem.get`), on the indices `0 … physMask`
                      the backing list has; `0` outside (a plain list raises IndexError there; no access of
                      an 8-bit device reaches it: `in_range_8bit`);
* `obsStepM`          one instruction: the GENERATED `step()` (`Hist.Dev.step`: exactly what the driver runs)
                      on the plain function `viewO` with an empty log; the step's access log (every
                      `memory[e]`, `memory[e] = v`, in program order, values written included) is then
                      replayed on the memory object (`replayObs`: subscribers are called, the log of calls
                      grows, the oracle's answers are honoured);
* `Consistent`        the CHECK that makes this a `step()` ON the memory object: every load of the
                      instruction is answered by the memory object exactly as the plain function the CPU ran
                      on answered it.  (A device talks to its memory only through item access and the log
                      records every one, so a `step()` whose every load got the same answer is the same
                      `step()`.)  Nothing is assumed about it: `transparent_run` PROVES it for quiet memories;
* `plainRun d n s`    `n` times `step()` on the plain memory function `s.mem` (the model's recording `log`
                      is emptied before each instruction on both sides: it is the measuring device, not
                      state of the Python object);
* `cellsOf m`         the backing list of `m` as the plain memory function (`0` outside `0 … physMask`).

Theorems (every device, every `n`, every register file, every placement of subscribers):
* `transparent_run`         `Quiet reply m` (all subscribers answer `None`, or there are none) + every access in
                            range ⇒ registers, all cycle counters, `waiting` and ALL cells after `n` instructions
                            equal those of the plain run; every instruction is `Consistent`; subscriptions
                            untouched; the call log grew by exactly one call per subscriber of each accessed
                            address, in program order (`callsOf`) -- observers ARE called, nothing changes;
* `transparent_run_unobserved`  the no-subscriber case spelled out (call log unchanged);
* `in_range_8bit`           for the 6502 / 65C02 on a 64 K memory the range hypothesis holds along the whole run
                            (C05h), hence
* `transparent_run_8bit`    the property as quantified ("forall 8-bit device"), no range hypothesis.
For the 65Org16 (`physMask = 0x3ffff` but 32-bit addresses) `transparent_run` applies to runs whose accesses
stay below `0x40000`; beyond, the ObservableMemory aliases where a plain list raises IndexError -- outside
C11's quantifier.
-/
import Py65.Props.C11
import Py65.Props.C05h
import Py65.Proofs.IoProgCoh

namespace Py65.Props.C11h
open Py65 Py65.Model.ObsMem Py65.Spec.ObsMem
open Py65.Proofs.Hist (Dev)

/-! ### definitions -/

/-- What `memory[a]` would return now on the memory object `m`. -/
def viewO (reply : Reply) (m : OM) (a : Int) : Int :=
  if 0 ≤ a ∧ a ≤ m.physMask then (Py65.Model.ObsMem.get reply m a).1 else 0

/-- The backing list of `m` as a plain memory function. -/
def cellsOf (m : OM) (a : Int) : Int := if 0 ≤ a ∧ a ≤ m.physMask then m.subject a else 0

/-- A device (registers and bookkeeping: `cpu`; `cpu.mem`, `cpu.log` are scratch) and its memory object. -/
structure ObsM where
  cpu : St
  mem : OM

/-- What the properties observe of a device besides its memory: A X Y SP P PC, `processorCycles`,
`excycles`, `addcycles`, `waiting`. -/
structure Regs where
  a : Int
  x : Int
  y : Int
  sp : Int
  p : Int
  pc : Int
  cycles : Int
  excycles : Int
  addcycles : Int
  waiting : Bool
  deriving DecidableEq, Repr

def regs (s : St) : Regs :=
  { a := s.a, x := s.x, y := s.y, sp := s.sp, p := s.p, pc := s.pc, cycles := s.cycles,
    excycles := s.excycles, addcycles := s.addcycles, waiting := s.waiting }

def startOf (reply : Reply) (M : ObsM) : St := { M.cpu with mem := viewO reply M.mem, log := [] }

/-- The item accesses of the next instruction, in program order. -/
def traceOf (reply : Reply) (d : Dev) (M : ObsM) : List MemEv := (d.step (startOf reply M)).log.reverse

/-- What the loads of the next instruction returned to the CPU. -/
def seenOf (reply : Reply) (d : Dev) (M : ObsM) : List (Option Int) :=
  (replayPlain (viewO reply M.mem) (traceOf reply d M)).1

/-- One instruction on the observed memory. -/
def obsStepM (reply : Reply) (d : Dev) (M : ObsM) : ObsM :=
  { cpu := d.step (startOf reply M), mem := (replayObs reply M.mem (traceOf reply d M)).2 }

/-- The memory object answers every load of the instruction as the plain function the CPU ran on did. -/
def Consistent (reply : Reply) (d : Dev) (M : ObsM) : Prop :=
  (replayObs reply M.mem (traceOf reply d M)).1 = seenOf reply d M

instance (reply : Reply) (d : Dev) (M : ObsM) : Decidable (Consistent reply d M) := by
  unfold Consistent; exact inferInstance

def obsRun (reply : Reply) (d : Dev) : Nat → ObsM → ObsM
  | 0, M => M
  | n + 1, M => obsRun reply d n (obsStepM reply d M)

/-- All item accesses of `n` instructions, in program order. -/
def traces (reply : Reply) (d : Dev) : Nat → ObsM → List MemEv
  | 0, _ => []
  | n + 1, M => traceOf reply d M ++ traces reply d n (obsStepM reply d M)

def AllConsistent (reply : Reply) (d : Dev) : Nat → ObsM → Prop
  | 0, _ => True
  | n + 1, M => Consistent reply d M ∧ AllConsistent reply d n (obsStepM reply d M)

instance (reply : Reply) (d : Dev) : (n : Nat) → (M : ObsM) → Decidable (AllConsistent reply d n M)
  | 0, _ => isTrue trivial
  | n + 1, M =>
    have : Decidable (AllConsistent reply d n (obsStepM reply d M)) :=
      instDecidableAllConsistent reply d n (obsStepM reply d M)
    by unfold AllConsistent; exact inferInstance

/-- Every access of the next `n` instructions is at an index the backing list has. -/
def AllInRange (reply : Reply) (d : Dev) : Nat → ObsM → Prop
  | 0, _ => True
  | n + 1, M => (∀ e ∈ traceOf reply d M, InRange M.mem.physMask e) ∧ AllInRange reply d n (obsStepM reply d M)

instance (reply : Reply) (d : Dev) : (n : Nat) → (M : ObsM) → Decidable (AllInRange reply d n M)
  | 0, _ => isTrue trivial
  | n + 1, M =>
    have : Decidable (AllInRange reply d n (obsStepM reply d M)) :=
      instDecidableAllInRange reply d n (obsStepM reply d M)
    by unfold AllInRange; exact inferInstance

/-- `n` times `step()` on the plain memory function of `s`. -/
def plainRun (d : Dev) : Nat → St → St
  | 0, s => s
  | n + 1, s => plainRun d n (d.step { s with log := [] })

/-- The callback calls C10 prescribes for an access list: one call per subscriber of the accessed address,
in subscription order, read subscribers with the address, write subscribers with address and value. -/
def callsOf (rs ws : Subs) (T : List MemEv) : List Ev :=
  T.flatMap fun
    | .r a => (rs.of a).map fun cb => { cb := cb, addr := a, val := none }
    | .w a v => (ws.of a).map fun cb => { cb := cb, addr := a, val := some v }

/-! ### lemmas (local: nothing here is a property) -/

private theorem viewO_quiet (reply : Reply) (m : OM) (hm : WF m) (hq : Quiet reply m) :
    viewO reply m = cellsOf m := by
  funext a
  unfold viewO cellsOf
  by_cases h : 0 ≤ a ∧ a ≤ m.physMask
  · rw [if_pos h, if_pos h]; exact (C11.obs_transparent_get reply m hm hq a h.1 h.2).1
  · rw [if_neg h, if_neg h]

private theorem replayPlain_outside (mask : Int) (T : List MemEv) :
    ∀ pm : Int → Int, (∀ e ∈ T, InRange mask e) → ∀ k, ¬ (0 ≤ k ∧ k ≤ mask) →
      (replayPlain pm T).2 k = pm k := by
  induction T with
  | nil => intro pm _ k _; rfl
  | cons e es ih =>
    intro pm hin k hk
    have hin' : ∀ e' ∈ es, InRange mask e' := fun e' he' => hin e' (List.mem_cons_of_mem _ he')
    have he := hin e List.mem_cons_self
    cases e with
    | r a => simpa [replayPlain, plainStep] using ih pm hin' k hk
    | w a v =>
      have : k ≠ a := by rintro rfl; exact hk he
      simp only [replayPlain, plainStep]
      rw [ih (upd pm a v) hin' k hk]
      unfold upd; rw [if_neg this]

private theorem replayPlain_final (T : List MemEv) : ∀ pm : Int → Int,
    (replayPlain pm T).2 = Py65.Proofs.wr T.reverse pm := by
  induction T with
  | nil => intro pm; rfl
  | cons e es ih =>
    intro pm
    simp only [replayPlain, List.reverse_cons, Py65.Proofs.wr_append, ih]
    cases e <;> rfl

/-- The call log of a replay on a quiet memory. -/
private theorem replayObs_log (reply : Reply) (T : List MemEv) :
    ∀ m : OM, WF m → Quiet reply m → (∀ e ∈ T, InRange m.physMask e) →
      (replayObs reply m T).2.log = m.log ++ callsOf m.rsubs m.wsubs T := by
  induction T with
  | nil => intro m _ _ _; simp [replayObs, callsOf]
  | cons e es ih =>
    intro m hm hq hin
    have hin' : ∀ e' ∈ es, InRange m.physMask e' := fun e' he' => hin e' (List.mem_cons_of_mem _ he')
    have he := hin e List.mem_cons_self
    cases e with
    | r a =>
      have hg := (C11.obs_transparent_get reply m hm hq a he.1 he.2).2
      simp only [replayObs, obsStep]
      rw [ih (Py65.Model.ObsMem.get reply m a).2 (by rw [hg]; exact hm) (by rw [hg]; exact hq)
        (by rw [hg]; exact hin'), hg]
      simp [callsOf, List.append_assoc]
    | w a v =>
      have hs := C11.obs_transparent_set reply m hm hq a v he.1 he.2
      have hr : (Py65.Model.ObsMem.set reply m a v).rsubs = m.rsubs := rfl
      have hw : (Py65.Model.ObsMem.set reply m a v).wsubs = m.wsubs := rfl
      have hp : (Py65.Model.ObsMem.set reply m a v).physMask = m.physMask := rfl
      simp only [replayObs, obsStep]
      rw [ih (Py65.Model.ObsMem.set reply m a v) ⟨hm.1, hm.2⟩ hq hin', hs.2, hr, hw]
      simp [callsOf, List.append_assoc]

/-- One instruction on a quiet memory. -/
private theorem step_quiet (reply : Reply) (d : Dev) (M : ObsM) (hm : WF M.mem) (hq : Quiet reply M.mem)
    (hin : ∀ e ∈ traceOf reply d M, InRange M.mem.physMask e) :
    (obsStepM reply d M).cpu = d.step { M.cpu with mem := cellsOf M.mem, log := [] } ∧
    cellsOf (obsStepM reply d M).mem = (obsStepM reply d M).cpu.mem ∧
    Consistent reply d M ∧
    (obsStepM reply d M).mem.rsubs = M.mem.rsubs ∧ (obsStepM reply d M).mem.wsubs = M.mem.wsubs ∧
    (obsStepM reply d M).mem.physMask = M.mem.physMask ∧ (obsStepM reply d M).mem.subjLen = M.mem.subjLen ∧
    (obsStepM reply d M).mem.log = M.mem.log ++ callsOf M.mem.rsubs M.mem.wsubs (traceOf reply d M) := by
  have hv := viewO_quiet reply M.mem hm hq
  have hsame : ∀ k, 0 ≤ k → k ≤ M.mem.physMask → cellsOf M.mem k = M.mem.subject k := by
    intro k h0 h1; unfold cellsOf; rw [if_pos ⟨h0, h1⟩]
  obtain ⟨e1, e2, e3, e4, e5, e6⟩ :=
    C11.replay_equiv reply (traceOf reply d M) (cellsOf M.mem) M.mem hm hq hin hsame
  have hmem : (d.step (startOf reply M)).mem = (replayPlain (cellsOf M.mem) (traceOf reply d M)).2 := by
    rw [replayPlain_final]
    unfold traceOf
    rw [List.reverse_reverse]
    have := Py65.Proofs.step_frame d (startOf reply M) rfl
    rw [this]
    show _ = Py65.Proofs.wr _ (cellsOf M.mem)
    rw [← hv]; rfl
  refine ⟨by unfold obsStepM startOf; rw [hv], ?_, ?_, e3, e4, e5, e6,
    replayObs_log reply _ M.mem hm hq hin⟩
  · funext k
    show cellsOf (replayObs reply M.mem (traceOf reply d M)).2 k = (d.step (startOf reply M)).mem k
    rw [hmem]
    unfold cellsOf
    rw [e5]
    by_cases h : 0 ≤ k ∧ k ≤ M.mem.physMask
    · rw [if_pos h]; exact (e2 k h.1 h.2).symm
    · rw [if_neg h, replayPlain_outside M.mem.physMask _ _ hin k h, if_neg h]
  · unfold Consistent seenOf
    rw [e1, hv]

private theorem callsOf_append (rs ws : Subs) (T1 T2 : List MemEv) :
    callsOf rs ws (T1 ++ T2) = callsOf rs ws T1 ++ callsOf rs ws T2 := by
  unfold callsOf; exact List.flatMap_append

/-! ### the property theorems -/

/-- **Observation is transparent for programs.**  Any device `d`, any register file, any memory object `M.mem`
of one of the two sizes `ObservableMemory` configures (`WF`) whose subscribers -- any number, anywhere --
all answer `None` (`Quiet`; in particular: no subscribers), any `n`: if every access of the `n` instructions
is at an index the backing list has, then after the `n` instructions on the observed memory
 (1) registers, `processorCycles` / `excycles` / `addcycles` and `waiting` are those of `n` times `step()` on the
     plain memory function holding the same cells,
 (2) so are ALL cells,
 (3) every instruction was `Consistent` (each load answered by the memory object as by the plain function),
 (4) the subscriptions, the mask and the list length are untouched,
 (5) the call log grew by exactly the calls of the subscribers of the accessed addresses, in program order. -/
theorem transparent_run (reply : Reply) (d : Dev) (n : Nat) :
    ∀ (M : ObsM), WF M.mem → Quiet reply M.mem → AllInRange reply d n M →
    regs (obsRun reply d n M).cpu = regs (plainRun d n { M.cpu with mem := cellsOf M.mem }) ∧
    cellsOf (obsRun reply d n M).mem = (plainRun d n { M.cpu with mem := cellsOf M.mem }).mem ∧
    AllConsistent reply d n M ∧
    ((obsRun reply d n M).mem.rsubs = M.mem.rsubs ∧ (obsRun reply d n M).mem.wsubs = M.mem.wsubs ∧
     (obsRun reply d n M).mem.physMask = M.mem.physMask ∧ (obsRun reply d n M).mem.subjLen = M.mem.subjLen) ∧
    (obsRun reply d n M).mem.log = M.mem.log ++ callsOf M.mem.rsubs M.mem.wsubs (traces reply d n M) := by
  induction n with
  | zero => intro M _ _ _; exact ⟨rfl, rfl, trivial, ⟨rfl, rfl, rfl, rfl⟩, by simp [obsRun, traces, callsOf]⟩
  | succ n ih =>
    intro M hm hq hin
    obtain ⟨s1, s2, s3, s4, s5, s6, s7, s8⟩ := step_quiet reply d M hm hq hin.1
    have hm' : WF (obsStepM reply d M).mem := ⟨by rw [s6]; exact hm.1, by rw [s6, s7]; exact hm.2⟩
    have hq' : Quiet reply (obsStepM reply d M).mem := by
      intro a cb h; rw [s4, s5] at h; exact hq a cb h
    obtain ⟨i1, i2, i3, ⟨i4, i5, i6, i7⟩, i8⟩ := ih (obsStepM reply d M) hm' hq' hin.2
    have hcpu : { (obsStepM reply d M).cpu with mem := cellsOf (obsStepM reply d M).mem } =
        d.step { ({ M.cpu with mem := cellsOf M.mem } : St) with log := [] } := by
      rw [s2, ← s1]
    rw [hcpu] at i1 i2
    refine ⟨i1, i2, ⟨s3, i3⟩, ⟨i4.trans s4, i5.trans s5, i6.trans s6, i7.trans s7⟩, ?_⟩
    show (obsRun reply d n (obsStepM reply d M)).mem.log = _
    rw [i8, s8, s4, s5]
    simp only [traces, callsOf_append, List.append_assoc]

/-- The no-subscriber case: nothing at all happens to the memory object but the stores. -/
theorem transparent_run_unobserved (reply : Reply) (d : Dev) (n : Nat) (M : ObsM) (hm : WF M.mem)
    (hr : ∀ a, M.mem.rsubs.of a = []) (hw : ∀ a, M.mem.wsubs.of a = [])
    (hin : AllInRange reply d n M) :
    regs (obsRun reply d n M).cpu = regs (plainRun d n { M.cpu with mem := cellsOf M.mem }) ∧
    cellsOf (obsRun reply d n M).mem = (plainRun d n { M.cpu with mem := cellsOf M.mem }).mem ∧
    AllConsistent reply d n M ∧ (obsRun reply d n M).mem.log = M.mem.log := by
  have hq : Quiet reply M.mem := by
    intro a cb h
    rw [hr a, hw a] at h
    rcases h with h | h <;> cases h
  obtain ⟨t1, t2, t3, -, t5⟩ := transparent_run reply d n M hm hq hin
  refine ⟨t1, t2, t3, ?_⟩
  rw [t5]
  have : callsOf M.mem.rsubs M.mem.wsubs (traces reply d n M) = [] := by
    unfold callsOf
    rw [List.flatMap_eq_nil_iff]
    intro e _
    cases e with
    | r a => simp [hr a]
    | w a v => simp [hw a]
  rw [this, List.append_nil]

private theorem inRange_of_logOK8 (L : List MemEv) (h : Py65.Proofs.LogOK 8 L) : ∀ e ∈ L, InRange 0xffff e := by
  intro e he
  have := h e he
  cases e with
  | r a =>
    have h' : Py65.Proofs.InA 8 a := this
    simp only [Py65.Proofs.InA, Py65.Spec.AM] at h'
    exact ⟨h'.1, by omega⟩
  | w a v =>
    have h' : Py65.Proofs.InA 8 a ∧ Py65.Proofs.InB 8 v := this
    simp only [Py65.Proofs.InA, Py65.Spec.AM] at h'
    exact ⟨h'.1.1, by omega⟩

/-- **8-bit devices never leave the list** (C05h along the run): a 6502 / 65C02 with well-formed registers (and,
for the 6502, not waiting) on a quiet 64 K memory object whose cells are bytes only produces accesses at
`0 … $FFFF`, at every one of the `n` instructions. -/
theorem in_range_8bit (reply : Reply) (d : Dev) (hd : d ≠ .org16) (n : Nat) :
    ∀ (M : ObsM), WF M.mem → Quiet reply M.mem → M.mem.physMask = 0xffff →
    Py65.Proofs.Hist.Inv d { M.cpu with mem := cellsOf M.mem } → AllInRange reply d n M := by
  induction n with
  | zero => intro _ _ _ _ _; trivial
  | succ n ih =>
    intro M hm hq hp hi
    have hv := viewO_quiet reply M.mem hm hq
    have hi0 : Py65.Proofs.Hist.Inv d (startOf reply M) := by
      unfold startOf; rw [hv]
      exact ⟨⟨hi.1.a, hi.1.x, hi.1.y, hi.1.sp, hi.1.p, hi.1.pc, hi.1.mem⟩, hi.2⟩
    have hW : d.W = 8 := by cases d <;> first | rfl | exact absurd rfl hd
    have hlog := C05h.accesses_closed_call d .step (startOf reply M) hi0 (Py65.Proofs.LogOK_nil _)
    rw [hW] at hlog
    have hin1 : ∀ e ∈ traceOf reply d M, InRange M.mem.physMask e := by
      intro e he
      rw [hp]
      exact inRange_of_logOK8 _ hlog e (List.mem_reverse.mp he)
    obtain ⟨s1, s2, -, s4, s5, s6, s7, -⟩ := step_quiet reply d M hm hq hin1
    have hi1 : Py65.Proofs.Hist.Inv d (d.step (startOf reply M)) :=
      C05h.closed_step d (startOf reply M) hi0 (fun h => absurd h hd)
    refine ⟨hin1, ih (obsStepM reply d M) ⟨by rw [s6]; exact hm.1, by rw [s6, s7]; exact hm.2⟩
      (by intro a cb h; rw [s4, s5] at h; exact hq a cb h) (s6.trans hp) ?_⟩
    rw [s2]
    exact hi1

/-- **C11 as quantified**: every 8-bit device (`d ≠ .org16`: 6502, 65C02), every well-formed register file,
every 64 K `ObservableMemory` holding bytes, with any number of `None`-answering subscribers anywhere (or
none), every `n`: registers, cycle counters, `waiting` and all cells after `n` instructions equal those of
the plain run; every load was answered alike; the subscribers were called (call log = `callsOf`). -/
theorem transparent_run_8bit (reply : Reply) (d : Dev) (hd : d ≠ .org16) (n : Nat) (M : ObsM)
    (hm : WF M.mem) (hq : Quiet reply M.mem) (hp : M.mem.physMask = 0xffff)
    (hi : Py65.Proofs.Hist.Inv d { M.cpu with mem := cellsOf M.mem }) :
    regs (obsRun reply d n M).cpu = regs (plainRun d n { M.cpu with mem := cellsOf M.mem }) ∧
    cellsOf (obsRun reply d n M).mem = (plainRun d n { M.cpu with mem := cellsOf M.mem }).mem ∧
    AllConsistent reply d n M ∧
    (obsRun reply d n M).mem.log = M.mem.log ++ callsOf M.mem.rsubs M.mem.wsubs (traces reply d n M) := by
  obtain ⟨t1, t2, t3, -, t5⟩ :=
    transparent_run reply d n M hm hq (in_range_8bit reply d hd n M hm hq hp hi)
  exact ⟨t1, t2, t3, t5⟩

/-! ### non-vacuity -/

/-- `INC $F001 ; LDA $F004 ; STA $0010` at `$0200`. -/
def demoCells : Int → Int := fun a =>
  if a = 0x200 then 0xEE else if a = 0x201 then 0x01 else if a = 0x202 then 0xF0 else
  if a = 0x203 then 0xAD else if a = 0x204 then 0x04 else if a = 0x205 then 0xF0 else
  if a = 0x206 then 0x85 else if a = 0x207 then 0x10 else
  if a = 0xF001 then 0x41 else if a = 0xF004 then 0x07 else 0

def demoReply : Reply := fun _ _ _ _ => none

/-- Read subscriber 1 on `$F004`, `$F001`; write subscriber 2 on `$F001`; read subscriber 3 on the code. -/
def demoMem : OM :=
  run demoReply (init 16 demoCells) [.subR [0xf004, 0xf001] 1, .subW [0xf001] 2, .subR [0x200] 3]

def demoM : ObsM := ⟨{ (default : St) with pc := 0x200, sp := 0xff, p := 0x30 }, demoMem⟩

/-- The hypotheses of `transparent_run_8bit` hold of the demo machine ... -/
theorem demo_hyps : WF demoM.mem ∧ Quiet demoReply demoM.mem ∧ demoM.mem.physMask = 0xffff ∧
    Py65.Proofs.Hist.Inv .nmos { demoM.cpu with mem := cellsOf demoM.mem } := by
  refine ⟨run_WF _ _ _ (init_WF _ _), fun _ _ _ _ _ _ => rfl, rfl,
    ⟨⟨by decide, by decide, by decide, by decide, by decide, by decide, fun k => ?_⟩, fun _ => rfl⟩⟩
  show 0 ≤ cellsOf demoMem k ∧ cellsOf demoMem k ≤ 255
  unfold cellsOf
  split
  · show 0 ≤ demoCells k ∧ demoCells k ≤ 255
    unfold demoCells
    repeat' split
    all_goals decide
  · decide

/-- ... and the run really calls the observers: three instructions on the 6502, the registers / cells are the
plain run's, `$F001` was incremented through the write subscriber, `A` was loaded through the read
subscriber, and the call log shows the opcode-fetch observer, the read and the write observer. -/
example :
    regs (obsRun demoReply .nmos 3 demoM).cpu = regs (plainRun .nmos 3 { demoM.cpu with mem := cellsOf demoM.mem }) ∧
    (obsRun demoReply .nmos 3 demoM).cpu.a = 7 ∧ (obsRun demoReply .nmos 3 demoM).cpu.pc = 0x208 ∧
    (obsRun demoReply .nmos 3 demoM).cpu.cycles = 13 ∧
    (obsRun demoReply .nmos 3 demoM).mem.subject 0xF001 = 0x42 ∧
    (obsRun demoReply .nmos 3 demoM).mem.subject 0x10 = 7 ∧
    (plainRun .nmos 3 { demoM.cpu with mem := cellsOf demoM.mem }).mem 0xF001 = 0x42 ∧
    (obsRun demoReply .nmos 3 demoM).mem.log =
      [⟨3, 0x200, none⟩, ⟨1, 0xF001, none⟩, ⟨2, 0xF001, some 0x42⟩, ⟨1, 0xF004, none⟩] ∧
    decide (AllConsistent demoReply .nmos 3 demoM) = true ∧
    decide (AllInRange demoReply .nmos 3 demoM) = true := by
  decide +kernel

/-- The check `Consistent` is not a tautology: with a read subscriber that ANSWERS (here: `$55` on its second
call, which is the load of `$F004` by `BIT $F004`, the first being the opcode fetch) the memory object and a
plain function differ and the check fails -- such subscribers are exactly what `Quiet` excludes. -/
example :
    let reply : Reply := fun cb i _ _ => if cb = 1 ∧ i = 1 then some 0x55 else none
    let M : ObsM := ⟨{ (default : St) with pc := 0x203, sp := 0xff, p := 0x30 },
      run reply (init 16 fun a => if a = 0x203 then 0x2C else if a = 0x204 then 0x04 else if a = 0x205 then 0xF0
        else if a = 0xF004 then 7 else 0) [.subR [0x203, 0xf004] 1]⟩
    decide (Consistent reply .nmos M) = false := by
  decide +kernel

/-- 65C02 (same program) and 65Org16 (`STA $10`: accesses below `$40000`): the general theorem's hypotheses
are decidable on concrete machines and hold there. -/
example :
    decide (AllInRange demoReply .cmos 3 demoM) = true ∧
    decide (AllInRange demoReply .org16 1 ⟨{ demoM.cpu with pc := 0x206 }, run demoReply (init 32 demoCells) [.subR [0x200] 3]⟩) = true := by
  decide +kernel

end Py65.Props.C11h
