/-
C09 -- The disassembler is total and agrees with what the device actually executes.

Property statements only (helper lemmas: Py65/Proofs/AsmLemmas.lean), about the hand model
`Py65.Model.Disasm.instructionAt` of `py65/disassembler.py` on the three device records built from
the GENERATED tables (`DevOK` instances in Proofs/AsmTables.lean: a change of a device's
`disassemble` table, widths or formats breaks them).  Memory is an arbitrary total function
(`mem : Int → Int`): "any memory contents" is literally quantified; `byteAt` reduces every address
modulo the address space, as a memory that spans the address space does (ObservableMemory under
the monitor).  The opcode cell is in `0 … 255` (the quantifier of C09; a 65Org16 cell above 255 is
`DRes.index`, see `dis_opcode_cell_above_255`).

Execution is the programming model `Spec.step` (the oracle of C01-C03, which tie it to the
translated device code): `dis_len_eq_exec`, `dis_branch_taken`, `dis_jmp_jsr`.
-/
import Py65.Proofs.AsmTables
import Py65.Spec.Cpu

namespace Py65.Props.C09
open Py65.Model Py65.Model.PyStr Py65.Model.AddrParser Py65.Model.Asm Py65.Model.Disasm
open Py65.Proofs.Asm
open Py65.Spec (Mode Mn Variant decode AState)
open Py65.Spec.Asm (mnText)

/-- `dis_total`: for every device, any memory contents, any address (in or out of range, e.g. the
last one) and any label table, disassembling an opcode byte returns -- never raises -- and
reports a length from 1 to 3. -/
theorem dis_total {d : Dev} {v : Variant} {W : Nat} (hd : IsDevice d v W) (P : Parser) (mem : Int → Int)
    (pc : Int) (hop : 0 ≤ byteAt d mem pc ∧ byteAt d mem pc < 256) :
    ∃ n t, instructionAt d P mem pc = .ok n t ∧ 1 ≤ n ∧ n ≤ 3 := by
  rw [dis_spec hd.ok P mem pc hop]
  cases decode v (byteAt d mem pc) with
  | none => exact ⟨1, _, rfl, by decide, by decide⟩
  | some r =>
    obtain ⟨mn, mo⟩ := r
    refine ⟨_, _, rfl, ?_, ?_⟩ <;> cases mo <;> decide

example : ∃ n t, instructionAt dev6502 ⟨16, 16, []⟩ (fun a => if a = 0xffff then 0xad else 0x12) 0xffff
    = .ok n t ∧ 1 ≤ n ∧ n ≤ 3 :=
  dis_total .d6502 _ _ _ (by decide +kernel)
example : instructionAt dev6502 ⟨16, 16, []⟩ (fun a => if a = 0xffff then 0xad else 0x12) 0xffff
    = .ok 3 "LDA $1212".toList := by decide +kernel

/-- `dis_len`: for every declared opcode the reported length is the documented instruction
length `Mode.len` of the decoded instruction (`Spec/Isa.lean`), whatever the operands, the address
and the labels. -/
theorem dis_len {d : Dev} {v : Variant} {W : Nat} (hd : IsDevice d v W) (P : Parser) (mem : Int → Int)
    (pc : Int) (hop : 0 ≤ byteAt d mem pc ∧ byteAt d mem pc < 256) (mn : Mn) (mo : Mode)
    (hdec : decode v (byteAt d mem pc) = some (mn, mo)) :
    ∃ t, instructionAt d P mem pc = .ok mo.len.toNat t := by
  rw [dis_spec hd.ok P mem pc hop, hdec]
  exact ⟨_, rfl⟩

example : decode .cmos 0x7c = some (.JMP, .iax) := by decide

/-- An opcode byte the device does not declare is shown as `???` with length 1. -/
theorem dis_undeclared {d : Dev} {v : Variant} {W : Nat} (hd : IsDevice d v W) (P : Parser)
    (mem : Int → Int) (pc : Int) (hop : 0 ≤ byteAt d mem pc ∧ byteAt d mem pc < 256)
    (hdec : decode v (byteAt d mem pc) = none) :
    instructionAt d P mem pc = .ok 1 ['?', '?', '?'] := by
  rw [dis_spec hd.ok P mem pc hop, hdec]

example : decode .nmos 0x02 = none := by decide

/-- Outside the quantifier of C09 (opcode BYTE `0 … 255`): on the 65Org16 a cell above 255 at the
disassembled address is an `IndexError` of `mpu.disassemble[instruction]`. -/
theorem dis_opcode_cell_above_255 :
    instructionAt dev65org16 ⟨32, 16, []⟩ (fun _ => 0x1234) 0 = .index := by decide +kernel

/-! ### agreement with execution -/

/-- Mnemonics that transfer control (their next PC is not "address + length"). -/
def isControl : Mn → Bool
  | .BCC | .BCS | .BEQ | .BMI | .BNE | .BPL | .BVC | .BVS | .BRA
  | .JMP | .JSR | .RTS | .RTI | .BRK => true
  | _ => false

/-- Well-formed execution state for the comparison: running, PC inside the address space, opcode
cell a byte. -/
structure Runs (W : Nat) (s : AState) : Prop where
  running : s.waiting = false
  pc0 : 0 ≤ s.pc
  pc1 : s.pc < 2 ^ (2 * W)
  op0 : 0 ≤ s.mem s.pc
  op1 : s.mem s.pc < 256

private theorem byteAt_pc {d : Dev} {v : Variant} {W : Nat} (h : DevOK d v W) (s : AState)
    (p0 : 0 ≤ s.pc) (p1 : s.pc < 2 ^ (2 * W)) : byteAt d s.mem s.pc = s.mem s.pc := by
  unfold byteAt Dev.addrMask
  rw [h.aw]
  simp only [Py.shl, Int.one_mul, Py.land_mask]
  rw [Int.emod_eq_of_lt p0 p1]

private theorem exec_pc (W : Nat) (v : Variant) (mn : Mn) (mo : Mode) (s : AState)
    (hnc : isControl mn = false) : (Py65.Spec.exec W v mn mo s).pc = Py65.Spec.nextPc W mo s := by
  cases mn <;> first
    | (exact absurd hnc (by decide))
    | (simp only [Py65.Spec.exec]; done)
    | (simp only [Py65.Spec.exec]; split <;> rfl)
    | (simp only [Py65.Spec.exec]; cases mo <;> rfl)

private theorem wrap_add {W : Nat} (hW : W = 8 ∨ W = 16) (a k : Int) :
    ((a + 1) % 2 ^ (2 * W) + (k - 1)) % 2 ^ (2 * W) = (a + k) % 2 ^ (2 * W) := by
  rcases hW with rfl | rfl <;> omega

/-- `dis_len_eq_exec`: for every declared opcode that does not transfer control, the length the
disassembler reports is exactly the number of bytes by which executing the instruction advances
PC (modulo the address space: at the top of memory PC wraps to 0), for every register state and
memory. -/
theorem dis_len_eq_exec {d : Dev} {v : Variant} {W : Nat} (hd : IsDevice d v W) (P : Parser) (s : AState)
    (hs : Runs W s) (mn : Mn) (mo : Mode) (hdec : decode v (s.mem s.pc) = some (mn, mo))
    (hnc : isControl mn = false) :
    ∃ n t, instructionAt d P s.mem s.pc = .ok n t ∧
      (Py65.Spec.step W v s).pc = (s.pc + n) % 2 ^ (2 * W) := by
  have hb := byteAt_pc hd.ok s hs.pc0 hs.pc1
  have hop : 0 ≤ byteAt d s.mem s.pc ∧ byteAt d s.mem s.pc < 256 := by rw [hb]; exact ⟨hs.op0, hs.op1⟩
  rw [dis_spec hd.ok P s.mem s.pc hop, hb, hdec]
  refine ⟨_, _, rfl, ?_⟩
  unfold Py65.Spec.step
  rw [hs.running]
  simp only [Bool.false_eq_true, if_false, hdec]
  have hlen : (mo.len.toNat : Int) = mo.len := by cases mo <;> rfl
  rw [hlen, exec_pc W v mn mo _ hnc]
  exact wrap_add hd.ok.hW s.pc mo.len

example : Runs 8 { a := 0, x := 0, y := 0, sp := 0xff, p := 0x30, pc := 0xffff, mem := fun _ => 0xa9,
                   waiting := false } := ⟨rfl, by decide, by decide, by decide, by decide⟩
example : decode .nmos 0xa9 = some (.LDA, .imm) ∧ isControl .LDA = false := by decide

/-- The displayed branch target is `(address + 2 + signed displacement) mod 2^AW`. -/
theorem dis_branch_target {d : Dev} {v : Variant} {W : Nat} (hd : IsDevice d v W) (pc b : Int)
    (hb : 0 ≤ b ∧ b < 2 ^ W) :
    relTarget d pc b = (pc + 2 + Py65.Spec.signed W b) % 2 ^ (2 * W) := by
  have h := hd.ok
  unfold relTarget Dev.addrMask Dev.byteMask Py65.Spec.signed
  rw [h.bw, h.aw]
  simp only [Py.shl, Int.one_mul, Py.land_mask, Py.land_two_pow]
  rcases h.hW with rfl | rfl
  · have hx := Py.lxor_mask b 8 hb.1 hb.2
    norm_num at hx hb ⊢
    rw [hx]
    split_ifs <;> omega
  · have hx := Py.lxor_mask b 16 hb.1 hb.2
    norm_num at hx hb ⊢
    rw [hx]
    split_ifs <;> omega

/-- `dis_branch_taken`: for every relative branch, whatever the labels, the disassembler reports
length 2 and shows (as `$hex` or as the label bound to it) exactly the PC reached when the branch
is taken. -/
theorem dis_branch_taken {d : Dev} {v : Variant} {W : Nat} (hd : IsDevice d v W) (P : Parser) (s : AState)
    (hs : Runs W s) (mn : Mn) (hdec : decode v (s.mem s.pc) = some (mn, .rel))
    (hb : 0 ≤ s.mem ((s.pc + 1) % 2 ^ (2 * W)) ∧ s.mem ((s.pc + 1) % 2 ^ (2 * W)) < 2 ^ W)
    (htaken : Py65.Spec.branchCond W mn s.p = true) :
    instructionAt d P s.mem s.pc =
      .ok 2 (mnText mn ++ ' ' :: shown P (W / 2) (Py65.Spec.step W v s).pc) := by
  have hbp := byteAt_pc hd.ok s hs.pc0 hs.pc1
  have hop : 0 ≤ byteAt d s.mem s.pc ∧ byteAt d s.mem s.pc < 256 := by rw [hbp]; exact ⟨hs.op0, hs.op1⟩
  have hb1 : byteAt d s.mem (s.pc + 1) = s.mem ((s.pc + 1) % 2 ^ (2 * W)) := by
    unfold byteAt Dev.addrMask
    rw [hd.ok.aw]
    simp only [Py.shl, Int.one_mul, Py.land_mask]
  rw [dis_spec hd.ok P s.mem s.pc hop, hbp, hdec]
  have hstep : (Py65.Spec.step W v s).pc = relTarget d s.pc (s.mem ((s.pc + 1) % 2 ^ (2 * W))) := by
    rw [dis_branch_target hd s.pc _ hb]
    unfold Py65.Spec.step
    rw [hs.running]
    simp only [Bool.false_eq_true, if_false, hdec]
    have hbr : ∀ s' : AState, Py65.Spec.branchCond W mn s'.p = true →
        (Py65.Spec.exec W v mn .rel s').pc = Py65.Spec.branchTarget W s' := by
      intro s' hc
      cases mn <;> first
        | (simp only [Py65.Spec.exec, hc, if_true]; done)
        | (simp [Py65.Spec.branchCond] at hc; done)
    refine Eq.trans (hbr _ ?_) ?_
    · exact htaken
    simp only [Py65.Spec.branchTarget, Py65.Spec.opnd1, Py65.Spec.AM]
    have := hd.ok.hW
    rcases this with rfl | rfl <;> omega
  simp only [disText, hb1, hstep]
  rfl

example : decode .nmos 0xd0 = some (.BNE, .rel) ∧ Py65.Spec.branchCond 8 .BNE 0x30 = true := by decide

/-- `dis_jmp_jsr`: JMP absolute and JSR absolute display (as `$hex` or as the label bound to it)
the address at which execution continues. -/
theorem dis_jmp_jsr {d : Dev} {v : Variant} {W : Nat} (hd : IsDevice d v W) (P : Parser) (s : AState)
    (hs : Runs W s) (mn : Mn) (hmn : mn = .JMP ∨ mn = .JSR)
    (hdec : decode v (s.mem s.pc) = some (mn, .abs)) :
    instructionAt d P s.mem s.pc =
      .ok 3 (mnText mn ++ ' ' :: shown P (W / 2) (Py65.Spec.step W v s).pc) := by
  have hbp := byteAt_pc hd.ok s hs.pc0 hs.pc1
  have hop : 0 ≤ byteAt d s.mem s.pc ∧ byteAt d s.mem s.pc < 256 := by rw [hbp]; exact ⟨hs.op0, hs.op1⟩
  rw [dis_spec hd.ok P s.mem s.pc hop, hbp, hdec]
  have hw : wordAt d s.mem (s.pc + 1) = (Py65.Spec.step W v s).pc := by
    unfold Py65.Spec.step
    rw [hs.running]
    simp only [Bool.false_eq_true, if_false, hdec]
    have hex : ∀ s' : AState, (Py65.Spec.exec W v mn .abs s').pc = Py65.Spec.opnd16 W s' := by
      intro s'
      rcases hmn with rfl | rfl
      · simp only [Py65.Spec.exec]
      · simp only [Py65.Spec.exec, Py65.Spec.push, Py65.Spec.write]
    rw [hex]
    unfold wordAt byteAt Dev.addrMask
    rw [hd.ok.aw, hd.ok.bw]
    simp only [Py.shl, Int.one_mul, Py.land_mask, Py65.Spec.opnd16, Py65.Spec.opnd1, Py65.Spec.opnd2,
      Py65.Spec.AM, Py65.Spec.BM, Int.emod_emod_of_dvd, dvd_refl]
    have := hd.ok.hW
    rcases this with rfl | rfl
    · have e : (s.pc + 1 + 1) % 2 ^ (2 * 8) = ((s.pc + 1) % 2 ^ (2 * 8) + 1) % 2 ^ (2 * 8) := by omega
      rw [e]
    · have e : (s.pc + 1 + 1) % 2 ^ (2 * 16) = ((s.pc + 1) % 2 ^ (2 * 16) + 1) % 2 ^ (2 * 16) := by omega
      rw [e]
  simp only [disText, hw]
  rfl

example : decode .nmos 0x4c = some (.JMP, .abs) ∧ decode .cmos 0x20 = some (.JSR, .abs) := by decide

end Py65.Props.C09
