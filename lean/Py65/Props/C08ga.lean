/-
C08ga -- the round-trip theorems of C08 restated for the GENERATED assembler.

`Py65.Gen.AsmGen.assemble` is written by `harness/py2lean_asm.py` from the CURRENT `py65/assembler.py` on
every run; `assembleG` is that function with its outcome in the hand model's result type and
`Py65/Proofs/AsmGenEq.lean` proves `assembleG d P s pc = Model.Asm.assembleL d P s pc` for all arguments.
The disassembler side is still the hand model `Py65.Model.Disasm` (tied by C09 / C08's correspondence).
Property statements only.
-/
import Py65.Props.C08
import Py65.Proofs.AsmGenEq

namespace Py65.Props.C08ga
open Py65.Model Py65.Model.PyStr Py65.Model.AddrParser Py65.Model.Asm Py65.Model.Disasm
open Py65.Proofs.Asm Py65.Proofs.AsmGenEq
open Py65.Spec (Mode Mn Variant decode)
open Py65.Spec.Asm (instrBytes)

variable {d : Dev} {v : Variant} {W : Nat}

/-- `roundtrip` with the generated assembler: the text the disassembler produces for a declared opcode
lying inside the address space re-assembles (generated `assemble`) at `pc` to the original bytes or,
for an absolute / absolute,X / absolute,Y operand below one page whose mnemonic has the zero-page form,
to that zero-page form. -/
theorem roundtrip (hd : IsDevice d v W) {P : Parser} (hg : GoodLabels P W) (mem : Int → Int) (pc : Int)
    (n : Nat) (hn : n < 256) (hop : byteAt d mem pc = (n : Int)) (mn : Mn) (mo : Mode)
    (hdec : decode v (n : Int) = some (mn, mo))
    (hb1 : 0 ≤ byteAt d mem (pc + 1) ∧ byteAt d mem (pc + 1) < 2 ^ W)
    (hb2 : 0 ≤ byteAt d mem (pc + 2) ∧ byteAt d mem (pc + 2) < 2 ^ W)
    (hfit : pc + mo.len ≤ 2 ^ (2 * W)) :
    ∃ text r, instructionAt d P mem pc = .ok mo.len.toNat text ∧ assembleG d P text pc = .ok r ∧
      RoundTrip v mn mo n (byteAt d mem (pc + 1)) (byteAt d mem (pc + 2)) r := by
  obtain ⟨text, r, h1, h2, h3⟩ := C08.roundtrip hd hg mem pc n hn hop mn mo hdec hb1 hb2 hfit
  exact ⟨text, r, h1, by rw [assembleG_eq]; exact h2, h3⟩

/-- `roundtrip_exact` with the generated assembler. -/
theorem roundtrip_exact (hd : IsDevice d v W) {P : Parser} (hg : GoodLabels P W) (mem : Int → Int) (pc : Int)
    (n : Nat) (hn : n < 256) (hop : byteAt d mem pc = (n : Int)) (mn : Mn) (mo : Mode)
    (hdec : decode v (n : Int) = some (mn, mo))
    (hb1 : 0 ≤ byteAt d mem (pc + 1) ∧ byteAt d mem (pc + 1) < 2 ^ W)
    (hb2 : 0 ≤ byteAt d mem (pc + 2) ∧ byteAt d mem (pc + 2) < 2 ^ W)
    (hfit : pc + mo.len ≤ 2 ^ (2 * W))
    (hnt : zpTwin mo = none ∨ byteAt d mem (pc + 2) ≠ 0) :
    ∃ text, instructionAt d P mem pc = .ok mo.len.toNat text ∧
      assembleG d P text pc =
        .ok (instrBytes mo n (byteAt d mem (pc + 1)) (byteAt d mem (pc + 2))) := by
  obtain ⟨text, h1, h2⟩ := C08.roundtrip_exact hd hg mem pc n hn hop mn mo hdec hb1 hb2 hfit hnt
  exact ⟨text, h1, by rw [assembleG_eq]; exact h2⟩

-- non-vacuity: concrete round trips, the generated assembler evaluated by the kernel
example : instructionAt dev6502 C08.exP (C08.memOf 0x300 0xbd 0x34 0x12) 0x300 = .ok 3 "LDA loop,X".toList ∧
    assembleG dev6502 C08.exP "LDA loop,X".toList 0x300 = .ok [0xbd, 0x34, 0x12] := by decide +kernel
example : instructionAt dev6502 C08.exP (C08.memOf 0x0 0xd0 0xee 0) 0x0 = .ok 2 "BNE top".toList ∧
    assembleG dev6502 C08.exP "BNE top".toList 0x0 = .ok [0xd0, 0xee] := by decide +kernel

/-- An instruction that straddles the top of memory is refused by the generated assembler with
`OverflowError`, as C07 demands of code running past the top. -/
theorem roundtrip_past_top :
    instructionAt dev6502 ⟨16, 16, []⟩ (C08.memOf 0xffff 0xa9 0x42 0) 0xffff = .ok 2 "LDA #$42".toList ∧
    assembleG dev6502 ⟨16, 16, []⟩ "LDA #$42".toList 0xffff = .overflow := by decide +kernel

end Py65.Props.C08ga
