/-
C18 — "Character I/O maps at the configured addresses, once per access, across resets".

Property theorems only (helper lemmas: `Py65/Proofs/MonIOLemmas.lean`).  They are about the
hand-written model `Py65/Model/MonIO.lean` of the monitor's observers on top of the
`ObservableMemory` model of C10; the model is tied to the real `Monitor` by the correspondence
run of `harness/props/c18.py`.

Reading guide.  `Sess` is the part of a `Monitor` the mapping depends on (address width of the
current device, `getc_addr`, `putc_addr`, whether the observers are installed); `construct` is the
constructor (keyword arguments, then `-i` / `-o` parsed as hex); `applyCmds` runs any sequence of
`reset` / `mpu <name>` commands.  `replay s st evs` replays an access log `evs` (the ordered item
accesses of a running program: C12) on the session's memory from cells `st.cells`, pending input
`st.io.pending` and output `st.io.output`.  The Spec (`Py65/Spec/MonIO.lean`) is the same replay on
"a plain memory of `size` cells + an input queue + an output text", written from the property text.
-/
import Py65.Proofs.MonIOLemmas

namespace Py65.Props.C18
open Py65 Py65.Model.ObsMem Py65.Model.MonIO Py65.Spec.ObsMem Py65.Proofs.MonIO
open Py65.Spec.MonIO (SState deliver storesTo loadsFrom)

/-- `io_trace`: with the observers installed at `I` and `O`, replaying ANY access log from ANY
cells, pending input and output is the Spec's replay: every load from an address congruent to `I`
(mod the physical size) returns the next pending byte — LF as CR — or 0 when none is pending, and
consumes exactly that byte; every other load returns the cell and consumes nothing; every store
lands in its cell.  In closed form: the output grows by exactly the values stored to addresses
congruent to `O`, in order, each once; the input shrinks by exactly the number of loads from
addresses congruent to `I`. -/
theorem io_trace (s : Sess) (I O : Int) (ho : s.observed = true) (hI : s.getcAddr = some I)
    (hO : s.putcAddr = some O) (st : MState) (evs : List MemEv) :
    let r := replay s st evs
    let sp := Py65.Spec.MonIO.replay (physSize s) I O (toSpec st) evs
    r.1 = sp.1 ∧ toSpec r.2 = sp.2 ∧
    r.2.io.output = st.io.output ++ storesTo (physSize s) O evs ∧
    r.2.io.pending = st.io.pending.drop (loadsFrom (physSize s) I evs) := by
  intro r sp
  have key : r.1 = sp.1 ∧ toSpec r.2 = sp.2 := by
    show (replay s st evs).1 = _ ∧ toSpec (replay s st evs).2 = _
    induction evs generalizing st with
    | nil => exact ⟨rfl, rfl⟩
    | cons e es ih =>
      obtain ⟨h1, h2⟩ := io_step s I O ho hI hO st e
      obtain ⟨i1, i2⟩ := ih (access s st e).2
      simp only [replay, Py65.Spec.MonIO.replay]
      rw [h1, i1, i2, h2]
      exact ⟨rfl, rfl⟩
  obtain ⟨c1, c2⟩ := spec_closed (physSize s) I O (toSpec st) evs
  refine ⟨key.1, key.2, ?_, ?_⟩
  · have : (toSpec r.2).output = sp.2.output := by rw [key.2]
    exact this.trans c1
  · have : (toSpec r.2).pending = sp.2.pending := by rw [key.2]
    exact this.trans c2

/-- A session built by the constructor with integer addresses, as a term. -/
def exSess : Sess := { addrWidth := 16, getcAddr := some 0xe000, putcAddr := some 0xe001, observed := true }

/-- non-vacuity: I = $e000, O = $e001, input "A\nB": the program stores 'H' to O, loads I, stores
'i' to O through the alias $1e001, loads the neighbour $e002 (cell, 0), loads I twice more and once
again with nothing pending, stores to the neighbour $e002.  Output = "Hi"; the loads return
65, 13 (LF as CR), 66, 0; nothing is left pending. -/
example :
    let st : MState := { cells := fun _ => 0, io := { pending := [65, 10, 66], output := [] } }
    let r := replay exSess st [.w 0xe001 72, .r 0xe000, .w 0x1e001 105, .r 0xe002, .r 0xe000, .r 0xe000,
                               .r 0xe000, .w 0xe002 33]
    r.1 = [none, some 65, none, some 0, some 13, some 66, some 0, none] ∧
    r.2.io.output = [72, 105] ∧ r.2.io.pending = [] ∧ r.2.cells 0xe002 = 33 := by
  decide +kernel

/-- `io_mapping_stable`: the constructor takes the addresses from its keyword arguments and
overrides them with `-i` / `-o` parsed as hexadecimal; after ANY sequence of `reset` / `mpu`
commands the configured addresses are unchanged and the observers are installed exactly when both
are integers (`None`, possible only through the keyword arguments, switches character I/O off);
and then, on the memory of the session — whatever device the commands selected — the read
subscribers of ANY address are exactly `[getc]` when the address is congruent to `I` and none
otherwise, the write subscribers exactly `[putc]` when it is congruent to `O` and none otherwise. -/
theorem io_mapping_stable (aw : Int) (kg kp : Option Int) (i o : Option Py65.Model.PyStr.Str) (s0 : Sess)
    (hc : construct aw kg kp i o = some s0) (cmds : List Cmd) :
    let s := applyCmds s0 cmds
    s0.getcAddr = chosen kg i ∧ s0.putcAddr = chosen kp o ∧
    s.getcAddr = s0.getcAddr ∧ s.putcAddr = s0.putcAddr ∧
    s.observed = (s0.getcAddr.isSome && s0.putcAddr.isSome) ∧
    ∀ I O, s0.getcAddr = some I → s0.putcAddr = some O → ∀ (reply : Reply) (cells : Int → Int) (a : Int),
      let m := memOf s reply cells
      m.physMask = maskOf s.addrWidth ∧
      m.rsubs.of (phys m.physMask a) = (if phys m.physMask a = phys m.physMask I then [getcId] else []) ∧
      m.wsubs.of (phys m.physMask a) = (if phys m.physMask a = phys m.physMask O then [putcId] else []) := by
  intro s
  -- the configured addresses and the installed flag are invariant under every command
  have inv : ∀ (cmds : List Cmd) (t : Sess), t.observed = (t.getcAddr.isSome && t.putcAddr.isSome) →
      (applyCmds t cmds).getcAddr = t.getcAddr ∧ (applyCmds t cmds).putcAddr = t.putcAddr ∧
      (applyCmds t cmds).observed = (t.getcAddr.isSome && t.putcAddr.isSome) := by
    intro cmds
    induction cmds with
    | nil => intro t ht; exact ⟨rfl, rfl, ht⟩
    | cons c cs ih =>
      intro t ht
      have step : (applyCmd t c).getcAddr = t.getcAddr ∧ (applyCmd t c).putcAddr = t.putcAddr ∧
          (applyCmd t c).observed = (t.getcAddr.isSome && t.putcAddr.isSome) := by
        cases c with
        | reset => exact ⟨rfl, rfl, rfl⟩
        | mpu name =>
          simp only [applyCmd]
          split
          · exact ⟨rfl, rfl, ht⟩
          · split
            · exact ⟨rfl, rfl, ht⟩
            · exact ⟨rfl, rfl, rfl⟩
      obtain ⟨s1, s2, s3⟩ := step
      have := ih (applyCmd t c) (by rw [s3, s1, s2])
      simp only [applyCmds, List.foldl_cons] at this ⊢
      rw [s1, s2] at this
      exact this
  -- the constructor
  have h0 : s0.getcAddr = chosen kg i ∧ s0.putcAddr = chosen kp o ∧
      s0.observed = (s0.getcAddr.isSome && s0.putcAddr.isSome) := by
    unfold construct at hc
    cases i with
    | none =>
      cases o with
      | none => simp only [Option.some.injEq] at hc; subst hc; exact ⟨rfl, rfl, rfl⟩
      | some t =>
        cases ht : Py65.Model.PyStr.pyIntL t 16 with
        | none => simp [ht] at hc
        | some v => simp only [ht, Option.map_some, Option.some.injEq] at hc; subst hc; exact ⟨rfl, by simp [chosen, ht, resetWith], rfl⟩
    | some u =>
      cases hu : Py65.Model.PyStr.pyIntL u 16 with
      | none => simp [hu] at hc
      | some g =>
        cases o with
        | none => simp only [hu, Option.map_some, Option.some.injEq] at hc; subst hc; exact ⟨by simp [chosen, hu, resetWith], rfl, rfl⟩
        | some t =>
          cases ht : Py65.Model.PyStr.pyIntL t 16 with
          | none => simp [hu, ht] at hc
          | some v =>
            simp only [hu, ht, Option.map_some, Option.some.injEq] at hc; subst hc
            exact ⟨by simp [chosen, hu, resetWith], by simp [chosen, ht, resetWith], rfl⟩
  obtain ⟨g1, g2, g3⟩ := h0
  obtain ⟨i1, i2, i3⟩ := inv cmds s0 g3
  refine ⟨g1, g2, i1, i2, i3, ?_⟩
  intro I O hI hO reply cells a m
  have ho : s.observed = true := by
    show (applyCmds s0 cmds).observed = true
    rw [i3, hI, hO]; rfl
  have hI' : s.getcAddr = some I := by show (applyCmds s0 cmds).getcAddr = _; rw [i1, hI]
  have hO' : s.putcAddr = some O := by show (applyCmds s0 cmds).putcAddr = _; rw [i2, hO]
  have hops := installOps_eq ho hI' hO'
  have hm : m = run reply (init s.addrWidth cells) (hist I O) := by
    show memOf s reply cells = _
    unfold memOf; rw [hops]
  have hs := Py65.Props.C10.subs_spec reply s.addrWidth cells (hist I O) (phys (maskOf s.addrWidth) a)
  dsimp only at hs
  obtain ⟨hmask, hr, hw, -⟩ := hs
  rw [run_hist_mask] at hr hw
  have hmm : m.physMask = maskOf s.addrWidth := by rw [hm]; rfl
  refine ⟨hmm, ?_, ?_⟩
  · rw [hmm, hm, hr, subs_read]
  · rw [hmm, hm, hw, subs_write]

/-- non-vacuity: `-i e000 -o 0` (address 0 is an address) on the 6502, then `reset`, `mpu 65Org16`,
`mpu z80` (unknown: ignored), `reset`: the observers sit at $e000 and 0 of the 256 K memory. -/
example :
    (construct 16 (some 0xF004) (some 0xF001) (some "e000".toList) (some "0".toList)).map
        (fun s0 => applyCmds s0 [.reset, .mpu "65Org16".toList, .mpu "z80".toList, .reset]) =
      some { addrWidth := 32, getcAddr := some 0xe000, putcAddr := some 0, observed := true } := by
  decide +kernel

/-- … and `None` through the keyword arguments means no character I/O, before and after `reset`. -/
example :
    (construct 16 none none none none).map (fun s0 => (applyCmds s0 [.reset]).observed) = some false := by
  decide +kernel

/-- `io_session`: the two theorems composed.  For a monitor built by the constructor with integer
addresses `I` and `O` (keyword arguments or `-i` / `-o`), after ANY sequence of `reset` / `mpu`
commands, replaying ANY access log of a running program writes exactly the values stored to
addresses congruent to `O` (mod the physical size of the current device's memory), in order, each
once, and consumes exactly one pending byte per load from an address congruent to `I`. -/
theorem io_session (aw : Int) (kg kp : Option Int) (i o : Option Py65.Model.PyStr.Str) (s0 : Sess)
    (hc : construct aw kg kp i o = some s0) (cmds : List Cmd) (I O : Int)
    (hI : s0.getcAddr = some I) (hO : s0.putcAddr = some O) (st : MState) (evs : List MemEv) :
    let s := applyCmds s0 cmds
    let r := replay s st evs
    r.1 = (Py65.Spec.MonIO.replay (physSize s) I O (toSpec st) evs).1 ∧
    r.2.io.output = st.io.output ++ storesTo (physSize s) O evs ∧
    r.2.io.pending = st.io.pending.drop (loadsFrom (physSize s) I evs) := by
  intro s r
  obtain ⟨-, -, g1, g2, g3, -⟩ := io_mapping_stable aw kg kp i o s0 hc cmds
  have ho : s.observed = true := by
    show (applyCmds s0 cmds).observed = true
    rw [g3, hI, hO]; rfl
  have hI' : s.getcAddr = some I := by show (applyCmds s0 cmds).getcAddr = _; rw [g1, hI]
  have hO' : s.putcAddr = some O := by show (applyCmds s0 cmds).putcAddr = _; rw [g2, hO]
  obtain ⟨t1, -, t3, t4⟩ := io_trace s I O ho hI' hO' st evs
  exact ⟨t1, t3, t4⟩

end Py65.Props.C18
