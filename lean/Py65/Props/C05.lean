/-
C05 -- Execution is total and closed: no opcode, state or address ever raises.

PROPERTY THEOREMS ONLY.  Proved here:
  * `undeclared_*`  on every device, an opcode byte 0..255 the device does not declare changes
                    nothing but PC (+2 modulo the address space): registers, flags, every memory cell
                    and the cycle counter stay as they were (GENERATED case analysis over the
                    undeclared bytes, each closed by the translator's dispatch fact);
  * `closed_nmi_pc` / `closed_reset`    interrupts and reset leave PC / the state well-formed (the full closure of
                                        every call over every history is `Props/C05h.lean`);
  * `pc_closed`     PC is inside the address space after EVERY step(), whatever the opcode does;
  * register/cell closure for declared opcodes follows from C01-C03 (abs (step s) = Spec.step (abs s))
                    for the opcodes they cover; the rest is carried by the bounds-checking-memory runs.
"Never raises" is then: (a) in-range indices cannot raise on a list of 2^16 cells / on
ObservableMemory (C10/C11), (b) the translator accepted the source, so nothing but integer
arithmetic and indexing happens.
-/
import Py65.Proofs.Closure

namespace Py65.Props.C05
open Py65 Py65.Gen Py65.Spec Py65.Proofs

def undeclaredL_dev6502 : List Int := [2, 3, 4, 7, 11, 12, 15, 18, 19, 20, 23, 26, 27, 28, 31, 34, 35, 39, 43, 47, 50, 51, 52, 55, 58, 59, 60, 63, 66, 67, 68, 71, 75, 79, 82, 83, 84, 87, 90, 91, 92, 95, 98, 99, 100, 103, 107, 111, 114, 115, 116, 119, 122, 123, 124, 127, 128, 130, 131, 135, 137, 139, 143, 146, 147, 151, 155, 156, 158, 159, 163, 167, 171, 175, 178, 179, 183, 187, 191, 194, 195, 199, 203, 207, 210, 211, 212, 215, 218, 219, 220, 223, 226, 227, 231, 235, 239, 242, 243, 244, 247, 250, 251, 252, 255]

theorem undeclared_list_dev6502 : ∀ n : Fin 256, decode .nmos (Int.ofNat n.val) = none → Int.ofNat n.val ∈ undeclaredL_dev6502 := by
  decide +kernel

theorem undeclared_dev6502 (s : St) (hs : WF dev6502.cfg s) (hw : s.waiting = false)
    (hop : 0 ≤ s.mem s.pc ∧ s.mem s.pc < 256) (hd : decode .nmos (s.mem s.pc) = none) :
    core (dev6502.step s) = { core s with pc := (s.pc + 2) % AM 8 } ∧ (dev6502.step s).cycles = s.cycles := by
  have hstep : dev6502.step s = Mpu6502.step dev6502.cfg dev6502.tbl s := rfl
  rw [hstep]
  have hc : IsDev dev6502.cfg := Or.inl rfl
  obtain ⟨n, hn⟩ : ∃ n : Fin 256, Int.ofNat n.val = s.mem s.pc := by
    refine ⟨⟨(s.mem s.pc).toNat, by omega⟩, ?_⟩
    simp only [Int.ofNat_eq_natCast]; omega
  have hm := undeclared_list_dev6502 n (hn ▸ hd)
  rw [hn] at hm
  generalize hopv : s.mem s.pc = op at hm
  simp only [undeclaredL_dev6502, List.mem_cons, List.mem_nil_iff, or_false] at hm
  rcases hm with rfl | rfl | rfl | rfl | rfl | rfl | rfl | rfl | rfl | rfl | rfl | rfl | rfl | rfl | rfl | rfl | rfl | rfl | rfl | rfl | rfl | rfl | rfl | rfl | rfl | rfl | rfl | rfl | rfl | rfl | rfl | rfl | rfl | rfl | rfl | rfl | rfl | rfl | rfl | rfl | rfl | rfl | rfl | rfl | rfl | rfl | rfl | rfl | rfl | rfl | rfl | rfl | rfl | rfl | rfl | rfl | rfl | rfl | rfl | rfl | rfl | rfl | rfl | rfl | rfl | rfl | rfl | rfl | rfl | rfl | rfl | rfl | rfl | rfl | rfl | rfl | rfl | rfl | rfl | rfl | rfl | rfl | rfl | rfl | rfl | rfl | rfl | rfl | rfl | rfl | rfl | rfl | rfl | rfl | rfl | rfl | rfl | rfl | rfl | rfl | rfl | rfl | rfl | rfl | rfl
  · exact step_undeclared _ hc _ s hs (by rw [hopv]; exact dev6502.instruct_02) (by rw [hopv]; rfl)
  · exact step_undeclared _ hc _ s hs (by rw [hopv]; exact dev6502.instruct_03) (by rw [hopv]; rfl)
  · exact step_undeclared _ hc _ s hs (by rw [hopv]; exact dev6502.instruct_04) (by rw [hopv]; rfl)
  · exact step_undeclared _ hc _ s hs (by rw [hopv]; exact dev6502.instruct_07) (by rw [hopv]; rfl)
  · exact step_undeclared _ hc _ s hs (by rw [hopv]; exact dev6502.instruct_0b) (by rw [hopv]; rfl)
  · exact step_undeclared _ hc _ s hs (by rw [hopv]; exact dev6502.instruct_0c) (by rw [hopv]; rfl)
  · exact step_undeclared _ hc _ s hs (by rw [hopv]; exact dev6502.instruct_0f) (by rw [hopv]; rfl)
  · exact step_undeclared _ hc _ s hs (by rw [hopv]; exact dev6502.instruct_12) (by rw [hopv]; rfl)
  · exact step_undeclared _ hc _ s hs (by rw [hopv]; exact dev6502.instruct_13) (by rw [hopv]; rfl)
  · exact step_undeclared _ hc _ s hs (by rw [hopv]; exact dev6502.instruct_14) (by rw [hopv]; rfl)
  · exact step_undeclared _ hc _ s hs (by rw [hopv]; exact dev6502.instruct_17) (by rw [hopv]; rfl)
  · exact step_undeclared _ hc _ s hs (by rw [hopv]; exact dev6502.instruct_1a) (by rw [hopv]; rfl)
  · exact step_undeclared _ hc _ s hs (by rw [hopv]; exact dev6502.instruct_1b) (by rw [hopv]; rfl)
  · exact step_undeclared _ hc _ s hs (by rw [hopv]; exact dev6502.instruct_1c) (by rw [hopv]; rfl)
  · exact step_undeclared _ hc _ s hs (by rw [hopv]; exact dev6502.instruct_1f) (by rw [hopv]; rfl)
  · exact step_undeclared _ hc _ s hs (by rw [hopv]; exact dev6502.instruct_22) (by rw [hopv]; rfl)
  · exact step_undeclared _ hc _ s hs (by rw [hopv]; exact dev6502.instruct_23) (by rw [hopv]; rfl)
  · exact step_undeclared _ hc _ s hs (by rw [hopv]; exact dev6502.instruct_27) (by rw [hopv]; rfl)
  · exact step_undeclared _ hc _ s hs (by rw [hopv]; exact dev6502.instruct_2b) (by rw [hopv]; rfl)
  · exact step_undeclared _ hc _ s hs (by rw [hopv]; exact dev6502.instruct_2f) (by rw [hopv]; rfl)
  · exact step_undeclared _ hc _ s hs (by rw [hopv]; exact dev6502.instruct_32) (by rw [hopv]; rfl)
  · exact step_undeclared _ hc _ s hs (by rw [hopv]; exact dev6502.instruct_33) (by rw [hopv]; rfl)
  · exact step_undeclared _ hc _ s hs (by rw [hopv]; exact dev6502.instruct_34) (by rw [hopv]; rfl)
  · exact step_undeclared _ hc _ s hs (by rw [hopv]; exact dev6502.instruct_37) (by rw [hopv]; rfl)
  · exact step_undeclared _ hc _ s hs (by rw [hopv]; exact dev6502.instruct_3a) (by rw [hopv]; rfl)
  · exact step_undeclared _ hc _ s hs (by rw [hopv]; exact dev6502.instruct_3b) (by rw [hopv]; rfl)
  · exact step_undeclared _ hc _ s hs (by rw [hopv]; exact dev6502.instruct_3c) (by rw [hopv]; rfl)
  · exact step_undeclared _ hc _ s hs (by rw [hopv]; exact dev6502.instruct_3f) (by rw [hopv]; rfl)
  · exact step_undeclared _ hc _ s hs (by rw [hopv]; exact dev6502.instruct_42) (by rw [hopv]; rfl)
  · exact step_undeclared _ hc _ s hs (by rw [hopv]; exact dev6502.instruct_43) (by rw [hopv]; rfl)
  · exact step_undeclared _ hc _ s hs (by rw [hopv]; exact dev6502.instruct_44) (by rw [hopv]; rfl)
  · exact step_undeclared _ hc _ s hs (by rw [hopv]; exact dev6502.instruct_47) (by rw [hopv]; rfl)
  · exact step_undeclared _ hc _ s hs (by rw [hopv]; exact dev6502.instruct_4b) (by rw [hopv]; rfl)
  · exact step_undeclared _ hc _ s hs (by rw [hopv]; exact dev6502.instruct_4f) (by rw [hopv]; rfl)
  · exact step_undeclared _ hc _ s hs (by rw [hopv]; exact dev6502.instruct_52) (by rw [hopv]; rfl)
  · exact step_undeclared _ hc _ s hs (by rw [hopv]; exact dev6502.instruct_53) (by rw [hopv]; rfl)
  · exact step_undeclared _ hc _ s hs (by rw [hopv]; exact dev6502.instruct_54) (by rw [hopv]; rfl)
  · exact step_undeclared _ hc _ s hs (by rw [hopv]; exact dev6502.instruct_57) (by rw [hopv]; rfl)
  · exact step_undeclared _ hc _ s hs (by rw [hopv]; exact dev6502.instruct_5a) (by rw [hopv]; rfl)
  · exact step_undeclared _ hc _ s hs (by rw [hopv]; exact dev6502.instruct_5b) (by rw [hopv]; rfl)
  · exact step_undeclared _ hc _ s hs (by rw [hopv]; exact dev6502.instruct_5c) (by rw [hopv]; rfl)
  · exact step_undeclared _ hc _ s hs (by rw [hopv]; exact dev6502.instruct_5f) (by rw [hopv]; rfl)
  · exact step_undeclared _ hc _ s hs (by rw [hopv]; exact dev6502.instruct_62) (by rw [hopv]; rfl)
  · exact step_undeclared _ hc _ s hs (by rw [hopv]; exact dev6502.instruct_63) (by rw [hopv]; rfl)
  · exact step_undeclared _ hc _ s hs (by rw [hopv]; exact dev6502.instruct_64) (by rw [hopv]; rfl)
  · exact step_undeclared _ hc _ s hs (by rw [hopv]; exact dev6502.instruct_67) (by rw [hopv]; rfl)
  · exact step_undeclared _ hc _ s hs (by rw [hopv]; exact dev6502.instruct_6b) (by rw [hopv]; rfl)
  · exact step_undeclared _ hc _ s hs (by rw [hopv]; exact dev6502.instruct_6f) (by rw [hopv]; rfl)
  · exact step_undeclared _ hc _ s hs (by rw [hopv]; exact dev6502.instruct_72) (by rw [hopv]; rfl)
  · exact step_undeclared _ hc _ s hs (by rw [hopv]; exact dev6502.instruct_73) (by rw [hopv]; rfl)
  · exact step_undeclared _ hc _ s hs (by rw [hopv]; exact dev6502.instruct_74) (by rw [hopv]; rfl)
  · exact step_undeclared _ hc _ s hs (by rw [hopv]; exact dev6502.instruct_77) (by rw [hopv]; rfl)
  · exact step_undeclared _ hc _ s hs (by rw [hopv]; exact dev6502.instruct_7a) (by rw [hopv]; rfl)
  · exact step_undeclared _ hc _ s hs (by rw [hopv]; exact dev6502.instruct_7b) (by rw [hopv]; rfl)
  · exact step_undeclared _ hc _ s hs (by rw [hopv]; exact dev6502.instruct_7c) (by rw [hopv]; rfl)
  · exact step_undeclared _ hc _ s hs (by rw [hopv]; exact dev6502.instruct_7f) (by rw [hopv]; rfl)
  · exact step_undeclared _ hc _ s hs (by rw [hopv]; exact dev6502.instruct_80) (by rw [hopv]; rfl)
  · exact step_undeclared _ hc _ s hs (by rw [hopv]; exact dev6502.instruct_82) (by rw [hopv]; rfl)
  · exact step_undeclared _ hc _ s hs (by rw [hopv]; exact dev6502.instruct_83) (by rw [hopv]; rfl)
  · exact step_undeclared _ hc _ s hs (by rw [hopv]; exact dev6502.instruct_87) (by rw [hopv]; rfl)
  · exact step_undeclared _ hc _ s hs (by rw [hopv]; exact dev6502.instruct_89) (by rw [hopv]; rfl)
  · exact step_undeclared _ hc _ s hs (by rw [hopv]; exact dev6502.instruct_8b) (by rw [hopv]; rfl)
  · exact step_undeclared _ hc _ s hs (by rw [hopv]; exact dev6502.instruct_8f) (by rw [hopv]; rfl)
  · exact step_undeclared _ hc _ s hs (by rw [hopv]; exact dev6502.instruct_92) (by rw [hopv]; rfl)
  · exact step_undeclared _ hc _ s hs (by rw [hopv]; exact dev6502.instruct_93) (by rw [hopv]; rfl)
  · exact step_undeclared _ hc _ s hs (by rw [hopv]; exact dev6502.instruct_97) (by rw [hopv]; rfl)
  · exact step_undeclared _ hc _ s hs (by rw [hopv]; exact dev6502.instruct_9b) (by rw [hopv]; rfl)
  · exact step_undeclared _ hc _ s hs (by rw [hopv]; exact dev6502.instruct_9c) (by rw [hopv]; rfl)
  · exact step_undeclared _ hc _ s hs (by rw [hopv]; exact dev6502.instruct_9e) (by rw [hopv]; rfl)
  · exact step_undeclared _ hc _ s hs (by rw [hopv]; exact dev6502.instruct_9f) (by rw [hopv]; rfl)
  · exact step_undeclared _ hc _ s hs (by rw [hopv]; exact dev6502.instruct_a3) (by rw [hopv]; rfl)
  · exact step_undeclared _ hc _ s hs (by rw [hopv]; exact dev6502.instruct_a7) (by rw [hopv]; rfl)
  · exact step_undeclared _ hc _ s hs (by rw [hopv]; exact dev6502.instruct_ab) (by rw [hopv]; rfl)
  · exact step_undeclared _ hc _ s hs (by rw [hopv]; exact dev6502.instruct_af) (by rw [hopv]; rfl)
  · exact step_undeclared _ hc _ s hs (by rw [hopv]; exact dev6502.instruct_b2) (by rw [hopv]; rfl)
  · exact step_undeclared _ hc _ s hs (by rw [hopv]; exact dev6502.instruct_b3) (by rw [hopv]; rfl)
  · exact step_undeclared _ hc _ s hs (by rw [hopv]; exact dev6502.instruct_b7) (by rw [hopv]; rfl)
  · exact step_undeclared _ hc _ s hs (by rw [hopv]; exact dev6502.instruct_bb) (by rw [hopv]; rfl)
  · exact step_undeclared _ hc _ s hs (by rw [hopv]; exact dev6502.instruct_bf) (by rw [hopv]; rfl)
  · exact step_undeclared _ hc _ s hs (by rw [hopv]; exact dev6502.instruct_c2) (by rw [hopv]; rfl)
  · exact step_undeclared _ hc _ s hs (by rw [hopv]; exact dev6502.instruct_c3) (by rw [hopv]; rfl)
  · exact step_undeclared _ hc _ s hs (by rw [hopv]; exact dev6502.instruct_c7) (by rw [hopv]; rfl)
  · exact step_undeclared _ hc _ s hs (by rw [hopv]; exact dev6502.instruct_cb) (by rw [hopv]; rfl)
  · exact step_undeclared _ hc _ s hs (by rw [hopv]; exact dev6502.instruct_cf) (by rw [hopv]; rfl)
  · exact step_undeclared _ hc _ s hs (by rw [hopv]; exact dev6502.instruct_d2) (by rw [hopv]; rfl)
  · exact step_undeclared _ hc _ s hs (by rw [hopv]; exact dev6502.instruct_d3) (by rw [hopv]; rfl)
  · exact step_undeclared _ hc _ s hs (by rw [hopv]; exact dev6502.instruct_d4) (by rw [hopv]; rfl)
  · exact step_undeclared _ hc _ s hs (by rw [hopv]; exact dev6502.instruct_d7) (by rw [hopv]; rfl)
  · exact step_undeclared _ hc _ s hs (by rw [hopv]; exact dev6502.instruct_da) (by rw [hopv]; rfl)
  · exact step_undeclared _ hc _ s hs (by rw [hopv]; exact dev6502.instruct_db) (by rw [hopv]; rfl)
  · exact step_undeclared _ hc _ s hs (by rw [hopv]; exact dev6502.instruct_dc) (by rw [hopv]; rfl)
  · exact step_undeclared _ hc _ s hs (by rw [hopv]; exact dev6502.instruct_df) (by rw [hopv]; rfl)
  · exact step_undeclared _ hc _ s hs (by rw [hopv]; exact dev6502.instruct_e2) (by rw [hopv]; rfl)
  · exact step_undeclared _ hc _ s hs (by rw [hopv]; exact dev6502.instruct_e3) (by rw [hopv]; rfl)
  · exact step_undeclared _ hc _ s hs (by rw [hopv]; exact dev6502.instruct_e7) (by rw [hopv]; rfl)
  · exact step_undeclared _ hc _ s hs (by rw [hopv]; exact dev6502.instruct_eb) (by rw [hopv]; rfl)
  · exact step_undeclared _ hc _ s hs (by rw [hopv]; exact dev6502.instruct_ef) (by rw [hopv]; rfl)
  · exact step_undeclared _ hc _ s hs (by rw [hopv]; exact dev6502.instruct_f2) (by rw [hopv]; rfl)
  · exact step_undeclared _ hc _ s hs (by rw [hopv]; exact dev6502.instruct_f3) (by rw [hopv]; rfl)
  · exact step_undeclared _ hc _ s hs (by rw [hopv]; exact dev6502.instruct_f4) (by rw [hopv]; rfl)
  · exact step_undeclared _ hc _ s hs (by rw [hopv]; exact dev6502.instruct_f7) (by rw [hopv]; rfl)
  · exact step_undeclared _ hc _ s hs (by rw [hopv]; exact dev6502.instruct_fa) (by rw [hopv]; rfl)
  · exact step_undeclared _ hc _ s hs (by rw [hopv]; exact dev6502.instruct_fb) (by rw [hopv]; rfl)
  · exact step_undeclared _ hc _ s hs (by rw [hopv]; exact dev6502.instruct_fc) (by rw [hopv]; rfl)
  · exact step_undeclared _ hc _ s hs (by rw [hopv]; exact dev6502.instruct_ff) (by rw [hopv]; rfl)

def undeclaredL_dev65org16 : List Int := [2, 3, 4, 7, 11, 12, 15, 18, 19, 20, 23, 26, 27, 28, 31, 34, 35, 39, 43, 47, 50, 51, 52, 55, 58, 59, 60, 63, 66, 67, 68, 71, 75, 79, 82, 83, 84, 87, 90, 91, 92, 95, 98, 99, 100, 103, 107, 111, 114, 115, 116, 119, 122, 123, 124, 127, 128, 130, 131, 135, 137, 139, 143, 146, 147, 151, 155, 156, 158, 159, 163, 167, 171, 175, 178, 179, 183, 187, 191, 194, 195, 199, 203, 207, 210, 211, 212, 215, 218, 219, 220, 223, 226, 227, 231, 235, 239, 242, 243, 244, 247, 250, 251, 252, 255]

theorem undeclared_list_dev65org16 : ∀ n : Fin 256, decode .nmos (Int.ofNat n.val) = none → Int.ofNat n.val ∈ undeclaredL_dev65org16 := by
  decide +kernel

theorem undeclared_dev65org16 (s : St) (hs : WF dev65org16.cfg s) (hw : s.waiting = false)
    (hop : 0 ≤ s.mem s.pc ∧ s.mem s.pc < 256) (hd : decode .nmos (s.mem s.pc) = none) :
    core (dev65org16.step s) = { core s with pc := (s.pc + 2) % AM 16 } ∧ (dev65org16.step s).cycles = s.cycles := by
  have hstep : dev65org16.step s = Mpu6502.step dev65org16.cfg dev65org16.tbl s := by simp only [dev65org16.step, Mpu65org16.step, hw]; rfl
  rw [hstep]
  have hc : IsDev dev65org16.cfg := Or.inr rfl
  obtain ⟨n, hn⟩ : ∃ n : Fin 256, Int.ofNat n.val = s.mem s.pc := by
    refine ⟨⟨(s.mem s.pc).toNat, by omega⟩, ?_⟩
    simp only [Int.ofNat_eq_natCast]; omega
  have hm := undeclared_list_dev65org16 n (hn ▸ hd)
  rw [hn] at hm
  generalize hopv : s.mem s.pc = op at hm
  simp only [undeclaredL_dev65org16, List.mem_cons, List.mem_nil_iff, or_false] at hm
  rcases hm with rfl | rfl | rfl | rfl | rfl | rfl | rfl | rfl | rfl | rfl | rfl | rfl | rfl | rfl | rfl | rfl | rfl | rfl | rfl | rfl | rfl | rfl | rfl | rfl | rfl | rfl | rfl | rfl | rfl | rfl | rfl | rfl | rfl | rfl | rfl | rfl | rfl | rfl | rfl | rfl | rfl | rfl | rfl | rfl | rfl | rfl | rfl | rfl | rfl | rfl | rfl | rfl | rfl | rfl | rfl | rfl | rfl | rfl | rfl | rfl | rfl | rfl | rfl | rfl | rfl | rfl | rfl | rfl | rfl | rfl | rfl | rfl | rfl | rfl | rfl | rfl | rfl | rfl | rfl | rfl | rfl | rfl | rfl | rfl | rfl | rfl | rfl | rfl | rfl | rfl | rfl | rfl | rfl | rfl | rfl | rfl | rfl | rfl | rfl | rfl | rfl | rfl | rfl | rfl | rfl
  · exact step_undeclared _ hc _ s hs (by rw [hopv]; exact dev65org16.instruct_02) (by rw [hopv]; rfl)
  · exact step_undeclared _ hc _ s hs (by rw [hopv]; exact dev65org16.instruct_03) (by rw [hopv]; rfl)
  · exact step_undeclared _ hc _ s hs (by rw [hopv]; exact dev65org16.instruct_04) (by rw [hopv]; rfl)
  · exact step_undeclared _ hc _ s hs (by rw [hopv]; exact dev65org16.instruct_07) (by rw [hopv]; rfl)
  · exact step_undeclared _ hc _ s hs (by rw [hopv]; exact dev65org16.instruct_0b) (by rw [hopv]; rfl)
  · exact step_undeclared _ hc _ s hs (by rw [hopv]; exact dev65org16.instruct_0c) (by rw [hopv]; rfl)
  · exact step_undeclared _ hc _ s hs (by rw [hopv]; exact dev65org16.instruct_0f) (by rw [hopv]; rfl)
  · exact step_undeclared _ hc _ s hs (by rw [hopv]; exact dev65org16.instruct_12) (by rw [hopv]; rfl)
  · exact step_undeclared _ hc _ s hs (by rw [hopv]; exact dev65org16.instruct_13) (by rw [hopv]; rfl)
  · exact step_undeclared _ hc _ s hs (by rw [hopv]; exact dev65org16.instruct_14) (by rw [hopv]; rfl)
  · exact step_undeclared _ hc _ s hs (by rw [hopv]; exact dev65org16.instruct_17) (by rw [hopv]; rfl)
  · exact step_undeclared _ hc _ s hs (by rw [hopv]; exact dev65org16.instruct_1a) (by rw [hopv]; rfl)
  · exact step_undeclared _ hc _ s hs (by rw [hopv]; exact dev65org16.instruct_1b) (by rw [hopv]; rfl)
  · exact step_undeclared _ hc _ s hs (by rw [hopv]; exact dev65org16.instruct_1c) (by rw [hopv]; rfl)
  · exact step_undeclared _ hc _ s hs (by rw [hopv]; exact dev65org16.instruct_1f) (by rw [hopv]; rfl)
  · exact step_undeclared _ hc _ s hs (by rw [hopv]; exact dev65org16.instruct_22) (by rw [hopv]; rfl)
  · exact step_undeclared _ hc _ s hs (by rw [hopv]; exact dev65org16.instruct_23) (by rw [hopv]; rfl)
  · exact step_undeclared _ hc _ s hs (by rw [hopv]; exact dev65org16.instruct_27) (by rw [hopv]; rfl)
  · exact step_undeclared _ hc _ s hs (by rw [hopv]; exact dev65org16.instruct_2b) (by rw [hopv]; rfl)
  · exact step_undeclared _ hc _ s hs (by rw [hopv]; exact dev65org16.instruct_2f) (by rw [hopv]; rfl)
  · exact step_undeclared _ hc _ s hs (by rw [hopv]; exact dev65org16.instruct_32) (by rw [hopv]; rfl)
  · exact step_undeclared _ hc _ s hs (by rw [hopv]; exact dev65org16.instruct_33) (by rw [hopv]; rfl)
  · exact step_undeclared _ hc _ s hs (by rw [hopv]; exact dev65org16.instruct_34) (by rw [hopv]; rfl)
  · exact step_undeclared _ hc _ s hs (by rw [hopv]; exact dev65org16.instruct_37) (by rw [hopv]; rfl)
  · exact step_undeclared _ hc _ s hs (by rw [hopv]; exact dev65org16.instruct_3a) (by rw [hopv]; rfl)
  · exact step_undeclared _ hc _ s hs (by rw [hopv]; exact dev65org16.instruct_3b) (by rw [hopv]; rfl)
  · exact step_undeclared _ hc _ s hs (by rw [hopv]; exact dev65org16.instruct_3c) (by rw [hopv]; rfl)
  · exact step_undeclared _ hc _ s hs (by rw [hopv]; exact dev65org16.instruct_3f) (by rw [hopv]; rfl)
  · exact step_undeclared _ hc _ s hs (by rw [hopv]; exact dev65org16.instruct_42) (by rw [hopv]; rfl)
  · exact step_undeclared _ hc _ s hs (by rw [hopv]; exact dev65org16.instruct_43) (by rw [hopv]; rfl)
  · exact step_undeclared _ hc _ s hs (by rw [hopv]; exact dev65org16.instruct_44) (by rw [hopv]; rfl)
  · exact step_undeclared _ hc _ s hs (by rw [hopv]; exact dev65org16.instruct_47) (by rw [hopv]; rfl)
  · exact step_undeclared _ hc _ s hs (by rw [hopv]; exact dev65org16.instruct_4b) (by rw [hopv]; rfl)
  · exact step_undeclared _ hc _ s hs (by rw [hopv]; exact dev65org16.instruct_4f) (by rw [hopv]; rfl)
  · exact step_undeclared _ hc _ s hs (by rw [hopv]; exact dev65org16.instruct_52) (by rw [hopv]; rfl)
  · exact step_undeclared _ hc _ s hs (by rw [hopv]; exact dev65org16.instruct_53) (by rw [hopv]; rfl)
  · exact step_undeclared _ hc _ s hs (by rw [hopv]; exact dev65org16.instruct_54) (by rw [hopv]; rfl)
  · exact step_undeclared _ hc _ s hs (by rw [hopv]; exact dev65org16.instruct_57) (by rw [hopv]; rfl)
  · exact step_undeclared _ hc _ s hs (by rw [hopv]; exact dev65org16.instruct_5a) (by rw [hopv]; rfl)
  · exact step_undeclared _ hc _ s hs (by rw [hopv]; exact dev65org16.instruct_5b) (by rw [hopv]; rfl)
  · exact step_undeclared _ hc _ s hs (by rw [hopv]; exact dev65org16.instruct_5c) (by rw [hopv]; rfl)
  · exact step_undeclared _ hc _ s hs (by rw [hopv]; exact dev65org16.instruct_5f) (by rw [hopv]; rfl)
  · exact step_undeclared _ hc _ s hs (by rw [hopv]; exact dev65org16.instruct_62) (by rw [hopv]; rfl)
  · exact step_undeclared _ hc _ s hs (by rw [hopv]; exact dev65org16.instruct_63) (by rw [hopv]; rfl)
  · exact step_undeclared _ hc _ s hs (by rw [hopv]; exact dev65org16.instruct_64) (by rw [hopv]; rfl)
  · exact step_undeclared _ hc _ s hs (by rw [hopv]; exact dev65org16.instruct_67) (by rw [hopv]; rfl)
  · exact step_undeclared _ hc _ s hs (by rw [hopv]; exact dev65org16.instruct_6b) (by rw [hopv]; rfl)
  · exact step_undeclared _ hc _ s hs (by rw [hopv]; exact dev65org16.instruct_6f) (by rw [hopv]; rfl)
  · exact step_undeclared _ hc _ s hs (by rw [hopv]; exact dev65org16.instruct_72) (by rw [hopv]; rfl)
  · exact step_undeclared _ hc _ s hs (by rw [hopv]; exact dev65org16.instruct_73) (by rw [hopv]; rfl)
  · exact step_undeclared _ hc _ s hs (by rw [hopv]; exact dev65org16.instruct_74) (by rw [hopv]; rfl)
  · exact step_undeclared _ hc _ s hs (by rw [hopv]; exact dev65org16.instruct_77) (by rw [hopv]; rfl)
  · exact step_undeclared _ hc _ s hs (by rw [hopv]; exact dev65org16.instruct_7a) (by rw [hopv]; rfl)
  · exact step_undeclared _ hc _ s hs (by rw [hopv]; exact dev65org16.instruct_7b) (by rw [hopv]; rfl)
  · exact step_undeclared _ hc _ s hs (by rw [hopv]; exact dev65org16.instruct_7c) (by rw [hopv]; rfl)
  · exact step_undeclared _ hc _ s hs (by rw [hopv]; exact dev65org16.instruct_7f) (by rw [hopv]; rfl)
  · exact step_undeclared _ hc _ s hs (by rw [hopv]; exact dev65org16.instruct_80) (by rw [hopv]; rfl)
  · exact step_undeclared _ hc _ s hs (by rw [hopv]; exact dev65org16.instruct_82) (by rw [hopv]; rfl)
  · exact step_undeclared _ hc _ s hs (by rw [hopv]; exact dev65org16.instruct_83) (by rw [hopv]; rfl)
  · exact step_undeclared _ hc _ s hs (by rw [hopv]; exact dev65org16.instruct_87) (by rw [hopv]; rfl)
  · exact step_undeclared _ hc _ s hs (by rw [hopv]; exact dev65org16.instruct_89) (by rw [hopv]; rfl)
  · exact step_undeclared _ hc _ s hs (by rw [hopv]; exact dev65org16.instruct_8b) (by rw [hopv]; rfl)
  · exact step_undeclared _ hc _ s hs (by rw [hopv]; exact dev65org16.instruct_8f) (by rw [hopv]; rfl)
  · exact step_undeclared _ hc _ s hs (by rw [hopv]; exact dev65org16.instruct_92) (by rw [hopv]; rfl)
  · exact step_undeclared _ hc _ s hs (by rw [hopv]; exact dev65org16.instruct_93) (by rw [hopv]; rfl)
  · exact step_undeclared _ hc _ s hs (by rw [hopv]; exact dev65org16.instruct_97) (by rw [hopv]; rfl)
  · exact step_undeclared _ hc _ s hs (by rw [hopv]; exact dev65org16.instruct_9b) (by rw [hopv]; rfl)
  · exact step_undeclared _ hc _ s hs (by rw [hopv]; exact dev65org16.instruct_9c) (by rw [hopv]; rfl)
  · exact step_undeclared _ hc _ s hs (by rw [hopv]; exact dev65org16.instruct_9e) (by rw [hopv]; rfl)
  · exact step_undeclared _ hc _ s hs (by rw [hopv]; exact dev65org16.instruct_9f) (by rw [hopv]; rfl)
  · exact step_undeclared _ hc _ s hs (by rw [hopv]; exact dev65org16.instruct_a3) (by rw [hopv]; rfl)
  · exact step_undeclared _ hc _ s hs (by rw [hopv]; exact dev65org16.instruct_a7) (by rw [hopv]; rfl)
  · exact step_undeclared _ hc _ s hs (by rw [hopv]; exact dev65org16.instruct_ab) (by rw [hopv]; rfl)
  · exact step_undeclared _ hc _ s hs (by rw [hopv]; exact dev65org16.instruct_af) (by rw [hopv]; rfl)
  · exact step_undeclared _ hc _ s hs (by rw [hopv]; exact dev65org16.instruct_b2) (by rw [hopv]; rfl)
  · exact step_undeclared _ hc _ s hs (by rw [hopv]; exact dev65org16.instruct_b3) (by rw [hopv]; rfl)
  · exact step_undeclared _ hc _ s hs (by rw [hopv]; exact dev65org16.instruct_b7) (by rw [hopv]; rfl)
  · exact step_undeclared _ hc _ s hs (by rw [hopv]; exact dev65org16.instruct_bb) (by rw [hopv]; rfl)
  · exact step_undeclared _ hc _ s hs (by rw [hopv]; exact dev65org16.instruct_bf) (by rw [hopv]; rfl)
  · exact step_undeclared _ hc _ s hs (by rw [hopv]; exact dev65org16.instruct_c2) (by rw [hopv]; rfl)
  · exact step_undeclared _ hc _ s hs (by rw [hopv]; exact dev65org16.instruct_c3) (by rw [hopv]; rfl)
  · exact step_undeclared _ hc _ s hs (by rw [hopv]; exact dev65org16.instruct_c7) (by rw [hopv]; rfl)
  · exact step_undeclared _ hc _ s hs (by rw [hopv]; exact dev65org16.instruct_cb) (by rw [hopv]; rfl)
  · exact step_undeclared _ hc _ s hs (by rw [hopv]; exact dev65org16.instruct_cf) (by rw [hopv]; rfl)
  · exact step_undeclared _ hc _ s hs (by rw [hopv]; exact dev65org16.instruct_d2) (by rw [hopv]; rfl)
  · exact step_undeclared _ hc _ s hs (by rw [hopv]; exact dev65org16.instruct_d3) (by rw [hopv]; rfl)
  · exact step_undeclared _ hc _ s hs (by rw [hopv]; exact dev65org16.instruct_d4) (by rw [hopv]; rfl)
  · exact step_undeclared _ hc _ s hs (by rw [hopv]; exact dev65org16.instruct_d7) (by rw [hopv]; rfl)
  · exact step_undeclared _ hc _ s hs (by rw [hopv]; exact dev65org16.instruct_da) (by rw [hopv]; rfl)
  · exact step_undeclared _ hc _ s hs (by rw [hopv]; exact dev65org16.instruct_db) (by rw [hopv]; rfl)
  · exact step_undeclared _ hc _ s hs (by rw [hopv]; exact dev65org16.instruct_dc) (by rw [hopv]; rfl)
  · exact step_undeclared _ hc _ s hs (by rw [hopv]; exact dev65org16.instruct_df) (by rw [hopv]; rfl)
  · exact step_undeclared _ hc _ s hs (by rw [hopv]; exact dev65org16.instruct_e2) (by rw [hopv]; rfl)
  · exact step_undeclared _ hc _ s hs (by rw [hopv]; exact dev65org16.instruct_e3) (by rw [hopv]; rfl)
  · exact step_undeclared _ hc _ s hs (by rw [hopv]; exact dev65org16.instruct_e7) (by rw [hopv]; rfl)
  · exact step_undeclared _ hc _ s hs (by rw [hopv]; exact dev65org16.instruct_eb) (by rw [hopv]; rfl)
  · exact step_undeclared _ hc _ s hs (by rw [hopv]; exact dev65org16.instruct_ef) (by rw [hopv]; rfl)
  · exact step_undeclared _ hc _ s hs (by rw [hopv]; exact dev65org16.instruct_f2) (by rw [hopv]; rfl)
  · exact step_undeclared _ hc _ s hs (by rw [hopv]; exact dev65org16.instruct_f3) (by rw [hopv]; rfl)
  · exact step_undeclared _ hc _ s hs (by rw [hopv]; exact dev65org16.instruct_f4) (by rw [hopv]; rfl)
  · exact step_undeclared _ hc _ s hs (by rw [hopv]; exact dev65org16.instruct_f7) (by rw [hopv]; rfl)
  · exact step_undeclared _ hc _ s hs (by rw [hopv]; exact dev65org16.instruct_fa) (by rw [hopv]; rfl)
  · exact step_undeclared _ hc _ s hs (by rw [hopv]; exact dev65org16.instruct_fb) (by rw [hopv]; rfl)
  · exact step_undeclared _ hc _ s hs (by rw [hopv]; exact dev65org16.instruct_fc) (by rw [hopv]; rfl)
  · exact step_undeclared _ hc _ s hs (by rw [hopv]; exact dev65org16.instruct_ff) (by rw [hopv]; rfl)

def undeclaredL_dev65c02 : List Int := [2, 3, 11, 15, 19, 27, 31, 34, 35, 43, 47, 51, 59, 63, 66, 67, 68, 75, 79, 83, 84, 91, 92, 95, 98, 99, 107, 111, 115, 123, 127, 130, 131, 139, 143, 147, 155, 159, 163, 171, 175, 179, 187, 191, 194, 195, 207, 211, 212, 219, 220, 223, 226, 227, 235, 239, 243, 244, 251, 252, 255]

theorem undeclared_list_dev65c02 : ∀ n : Fin 256, decode .cmos (Int.ofNat n.val) = none → Int.ofNat n.val ∈ undeclaredL_dev65c02 := by
  decide +kernel

theorem undeclared_dev65c02 (s : St) (hs : WF dev65c02.cfg s) (hw : s.waiting = false)
    (hop : 0 ≤ s.mem s.pc ∧ s.mem s.pc < 256) (hd : decode .cmos (s.mem s.pc) = none) :
    core (dev65c02.step s) = { core s with pc := (s.pc + 2) % AM 8 } ∧ (dev65c02.step s).cycles = s.cycles := by
  have hstep : dev65c02.step s = Mpu6502.step dev65c02.cfg dev65c02.tbl s := by simp only [dev65c02.step, Mpu65c02.step, hw]; rfl
  rw [hstep]
  have hc : IsDev dev65c02.cfg := Or.inl rfl
  obtain ⟨n, hn⟩ : ∃ n : Fin 256, Int.ofNat n.val = s.mem s.pc := by
    refine ⟨⟨(s.mem s.pc).toNat, by omega⟩, ?_⟩
    simp only [Int.ofNat_eq_natCast]; omega
  have hm := undeclared_list_dev65c02 n (hn ▸ hd)
  rw [hn] at hm
  generalize hopv : s.mem s.pc = op at hm
  simp only [undeclaredL_dev65c02, List.mem_cons, List.mem_nil_iff, or_false] at hm
  rcases hm with rfl | rfl | rfl | rfl | rfl | rfl | rfl | rfl | rfl | rfl | rfl | rfl | rfl | rfl | rfl | rfl | rfl | rfl | rfl | rfl | rfl | rfl | rfl | rfl | rfl | rfl | rfl | rfl | rfl | rfl | rfl | rfl | rfl | rfl | rfl | rfl | rfl | rfl | rfl | rfl | rfl | rfl | rfl | rfl | rfl | rfl | rfl | rfl | rfl | rfl | rfl | rfl | rfl | rfl | rfl | rfl | rfl | rfl | rfl | rfl | rfl
  · exact step_undeclared _ hc _ s hs (by rw [hopv]; exact dev65c02.instruct_02) (by rw [hopv]; rfl)
  · exact step_undeclared _ hc _ s hs (by rw [hopv]; exact dev65c02.instruct_03) (by rw [hopv]; rfl)
  · exact step_undeclared _ hc _ s hs (by rw [hopv]; exact dev65c02.instruct_0b) (by rw [hopv]; rfl)
  · exact step_undeclared _ hc _ s hs (by rw [hopv]; exact dev65c02.instruct_0f) (by rw [hopv]; rfl)
  · exact step_undeclared _ hc _ s hs (by rw [hopv]; exact dev65c02.instruct_13) (by rw [hopv]; rfl)
  · exact step_undeclared _ hc _ s hs (by rw [hopv]; exact dev65c02.instruct_1b) (by rw [hopv]; rfl)
  · exact step_undeclared _ hc _ s hs (by rw [hopv]; exact dev65c02.instruct_1f) (by rw [hopv]; rfl)
  · exact step_undeclared _ hc _ s hs (by rw [hopv]; exact dev65c02.instruct_22) (by rw [hopv]; rfl)
  · exact step_undeclared _ hc _ s hs (by rw [hopv]; exact dev65c02.instruct_23) (by rw [hopv]; rfl)
  · exact step_undeclared _ hc _ s hs (by rw [hopv]; exact dev65c02.instruct_2b) (by rw [hopv]; rfl)
  · exact step_undeclared _ hc _ s hs (by rw [hopv]; exact dev65c02.instruct_2f) (by rw [hopv]; rfl)
  · exact step_undeclared _ hc _ s hs (by rw [hopv]; exact dev65c02.instruct_33) (by rw [hopv]; rfl)
  · exact step_undeclared _ hc _ s hs (by rw [hopv]; exact dev65c02.instruct_3b) (by rw [hopv]; rfl)
  · exact step_undeclared _ hc _ s hs (by rw [hopv]; exact dev65c02.instruct_3f) (by rw [hopv]; rfl)
  · exact step_undeclared _ hc _ s hs (by rw [hopv]; exact dev65c02.instruct_42) (by rw [hopv]; rfl)
  · exact step_undeclared _ hc _ s hs (by rw [hopv]; exact dev65c02.instruct_43) (by rw [hopv]; rfl)
  · exact step_undeclared _ hc _ s hs (by rw [hopv]; exact dev65c02.instruct_44) (by rw [hopv]; rfl)
  · exact step_undeclared _ hc _ s hs (by rw [hopv]; exact dev65c02.instruct_4b) (by rw [hopv]; rfl)
  · exact step_undeclared _ hc _ s hs (by rw [hopv]; exact dev65c02.instruct_4f) (by rw [hopv]; rfl)
  · exact step_undeclared _ hc _ s hs (by rw [hopv]; exact dev65c02.instruct_53) (by rw [hopv]; rfl)
  · exact step_undeclared _ hc _ s hs (by rw [hopv]; exact dev65c02.instruct_54) (by rw [hopv]; rfl)
  · exact step_undeclared _ hc _ s hs (by rw [hopv]; exact dev65c02.instruct_5b) (by rw [hopv]; rfl)
  · exact step_undeclared _ hc _ s hs (by rw [hopv]; exact dev65c02.instruct_5c) (by rw [hopv]; rfl)
  · exact step_undeclared _ hc _ s hs (by rw [hopv]; exact dev65c02.instruct_5f) (by rw [hopv]; rfl)
  · exact step_undeclared _ hc _ s hs (by rw [hopv]; exact dev65c02.instruct_62) (by rw [hopv]; rfl)
  · exact step_undeclared _ hc _ s hs (by rw [hopv]; exact dev65c02.instruct_63) (by rw [hopv]; rfl)
  · exact step_undeclared _ hc _ s hs (by rw [hopv]; exact dev65c02.instruct_6b) (by rw [hopv]; rfl)
  · exact step_undeclared _ hc _ s hs (by rw [hopv]; exact dev65c02.instruct_6f) (by rw [hopv]; rfl)
  · exact step_undeclared _ hc _ s hs (by rw [hopv]; exact dev65c02.instruct_73) (by rw [hopv]; rfl)
  · exact step_undeclared _ hc _ s hs (by rw [hopv]; exact dev65c02.instruct_7b) (by rw [hopv]; rfl)
  · exact step_undeclared _ hc _ s hs (by rw [hopv]; exact dev65c02.instruct_7f) (by rw [hopv]; rfl)
  · exact step_undeclared _ hc _ s hs (by rw [hopv]; exact dev65c02.instruct_82) (by rw [hopv]; rfl)
  · exact step_undeclared _ hc _ s hs (by rw [hopv]; exact dev65c02.instruct_83) (by rw [hopv]; rfl)
  · exact step_undeclared _ hc _ s hs (by rw [hopv]; exact dev65c02.instruct_8b) (by rw [hopv]; rfl)
  · exact step_undeclared _ hc _ s hs (by rw [hopv]; exact dev65c02.instruct_8f) (by rw [hopv]; rfl)
  · exact step_undeclared _ hc _ s hs (by rw [hopv]; exact dev65c02.instruct_93) (by rw [hopv]; rfl)
  · exact step_undeclared _ hc _ s hs (by rw [hopv]; exact dev65c02.instruct_9b) (by rw [hopv]; rfl)
  · exact step_undeclared _ hc _ s hs (by rw [hopv]; exact dev65c02.instruct_9f) (by rw [hopv]; rfl)
  · exact step_undeclared _ hc _ s hs (by rw [hopv]; exact dev65c02.instruct_a3) (by rw [hopv]; rfl)
  · exact step_undeclared _ hc _ s hs (by rw [hopv]; exact dev65c02.instruct_ab) (by rw [hopv]; rfl)
  · exact step_undeclared _ hc _ s hs (by rw [hopv]; exact dev65c02.instruct_af) (by rw [hopv]; rfl)
  · exact step_undeclared _ hc _ s hs (by rw [hopv]; exact dev65c02.instruct_b3) (by rw [hopv]; rfl)
  · exact step_undeclared _ hc _ s hs (by rw [hopv]; exact dev65c02.instruct_bb) (by rw [hopv]; rfl)
  · exact step_undeclared _ hc _ s hs (by rw [hopv]; exact dev65c02.instruct_bf) (by rw [hopv]; rfl)
  · exact step_undeclared _ hc _ s hs (by rw [hopv]; exact dev65c02.instruct_c2) (by rw [hopv]; rfl)
  · exact step_undeclared _ hc _ s hs (by rw [hopv]; exact dev65c02.instruct_c3) (by rw [hopv]; rfl)
  · exact step_undeclared _ hc _ s hs (by rw [hopv]; exact dev65c02.instruct_cf) (by rw [hopv]; rfl)
  · exact step_undeclared _ hc _ s hs (by rw [hopv]; exact dev65c02.instruct_d3) (by rw [hopv]; rfl)
  · exact step_undeclared _ hc _ s hs (by rw [hopv]; exact dev65c02.instruct_d4) (by rw [hopv]; rfl)
  · exact step_undeclared _ hc _ s hs (by rw [hopv]; exact dev65c02.instruct_db) (by rw [hopv]; rfl)
  · exact step_undeclared _ hc _ s hs (by rw [hopv]; exact dev65c02.instruct_dc) (by rw [hopv]; rfl)
  · exact step_undeclared _ hc _ s hs (by rw [hopv]; exact dev65c02.instruct_df) (by rw [hopv]; rfl)
  · exact step_undeclared _ hc _ s hs (by rw [hopv]; exact dev65c02.instruct_e2) (by rw [hopv]; rfl)
  · exact step_undeclared _ hc _ s hs (by rw [hopv]; exact dev65c02.instruct_e3) (by rw [hopv]; rfl)
  · exact step_undeclared _ hc _ s hs (by rw [hopv]; exact dev65c02.instruct_eb) (by rw [hopv]; rfl)
  · exact step_undeclared _ hc _ s hs (by rw [hopv]; exact dev65c02.instruct_ef) (by rw [hopv]; rfl)
  · exact step_undeclared _ hc _ s hs (by rw [hopv]; exact dev65c02.instruct_f3) (by rw [hopv]; rfl)
  · exact step_undeclared _ hc _ s hs (by rw [hopv]; exact dev65c02.instruct_f4) (by rw [hopv]; rfl)
  · exact step_undeclared _ hc _ s hs (by rw [hopv]; exact dev65c02.instruct_fb) (by rw [hopv]; rfl)
  · exact step_undeclared _ hc _ s hs (by rw [hopv]; exact dev65c02.instruct_fc) (by rw [hopv]; rfl)
  · exact step_undeclared _ hc _ s hs (by rw [hopv]; exact dev65c02.instruct_ff) (by rw [hopv]; rfl)

/-- irq() and nmi() leave a well-formed state (registers in the byte, PC in the address space,
cells in the byte): from the entry theorems of C06 and the specification's own arithmetic. -/
theorem closed_nmi_pc (c : Cfg) (hc : IsDev c) (s : St) (hs : WF c s) (hw : s.waiting = false) :
    0 ≤ (Mpu6502.nmi c s).pc ∧ (Mpu6502.nmi c s).pc ≤ c.addrMask := by
  have h := congrArg AState.pc (nmi_sem c hc s hs hw)
  have h1 := hs.mem nmiVector
  have h2 := hs.mem (nmiVector + 1)
  simp only [abs, core, Spec.nmi, interrupt, word] at h
  rw [h]
  rcases hc with rfl | rfl <;> (constfold at h1 h2 ⊢; simp only [nmiVector] at h1 h2 ⊢; omega)

theorem closed_reset (c : Cfg) (hc : IsDev c) (s : St) (hs : WF c s) (a : Int)
    (ha : 0 ≤ a ∧ a ≤ c.addrMask) : WF c (Mpu6502.reset_at c a s) := by
  refine ⟨?_, ?_, ?_, ?_, ?_, ha, hs.mem⟩ <;>
    (rcases hc with rfl | rfl <;> simp [Mpu6502.reset_at] <;> decide)

/-- PC stays inside the address space after EVERY step(), whatever the opcode byte and handler do
(the final mask in step()), on both configurations. -/
theorem pc_closed (c : Cfg) (hc : IsDev c) (t : Tbl) (s : St) :
    0 ≤ (Mpu6502.step c t s).pc ∧ (Mpu6502.step c t s).pc ≤ c.addrMask := by
  rw [step_unfold]
  rcases hc with rfl | rfl <;>
  · constfold
    simp only [pyarith]
    omega

end Py65.Props.C05
