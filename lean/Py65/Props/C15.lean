/-
C15 -- Address parsing is exact, bounded and fails only with KeyError/OverflowError.

Property statements only (helper lemmas: Py65/Proofs/NumLemmas.lean), about the hand model
`Py65.Model.AddrParser` of `py65/utils/addressing.py`, for EVERY width (in particular 16, 24, 32),
every `n` (digit-list induction, not enumeration), every number of leading zeros and every mixture
of letter cases.  `spelling b z m n` = `z` zeros followed by the base-`b` digits of `n` with the
letter cases chosen by the mask `m`.  Beside each theorem a non-vacuity `example`.

One thing the code does NOT do, stated as a theorem of its own so that the exclusion is not wider
than the deviation:
  * `num_dec_digit_limit` -- a decimal spelling with more than 4300 digits is a `KeyError`
    (CPython's `int` digit limit, `sys.get_int_max_str_digits()`), so `num_dec` and the radix-10
    case of `num_bare` carry the bound `z + digits ≤ 4300` on the length of the digit string;
    bases 16, 8 and 2 have no bound.  (Trusted base: the limit is CPython's default.)

History: on the tree before "fix: label+offset / label-offset accept offsets with hex digits" the
offset group was `[$+%]?\d+` and `label+$1a` was a `KeyError` (replays/C15-F7-prefix.json); the model
then had `offsetClass = isDigit` and this file proved the deviation.  With the repaired pattern
`num_label_offset_spellings` holds at full strength for all four spelling kinds.
-/
import Py65.Proofs.NumLemmas

namespace Py65.Props.C15
open Py65.Model Py65.Model.PyStr Py65.Model.AddrParser Py65.Proofs.Num

private theorem maxaddr_of_lt {P : Parser} {n : Nat} (hn : n < 2 ^ P.width) :
    (0 : Int) ≤ (n : Int) ∧ (n : Int) ≤ P.maxaddr := by
  have : (n : Int) < (2 : Int) ^ P.width := by exact_mod_cast hn
  unfold Parser.maxaddr
  omega

private theorem maxaddr_of_ge {P : Parser} {n : Nat} (hn : 2 ^ P.width ≤ n) :
    ((n : Int) < 0 ∨ P.maxaddr < (n : Int)) := by
  have : (2 : Int) ^ P.width ≤ (n : Int) := by exact_mod_cast hn
  unfold Parser.maxaddr
  omega

/-! ### every supported spelling parses back to `n` -/

/-- `$hex`: any number of leading zeros, any letter case, any width. -/
theorem num_hex (P : Parser) (n z : Nat) (m : List Bool) (hn : n < 2 ^ P.width) :
    number P ("$" ++ String.ofList (spelling 16 z m n)) = .ok n := by
  have h := pyIntL_spelling (b := 16) (by decide) (by decide) z m n (Or.inl rfl)
  have hb := maxaddr_of_lt hn
  simp only [number, String.toList_append, String.toList_ofList]
  show numberL P ('$' :: spelling 16 z m n) = _
  rw [(numberL_prefix P _).1, h]
  exact constrain_in hb.1 hb.2

example : number P16 "$00fF" = .ok 255 := by
  have h : spelling 16 2 [false, true] 255 = "00fF".toList := by
    simp [spelling, toDigits, mixCase, digitChar, upper]
  have := num_hex P16 255 2 [false, true] (by decide)
  rwa [h, String.ofList_toList] at this
example : number P24 "$fffFFF" = .ok 16777215 := by decide
example : number P32 "$0000ffffffff" = .ok 4294967295 := by decide

/-- `+decimal`; CPython refuses more than 4300 decimal digits (`num_dec_digit_limit`). -/
theorem num_dec (P : Parser) (n z : Nat) (hn : n < 2 ^ P.width)
    (hlim : z + (toDigits 10 n).length ≤ 4300) :
    number P ("+" ++ String.ofList (spelling 10 z [] n)) = .ok n := by
  have h := pyIntL_spelling (b := 10) (by decide) (by decide) z [] n (Or.inr hlim)
  have hb := maxaddr_of_lt hn
  simp only [number, String.toList_append, String.toList_ofList]
  show numberL P ('+' :: spelling 10 z [] n) = _
  rw [(numberL_prefix P _).2.1, h]
  exact constrain_in hb.1 hb.2

/-- For every address of a parser up to 64 bits the digit bound of `num_dec` holds with up to 4000
leading zeros. -/
theorem num_dec_limit_ok (n z w : Nat) (hw : w ≤ 64) (hn : n < 2 ^ w) (hz : z ≤ 4000) :
    z + (toDigits 10 n).length ≤ 4300 := by
  have h1 : n < 10 ^ (19 + 1) := by
    have : 2 ^ w ≤ 2 ^ 64 := Nat.pow_le_pow_right (by decide) hw
    have : (2 : Nat) ^ 64 < 10 ^ (19 + 1) := by decide
    omega
  have := toDigits_length_le (b := 10) (by decide) 19 n h1
  omega

example : number P16 "+0065535" = .ok 65535 := by decide
example : number P24 "+16777215" = .ok 16777215 := by decide
example : ∃ n z, n < 2 ^ P32.width ∧ z + (toDigits 10 n).length ≤ 4300 :=
  ⟨4294967295, 4000, by decide, num_dec_limit_ok _ _ 32 (by decide) (by decide) (by decide)⟩

/-- A decimal spelling with more than 4300 digits is a `KeyError` (CPython's digit limit). -/
theorem num_dec_digit_limit (P : Parser) (n z : Nat) (hlim : 4300 < z + (toDigits 10 n).length) :
    number P ("+" ++ String.ofList (spelling 10 z [] n)) = .key := by
  obtain ⟨h1, h2, _, h4⟩ := spelling_spec (b := 10) (by decide) (by decide) z [] n
  have h := pyIntL_digits_limit (b := 10) (by decide) (by decide) h1 h2 rfl (by rw [h4]; exact hlim)
  simp only [number, String.toList_append, String.toList_ofList]
  show numberL P ('+' :: spelling 10 z [] n) = _
  rw [(numberL_prefix P _).2.1, h]
  rfl

example : 4300 < 4300 + (toDigits 10 7).length := by
  have := toDigits_ne_nil 10 7
  have : 0 < (toDigits 10 7).length := List.length_pos_iff.mpr this
  omega

/-- `%binary` -/
theorem num_bin (P : Parser) (n z : Nat) (hn : n < 2 ^ P.width) :
    number P ("%" ++ String.ofList (spelling 2 z [] n)) = .ok n := by
  have h := pyIntL_spelling (b := 2) (by decide) (by decide) z [] n (Or.inl rfl)
  have hb := maxaddr_of_lt hn
  simp only [number, String.toList_append, String.toList_ofList]
  show numberL P ('%' :: spelling 2 z [] n) = _
  rw [(numberL_prefix P _).2.2, h]
  exact constrain_in hb.1 hb.2

example : number P16 "%0001111111111111111" = .ok 65535 := by decide
example : number P32 "%101" = .ok 5 := by decide

/-- Bare digits in the default radix 16 / 10 / 8 / 2, when that digit string is not a label. -/
theorem num_bare (P : Parser) (n z : Nat) (m : List Bool)
    (hr : P.radix = 16 ∨ P.radix = 10 ∨ P.radix = 8 ∨ P.radix = 2) (hn : n < 2 ^ P.width)
    (hlim : P.radix = 10 → z + (toDigits 10 n).length ≤ 4300)
    (hnl : lookup P.labels (spelling P.radix z m n) = none) :
    number P (String.ofList (spelling P.radix z m n)) = .ok n := by
  have hb2 : 2 ≤ P.radix := by omega
  have hb36 : P.radix ≤ 36 := by omega
  obtain ⟨h1, h2, _, _⟩ := spelling_spec hb2 hb36 z m n
  have hlim' : isPow2Base P.radix = true ∨ z + (toDigits P.radix n).length ≤ maxStrDigits := by
    rcases hr with h | h | h | h
    · left; rw [h]; rfl
    · right; rw [h]; exact hlim h
    · left; rw [h]; rfl
    · left; rw [h]; rfl
  have h := pyIntL_spelling hb2 hb36 z m n hlim'
  have hb := maxaddr_of_lt hn
  have hnp : NoPrefix (spelling P.radix z m n) := by
    apply noPrefix_of_head
    intro c hc
    have : c ∈ spelling P.radix z m n := List.mem_of_mem_head? hc
    exact (h2 c this).alnum.notpre
  have hmo : matchOffset (spelling P.radix z m n) = none :=
    matchOffset_none_of_label (fun c hc => (h2 c hc).alnum.label)
  simp only [number, String.toList_ofList]
  rw [numberL_bare P hnp hnl hmo, h]
  exact constrain_in hb.1 hb.2

example : number P16 "00Ff" = .ok 255 := by decide
example : number P24 "0016777215" = .ok 16777215 := by decide
example : number P32 "37777777777" = .ok 4294967295 := by decide
example : number { P16 with radix := 2 } "0101" = .ok 5 := by decide
example : lookup P16.labels "00Ff".toList = none := by decide

/-- A defined label (whose name is not taken by a number prefix) parses to its address. -/
theorem num_label (P : Parser) (l : String) (a : Int) (hp : NoPrefix l.toList)
    (hl : lookup P.labels l.toList = some a) : number P l = .ok a :=
  numberL_label P hp hl

example : number P16 "foo" = .ok 0xc000 := by decide
example : NoPrefix "foo".toList ∧ lookup P16.labels "foo".toList = some 0xc000 := by decide

/-! ### label ± offset -/

/-- `label+offset` / `label-offset` (blanks allowed around the sign) is the arithmetic result put
through `_constrain`, for every offset `sp` the pattern accepts with `number sp = ok m`.
`b1`, `b2` are runs of blanks; the whole string must not itself be a label. -/
theorem num_label_offset (P : Parser) (l b1 b2 sp : String) (sign : Char) (a m : Int)
    (hl : l.toList ≠ []) (hlc : ∀ c ∈ l.toList, isLabelChar c = true) (hlp : NoPrefix l.toList)
    (hb1 : ∀ c ∈ b1.toList, isReSpace c = true) (hb2 : ∀ c ∈ b2.toList, isReSpace c = true)
    (hs : sign = '+' ∨ sign = '-') (hsp : OffsetPat sp.toList)
    (hwhole : lookup P.labels (l ++ b1 ++ String.singleton sign ++ b2 ++ sp).toList = none)
    (ha : lookup P.labels l.toList = some a) (hm : number P sp = .ok m) :
    number P (l ++ b1 ++ String.singleton sign ++ b2 ++ sp)
      = constrain P (if sign = '+' then a + m else a - m) := by
  obtain ⟨pre, ds, hspe, hpre, hds, hdc⟩ := hsp
  have hmo := matchOffset_compose (l := l.toList) (ws1 := b1.toList) (ws2 := b2.toList) (pre := pre)
    (ds := ds) (tail := []) (sign := sign) hl hlc hb1 hb2 hs hpre hds hdc (Or.inl rfl)
  have hstr : (l ++ b1 ++ String.singleton sign ++ b2 ++ sp).toList
      = l.toList ++ (b1.toList ++ sign :: (b2.toList ++ (pre ++ (ds ++ [])))) := by
    simp [String.toList_append, hspe]
  have hnp : NoPrefix (l ++ b1 ++ String.singleton sign ++ b2 ++ sp).toList := by
    rw [hstr]
    obtain ⟨c, r, hcr⟩ := List.exists_cons_of_ne_nil hl
    rw [hcr] at hlp ⊢
    exact hlp
  rw [hstr] at hwhole hnp
  have hm' : numberL P (pre ++ ds) = .ok m := by
    have : number P sp = numberL P (pre ++ ds) := by simp [number, hspe]
    rw [← this]; exact hm
  simp only [number]
  rw [hstr, numberL_offset P hnp hwhole hmo, ha]
  simp only [hm']

example : number P16 "foo+$10" = .ok 0xc010 := by decide
example : number P16 "foo  -\t+16" = .ok 0xbff0 := by decide
example : number P16 "ten-11" = .overflow := by decide    -- 10 - 17 < 0
example : OffsetPat "$10".toList :=
  ⟨['$'], ['1', '0'], by decide, Or.inr ⟨'$', rfl, by decide⟩, by decide, by decide⟩

/-- The inner failure of the offset, and an unknown label, propagate. -/
theorem num_label_offset_err (P : Parser) (l b1 b2 sp : String) (sign : Char)
    (hl : l.toList ≠ []) (hlc : ∀ c ∈ l.toList, isLabelChar c = true) (hlp : NoPrefix l.toList)
    (hb1 : ∀ c ∈ b1.toList, isReSpace c = true) (hb2 : ∀ c ∈ b2.toList, isReSpace c = true)
    (hs : sign = '+' ∨ sign = '-') (hsp : OffsetPat sp.toList)
    (hwhole : lookup P.labels (l ++ b1 ++ String.singleton sign ++ b2 ++ sp).toList = none) :
    (lookup P.labels l.toList = none →
      number P (l ++ b1 ++ String.singleton sign ++ b2 ++ sp) = .key) ∧
    (∀ a, lookup P.labels l.toList = some a → number P sp = .key →
      number P (l ++ b1 ++ String.singleton sign ++ b2 ++ sp) = .key) ∧
    (∀ a, lookup P.labels l.toList = some a → number P sp = .overflow →
      number P (l ++ b1 ++ String.singleton sign ++ b2 ++ sp) = .overflow) := by
  obtain ⟨pre, ds, hspe, hpre, hds, hdc⟩ := hsp
  have hmo := matchOffset_compose (l := l.toList) (ws1 := b1.toList) (ws2 := b2.toList) (pre := pre)
    (ds := ds) (tail := []) (sign := sign) hl hlc hb1 hb2 hs hpre hds hdc (Or.inl rfl)
  have hstr : (l ++ b1 ++ String.singleton sign ++ b2 ++ sp).toList
      = l.toList ++ (b1.toList ++ sign :: (b2.toList ++ (pre ++ (ds ++ [])))) := by
    simp [String.toList_append, hspe]
  have hnp : NoPrefix (l ++ b1 ++ String.singleton sign ++ b2 ++ sp).toList := by
    rw [hstr]
    obtain ⟨c, r, hcr⟩ := List.exists_cons_of_ne_nil hl
    rw [hcr] at hlp ⊢
    exact hlp
  rw [hstr] at hwhole hnp
  have hnum : number P sp = numberL P (pre ++ ds) := by simp [number, hspe]
  simp only [number] at hnum ⊢
  rw [hstr, numberL_offset P hnp hwhole hmo]
  refine ⟨?_, ?_, ?_⟩
  · intro h; simp only [h]
  · intro a h h2; rw [hnum] at h2; simp only [h, h2]
  · intro a h h2; rw [hnum] at h2; simp only [h, h2]

example : number P16 "bar+1" = .key := by decide
example : number P16 "foo+$10000" = .overflow := by decide
example : number P16 "foo+%2" = .key := by decide

/-- Every supported spelling is accepted by the offset group `[$+%]?[0-9a-fA-F]+` of the pattern:
an optional prefix and the digits of any base up to 16, with leading zeros, in any letter case. -/
theorem offset_spellings (b z : Nat) (m : List Bool) (n : Nat) (pre : Str)
    (hb : 2 ≤ b) (hb16 : b ≤ 16)
    (hpre : pre = [] ∨ pre = ['$'] ∨ pre = ['+'] ∨ pre = ['%']) :
    OffsetPat (pre ++ spelling b z m n) := by
  obtain ⟨h1, h2, _, _⟩ := spelling_spec hb (by omega) z m n
  refine ⟨pre, spelling b z m n, rfl, ?_, h1, ?_⟩
  · rcases hpre with h | h | h | h
    · exact Or.inl h
    · exact Or.inr ⟨'$', h, by decide⟩
    · exact Or.inr ⟨'+', h, by decide⟩
    · exact Or.inr ⟨'%', h, by decide⟩
  · intro c hc
    obtain ⟨d, hd, hlt⟩ := h2 c hc
    exact isDig16_offsetClass ⟨d, hd, by omega⟩

example : OffsetPat (['$'] ++ spelling 16 1 [true] 26) :=
  offset_spellings 16 1 [true] 26 ['$'] (by decide) (by decide) (by simp)
example : (['$'] ++ spelling 16 1 [false, true] 26) = "$01A".toList := by
  simp [spelling, toDigits, mixCase, digitChar, upper]

/-- Full strength of "label±offset for every offset spelling that is itself a valid number":
with `label = a` and `m < 2^width`, `label ± <any supported spelling of m>` (blanks allowed around
the sign) is `_constrain(a ± m)`.  The four conjuncts are `$hex`, `+decimal`, `%binary` and bare
digits in the default radix; each needs the whole string not to be a label itself, the bare form
also that the digit string is not a label (then the label's address would be the offset). -/
theorem num_label_offset_spellings (P : Parser) (l b1 b2 : String) (sign : Char) (a : Int)
    (m z : Nat) (mask : List Bool)
    (hl : l.toList ≠ []) (hlc : ∀ c ∈ l.toList, isLabelChar c = true) (hlp : NoPrefix l.toList)
    (hb1 : ∀ c ∈ b1.toList, isReSpace c = true) (hb2 : ∀ c ∈ b2.toList, isReSpace c = true)
    (hs : sign = '+' ∨ sign = '-') (ha : lookup P.labels l.toList = some a) (hm : m < 2 ^ P.width) :
    let whole := fun (sp : String) => l ++ b1 ++ String.singleton sign ++ b2 ++ sp
    let r := constrain P (if sign = '+' then a + m else a - m)
    (∀ sp, sp = "$" ++ String.ofList (spelling 16 z mask m) →
      lookup P.labels (whole sp).toList = none → number P (whole sp) = r) ∧
    (∀ sp, sp = "+" ++ String.ofList (spelling 10 z [] m) → z + (toDigits 10 m).length ≤ 4300 →
      lookup P.labels (whole sp).toList = none → number P (whole sp) = r) ∧
    (∀ sp, sp = "%" ++ String.ofList (spelling 2 z [] m) →
      lookup P.labels (whole sp).toList = none → number P (whole sp) = r) ∧
    (∀ sp, sp = String.ofList (spelling P.radix z mask m) →
      (P.radix = 16 ∨ P.radix = 10 ∨ P.radix = 8 ∨ P.radix = 2) →
      (P.radix = 10 → z + (toDigits 10 m).length ≤ 4300) →
      lookup P.labels (spelling P.radix z mask m) = none →
      lookup P.labels (whole sp).toList = none → number P (whole sp) = r) := by
  intro whole r
  have key : ∀ sp : String, OffsetPat sp.toList → number P sp = .ok m →
      lookup P.labels (whole sp).toList = none → number P (whole sp) = r :=
    fun sp hsp hnum hw => num_label_offset P l b1 b2 sp sign a m hl hlc hlp hb1 hb2 hs hsp hw ha hnum
  refine ⟨?_, ?_, ?_, ?_⟩
  · rintro sp rfl hw
    refine key _ ?_ (num_hex P m z mask hm) hw
    simpa [String.toList_append] using
      offset_spellings 16 z mask m ['$'] (by decide) (by decide) (by simp)
  · rintro sp rfl hlim hw
    refine key _ ?_ (num_dec P m z hm hlim) hw
    simpa [String.toList_append] using
      offset_spellings 10 z [] m ['+'] (by decide) (by decide) (by simp)
  · rintro sp rfl hw
    refine key _ ?_ (num_bin P m z hm) hw
    simpa [String.toList_append] using
      offset_spellings 2 z [] m ['%'] (by decide) (by decide) (by simp)
  · rintro sp rfl hr hlim hnl hw
    refine key _ ?_ (num_bare P m z mask hr hm hlim hnl) hw
    have := offset_spellings P.radix z mask m [] (by omega) (by omega) (by simp)
    simpa using this

example : number P16 "foo+$1a" = .ok 0xc01a ∧ number P16 "foo - FF" = .ok 0xbf01 ∧
    number P16 "foo++26" = .ok 0xc01a ∧ number P16 "foo-%11010" = .ok 0xbfe6 := by decide
example : lookup P16.labels "foo+$1a".toList = none ∧ lookup P16.labels "1a".toList = none := by decide

/-- What the wider offset class also lets through (it is what `self.number(offset)` does): an
offset made of hex letters that is a label name is taken as that label, and in a radix where it
is not a number it is a `KeyError`. -/
example : number { P16 with labels := [("foo".toList, 0xc000), ("bad".toList, 2)] } "foo+bad" = .ok 0xc002 ∧
    number P24 "foo+ff" = .key ∧ number P16 "foo+bar" = .key := by decide

/-! ### bounds and error kinds -/

/-- Any result lies in `[0, 2^width - 1]` (for a parser whose label table was filled through
`_constrain`, i.e. by `__init__` or by the monitor). -/
theorem num_bounded (P : Parser) (hwf : P.WF) (s : String) (n : Int) (h : number P s = .ok n) :
    0 ≤ n ∧ n < 2 ^ P.width := by
  have := numberL_bounded hwf h
  unfold Parser.maxaddr at this
  omega

example : P16.WF ∧ number P16 "foo-1" = .ok 0xbfff := ⟨exWF 16 16 (by decide), by decide⟩
example : P32.WF := exWF 32 8 (by decide)

/-- No input string makes the model raise anything but `KeyError` / `OverflowError`
(in particular the bound on the recursion depth is never hit). -/
theorem num_errors (P : Parser) (s : String) : number P s ≠ .other :=
  numberL_ne_other P s.toList

/-- The recursion of `number` on the offset never goes deeper than one level. -/
theorem num_fuel (P : Parser) (k : Nat) (s : String) : numberF P (k + 2) s.toList = number P s :=
  numberF_fuel P k s.toList

example : number P16 "a+b-1" = .key ∧ number P16 "+" = .key ∧ number P16 "" = .key := by decide

/-- Values outside the address width raise `OverflowError`: every spelling of an `n ≥ 2^width`,
and every negative value `int()` accepts. -/
theorem num_overflow (P : Parser) (n z : Nat) (m : List Bool) (hn : 2 ^ P.width ≤ n) :
    number P ("$" ++ String.ofList (spelling 16 z m n)) = .overflow ∧
    (z + (toDigits 10 n).length ≤ 4300 →
      number P ("+" ++ String.ofList (spelling 10 z [] n)) = .overflow) ∧
    number P ("%" ++ String.ofList (spelling 2 z [] n)) = .overflow ∧
    number P ("$-" ++ String.ofList (spelling 16 z m (n + 1))) = .overflow := by
  have ho := maxaddr_of_ge hn
  refine ⟨?_, ?_, ?_, ?_⟩
  · have h := pyIntL_spelling (b := 16) (by decide) (by decide) z m n (Or.inl rfl)
    simp only [number, String.toList_append, String.toList_ofList]
    show numberL P ('$' :: spelling 16 z m n) = _
    rw [(numberL_prefix P _).1, h]
    exact constrain_out ho
  · intro hlim
    have h := pyIntL_spelling (b := 10) (by decide) (by decide) z [] n (Or.inr hlim)
    simp only [number, String.toList_append, String.toList_ofList]
    show numberL P ('+' :: spelling 10 z [] n) = _
    rw [(numberL_prefix P _).2.1, h]
    exact constrain_out ho
  · have h := pyIntL_spelling (b := 2) (by decide) (by decide) z [] n (Or.inl rfl)
    simp only [number, String.toList_append, String.toList_ofList]
    show numberL P ('%' :: spelling 2 z [] n) = _
    rw [(numberL_prefix P _).2.2, h]
    exact constrain_out ho
  · obtain ⟨h1, h2, h3, _⟩ := spelling_spec (b := 16) (by decide) (by decide) z m (n + 1)
    have hneg : pyIntL ('-' :: spelling 16 z m (n + 1)) 16 = some (-((n + 1 : Nat) : Int)) :=
      pyIntL_neg_digits (by decide) (by decide) h1 h2 (Or.inl rfl) h3
    simp only [number, String.toList_append, String.toList_ofList]
    show numberL P ('$' :: '-' :: spelling 16 z m (n + 1)) = _
    rw [(numberL_prefix P _).1, hneg]
    apply constrain_out
    left
    omega

example : number P16 "$10000" = .overflow ∧ number P16 "+65536" = .overflow ∧
    number P16 "$-1" = .overflow := by decide

/-- Unknown labels and malformed text raise `KeyError`: after a prefix, whatever `int()` refuses;
without a prefix, any string of label characters (no blank, no sign) that is neither a label nor
a number in the default radix. -/
theorem num_malformed (P : Parser) (s : String) :
    (pyInt s 16 = none → number P ("$" ++ s) = .key) ∧
    (pyInt s 10 = none → number P ("+" ++ s) = .key) ∧
    (pyInt s 2 = none → number P ("%" ++ s) = .key) ∧
    (NoPrefix s.toList → (∀ c ∈ s.toList, isLabelChar c = true) → lookup P.labels s.toList = none →
      pyInt s P.radix = none → number P s = .key) := by
  refine ⟨?_, ?_, ?_, ?_⟩
  · intro h
    simp only [number, String.toList_append]
    show numberL P ('$' :: s.toList) = _
    rw [(numberL_prefix P _).1, show pyIntL s.toList 16 = none from h]; rfl
  · intro h
    simp only [number, String.toList_append]
    show numberL P ('+' :: s.toList) = _
    rw [(numberL_prefix P _).2.1, show pyIntL s.toList 10 = none from h]; rfl
  · intro h
    simp only [number, String.toList_append]
    show numberL P ('%' :: s.toList) = _
    rw [(numberL_prefix P _).2.2, show pyIntL s.toList 2 = none from h]; rfl
  · intro hnp hlc hl h
    simp only [number]
    rw [numberL_bare P hnp hl (matchOffset_none_of_label hlc),
      show pyIntL s.toList P.radix = none from h]
    rfl

example : number P16 "$xyz" = .key ∧ number P16 "nosuch" = .key ∧ number P16 "+1f" = .key ∧
    number P16 "%102" = .key := by decide

/-! ### ranges -/

/-- `range()` returns an ordered pair of in-range addresses, whatever the input form. -/
theorem range_ordered (P : Parser) (hwf : P.WF) (s : String) (a b : Int) (h : range P s = .ok a b) :
    a ≤ b ∧ 0 ≤ a ∧ b < 2 ^ P.width := by
  have := rangeL_ordered hwf h
  unfold Parser.maxaddr at this
  omega

/-- and raises nothing but `KeyError` / `OverflowError`. -/
theorem range_errors (P : Parser) (s : String) : range P s ≠ .other :=
  rangeL_ne_other P s.toList

example : range P16 "$ffff:foo" = .ok 0xc000 0xffff := by decide

/-- The forms `a:b` and `a,b` (any run of separators, blanks after it): both ends are parsed by
`number` -- `a` first -- and the pair is ordered. -/
theorem range_pair (P : Parser) (x seps ws y : String)
    (hx : x.toList ≠ []) (hxc : ∀ c ∈ x.toList, isSep c = false)
    (hs : seps.toList ≠ []) (hsc : ∀ c ∈ seps.toList, isSep c = true)
    (hw : ∀ c ∈ ws.toList, isReSpace c = true)
    (hy : y.toList ≠ []) (hyc : ∀ c ∈ y.toList, isSep c = false)
    (hy0 : ∀ c, y.toList.head? = some c → isReSpace c = false) :
    range P (x ++ seps ++ ws ++ y) =
      match number P x with
      | .ok a =>
        match number P y with
        | .ok b => .ok (min a b) (max a b)
        | .key => .key
        | .overflow => .overflow
        | .other => .other
      | .key => .key
      | .overflow => .overflow
      | .other => .other := by
  have hm := matchRange_compose hx hxc hs hsc hw hy hyc hy0
  have hstr : (x ++ seps ++ ws ++ y).toList = x.toList ++ (seps.toList ++ (ws.toList ++ y.toList)) := by
    simp [String.toList_append]
  simp only [range, number, rangeL, hstr, hm]
  cases numberL P x.toList with
  | ok a =>
    cases numberL P y.toList with
    | ok b =>
      simp only [ordered]
      split
      · rw [Int.min_eq_right (by omega), Int.max_eq_left (by omega)]
      · rw [Int.min_eq_left (by omega), Int.max_eq_right (by omega)]
    | key => rfl
    | overflow => rfl
    | other => rfl
  | key => rfl
  | overflow => rfl
  | other => rfl

example : range P16 "$10:$20" = .ok 16 32 ∧ range P16 "$20,$10" = .ok 16 32 ∧
    range P16 "foo:: +5" = .ok 5 0xc000 := by decide

/-- The single-address form: a string without `:` and `,`. -/
theorem range_single (P : Parser) (s : String) (hs : ∀ c ∈ s.toList, isSep c = false) :
    range P s =
      match number P s with
      | .ok a => .ok a a
      | .key => .key
      | .overflow => .overflow
      | .other => .other := by
  have hm := matchRange_none_of_nosep hs
  simp only [range, number, rangeL, hm]
  cases numberL P s.toList with
  | ok a => simp [ordered]
  | key => rfl
  | overflow => rfl
  | other => rfl

example : range P16 "foo+1" = .ok 0xc001 0xc001 := by decide

/-! ### labels -/

/-- The hypothesis `P.WF` of `num_bounded` / `range_ordered` is what the code maintains: the
constructor puts every label value through `_constrain` (or raises `OverflowError`), and the
monitor's `labels[name] = number(...)` stores a value that `number` returned. -/
theorem parser_wf (w r : Nat) (ls : List (Str × Int)) (P : Parser) (h : Parser.init w r ls = some P) :
    P.WF ∧ P.width = w ∧ P.radix = r ∧
    ∀ (k s : String) (v : Int), number P s = .ok v →
      ({ P with labels := AddrParser.insert P.labels k.toList v } : Parser).WF := by
  obtain ⟨h1, h2, h3⟩ := init_wf w r ls P h
  refine ⟨h1, h2, h3, ?_⟩
  intro k s v hv
  have := numberL_bounded h1 hv
  exact wf_insert h1 _ _ this.1 this.2

example : Parser.init 16 16 exLabels = some P16 := by decide
example : Parser.init 16 16 [("big".toList, 65536)] = none := by decide

/-- `label_for` returns a label bound to that address. -/
theorem label_for_spec (P : Parser) (a : Int) (l : Str) (h : labelFor P a = some l) :
    (l, a) ∈ P.labels := by
  unfold labelFor at h
  split at h
  · rename_i kv hkv
    cases h
    have h1 := List.mem_of_find?_eq_some hkv
    have h2 := List.find?_some hkv
    simp only [beq_iff_eq] at h2
    rw [← h2]
    exact h1
  · cases h

example : labelFor P16 10 = some "ten".toList := by decide

end Py65.Props.C15
