/-
C07g -- the theorems of C07 restated for the GENERATED assembler.

`Py65.Gen.AsmGen` is written by `harness/py2lean_asm.py` from the CURRENT `py65/assembler.py` on every
run of the check (statement-by-statement shallow embedding; library behaviour = the named helpers of
`Py65/Model/AsmRt.lean`).  `Py65/Proofs/AsmGenEq.lean` proves, for ALL arguments,

    assembleG d P s pc = Model.Asm.assembleL d P s pc          (assemble_eq)
    splitG d P s       = Model.Asm.normalizeAndSplit d P s     (normalize_and_split_eq)

where `assembleG` / `splitG` are the generated `assemble` / `normalize_and_split` with their outcome
(bytes / raised exception) written in the hand model's result types.  The statements below are the
property statements of `Props/C07.lean` about those generated functions; each proof is a rewrite with
the two equalities.  Property statements only -- helper lemmas are in Proofs/AsmGenEq.lean,
Proofs/AsmLemmas.lean, AsmText.lean, AsmRound.lean.

The value-level theorems of C07 (`asm_core`, `asm_zp_order`, `asm_abs_form`, `asm_branch`,
`asm_backend_sound`) speak about the back end of `assemble` (template loop, `list.index`, byte swap,
branch arithmetic, top-of-memory check) on the pair (mnemonic text `m`, operand text) that
`normalize_and_split` hands over.  The generated `assemble` is one function, so they are stated here as:
for EVERY statement text `s` that the generated `normalize_and_split` turns into `(m, canonical operand
text of (shape, value))` -- `m` any text, declared mnemonic or not -- the generated `assemble` returns … .
The range refusals of out-of-range values, which C07 packs into `assembleVal`, are those of
`normalize_and_split` and are covered at the text level (`asm_text*`, which hold for every value of the
operand word, in and out of range).
-/
import Py65.Props.C07
import Py65.Proofs.AsmGenEq

namespace Py65.Props.C07g
open Py65.Model Py65.Model.PyStr Py65.Model.AddrParser Py65.Model.Asm
open Py65.Proofs.Asm Py65.Proofs.AsmGenEq
open Py65.Props.C07 (Twin)
open Py65.Spec (Mode Mn Variant decode)
open Py65.Spec.Asm (opcodeOf Shape Outcome Refusal Stmt encode encodeIn encodeAbs Documented disp isZp fits
  operandBytes mnText)

variable {d : Dev} {v : Variant} {W : Nat}

/-- `asm_core` for the generated assembler: whenever the generated `normalize_and_split` reads the
statement text as mnemonic text `m` and the canonical operand text of an in-range `(shape, value)`, the
generated `assemble` returns exactly the documented encoding of `(m, shape, value)` at `pc`, or the
documented refusal (pair the device lacks: SyntaxError; branch out of reach, code past the top:
OverflowError). -/
theorem asm_core (hd : IsDevice d v W) (P : Parser) (s m : Str) (sh : Shape) (x pc : Int)
    (hin : Shape.inRange W sh x = true) (hs : splitG d P s = .ok m (canonText W sh x)) :
    assembleG d P s pc = toARes (encode v W ⟨m, sh, x⟩ pc) := by
  rw [assembleG_val hd.ok P s m sh x pc hin hs, C07.asm_core hd]

-- non-vacuity: the generated functions evaluated by the kernel (declared pair; pair the device lacks;
-- code past the top; 16-bit bytes)
example : splitG dev6502 ⟨16, 16, []⟩ " lda\t$1234 , x".toList = .ok "LDA".toList (canonText 8 .dirX 0x1234) ∧
    assembleG dev6502 ⟨16, 16, []⟩ " lda\t$1234 , x".toList 0 = .ok [0xbd, 0x34, 0x12] := by decide +kernel
example : splitG dev6502 ⟨16, 16, []⟩ "STX $1234,Y".toList = .ok "STX".toList (canonText 8 .dirY 0x1234) ∧
    assembleG dev6502 ⟨16, 16, []⟩ "STX $1234,Y".toList 0 = .syntax := by decide +kernel
example : assembleG dev6502 ⟨16, 16, []⟩ "LDA $10".toList 0xffff = .overflow ∧
    assembleG dev6502 ⟨16, 16, []⟩ "LDA $10".toList 0xfffe = .ok [0xa5, 0x10] := by decide +kernel
example : assembleG dev65org16 ⟨32, 16, []⟩ "LDA $12345".toList 0 = .ok [0xad, 0x2345, 0x1] := by decide +kernel
example : assembleG dev6502 ⟨16, 16, []⟩ "??? ".toList 0 = .syntax ∧
    assembleG dev6502 ⟨16, 16, []⟩ "LDA #256".toList 0 = .overflow := by decide +kernel

/-- `asm_zp_order` for the generated assembler: an operand below one page is assembled in the zero-page
form whenever the device declares that form for the mnemonic. -/
theorem asm_zp_order (hd : IsDevice d v W) (P : Parser) (s m : Str) {sh : Shape} {zp ab : Mode}
    (ht : Twin sh zp ab) (x pc : Int) (hx : 0 ≤ x ∧ x < 2 ^ W) (op : Nat) (hop : opcodeOf v m zp = some op)
    (hpc : pc + 2 ≤ 2 ^ (2 * W)) (hs : splitG d P s = .ok m (canonText W sh x)) :
    assembleG d P s pc = .ok [(op : Int), x] := by
  have hW := hd.ok.hW
  have hx2 : x < 2 ^ (2 * W) := by rcases hW with rfl | rfl <;> omega
  have hin : Shape.inRange W sh x = true := by cases ht <;> simp [Shape.inRange, hx.1, hx2]
  rw [assembleG_val hd.ok P s m sh x pc hin hs]
  exact C07.asm_zp_order hd m ht x pc hx op hop hpc

example : assembleG dev6502 ⟨16, 16, []⟩ "LDA $0010".toList 0x300 = .ok [0xa5, 0x10] := by decide +kernel

/-- `asm_abs_form` for the generated assembler: when the zero-page form does not apply, the absolute form
is assembled: opcode, low byte, high byte. -/
theorem asm_abs_form (hd : IsDevice d v W) (P : Parser) (s m : Str) {sh : Shape} {zp ab : Mode}
    (ht : Twin sh zp ab) (x pc : Int) (hx : 0 ≤ x ∧ x < 2 ^ (2 * W)) (hzp : opcodeOf v m zp = none ∨ 2 ^ W ≤ x)
    (op : Nat) (hop : opcodeOf v m ab = some op) (hpc : pc + 3 ≤ 2 ^ (2 * W))
    (hs : splitG d P s = .ok m (canonText W sh x)) :
    assembleG d P s pc = .ok [(op : Int), x % 2 ^ W, x / 2 ^ W] := by
  have hin : Shape.inRange W sh x = true := by cases ht <;> simp [Shape.inRange, hx.1, hx.2]
  rw [assembleG_val hd.ok P s m sh x pc hin hs]
  exact C07.asm_abs_form hd m ht x pc hx hzp op hop hpc

example : assembleG dev6502 ⟨16, 16, []⟩ "JMP $0010".toList 0 = .ok [0x4c, 0x10, 0x00] ∧
    assembleG dev6502 ⟨16, 16, []⟩ "LDA $1234".toList 0 = .ok [0xad, 0x34, 0x12] := by decide +kernel

/-- `asm_branch` for the generated assembler: a mnemonic that has only the relative mode assembles to
opcode and displacement byte exactly when the displacement fits the signed byte range and the two bytes
lie inside the address space; otherwise `OverflowError`. -/
theorem asm_branch (hd : IsDevice d v W) (P : Parser) (s m : Str) (op : Nat) (hrel : opcodeOf v m .rel = some op)
    (hz : opcodeOf v m .zpg = none) (ha : opcodeOf v m .abs = none) (target pc : Int)
    (ht : 0 ≤ target ∧ target < 2 ^ (2 * W)) (hs : splitG d P s = .ok m (canonText W .dir target)) :
    assembleG d P s pc =
      if -(2 ^ (W - 1)) ≤ disp W target pc ∧ disp W target pc < 2 ^ (W - 1) ∧ pc + 2 ≤ 2 ^ (2 * W)
      then .ok [(op : Int), disp W target pc % 2 ^ W] else .overflow := by
  have hin : Shape.inRange W .dir target = true := by simp [Shape.inRange, ht.1, ht.2]
  rw [assembleG_val hd.ok P s m .dir target pc hin hs]
  exact C07.asm_branch hd m op hrel hz ha target pc ht

example : assembleG dev6502 ⟨16, 16, []⟩ "BNE $0000".toList 0xfffe = .ok [0xd0, 0x00] ∧
    assembleG dev6502 ⟨16, 16, []⟩ "BNE $0081".toList 0 = .ok [0xd0, 0x7f] ∧
    assembleG dev6502 ⟨16, 16, []⟩ "BNE $0082".toList 0 = .overflow ∧
    assembleG dev6502 ⟨16, 16, []⟩ "bne $ff82".toList 0 = .ok [0xd0, 0x80] ∧
    assembleG dev6502 ⟨16, 16, []⟩ "BNE $0000".toList 0xffff = .overflow := by decide +kernel

/-- `asm_backend_sound` for the generated assembler ("never mis-assembles", back end): whatever opcode
and operand text the generated `normalize_and_split` hands over, bytes come back only if the operand text
is exactly the canonical text of some operand shape and in-range value, and the bytes are the documented
encoding of (opcode, shape, value). -/
theorem asm_backend_sound (hd : IsDevice d v W) (P : Parser) (s opcode operand : Str) (pc : Int) (bs : List Int)
    (hs : splitG d P s = .ok opcode operand) (h : assembleG d P s pc = .ok bs) :
    ∃ sh x, Shape.inRange W sh x = true ∧ operand = canonText W sh x ∧
      encode v W ⟨opcode, sh, x⟩ pc = .ok bs := by
  rw [assembleG_of_split d P s opcode operand pc hs] at h
  exact C07.asm_backend_sound hd opcode operand pc bs h

example : splitG dev6502 ⟨16, 16, []⟩ "LDA $0010 GARBAGE".toList = .ok "LDA".toList "$0010 GARBAGE".toList ∧
    assembleG dev6502 ⟨16, 16, []⟩ "LDA $0010 GARBAGE".toList 0 = .syntax := by decide +kernel

/-! ## string level -/

/-- `asm_text` for the generated assembler (address operands; see `C07.asm_text` for the form of the
text). -/
theorem asm_text (hd : IsDevice d v W) (P : Parser) (hPw : P.width = 2 * W) (hwf : P.WF) (sh : Shape)
    (hsh : Shape.isAddr sh = true) (w0 M w1 b1 T wEnd : Str) (gs : List Str) (cs : Str) (pc : Int)
    (hw0 : Blank w0) (hw1 : Blank w1) (hw1ne : w1 ≠ []) (hb1 : Blank b1) (hwEnd : Blank wEnd)
    (hM : IsMnem M) (hT : AddrWord T)
    (hgs : ∀ g ∈ gs, Blank g) (hlen : gs.length = cs.length) (hcs : upperS cs = afterOf sh) :
    assembleG d P (w0 ++ (M ++ (w1 ++ (leadOf sh ++ (b1 ++ (T ++ (decorate gs cs ++ wEnd))))))) pc =
      match numberL P T with
      | .ok x => toARes (encode v W ⟨upperS M, sh, x⟩ pc)
      | .key => .key
      | .overflow => .overflow
      | .other => .other "number" := by
  rw [assembleG_eq]
  exact C07.asm_text hd P hPw hwf sh hsh w0 M w1 b1 T wEnd gs cs pc hw0 hw1 hw1ne hb1 hwEnd hM hT hgs hlen hcs

/-- `asm_spelling_hex` for the generated assembler. -/
theorem asm_spelling_hex (hd : IsDevice d v W) (P : Parser) (hPw : P.width = 2 * W) (hwf : P.WF) (sh : Shape)
    (hsh : Shape.isAddr sh = true) (n z : Nat) (m : List Bool) (hn : n < 2 ^ (2 * W))
    (w0 M w1 b1 wEnd : Str) (gs : List Str) (cs : Str) (pc : Int)
    (hw0 : Blank w0) (hw1 : Blank w1) (hw1ne : w1 ≠ []) (hb1 : Blank b1) (hwEnd : Blank wEnd)
    (hM : IsMnem M) (hgs : ∀ g ∈ gs, Blank g) (hlen : gs.length = cs.length) (hcs : upperS cs = afterOf sh) :
    assembleG d P (w0 ++ (M ++ (w1 ++ (leadOf sh ++ (b1 ++ (('$' :: spelling 16 z m n) ++
      (decorate gs cs ++ wEnd))))))) pc = toARes (encode v W ⟨upperS M, sh, (n : Int)⟩ pc) := by
  rw [assembleG_eq]
  exact C07.asm_spelling_hex hd P hPw hwf sh hsh n z m hn w0 M w1 b1 wEnd gs cs pc hw0 hw1 hw1ne hb1 hwEnd hM
    hgs hlen hcs

/-- `asm_text_imm` for the generated assembler. -/
theorem asm_text_imm (hd : IsDevice d v W) (P : Parser) (w0 M w1 w wEnd : Str) (pc : Int)
    (hw0 : Blank w0) (hw1 : Blank w1) (hw1ne : w1 ≠ []) (hwEnd : Blank wEnd)
    (hM : IsMnem M) (hw : w ≠ []) (hwc : ∀ c ∈ w, isTargetChar c = true)
    (hq : w.head? ≠ some '\'' ∧ w.head? ≠ some '"') :
    assembleG d P (w0 ++ (M ++ (w1 ++ ('#' :: w ++ wEnd)))) pc =
      match numberL P w with
      | .ok x => toARes (encode v W ⟨upperS M, .imm, x⟩ pc)
      | .key => .key
      | .overflow => .overflow
      | .other => .other "number" := by
  rw [assembleG_eq]
  exact C07.asm_text_imm hd P w0 M w1 w wEnd pc hw0 hw1 hw1ne hwEnd hM hw hwc hq

/-- `asm_text_char` for the generated assembler. -/
theorem asm_text_char (hd : IsDevice d v W) (P : Parser) (w0 M w1 wEnd : Str) (q ch : Char) (close : Str)
    (pc : Int) (hw0 : Blank w0) (hw1 : Blank w1) (hw1ne : w1 ≠ []) (hwEnd : Blank wEnd)
    (hM : IsMnem M) (hq : q = '\'' ∨ q = '"') (hch : isTargetChar ch = true)
    (hclose : close = [] ∨ close = [q]) :
    assembleG d P (w0 ++ (M ++ (w1 ++ ('#' :: q :: ch :: close ++ wEnd)))) pc =
      toARes (encode v W ⟨upperS M, .imm, (ch.toNat : Int)⟩ pc) := by
  rw [assembleG_eq]
  exact C07.asm_text_char hd P w0 M w1 wEnd q ch close pc hw0 hw1 hw1ne hwEnd hM hq hch hclose

/-- `asm_text_acc` for the generated assembler. -/
theorem asm_text_acc (hd : IsDevice d v W) (P : Parser) (w0 M w1 wEnd : Str) (a : Char) (pc : Int)
    (hw0 : Blank w0) (hw1 : Blank w1) (hw1ne : w1 ≠ []) (hwEnd : Blank wEnd)
    (hM : IsMnem M) (ha : a = 'A' ∨ a = 'a') :
    assembleG d P (w0 ++ (M ++ (w1 ++ (a :: wEnd)))) pc = toARes (encode v W ⟨upperS M, .acc, 0⟩ pc) := by
  rw [assembleG_eq]
  exact C07.asm_text_acc hd P w0 M w1 wEnd a pc hw0 hw1 hw1ne hwEnd hM ha

/-- `asm_text_none` for the generated assembler. -/
theorem asm_text_none (hd : IsDevice d v W) (P : Parser) (w0 M wEnd : Str) (pc : Int)
    (hw0 : Blank w0) (hwEnd : Blank wEnd) (hM : IsMnem M) :
    assembleG d P (w0 ++ (M ++ wEnd)) pc = toARes (encode v W ⟨upperS M, .none, 0⟩ pc) := by
  rw [assembleG_eq]
  exact C07.asm_text_none hd P w0 M wEnd pc hw0 hwEnd hM

/-- `asm_ws_case` for the generated assembler: invariance under blanks/tabs and letter case. -/
theorem asm_ws_case (hd : IsDevice d v W) (P : Parser) (hPw : P.width = 2 * W) (hwf : P.WF) (sh : Shape)
    (hsh : Shape.isAddr sh = true) (T : Str) (hT : AddrWord T) (pc : Int)
    (w0 M w1 b1 wEnd : Str) (gs : List Str) (cs : Str)
    (hw0 : Blank w0) (hw1 : Blank w1) (hw1ne : w1 ≠ []) (hb1 : Blank b1) (hwEnd : Blank wEnd)
    (hM : IsMnem M) (hgs : ∀ g ∈ gs, Blank g) (hlen : gs.length = cs.length) (hcs : upperS cs = afterOf sh)
    (w0' M' w1' b1' wEnd' : Str) (gs' : List Str) (cs' : Str)
    (hw0' : Blank w0') (hw1' : Blank w1') (hw1ne' : w1' ≠ []) (hb1' : Blank b1') (hwEnd' : Blank wEnd')
    (hM' : IsMnem M') (hgs' : ∀ g ∈ gs', Blank g) (hlen' : gs'.length = cs'.length)
    (hcs' : upperS cs' = afterOf sh) (hMM : upperS M = upperS M') :
    assembleG d P (w0 ++ (M ++ (w1 ++ (leadOf sh ++ (b1 ++ (T ++ (decorate gs cs ++ wEnd))))))) pc =
    assembleG d P (w0' ++ (M' ++ (w1' ++ (leadOf sh ++ (b1' ++ (T ++ (decorate gs' cs' ++ wEnd'))))))) pc := by
  rw [assembleG_eq, assembleG_eq]
  exact C07.asm_ws_case hd P hPw hwf sh hsh T hT pc w0 M w1 b1 wEnd gs cs hw0 hw1 hw1ne hb1 hwEnd hM hgs hlen hcs
    w0' M' w1' b1' wEnd' gs' cs' hw0' hw1' hw1ne' hb1' hwEnd' hM' hgs' hlen' hcs' hMM

-- non-vacuity: `lda\t( $10 ) , y ` and `LDA ($10),Y` through the generated assembler
example : assembleG dev6502 ⟨16, 16, []⟩ " lda\t( $10 ) , y ".toList 0 = .ok [0xb1, 0x10] ∧
    assembleG dev6502 ⟨16, 16, []⟩ "LDA ($10),Y".toList 0 = .ok [0xb1, 0x10] ∧
    assembleG dev6502 ⟨16, 16, []⟩ "lda #'A'".toList 0 = .ok [0xa9, 0x41] ∧
    assembleG dev6502 ⟨16, 16, []⟩ "asl a".toList 0 = .ok [0x0a] ∧
    assembleG dev6502 ⟨16, 16, []⟩ " nop ".toList 0 = .ok [0xea] := by decide +kernel

/-- `asm_total` for the generated assembler: for every statement text whatsoever, every label table with
in-range values, every address: bytes, `SyntaxError`, `OverflowError` or `KeyError` -- no other exception
(`ValueError`, `IndexError`, `TypeError`, anything outside the modelled library subset) escapes. -/
theorem asm_total (hd : IsDevice d v W) (P : Parser) (hwf : P.WF) (s : Str) (pc : Int) (w : String) :
    assembleG d P s pc ≠ .other w := by
  rw [assembleG_eq]
  exact C07.asm_total hd P hwf s pc w

example : assembleG dev6502 ⟨16, 16, []⟩ "LDA #'".toList 0 = .syntax ∧
    assembleG dev6502 ⟨16, 16, []⟩ "LDA nolabel".toList 0 = .key ∧
    assembleG dev6502 ⟨16, 16, []⟩ "".toList 0 = .syntax := by decide +kernel

/-- `asm_sound_partial` for the generated assembler ("never mis-assembles", every text): if bytes come
back for ANY text then the generated `normalize_and_split` handed over an (opcode, operand) pair, the
operand is the canonical text of some shape and in-range value, and the bytes are the documented encoding
of (opcode, shape, value) at `pc`.  (Not proved, as in C07: that this triple is the one the ORIGINAL text
denotes under the token syntax -- carried by the correspondence and the soundness oracle of the check.) -/
theorem asm_sound_partial (hd : IsDevice d v W) (P : Parser) (s : Str) (pc : Int) (bs : List Int)
    (h : assembleG d P s pc = .ok bs) :
    ∃ opcode operand sh x, splitG d P s = .ok opcode operand ∧
      Shape.inRange W sh x = true ∧ operand = canonText W sh x ∧ encode v W ⟨opcode, sh, x⟩ pc = .ok bs := by
  rw [assembleG_eq] at h
  obtain ⟨oc, od, sh, x, h1, h2, h3, h4⟩ := C07.asm_sound_partial hd P s pc bs h
  exact ⟨oc, od, sh, x, by rw [splitG_eq]; exact h1, h2, h3, h4⟩

/-- `asm_sound` ("never mis-assembles", every text, FULL) for the GENERATED assembler: for every device, every
parser of the device's address width (`P.width = 2 W`) whose label values are in range (`P.WF`) and whose
label names contain no `(` (`LabelsNoParen P`), every text `s` and every address `pc`: if the generated
`assemble` returns bytes then the token sequence of `s` denotes a statement `(m, sh, w)` of the documented
syntax (`Spec.Asm.parse`), the operand word `w` has the value `x`, and the bytes are exactly the documented
encoding of `(m, sh, x)` at `pc`.  (`C07.asm_sound` through the unconditional `AsmGenEq.assemble_eq`.) -/
theorem asm_sound (hd : IsDevice d v W) (P : Parser) (hPw : P.width = 2 * W) (hwf : P.WF)
    (hlab : LabelsNoParen P) (s : Str) (pc : Int) (bs : List Int) (h : assembleG d P s pc = .ok bs) :
    ∃ m sh w x, Py65.Spec.Asm.parse s = some (m, sh, w) ∧ value P sh w = .ok x ∧
      encode v W ⟨m, sh, x⟩ pc = .ok bs := by
  rw [assembleG_eq] at h
  exact C07.asm_sound hd P hPw hwf hlab s pc bs h

/-- ... and in the header's wording: the bytes are a documented encoding of what the text denotes. -/
theorem asm_sound_documented (hd : IsDevice d v W) (P : Parser) (hPw : P.width = 2 * W) (hwf : P.WF)
    (hlab : LabelsNoParen P) (s : Str) (pc : Int) (bs : List Int) (h : assembleG d P s pc = .ok bs) :
    ∃ m sh w x, Py65.Spec.Asm.parse s = some (m, sh, w) ∧ value P sh w = .ok x ∧
      Documented v W ⟨m, sh, x⟩ pc bs := by
  rw [assembleG_eq] at h
  exact C07.asm_sound_documented hd P hPw hwf hlab s pc bs h

/-- non-vacuity of `asm_sound`: the hypotheses hold of a parser with labels, and the GENERATED assembler does
return bytes for a text with a label, blanks and an index (so the conclusion is about something). -/
example :
    (⟨16, 16, [("tbl".toList, 0x10), ("io.port".toList, 0xfe)]⟩ : Parser).width = 2 * 8 ∧
    (⟨16, 16, [("tbl".toList, 0x10), ("io.port".toList, 0xfe)]⟩ : Parser).WF ∧
    LabelsNoParen ⟨16, 16, [("tbl".toList, 0x10), ("io.port".toList, 0xfe)]⟩ ∧
    assembleG dev6502 ⟨16, 16, [("tbl".toList, 0x10), ("io.port".toList, 0xfe)]⟩ " lda\t( tbl ) , y ".toList 7
      = .ok [0xb1, 0x10] ∧
    assembleG dev6502 ⟨16, 16, [("tbl".toList, 0x10), ("io.port".toList, 0xfe)]⟩ "STA io.port".toList 0
      = .ok [0x85, 0xfe] :=
  ⟨by decide,
   (Py65.Proofs.Num.init_wf 16 16 [("tbl".toList, 0x10), ("io.port".toList, 0xfe)]
     ⟨16, 16, [("tbl".toList, 0x10), ("io.port".toList, 0xfe)]⟩ (by decide +kernel)).1,
   by decide, by decide +kernel, by decide +kernel⟩

end Py65.Props.C07g
